(* C10 — the queue BFS of distances.go (model: DistModel.bfs_loop) computes shortest distances:
   the invariant and its consequences, for both instances (with / without the source guard,
   with / without a target). *)
From Coq Require Import List Arith Bool ZArith Lia.
From Mamba Require Import Invariants.Graph Invariants.DistSpec Invariants.DistRef
  Invariants.DistRefProofs Invariants.DistModel.
Import ListNotations.

(* ------------------------------------------------------------------ arrays *)

Lemma upd_length : forall (l : list nat) i x, length (upd l i x) = length l.
Proof. induction l as [|a l IH]; intros [|i] x; simpl; auto. Qed.

Lemma nth_upd_same : forall (l : list nat) i x d, i < length l -> nth i (upd l i x) d = x.
Proof.
  induction l as [|a l IH]; intros [|i] x d H; simpl in *; try lia; auto. apply IH. lia.
Qed.

Lemma nth_upd_other : forall (l : list nat) i j x d, j <> i -> nth j (upd l i x) d = nth j l d.
Proof.
  induction l as [|a l IH]; intros [|i] [|j] x d H; simpl; auto; try lia.
Qed.

Definition zeros (l : list nat) : nat := count_occ Nat.eq_dec l 0.

Lemma zeros_upd : forall l i x, i < length l -> nth i l 0 = 0 -> x <> 0 ->
  S (zeros (upd l i x)) = zeros l.
Proof.
  unfold zeros. induction l as [|a l IH]; intros [|i] x Hi H0 Hx; simpl in *; try lia.
  - subst a. destruct (Nat.eq_dec x 0); [contradiction|]. destruct (Nat.eq_dec 0 0); [reflexivity|lia].
  - destruct (Nat.eq_dec a 0); rewrite <- (IH i x) by (try lia; assumption); reflexivity.
Qed.

Lemma list_max_upd : forall l i x, i < length l -> nth i l 0 = 0 ->
  list_max (upd l i x) = Nat.max x (list_max l).
Proof.
  induction l as [|a l IH]; intros [|i] x Hi H0; simpl in *; try lia.
  rewrite IH by (try lia; assumption). lia.
Qed.

Lemma nbrs_In : forall g k v, In v (nbrs g k) <-> v < gn g /\ gadj g k v = true.
Proof. intros. unfold nbrs. rewrite filter_In, in_vertices. tauto. Qed.

Lemma shortest_0 : forall g u x, shortest g u x 0 -> x = u.
Proof. intros g u x [H _]. inversion H; reflexivity. Qed.

Lemma shortest_self : forall g u, shortest g u u 0.
Proof. intros. split; [apply walk_nil | intros; lia]. Qed.

Definition hit (t : option nat) (v : nat) : bool :=
  match t with Some j => v =? j | None => false end.

Lemma hit_true : forall t v, hit t v = true -> t = Some v.
Proof. intros [j|] v H; simpl in H; [apply Nat.eqb_eq in H; congruence | discriminate]. Qed.

Lemma hit_false : forall t v, hit t v = false -> forall j, t = Some j -> v <> j.
Proof. intros t v H j ->. simpl in H. apply Nat.eqb_neq. exact H. Qed.

(* ------------------------------------------------------------------ the invariant *)

Section BFS.
Variable g : graph.
Hypothesis Hwf : wf g.
Variable src : nat.
Hypothesis Hsrc : src < gn g.
Variable guard : bool.
Variable tgt : option nat.
Hypothesis Htgt : forall j, tgt = Some j -> j <> src.

Definition mark (d : list nat) (x : nat) : Prop := x = src \/ nth x d 0 <> 0.

(* x has been dequeued and all its neighbours have been looked at *)
Definition fullproc (d Q : list nat) (x : nat) : Prop :=
  (x = src /\ (~ In src Q \/ nth src d 0 <> 0)) \/
  (x <> src /\ nth x d 0 <> 0 /\ ~ In x Q).

(* [Q] = the vertex being scanned followed by the queue; [nb] = its neighbours still to look at *)
Record inv (d Q nb : list nat) (seen e : nat) : Prop := {
  i_len : length d = gn g;
  i_dist : forall x, x <> src -> nth x d 0 <> 0 -> shortest g src x (nth x d 0);
  i_guard : guard = true -> nth src d 0 = 0;
  i_levels : exists A B L, Q = A ++ B /\ Forall (fun x => nth x d 0 = L) A /\
               Forall (fun x => nth x d 0 = S L) B /\ (A = [] -> B = []);
  i_closed : forall x y, fullproc d Q x -> gadj g x y = true -> mark d y;
  i_head : forall k Q', Q = k :: Q' -> forall y, gadj g k y = true -> ~ In y nb -> mark d y;
  i_queue : forall x, In x Q -> x < gn g /\ mark d x;
  i_tail : forall x, In x (tl Q) -> nth x d 0 <> 0;
  i_tgt : forall j, tgt = Some j -> nth j d 0 = 0;
  i_seen : seen + zeros d = gn g;
  i_e : e = list_max d
}.

Lemma mark_dec : forall d x, mark d x \/ ~ mark d x.
Proof.
  intros d x. unfold mark. destruct (Nat.eq_dec x src); [left; left; assumption|].
  destruct (Nat.eq_dec (nth x d 0) 0); [right; intros [?|?]; contradiction | left; right; assumption].
Qed.

Lemma levels_ge : forall d Q nb seen e k Q', inv d Q nb seen e -> Q = k :: Q' ->
  forall x, In x Q -> nth k d 0 <= nth x d 0.
Proof.
  intros d Q nb seen e k Q' Hinv HQ x Hx.
  destruct (i_levels _ _ _ _ _ Hinv) as [A [B [L [Heq [HA [HB Hne]]]]]].
  assert (Hk : nth k d 0 = L).
  { destruct A as [|a A'].
    - rewrite (Hne eq_refl) in Heq. simpl in Heq. congruence.
    - rewrite HQ in Heq. simpl in Heq. inversion Heq; subst a. inversion HA; assumption. }
  rewrite Heq in Hx. apply in_app_iff in Hx. rewrite Forall_forall in HA, HB.
  destruct Hx as [Hx | Hx]; [apply HA in Hx | apply HB in Hx]; lia.
Qed.

(* every vertex at distance <= the level of the head is marked *)
Lemma near_marked : forall d Q nb seen e k Q', inv d Q nb seen e -> Q = k :: Q' ->
  forall m x, shortest g src x m -> m <= nth k d 0 -> mark d x.
Proof.
  intros d Q nb seen e k Q' Hinv HQ.
  induction m as [|m IH]; intros x Hs Hm.
  - left. eapply shortest_0; eassumption.
  - replace (S m) with (m + 1) in Hs by lia.
    apply shortest_prefix in Hs. destruct Hs as [w [Hw Hwx]].
    assert (Hadj : gadj g w x = true).
    { inversion Hwx as [|a b c n0 H0 Ha]; subst. inversion H0; subst. exact Ha. }
    assert (Hmw : mark d w) by (apply (IH w Hw); lia).
    apply (i_closed _ _ _ _ _ Hinv w x); [|exact Hadj].
    destruct (Nat.eq_dec w src) as [-> | Hne].
    + left. split; [reflexivity|].
      destruct (Nat.eq_dec (nth src d 0) 0) as [H0 | H0]; [left | right; exact H0].
      intro Hin. pose proof (levels_ge _ _ _ _ _ _ _ Hinv HQ _ Hin). lia.
    + right. destruct Hmw as [? | Hnz]; [contradiction|]. split; [exact Hne|]. split; [exact Hnz|].
      intro Hin. pose proof (levels_ge _ _ _ _ _ _ _ Hinv HQ _ Hin) as Hge.
      pose proof (i_dist _ _ _ _ _ Hinv w Hne Hnz) as Hsw.
      pose proof (shortest_fun _ _ _ _ _ Hw Hsw). lia.
Qed.

(* the vertex discovered from the head is at distance level(head) + 1 *)
Lemma discover : forall d Q nb seen e k Q' v, inv d Q nb seen e -> Q = k :: Q' ->
  gadj g k v = true -> nth v d 0 = 0 -> v <> src ->
  shortest g src v (S (nth k d 0)).
Proof.
  intros d Q nb seen e k Q' v Hinv HQ Hadj Hv0 Hvs.
  assert (HkQ : In k Q) by (rewrite HQ; left; reflexivity).
  assert (Hwk : walk g src k (nth k d 0)).
  { destruct (Nat.eq_dec k src) as [-> | Hne].
    - destruct (Nat.eq_dec (nth src d 0) 0) as [-> | Hnz]; [apply walk_nil|].
      exfalso. assert (Hm : mark d v).
      { apply (i_closed _ _ _ _ _ Hinv src v); [|exact Hadj]. left. split; [reflexivity | right; exact Hnz]. }
      destruct Hm; contradiction.
    - destruct (i_queue _ _ _ _ _ Hinv k HkQ) as [_ [? | Hnz]]; [contradiction|].
      apply (i_dist _ _ _ _ _ Hinv k Hne Hnz). }
  split; [eapply walk_snoc; eassumption|].
  intros m Hm.
  destruct (reach_shortest g src v Hwf (ex_intro _ m Hm)) as [m0 Hs0].
  assert (m0 <= m) by (apply Hs0; exact Hm).
  destruct (le_lt_dec m0 (nth k d 0)) as [Hle | Hlt]; [|lia].
  exfalso. destruct (near_marked _ _ _ _ _ _ _ Hinv HQ _ _ Hs0 Hle); contradiction.
Qed.

(* ------------------------------------------------------------------ preservation *)

Lemma inv_init : forall d, length d = gn g -> (forall x, nth x d 0 = 0) ->
  inv d [src] (nbrs g src) 0 (list_max d).
Proof.
  intros d Hlen Hz.
  assert (Hzeros : zeros d = gn g).
  { rewrite <- Hlen. unfold zeros. clear Hlen. induction d as [|a d IH]; [reflexivity|].
    simpl. pose proof (Hz 0) as H0. simpl in H0. subst a.
    destruct (Nat.eq_dec 0 0); [|lia]. f_equal. apply IH. intro x. apply (Hz (S x)). }
  constructor; try assumption.
  - intros x _ H. rewrite Hz in H. lia.
  - intros _. apply Hz.
  - exists [src], [], 0. split; [reflexivity|]. split; [constructor; [apply Hz | constructor]|].
    split; [constructor | discriminate].
  - intros x y [[-> [Hn | Hn]] | [_ [Hn _]]] _.
    + exfalso. apply Hn. left. reflexivity.
    + rewrite Hz in Hn. lia.
    + rewrite Hz in Hn. lia.
  - intros k Q' Hk y Hadj Hn. inversion Hk; subst k. exfalso. apply Hn. apply nbrs_In.
    split; [|exact Hadj]. destruct Hwf as [Hr _]. apply Hr in Hadj. tauto.
  - intros x [<- | []]. split; [exact Hsrc | left; reflexivity].
  - intros x [].
  - intros j _. apply Hz.
  - reflexivity.
Qed.

(* a neighbour that is skipped (already marked, or the guarded source) *)
Lemma inv_skip : forall d k q v nb seen e, inv d (k :: q) (v :: nb) seen e -> mark d v ->
  inv d (k :: q) nb seen e.
Proof.
  intros d k q v nb seen e Hinv Hm. destruct Hinv. constructor; try assumption.
  intros k0 Q' HQ y Hadj Hn.
  destruct (Nat.eq_dec y v) as [-> | Hne]; [exact Hm|].
  apply (i_head0 k0 Q' HQ y Hadj). intros [H | H]; [congruence | contradiction].
Qed.

(* a neighbour that is discovered *)
Lemma inv_mark : forall d k q v nb seen e,
  inv d (k :: q) (v :: nb) seen e -> In v (nbrs g k) -> nth v d 0 = 0 ->
  (guard = true -> v <> src) -> (forall j, tgt = Some j -> v <> j) ->
  inv (upd d v (S (nth k d 0))) (k :: q ++ [v]) nb (S seen) (Nat.max (S (nth k d 0)) e).
Proof.
  intros d k q v nb seen e Hinv Hv Hv0 Hg Ht.
  apply nbrs_In in Hv. destruct Hv as [Hvn Hadj].
  assert (HvQ : ~ In v (k :: q)).
  { intros [<- | Hin].
    - destruct Hwf as [_ [_ Hl]]. rewrite Hl in Hadj. discriminate.
    - apply (i_tail _ _ _ _ _ Hinv v Hin). exact Hv0. }
  assert (Hlen : v < length d) by (rewrite (i_len _ _ _ _ _ Hinv); exact Hvn).
  set (t := S (nth k d 0)).
  set (d' := upd d v t).
  assert (Hsame : forall x, x <> v -> nth x d' 0 = nth x d 0) by (intros; apply nth_upd_other; assumption).
  assert (Hv' : nth v d' 0 = t) by (apply nth_upd_same; exact Hlen).
  assert (Hmono : forall x, mark d x -> mark d' x).
  { intros x [? | Hnz]; [left; assumption|]. right.
    destruct (Nat.eq_dec x v) as [-> | Hne]; [rewrite Hv'; unfold t; lia | rewrite Hsame; assumption]. }
  assert (HinQ : forall x, In x (k :: q) -> nth x d' 0 = nth x d 0).
  { intros x Hx. apply Hsame. intro; subst; contradiction. }
  constructor.
  - unfold d'. rewrite upd_length. apply (i_len _ _ _ _ _ Hinv).
  - intros x Hxs Hnz. destruct (Nat.eq_dec x v) as [-> | Hne].
    + rewrite Hv'. unfold t. eapply discover; try eassumption; reflexivity.
    + rewrite Hsame in * by assumption. apply (i_dist _ _ _ _ _ Hinv); assumption.
  - intros Hgt. rewrite Hsame; [apply (i_guard _ _ _ _ _ Hinv Hgt)|].
    intro; apply (Hg Hgt); congruence.
  - destruct (i_levels _ _ _ _ _ Hinv) as [A [B [L [Heq [HA [HB Hne]]]]]].
    assert (Hk : nth k d 0 = L).
    { destruct A as [|a A']; [rewrite (Hne eq_refl) in Heq; discriminate|].
      simpl in Heq. inversion Heq; subst a. inversion HA; assumption. }
    exists A, (B ++ [v]), L. split; [|split; [|split]].
    + change (k :: q ++ [v]) with ((k :: q) ++ [v]). rewrite Heq, app_assoc. reflexivity.
    + rewrite Forall_forall in *. intros x Hx. rewrite HinQ; [apply HA; exact Hx|].
      rewrite Heq. apply in_app_iff. left; exact Hx.
    + apply Forall_app. split.
      * rewrite Forall_forall in *. intros x Hx. rewrite HinQ; [apply HB; exact Hx|].
        rewrite Heq. apply in_app_iff. right; exact Hx.
      * constructor; [|constructor]. rewrite Hv'. unfold t. congruence.
    + intros ->. simpl in Heq. rewrite (Hne eq_refl) in Heq. discriminate.
  - intros x y Hfp Hxy. apply Hmono. apply (i_closed _ _ _ _ _ Hinv x y); [|exact Hxy].
    destruct Hfp as [[-> Hs] | [Hxs [Hnz Hni]]].
    + left. split; [reflexivity|]. destruct Hs as [Hs | Hs].
      * left. intro Hin. apply Hs. change (k :: q ++ [v]) with ((k :: q) ++ [v]).
        apply in_app_iff. left; exact Hin.
      * destruct (Nat.eq_dec src v) as [-> | Hne]; [left; exact HvQ|].
        right. rewrite Hsame in Hs; assumption.
    + right. split; [exact Hxs|].
      assert (Hxv : x <> v).
      { intros ->. apply Hni. change (k :: q ++ [v]) with ((k :: q) ++ [v]).
        apply in_app_iff. right; left; reflexivity. }
      rewrite Hsame in Hnz by exact Hxv. split; [exact Hnz|].
      intro Hin. apply Hni. change (k :: q ++ [v]) with ((k :: q) ++ [v]).
      apply in_app_iff. left; exact Hin.
  - intros k0 Q' HQ y Hky Hn. inversion HQ; subst k0 Q'.
    destruct (Nat.eq_dec y v) as [-> | Hne].
    + right. rewrite Hv'. unfold t. lia.
    + apply Hmono. apply (i_head _ _ _ _ _ Hinv k q eq_refl y Hky).
      intros [H | H]; [congruence | contradiction].
  - intros x Hx. change (k :: q ++ [v]) with ((k :: q) ++ [v]) in Hx. apply in_app_iff in Hx.
    destruct Hx as [Hx | [<- | []]].
    + destruct (i_queue _ _ _ _ _ Hinv x Hx) as [Hr Hm]. split; [exact Hr | apply Hmono; exact Hm].
    + split; [exact Hvn|]. right. rewrite Hv'. unfold t. lia.
  - simpl. intros x Hx. apply in_app_iff in Hx. destruct Hx as [Hx | [<- | []]].
    + rewrite Hsame; [apply (i_tail _ _ _ _ _ Hinv x Hx)|].
      intros ->. apply HvQ. right; exact Hx.
    + rewrite Hv'. unfold t. lia.
  - intros j Hj. rewrite Hsame; [apply (i_tgt _ _ _ _ _ Hinv j Hj)|]. intros ->. exact (Ht _ Hj eq_refl).
  - pose proof (i_seen _ _ _ _ _ Hinv) as Hs.
    pose proof (zeros_upd d v t Hlen Hv0 ltac:(unfold t; lia)) as Hz. fold d' in Hz. lia.
  - unfold d'. rewrite list_max_upd by assumption. rewrite (i_e _ _ _ _ _ Hinv). reflexivity.
Qed.

(* the scan of k is over: the next head starts *)
Lemma inv_next : forall d k q seen e, inv d (k :: q) [] seen e ->
  inv d q (nbrs g (hd 0 q)) seen e.
Proof.
  intros d k q seen e Hinv.
  constructor; try (destruct Hinv; assumption).
  - destruct (i_levels _ _ _ _ _ Hinv) as [A [B [L [Heq [HA [HB Hne]]]]]].
    destruct A as [|a A']; [rewrite (Hne eq_refl) in Heq; discriminate|].
    simpl in Heq. inversion Heq; subst a. inversion HA; subst.
    destruct A' as [|a' A''].
    + exists B, [], (S (nth k d 0)). split; [simpl; rewrite app_nil_r; reflexivity|].
      split; [exact HB|]. split; [constructor | reflexivity].
    + exists (a' :: A''), B, (nth k d 0). split; [reflexivity|]. split; [assumption|].
      split; [assumption | discriminate].
  - intros x y Hfp Hxy.
    destruct (Nat.eq_dec x k) as [-> | Hne].
    + apply (i_head _ _ _ _ _ Hinv k q eq_refl y Hxy). intros [].
    + apply (i_closed _ _ _ _ _ Hinv x y); [|exact Hxy].
      destruct Hfp as [[-> Hs] | [Hxs [Hnz Hni]]].
      * left. split; [reflexivity|]. destruct Hs as [Hs | Hs]; [left | right; exact Hs].
        intros [H | H]; [congruence | contradiction].
      * right. split; [exact Hxs|]. split; [exact Hnz|]. intros [H | H]; [congruence | contradiction].
  - intros k0 Q' HQ y Hky Hn. exfalso. apply Hn. subst q. simpl. apply nbrs_In.
    split; [|exact Hky]. destruct Hwf as [Hr _]. apply Hr in Hky. tauto.
  - intros x Hx. apply (i_queue _ _ _ _ _ Hinv x). right; exact Hx.
  - intros x Hx. apply (i_tail _ _ _ _ _ Hinv x). simpl. destruct q; [destruct Hx | right; exact Hx].
Qed.

(* ------------------------------------------------------------------ the scan *)

Lemma nth_error_nth0 : forall (l : list nat) i, i < length l -> nth_error l i = Some (nth i l 0).
Proof. intros. apply nth_error_nth'. assumption. Qed.

Lemma scan_correct : forall k nb d q seen e,
  inv d (k :: q) nb seen e -> (forall v, In v nb -> In v (nbrs g k)) ->
  match bfs_scan src guard tgt k nb (mkSt d q seen e) with
  | SFound r => exists j, tgt = Some j /\ shortest g src j r
  | SCont s' => inv (st_dist s') (k :: st_q s') [] (st_seen s') (st_e s') /\
                zeros (st_dist s') + length (st_q s') = zeros d + length q
  | SPanic => False
  end.
Proof.
  intros k. induction nb as [|v nb IH]; intros d q seen e Hinv Hnb; simpl.
  - split; [exact Hinv | reflexivity].
  - assert (Hvk : In v (nbrs g k)) by (apply Hnb; left; reflexivity).
    assert (Hnb' : forall v0, In v0 nb -> In v0 (nbrs g k)) by (intros; apply Hnb; right; assumption).
    pose proof Hvk as Hvk'. apply nbrs_In in Hvk'. destruct Hvk' as [Hvn Hadj].
    assert (Hlen : length d = gn g) by apply (i_len _ _ _ _ _ Hinv).
    destruct (guard && (v =? src)) eqn:Eg.
    + apply andb_true_iff in Eg. destruct Eg as [_ Ev]. apply Nat.eqb_eq in Ev.
      apply IH; [|exact Hnb']. eapply inv_skip; [exact Hinv | left; exact Ev].
    + rewrite nth_error_nth0 by lia.
      destruct (nth v d 0) as [|dv] eqn:Edv.
      * assert (Hkn : k < gn g) by (apply (i_queue _ _ _ _ _ Hinv k); left; reflexivity).
        rewrite nth_error_nth0 by lia.
        assert (Hgv : guard = true -> v <> src).
        { intros Hg Hv. rewrite Hg in Eg. apply Nat.eqb_eq in Hv. rewrite Hv in Eg. discriminate. }
        change (match tgt with Some j => v =? j | None => false end) with (hit tgt v).
        destruct (hit tgt v) eqn:Eh.
        -- apply hit_true in Eh. exists v. split; [exact Eh|].
           eapply discover; try eassumption; try reflexivity. apply Htgt. exact Eh.
        -- unfold wr.
           assert (Hlt : (v <? length d) = true) by (apply Nat.ltb_lt; lia). rewrite Hlt.
           pose proof (inv_mark _ _ _ _ _ _ _ Hinv Hvk Edv Hgv (hit_false _ _ Eh)) as Hm.
           specialize (IH _ _ _ _ Hm Hnb').
           simpl in IH.
           destruct (bfs_scan src guard tgt k nb _) as [r | s' |] eqn:Es; try exact IH.
           destruct IH as [Hi Hz]. split; [exact Hi|]. rewrite Hz, app_length. simpl.
           pose proof (zeros_upd d v (S (nth k d 0)) ltac:(lia) Edv ltac:(lia)). lia.
      * apply IH; [|exact Hnb']. eapply inv_skip; [exact Hinv|]. right. rewrite Edv. lia.
Qed.

(* ------------------------------------------------------------------ the loop *)

(* what holds when the queue has run empty *)
Definition final (d : list nat) (seen e : nat) : Prop :=
  length d = gn g /\
  (forall x, x <> src -> nth x d 0 <> 0 -> shortest g src x (nth x d 0)) /\
  (forall x, reach g src x -> mark d x) /\
  (guard = true -> nth src d 0 = 0) /\
  (forall j, tgt = Some j -> nth j d 0 = 0) /\
  seen + zeros d = gn g /\ e = list_max d.

Lemma inv_final : forall d nb seen e, inv d [] nb seen e -> final d seen e.
Proof.
  intros d nb seen e Hinv. destruct Hinv. unfold final.
  split; [assumption|]. split; [assumption|]. split; [|tauto].
  assert (Hgen : forall u x m, walk g u x m -> u = src -> mark d x).
  { intros u x m Hw. induction Hw as [|u w v m Hw IH Ha]; intro Hu; [left; exact Hu|].
    specialize (IH Hu).
    apply (i_closed0 w v); [|exact Ha].
    destruct (Nat.eq_dec w src) as [-> | Hne].
    - left. split; [reflexivity | left; intros []].
    - right. destruct IH as [? | Hnz]; [contradiction|]. split; [exact Hne|]. split; [exact Hnz | intros []]. }
  intros x [m Hw]. exact (Hgen _ _ _ Hw eq_refl).
Qed.

Lemma loop_correct : forall fuel d Q seen e,
  inv d Q (nbrs g (hd 0 Q)) seen e -> zeros d + length Q <= fuel ->
  match bfs_loop g src guard tgt fuel (mkSt d Q seen e) with
  | Done (inl r) => exists j, tgt = Some j /\ shortest g src j r
  | Done (inr s) => final (st_dist s) (st_seen s) (st_e s)
  | Panic => False
  | Fuel => False
  end.
Proof.
  induction fuel as [|f IH]; intros d Q seen e Hinv Hf.
  - destruct Q as [|k q]; simpl in *; [|lia]. eapply inv_final; eassumption.
  - destruct Q as [|k q]; simpl; [eapply inv_final; eassumption|].
    simpl in Hinv.
    pose proof (scan_correct k (nbrs g k) d q seen e Hinv (fun v H => H)) as Hs.
    destruct (bfs_scan src guard tgt k (nbrs g k) (mkSt d q seen e)) as [r | s' |]; try exact Hs.
    destruct Hs as [Hi Hz]. destruct s' as [d' q' seen' e']. simpl in *.
    apply IH; [eapply inv_next; exact Hi | lia].
Qed.

End BFS.
