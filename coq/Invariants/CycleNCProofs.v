(* C10 — the model of NumberOfCycles (CycleNCModel.v, on top of the model of
   BiconnectedComponents) never panics or runs out of fuel and returns the proved reference
   [cycles_ref] for every simple graph. *)
From Coq Require Import List Arith Bool ZArith Lia Permutation Sorted.
From Mamba Require Import Invariants.Graph Invariants.DistSpec Invariants.DistRef Invariants.DistRefProofs
  Invariants.DistModel Invariants.CycleRefProofs Invariants.ConnModel Invariants.ConnProofs Invariants.CycleCount
  Invariants.CycleIPModel Invariants.CycleIPProofs Invariants.BlockRefProofs Invariants.BlockModel Invariants.BlockProofsTop
  Invariants.GirthExactLists Invariants.CycleICOrbit Invariants.CycleNCModel Invariants.CycleNCSets
  Invariants.CycleNCSpace Invariants.CycleNCGraph Invariants.CycleNCBlocks.
Import ListNotations.

(* ------------------------------------------------------------------ counting over a partition *)

Lemma list_sum_map_add : forall (A : Type) (f h : A -> nat) l,
  list_sum (map (fun x => f x + h x) l) = list_sum (map f l) + list_sum (map h l).
Proof. intros A f h. induction l as [|x l IH]; simpl; [reflexivity | rewrite IH; lia]. Qed.

Lemma count_one : forall (A : Type) (P : A -> bool) (bl : list A) B, NoDup bl -> In B bl -> P B = true ->
  (forall B', In B' bl -> P B' = true -> B' = B) ->
  list_sum (map (fun B' => if P B' then 1 else 0) bl) = 1.
Proof.
  intros A P. induction bl as [|C bl IH]; intros B Hnd Hin HP Huniq; [destruct Hin|].
  inversion Hnd as [|? ? Hn Hnd']; subst. simpl. destruct Hin as [-> | Hin].
  - rewrite HP.
    assert (E : list_sum (map (fun B' => if P B' then 1 else 0) bl) = 0).
    { rewrite (list_sum_map_ext_in _ _ (fun _ => 0)); [apply list_sum_map_const0|].
      intros B' HB'. destruct (P B') eqn:E'; [|reflexivity]. exfalso. apply Hn.
      rewrite <- (Huniq B' (or_intror HB') E'). exact HB'. }
    rewrite E. reflexivity.
  - destruct (P C) eqn:EC.
    + exfalso. apply Hn. rewrite (Huniq C (or_introl eq_refl) EC). exact Hin.
    + rewrite (IH B Hnd' Hin HP); [reflexivity|]. intros B' HB'. apply Huniq. right. exact HB'.
Qed.

Lemma partition_count : forall (A E : Type) (P : A -> E -> bool) (bl : list A) (X : list E), NoDup bl ->
  (forall p, In p X -> exists B, In B bl /\ P B p = true /\ forall B', In B' bl -> P B' p = true -> B' = B) ->
  length X = list_sum (map (fun B => length (filter (P B) X)) bl).
Proof.
  intros A E P bl X Hnd. induction X as [|p X IH]; intro H.
  - simpl. symmetry. apply list_sum_map_const0.
  - destruct (H p (or_introl eq_refl)) as [B [HB [HP Hu]]].
    rewrite (list_sum_map_ext_in _ _ (fun B' => (if P B' p then 1 else 0) + length (filter (P B') X))).
    + rewrite list_sum_map_add, (count_one _ (fun B' => P B' p) bl B Hnd HB HP Hu).
      rewrite <- IH; [reflexivity|]. intros q Hq. apply H. right. exact Hq.
    + intros B' _. simpl. destruct (P B' p); reflexivity.
Qed.

Lemma sum_div_2L : forall (A : Type) (f : A -> nat) L l, (forall x, In x l -> exists k, f x = 2 * L * k) ->
  list_sum (map f l) / (2 * L) = list_sum (map (fun x => f x / (2 * L)) l).
Proof.
  intros A f L. induction l as [|x l IH]; intro H.
  - simpl. destruct L; reflexivity.
  - destruct (H x (or_introl eq_refl)) as [k Ek].
    change (list_sum (map f (x :: l))) with (f x + list_sum (map f l)).
    change (list_sum (map (fun x => f x / (2 * L)) (x :: l))) with (f x / (2 * L) + list_sum (map (fun x => f x / (2 * L)) l)).
    rewrite <- IH by (intros y Hy; apply H; right; exact Hy).
    destruct (Nat.eq_dec L 0) as [-> | HL].
    + rewrite Ek. reflexivity.
    + rewrite Ek, (div_2L L k HL). rewrite (Nat.mul_comm (2 * L) k). apply Nat.div_add_l. lia.
Qed.

(* ------------------------------------------------------------------ the loop over the blocks *)

Lemma block_facts : forall g B, wf g -> is_block g B ->
  NoDup B /\ (forall x, In x B -> x < gn g) /\ B <> [] /\ conn_within g B /\ length B <= gn g.
Proof.
  intros g B Hwf [[Hs [Hr [Hne [Hc _]]]] _].
  split; [apply sset_NoDup; exact Hs|]. split; [exact Hr|]. split; [exact Hne|]. split; [exact Hc|].
  rewrite <- (seq_length (gn g) 0). apply NoDup_incl_length; [apply sset_NoDup; exact Hs|].
  intros x Hx. apply in_seq. specialize (Hr x Hx). lia.
Qed.

Lemma blocks_loop : forall g, wf g -> forall bl r, (forall B, In B bl -> is_block g B) -> gn g < length r ->
  exists r', nc_blocks g bl r = Done r' /\ length r' = length r /\
    forall L, nth L r' 0 = nth L r 0 + list_sum (map (fun B => length (cycle_seqs (induced g B) L) / (2 * L)) bl).
Proof.
  intros g Hwf. induction bl as [|B bl IH]; intros r Hbl Hr.
  - exists r. split; [reflexivity|]. split; [reflexivity|]. intro L. simpl. lia.
  - destruct (block_facts g B Hwf (Hbl B (or_introl eq_refl))) as [Hnd [Hrange [Hne [Hconn Hlen]]]].
    assert (Hwfh : wf (induced g B)) by (apply induced_wf; exact Hwf).
    assert (Hstep : exists r1, nc_block g B r = Done r1 /\ length r1 = length r /\
              forall L, nth L r1 0 = nth L r 0 + length (cycle_seqs (induced g B) L) / (2 * L)).
    { rewrite nc_block_eq. destruct (Nat.ltb_spec (length B) 3) as [H3 | H3].
      - exists r. split; [reflexivity|]. split; [reflexivity|]. intro L.
        assert (E : cycle_seqs (induced g B) L = []).
        { destruct (cycle_seqs (induced g B) L) as [|p l] eqn:E; [reflexivity | exfalso].
          assert (Hp : In p (cycle_seqs (induced g B) L)) by (rewrite E; left; reflexivity).
          apply (cycle_seqs_spec _ L p Hwfh) in Hp. destruct Hp as [[Hpath [HL _]] _].
          apply is_path_length in Hpath. simpl in Hpath. lia. }
        rewrite E. simpl. destruct L; simpl; lia.
      - apply (nc_graph_correct (induced g B) Hwfh).
        + apply (block_connected g B Hnd Hconn).
        + simpl. lia.
        + simpl. lia. }
    destruct Hstep as [r1 [E1 [L1 N1]]].
    destruct (IH r1 (fun B' HB' => Hbl B' (or_intror HB')) ltac:(lia)) as [r2 [E2 [L2 N2]]].
    exists r2. simpl nc_blocks. rewrite E1. split; [exact E2|]. split; [lia|].
    intro L. rewrite N2, N1. simpl. lia.
Qed.

(* ------------------------------------------------------------------ NumberOfCycles *)

Theorem number_of_cycles_go_correct : forall g, wf g -> number_of_cycles_go g = Done (cycles_ref g).
Proof.
  intros g Hwf. unfold number_of_cycles_go. destruct (Nat.eqb_spec (gn g) 0) as [E0 | Hn0].
  - unfold cycles_ref. rewrite E0. reflexivity.
  - destruct (biconnected_components_go_correct g Hwf) as [bl [ar [Ebc [Hnd [Hbl _]]]]].
    rewrite Ebc. cbn [bind fst].
    destruct (blocks_loop g Hwf bl (repeat 0 (S (gn g)))) as [r' [E1 [L1 N1]]].
    + intros B HB. apply Hbl. exact HB.
    + rewrite repeat_length. lia.
    + rewrite E1. f_equal. rewrite repeat_length in L1.
      apply nth_ext with (d := 0) (d' := 0).
      * unfold cycles_ref. rewrite map_length, seq_length. exact L1.
      * intros L HL. rewrite L1 in HL. rewrite N1, nth_repeat0', Nat.add_0_l.
        unfold cycles_ref. rewrite nth_map_seq by exact HL.
        (* the cycle sequences of g, block by block *)
        rewrite (partition_count _ _ (fun B p => forallb (fun x => memb x B) p) bl (cycle_seqs g L) Hnd).
        -- rewrite sum_div_2L.
           ++ apply list_sum_map_ext_in. intros B HB. apply Hbl in HB.
              destruct (block_facts g B Hwf HB) as [HBnd [HBr _]].
              rewrite (block_cycles_length g Hwf B HBnd HBr L). reflexivity.
           ++ intros B HB. apply Hbl in HB. destruct (block_facts g B Hwf HB) as [HBnd [HBr _]].
              change (fun p => forallb (fun x => memb x B) p) with (inB B).
              rewrite <- (block_cycles_length g Hwf B HBnd HBr L).
              destruct (cycle_orbits (induced g B) L (induced_wf g B Hwf)) as [reps [_ [_ [_ [_ Hl]]]]].
              exists (length reps). exact Hl.
        -- intros p Hp. apply (cycle_seqs_spec g L p Hwf) in Hp. destruct Hp as [Hc _].
           destruct (cycle_in_block g p Hwf Hc) as [B [HB Hin]].
           exists B. split; [apply Hbl; exact HB|]. split; [apply (inB_iff B); exact Hin|].
           intros B' HB' HP'. apply (cycle_block_unique g p B' B Hwf Hc); [apply Hbl; exact HB' | exact HB | | exact Hin].
           apply (inB_iff B'). exact HP'.
Qed.
