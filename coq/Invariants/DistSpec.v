(* C10 — specification side: walks, reachability, shortest distance, paths and cycles as
   inductive / first-order definitions over the abstract graph of Invariants/Graph.v.
   Definitions and the elementary lemmas about walks only. *)
From Coq Require Import List Arith Bool Lia.
From Mamba Require Import Invariants.Graph.
Import ListNotations.

(* [walk g u v k]: there is a walk u = w0, w1, ..., wk = v with every consecutive pair adjacent. *)
Inductive walk (g : graph) : nat -> nat -> nat -> Prop :=
| walk_nil : forall u, walk g u u 0
| walk_snoc : forall u w v k, walk g u w k -> gadj g w v = true -> walk g u v (S k).

Definition reach (g : graph) (u v : nat) : Prop := exists k, walk g u v k.

(* the distance from u to v is d: a walk of length d and none shorter *)
Definition shortest (g : graph) (u v d : nat) : Prop :=
  walk g u v d /\ forall k, walk g u v k -> d <= k.

Definition connected (g : graph) : Prop :=
  forall u v, u < gn g -> v < gn g -> reach g u v.

(* ------------------------------------------------------------------ walks *)

Lemma walk_cons : forall g u w v k, gadj g u w = true -> walk g w v k -> walk g u v (S k).
Proof.
  intros g u w v k Huw H. induction H.
  - eapply walk_snoc; [apply walk_nil | exact Huw].
  - eapply walk_snoc; [apply IHwalk; exact Huw | exact H0].
Qed.

Lemma walk_app : forall g u w v a b, walk g u w a -> walk g w v b -> walk g u v (a + b).
Proof.
  intros g u w v a b H1 H2. induction H2.
  - rewrite Nat.add_0_r. exact H1.
  - rewrite Nat.add_succ_r. eapply walk_snoc; [apply IHwalk; exact H1 | exact H].
Qed.

Lemma walk_split : forall g u v a b, walk g u v (a + b) ->
  exists w, walk g u w a /\ walk g w v b.
Proof.
  intros g u v a b. revert v. induction b as [|b IH]; intros v H.
  - rewrite Nat.add_0_r in H. exists v. split; [exact H | apply walk_nil].
  - rewrite Nat.add_succ_r in H. inversion H; subst.
    destruct (IH _ H1) as [x [Hx1 Hx2]]. exists x. split; [exact Hx1|].
    eapply walk_snoc; eauto.
Qed.

Lemma walk_sym : forall g u v k, wf g -> walk g u v k -> walk g v u k.
Proof.
  intros g u v k [_ [Hs _]] H. induction H.
  - apply walk_nil.
  - eapply walk_cons; [|exact IHwalk]. rewrite Hs. exact H0.
Qed.

Lemma walk_first_step : forall g u v k, walk g u v (S k) -> exists w, gadj g u w = true.
Proof.
  intros g u v k H. change (S k) with (1 + k) in H. apply walk_split in H.
  destruct H as [w [H1 _]]. inversion H1 as [|a b c d Ha Hb]; subst. inversion Ha; subst.
  exists w. exact Hb.
Qed.

Lemma walk_in_range : forall g u v k, wf g -> walk g u v (S k) -> u < gn g /\ v < gn g.
Proof.
  intros g u v k Hwf H.
  destruct Hwf as [Hr _].
  split.
  - destruct (walk_first_step _ _ _ _ H) as [w Hw]. apply Hr in Hw. tauto.
  - inversion H as [|a b c d Ha Hb]; subst. apply Hr in Hb. tauto.
Qed.

Lemma walk_range_r : forall g u v k, wf g -> u < gn g -> walk g u v k -> v < gn g.
Proof.
  intros g u v k Hwf Hu H. destruct k.
  - inversion H; subst; exact Hu.
  - apply (walk_in_range _ _ _ _ Hwf H).
Qed.

Lemma reach_refl : forall g u, reach g u u.
Proof. intros; exists 0; apply walk_nil. Qed.

Lemma reach_sym : forall g u v, wf g -> reach g u v -> reach g v u.
Proof. intros g u v Hwf [k H]. exists k. apply walk_sym; assumption. Qed.

Lemma reach_trans : forall g u w v, reach g u w -> reach g w v -> reach g u v.
Proof. intros g u w v [a Ha] [b Hb]. exists (a + b). eapply walk_app; eauto. Qed.

Lemma shortest_fun : forall g u v d1 d2, shortest g u v d1 -> shortest g u v d2 -> d1 = d2.
Proof.
  intros g u v d1 d2 [H1 M1] [H2 M2]. apply M1 in H2. apply M2 in H1. lia.
Qed.

(* a prefix of a shortest walk is shortest *)
Lemma shortest_prefix : forall g u v a b, shortest g u v (a + b) ->
  exists w, shortest g u w a /\ walk g w v b.
Proof.
  intros g u v a b [H M]. apply walk_split in H. destruct H as [w [H1 H2]].
  exists w. split; [|exact H2]. split; [exact H1|].
  intros k Hk. pose proof (walk_app _ _ _ _ _ _ Hk H2) as H3. apply M in H3. lia.
Qed.

(* ------------------------------------------------------------------ paths and cycles *)

(* consecutive entries adjacent *)
Fixpoint chain (g : graph) (p : list nat) : Prop :=
  match p with
  | [] => True
  | x :: t => match t with [] => True | y :: _ => gadj g x y = true /\ chain g t end
  end.

(* a simple path written as the list of its vertices (k+1 vertices, k edges) *)
Definition is_path (g : graph) (p : list nat) : Prop :=
  p <> [] /\ NoDup p /\ chain g p /\ (forall x, In x p -> x < gn g).

(* a cycle written as a vertex sequence: a simple path on at least 3 vertices whose two ends
   are adjacent.  A cycle with L vertices (as a subgraph) has exactly 2L such sequences (L
   starting points, 2 directions). *)
Definition is_cycle_seq (g : graph) (p : list nat) : Prop :=
  is_path g p /\ 3 <= length p /\ gadj g (hd 0 p) (last p 0) = true.

(* no chord between entries at positions i < j of p other than j = i+1 *)
Definition chordless (g : graph) (p : list nat) : Prop :=
  forall i j, i < j -> j < length p -> j <> S i -> gadj g (nth i p 0) (nth j p 0) = false.

(* the subgraph induced on the vertices of p is exactly the path p *)
Definition is_induced_path (g : graph) (p : list nat) : Prop := is_path g p /\ chordless g p.

(* the subgraph induced on the vertices of p is exactly the cycle p: the only adjacent pairs
   are consecutive ones and the closing pair (first, last) *)
Definition is_induced_cycle_seq (g : graph) (p : list nat) : Prop :=
  is_cycle_seq g p /\
  forall i j, i < j -> j < length p -> j <> S i -> ~ (i = 0 /\ j = length p - 1) ->
    gadj g (nth i p 0) (nth j p 0) = false.

(* the girth is L: there is a cycle with L vertices and none with fewer *)
Definition girth_is (g : graph) (L : nat) : Prop :=
  (exists p, is_cycle_seq g p /\ length p = L) /\
  forall p, is_cycle_seq g p -> L <= length p.

Definition acyclic (g : graph) : Prop := forall p, ~ is_cycle_seq g p.
