(* C10 — the models of ConnectedComponent / ConnectedComponents (ConnModel.v) never panic or
   run out of fuel and return the reference components (DistRef.comp_ref / comps_ref). *)
From Coq Require Import List Arith Bool Lia Sorted Permutation.
From Mamba Require Import Invariants.Graph Invariants.DistSpec Invariants.DistRef
  Invariants.DistRefProofs Invariants.DistModel Invariants.ConnModel.
Import ListNotations.

(* ------------------------------------------------------------------ the swap-remove step *)

Lemma upd_app_mid : forall (A B : list nat) w x, upd (A ++ w :: B) (length A) x = A ++ x :: B.
Proof. induction A as [|a A IH]; intros; simpl; [reflexivity | rewrite IH; reflexivity]. Qed.

Lemma nth_error_app_mid : forall (A B : list nat) w, nth_error (A ++ w :: B) (length A) = Some w.
Proof. induction A as [|a A IH]; intros; simpl; [reflexivity | apply IH]. Qed.

Lemma removelast_app_cons : forall (A B : list nat) x, removelast (A ++ x :: B) = A ++ removelast (x :: B).
Proof. intros. apply removelast_app. discriminate. Qed.

Lemma nth_error_last : forall (l : list nat), l <> [] -> nth_error l (length l - 1) = Some (last l 0).
Proof.
  induction l as [|a l IH]; intro H; [contradiction|].
  destruct l as [|b l']; [reflexivity|].
  replace (length (a :: b :: l') - 1) with (S (length (b :: l') - 1)) by (simpl; lia).
  simpl nth_error. rewrite IH by discriminate. reflexivity.
Qed.

Lemma last_app_cons : forall (A B : list nat) w, last (A ++ w :: B) 0 = last (w :: B) 0.
Proof. intros. rewrite last_app by discriminate. reflexivity. Qed.

(* the slice after removing position |A| *)
Definition swapped (B : list nat) : list nat :=
  match B with [] => [] | _ => last B 0 :: removelast B end.

Lemma swap_remove : forall (A B : list nat) w,
  removelast (upd (A ++ w :: B) (length A) (last (w :: B) 0)) = A ++ swapped B.
Proof.
  intros A B w. rewrite upd_app_mid, removelast_app_cons. f_equal.
  destruct B as [|b B']; [reflexivity|]. unfold swapped.
  change (last (w :: b :: B') 0) with (last (b :: B') 0). reflexivity.
Qed.

Lemma swapped_In : forall B x, In x (swapped B) <-> In x B.
Proof.
  intros B x. destruct B as [|b B']; [reflexivity|]. unfold swapped.
  assert (Hne : b :: B' <> []) by discriminate.
  pose proof (app_removelast_last 0 Hne) as H. rewrite H at 3.
  rewrite in_app_iff. simpl. tauto.
Qed.

Lemma swapped_length : forall B, length (swapped B) = length B.
Proof.
  intros [|b B']; [reflexivity|]. unfold swapped.
  assert (Hne : b :: B' <> []) by discriminate.
  pose proof (app_removelast_last 0 Hne) as H. rewrite H at 2. rewrite app_length. simpl. lia.
Qed.

Lemma swapped_NoDup : forall B, NoDup B -> NoDup (swapped B).
Proof.
  intros [|b B'] H; [constructor|]. unfold swapped.
  assert (Hne : b :: B' <> []) by discriminate.
  pose proof (app_removelast_last 0 Hne) as E. rewrite E in H.
  apply NoDup_app_remove_l in H as H1.
  apply Permutation_NoDup with (l := removelast (b :: B') ++ [last (b :: B') 0]); [|exact H].
  apply Permutation_sym, Permutation_cons_append.
Qed.

(* ------------------------------------------------------------------ the search *)

Section Search.
Variable g : graph.
Hypothesis Hwf : wf g.
Variable v0 : nat.
(* the universe: the vertices not removed by earlier searches; closed under adjacency *)
Variable U : list nat.
Hypothesis HU : forall x, In x U -> x < gn g.
Hypothesis HUclosed : forall x y, In x U -> gadj g x y = true -> In y U.

(* [cur] = vertices popped whose scan is not finished (none or one) *)
Record sinv (unseen toCheck seen cur : list nat) : Prop := {
  s_nodup : NoDup (unseen ++ seen);
  s_univ : forall x, In x U <-> In x unseen \/ In x seen;
  s_reach : forall x, In x seen -> reach g v0 x;
  s_stack : forall x, In x toCheck -> In x seen;
  s_closed : forall x y, In x seen -> ~ In x toCheck -> ~ In x cur -> gadj g x y = true -> In y seen
}.

Lemma scan_correct : forall u i A B toCheck seen,
  length A = i -> sinv (A ++ B) toCheck seen [u] -> In u seen ->
  (forall x, In x B -> gadj g u x = false) ->
  exists un' tc' sn', cc_scan g u i (A ++ B) toCheck seen = Some (un', tc', sn') /\
    sinv un' tc' sn' [] /\ length un' + length tc' = length (A ++ B) + length toCheck.
Proof.
  intros u. induction i as [|i IH]; intros A B toCheck seen Hlen Hinv Hu HB.
  - destruct A; [|discriminate]. simpl.
    exists B, toCheck, seen. split; [reflexivity|]. split; [|reflexivity].
    simpl in Hinv. destruct Hinv. constructor; try assumption.
    intros x y Hx Hnt _ Hxy.
    destruct (Nat.eq_dec x u) as [-> | Hne].
    + assert (HyU : In y U) by (apply (HUclosed u y); [apply s_univ0; right; exact Hu | exact Hxy]).
      apply s_univ0 in HyU. destruct HyU as [HyB | Hys]; [|exact Hys].
      rewrite (HB y HyB) in Hxy. discriminate.
    + apply (s_closed0 x y Hx Hnt); [|exact Hxy]. intros [H | []]. congruence.
  - destruct (exists_last (l := A)) as [A' [w EA]]; [intro; subst; discriminate|]. subst A.
    rewrite app_length in Hlen. simpl in Hlen. assert (Hl' : length A' = i) by lia.
    rewrite <- app_assoc. simpl app.
    simpl cc_scan. rewrite <- Hl'. rewrite nth_error_app_mid.
    destruct (gadj g u w) eqn:Ea.
    + rewrite nth_error_last by (destruct A'; discriminate).
      rewrite last_app_cons, swap_remove.
      rewrite <- app_assoc in Hinv. simpl app in Hinv.
      assert (Hnd : NoDup ((A' ++ w :: B) ++ seen)) by apply (s_nodup _ _ _ _ Hinv).
      assert (Hw : ~ In w A' /\ ~ In w B /\ ~ In w seen).
      { rewrite <- app_assoc in Hnd. apply NoDup_remove_2 in Hnd.
        rewrite !in_app_iff in Hnd. tauto. }
      destruct (IH A' (swapped B) (w :: toCheck) (seen ++ [w]) Hl') as [un' [tc' [sn' [Hs [Hi Hlen']]]]].
      * constructor.
        -- (* NoDup *)
           rewrite <- app_assoc in Hnd. apply NoDup_remove_1 in Hnd.
           rewrite <- app_assoc.
           assert (Hp : Permutation (A' ++ swapped B ++ seen ++ [w]) (w :: A' ++ swapped B ++ seen)).
           { rewrite (app_assoc (swapped B)), app_assoc. apply Permutation_sym, Permutation_cons_append. }
           apply (Permutation_NoDup (Permutation_sym Hp)).
           constructor.
           ++ rewrite !in_app_iff, swapped_In. tauto.
           ++ (* replace B by swapped B inside a NoDup list *)
              apply NoDup_app_remove_l in Hnd as HBs.
              assert (HA' : NoDup A') by (apply NoDup_app_remove_r in Hnd; exact Hnd).
              clear - Hnd HBs HA'.
              induction A' as [|a A' IHA]; simpl in *.
              ** assert (Hd : NoDup B) by (apply NoDup_app_remove_r in Hnd; exact Hnd).
                 assert (Hsn : NoDup seen) by (apply NoDup_app_remove_l in Hnd; exact Hnd).
                 clear HBs HA'.
                 assert (Hdis : forall x, In x B -> ~ In x seen).
                 { intros x Hx Hs. revert Hnd Hx Hs. clear. induction B as [|b B IH]; intros Hnd Hx Hs; [destruct Hx|].
                   simpl in Hnd. inversion Hnd; subst. destruct Hx as [-> | Hx].
                   - apply H1. apply in_app_iff. right; exact Hs.
                   - apply IH; assumption. }
                 pose proof (swapped_NoDup B Hd) as Hsw.
                 revert Hsw. generalize (swapped_In B). generalize (swapped B). intros S HS Hsw.
                 induction Hsw as [|s S Hs Hsw IHs]; simpl; [exact Hsn|].
                 constructor.
                 --- rewrite in_app_iff. intros [H | H]; [contradiction|].
                     apply (Hdis s); [apply HS; left; reflexivity | exact H].
                 --- apply IHs. intros x. split; intro H.
                     +++ apply HS. right. exact H.
                     +++ admit.
              ** admit.
        -- admit.
        -- admit.
        -- admit.
        -- admit.
      * admit.
      * admit.
      * admit.
    + admit.
Abort.

End Search.
