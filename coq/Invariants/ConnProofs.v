(* C10 — the models of ConnectedComponent / ConnectedComponents (ConnModel.v) never panic or
   run out of fuel and return the reference components (DistRef.comp_ref / comps_ref). *)
From Coq Require Import List Arith Bool Lia Sorted Permutation.
From Mamba Require Import Invariants.Graph Invariants.DistSpec Invariants.DistRef
  Invariants.DistRefProofs Invariants.DistModel Invariants.ConnModel.
Import ListNotations.

Lemma nodup_app_r : forall (l1 l2 : list nat), NoDup (l1 ++ l2) -> NoDup l2.
Proof. induction l1 as [|a l1 IH]; intros l2 H; [exact H|]. inversion H; subst. apply IH. assumption. Qed.

Lemma nodup_app_l : forall (l1 l2 : list nat), NoDup (l1 ++ l2) -> NoDup l1.
Proof.
  induction l1 as [|a l1 IH]; intros l2 H; [constructor|].
  inversion H as [|? ? Hn Hd]; subst. constructor.
  - intro Hin. apply Hn. apply in_app_iff. left; exact Hin.
  - apply (IH l2). assumption.
Qed.

Lemma nodup_app_disj : forall (l1 l2 : list nat) x, NoDup (l1 ++ l2) -> In x l1 -> In x l2 -> False.
Proof.
  induction l1 as [|a l1 IH]; intros l2 x H H1 H2; [destruct H1|].
  inversion H as [|? ? Hn Hd]; subst.
  destruct H1 as [-> | H1]; [apply Hn; apply in_app_iff; right; exact H2 | apply (IH l2 x); assumption].
Qed.

(* ------------------------------------------------------------------ the swap-remove step *)

Lemma upd_app_mid : forall (A B : list nat) w x, upd (A ++ w :: B) (length A) x = A ++ x :: B.
Proof. induction A as [|a A IH]; intros; simpl; [reflexivity | rewrite IH; reflexivity]. Qed.

Lemma nth_error_app_mid : forall (A B : list nat) w, nth_error (A ++ w :: B) (length A) = Some w.
Proof. induction A as [|a A IH]; intros; simpl; [reflexivity | apply IH]. Qed.

Lemma removelast_app_cons : forall (A B : list nat) x, removelast (A ++ x :: B) = A ++ removelast (x :: B).
Proof. intros. apply removelast_app. discriminate. Qed.

Lemma nth_error_last : forall (l : list nat), l <> [] -> nth_error l (length l - 1) = Some (last l 0).
Proof.
  induction l as [|a l IH]; intro H; [contradiction|].
  destruct l as [|b l']; [reflexivity|].
  replace (length (a :: b :: l') - 1) with (S (length (b :: l') - 1)) by (simpl; lia).
  change (nth_error (a :: b :: l') (S (length (b :: l') - 1))) with (nth_error (b :: l') (length (b :: l') - 1)).
  rewrite IH by discriminate. reflexivity.
Qed.

Lemma last_app_cons : forall (A B : list nat) w, last (A ++ w :: B) 0 = last (w :: B) 0.
Proof.
  induction A as [|a A IH]; intros B w; [reflexivity|].
  simpl app. rewrite <- (IH B w). destruct (A ++ w :: B) eqn:E; [destruct A; discriminate | reflexivity].
Qed.

(* the slice after removing position |A| *)
Definition swapped (B : list nat) : list nat :=
  match B with [] => [] | _ => last B 0 :: removelast B end.

Lemma swap_remove : forall (A B : list nat) w,
  removelast (upd (A ++ w :: B) (length A) (last (w :: B) 0)) = A ++ swapped B.
Proof.
  intros A B w. rewrite upd_app_mid, removelast_app_cons. f_equal.
  destruct B as [|b B']; [reflexivity|]. unfold swapped.
  change (last (w :: b :: B') 0) with (last (b :: B') 0). reflexivity.
Qed.

Lemma swapped_perm : forall B, Permutation (swapped B) B.
Proof.
  intros [|b B']; [constructor|]. unfold swapped.
  assert (Hne : b :: B' <> []) by discriminate.
  pose proof (app_removelast_last 0 Hne) as E.
  eapply Permutation_trans; [apply Permutation_cons_append|].
  rewrite <- E. apply Permutation_refl.
Qed.

Lemma swapped_In : forall B x, In x (swapped B) <-> In x B.
Proof.
  intros B x. split; apply Permutation_in; [|apply Permutation_sym]; apply swapped_perm.
Qed.

Lemma swapped_length : forall B, length (swapped B) = length B.
Proof. intro B. apply Permutation_length, swapped_perm. Qed.

(* ------------------------------------------------------------------ the search *)

Section Search.
Variable g : graph.
Hypothesis Hwf : wf g.
Variable v0 : nat.
(* the universe: the vertices not removed by earlier searches; closed under adjacency *)
Variable U : list nat.
Hypothesis HUclosed : forall x y, In x U -> gadj g x y = true -> In y U.

(* [cur] = the vertex popped whose scan is not finished (none or one) *)
Record sinv (unseen toCheck seen cur : list nat) : Prop := {
  s_nodup : NoDup (unseen ++ seen);
  s_univ : forall x, In x U <-> In x unseen \/ In x seen;
  s_root : In v0 seen;
  s_reach : forall x, In x seen -> reach g v0 x;
  s_stack : forall x, In x toCheck -> In x seen;
  s_closed : forall x y, In x seen -> ~ In x toCheck -> ~ In x cur -> gadj g x y = true -> In y seen
}.

Lemma scan_correct : forall u i A B toCheck seen,
  length A = i -> sinv (A ++ B) toCheck seen [u] -> In u seen ->
  (forall x, In x B -> gadj g u x = false) ->
  exists un' tc' sn', cc_scan g u i (A ++ B) toCheck seen = Some (un', tc', sn') /\
    sinv un' tc' sn' [] /\ length un' + length tc' = length (A ++ B) + length toCheck.
Proof.
  intros u. induction i as [|i IH]; intros A B toCheck seen Hlen Hinv Hu HB.
  - destruct A; [|discriminate]. simpl.
    exists B, toCheck, seen. split; [reflexivity|]. split; [|reflexivity].
    simpl in Hinv. destruct Hinv. constructor; try assumption.
    intros x y Hx Hnt _ Hxy.
    destruct (Nat.eq_dec x u) as [-> | Hne].
    + assert (HyU : In y U) by (apply (HUclosed u y); [apply s_univ0; right; exact Hu | exact Hxy]).
      apply s_univ0 in HyU. destruct HyU as [HyB | Hys]; [|exact Hys].
      rewrite (HB y HyB) in Hxy. discriminate.
    + apply (s_closed0 x y Hx Hnt); [|exact Hxy]. intros [H | []]. congruence.
  - destruct (exists_last (l := A)) as [A' [w EA]]; [intro; subst; discriminate|]. subst A.
    rewrite app_length in Hlen. simpl in Hlen. assert (Hl' : length A' = i) by lia.
    rewrite <- app_assoc in *. simpl app in *.
    simpl cc_scan. rewrite <- Hl'. rewrite nth_error_app_mid.
    destruct (gadj g u w) eqn:Ea.
    + rewrite nth_error_last by (destruct A'; discriminate).
      rewrite last_app_cons, swap_remove.
      pose proof (s_nodup _ _ _ _ Hinv) as Hnd.
      assert (Hperm : Permutation ((A' ++ w :: B) ++ seen) ((A' ++ swapped B) ++ seen ++ [w])).
      { rewrite <- !app_assoc. apply Permutation_app_head. simpl.
        eapply Permutation_trans; [apply Permutation_cons_append|].
        rewrite <- app_assoc. apply Permutation_app_tail. apply Permutation_sym, swapped_perm. }
      assert (HwU : forall x, In x (A' ++ w :: B) <-> x = w \/ In x (A' ++ swapped B)).
      { intro x. rewrite !in_app_iff, swapped_In. simpl. intuition. }
      assert (Hwn : ~ In w seen).
      { intro H. rewrite <- app_assoc in Hnd. apply NoDup_remove_2 in Hnd. apply Hnd.
        rewrite !in_app_iff. tauto. }
      destruct (IH A' (swapped B) (w :: toCheck) (seen ++ [w]) Hl') as [un' [tc' [sn' [Hs [Hi Hlen']]]]].
      * constructor.
        -- apply (Permutation_NoDup Hperm Hnd).
        -- intro x. rewrite (s_univ _ _ _ _ Hinv x), HwU, !in_app_iff. simpl.
           assert (x = w <-> w = x) by (split; congruence). tauto.
        -- apply in_app_iff. left. apply (s_root _ _ _ _ Hinv).
        -- intros x Hx. apply in_app_iff in Hx. destruct Hx as [Hx | [<- | []]].
           ++ apply (s_reach _ _ _ _ Hinv x Hx).
           ++ eapply reach_trans; [apply (s_reach _ _ _ _ Hinv u Hu)|].
              exists 1. eapply walk_snoc; [apply walk_nil | exact Ea].
        -- intros x [<- | Hx]; apply in_app_iff; [right; left; reflexivity | left].
           apply (s_stack _ _ _ _ Hinv x Hx).
        -- intros x y Hx Hnt Hnc Hxy. apply in_app_iff. left.
           apply in_app_iff in Hx. destruct Hx as [Hx | [<- | []]].
           ++ apply (s_closed _ _ _ _ Hinv x y Hx); try assumption. intro H. apply Hnt. right; exact H.
           ++ exfalso. apply Hnt. left; reflexivity.
      * apply in_app_iff. left; exact Hu.
      * intros x Hx. apply HB. apply swapped_In. exact Hx.
      * exists un', tc', sn'. split; [rewrite Hl'; exact Hs|]. split; [exact Hi|].
        rewrite Hlen'. rewrite !app_length, swapped_length. simpl. lia.
    + rewrite Hl'. apply (IH A' (w :: B) toCheck seen Hl' Hinv Hu).
      intros x [<- | Hx]; [exact Ea | apply HB; exact Hx].
Qed.

Lemma loop_correct : forall fuel unseen toCheck seen,
  sinv unseen toCheck seen [] -> length unseen + length toCheck <= fuel ->
  exists un' sn', cc_loop g fuel unseen toCheck seen = Done (un', sn') /\ sinv un' [] sn' [].
Proof.
  induction fuel as [|f IH]; intros unseen toCheck seen Hinv Hf.
  - destruct toCheck as [|u tc]; [|simpl in Hf; lia]. exists unseen, seen. split; [reflexivity | exact Hinv].
  - destruct toCheck as [|u tc]; [exists unseen, seen; split; [reflexivity | exact Hinv]|].
    simpl cc_loop.
    assert (Hu : In u seen) by (apply (s_stack _ _ _ _ Hinv); left; reflexivity).
    assert (Hinv' : sinv (unseen ++ []) tc seen [u]).
    { rewrite app_nil_r. destruct Hinv. constructor; try assumption.
      - intros x Hx. apply s_stack0. right; exact Hx.
      - intros x y Hx Hnt Hnc Hxy. apply (s_closed0 x y Hx); [|intros []|exact Hxy].
        intros [<- | H]; [apply Hnc; left; reflexivity | contradiction]. }
    destruct (scan_correct u (length unseen) unseen [] tc seen eq_refl Hinv' Hu ltac:(intros x []))
      as [un' [tc' [sn' [Hs [Hi Hlen]]]]].
    rewrite app_nil_r in Hs, Hlen. rewrite Hs.
    apply IH; [exact Hi|]. simpl in Hf. lia.
Qed.

(* at the end [seen] is the class of v0 *)
Lemma final_class : forall un sn, sinv un [] sn [] -> forall x, In x sn <-> reach g v0 x.
Proof.
  intros un sn Hinv x. split; [apply (s_reach _ _ _ _ Hinv)|].
  intros [m Hw].
  assert (Hgen : forall a b m, walk g a b m -> a = v0 -> In b sn).
  { intros a b m0 H. induction H as [|a c b m0 H IHw Ha]; intro E.
    - subst. apply (s_root _ _ _ _ Hinv).
    - apply (s_closed _ _ _ _ Hinv c b (IHw E)); [intros [] | intros [] | exact Ha]. }
  exact (Hgen _ _ _ Hw eq_refl).
Qed.

End Search.

(* ------------------------------------------------------------------ sorting *)

Lemma insert_In : forall x l y, In y (insert x l) <-> y = x \/ In y l.
Proof.
  intros x l y. induction l as [|a l IH]; simpl; [intuition|].
  destruct (x <=? a); simpl; [intuition|]. rewrite IH. intuition.
Qed.

Lemma isort_In : forall l y, In y (isort l) <-> In y l.
Proof.
  induction l as [|a l IH]; intro y; simpl; [tauto|]. rewrite insert_In, IH. intuition.
Qed.

Lemma insert_sorted : forall x l, StronglySorted lt l -> ~ In x l -> StronglySorted lt (insert x l).
Proof.
  intros x l Hs Hn. induction Hs as [|a l Hs IH Hall]; simpl; [constructor; constructor|].
  destruct (x <=? a) eqn:E.
  - apply Nat.leb_le in E. assert (x < a) by (assert (x <> a) by (intro; subst; apply Hn; left; reflexivity); lia).
    constructor; [constructor; assumption|]. constructor; [assumption|].
    rewrite Forall_forall in *. intros y Hy. specialize (Hall y Hy). lia.
  - apply Nat.leb_gt in E. constructor.
    + apply IH. intro H. apply Hn. right; exact H.
    + rewrite Forall_forall in *. intros y Hy. apply insert_In in Hy. destruct Hy as [-> | Hy]; [lia | apply Hall; exact Hy].
Qed.

Lemma isort_sorted : forall l, NoDup l -> StronglySorted lt (isort l).
Proof.
  induction l as [|a l IH]; intro H; simpl; [constructor|]. inversion H; subst.
  apply insert_sorted; [apply IH; assumption|]. rewrite isort_In. assumption.
Qed.

Lemma sorted_lt_ext : forall l1 l2, StronglySorted lt l1 -> StronglySorted lt l2 ->
  (forall x, In x l1 <-> In x l2) -> l1 = l2.
Proof.
  induction l1 as [|a l1 IH]; intros l2 H1 H2 Hext.
  - destruct l2 as [|b l2]; [reflexivity|]. exfalso. apply (Hext b). left; reflexivity.
  - destruct l2 as [|b l2]; [exfalso; apply (Hext a); left; reflexivity|].
    inversion H1 as [|? ? Hs1 Ha]; subst. inversion H2 as [|? ? Hs2 Hb]; subst.
    rewrite Forall_forall in Ha, Hb.
    assert (a = b).
    { assert (Hab : In a (b :: l2)) by (apply Hext; left; reflexivity).
      assert (Hba : In b (a :: l1)) by (apply Hext; left; reflexivity).
      destruct Hab as [-> | Hab]; [reflexivity|]. destruct Hba as [-> | Hba]; [reflexivity|].
      apply Ha in Hba. apply Hb in Hab. lia. }
    subst b. f_equal. apply IH; try assumption.
    intro x. split; intro Hx.
    + assert (Hi : In x (a :: l2)) by (apply Hext; right; exact Hx).
      destruct Hi as [<- | Hi]; [|exact Hi]. apply Ha in Hx. lia.
    + assert (Hi : In x (a :: l1)) by (apply Hext; right; exact Hx).
      destruct Hi as [<- | Hi]; [|exact Hi]. apply Hb in Hx. lia.
Qed.

(* the sorted [seen] of a finished search over a universe of vertices is the reference component *)
Lemma sorted_seen_comp : forall g v U un sn, wf g -> (forall x, In x U -> x < gn g) ->
  sinv g v U un [] sn [] -> isort sn = comp_ref g v.
Proof.
  intros g v U un sn Hwf HU Hinv. apply sorted_lt_ext.
  - apply isort_sorted. pose proof (s_nodup _ _ _ _ _ _ _ Hinv) as H. apply nodup_app_r in H. exact H.
  - apply comp_ref_sorted.
  - intro x. rewrite isort_In, (comp_ref_In g v x Hwf). split.
    + intro Hx. split.
      * apply HU. apply (s_univ _ _ _ _ _ _ _ Hinv). right; exact Hx.
      * apply (s_reach _ _ _ _ _ _ _ Hinv x Hx).
    + intros [_ Hr]. apply (final_class g v U un sn Hinv). exact Hr.
Qed.

(* ------------------------------------------------------------------ ConnectedComponent *)

Lemma seq_split_at : forall n v, v < n -> seq 0 n = seq 0 v ++ v :: seq (S v) (n - S v).
Proof.
  intros n v H. remember (n - S v) as k eqn:Ek.
  assert (E : n = v + S k) by lia. rewrite E. rewrite seq_app. reflexivity.
Qed.

Lemma adj_closed_vertices : forall g, wf g ->
  forall x y, In x (vertices g) -> gadj g x y = true -> In y (vertices g).
Proof. intros g [Hr _] x y _ H. apply in_vertices. apply Hr in H. tauto. Qed.

Theorem connected_component_go_correct : forall g v, wf g -> v < gn g ->
  connected_component_go g v = Done (comp_ref g v).
Proof.
  intros g v Hwf Hv. unfold connected_component_go.
  assert (En : (gn g =? 0) = false) by (apply Nat.eqb_neq; lia). rewrite En.
  unfold vertices. rewrite (seq_split_at (gn g) v Hv).
  set (A := seq 0 v). set (B := seq (S v) (gn g - S v)).
  assert (HlA : length A = v) by (unfold A; apply seq_length).
  rewrite nth_error_last by (destruct A; discriminate).
  rewrite <- HlA at 2. rewrite nth_error_app_mid.
  rewrite <- HlA at 2. rewrite last_app_cons, swap_remove.
  assert (Hperm : Permutation (A ++ v :: B) ((A ++ swapped B) ++ [v])).
  { eapply Permutation_trans; [apply Permutation_sym, Permutation_middle|].
    eapply Permutation_trans; [|apply Permutation_cons_append].
    constructor. apply Permutation_app_head. apply Permutation_sym, swapped_perm. }
  assert (Hvs : vertices g = A ++ v :: B) by (unfold vertices; apply seq_split_at; exact Hv).
  assert (Hinv : sinv g v (vertices g) (A ++ swapped B) [v] [v] []).
  { constructor.
    - apply (Permutation_NoDup Hperm). rewrite <- Hvs. apply seq_NoDup.
    - intro x. rewrite Hvs. rewrite <- in_app_iff. split; apply Permutation_in; [|apply Permutation_sym]; exact Hperm.
    - left; reflexivity.
    - intros x [<- | []]. apply reach_refl.
    - intros x H; exact H.
    - intros x y Hx Hn. contradiction. }
  destruct (loop_correct g v (vertices g) (adj_closed_vertices g Hwf) (S (gn g)) _ _ _ Hinv)
    as [un' [sn' [Hl Hfin]]].
  { pose proof (Permutation_length Hperm) as HL. rewrite !app_length in HL. cbn [length] in HL.
    assert (HN : length (A ++ v :: B) = gn g) by (rewrite <- Hvs; unfold vertices; apply seq_length).
    rewrite app_length in HN. cbn [length] in HN. rewrite app_length. cbn [length]. lia. }
  rewrite Hl. f_equal.
  apply (sorted_seen_comp g v (vertices g) un' sn' Hwf); [|exact Hfin].
  intros x Hx. apply in_vertices. exact Hx.
Qed.

(* ------------------------------------------------------------------ ConnectedComponents *)

Record oinv (g : graph) (unseen : list nat) (acc : list (list nat)) : Prop := {
  o_nodup : NoDup unseen;
  o_range : forall x, In x unseen -> x < gn g;
  o_closed : forall x y, In x unseen -> gadj g x y = true -> In y unseen;
  o_comps : forall c, In c acc -> exists v, v < gn g /\ c = comp_ref g v /\ forall x, In x c -> ~ In x unseen;
  o_cover : forall x, x < gn g -> In x unseen \/ exists c, In c acc /\ In x c;
  o_acc : NoDup acc
}.

Lemma ccs_loop_correct : forall g, wf g -> forall fuel unseen acc,
  oinv g unseen acc -> length unseen <= fuel ->
  exists cs, ccs_loop g fuel unseen acc = Done cs /\ oinv g [] cs.
Proof.
  intros g Hwf. induction fuel as [|f IH]; intros unseen acc Hinv Hf.
  - destruct unseen; [|simpl in Hf; lia]. exists acc. split; [reflexivity | exact Hinv].
  - destruct unseen as [|a t] eqn:EU; [exists acc; split; [reflexivity | exact Hinv]|].
    rewrite <- EU in *. assert (Hne : unseen <> []) by (rewrite EU; discriminate).
    replace (ccs_loop g (S f) unseen acc) with
      (match cc_loop g (S (gn g)) (removelast unseen) [last unseen 0] [last unseen 0] with
       | Done (un', seen) => ccs_loop g f un' (acc ++ [isort seen])
       | Panic => Panic | Fuel => Fuel end) by (rewrite EU; reflexivity).
    clear EU a t.
    set (v := last unseen 0). set (un := removelast unseen).
    assert (E : unseen = un ++ [v]) by (apply app_removelast_last; exact Hne).
    assert (Hsinv : sinv g v unseen un [v] [v] []).
    { constructor.
      - rewrite <- E. apply (o_nodup _ _ _ Hinv).
      - intro x. rewrite E at 1. apply in_app_iff.
      - left; reflexivity.
      - intros x [<- | []]. apply reach_refl.
      - intros x H; exact H.
      - intros x y Hx Hn. contradiction. }
    assert (Hlen : length unseen <= gn g).
    { rewrite <- (seq_length (gn g) 0). apply NoDup_incl_length; [apply (o_nodup _ _ _ Hinv)|].
      intros x Hx. apply in_seq. pose proof (o_range _ _ _ Hinv x Hx). lia. }
    destruct (loop_correct g v unseen (o_closed _ _ _ Hinv) (S (gn g)) un [v] [v] Hsinv)
      as [un' [sn [Hl Hfin]]].
    { rewrite E, app_length in Hlen. simpl in *. lia. }
    rewrite Hl.
    assert (Hc : isort sn = comp_ref g v) by (apply (sorted_seen_comp g v unseen un' sn Hwf (o_range _ _ _ Hinv) Hfin)).
    assert (Hvu : In v unseen) by (rewrite E; apply in_app_iff; right; left; reflexivity).
    assert (Hsub : forall x, In x un' -> In x unseen) by (intros x Hx; apply (s_univ _ _ _ _ _ _ _ Hfin); left; exact Hx).
    assert (Hdisj : forall x, In x un' -> In x sn -> False) by (intros x; apply nodup_app_disj; apply (s_nodup _ _ _ _ _ _ _ Hfin)).
    apply IH.
    + constructor.
      * apply (nodup_app_l _ _ (s_nodup _ _ _ _ _ _ _ Hfin)).
      * intros x Hx. apply (o_range _ _ _ Hinv). apply Hsub. exact Hx.
      * intros x y Hx Hxy.
        assert (HyU : In y unseen) by (apply (o_closed _ _ _ Hinv x y); [apply Hsub; exact Hx | exact Hxy]).
        apply (s_univ _ _ _ _ _ _ _ Hfin) in HyU. destruct HyU as [Hy | Hy]; [exact Hy|]. exfalso.
        apply (Hdisj x Hx). apply (final_class g v unseen un' sn Hfin).
        eapply reach_trans; [apply (s_reach _ _ _ _ _ _ _ Hfin y Hy)|].
        exists 1. eapply walk_snoc; [apply walk_nil|]. destruct Hwf as [_ [Hs _]]. rewrite Hs. exact Hxy.
      * intros c Hcin. apply in_app_iff in Hcin. destruct Hcin as [Hcin | [<- | []]].
        -- destruct (o_comps _ _ _ Hinv c Hcin) as [w [Hw [Hcw Hnot]]]. exists w. split; [exact Hw|]. split; [exact Hcw|].
           intros x Hx Hxu. apply (Hnot x Hx). apply Hsub. exact Hxu.
        -- exists v. split; [apply (o_range _ _ _ Hinv); exact Hvu|]. split; [exact Hc|].
           intros x Hx Hxu. apply (proj1 (isort_In _ _)) in Hx. exact (Hdisj x Hxu Hx).
      * intros x Hx. destruct (o_cover _ _ _ Hinv x Hx) as [Hxu | [c [Hcin Hxc]]].
        -- apply (s_univ _ _ _ _ _ _ _ Hfin) in Hxu. destruct Hxu as [H | H]; [left; exact H|].
           right. exists (isort sn). split; [apply in_app_iff; right; left; reflexivity | apply isort_In; exact H].
        -- right. exists c. split; [apply in_app_iff; left; exact Hcin | exact Hxc].
      * apply (Permutation_NoDup (Permutation_cons_append acc (isort sn))). constructor; [|apply (o_acc _ _ _ Hinv)].
        intro Hin. destruct (o_comps _ _ _ Hinv _ Hin) as [w [_ [_ Hnot]]].
        apply (Hnot v); [|exact Hvu]. apply isort_In. apply (s_root _ _ _ _ _ _ _ Hfin).
    + assert (length un' <= length un).
      { apply NoDup_incl_length; [apply (nodup_app_l _ _ (s_nodup _ _ _ _ _ _ _ Hfin))|].
        intros x Hx. pose proof (Hsub x Hx) as Hxu. rewrite E in Hxu. apply in_app_iff in Hxu.
        destruct Hxu as [H | [<- | []]]; [exact H|]. exfalso. apply (Hdisj v Hx). apply (s_root _ _ _ _ _ _ _ Hfin). }
      rewrite E, app_length in Hf. simpl in Hf. lia.
Qed.

(* ConnectedComponents returns exactly the reference components, each once (in the order
   they are found, which the property leaves open) *)
Theorem connected_components_go_correct : forall g, wf g ->
  exists cs, connected_components_go g = Done cs /\ NoDup cs /\
    forall c, In c cs <-> In c (comps_ref g).
Proof.
  intros g Hwf. unfold connected_components_go.
  assert (Hfinal : forall cs, oinv g [] cs -> NoDup cs /\ forall c, In c cs <-> In c (comps_ref g)).
  { intros cs Ho. split; [apply (o_acc _ _ _ Ho)|]. intro c. unfold comps_ref. rewrite in_map_iff. split.
    - intro Hc. destruct (o_comps _ _ _ Ho c Hc) as [v [Hv [-> _]]].
      destruct (least_exists g v Hwf) as [m [Hm [Hr Hl]]]. exists m. split.
      + symmetry. apply comp_ref_class; assumption.
      + apply filter_In. split; [apply in_vertices; lia | exact Hl].
    - intros [m [<- Hm]]. apply filter_In in Hm. destruct Hm as [Hm _]. apply in_vertices in Hm.
      destruct (o_cover _ _ _ Ho m Hm) as [[] | [c [Hc Hmc]]].
      destruct (o_comps _ _ _ Ho c Hc) as [v [Hv [Hcv _]]]. subst c.
      apply (comp_ref_In g v m Hwf) in Hmc. destruct Hmc as [_ Hr].
      rewrite <- (comp_ref_class g v m Hwf Hr). exact Hc. }
  destruct (gn g =? 0) eqn:E0.
  - apply Nat.eqb_eq in E0. exists []. split; [reflexivity|]. split; [constructor|].
    intro c. unfold comps_ref, vertices. rewrite E0. simpl. tauto.
  - destruct (gn g =? 1) eqn:E1.
    + apply Nat.eqb_eq in E1. exists [[0]]. split; [reflexivity|]. split; [constructor; [intros [] | constructor]|].
      assert (Hr : reach_ref g 0 0 = true) by (apply reach_ref_iff; [exact Hwf | apply reach_refl]).
      assert (Hcr : comps_ref g = [[0]]).
      { unfold comps_ref, comp_ref, vertices. rewrite E1.
        cbn [seq filter is_least forallb map]. rewrite Hr. reflexivity. }
      intro c. rewrite Hcr. tauto.
    + destruct (ccs_loop_correct g Hwf (gn g) (vertices g) []) as [cs [Hcs Ho]].
      * constructor.
        -- apply seq_NoDup.
        -- intros x Hx. apply in_vertices. exact Hx.
        -- apply adj_closed_vertices. exact Hwf.
        -- intros c [].
        -- intros x Hx. left. apply in_vertices. exact Hx.
        -- constructor.
      * unfold vertices. rewrite seq_length. lia.
      * exists cs. split; [exact Hcs | apply Hfinal; exact Ho].
Qed.
