(* C10 — Girth is exact: girth_go g = Done (zgirth g) for every simple graph.

   GirthProofs.v shows that every value the model assigns to [girth] is witnessed by a cycle
   (upper-bound half).  Here the other half: after the round of root i the value is at most the
   length of EVERY cycle through i, although
   * parentVertices[i] still holds a stale value p0 of an earlier round, so that the arc i -> p0
     is never followed from the root (p0 is then reached the long way round and closes the cycle
     through the test [j == i]),
   * vertices are discovered only while distances[k]+2 < girth.
   The invariant records, for every neighbour pair (k, j) already examined, what the scan did
   ([closed]); together with the queue order (a discovered vertex is never more than one level
   above the head) this bounds the tree depth of the m-th vertex of a cycle through i by m from
   both sides, and then some edge of the cycle is not a tree edge and closes a short cycle.
   Every cycle has a vertex below n-2, which is a root. *)
From Coq Require Import List Arith Bool ZArith Lia Permutation Sorted.
From Mamba Require Import Invariants.Graph Invariants.DistSpec Invariants.DistRef
  Invariants.DistRefProofs Invariants.DistModel Invariants.DistBfsProofs Invariants.CycleRefProofs
  Invariants.GirthModel Invariants.GirthProofs Invariants.GirthExactLists.
Import ListNotations.

Definition dS (s : gstate) (x : nat) : nat := nth x (gs_dist s) 0.
Definition pS (s : gstate) (x : nat) : nat := nth x (gs_par s) 0.

Section Round2.
Variable g : graph.
Hypothesis Hwf : wf g.
Variable i : nat.
Hypothesis Hi : i < gn g.
Variable p0 G0 : nat.   (* parentVertices[i] and girth when the round starts *)

(* what the scan of neighbour j of k has established (j other than the parent entry of k) *)
Definition closed (s : gstate) (k j : nat) : Prop :=
  (j = i -> gs_girth s <= dS s k + 1) /\
  (j <> i -> gs_girth s <= dS s k + 2 \/
     (dS s j <> 0 /\ dS s j <= dS s k + 1 /\
      ((pS s j = k /\ dS s j = dS s k + 1) \/ gs_girth s <= dS s k + dS s j + 1))).

Lemma closed_girth : forall s x k j, x <= gs_girth s -> closed s k j ->
  closed (mkG x (gs_dist s) (gs_par s) (gs_q s)) k j.
Proof.
  intros s x k j Hx [H1 H2]. unfold closed, dS, pS in *. simpl. split.
  - intro E. specialize (H1 E). lia.
  - intro E. destruct (H2 E) as [H | [Ha [Hb [Hc | Hc]]]].
    + left. lia.
    + right. split; [exact Ha|]. split; [exact Hb|]. left. exact Hc.
    + right. split; [exact Ha|]. split; [exact Hb|]. right. lia.
Qed.

Lemma closed_discover : forall s x j' j dv pv q',
  closed s x j' -> x <> j -> j <> i -> dS s j = 0 ->
  closed (mkG (gs_girth s) (upd (gs_dist s) j dv) (upd (gs_par s) j pv) q') x j'.
Proof.
  intros s x j' j dv pv q' [H1 H2] Hxj Hji Hj0. unfold closed, dS, pS in *. simpl.
  rewrite (nth_upd_other (gs_dist s) j x) by exact Hxj.
  split; [exact H1|]. intro E. destruct (H2 E) as [H | [Ha Hb]]; [left; exact H|].
  right. assert (Hj' : j' <> j) by (intros ->; contradiction).
  rewrite (nth_upd_other (gs_dist s) j j'), (nth_upd_other (gs_par s) j j') by exact Hj'.
  split; [exact Ha | exact Hb].
Qed.

Definition qle (s : gstate) (a b : nat) : Prop := dS s a <= dS s b.

(* during the scan of k *)
Record xinv (k : nat) (nb : list nat) (s : gstate) : Prop := {
  x_p0 : pS s i = p0;
  x_rc : forall y, y <> i -> dS s y <> 0 -> pS s y = i -> y <> p0;
  x_done : forall x j, (x = i \/ dS s x <> 0) -> ~ In x (k :: gs_q s) ->
             gadj g x j = true -> j <> pS s x -> closed s x j;
  x_cur : forall j, gadj g k j = true -> ~ In j nb -> j <> pS s k -> closed s k j;
  x_sorted : StronglySorted (qle s) (k :: gs_q s);
  x_max : forall y, dS s y <= dS s k + 1;
  x_mono : gs_girth s <= G0
}.

(* between two scans *)
Record yinv (s : gstate) : Prop := {
  y_p0 : pS s i = p0;
  y_rc : forall y, y <> i -> dS s y <> 0 -> pS s y = i -> y <> p0;
  y_done : forall x j, (x = i \/ dS s x <> 0) -> ~ In x (gs_q s) ->
             gadj g x j = true -> j <> pS s x -> closed s x j;
  y_sorted : StronglySorted (qle s) (gs_q s);
  y_max : forall k q', gs_q s = k :: q' -> forall y, dS s y <= dS s k + 1;
  y_mono : gs_girth s <= G0
}.

Lemma xinv_skip : forall k j nb s, xinv k (j :: nb) s -> (j <> pS s k -> closed s k j) -> xinv k nb s.
Proof.
  intros k j nb s H Hc. destruct H. constructor; try assumption.
  intros j' Ha Hn Hp. destruct (Nat.eq_dec j' j) as [-> | Hne]; [apply Hc; exact Hp|].
  apply x_cur0; try assumption. intros [E | Hin]; [congruence | contradiction].
Qed.

Lemma xinv_girth : forall k j nb s x, xinv k (j :: nb) s -> x <= gs_girth s ->
  (j <> pS s k -> closed (mkG x (gs_dist s) (gs_par s) (gs_q s)) k j) ->
  xinv k nb (mkG x (gs_dist s) (gs_par s) (gs_q s)).
Proof.
  intros k j nb s x H Hx Hc. destruct H. constructor; simpl; try assumption.
  - intros x' j' Hm Hq Ha Hp. apply closed_girth; [exact Hx|]. apply x_done0; assumption.
  - intros j' Ha Hn Hp. destruct (Nat.eq_dec j' j) as [-> | Hne]; [apply Hc; exact Hp|].
    apply closed_girth; [exact Hx|]. apply x_cur0; try assumption.
    intros [E | Hin]; [congruence | contradiction].
  - lia.
Qed.

Lemma xinv_discover : forall k j nb s, rinv g i k (j :: nb) s -> xinv k (j :: nb) s ->
  j <> i -> dS s j = 0 -> j <> pS s k ->
  xinv k nb (mkG (gs_girth s) (upd (gs_dist s) j (dS s k + 1)) (upd (gs_par s) j k) (gs_q s ++ [j])).
Proof.
  intros k j nb s R H Hji Hj0 Hjp.
  assert (Hjn : j < gn g /\ gadj g k j = true) by (apply (proj2 (r_nb _ _ _ _ _ R) j); left; reflexivity).
  destruct Hjn as [Hjn Hadj].
  assert (Hld : j < length (gs_dist s)) by (rewrite (r_ld _ _ _ _ _ R); exact Hjn).
  assert (Hlp : j < length (gs_par s)) by (rewrite (r_lp _ _ _ _ _ R); exact Hjn).
  assert (HjQ : ~ In j (k :: gs_q s)).
  { intro Hin. destruct (r_q _ _ _ _ _ R j Hin) as [_ [? | Hnz]]; [contradiction | apply Hnz; exact Hj0]. }
  assert (Hkj : k <> j) by (intros ->; apply HjQ; left; reflexivity).
  assert (HdS : forall y, y <> j -> nth y (upd (gs_dist s) j (dS s k + 1)) 0 = dS s y)
    by (intros y Hy; apply nth_upd_other; exact Hy).
  assert (HpS : forall y, y <> j -> nth y (upd (gs_par s) j k) 0 = pS s y)
    by (intros y Hy; apply nth_upd_other; exact Hy).
  destruct H. constructor; unfold dS, pS in *; simpl.
  - rewrite HpS by auto. exact x_p1.
  - intros y Hyi Hnz Hpy. destruct (Nat.eq_dec y j) as [-> | Hyj].
    + rewrite nth_upd_same in Hpy by exact Hlp. subst k. congruence.
    + rewrite HdS in Hnz by exact Hyj. rewrite HpS in Hpy by exact Hyj. apply x_rc0; assumption.
  - intros x j' Hm Hq Ha Hp.
    assert (Hxj : x <> j) by (intros ->; apply Hq; right; apply in_app_iff; right; left; reflexivity).
    rewrite HdS in Hm by exact Hxj. rewrite HpS in Hp by exact Hxj.
    apply (closed_discover s x j' j); try assumption.
    apply x_done0; try assumption.
    intros [E | Hin]; apply Hq; [left; exact E | right; apply in_app_iff; left; exact Hin].
  - intros j' Ha Hn Hp. rewrite HpS in Hp by exact Hkj.
    destruct (Nat.eq_dec j' j) as [-> | Hne].
    + unfold closed, dS, pS. simpl. rewrite HdS by exact Hkj.
      rewrite !nth_upd_same by assumption. split; [intro; contradiction|]. intros _. right.
      split; [lia|]. split; [unfold dS; lia|]. left. split; reflexivity.
    + apply (closed_discover s k j' j); try assumption.
      apply x_cur0; try assumption. intros [E | Hin]; [congruence | contradiction].
  - change (k :: gs_q s ++ [j]) with ((k :: gs_q s) ++ [j]). apply ssorted_snoc.
    + apply (ssorted_ext_in _ (qle s)); [|exact x_sorted0].
      intros x y Hx Hy Hxy. unfold qle, dS in *. simpl.
      rewrite !HdS by (intros ->; contradiction). exact Hxy.
    + apply Forall_forall. intros x Hx. unfold qle, dS. simpl.
      rewrite nth_upd_same by exact Hld. rewrite HdS by (intros ->; contradiction).
      pose proof (x_max0 x). unfold dS in *. lia.
  - intro y. rewrite (HdS k) by exact Hkj. destruct (Nat.eq_dec y j) as [-> | Hyj].
    + rewrite nth_upd_same by exact Hld. unfold dS. lia.
    + rewrite HdS by exact Hyj. apply x_max0.
  - exact x_mono0.
Qed.

Lemma scan_exact : forall k nb s, rinv g i k nb s -> xinv k nb s ->
  exists s', girth_scan i k nb s = Some s' /\ rinv g i k [] s' /\ xinv k [] s' /\
    zeros (gs_dist s') + length (gs_q s') = zeros (gs_dist s) + length (gs_q s).
Proof.
  intros k. induction nb as [|j nb IH]; intros s H X.
  - exists s. split; [reflexivity|]. split; [exact H|]. split; [exact X | reflexivity].
  - simpl girth_scan.
    assert (Hkn : k < gn g) by (apply (r_q _ _ _ _ _ H k); left; reflexivity).
    assert (Hjn : j < gn g) by (apply (proj2 (r_nb _ _ _ _ _ H) j); left; reflexivity).
    rewrite (nth_error_nth0 (gs_par s) k) by (rewrite (r_lp _ _ _ _ _ H); exact Hkn).
    rewrite (nth_error_nth0 (gs_dist s) k) by (rewrite (r_ld _ _ _ _ _ H); exact Hkn).
    rewrite (nth_error_nth0 (gs_dist s) j) by (rewrite (r_ld _ _ _ _ _ H); exact Hjn).
    fold (pS s k). fold (dS s k). fold (dS s j).
    destruct (j =? pS s k) eqn:Epk.
    { apply Nat.eqb_eq in Epk. apply IH; [eapply rinv_skip; exact H|].
      eapply xinv_skip; [exact X|]. intro; contradiction. }
    apply Nat.eqb_neq in Epk.
    destruct ((j =? i) && (dS s k + 1 <? gs_girth s)) eqn:E1.
    { apply andb_true_iff in E1. destruct E1 as [Eji Elt]. apply Nat.eqb_eq in Eji. apply Nat.ltb_lt in Elt. subst j.
      destruct (IH (mkG (dS s k + 1) (gs_dist s) (gs_par s) (gs_q s))) as [s' [Hs [Hi' [Hx' Hz]]]].
      - apply rinv_girth; [eapply rinv_skip; exact H|]. eapply close_at_root; eassumption.
      - eapply xinv_girth; [exact X | lia|]. intros _. unfold closed, dS, pS. simpl.
        split; [intros _; unfold dS; lia | intro; contradiction].
      - exists s'. split; [exact Hs|]. split; [exact Hi'|]. split; [exact Hx' | exact Hz]. }
    destruct (negb (j =? i) && (dS s j =? 0)) eqn:E2.
    { apply andb_true_iff in E2. destruct E2 as [Eji Ej0].
      apply negb_true_iff, Nat.eqb_neq in Eji. apply Nat.eqb_eq in Ej0.
      destruct (dS s k + 2 <? gs_girth s) eqn:Ecut.
      - unfold wr.
        assert (Hl1 : (j <? length (gs_par s)) = true) by (apply Nat.ltb_lt; rewrite (r_lp _ _ _ _ _ H); exact Hjn).
        assert (Hl2 : (j <? length (gs_dist s)) = true) by (apply Nat.ltb_lt; rewrite (r_ld _ _ _ _ _ H); exact Hjn).
        rewrite Hl1, Hl2.
        destruct (IH _ (rinv_discover g Hwf i Hi k j nb s H Eji Ej0) (xinv_discover k j nb s H X Eji Ej0 Epk))
          as [s' [Hs [Hi' [Hx' Hz]]]].
        exists s'. split; [exact Hs|]. split; [exact Hi'|]. split; [exact Hx'|]. rewrite Hz. simpl.
        rewrite app_length. simpl.
        pose proof (zeros_upd (gs_dist s) j (dS s k + 1)
                      ltac:(rewrite (r_ld _ _ _ _ _ H); exact Hjn) Ej0 ltac:(lia)) as Hzu.
        unfold dS in *. lia.
      - apply Nat.ltb_ge in Ecut. apply IH; [eapply rinv_skip; exact H|].
        eapply xinv_skip; [exact X|]. intros _. split; [intro; contradiction|]. intros _. left. exact Ecut. }
    assert (Hcases : j = i \/ (j <> i /\ dS s j <> 0)).
    { destruct (Nat.eq_dec j i) as [? | Hne]; [left; assumption | right]. split; [exact Hne|].
      intro H0. apply Nat.eqb_neq in Hne. rewrite Hne, H0 in E2. simpl in E2. discriminate. }
    destruct (negb (j =? i) && (dS s k + dS s j + 1 <? gs_girth s)) eqn:E3.
    { apply andb_true_iff in E3. destruct E3 as [Eji Elt]. apply negb_true_iff, Nat.eqb_neq in Eji.
      apply Nat.ltb_lt in Elt.
      destruct Hcases as [? | [_ Hdj]]; [contradiction|].
      destruct (IH (mkG (dS s k + dS s j + 1) (gs_dist s) (gs_par s) (gs_q s))) as [s' [Hs [Hi' [Hx' Hz]]]].
      - apply rinv_girth; [eapply rinv_skip; exact H|]. apply (close_cross g Hwf i Hi k j nb s H Epk Eji Hdj).
      - eapply xinv_girth; [exact X | lia|]. intros _. unfold closed, dS, pS. simpl.
        split; [intro; contradiction|]. intros _. right. split; [exact Hdj|].
        split; [apply (x_max _ _ _ X)|]. right. unfold dS. lia.
      - exists s'. split; [exact Hs|]. split; [exact Hi'|]. split; [exact Hx' | exact Hz]. }
    apply IH; [eapply rinv_skip; exact H|].
    eapply xinv_skip; [exact X|]. intros _.
    destruct Hcases as [-> | [Hne Hdj]].
    + rewrite Nat.eqb_refl in E1. simpl in E1. apply Nat.ltb_ge in E1.
      split; [intros _; exact E1 | intro; contradiction].
    + apply Nat.eqb_neq in Hne. rewrite Hne in E3. simpl in E3. apply Nat.ltb_ge in E3.
      split; [intro Hji; apply Nat.eqb_neq in Hne; contradiction|]. intros _. right.
      split; [exact Hdj|]. split; [apply (x_max _ _ _ X)|]. right. exact E3.
Qed.

Lemma loop_exact : forall fuel s, linv g i s -> yinv s -> zeros (gs_dist s) + length (gs_q s) <= fuel ->
  exists s', girth_loop g i fuel s = Done s' /\ linv g i s' /\ yinv s' /\ gs_q s' = [].
Proof.
  induction fuel as [|f IH]; intros s H Y Hf.
  - destruct s as [gi dist par q]. simpl in *. destruct q; [|simpl in Hf; lia].
    eexists. split; [reflexivity|]. split; [exact H|]. split; [exact Y | reflexivity].
  - destruct s as [gi dist par q]. destruct q as [|k q'].
    + eexists. split; [reflexivity|]. split; [exact H|]. split; [exact Y | reflexivity].
    + simpl girth_loop.
      assert (Hr : rinv g i k (nbrs g k) (mkG gi dist par q')).
      { destruct H; simpl in *. constructor; simpl; try assumption.
        - intros y Hyi Hnz Hin. apply (l_par y Hyi Hnz). right; exact Hin.
        - intros y _ Hyi Hnz Heq. apply (l_par y Hyi Hnz). left. symmetry. exact Heq.
        - split; [apply nbrs_NoDup | intros y Hy; apply nbrs_In; exact Hy]. }
      assert (Hx : xinv k (nbrs g k) (mkG gi dist par q')).
      { destruct Y; simpl in *. constructor; simpl; try assumption.
        - intros j Ha Hn _. exfalso. apply Hn. apply nbrs_In. split; [|exact Ha].
          destruct Hwf as [Hr' _]. apply Hr' in Ha. tauto.
        - intro y. apply (y_max0 k q' eq_refl). }
      destruct (scan_exact k (nbrs g k) _ Hr Hx) as [s' [Hs [Hi' [Hx' Hz]]]].
      rewrite Hs. apply IH.
      * destruct Hi'. constructor; try assumption.
        -- intros x Hx0. apply r_q. right; exact Hx0.
        -- inversion r_nd; assumption.
      * destruct Hx'. constructor; try assumption.
        -- intros x j Hm Hq Ha Hp. destruct (Nat.eq_dec x k) as [-> | Hxk].
           ++ apply x_cur0; [exact Ha | intros [] | exact Hp].
           ++ apply x_done0; try assumption. intros [E | Hin]; [congruence | contradiction].
        -- inversion x_sorted0; assumption.
        -- intros k' q'' Eq y. inversion x_sorted0 as [|a l Hs' Hf']; subst.
           rewrite Eq in Hf'. inversion Hf' as [|a l Hk' _]; subst. unfold qle in Hk'.
           pose proof (x_max0 y). lia.
      * simpl in *. lia.
Qed.

(* ------------------------------------------------------------------ the end of the round *)

Section Final.
Variable s : gstate.
Hypothesis HL : linv g i s.
Hypothesis HY : yinv s.
Hypothesis HQ : gs_q s = [].

Lemma f_closed : forall x j, (x = i \/ dS s x <> 0) -> gadj g x j = true -> j <> pS s x -> closed s x j.
Proof. intros x j Hm Ha Hp. apply (y_done s HY); try assumption. rewrite HQ. intros []. Qed.

Lemma f_root : dS s i = 0.
Proof. apply (l_root _ _ _ HL). Qed.

Lemma f_tree : forall x, x <> i -> dS s x <> 0 ->
  gadj g x (pS s x) = true /\
  ((pS s x = i /\ dS s x = 1) \/ (pS s x <> i /\ dS s (pS s x) <> 0 /\ dS s x = dS s (pS s x) + 1)).
Proof.
  intros x Hxi Hnz. pose proof (l_tp _ _ _ HL x Hxi Hnz) as Ht. unfold dS, pS in *.
  inversion Ht as [E0 | x' d _ Hdx Hadj Hp Ex Ed]; [congruence|]. subst x'.
  split; [exact Hadj|]. apply tpath_inv in Hp; [|exact Hi]. destruct Hp as [[E1 E2] | [E1 [E2 E3]]].
  - left. split; [exact E1 | lia].
  - right. split; [exact E1|]. split; [lia | lia].
Qed.

Variable L : nat.
Hypothesis HF : L < gs_girth s.

(* walking along a path from the root (or from a discovered vertex of depth <= b): every vertex
   is discovered, the one at position m at depth at most b+m+1 *)
Lemma follow : forall a k b,
  chain g (k :: a) -> (forall x, In x a -> x <> i) -> (k = i \/ dS s k <> 0) -> dS s k <= b ->
  (k = i -> forall y t, a = y :: t -> y <> p0) ->
  b + length a + 1 <= L ->
  forall l1 x l2, a = l1 ++ x :: l2 -> dS s x <> 0 /\ dS s x <= b + length l1 + 1.
Proof.
  induction a as [|j a IH]; intros k b Hch Hni Hk Hb Hp0 Hlen l1 x l2 E.
  - destruct l1; discriminate.
  - assert (Hadj : gadj g k j = true) by apply Hch.
    assert (Hji : j <> i) by (apply Hni; left; reflexivity).
    assert (Hj : dS s j <> 0 /\ dS s j <= b + 1).
    { destruct (Nat.eq_dec j (pS s k)) as [Ejp | Ejp].
      - destruct Hk as [-> | Hk].
        + exfalso. apply (Hp0 eq_refl j a eq_refl). rewrite Ejp. apply (y_p0 s HY).
        + assert (Hki : k <> i) by (intros ->; apply Hk; exact f_root).
          destruct (f_tree k Hki Hk) as [_ [[E1 _] | [_ [E2 E3]]]]; [congruence|].
          rewrite <- Ejp in *. split; [exact E2 | lia].
      - destruct (f_closed k j Hk Hadj Ejp) as [_ Hc]. destruct (Hc Hji) as [Hc' | [Ha [Hb' _]]].
        + simpl in Hlen. lia.
        + split; [exact Ha | lia]. }
    destruct l1 as [|y l1]; simpl in E.
    + injection E as <- _. simpl. replace (b + 0 + 1) with (b + 1) by lia. exact Hj.
    + injection E as <- Ea.
      destruct (IH j (b + 1)) with (l1 := l1) (x := x) (l2 := l2) as [H1 H2].
      * eapply chain_tl; exact Hch.
      * intros z Hz. apply Hni. right; exact Hz.
      * right. apply Hj.
      * apply Hj.
      * intro; contradiction.
      * simpl in Hlen. lia.
      * exact Ea.
      * split; [exact H1 | simpl; lia].
Qed.

(* if all edges along a are tree edges and the first vertex hangs below [prev], every vertex
   hangs below its predecessor *)
Lemma all_tree : forall a prev x, NoDup (prev :: x :: a) -> pS s x = prev ->
  (forall l1 u v l2, x :: a = l1 ++ u :: v :: l2 -> pS s u = v \/ pS s v = u) ->
  a <> [] -> In (pS s (last a 0)) (x :: a).
Proof.
  induction a as [|y a IH]; intros prev x Hnd Hpx Ht Hne; [contradiction|].
  assert (Hpy : pS s y = x).
  { destruct (Ht [] x y a eq_refl) as [E | E]; [|exact E]. exfalso.
    rewrite Hpx in E. subst y. inversion Hnd as [|? ? Hn _]; subst. apply Hn. right; left; reflexivity. }
  destruct a as [|z a].
  - simpl. rewrite Hpy. left; reflexivity.
  - right. rewrite last_cons_ne by discriminate. apply (IH x y).
    + inversion Hnd; assumption.
    + exact Hpy.
    + intros l1 u v l2 E. apply (Ht (x :: l1) u v l2). simpl. rewrite E. reflexivity.
    + discriminate.
Qed.

(* the value after the round is at most the length of any cycle through the root *)
Lemma round_cycle_false : forall a, is_cycle_seq g (i :: a) -> length (i :: a) = L -> False.
Proof.
  intros a Hc HLa.
  destruct (cycle_seq_parts g i a Hc) as [Hnd [Hch [Hall [Hl2 Hclose]]]].
  pose proof Hwf as [_ [Hs _]].
  assert (Hni : forall x, In x a -> x <> i).
  { intros x Hx ->. inversion Hnd; contradiction. }
  simpl in HLa.
  (* the reversed path from the root *)
  assert (Hchr : chain g (i :: rev a)).
  { apply chain_cons; [apply chain_rev; [exact Hwf | eapply chain_tl; exact Hch]|].
    intros _. rewrite hd_rev_last. exact Hclose. }
  assert (Hnir : forall x, In x (rev a) -> x <> i) by (intros x Hx; apply Hni; apply in_rev; exact Hx).
  destruct a as [|y1 a1]; [simpl in Hl2; lia|].
  assert (Hne1 : a1 <> []) by (destruct a1; [simpl in Hl2; lia | discriminate]).
  destruct (exists_last Hne1) as [a2 [yL Ea1]].
  assert (HyL1 : last a1 0 = yL) by (rewrite Ea1; apply last_snoc).
  assert (HyL : last (y1 :: a1) 0 = yL) by (rewrite last_cons_ne by exact Hne1; exact HyL1).
  rewrite HyL in Hclose.
  assert (Hy1L : y1 <> yL).
  { intro E. destruct (proj1 (NoDup_cons_iff i (y1 :: a1)) Hnd) as [_ Hnd'].
    destruct (proj1 (NoDup_cons_iff y1 a1) Hnd') as [Hn _].
    apply Hn. rewrite Ea1. apply in_app_iff. right. left. symmetry. exact E. }
  (* forward and backward depth bounds *)
  assert (Hfw : y1 <> p0 -> forall l1 x l2, y1 :: a1 = l1 ++ x :: l2 -> dS s x <> 0 /\ dS s x <= length l1 + 1).
  { intros Hp l1 x l2 E.
    apply (follow (y1 :: a1) i 0 Hch Hni (or_introl eq_refl)) with (l1 := l1) (l2 := l2).
    - rewrite f_root. lia.
    - intros _ y t E'. inversion E'; subst. exact Hp.
    - simpl. simpl in HLa. lia.
    - exact E. }
  assert (Hbw : yL <> p0 -> forall l1 x l2, y1 :: a1 = l1 ++ x :: l2 -> dS s x <> 0 /\ dS s x <= length l2 + 1).
  { intros Hp l1 x l2 E.
    assert (E' : rev (y1 :: a1) = rev l2 ++ x :: rev l1).
    { rewrite E, rev_app_distr. simpl. rewrite <- app_assoc. reflexivity. }
    destruct (follow (rev (y1 :: a1)) i 0 Hchr Hnir (or_introl eq_refl)) with (l1 := rev l2) (x := x) (l2 := rev l1) as [H1 H2].
    - rewrite f_root. lia.
    - intros _ y t Et. assert (Ey : y = yL).
      { rewrite <- HyL, <- hd_rev_last, Et. reflexivity. }
      subst y. exact Hp.
    - rewrite rev_length. simpl. simpl in HLa. lia.
    - exact E'.
    - rewrite rev_length in H2. split; [exact H1 | lia]. }
  assert (Hadj1 : gadj g y1 i = true) by (rewrite Hs; apply Hch).
  assert (HadjL : gadj g yL i = true) by (rewrite Hs; exact Hclose).
  assert (Hlen : length a1 = S (length a2)) by (rewrite Ea1, app_length; simpl; lia).
  (* a vertex next to the root on the cycle whose parent is not the root closes a cycle through [j == i] *)
  assert (Hroot : forall x, x <> i -> dS s x <> 0 -> gadj g x i = true -> pS s x <> i -> dS s x + 1 <= L -> False).
  { intros x Hxi Hnz Ha Hp Hd. destruct (f_closed x i (or_intror Hnz) Ha) as [Hc1 _]; [congruence|].
    specialize (Hc1 eq_refl). lia. }
  destruct (Nat.eq_dec y1 p0) as [E1 | E1].
  { (* the stale parent is the first cycle neighbour: it is reached from the other side *)
    assert (HpL : yL <> p0) by congruence.
    destruct (Hbw HpL [] y1 a1 eq_refl) as [Hnz Hd].
    apply (Hroot y1); [apply Hni; left; reflexivity | exact Hnz | exact Hadj1 | | simpl in HLa; lia].
    intro Hp. apply (y_rc s HY y1); [apply Hni; left; reflexivity | exact Hnz | exact Hp | exact E1]. }
  destruct (Nat.eq_dec yL p0) as [EL | EL].
  { destruct (Hfw E1 (y1 :: a2) yL []) as [Hnz Hd]; [rewrite Ea1; reflexivity|].
    assert (HyLi : yL <> i) by (apply Hni; rewrite Ea1; right; apply in_app_iff; right; left; reflexivity).
    apply (Hroot yL); [exact HyLi | exact Hnz | exact HadjL | | simpl in Hd, HLa; lia].
    intro Hp. apply (y_rc s HY yL); assumption. }
  (* both sides bounded: all cycle edges would be tree edges *)
  assert (Hp1 : pS s y1 = i).
  { destruct (Nat.eq_dec (pS s y1) i) as [E | E]; [exact E | exfalso].
    destruct (Hfw E1 [] y1 a1 eq_refl) as [Hnz Hd].
    apply (Hroot y1); [apply Hni; left; reflexivity | exact Hnz | exact Hadj1 | exact E | simpl in Hd, HLa; lia]. }
  assert (HpL : pS s yL = i).
  { destruct (Nat.eq_dec (pS s yL) i) as [E | E]; [exact E | exfalso].
    destruct (Hbw EL (y1 :: a2) yL []) as [Hnz Hd]; [rewrite Ea1; reflexivity|].
    assert (HyLi : yL <> i) by (apply Hni; rewrite Ea1; right; apply in_app_iff; right; left; reflexivity).
    apply (Hroot yL); [exact HyLi | exact Hnz | exact HadjL | exact E | simpl in Hd, HLa; lia]. }
  assert (Htree : forall l1 u v l2, y1 :: a1 = l1 ++ u :: v :: l2 -> pS s u = v \/ pS s v = u).
  { intros l1 u v l2 E.
    destruct (Hfw E1 l1 u (v :: l2) E) as [Hnzu Hdu].
    destruct (Hbw EL (l1 ++ [u]) v l2) as [Hnzv Hdv]; [rewrite <- app_assoc; exact E|].
    assert (Hlen' : length l1 + length l2 + 2 = length (y1 :: a1)).
    { rewrite E, app_length. simpl. lia. }
    simpl in Hlen', HLa.
    assert (Huv : gadj g u v = true).
    { apply (chain_mid g l1 u v l2). rewrite <- E. eapply chain_tl; exact Hch. }
    assert (Hvi : v <> i) by (apply Hni; rewrite E; apply in_app_iff; right; right; left; reflexivity).
    destruct (Nat.eq_dec v (pS s u)) as [Ev | Ev]; [left; symmetry; exact Ev|].
    destruct (f_closed u v (or_intror Hnzu) Huv Ev) as [_ Hcl].
    destruct (Hcl Hvi) as [Hc' | [_ [_ [[Hc' _] | Hc']]]]; [lia | right; exact Hc' | lia]. }
  pose proof (all_tree a1 i y1 Hnd Hp1 Htree Hne1) as Hin.
  rewrite HyL1, HpL in Hin. apply (Hni i Hin). reflexivity.
Qed.

End Final.

End Round2.

(* ------------------------------------------------------------------ one round, all rounds *)

Lemma round_exact : forall g, wf g -> forall i s, i < gn g ->
  length (gs_dist s) = gn g -> length (gs_par s) = gn g -> gs_q s = [] -> gok g (gs_girth s) ->
  exists s', girth_loop g i (S (gn g)) (mkG (gs_girth s) (map (fun _ => 0) (gs_dist s)) (gs_par s) [i]) = Done s' /\
    length (gs_dist s') = gn g /\ length (gs_par s') = gn g /\ gs_q s' = [] /\ gok g (gs_girth s') /\
    gs_girth s' <= gs_girth s /\
    forall a, is_cycle_seq g (i :: a) -> gs_girth s' <= length (i :: a).
Proof.
  intros g Hwf i s Hi Hld Hlp Hq Hg.
  set (s0 := mkG (gs_girth s) (map (fun _ => 0) (gs_dist s)) (gs_par s) [i]).
  assert (HL0 : linv g i s0).
  { constructor; simpl; try assumption.
    - rewrite map_length. exact Hld.
    - apply nth_map_const0'.
    - intros x _ Hnz. rewrite nth_map_const0' in Hnz. contradiction.
    - intros x [<- | []]. split; [exact Hi | left; reflexivity].
    - constructor; [intros [] | constructor].
    - intros y _ Hnz. rewrite nth_map_const0' in Hnz. contradiction. }
  assert (HY0 : yinv g i (pS s i) (gs_girth s) s0).
  { constructor; unfold dS, pS; simpl.
    - reflexivity.
    - intros y _ Hnz. rewrite nth_map_const0' in Hnz. contradiction.
    - intros x j [-> | Hnz] Hq0; [exfalso; apply Hq0; left; reflexivity|].
      rewrite nth_map_const0' in Hnz. contradiction.
    - constructor; [constructor | constructor].
    - intros k q' E y. rewrite !nth_map_const0'. lia.
    - lia. }
  destruct (loop_exact g Hwf i Hi (pS s i) (gs_girth s) (S (gn g)) s0 HL0 HY0) as [s' [Hl [HL [HY Hq']]]].
  { unfold s0. simpl. rewrite zeros_map0, Hld. lia. }
  exists s'. split; [exact Hl|].
  split; [apply (l_ld _ _ _ HL)|]. split; [apply (l_lp _ _ _ HL)|]. split; [exact Hq'|].
  split; [apply (l_g _ _ _ HL)|]. split; [apply (y_mono _ _ _ _ _ HY)|].
  intros a Hc. destruct (le_lt_dec (gs_girth s') (length (i :: a))) as [Hle | Hlt]; [exact Hle | exfalso].
  apply (round_cycle_false g Hwf i Hi (pS s i) (gs_girth s) s' HL HY Hq' (length (i :: a)) Hlt a Hc eq_refl).
Qed.

Lemma rounds_exact : forall g, wf g -> forall roots s,
  (forall i, In i roots -> i < gn g) ->
  length (gs_dist s) = gn g -> length (gs_par s) = gn g -> gs_q s = [] -> gok g (gs_girth s) ->
  exists s', girth_rounds g roots s = Done s' /\ gok g (gs_girth s') /\ gs_girth s' <= gs_girth s /\
    forall i a, In i roots -> is_cycle_seq g (i :: a) -> gs_girth s' <= length (i :: a).
Proof.
  intros g Hwf. induction roots as [|i rest IH]; intros s Hr Hld Hlp Hq Hg.
  - exists s. split; [reflexivity|]. split; [exact Hg|]. split; [lia|]. intros i a [].
  - cbn [girth_rounds]. rewrite Hq. cbn [app].
    assert (Hi : i < gn g) by (apply Hr; left; reflexivity).
    destruct (round_exact g Hwf i s Hi Hld Hlp Hq Hg) as [s1 [Hl [Hld1 [Hlp1 [Hq1 [Hg1 [Hle1 Hc1]]]]]]].
    rewrite Hl.
    destruct (IH s1 (fun j Hj => Hr j (or_intror Hj)) Hld1 Hlp1 Hq1 Hg1) as [s2 [Hl2 [Hg2 [Hle2 Hc2]]]].
    exists s2. split; [exact Hl2|]. split; [exact Hg2|]. split; [lia|].
    intros j a [<- | Hj] Hc.
    + specialize (Hc1 a Hc). lia.
    + apply Hc2; assumption.
Qed.

(* a cycle has a vertex below n-2 *)
Lemma cycle_has_root : forall g p, is_cycle_seq g p -> exists l1 v l2, p = l1 ++ v :: l2 /\ v < gn g - 2.
Proof.
  intros g p [[_ [Hnd [_ Hall]]] [H3 _]].
  destruct (existsb (fun v => v <? gn g - 2) p) eqn:E.
  - apply existsb_exists in E. destruct E as [v [Hv Hlt]]. apply Nat.ltb_lt in Hlt.
    destruct (in_split v p Hv) as [l1 [l2 E]]. exists l1, v, l2. split; [exact E | exact Hlt].
  - exfalso.
    assert (Hincl : incl p [gn g - 2; gn g - 1]).
    { intros v Hv. assert (Hge : ~ v < gn g - 2).
      { intro Hlt. apply Nat.ltb_lt in Hlt.
        assert (existsb (fun v => v <? gn g - 2) p = true) by (apply existsb_exists; exists v; tauto). congruence. }
      specialize (Hall v Hv). simpl. lia. }
    pose proof (NoDup_incl_length Hnd Hincl). simpl in *. lia.
Qed.

(* Girth: the model returns the reference girth (least cycle length, -1 when acyclic) *)
Theorem girth_go_exact : forall g, wf g -> girth_go g = Done (zgirth g).
Proof.
  intros g Hwf. destruct (girth_ref_spec g Hwf) as [Hsome Hnone]. unfold zgirth.
  destruct (girth_ref g) as [L|] eqn:E.
  - destruct (proj1 (Hsome L) eq_refl) as [[p [Hp Hlen]] Hmin].
    unfold girth_go.
    assert (Hn : 3 <= gn g).
    { destruct Hp as [Hp' [H3 _]]. apply is_path_length in Hp'. lia. }
    assert (E3 : (gn g <? 3) = false) by (apply Nat.ltb_ge; exact Hn). rewrite E3.
    destruct (rounds_exact g Hwf (seq 0 (gn g - 2))
                (mkG (gn g + 2) (repeat 0 (gn g)) (repeat 0 (gn g)) [])) as [s' [Hs [Hg [_ Hc]]]]; simpl.
    + intros i Hin. apply in_seq in Hin. lia.
    + apply repeat_length.
    + apply repeat_length.
    + reflexivity.
    + left. reflexivity.
    + rewrite Hs. f_equal.
      destruct (cycle_has_root g p Hp) as [l1 [v [l2 [Ep Hv]]]].
      assert (Hrot : is_cycle_seq g (v :: l2 ++ l1)) by (apply cycle_seq_rotate; [exact Hwf | rewrite <- Ep; exact Hp]).
      assert (Hup : gs_girth s' <= L).
      { specialize (Hc v (l2 ++ l1) ltac:(apply in_seq; lia) Hrot).
        assert (length (v :: l2 ++ l1) = length p) by (rewrite Ep; simpl; rewrite !app_length; simpl; lia). lia. }
      assert (HLn : L <= gn g).
      { destruct Hp as [Hp' _]. apply is_path_length in Hp'. lia. }
      assert (Eg : (gs_girth s' =? gn g + 2) = false) by (apply Nat.eqb_neq; lia). rewrite Eg.
      destruct Hg as [? | [q [Hq Hlq]]]; [lia|]. apply Hmin in Hq. f_equal. lia.
  - apply girth_go_acyclic; [exact Hwf|]. apply Hnone. reflexivity.
Qed.
