(* C10 / BiconnectedComponents — the hypotheses of BlockProofsTree.Section Tree bundled in one
   record, and its lemmas restated over the record (one hypothesis instead of up to four). *)
From Coq Require Import List Arith Bool ZArith Lia.
From Mamba Require Import Invariants.Graph Invariants.BlockProofsTree.
Import ListNotations.
Local Open Scope Z_scope.

Record tree_ok (h : graph) (P : nat -> nat) (Dp : nat -> Z) (V : nat -> Prop) : Prop := {
  t_P0 : P 0%nat = 0%nat;
  t_D0 : Dp 0%nat = 0;
  t_par : forall u, V u -> u <> 0%nat -> V (P u) /\ gadj h (P u) u = true /\ Dp u = Dp (P u) + 1;
  t_dnn : forall u, V u -> 0 <= Dp u }.

Section Ok.
Variables (h : graph) (P : nat -> nat) (Dp : nat -> Z) (V : nat -> Prop).
Hypothesis HT : tree_ok h P Dp V.

Ltac use L := destruct HT as [H1 H2 H3 H4]; eapply L; eassumption.

Lemma k_V_par : forall u, V u -> V (P u).
Proof. use V_par. Qed.
Lemma k_V_iter : forall k u, V u -> V (Nat.iter k P u).
Proof. intros k u Hu. destruct HT as [H1 H2 H3 H4]. eapply V_iter; eassumption. Qed.
Lemma k_anc_V : forall x y, V y -> anc P x y -> V x.
Proof. use anc_V. Qed.
Lemma k_anc_of_root : forall x, anc P x 0%nat -> x = 0%nat.
Proof. use anc_of_root. Qed.
Lemma k_anc_depth_le : forall x y, V y -> anc P x y -> Dp x <= Dp y.
Proof. use anc_depth_le. Qed.
Lemma k_depth_zero_root : forall u, V u -> Dp u = 0 -> u = 0%nat.
Proof. use depth_zero_root. Qed.
Lemma k_par_neq : forall u, V u -> u <> 0%nat -> P u <> u.
Proof. use par_neq. Qed.
Lemma k_anc_depth_eq : forall x y, V y -> anc P x y -> Dp x = Dp y -> x = y.
Proof. use anc_depth_eq. Qed.
Lemma k_anc_antisym : forall x y, V y -> anc P x y -> anc P y x -> x = y.
Proof. use anc_antisym. Qed.
Lemma k_anc_chain : forall a b d, V d -> anc P a d -> anc P b d -> Dp a <= Dp b -> anc P a b.
Proof. use anc_chain. Qed.
Lemma k_anc_total : forall a b d, V d -> anc P a d -> anc P b d -> anc P a b \/ anc P b a.
Proof. use anc_total. Qed.
Lemma k_anc_root : forall y, V y -> anc P 0%nat y.
Proof. use anc_root. Qed.
Lemma k_anc_proper_depth : forall x y, V y -> anc P x y -> x <> y -> Dp x < Dp y.
Proof. use anc_proper_depth. Qed.

Lemma k_child_depth : forall c, V c -> P c <> c -> c <> 0%nat /\ V (P c) /\ Dp c = Dp (P c) + 1.
Proof.
  intros c Hc Hne. assert (c <> 0%nat) by (intro; subst c; rewrite (t_P0 _ _ _ _ HT) in Hne; congruence).
  destruct (t_par _ _ _ _ HT c Hc H) as [H1 [_ H2]]. auto.
Qed.

Lemma k_child_not_anc : forall c, V c -> P c <> c -> ~ anc P c (P c).
Proof.
  intros c Hc Hne Ha. destruct (k_child_depth c Hc Hne) as [_ [HV E]].
  pose proof (k_anc_depth_le c (P c) HV Ha). lia.
Qed.

End Ok.
