(* C10 — Gallina model of Girth (graph/distances.go) as the code is written in /repo
   (definitions only).

   One queue, one [distances] slice (zeroed before every root) and one [parentVertices] slice
   that is *never* reset: when root i starts, parentVertices[i] (and the entries of vertices
   not reached in this round) still hold the values written in earlier rounds (or the initial
   0).  The model keeps that stale data. *)
From Coq Require Import List Arith Bool ZArith.
From Mamba Require Import Invariants.Graph Invariants.DistModel.
Import ListNotations.

Record gstate := mkG { gs_girth : nat; gs_dist : list nat; gs_par : list nat; gs_q : list nat }.

(* for _, j := range g.Neighbours(k) { if j != parentVertices[k] { ... } }
   (both distances are read before the tests; in the Go code distances[j] is read only when
    j != i: all indices are in range, so this changes nothing but the place of a panic) *)
Fixpoint girth_scan (i k : nat) (nb : list nat) (s : gstate) : option gstate :=
  match nb with
  | [] => Some s
  | j :: nb' =>
    match nth_error (gs_par s) k, nth_error (gs_dist s) k, nth_error (gs_dist s) j with
    | Some pk, Some dk, Some dj =>
      if j =? pk then girth_scan i k nb' s
      else if (j =? i) && (dk + 1 <? gs_girth s) then
        girth_scan i k nb' (mkG (dk + 1) (gs_dist s) (gs_par s) (gs_q s))
      else if negb (j =? i) && (dj =? 0) then
        if dk + 2 <? gs_girth s then
          match wr (gs_par s) j k, wr (gs_dist s) j (dk + 1) with
          | Some par', Some dist' => girth_scan i k nb' (mkG (gs_girth s) dist' par' (gs_q s ++ [j]))
          | _, _ => None
          end
        else girth_scan i k nb' s
      else if negb (j =? i) && (dk + dj + 1 <? gs_girth s) then
        girth_scan i k nb' (mkG (dk + dj + 1) (gs_dist s) (gs_par s) (gs_q s))
      else girth_scan i k nb' s
    | _, _, _ => None
    end
  end.

Fixpoint girth_loop (g : graph) (i : nat) (fuel : nat) (s : gstate) : outcome gstate :=
  match gs_q s with
  | [] => Done s
  | k :: q' =>
    match fuel with
    | O => Fuel
    | S f =>
      match girth_scan i k (nbrs g k) (mkG (gs_girth s) (gs_dist s) (gs_par s) q') with
      | None => Panic
      | Some s' => girth_loop g i f s'
      end
    end
  end.

(* for i := 0; i < n-2; i++ { zeroOut(distances); PushBack(i); loop } *)
Fixpoint girth_rounds (g : graph) (roots : list nat) (s : gstate) : outcome gstate :=
  match roots with
  | [] => Done s
  | i :: rest =>
    let s0 := mkG (gs_girth s) (map (fun _ => 0) (gs_dist s)) (gs_par s) (gs_q s ++ [i]) in
    match girth_loop g i (S (gn g)) s0 with
    | Done s' => girth_rounds g rest s'
    | Panic => Panic
    | Fuel => Fuel
    end
  end.

(* func Girth(g Graph) int *)
Definition girth_go (g : graph) : outcome Z :=
  let n := gn g in
  if n <? 3 then Done (-1)%Z else
  match girth_rounds g (seq 0 (n - 2)) (mkG (n + 2) (repeat 0 n) (repeat 0 n) []) with
  | Done s => Done (if gs_girth s =? n + 2 then (-1)%Z else Z.of_nat (gs_girth s))
  | Panic => Panic
  | Fuel => Fuel
  end.
