(* C10 — Gallina model of NumberOfCycles (graph/subgraph.go:14-137, as written in /repo) —
   definitions only.

   For every biconnected component (as BiconnectedComponents returns them: BlockModel.v) with at
   least 3 vertices the function takes a := g.InducedSubgraph(bicom) (vertex i of a is bicom[i];
   CycleCount.induced presents the same abstract graph), a working copy h of it, and
   1. finds a fundamental set of cycles (Paton): a stack X of tree vertices not yet examined,
      T[u] = parent in the tree (-1 = not in the tree, T[0] = 0), depth[u]; the vertex v on top
      of X is popped, every edge v-u still in h is looked at (h.Neighbours(v) is a fresh slice:
      the snapshot taken when v is popped) and then removed from h: if u is in the tree the edge
      closes the cycle  T[u], u, v, T[v], ..., T[u]  of length depth[v]-depth[T[u]]+2, stored as
      the sorted list of its edge codes (edge {i<j} = j(j-1)/2+i); otherwise u joins the tree;
   2. runs Gibbs' algorithm over the fundamental cycles: Q = every non-empty XOR combination so
      far, R = the new combinations t XOR f_i that overlap f_i, from which those containing
      another member of R are removed (index j downwards, removal by moving the last entry into
      position j); S collects what remains of R and f_i;
   3. adds one to numberFound[len(V)] for every V in S.

   Representation: h is the list of its (ascending) neighbour lists; T is a list of
   [option nat] (None = -1); X is a list whose head is the top; slices of edge codes are lists;
   sortints.XOR / ContainsSorted are written as the merges they are; sort.Ints is
   ConnModel.isort.  P (R* of the reference) is only ever appended to and never read: left out.
   Arrays are read with nth_error: out of range = Panic.  The walk up the tree for the cycle
   reads T[previous]; an entry -1 there (a vertex outside the tree) would make Go compute a
   code from -1 and panic on T[-1] in the next iteration: the model says Panic at once (the
   safety theorem shows it never happens). *)
From Coq Require Import List Arith Bool ZArith.
From Mamba Require Import Invariants.Graph Invariants.DistRef Invariants.DistModel
  Invariants.ConnModel Invariants.CycleCount Invariants.CycleIPModel Invariants.BlockModel.
Import ListNotations.

(* the code of the edge {a, b} *)
Definition enc (a b : nat) : nat :=
  if a <? b then b * (b - 1) / 2 + a else a * (a - 1) / 2 + b.

(* sortints.XOR *)
Fixpoint xor_sorted (a : list nat) : list nat -> list nat :=
  match a with
  | [] => fun b => b
  | x :: a' =>
    fix aux (b : list nat) : list nat :=
      match b with
      | [] => x :: a'
      | y :: b' =>
        if x =? y then xor_sorted a' b'
        else if y <? x then y :: aux b'
        else x :: xor_sorted a' (y :: b')
      end
  end.

(* sortints.ContainsSorted(a, b): a contains b *)
Fixpoint contains_sorted (a : list nat) : list nat -> bool :=
  match a with
  | [] => fun b => match b with [] => true | _ => false end
  | x :: a' =>
    fun b =>
      match b with
      | [] => true
      | y :: b' =>
        if x =? y then contains_sorted a' b'
        else if y <? x then false
        else contains_sorted a' (y :: b')
      end
  end.

(* h.RemoveEdge(u, v) on the neighbour lists *)
Definition remove_edge (nb : list (list nat)) (u v : nat) : list (list nat) :=
  map (fun il => if fst il =? u then filter (fun x => negb (x =? v)) (snd il)
                 else if fst il =? v then filter (fun x => negb (x =? u)) (snd il)
                 else snd il)
      (combine (seq 0 (length nb)) nb).

Record pstate := mkP {
  p_nb : list (list nat);
  p_T : list (option nat);
  p_depth : list nat;
  p_X : list nat;
  p_fund : list (list nat) }.

(* previous := v; for i := 2; i < length; i++ { cycle[i] = enc(previous, T[previous]); previous = T[previous] } *)
Fixpoint nc_walk (T : list (option nat)) (previous : nat) (steps : nat) : option (list nat) :=
  match steps with
  | O => Some []
  | S k =>
    match nth_error T previous with
    | Some (Some tp) =>
      match nc_walk T tp k with
      | Some es => Some (enc previous tp :: es)
      | None => None
      end
    | _ => None
    end
  end.

(* for _, u := range h.Neighbours(v) { ... h.RemoveEdge(u, v) } *)
Fixpoint nc_scan (v : nat) (us : list nat) (s : pstate) : option pstate :=
  match us with
  | [] => Some s
  | u :: us' =>
    match nth_error (p_T s) u with
    | None => None
    | Some (Some tu) =>
      match nth_error (p_depth s) v, nth_error (p_depth s) tu with
      | Some dv, Some dtu =>
        if dv <? dtu then None                       (* length < 2: make / cycle[0] / cycle[1] *)
        else
          match nc_walk (p_T s) v (dv - dtu) with
          | Some es =>
            nc_scan v us' (mkP (remove_edge (p_nb s) u v) (p_T s) (p_depth s) (p_X s)
                               (p_fund s ++ [isort (enc tu u :: enc u v :: es)]))
          | None => None
          end
      | _, _ => None
      end
    | Some None =>
      match nth_error (p_depth s) v with
      | Some dv =>
        match wrA (p_T s) u (Some v), wr (p_depth s) u (dv + 1) with
        | Some T', Some d' =>
          nc_scan v us' (mkP (remove_edge (p_nb s) u v) T' d' (u :: p_X s) (p_fund s))
        | _, _ => None
        end
      | None => None
      end
    end
  end.

(* for len(X) > 0 { pop v; scan } *)
Fixpoint nc_paton (fuel : nat) (s : pstate) : outcome pstate :=
  match p_X s with
  | [] => Done s
  | v :: X' =>
    match fuel with
    | O => Fuel
    | S f =>
      match nth_error (p_nb s) v with
      | None => Panic
      | Some us =>
        match nc_scan v us (mkP (p_nb s) (p_T s) (p_depth s) X' (p_fund s)) with
        | None => Panic
        | Some s' => nc_paton f s'
        end
      end
    end
  end.

(* Step 2: for _, t := range Q { tmp := XOR(t, f); overlap -> R; Q = append(Q, tmp) } *)
Fixpoint gibbs_step2 (ts : list (list nat)) (f : list nat) (R Q : list (list nat))
  : list (list nat) * list (list nat) :=
  match ts with
  | [] => (R, Q)
  | t :: ts' =>
    let tmp := xor_sorted t f in
    gibbs_step2 ts' f (if length tmp =? length t + length f then R else R ++ [tmp]) (Q ++ [tmp])
  end.

(* for k := 0; k < len(R); k++ { if k == j { continue }; if ContainsSorted(V, R[k]) { ...; break } } *)
Fixpoint contains_other (V : list nat) (j : nat) (k : nat) (R : list (list nat)) : bool :=
  match R with
  | [] => false
  | Rk :: R' => (negb (k =? j) && contains_sorted V Rk) || contains_other V j (S k) R'
  end.

(* Step 3: for j := len(R)-1; j >= 0; j-- ; [j] = number of positions still to visit *)
Fixpoint gibbs_step3 (j : nat) (R : list (list nat)) : option (list (list nat)) :=
  match j with
  | O => Some R
  | S j' =>
    match nth_error R j' with
    | None => None
    | Some V =>
      if contains_other V j' 0 R then
        match nth_error R (length R - 1) with
        | None => None
        | Some l => gibbs_step3 j' (removelast (upd R j' l))   (* R[j] = R[len-1]; R = R[:len-1] *)
        end
      else gibbs_step3 j' R
    end
  end.

(* for i := 1; i < len(fundCycles); i++ { Step 2; Step 3; Step 4 } ; returns S *)
Fixpoint gibbs_rounds (fs : list (list nat)) (St Q : list (list nat)) : option (list (list nat)) :=
  match fs with
  | [] => Some St
  | f :: fs' =>
    let '(R, Q') := gibbs_step2 Q f [] Q in
    match gibbs_step3 (length R) R with
    | None => None
    | Some R' => gibbs_rounds fs' (St ++ R' ++ [f]) (Q' ++ [f])
    end
  end.

(* for _, V = range S { numberFound[len(V)]++ } *)
Fixpoint nc_count (St : list (list nat)) (r : list nat) : option (list nat) :=
  match St with
  | [] => Some r
  | V :: St' => match add_at r (length V) 1 with Some r' => nc_count St' r' | None => None end
  end.

(* the body of   for _, bicom := range bicoms *)
Definition nc_block (g : graph) (bicom : list nat) (r : list nat) : outcome (list nat) :=
  let a := induced g bicom in
  let n := length bicom in
  if n <? 3 then Done r
  else
    let s0 := mkP (map (nbrs a) (seq 0 n)) (Some 0 :: repeat None (n - 1)) (repeat 0 n) [0] [] in
    match nc_paton (S n) s0 with
    | Panic => Panic
    | Fuel => Fuel
    | Done s =>
      match p_fund s with
      | [] => Done r
      | f0 :: fs =>
        match gibbs_rounds fs [f0] [f0] with
        | None => Panic
        | Some St => match nc_count St r with Some r' => Done r' | None => Panic end
        end
      end
    end.

Fixpoint nc_blocks (g : graph) (bicoms : list (list nat)) (r : list nat) : outcome (list nat) :=
  match bicoms with
  | [] => Done r
  | b :: rest =>
    match nc_block g b r with
    | Done r' => nc_blocks g rest r'
    | Panic => Panic
    | Fuel => Fuel
    end
  end.

(* func NumberOfCycles(g EditableGraph) []int *)
Definition number_of_cycles_go (g : graph) : outcome (list nat) :=
  let n := gn g in
  if n =? 0 then Done [0]
  else bind (biconnected_components_go g) (fun ba => nc_blocks g (fst ba) (repeat 0 (S n))).
