(* C10 — NumberOfCycles, Paton's fundamental cycles: helpers about the parent array T and the
   depth array (ancestors, the walk up the tree of nc_walk, the cycle closed by a non-tree edge,
   a set of tree edges contains no cycle), h.RemoveEdge on neighbour lists. *)
From Coq Require Import List Arith Bool Lia Permutation Sorted.
From Mamba Require Import Invariants.Graph Invariants.DistSpec Invariants.DistRef Invariants.DistRefProofs
  Invariants.DistModel Invariants.CycleRefProofs Invariants.ConnModel Invariants.ConnProofs Invariants.CycleCount
  Invariants.GirthExactLists Invariants.CycleICOrbit Invariants.BlockModel Invariants.CycleNCModel Invariants.CycleNCSets
  Invariants.CycleNCGibbs Invariants.CycleNCCodes Invariants.CycleNCSpace.
Import ListNotations.

(* ------------------------------------------------------------------ RemoveEdge *)

Lemma remove_edge_length : forall nb u v, length (remove_edge nb u v) = length nb.
Proof. intros. unfold remove_edge. rewrite map_length, combine_length, seq_length. lia. Qed.

Lemma remove_edge_nth : forall nb u v x, x < length nb ->
  nth x (remove_edge nb u v) [] =
  if x =? u then filter (fun y => negb (y =? v)) (nth x nb [])
  else if x =? v then filter (fun y => negb (y =? u)) (nth x nb [])
  else nth x nb [].
Proof.
  intros nb u v x Hx. unfold remove_edge.
  set (F := fun il : nat * list nat => if fst il =? u then filter (fun y => negb (y =? v)) (snd il)
                 else if fst il =? v then filter (fun y => negb (y =? u)) (snd il) else snd il).
  assert (Hgen : forall a l x, x < length l ->
            nth x (map F (combine (seq a (length l)) l)) [] = F (a + x, nth x l [])).
  { intros a l. revert a. induction l as [|h l IH]; intros a' y Hy; simpl in Hy; [lia|].
    destruct y as [|y]; cbn [length seq combine map nth].
    - rewrite Nat.add_0_r. reflexivity.
    - rewrite (IH (S a') y ltac:(lia)). replace (S a' + y) with (a' + S y) by lia. reflexivity. }
  rewrite (Hgen 0 nb x Hx). reflexivity.
Qed.

Lemma remove_edge_In : forall nb u v x y, x < length nb -> u <> v ->
  (In y (nth x (remove_edge nb u v) []) <->
   In y (nth x nb []) /\ ~ (x = u /\ y = v) /\ ~ (x = v /\ y = u)).
Proof.
  intros nb u v x y Hx Huv. rewrite remove_edge_nth by exact Hx.
  destruct (Nat.eqb_spec x u) as [-> | Hxu].
  - rewrite filter_In, negb_true_iff, Nat.eqb_neq. split; [intros [H1 H2]; split; [exact H1|]; split; intros [? ?]; congruence|].
    intros [H1 [H2 _]]. split; [exact H1|]. intro E. apply H2. split; [reflexivity | exact E].
  - destruct (Nat.eqb_spec x v) as [-> | Hxv].
    + rewrite filter_In, negb_true_iff, Nat.eqb_neq. split; [intros [H1 H2]; split; [exact H1|]; split; intros [? ?]; congruence|].
      intros [H1 [_ H2]]. split; [exact H1|]. intro E. apply H2. split; [reflexivity | exact E].
    + split; [intro H; split; [exact H|]; split; intros [? ?]; congruence | tauto].
Qed.

Lemma filter_neq_head : forall (u : nat) l, NoDup (u :: l) -> filter (fun y => negb (y =? u)) (u :: l) = l.
Proof.
  intros u l Hnd. inversion Hnd as [|? ? Hn _]; subst. simpl. rewrite Nat.eqb_refl. simpl.
  clear Hnd. induction l as [|a l IH]; [reflexivity|]. simpl.
  destruct (Nat.eqb_spec a u) as [-> | Hne]; [exfalso; apply Hn; left; reflexivity|].
  simpl. f_equal. apply IH. intro H. apply Hn. right. exact H.
Qed.

(* ------------------------------------------------------------------ ancestors *)

Definition Tn (T : list (option nat)) (w : nat) : option nat := nth w T None.

Lemma nth_error_Tn : forall T w, w < length T -> nth_error T w = Some (Tn T w).
Proof. intros T w H. unfold Tn. apply nth_error_nthA. exact H. Qed.

Lemma Tn_out : forall T w, length T <= w -> Tn T w = None.
Proof. intros T w H. unfold Tn. apply nth_overflow. exact H. Qed.

(* the ancestor k steps up *)
Fixpoint anck (T : list (option nat)) (w : nat) (k : nat) : option nat :=
  match k with
  | O => Some w
  | S k' => match Tn T w with Some t => anck T t k' | None => None end
  end.

(* the vertices w, T[w], ..., k steps up *)
Fixpoint upl (T : list (option nat)) (w : nat) (k : nat) : list nat :=
  w :: match k with
       | O => []
       | S k' => match Tn T w with Some t => upl T t k' | None => [] end
       end.

(* the codes of the tree edges along that walk *)
Fixpoint wcodes (T : list (option nat)) (w : nat) (k : nat) : list nat :=
  match k with
  | O => []
  | S k' => match Tn T w with Some t => enc w t :: wcodes T t k' | None => [] end
  end.

Section Tree.
Variable a : graph.
Hypothesis Hwf : wf a.
Variable T : list (option nat).
Variable D : list nat.
Variable Pp : list nat.
Let n := gn a.
Let dn (w : nat) : nat := nth w D 0.

(* the tree is well formed: vertex 0 is the root; every other tree vertex has a popped parent,
   adjacent to it in the graph and one level higher *)
Record twf : Prop := {
  tw_len : length T = n;
  tw_n : 0 < n;
  tw_root : Tn T 0 = Some 0 /\ dn 0 = 0;
  tw_par : forall w t, w <> 0 -> Tn T w = Some t ->
    w < n /\ t < n /\ gadj a w t = true /\ Tn T t <> None /\ dn w = dn t + 1 /\ In t Pp
}.

Hypothesis HT : twf.

Lemma tree_lt : forall w, Tn T w <> None -> w < n.
Proof.
  intros w H. destruct (lt_dec w n) as [Hl | Hg]; [exact Hl|]. exfalso. apply H. apply Tn_out.
  rewrite (tw_len HT). lia.
Qed.

Lemma tree_parent : forall w, w <> 0 -> Tn T w <> None -> exists t, Tn T w = Some t.
Proof. intros w _ H. destruct (Tn T w) as [t|]; [exists t; reflexivity | contradiction]. Qed.

Lemma depth_pos : forall w t, w <> 0 -> Tn T w = Some t -> 0 < dn w.
Proof. intros w t Hw Ht. destruct (tw_par HT w t Hw Ht) as [_ [_ [_ [_ [Hd _]]]]]. lia. Qed.

Lemma anck_depth : forall k w, Tn T w <> None -> k <= dn w ->
  exists z, anck T w k = Some z /\ Tn T z <> None /\ dn z + k = dn w.
Proof.
  induction k as [|k IH]; intros w Hw Hk.
  - exists w. split; [reflexivity|]. split; [exact Hw | lia].
  - assert (Hw0 : w <> 0) by (intros ->; rewrite (proj2 (tw_root HT)) in Hk; lia).
    destruct (tree_parent w Hw0 Hw) as [t Et].
    destruct (tw_par HT w t Hw0 Et) as [_ [_ [_ [Ht [Hd _]]]]].
    destruct (IH t Ht ltac:(lia)) as [z [Hz1 [Hz2 Hz3]]].
    exists z. simpl. rewrite Et. split; [exact Hz1|]. split; [exact Hz2 | lia].
Qed.

Lemma anck_add : forall j k w z, anck T w j = Some z -> anck T w (j + k) = anck T z k.
Proof.
  induction j as [|j IH]; intros k w z H; simpl in *.
  - injection H as ->. reflexivity.
  - destruct (Tn T w) as [t|]; [apply IH; exact H | discriminate].
Qed.

(* z is w or an ancestor of w *)
Definition aos (w z : nat) : Prop := exists k, k <= dn w /\ anck T w k = Some z.

Lemma aos_refl : forall w, aos w w.
Proof. intro w. exists 0. split; [lia | reflexivity]. Qed.

Lemma aos_child : forall w t z, w <> 0 -> Tn T w = Some t -> aos t z -> aos w z.
Proof.
  intros w t z Hw Ht [k [Hk Hz]]. destruct (tw_par HT w t Hw Ht) as [_ [_ [_ [_ [Hd _]]]]].
  exists (S k). split; [lia|]. simpl. rewrite Ht. exact Hz.
Qed.

(* ------------------------------------------------------------------ the walk up the tree *)

Lemma nc_walk_ok : forall k w, Tn T w <> None -> k <= dn w -> nc_walk T w k = Some (wcodes T w k).
Proof.
  induction k as [|k IH]; intros w Hw Hk; [reflexivity|].
  assert (Hw0 : w <> 0) by (intros ->; rewrite (proj2 (tw_root HT)) in Hk; lia).
  destruct (tree_parent w Hw0 Hw) as [t Et].
  destruct (tw_par HT w t Hw0 Et) as [Hwn [_ [_ [Ht [Hd _]]]]].
  simpl. rewrite (nth_error_Tn T w) by (rewrite (tw_len HT); exact Hwn). rewrite Et.
  rewrite (IH t Ht ltac:(lia)). reflexivity.
Qed.

(* consecutive pairs of a list *)
Fixpoint cons_pairs (l : list nat) : list (nat * nat) :=
  match l with
  | [] => []
  | x :: t => match t with [] => [] | y :: _ => (x, y) :: cons_pairs t end
  end.

Lemma pairs_from_cons : forall f l, l <> [] -> pairs_from f l = cons_pairs l ++ [(last l 0, f)].
Proof.
  intros f. induction l as [|x l IH]; intro H; [contradiction|].
  destruct l as [|y l']; [reflexivity|].
  change (pairs_from f (x :: y :: l')) with ((x, y) :: pairs_from f (y :: l')).
  rewrite IH by discriminate. reflexivity.
Qed.

Lemma upl_facts : forall k w, Tn T w <> None -> k <= dn w ->
  length (upl T w k) = S k /\
  hd 0 (upl T w k) = w /\
  Some (last (upl T w k) 0) = anck T w k /\
  (forall x, In x (upl T w k) -> Tn T x <> None /\ x < n /\ dn x <= dn w /\ (x = w \/ (In x Pp /\ dn x < dn w))) /\
  NoDup (upl T w k) /\
  chain a (upl T w k) /\
  map (fun ab => enc (fst ab) (snd ab)) (cons_pairs (upl T w k)) = wcodes T w k.
Proof.
  induction k as [|k IH]; intros w Hw Hk.
  - simpl. split; [reflexivity|]. split; [reflexivity|]. split; [reflexivity|]. split.
    + intros x [<- | []]. split; [exact Hw|]. split; [apply tree_lt; exact Hw|]. split; [lia | left; reflexivity].
    + split; [constructor; [intros [] | constructor]|]. split; [exact I | reflexivity].
  - assert (Hw0 : w <> 0) by (intros ->; rewrite (proj2 (tw_root HT)) in Hk; lia).
    destruct (tree_parent w Hw0 Hw) as [t Et].
    destruct (tw_par HT w t Hw0 Et) as [Hwn [Htn [Hadj [Ht [Hd HtP]]]]].
    destruct (IH t Ht ltac:(lia)) as [H1 [H2 [H3 [H4 [H5 [H6 H7]]]]]].
    cbn [upl anck wcodes]. rewrite Et.
    assert (Hne : upl T t k <> []) by (destruct k; simpl; [discriminate | destruct (Tn T t); discriminate]).
    split; [simpl; rewrite H1; reflexivity|]. split; [reflexivity|].
    split; [rewrite last_cons_ne by exact Hne; exact H3|].
    split; [|split; [|split]].
    + intros x [<- | Hx].
      * split; [exact Hw|]. split; [exact Hwn|]. split; [lia | left; reflexivity].
      * destruct (H4 x Hx) as [Hx1 [Hx2 [Hx3 Hx4]]]. split; [exact Hx1|]. split; [exact Hx2|]. split; [lia|].
        right. destruct Hx4 as [-> | [Hx4 Hx5]]; [split; [exact HtP | lia] | split; [exact Hx4 | lia]].
    + constructor; [|exact H5]. intro Hin. destruct (H4 w Hin) as [_ [_ [Hle _]]]. lia.
    + apply chain_cons; [exact H6|]. intros _. rewrite H2. exact Hadj.
    + destruct (upl T t k) as [|y l'] eqn:Eu; [contradiction|]. simpl in H2. subst y.
      change (cons_pairs (w :: t :: l')) with ((w, t) :: cons_pairs (t :: l')).
      cbn [map fst snd]. rewrite H7. reflexivity.
Qed.

(* ------------------------------------------------------------------ the cycle closed by u-v *)

(* u is a tree vertex that is not popped, v a popped tree vertex adjacent to u, the parent tu of
   u is the ancestor of v that lies d = depth v - depth tu >= 1 steps up *)
Lemma fundamental_cycle : forall u v tu d,
  u <> 0 -> Tn T u = Some tu -> Tn T v <> None ->
  gadj a u v = true -> u <> v -> 1 <= d -> d <= dn v -> anck T v d = Some tu ->
  (forall x, In x (upl T v d) -> x <> u) ->
  let p := u :: upl T v d in
  is_cycle_seq a p /\ isort (enc tu u :: enc u v :: wcodes T v d) = codes_of p /\
  In (enc u v) (codes_of p) /\
  forall c, In c (codes_of p) -> c = enc u v \/ exists w t, w <> 0 /\ Tn T w = Some t /\ c = enc w t.
Proof.
  intros u v tu d Hu0 Etu Hv Hadj Huv Hd1 Hdv Hanc Hnotu p.
  pose proof Hwf as [Hr [Hs Hl]].
  destruct (tw_par HT u tu Hu0 Etu) as [Hun [Htun [Hadju _]]].
  destruct (upl_facts d v Hv Hdv) as [H1 [H2 [H3 [H4 [H5 [H6 H7]]]]]].
  assert (Hne : upl T v d <> []) by (destruct (upl T v d); [simpl in H1; lia | discriminate]).
  assert (Hlast : last (upl T v d) 0 = tu) by (rewrite Hanc in H3; injection H3 as ->; reflexivity).
  assert (Hndp : NoDup p) by (constructor; [intro Hin; apply (Hnotu u Hin); reflexivity | exact H5]).
  assert (HLp : 3 <= length p) by (unfold p; simpl; rewrite H1; lia).
  assert (Hcyc : is_cycle_seq a p).
  { split; [split; [discriminate|]; split; [exact Hndp|]; split|split; [exact HLp|]].
    - apply chain_cons; [exact H6|]. intros _. rewrite H2. exact Hadj.
    - intros x [<- | Hx]; [exact Hun | apply (H4 x Hx)].
    - unfold p. simpl hd. rewrite last_cons_ne by exact Hne. rewrite Hlast. exact Hadju. }
  (* the pairs of p *)
  assert (Ecp : cpairs p = (u, v) :: cons_pairs (upl T v d) ++ [(tu, u)]).
  { unfold cpairs, p. simpl hd. destruct (upl T v d) as [|y l'] eqn:Eu; [contradiction|]. simpl in H2. subst y.
    change (pairs_from u (u :: v :: l')) with ((u, v) :: pairs_from u (v :: l')).
    rewrite pairs_from_cons by discriminate. rewrite Hlast. reflexivity. }
  assert (Eperm : Permutation (enc tu u :: enc u v :: wcodes T v d)
                              (map (fun ab => enc (fst ab) (snd ab)) (cpairs p))).
  { rewrite Ecp. cbn [map fst snd]. rewrite map_app, H7. cbn [map fst snd].
    eapply Permutation_trans; [apply perm_swap|]. apply perm_skip.
    apply Permutation_cons_append. }
  assert (Hndc : NoDup (map (fun ab => enc (fst ab) (snd ab)) (cpairs p))).
  { apply NoDup_map_inj_in; [|apply cpairs_NoDup; exact Hndp]. intros ab cd. apply (codes_pairs_inj p Hndp HLp). }
  split; [exact Hcyc|]. split; [|split].
  - unfold codes_of. apply sset_ext.
    + apply isort_sorted. apply (Permutation_NoDup (Permutation_sym Eperm)). exact Hndc.
    + apply isort_sorted. exact Hndc.
    + intro z. rewrite !isort_In. split; apply Permutation_in; [exact Eperm | apply Permutation_sym; exact Eperm].
  - apply (codes_of_In p HLp). exists u, v. split; [|reflexivity]. apply cpairs_In; [lia|]. rewrite Ecp. left. reflexivity.
  - intros c Hc. unfold codes_of in Hc. rewrite isort_In in Hc.
    apply (Permutation_in c (Permutation_sym Eperm)) in Hc.
    destruct Hc as [<- | [<- | Hc]].
    + right. exists u, tu. split; [exact Hu0|]. split; [exact Etu|]. apply enc_sym.
      intros ->. rewrite Hl in Hadju. discriminate.
    + left. reflexivity.
    + right. clear - Hc HT Hv Hdv. revert v Hv Hdv Hc. induction d as [|d IH]; intros v Hv Hdv Hc; [destruct Hc|].
      assert (Hv0 : v <> 0) by (intros ->; rewrite (proj2 (tw_root HT)) in Hdv; lia).
      destruct (tree_parent v Hv0 Hv) as [t Et]. simpl in Hc. rewrite Et in Hc.
      destruct Hc as [<- | Hc]; [exists v, t; tauto|].
      destruct (tw_par HT v t Hv0 Et) as [_ [_ [_ [Ht [Hd _]]]]].
      apply (IH t Ht ltac:(lia) Hc).
Qed.

(* ------------------------------------------------------------------ tree edges contain no cycle *)

Lemma max_depth_in : forall (p : list nat), p <> [] -> exists x, In x p /\ forall y, In y p -> dn y <= dn x.
Proof.
  induction p as [|x p IH]; intro H; [contradiction|].
  destruct p as [|y p'].
  - exists x. split; [left; reflexivity|]. intros z [<- | []]. lia.
  - destruct (IH ltac:(discriminate)) as [m [Hm Hmax]].
    destruct (le_lt_dec (dn x) (dn m)) as [Hle | Hgt].
    + exists m. split; [right; exact Hm|]. intros z [<- | Hz]; [exact Hle | apply Hmax; exact Hz].
    + exists x. split; [left; reflexivity|]. intros z [<- | Hz]; [lia | specialize (Hmax z Hz); lia].
Qed.

Lemma tree_acyclic : forall p, is_cycle_seq a p ->
  (forall c, In c (codes_of p) -> exists w t, w <> 0 /\ Tn T w = Some t /\ c = enc w t) -> False.
Proof.
  intros p Hc Hall. pose proof Hc as [[Hpne [Hnd _]] [HL _]]. pose proof Hwf as [_ [_ Hl]].
  destruct (max_depth_in p Hpne) as [x [Hx Hmax]].
  destruct (cycle_nb p x Hnd HL Hx) as [s [t [Hst Hu]]].
  assert (Hpar : forall y, uadj p x y -> Tn T x = Some y).
  { intros y Hxy.
    assert (Hne : x <> y) by (destruct Hxy as [H | H]; [|apply not_eq_sym]; apply (cadj_neq p _ _ Hnd ltac:(lia) H)).
    assert (Hy : In y p) by (destruct Hxy as [H | H]; apply cadj_in in H; tauto).
    destruct (Hall (enc x y)) as [w [t' [Hw0 [Et E]]]]; [apply (codes_of_uadj p Hnd HL x y Hne); exact Hxy|].
    destruct (tw_par HT w t' Hw0 Et) as [_ [_ [Hadj [_ [Hd _]]]]].
    assert (Hwt : w <> t') by (intros ->; rewrite Hl in Hadj; discriminate).
    destruct (enc_inj x y w t' Hne Hwt E) as [[-> ->] | [-> ->]]; [exact Et|].
    exfalso. specialize (Hmax w Hy). lia. }
  assert (E1 : Tn T x = Some s) by (apply Hpar, Hu; left; reflexivity).
  assert (E2 : Tn T x = Some t) by (apply Hpar, Hu; right; reflexivity).
  congruence.
Qed.

End Tree.

(* ------------------------------------------------------------------ frame: a new leaf *)

Lemma Tn_upd_other : forall T c x w, w <> c -> Tn (upd T c x) w = Tn T w.
Proof. intros. unfold Tn. apply nth_updA_other. assumption. Qed.

Lemma Tn_upd_same : forall T c x, c < length T -> Tn (upd T c x) c = x.
Proof. intros. unfold Tn. apply nth_updA_same. assumption. Qed.

Lemma anck_frame : forall T c x k w, Tn T c = None ->
  (forall j z, j <= k -> anck T w j = Some z -> z <> c) ->
  anck (upd T c x) w k = anck T w k.
Proof.
  intros T c x. induction k as [|k IH]; intros w Hc Hpath; [reflexivity|].
  assert (Hwc : w <> c) by (apply (Hpath 0 w); [lia | reflexivity]).
  simpl. rewrite Tn_upd_other by exact Hwc.
  destruct (Tn T w) as [t|] eqn:Et; [|reflexivity].
  apply IH; [exact Hc|]. intros j z Hj Hz. apply (Hpath (S j) z); [lia|]. simpl. rewrite Et. exact Hz.
Qed.
