(* C10 / BiconnectedComponents — from the final state of the loop to the result of one component
   (blocks of the component view mapped back and sorted, articulation vertices), and the whole
   function: the model returns exactly the blocks and the articulation vertices of g. *)
From Coq Require Import List Arith Bool ZArith Lia Sorted.
From Mamba Require Import Invariants.Graph Invariants.DistSpec Invariants.DistRef Invariants.DistRefProofs
  Invariants.DistModel Invariants.ConnModel Invariants.ConnProofs Invariants.CycleCount
  Invariants.BlockRefProofs Invariants.BlockModel Invariants.BlockProofsTree Invariants.BlockProofsTreeOk
  Invariants.BlockProofsInv Invariants.BlockProofsStep Invariants.BlockProofsStep2 Invariants.BlockProofsStep3
  Invariants.BlockProofsStep4 Invariants.BlockProofsStep5 Invariants.BlockProofsLoop
  Invariants.BlockProofsGraph Invariants.BlockProofsTransport.
Import ListNotations.

Lemma b_nodup_app : forall (A : Type) (l1 l2 : list A), NoDup l1 -> NoDup l2 ->
  (forall x, In x l1 -> In x l2 -> False) -> NoDup (l1 ++ l2).
Proof.
  intros A l1 l2 H1 H2 Hd. induction H1 as [|a l1 Ha H1 IH]; simpl; [exact H2|].
  constructor.
  - rewrite in_app_iff. intros [H | H]; [contradiction | apply (Hd a); [left; reflexivity | exact H]].
  - apply IH. intros x Hx. apply Hd. right; exact Hx.
Qed.

Lemma Forall2_map_r : forall (A B C : Type) (R : A -> C -> Prop) (k : B -> C) l1 l2,
  Forall2 (fun a b => R a (k b)) l1 l2 -> Forall2 R l1 (map k l2).
Proof. intros A B C R k l1 l2 H. induction H; simpl; constructor; assumption. Qed.

Lemma Forall2_nodup_r : forall (A B : Type) (R : A -> B -> Prop) l1 l2,
  Forall2 R l1 l2 -> NoDup l1 ->
  (forall a a' b, In a l1 -> In a' l1 -> R a b -> R a' b -> a = a') -> NoDup l2.
Proof.
  intros A B R l1 l2 H. induction H as [|a b l1 l2 Hab H IH]; intros Hnd Hinj; [constructor|].
  inversion Hnd as [|? ? Ha Hnd']; subst. constructor.
  - intro Hin. destruct (Forall2_In_r _ _ _ _ _ _ H Hin) as [a' [Ha' Hab']].
    assert (a = a') by (apply (Hinj a a' b); [left; reflexivity | right; exact Ha' | exact Hab | exact Hab']).
    subst. contradiction.
  - apply IH; [exact Hnd'|]. intros x x' y Hx Hx'. apply Hinj; right; assumption.
Qed.

Lemma emit_all_some : forall com bs, (forall b x, In b bs -> In x b -> x < length com) ->
  emit_all com bs = Some (map (fun b => isort (map (fun a => nth a com 0) b)) bs).
Proof.
  intros com. induction bs as [|b bs IH]; intro H; [reflexivity|].
  simpl. rewrite (bc_emit_some com b) by (intros x Hx; apply (H b x); [left; reflexivity | exact Hx]).
  rewrite IH by (intros b' x Hb'; apply H; right; exact Hb'). reflexivity.
Qed.

(* the indices of the true entries *)
Fixpoint true_idx (i : nat) (art : list bool) : list nat :=
  match art with
  | [] => []
  | b :: t => (if b then [i] else []) ++ true_idx (S i) t
  end.

Lemma true_idx_In : forall art i j, In j (true_idx i art) <-> i <= j < i + length art /\ nth (j - i) art false = true.
Proof.
  induction art as [|b t IH]; intros i j; simpl.
  - split; [intros [] | intros [H _]; lia].
  - rewrite in_app_iff, IH. split.
    + intros [H | [H1 H2]].
      * destruct b; [|destruct H]. destruct H as [<- | []]. rewrite Nat.sub_diag. split; [lia | reflexivity].
      * split; [lia|]. replace (j - i) with (S (j - S i)) by lia. exact H2.
    + intros [H1 H2]. destruct (Nat.eq_dec j i) as [-> | Hne].
      * left. rewrite Nat.sub_diag in H2. subst b. left; reflexivity.
      * right. split; [lia|]. replace (j - i) with (S (j - S i)) in H2 by lia. exact H2.
Qed.

Lemma true_idx_sorted : forall art i, StronglySorted lt (true_idx i art).
Proof.
  induction art as [|b t IH]; intro i; simpl; [constructor|].
  destruct b; simpl; [|apply IH]. constructor; [apply IH|].
  apply Forall_forall. intros j Hj. apply true_idx_In in Hj. lia.
Qed.

Lemma collect_art_some : forall com art i, i + length art <= length com ->
  collect_art com i art = Some (map (fun a => nth a com 0) (true_idx i art)).
Proof.
  intros com. induction art as [|b t IH]; intros i H; [reflexivity|].
  simpl in *. rewrite IH by lia. destruct b; [|reflexivity].
  rewrite (b_nth_error nat com i 0) by lia. reflexivity.
Qed.

Lemma sorted_lt_nodup : forall l, StronglySorted lt l -> NoDup l.
Proof.
  intros l H. induction H as [|a l H IH Hall]; constructor; [|exact IH].
  intro Hin. rewrite Forall_forall in Hall. specialize (Hall a Hin). lia.
Qed.

Section Comp.
Variable g : graph.
Hypothesis Hwf : wf g.
Variable c : list nat.
Hypothesis Hc : In c (comps_ref g).

Let hc := induced g c.
Let f := fun a => nth a c 0.
Notation n := (length c).

Lemma hc_wf : wf hc.
Proof. apply induced_wf. exact Hwf. Qed.

Lemma f_inj : forall a b, a < n -> b < n -> f a = f b -> a = b.
Proof. intros a b Ha Hb E. apply (cf_inj g Hwf c Hc a b Ha Hb E). Qed.

Lemma f_mono : forall a b, a < b -> b < n -> f a < f b.
Proof. intros a b H1 H2. apply (cf_mono g Hwf c Hc a b H1 H2). Qed.

Lemma map_f_In : forall l x, (forall y, In y l -> y < n) -> x < n -> (In (f x) (map f l) <-> In x l).
Proof.
  intros l x Hl Hx. rewrite in_map_iff. split.
  - intros [y [E Hy]]. apply f_inj in E; [subst; exact Hy | apply Hl; exact Hy | exact Hx].
  - intro H. exists x. auto.
Qed.

Lemma emit_eq : forall L, NoDup L -> (forall x, In x L -> x < n) -> isort (map f L) = map f (isort L).
Proof.
  intros L Hnd Hlt. apply sorted_lt_ext.
  - apply isort_sorted. apply NoDup_map_inj_in; [|exact Hnd]. intros a b Ha Hb. apply f_inj; apply Hlt; assumption.
  - apply sorted_map_mono; [apply isort_sorted; exact Hnd|].
    intros a b Ha Hb Hab. apply f_mono; [exact Hab|]. apply Hlt. apply isort_In. exact Hb.
  - intro x. rewrite isort_In, !in_map_iff. split; intros [y [E Hy]]; exists y; (split; [exact E|]); apply isort_In; exact Hy || (apply isort_In in Hy; exact Hy).
Qed.

Section WithFinal.
Variables (out : list (list nat)) (P : nat -> nat) (s : bstate).
Hypothesis HF : Final hc c out P s.

Let HT := f_tree _ _ _ _ _ HF.
Notation Dp := (dpf s).
Notation Lw := (lwf s).

Lemma inB_lt : forall w x, w < n -> w <> 0 -> inB (gn hc) P Dp Lw w x -> x < n.
Proof.
  intros w x Hw H0 [-> | [H _]]; [|exact H]. apply (dt_par _ _ _ _ HT w Hw H0).
Qed.

(* an emitted list is a block of the component view, mapped back *)
Lemma emitted_block : 2 <= n -> forall w b, w < n -> head P Dp Lw w -> emitted hc c P s w b ->
  exists S', is_block hc S' /\ b = map f S' /\ forall x, In x S' <-> inB (gn hc) P Dp Lw w x.
Proof.
  intros Hn2 w b Hw Hh [L [Hnd [Hin Hem]]].
  assert (Hlt : forall x, In x L -> x < n).
  { intros x Hx. apply Hin in Hx. apply (inB_lt w x Hw (proj1 Hh) Hx). }
  rewrite (bc_emit_some c L Hlt) in Hem. inversion Hem as [Eb]. clear Hem.
  exists (isort L). split; [|split].
  - apply (dfs_blocks hc P Dp Lw hc_wf HT Hn2). split; [apply isort_sorted; exact Hnd|].
    exists w. split; [exact Hw|]. split; [exact Hh|]. intro x. rewrite isort_In. apply Hin.
  - apply emit_eq; assumption.
  - intro x. rewrite isort_In. apply Hin.
Qed.

Lemma blocks_char : 2 <= n -> forall hs B, Forall2 (emitted hc c P s) hs B -> NoDup hs ->
  (forall w, In w hs <-> w < n /\ head P Dp Lw w) ->
  NoDup B /\ forall S, In S B <-> exists S', is_block hc S' /\ S = map f S'.
Proof.
  intros Hn2 hs B HF2 Hnd Hhs. split.
  - apply (Forall2_nodup_r _ _ _ _ _ HF2 Hnd).
    intros w w' b Hw Hw' Hb Hb'. apply Hhs in Hw, Hw'. destruct Hw as [Hw Hh]. destruct Hw' as [Hw' Hh'].
    destruct (emitted_block Hn2 w b Hw Hh Hb) as [S1 [_ [E1 H1]]].
    destruct (emitted_block Hn2 w' b Hw' Hh' Hb') as [S2 [_ [E2 H2]]].
    apply (dfs_blocks_distinct hc P Dp Lw HT w w' Hw Hw' Hh Hh').
    intros x Hx. pose proof (inB_lt w x Hw (proj1 Hh) Hx) as Hxn.
    apply H2. apply H1 in Hx.
    apply (map_f_In S2 x); [intros y Hy; apply H2 in Hy; apply (inB_lt w' y Hw' (proj1 Hh') Hy) | exact Hxn|].
    rewrite <- E2, E1. apply in_map. exact Hx.
  - intro S. split.
    + intro HS. destruct (Forall2_In_r _ _ _ _ _ _ HF2 HS) as [w [Hw Hb]]. apply Hhs in Hw.
      destruct (emitted_block Hn2 w S (proj1 Hw) (proj2 Hw) Hb) as [S' [H1 [H2 _]]]. exists S'. auto.
    + intros [S' [Hblk ->]]. pose proof Hblk as Hblk'.
      apply (dfs_blocks hc P Dp Lw hc_wf HT Hn2) in Hblk'. destruct Hblk' as [Hs [w [Hw [Hh Hin]]]].
      assert (Hwhs : In w hs) by (apply Hhs; auto).
      destruct (Forall2_In_l _ _ _ _ _ _ HF2 Hwhs) as [b [Hb Hem]].
      destruct (emitted_block Hn2 w b Hw Hh Hem) as [S2 [Hblk2 [E2 H2]]].
      assert (S2 = S').
      { apply sorted_lt_ext; [apply Hblk2 | exact Hs|]. intro x. rewrite H2, Hin. reflexivity. }
      subst S2. rewrite <- E2. exact Hb.
Qed.

End WithFinal.

(* the result of one component *)
Theorem component_ok : forall out arts,
  exists B A, bc_component g c out arts = Done (out ++ B, arts ++ A) /\
    NoDup B /\ (forall S, In S B <-> exists S', is_block hc S' /\ S = map f S') /\
    NoDup A /\ (forall x, In x A <-> exists v, v < n /\ x = f v /\ separates hc v).
Proof.
  intros out arts.
  assert (Hn : 0 < n).
  { pose proof (comp_nonempty g c Hwf Hc). destruct c; [congruence | simpl; lia]. }
  destruct (component_loop_ok hc c out hc_wf (induced_comp_connected g c Hwf Hc) Hn eq_refl) as [P [s [Eloop HF]]].
  pose proof (f_tree _ _ _ _ _ HF) as HT.
  unfold bc_component. fold hc. destruct (Nat.eqb_spec n 0) as [E0 | _]; [lia|].
  change (gn hc) with n in Eloop. rewrite Eloop.
  (* articulation vertices *)
  set (art' := upd (b_art s) 0 (2 <=? b_cc s)).
  assert (Hlen' : length art' = n) by (unfold art'; rewrite b_upd_length; exact (f_len _ _ _ _ _ HF)).
  rewrite (wrA_some bool (b_art s) 0 (2 <=? b_cc s)) by (rewrite (f_len _ _ _ _ _ HF); exact Hn).
  fold art'.
  assert (Hart : forall v, v < n -> (nth v art' false = true <-> separates hc v)).
  { intros v Hv. rewrite (dfs_artic hc P (dpf s) (lwf s) hc_wf HT v Hv).
    destruct (Nat.eq_dec v 0) as [-> | Hv0].
    - unfold art'. rewrite b_nth_upd_same by (rewrite (f_len _ _ _ _ _ HF); exact Hn).
      destruct (f_cc _ _ _ _ _ HF) as [cs [Hnd [Hlen Hcs]]]. rewrite <- Hlen. split.
      + intro H2. apply Nat.leb_le in H2. right. split; [reflexivity|].
        destruct cs as [|c1 [|c2 cs']]; simpl in H2; try lia.
        exists c1, c2. inversion Hnd as [|? ? Hn1 _]; subst.
        assert (H1 : In c1 (c1 :: c2 :: cs')) by (left; reflexivity).
        assert (H2' : In c2 (c1 :: c2 :: cs')) by (right; left; reflexivity).
        apply Hcs in H1, H2'. destruct H1 as [A1 [A2 A3]]. destruct H2' as [B1 [B2 B3]].
        split; [intro E; apply Hn1; left; auto|]. repeat split; assumption.
      + intros [[H _] | [_ [c1 [c2 [Hne [A1 [B1 [A2 [B2 [A3 B3]]]]]]]]]]; [contradiction|].
        apply Nat.leb_le.
        assert (H1 : In c1 cs) by (apply Hcs; auto). assert (H2 : In c2 cs) by (apply Hcs; auto).
        destruct cs as [|x [|y cs']]; simpl in *; lia.
    - unfold art'. rewrite b_nth_upd_other by auto.
      change (nth v (b_art s) false) with (artf s v).
      rewrite (f_art _ _ _ _ _ HF v Hv Hv0). split.
      + intro H. left. split; [exact Hv0 | exact H].
      + intros [[_ H] | [E _]]; [exact H | contradiction]. }
  rewrite (collect_art_some c art' 0) by (rewrite Hlen'; lia).
  set (A := map (fun a => nth a c 0) (true_idx 0 art')).
  assert (HA : NoDup A /\ forall x, In x A <-> exists v, v < n /\ x = f v /\ separates hc v).
  { split.
    - unfold A. apply NoDup_map_inj_in; [|apply sorted_lt_nodup; apply true_idx_sorted].
      intros a b Ha Hb. apply true_idx_In in Ha, Hb. apply f_inj; lia.
    - intro x. unfold A. rewrite in_map_iff. split.
      + intros [v [E Hv]]. apply true_idx_In in Hv. destruct Hv as [Hv1 Hv2]. rewrite Nat.sub_0_r in Hv2.
        exists v. split; [lia|]. split; [auto|]. apply Hart; [lia | exact Hv2].
      + intros [v [Hv [E Hs]]]. exists v. split; [auto|]. apply true_idx_In.
        split; [lia|]. rewrite Nat.sub_0_r. apply Hart; assumption. }
  (* blocks *)
  destruct (f_out _ _ _ _ _ HF) as [hs1 [obs [Eout [Fobs [Hnd1 Hhs1]]]]].
  destruct (f_bic _ _ _ _ _ HF) as [[E1 Ebic] | [hs2 [t0 [r0 [Ebic [Fbl [Hnd2 Hhs2]]]]]]].
  - (* a single vertex *)
    change (gn hc) with n in E1. rewrite Ebic. cbv beta iota. cbn [map rev app].
    assert (Hobs : obs = []).
    { destruct hs1 as [|w hs1']; [inversion Fobs; reflexivity|]. exfalso.
      assert (Hw : In w (w :: hs1')) by (left; reflexivity). apply Hhs1 in Hw.
      destruct Hw as [Hw [[H0 _] _]]. change (gn hc) with n in Hw. lia. }
    assert (Hc0 : 0 < length c) by exact Hn.
    rewrite (emit_all_some c [[0]]) by (intros b x [<- | []] [<- | []]; exact Hc0).
    cbn [map isort insert].
    exists [[nth 0 c 0]], A. split; [rewrite Eout, Hobs, app_nil_r; reflexivity|].
    split; [constructor; [intros [] | constructor]|]. split; [|exact HA].
    intro S. simpl. split.
    + intros [<- | []]. exists [0]. split; [apply (dfs_blocks_one hc E1); reflexivity | reflexivity].
    + intros [S' [Hblk ->]]. apply (dfs_blocks_one hc E1) in Hblk. subst S'. left. reflexivity.
  - (* at least two vertices *)
    assert (Hn2 : 2 <= n).
    { destruct hs2 as [|w hs2']; [inversion Fbl|].
      assert (Hw : In w (w :: hs2')) by (left; reflexivity). apply Hhs2 in Hw. change (gn hc) with n in Hw. lia. }
    rewrite Ebic.
    change ((0 :: t0) :: map (cons 0) r0) with (map (cons 0) (t0 :: r0)).
    rewrite <- map_rev.
    assert (Hbl_lt : forall b x, In b (map (cons 0) (rev (t0 :: r0))) -> In x b -> x < length c).
    { intros b x Hb Hx. apply in_map_iff in Hb. destruct Hb as [L [<- HL]]. apply in_rev in HL.
      destruct Hx as [<- | Hx]; [exact Hn|].
      destruct (Forall2_In_r _ _ _ _ _ _ Fbl HL) as [w [_ [_ [_ Hin]]]]. apply Hin in Hx. apply Hx. }
    rewrite (emit_all_some c _ Hbl_lt).
    set (BL := map (fun b => isort (map (fun a => nth a c 0) b)) (map (cons 0) (rev (t0 :: r0)))).
    exists (obs ++ BL), A. split; [rewrite Eout, app_assoc; reflexivity|].
    assert (FBL : Forall2 (emitted hc c P s) (rev hs2) BL).
    { unfold BL. rewrite map_map. apply Forall2_map_r. apply Forall2_rev_l.
      apply (Forall2_impl_in _ _ (blk_ok hc P s)); [|exact Fbl].
      intros w L Hw [_ [HLnd HLin]]. apply Hhs2 in Hw. destruct Hw as [Hw [H0 HP0]].
      exists (0 :: L). split.
      - constructor; [|exact HLnd]. intro Hin. apply HLin in Hin. destruct Hin as [_ [Ha _]].
        apply H0. destruct Ha as [k Hk]. rewrite <- Hk. clear Hk.
        induction k as [|k IH]; [reflexivity | simpl; rewrite IH; exact (dt_P0 _ _ _ _ HT)].
      - split; [intro x; unfold inB; rewrite HP0; simpl; rewrite HLin; split; intros [E | H]; auto|].
        apply bc_emit_some. intros x [<- | Hx]; [exact Hn|]. apply HLin in Hx. apply Hx. }
    assert (Hall : Forall2 (emitted hc c P s) (hs1 ++ rev hs2) (obs ++ BL)) by (apply Forall2_app; assumption).
    assert (Hndall : NoDup (hs1 ++ rev hs2)).
    { apply b_nodup_app; [exact Hnd1 | apply NoDup_rev; exact Hnd2|].
      intros w H1 H2. apply Hhs1 in H1. apply in_rev in H2. apply Hhs2 in H2. destruct H1 as [_ [_ H1]]. destruct H2 as [_ [_ H2]]. contradiction. }
    assert (Hhsall : forall w, In w (hs1 ++ rev hs2) <-> w < n /\ head P (dpf s) (lwf s) w).
    { intro w. rewrite in_app_iff, Hhs1, <- in_rev, Hhs2. change (gn hc) with n. split.
      - intros [[Hw [Hh _]] | [Hw [H0 HP0]]]; [auto|]. split; [exact Hw|]. split; [exact H0|].
        rewrite HP0, (dt_D0 _ _ _ _ HT). apply (dt_L0 _ _ _ _ HT w Hw H0).
      - intros [Hw Hh]. destruct (Nat.eq_dec (P w) 0) as [E | E]; [right | left]; [|auto].
        split; [exact Hw|]. split; [apply Hh | exact E]. }
    destruct (blocks_char out P s HF Hn2 (hs1 ++ rev hs2) (obs ++ BL) Hall Hndall Hhsall) as [HB1 HB2].
    split; [exact HB1|]. split; [exact HB2 | exact HA].
Qed.

End Comp.
