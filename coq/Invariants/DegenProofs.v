(* Degeneracy, part 2: the rounds.  The vertex removed in each round has minimum degree in the
   subgraph induced by the live vertices; the order returned certifies d and no order of the
   vertices certifies less. *)
From Coq Require Import List Arith Bool ZArith Lia Permutation.
From Mamba Require Import Invariants.Graph Invariants.ColourModel Invariants.ColourSpec Invariants.ColourProofs
  Invariants.ColourGreedy Invariants.DegenBins.
Import ListNotations.
Open Scope Z_scope.

(* ------------------------------------------------------------------ list facts *)

Definition inb (w : nat) (l : list nat) : bool := existsb (Nat.eqb w) l.

Lemma inb_spec w l : inb w l = true <-> In w l.
Proof.
  unfold inb. rewrite existsb_exists. split.
  - intros (x & Hx & E). apply Nat.eqb_eq in E. subst; auto.
  - intros H. exists w. split; auto. apply Nat.eqb_refl.
Qed.

Lemma inb_false w l : inb w l = false <-> ~ In w l.
Proof.
  rewrite <- inb_spec. destruct (inb w l); split; intros H; try reflexivity; try congruence.
Qed.

Lemma filter_ext' {A} (f h : A -> bool) l : (forall x, In x l -> f x = h x) -> filter f l = filter h l.
Proof.
  induction l; simpl; intros H; auto. rewrite (H a) by (left; auto). rewrite IHl; [reflexivity|]. intros; apply H; right; auto.
Qed.

Lemma filter_drop_one (f : nat -> bool) l x : NoDup l -> In x l -> f x = true ->
  length (filter f l) = S (length (filter (fun y => f y && negb (y =? x)%nat) l)).
Proof.
  induction l as [|a l IH]; intros Hnd Hin Hf; [contradiction|]. inversion Hnd as [|? ? Ha Hnd']; subst.
  simpl. destruct Hin as [->|Hin].
  - rewrite Hf, Nat.eqb_refl. simpl. f_equal. f_equal. apply filter_ext'.
    intros y Hy. assert (y <> x) by (intro; subst; contradiction).
    rewrite (proj2 (Nat.eqb_neq y x)) by auto. simpl. rewrite andb_true_r. reflexivity.
  - assert (a <> x) by (intro; subst; contradiction).
    rewrite (proj2 (Nat.eqb_neq a x)) by auto. simpl. rewrite andb_true_r.
    destruct (f a); simpl; rewrite (IH Hnd' Hin Hf); reflexivity.
Qed.

Lemma nth_error_decomp {A} (l : list A) i x : nth_error l i = Some x ->
  l = firstn i l ++ x :: skipn (S i) l.
Proof.
  revert i; induction l as [|a l IH]; intros i H; destruct i; simpl in *; try discriminate.
  - inversion H; auto.
  - f_equal. apply IH; auto.
Qed.

(* the last element of a list that satisfies a test *)
Lemma last_satisfying (p : nat -> bool) : forall l, (exists x, In x l /\ p x = true) ->
  exists i v, nth_error l i = Some v /\ p v = true /\ forall u, In u (skipn (S i) l) -> p u = false.
Proof.
  induction l as [|a l IH]; intros (x & Hx & Hp); [contradiction|].
  destruct (existsb p l) eqn:E.
  - apply existsb_exists in E. destruct (IH E) as (i & v & H1 & H2 & H3). exists (S i), v. auto.
  - exists 0%nat, a. destruct Hx as [->|Hx].
    + split; auto. split; auto. simpl. intros u Hu.
      destruct (p u) eqn:Epu; auto. assert (existsb p l = true) by (apply existsb_exists; eauto). congruence.
    + assert (existsb p l = true) by (apply existsb_exists; eauto). congruence.
Qed.

Lemma NoDup_app_inv {A} (l1 l2 : list A) : NoDup (l1 ++ l2) ->
  NoDup l1 /\ NoDup l2 /\ forall a, In a l1 -> In a l2 -> False.
Proof.
  induction l1 as [|x l1 IH]; simpl; intros H.
  - split; [constructor|split; auto].
  - inversion H as [|? ? Hx Hnd]; subst. destruct (IH Hnd) as (H1 & H2 & Hd).
    split; [constructor; auto; intro; apply Hx; apply in_app_iff; auto|]. split; auto.
    intros b [->|Hb] Hb2; [apply Hx; apply in_app_iff; auto|eauto].
Qed.

Lemma fold_max_ge (l : list nat) x : In x l -> (x <= fold_right Nat.max O l)%nat.
Proof. induction l; simpl; intros []; subst; try lia. specialize (IHl H). lia. Qed.

Lemma last_in_nonempty (l : list nat) : l <> [] -> l = removelast l ++ [last l O].
Proof. apply app_removelast_last. Qed.

Lemma dg_round_unfold g bins degs removed d j b : j = first_nonempty bins O -> nth_error bins j = Some b ->
  b <> [] -> (length degs <=? last b O)%nat = false ->
  dg_round g (bins, degs, removed, d) =
  match fold_opt dg_update (nbrs g (last b O)) (upd bins j (removelast b), upd degs (last b O) (-1)) with
  | None => None
  | Some (bins', degs') => Some (bins', degs', last b O :: removed, Nat.max d j)
  end.
Proof.
  intros -> Hb Hne Hl. unfold dg_round. rewrite Hb. destruct b; [congruence|]. rewrite Hl. reflexivity.
Qed.

(* ------------------------------------------------------------------ live neighbours *)

Section Rounds.
Variable g : graph.
Hypothesis Hwf : wf g.
Let n := gn g.

Definition live_nbrs (R : list nat) (v : nat) : list nat :=
  filter (fun u => gadj g v u && negb (inb u R)) (vertices g).

Lemma live_nbrs_in R v u : In u (live_nbrs R v) <-> (u < n)%nat /\ gadj g v u = true /\ ~ In u R.
Proof.
  unfold live_nbrs, vertices. rewrite filter_In, in_seq, andb_true_iff, negb_true_iff, inb_false.
  unfold n. split; intros; repeat split; try tauto; lia.
Qed.

Lemma live_nbrs_NoDup R v : NoDup (live_nbrs R v).
Proof. apply NoDup_filter, seq_NoDup. Qed.

Lemma live_nbrs_remove R v u : (v < n)%nat -> ~ In v R ->
  length (live_nbrs R u) = if gadj g u v then S (length (live_nbrs (v :: R) u)) else length (live_nbrs (v :: R) u).
Proof.
  intros Hv HvR. unfold live_nbrs.
  assert (E : filter (fun w => gadj g u w && negb (inb w (v :: R))) (vertices g) =
              filter (fun w => (gadj g u w && negb (inb w R)) && negb (w =? v)%nat) (vertices g)).
  { apply filter_ext'. intros w _. unfold inb. simpl. destruct (gadj g u w), (w =? v)%nat, (existsb (Nat.eqb w) R); reflexivity. }
  rewrite E. destruct (gadj g u v) eqn:Ha.
  - apply filter_drop_one.
    + apply seq_NoDup.
    + apply in_seq. fold n. lia.
    + rewrite Ha. simpl. apply negb_true_iff, inb_false; auto.
  - f_equal. apply filter_ext'. intros w _. destruct (Nat.eqb_spec w v) as [->|Hne].
    + rewrite Ha. reflexivity.
    + rewrite andb_true_r. reflexivity.
Qed.

Definition deg_ok (degs : list Z) (R : list nat) : Prop :=
  forall u, (u < n)%nat -> ~ In u R -> dval degs u = Z.of_nat (length (live_nbrs R u)).

(* ------------------------------------------------------------------ first non-empty bin *)

Lemma first_nonempty_spec : forall bins j0, (exists b, In b bins /\ b <> []) ->
  let r := first_nonempty bins j0 in
  (j0 <= r)%nat /\ (r - j0 < length bins)%nat /\ bin bins (r - j0) <> [] /\
  forall k, (k < r - j0)%nat -> bin bins k = [].
Proof.
  induction bins as [|b bins IH]; intros j0 (b0 & Hb0 & Hne); [contradiction|]. simpl.
  destruct b as [|x b'].
  - destruct Hb0 as [<-|Hb0]; [congruence|].
    destruct (IH (S j0)) as (H1 & H2 & H3 & H4); [eauto|].
    set (r := first_nonempty bins (S j0)) in *.
    replace (r - j0)%nat with (S (r - S j0)) by lia. simpl. split; [lia|]. split; [lia|]. split; auto.
    intros k Hk. destruct k; auto. unfold bin; simpl. apply H4. lia.
  - rewrite Nat.sub_diag. simpl. split; auto. split; [lia|]. split; [discriminate|]. intros; lia.
Qed.

(* ------------------------------------------------------------------ the round invariant *)

Definition rinv (st : dg_state) : Prop :=
  let '(bins, degs, removed, d) := st in
  bins_ok n bins degs removed /\ deg_ok degs removed /\ NoDup removed /\
  (forall v, In v removed -> (v < n)%nat) /\
  (forall i v, nth_error removed i = Some v -> (length (live_nbrs (skipn (S i) removed) v) <= d)%nat) /\
  (forall order d', is_order g order -> certifies g order d' -> (d <= d')%nat).

Lemma exists_live removed : NoDup removed -> (length removed < n)%nat ->
  exists w, (w < n)%nat /\ ~ In w removed.
Proof.
  intros Hnd Hlen.
  destruct (existsb (fun w => negb (inb w removed)) (seq 0 n)) eqn:E.
  - apply existsb_exists in E. destruct E as (w & Hw & Hn). apply in_seq in Hw.
    apply negb_true_iff, inb_false in Hn. exists w. split; auto; lia.
  - exfalso. assert (Hincl : incl (seq 0 n) removed).
    { intros w Hw. apply inb_spec. destruct (inb w removed) eqn:Ew; auto.
      assert (existsb (fun w => negb (inb w removed)) (seq 0 n) = true).
      { apply existsb_exists. exists w. rewrite Ew. auto. }
      congruence. }
    pose proof (NoDup_incl_length (seq_NoDup n 0) Hincl) as H. rewrite seq_length in H. lia.
Qed.

Lemma dg_round_inv bins degs removed d : rinv (bins, degs, removed, d) -> (length removed < n)%nat ->
  exists bins' degs' v d', dg_round g (bins, degs, removed, d) = Some (bins', degs', v :: removed, d') /\
    rinv (bins', degs', v :: removed, d').
Proof.
  intros (Hok & Hdeg & Hnd & Hr & Hcert & Hlow) Hlen.
  pose proof Hok as (Hl & Hrm & Hlv & Hb).
  (* a live vertex, hence a non-empty bin *)
  destruct (exists_live removed Hnd Hlen) as (w & Hw & HwR).
  assert (Hex : exists b, In b bins /\ b <> []).
  { destruct (Hlv w Hw HwR) as [H0 H1].
    exists (bin bins (Z.to_nat (dval degs w))). split.
    - unfold bin. apply nth_In. lia.
    - intro E. destruct (Hb (Z.to_nat (dval degs w)) ltac:(lia)) as [_ Hin].
      assert (In w (bin bins (Z.to_nat (dval degs w)))) by (apply Hin; repeat split; auto; lia).
      rewrite E in H. contradiction. }
  destruct (first_nonempty_spec bins 0%nat Hex) as (_ & Hj & Hbj & Hempty).
  set (j := first_nonempty bins 0) in *. rewrite Nat.sub_0_r in *.
  assert (Hbne : bin bins j <> []) by exact Hbj.
  set (v := last (bin bins j) O).
  pose proof (last_in_nonempty _ Hbne) as Hsplit. fold v in Hsplit.
  destruct (Hb j Hj) as [Hndj Hinj].
  assert (Hvb : In v (bin bins j)) by (rewrite Hsplit; apply in_app_iff; right; left; auto).
  destruct (proj1 (Hinj v) Hvb) as (Hv & HvR & Hdv).
  assert (Hlv' : (length degs <=? v)%nat = false) by (apply Nat.leb_gt; lia).
  rewrite (dg_round_unfold g bins degs removed d j (bin bins j) eq_refl (nth_error_bin bins j Hj) Hbne Hlv').
  fold v.
  (* the buckets after taking v out *)
  assert (Hrl : forall u, In u (removelast (bin bins j)) <-> In u (bin bins j) /\ u <> v).
  { intros u. rewrite Hsplit at 2. rewrite in_app_iff. simpl.
    rewrite Hsplit in Hndj. apply NoDup_remove in Hndj. rewrite app_nil_r in Hndj. destruct Hndj as [_ Hnv].
    split.
    - intros H. split; auto. intro; subst; contradiction.
    - intros [[H|[H|[]]] Hne]; auto. congruence. }
  assert (Hok1 : bins_ok n (upd bins j (removelast (bin bins j))) (upd degs v (-1)) (v :: removed)).
  { split; [rewrite upd_length; auto|]. split; [|split].
    - intros u Hu [<-|HuR]; [apply dval_upd_same; lia|].
      rewrite dval_upd_other; [apply Hrm; auto|]. intro; subst; contradiction.
    - intros u Hu HuR. rewrite upd_length. rewrite dval_upd_other; [apply Hlv; auto|].
      + intro; apply HuR; right; auto.
      + intro; subst; apply HuR; left; auto.
    - intros k Hk. rewrite upd_length in Hk. destruct (Nat.eq_dec j k) as [<-|Hjk].
      + rewrite bin_upd_same by auto. split.
        * rewrite Hsplit in Hndj. apply NoDup_remove_1 in Hndj. rewrite app_nil_r in Hndj. auto.
        * intros u. rewrite Hrl, Hinj. simpl. destruct (Nat.eq_dec v u) as [->|Hvu].
          -- split; [intros [_ H]; congruence|intros (_ & H & _); exfalso; apply H; auto].
          -- rewrite dval_upd_other by auto. split.
             ++ intros [(H1 & H2 & H3) _]. repeat split; auto. intros [H|H]; auto.
             ++ intros (H1 & H2 & H3). repeat split; auto.
      + rewrite bin_upd_other by auto. destruct (Hb k Hk) as [Hndk Hink]. split; auto.
        intros u. rewrite Hink. simpl. destruct (Nat.eq_dec v u) as [->|Hvu].
        * split; [intros (_ & _ & H); assert (j = k) by lia; contradiction|intros (_ & H & _); exfalso; apply H; auto].
        * rewrite dval_upd_other by auto. split.
          -- intros (H1 & H2 & H3). repeat split; auto. intros [H|H]; auto.
          -- intros (H1 & H2 & H3). repeat split; auto. }
  destruct Hwf as (Hrange & Hsym & Hirr).
  destruct (dg_update_fold n (v :: removed) (nbrs g v) _ _ (NoDup_filter _ (seq_NoDup _ _))
              ltac:(intros u Hu; apply in_nbrs in Hu; apply Hu) Hok1)
    as (bins' & degs' & Hf & Hlen' & Hok' & Hd').
  { intros u Hu HuR. apply in_nbrs in Hu. destruct Hu as [Hu Ha].
    assert (u <> v) by (intro; subst; apply HuR; left; auto).
    rewrite dval_upd_other by auto. rewrite Hdeg; auto; [|intro; apply HuR; right; auto].
    assert (In v (live_nbrs removed u)) by (apply live_nbrs_in; repeat split; auto; rewrite Hsym; auto).
    destruct (live_nbrs removed u); [contradiction|]. simpl. lia. }
  rewrite Hf. exists bins', degs', v, (Nat.max d j). split; auto.
  split; auto. split; [|split; [|split; [|split]]].
  - (* degrees are the live degrees again *)
    intros u Hu HuR. assert (Huv : u <> v) by (intro; subst; apply HuR; left; auto).
    assert (HuR' : ~ In u removed) by (intro; apply HuR; right; auto).
    destruct (Hd' u Hu) as [Hd1 Hd2]. pose proof (live_nbrs_remove removed v u Hv HvR) as Hrem.
    destruct (gadj g u v) eqn:Ha.
    + rewrite Hd1; auto.
      * rewrite dval_upd_other by auto. rewrite Hdeg by auto. lia.
      * apply in_nbrs. split; auto. rewrite Hsym; auto.
    + rewrite Hd2.
      * rewrite dval_upd_other by auto. rewrite Hdeg by auto. lia.
      * left. intro H. apply in_nbrs in H. destruct H as [_ H]. rewrite Hsym in H. congruence.
  - constructor; auto.
  - intros u [<-|Hu]; auto.
  - intros i u Hi. destruct i; simpl in Hi.
    + inversion Hi; subst u. change (skipn 1 (v :: removed)) with removed.
      assert (E : Z.of_nat (length (live_nbrs removed v)) = Z.of_nat j) by (rewrite <- Hdeg; auto).
      lia.
    + specialize (Hcert i u Hi). change (skipn (S (S i)) (v :: removed)) with (skipn (S i) removed). lia.
  - (* no order certifies less than j: the live vertices induce minimum degree >= j *)
    intros order d' Hord Hc. specialize (Hlow order d' Hord Hc).
    enough (j <= d')%nat by lia.
    assert (Hmin : forall u, (u < n)%nat -> ~ In u removed -> (j <= length (live_nbrs removed u))%nat).
    { intros u Hu HuR. pose proof (Hdeg u Hu HuR) as E.
      destruct (Hlv u Hu HuR) as [H0 H1].
      destruct (le_lt_dec j (Z.to_nat (dval degs u))); [lia|]. exfalso.
      assert (In u (bin bins (Z.to_nat (dval degs u)))).
      { apply (Hb (Z.to_nat (dval degs u)) ltac:(lia)). repeat split; auto. lia. }
      rewrite Hempty in H by auto. contradiction. }
    destruct (last_satisfying (fun u => negb (inb u removed)) order) as (i & x & Hi & Hpx & Hafter).
    { exists v. split; [apply (order_complete g order Hord v Hv)|]. apply negb_true_iff, inb_false; auto. }
    apply negb_true_iff, inb_false in Hpx.
    assert (Hx : (x < n)%nat) by (apply Hord; eapply nth_error_In; eauto).
    specialize (Hc i x Hi). unfold nbrs_in in Hc.
    assert (Hincl : incl (live_nbrs removed x) (filter (gadj g x) (firstn i order))).
    { intros u Hu. apply live_nbrs_in in Hu. destruct Hu as (Hu & Ha & HuR).
      apply filter_In. split; auto.
      pose proof (order_complete g order Hord u Hu) as Hin.
      rewrite (nth_error_decomp order i x Hi) in Hin. apply in_app_iff in Hin.
      destruct Hin as [Hin|[->|Hin]]; auto.
      - rewrite Hirr in Ha. discriminate.
      - apply Hafter in Hin. apply negb_false_iff, inb_spec in Hin. contradiction. }
    pose proof (NoDup_incl_length (live_nbrs_NoDup removed x) Hincl).
    specialize (Hmin x Hx Hpx). lia.
Qed.

Lemma dg_rounds_inv : forall k st, rinv st -> (k + length (snd (fst st)) = n)%nat ->
  exists st', dg_rounds g k st = Some st' /\ rinv st' /\ length (snd (fst st')) = n.
Proof.
  induction k; intros st Hinv Hk; simpl.
  - exists st. auto.
  - destruct st as [[[bins degs] removed] d]. simpl in Hk.
    destruct (dg_round_inv bins degs removed d Hinv ltac:(lia)) as (bins' & degs' & v & d' & Hrd & Hinv').
    rewrite Hrd. apply IHk; auto. simpl. lia.
Qed.

End Rounds.

(* ------------------------------------------------------------------ initial state *)

Lemma init_inv g : wf g ->
  rinv g (dg_init_bins (degrees g), map Z.of_nat (degrees g), [], O).
Proof.
  intros Hwf. set (n := gn g). set (ds := degrees g).
  assert (Hlds : length ds = n) by (unfold ds, degrees, vertices; rewrite map_length, seq_length; auto).
  assert (Hnth : forall u, (u < n)%nat -> nth u ds O = degree g u).
  { intros u Hu. unfold ds, degrees, vertices. rewrite nth_indep with (d' := degree g O) by (rewrite map_length, seq_length; auto).
    rewrite map_nth, seq_nth; auto. }
  assert (Hdv : forall u, (u < n)%nat -> dval (map Z.of_nat ds) u = Z.of_nat (degree g u)).
  { intros u Hu. unfold dval. rewrite nth_indep with (d' := Z.of_nat O) by (rewrite map_length; lia).
    rewrite map_nth, Hnth; auto. }
  assert (Hlb : length (dg_init_bins ds) = S (fold_right Nat.max O ds)).
  { unfold dg_init_bins. rewrite map_length, seq_length. auto. }
  split; [|split; [|split; [|split; [|split]]]].
  - split; [rewrite map_length; auto|]. split; [intros u _ []|]. split.
    + intros u Hu _. rewrite Hdv by auto. rewrite Hlb. split; [lia|].
      assert (degree g u <= fold_right Nat.max O ds)%nat; [|lia].
      apply fold_max_ge. rewrite <- Hnth by auto. apply nth_In. lia.
    + intros k Hk. rewrite Hlb in Hk. unfold bin, dg_init_bins.
      set (F := fun k0 => filter (fun v => (nth v ds O =? k0)%nat) (seq 0 (length ds))).
      rewrite nth_indep with (d' := F O) by (rewrite map_length, seq_length; auto).
      rewrite (map_nth F), seq_nth by auto. simpl. unfold F. split; [apply NoDup_filter, seq_NoDup|].
      intros u. rewrite filter_In, in_seq, Hlds, Nat.eqb_eq. split.
      * intros [Hu E]. split; [lia|]. split; auto. rewrite Hdv by lia. rewrite <- Hnth by lia. lia.
      * intros (Hu & _ & E). split; [lia|]. rewrite Hdv in E by auto. rewrite Hnth by auto. lia.
  - intros u Hu _. rewrite Hdv by auto. f_equal. unfold degree, nbrs, live_nbrs. f_equal.
    apply filter_ext'. intros w _. simpl. rewrite andb_true_r. reflexivity.
  - constructor.
  - intros v [].
  - intros i v Hi. destruct i; discriminate.
  - intros; lia.
Qed.

(* ------------------------------------------------------------------ the theorem *)

Theorem degeneracy_correct g : wf g ->
  exists d order, degeneracy g = Some (d, order) /\
    is_order g order /\ certifies g order d /\
    (forall order' d', is_order g order' -> certifies g order' d' -> (d <= d')%nat).
Proof.
  intros Hwf. unfold degeneracy. destruct (gn g) as [|n'] eqn:En.
  - exists O, []. split; auto. split; [|split].
    + split; [constructor|]. split; [simpl; auto|intros v []].
    + intros i v Hi. destruct i; discriminate.
    + intros; lia.
  - rewrite <- En.
    destruct (dg_rounds_inv g Hwf (gn g) _ (init_inv g Hwf)) as (st' & Hrun & Hinv & Hlen); [simpl; lia|].
    rewrite Hrun. destruct st' as [[[bins degs] removed] d]. simpl in Hlen.
    destruct Hinv as (_ & _ & Hnd & Hr & Hcert & Hlow).
    exists d, removed. split; auto.
    assert (Hord : is_order g removed) by (split; auto).
    split; auto. split; auto.
    intros i v Hi. specialize (Hcert i v Hi). unfold nbrs_in.
    assert (Hincl : incl (filter (gadj g v) (firstn i removed)) (live_nbrs g (skipn (S i) removed) v)).
    { intros u Hu. apply filter_In in Hu. destruct Hu as [Hu Ha]. apply live_nbrs_in.
      split; [apply Hr; eapply In_firstn_incl; eauto|]. split; auto.
      rewrite (nth_error_decomp removed i v Hi) in Hnd. intro Hs.
      destruct (NoDup_app_inv _ _ Hnd) as (_ & _ & Hd). apply (Hd u Hu). right; auto. }
    assert (Hndf : NoDup (filter (gadj g v) (firstn i removed))).
    { apply NoDup_filter. rewrite <- (firstn_skipn i removed) in Hnd. apply NoDup_app_inv in Hnd. apply Hnd. }
    pose proof (NoDup_incl_length Hndf Hincl). lia.
Qed.

Corollary degeneracy_is_degeneracy g : wf g ->
  exists d order, degeneracy g = Some (d, order) /\ is_order g order /\ certifies g order d /\ is_degeneracy g d.
Proof.
  intros Hwf. destruct (degeneracy_correct g Hwf) as (d & order & H1 & H2 & H3 & H4).
  exists d, order. split; auto. split; auto. split; auto. split; eauto.
Qed.
