(* Exhaustive reference oracles for cliques (definitions only; proved in CliqueRefProofs.v):
   every ascending vertex subset is listed and tested against the definitions. *)
From Coq Require Import List Arith Bool ZArith.
From Mamba Require Import Invariants.Graph.
Import ListNotations.

(* all sublists of l, each in the order of l *)
Fixpoint subsets (l : list nat) : list (list nat) :=
  match l with
  | [] => [[]]
  | x :: t => let r := subsets t in map (cons x) r ++ r
  end.

Definition cliqueb (g : graph) (s : list nat) : bool :=
  forallb (fun u => forallb (fun v => (u =? v) || gadj g u v) s) s.

Definition memb (w : nat) (s : list nat) : bool := existsb (Nat.eqb w) s.

Definition maximalb (g : graph) (s : list nat) : bool :=
  forallb (fun w => memb w s || existsb (fun u => negb (gadj g u w)) s) (vertices g).

(* all cliques / all maximal cliques, as ascending lists, each exactly once *)
Definition cliques_ref (g : graph) : list (list nat) := filter (cliqueb g) (subsets (vertices g)).
Definition maximal_cliques_ref (g : graph) : list (list nat) := filter (maximalb g) (cliques_ref g).

Definition clique_number_ref (g : graph) : nat := list_max (map (@length nat) (cliques_ref g)).
Definition independence_number_ref (g : graph) : nat := clique_number_ref (complement g).
