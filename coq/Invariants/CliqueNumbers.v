(* Bron-Kerbosch, part 3: CliqueNumber and IndependenceNumber. *)
From Coq Require Import List Arith Bool ZArith Lia Permutation.
From Mamba Require Import Invariants.Graph Invariants.DegenProofs Invariants.CliqueSpec Invariants.CliqueRef
  Invariants.CliqueRefProofs Invariants.CliqueModel Invariants.CliqueLoop Invariants.CliqueBK.
Import ListNotations.
Open Scope nat_scope.

Lemma complement_wf g : wf g -> wf (complement g).
Proof.
  intros (Hr & Hs & Hi). unfold wf, complement; simpl. split; [|split].
  - intros u v H. rewrite !andb_true_iff in H. destruct H as [[[H1 H2] _] _]. apply Nat.ltb_lt in H1, H2. auto.
  - intros u v. rewrite (Hs u v), (Nat.eqb_sym u v), (andb_comm (u <? gn g) (v <? gn g)). reflexivity.
  - intros u. rewrite Nat.eqb_refl. simpl. rewrite andb_false_r. reflexivity.
Qed.

(* a clique of maximum size is maximal *)
Lemma maximum_is_maximal g s w : wf g -> is_clique g s -> length s = w ->
  (forall s', is_clique g s' -> length s' <= w) -> maximal_clique g s.
Proof.
  intros (Hr & Hs & Hi) Hcl Hlen Hmax. split; auto. intros v Hv Hvs.
  destruct (existsb (fun u => negb (gadj g u v)) s) eqn:E.
  - apply existsb_exists in E. destruct E as (u & Hu & E). exists u. split; auto. apply negb_true_iff; auto.
  - exfalso. assert (Hall : forall u, In u s -> gadj g u v = true).
    { intros u Hu. destruct (gadj g u v) eqn:Ea; auto.
      assert (existsb (fun u => negb (gadj g u v)) s = true) by (apply existsb_exists; exists u; rewrite Ea; auto).
      congruence. }
    destruct Hcl as (Hnd & Hrg & Hadj).
    assert (Hbig : is_clique g (v :: s)).
    { split; [constructor; auto|]. split.
      - intros u [<-|Hu]; auto.
      - intros a b [<-|Ha] [<-|Hb] Hab; auto; try congruence. rewrite Hs; auto. }
    specialize (Hmax _ Hbig). simpl in Hmax. lia.
Qed.

Lemma count_pos_in s L : count s L = 1 -> exists c, In c L /\ same_set c s.
Proof.
  unfold count. intros H. destruct (filter (fun c => same_setb c s) L) as [|c t] eqn:E; [discriminate|].
  assert (Hin : In c (filter (fun c => same_setb c s) L)) by (rewrite E; left; auto).
  apply filter_In in Hin. destruct Hin as [Hin Hs]. exists c. split; auto. apply same_setb_spec; auto.
Qed.

Theorem clique_number_bk_correct g : wf g ->
  exists w, clique_number_bk g = Some w /\ clique_number g w.
Proof.
  intros Hwf. unfold clique_number_bk.
  destruct (all_maximal_cliques_correct g Hwf) as (L & HL & Hmaxl & Hcount). rewrite HL.
  eexists. split; [reflexivity|].
  pose proof (clique_number_ref_spec g) as Href. set (w := clique_number_ref g) in *.
  destruct Href as [(s0 & Hs0 & Hl0) Hub].
  enough (E : list_max (map (@length nat) L) = w) by (rewrite E; split; eauto).
  apply Nat.le_antisymm.
  - apply list_max_le. apply Forall_forall. intros x Hx. apply in_map_iff in Hx. destruct Hx as (c & <- & Hc).
    apply Hub. apply (Hmaxl c Hc).
  - pose proof (maximum_is_maximal g s0 w Hwf Hs0 Hl0 Hub) as Hm0.
    destruct (count_pos_in s0 L (Hcount s0 Hm0)) as (c & Hc & Hsame).
    assert (Hlen : length c = w).
    { rewrite <- Hl0. apply Permutation_length. apply NoDup_Permutation; auto.
      - apply (Hmaxl c Hc). - apply Hs0. }
    rewrite <- Hlen.
    pose proof (proj1 (list_max_le (map (@length nat) L) (list_max (map (@length nat) L))) (le_n _)) as Hall.
    rewrite Forall_forall in Hall. apply Hall. apply in_map; auto.
Qed.

Theorem independence_number_bk_correct g : wf g ->
  exists a, independence_number_bk g = Some a /\ independence_number g a.
Proof.
  intros Hwf. unfold independence_number_bk.
  destruct (clique_number_bk_correct (complement g) (complement_wf g Hwf)) as (a & Ha & [(s & Hs & Hl) Hub]).
  exists a. split; auto. split.
  - exists s. split; auto. apply independent_complement; auto.
  - intros s' Hs'. apply Hub. apply independent_complement; auto.
Qed.
