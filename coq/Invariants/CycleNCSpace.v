(* C10 — NumberOfCycles: the cycle space of a simple graph over edge codes.
   [Zc F]: F is an ascending list of codes of edges of the graph in which every vertex has even
   degree; [circ C]: C is the code list of a cycle sequence.  The family is closed under
   symmetric difference, every non-empty member contains a circuit, and a circuit contains no
   other non-empty member: the hypotheses of CycleNCGibbs.gibbs_correct. *)
From Coq Require Import List Arith Bool Lia Permutation Sorted.
From Mamba Require Import Invariants.Graph Invariants.DistSpec Invariants.DistRef Invariants.DistRefProofs
  Invariants.CycleRefProofs Invariants.ConnModel Invariants.ConnProofs Invariants.CycleCount Invariants.GirthExactLists
  Invariants.CycleICOrbit Invariants.CycleNCModel Invariants.CycleNCSets Invariants.CycleNCCodes.
Import ListNotations.

(* ------------------------------------------------------------------ successor / predecessor *)

Lemma cadj_succ_unique : forall p y z w, NoDup p -> cadj p y z -> cadj p y w -> z = w.
Proof.
  intros p y z w Hnd [[l1 [l2 E1]] | [m E1]] [[l1' [l2' E2]] | [m' E2]]; subst p.
  - destruct (nodup_split_unique l1 l1' (z :: l2) (w :: l2') y Hnd E2) as [_ E]. injection E as -> _. reflexivity.
  - exfalso. change (w :: m' ++ [y]) with ((w :: m') ++ y :: []) in E2.
    destruct (nodup_split_unique l1 (w :: m') (z :: l2) [] y Hnd E2) as [_ E]. discriminate.
  - exfalso. change (z :: m ++ [y]) with ((z :: m) ++ y :: []) in *.
    destruct (nodup_split_unique (z :: m) l1' [] (w :: l2') y Hnd E2) as [_ E]. discriminate.
  - injection E2 as -> _. reflexivity.
Qed.

Lemma cadj_pred_unique : forall p y x w, NoDup p -> cadj p x y -> cadj p w y -> x = w.
Proof.
  intros p y x w Hnd H1 H2. apply (cadj_succ_unique (rev p) y x w).
  - apply (Permutation_NoDup (Permutation_rev p)). exact Hnd.
  - apply cadj_rev. exact H1.
  - apply cadj_rev. exact H2.
Qed.

Lemma cadj_gadj : forall g p x y, wf g -> is_cycle_seq g p -> cadj p x y -> gadj g x y = true.
Proof.
  intros g p x y Hwf [[_ [_ [Hch _]]] [_ Hc]] [[l1 [l2 ->]] | [m ->]].
  - apply (chain_mid g l1 x y l2). exact Hch.
  - simpl hd in Hc. change (y :: m ++ [x]) with ((y :: m) ++ [x]) in Hc. rewrite last_snoc in Hc.
    destruct Hwf as [_ [Hs _]]. rewrite Hs. exact Hc.
Qed.

(* a property of oriented cyclic edges that passes from an edge to the next one holds for all
   edges as soon as it holds for one *)
Lemma cyc_propagate : forall p (P : nat -> nat -> Prop), NoDup p ->
  (forall x y z, cadj p x y -> cadj p y z -> P x y -> P y z) ->
  forall x0 y0, cadj p x0 y0 -> P x0 y0 -> forall x y, cadj p x y -> P x y.
Proof.
  intros p P Hnd Hloc x0 y0 H0 HP0.
  destruct (cadj_in p x0 y0 H0) as [Hx0 _].
  destruct (In_nth p x0 0 Hx0) as [k [Hk Ek]].
  set (p' := rotn k p).
  assert (Hnd' : NoDup p') by (apply (Permutation_NoDup (rotn_perm k p)); exact Hnd).
  assert (Hc : forall x y, cadj p' x y <-> cadj p x y) by (intros; apply cadj_rotn).
  assert (Hhd : hd 0 p' = x0) by (unfold p'; rewrite rotn_hd by exact Hk; exact Ek).
  assert (Hloc' : forall x y z, cadj p' x y -> cadj p' y z -> P x y -> P y z).
  { intros x y z H1 H2. apply Hloc; apply Hc; assumption. }
  apply Hc in H0.
  (* p' = x0 :: y0 :: r *)
  destruct p' as [|x0' r] eqn:Ep'; [destruct H0 as [[l1 [l2 E]] | [m E]]; [destruct l1; discriminate | discriminate]|].
  simpl in Hhd. subst x0'.
  assert (Hr : exists r', r = y0 :: r').
  { destruct H0 as [[l1 [l2 E]] | [m E]].
    - destruct l1 as [|c l1]; simpl in E.
      + injection E as ->. eexists. reflexivity.
      + injection E as -> E. exfalso. inversion Hnd' as [|? ? Hn _]; subst. apply Hn. apply in_app_iff. right. left. reflexivity.
    - injection E as -> E. exfalso. inversion Hnd' as [|? ? Hn _]; subst. apply Hn. apply in_app_iff. right. left. reflexivity. }
  destruct Hr as [r' ->].
  (* all inside pairs *)
  assert (Hin : forall l1 x y l2, x0 :: y0 :: r' = l1 ++ x :: y :: l2 -> P x y).
  { induction l1 as [|w l1 IH] using rev_ind; intros x y l2 E.
    - simpl in E. injection E as <- <- _. exact HP0.
    - rewrite <- app_assoc in E. simpl in E.
      apply (Hloc' w x y).
      + left. exists l1, (y :: l2). exact E.
      + left. exists (l1 ++ [w]), l2. rewrite <- app_assoc. exact E.
      + apply (IH w x (y :: l2)). exact E. }
  intros x y Hxy. apply Hc in Hxy. destruct Hxy as [[l1 [l2 E]] | [m E]].
  - apply (Hin l1 x y l2). exact E.
  - (* the closing pair: from the last inside pair *)
    injection E as <- E.
    destruct (list_eq_dec Nat.eq_dec m []) as [-> | Hne].
    + simpl in E. injection E as <- ->. apply (Hloc' x0 y0 x0).
      * left. exists [], []. reflexivity.
      * right. exists []. reflexivity.
      * exact HP0.
    + destruct (exists_last Hne) as [m' [c ->]]. apply (Hloc' c x x0).
      * left. exists (x0 :: m'), []. simpl. rewrite E, <- app_assoc. reflexivity.
      * right. exists (m' ++ [c]). rewrite E. reflexivity.
      * apply (Hin (x0 :: m') c x []). simpl. rewrite E, <- app_assoc. reflexivity.
Qed.

Lemma nodup_app_left : forall (A : Type) (l1 l2 : list A), NoDup (l1 ++ l2) -> NoDup l1.
Proof.
  intros A. induction l1 as [|x l1 IH]; intros l2 H; [constructor|]. simpl in H. inversion H; subst.
  constructor; [intro Hin; apply H2; apply in_app_iff; left; exact Hin | apply (IH l2); assumption].
Qed.

(* ------------------------------------------------------------------ parity of filters *)

Lemma filter_xor_length : forall (pA pB : nat -> bool) l,
  length (filter (fun w => xorb (pA w) (pB w)) l) + 2 * length (filter (fun w => pA w && pB w) l) =
  length (filter pA l) + length (filter pB l).
Proof.
  intros pA pB. induction l as [|x l IH]; [reflexivity|]. simpl.
  destruct (pA x); destruct (pB x); simpl; lia.
Qed.

Lemma even_from_sum : forall x y a b, x + 2 * y = a + b -> Nat.even a = true -> Nat.even b = true -> Nat.even x = true.
Proof.
  intros x y a b E Ha Hb. apply Nat.even_spec in Ha, Hb. destruct Ha as [ka ->]. destruct Hb as [kb ->].
  apply Nat.even_spec. exists (ka + kb - y). lia.
Qed.

Section Space.
Variable a : graph.
Hypothesis Hwf : wf a.

Definition ecode (c : nat) : Prop := exists u v, gadj a u v = true /\ c = enc u v.

Definition nbF (F : list nat) (v : nat) : list nat :=
  filter (fun w => negb (w =? v) && memb (enc v w) F) (vertices a).

Definition Zc (F : list nat) : Prop :=
  sset F /\ (forall c, In c F -> ecode c) /\ forall v, v < gn a -> Nat.even (length (nbF F v)) = true.

Definition circ (C : list nat) : Prop := exists p, is_cycle_seq a p /\ C = codes_of p.

Lemma nbF_In : forall F v w, In w (nbF F v) <-> w < gn a /\ w <> v /\ In (enc v w) F.
Proof.
  intros F v w. unfold nbF. rewrite filter_In, in_vertices, andb_true_iff, negb_true_iff, Nat.eqb_neq, memb_In. tauto.
Qed.

Lemma nbF_NoDup : forall F v, NoDup (nbF F v).
Proof. intros. unfold nbF, vertices. apply NoDup_filter. apply seq_NoDup. Qed.

Lemma ecode_adj : forall u v, u <> v -> ecode (enc u v) -> gadj a u v = true.
Proof.
  intros u v Huv [u' [v' [Ha E]]]. pose proof Hwf as [_ [Hs Hl]].
  assert (Hne : u' <> v') by (intros ->; rewrite Hl in Ha; discriminate).
  destruct (enc_inj u v u' v' Huv Hne E) as [[-> ->] | [-> ->]]; [exact Ha | rewrite Hs; exact Ha].
Qed.

Lemma Z_sset : forall F, Zc F -> sset F.
Proof. intros F H. apply H. Qed.

Lemma memb_xor : forall A B c, sset A -> sset B -> memb c (xor_sorted A B) = xorb (memb c A) (memb c B).
Proof.
  intros A B c HA HB. destruct (memb c (xor_sorted A B)) eqn:E.
  - apply memb_In in E. apply xor_In in E; [|assumption|assumption]. destruct E as [[H1 H2] | [H1 H2]].
    + apply memb_In in H1. apply memb_false in H2. rewrite H1, H2. reflexivity.
    + apply memb_In in H1. apply memb_false in H2. rewrite H1, H2. reflexivity.
  - apply memb_false in E. rewrite xor_In in E by assumption.
    destruct (memb c A) eqn:EA; destruct (memb c B) eqn:EB; try reflexivity; exfalso; apply E.
    + left. split; [apply memb_In; exact EA | apply memb_false; exact EB].
    + right. split; [apply memb_In; exact EB | apply memb_false; exact EA].
Qed.

Lemma Z_xor : forall A B, Zc A -> Zc B -> Zc (xor_sorted A B).
Proof.
  intros A B [HAs [HAe HAv]] [HBs [HBe HBv]]. split; [apply xor_sset; assumption|]. split.
  - intros c Hc. apply xor_In in Hc; [|assumption|assumption]. destruct Hc as [[Hc _] | [Hc _]]; [apply HAe | apply HBe]; exact Hc.
  - intros v Hv.
    assert (E : nbF (xor_sorted A B) v =
                filter (fun w => xorb (negb (w =? v) && memb (enc v w) A) (negb (w =? v) && memb (enc v w) B)) (vertices a)).
    { unfold nbF. apply filter_ext. intro w. rewrite memb_xor by assumption.
      destruct (negb (w =? v)); destruct (memb (enc v w) A); destruct (memb (enc v w) B); reflexivity. }
    rewrite E.
    eapply even_from_sum; [apply filter_xor_length | apply (HAv v Hv) | apply (HBv v Hv)].
Qed.


(* ------------------------------------------------------------------ circuits are members *)

(* the neighbours of a vertex of a cycle sequence along the cycle *)
Lemma cycle_nb : forall p v, NoDup p -> 3 <= length p -> In v p ->
  exists s t, s <> t /\ forall w, uadj p v w <-> w = s \/ w = t.
Proof.
  intros p v Hnd HL Hv. destruct (In_nth p v 0 Hv) as [k [Hk Ek]].
  set (p' := rotn k p).
  assert (Hnd' : NoDup p') by (apply (Permutation_NoDup (rotn_perm k p)); exact Hnd).
  assert (Hl' : length p' = length p) by apply rotn_length.
  assert (Hhd : hd 0 p' = v) by (unfold p'; rewrite rotn_hd by exact Hk; exact Ek).
  assert (Hu : forall w, uadj p v w <-> uadj p' v w).
  { intro w. unfold uadj, p'. rewrite !cadj_rotn. tauto. }
  destruct p' as [|v' [|s r]] eqn:Ep'; try (simpl in Hl'; lia). simpl in Hhd. subst v'.
  destruct r as [|r0 r']; [simpl in Hl'; lia|].
  destruct (exists_last (l := r0 :: r') ltac:(discriminate)) as [m [t Er]].
  exists s, t. split.
  - intros ->. rewrite Er in Hnd'. inversion Hnd' as [|? ? _ Hn']; subst. inversion Hn' as [|? ? Hn _]; subst.
    apply Hn. apply in_app_iff. right. left. reflexivity.
  - intro w. rewrite Hu. split.
    + intros [H | H].
      * left. apply (cadj_inner_succ [] v s (r0 :: r') w Hnd' H).
      * right. destruct (cadj_head v (s :: r0 :: r') w Hnd' H) as [_ ->].
        change (last (s :: r0 :: r') 0) with (last (r0 :: r') 0). rewrite Er. apply last_snoc.
    + intros [-> | ->].
      * left. left. exists [], (r0 :: r'). reflexivity.
      * right. right. exists (s :: m). rewrite Er. reflexivity.
Qed.

Lemma circ_nb : forall p, is_cycle_seq a p -> forall v, v < gn a ->
  (In v p /\ exists s t, s <> t /\ Permutation (nbF (codes_of p) v) [s; t]) \/ (~ In v p /\ nbF (codes_of p) v = []).
Proof.
  intros p Hc v Hv. pose proof Hc as [[_ [Hnd [_ Hall]]] [HL _]].
  destruct (in_dec Nat.eq_dec v p) as [Hin | Hnin].
  - left. split; [exact Hin|]. destruct (cycle_nb p v Hnd HL Hin) as [s [t [Hst Hu]]].
    exists s, t. split; [exact Hst|]. apply NoDup_Permutation.
    + apply nbF_NoDup.
    + constructor; [intros [E | []]; congruence | constructor; [intros [] | constructor]].
    + intro w. rewrite nbF_In. cbn [In]. split.
      * intros [_ [Hwv Hc']]. apply (codes_of_uadj p Hnd HL v w (not_eq_sym Hwv)) in Hc'.
        apply Hu in Hc'. destruct Hc' as [-> | ->]; [left | right; left]; reflexivity.
      * intros Hw. assert (Hvw : uadj p v w) by (apply Hu; destruct Hw as [<- | [<- | []]]; [left | right]; reflexivity).
        assert (Hne : v <> w).
        { destruct Hvw as [H | H]; [|apply not_eq_sym]; apply (cadj_neq p _ _ Hnd ltac:(lia) H). }
        split; [|split; [apply not_eq_sym; exact Hne | apply (codes_of_uadj p Hnd HL v w Hne); exact Hvw]].
        apply Hall. destruct Hvw as [H | H]; apply cadj_in in H; tauto.
  - right. split; [exact Hnin|]. destruct (nbF (codes_of p) v) as [|w l] eqn:E; [reflexivity | exfalso].
    assert (Hw : In w (nbF (codes_of p) v)) by (rewrite E; left; reflexivity).
    apply nbF_In in Hw. destruct Hw as [_ [Hwv Hc']].
    apply (codes_of_uadj p Hnd HL v w (not_eq_sym Hwv)) in Hc'.
    apply Hnin. destruct Hc' as [H | H]; apply cadj_in in H; tauto.
Qed.

Lemma circ_Z : forall C, circ C -> Zc C /\ C <> [].
Proof.
  intros C [p [Hc ->]]. pose proof Hc as [[_ [Hnd _]] [HL _]]. split; [split; [|split]|].
  - apply codes_of_sset; assumption.
  - intros c Hc'. apply (codes_of_In p HL) in Hc'. destruct Hc' as [x [y [H ->]]].
    exists x, y. split; [apply (cadj_gadj a p x y Hwf Hc H) | reflexivity].
  - intros v Hv. destruct (circ_nb p Hc v Hv) as [[_ [s [t [_ Hp]]]] | [_ E]].
    + rewrite (Permutation_length Hp). reflexivity.
    + rewrite E. reflexivity.
  - intro E. pose proof (codes_of_length p) as Hl. rewrite E in Hl. simpl in Hl. lia.
Qed.

(* ------------------------------------------------------------------ circuits are minimal *)

Lemma circ_min : forall C F, circ C -> Zc F -> F <> [] -> incl F C -> F = C.
Proof.
  intros C F [p [Hc ->]] [HFs [HFe HFv]] Hne Hincl.
  pose proof Hc as [[_ [Hnd [_ Hall]]] [HL _]].
  apply sset_ext; [exact HFs | apply codes_of_sset; assumption|].
  intro c. split; [apply Hincl|]. intro Hc'.
  (* local propagation: the even degree at y forces the next edge into F *)
  assert (Hloc : forall x y z, cadj p x y -> cadj p y z -> In (enc x y) F -> In (enc y z) F).
  { intros x y z Hxy Hyz HxyF.
    assert (Hy : y < gn a) by (apply Hall; apply cadj_in in Hxy; tauto).
    assert (Hx : x < gn a) by (apply Hall; apply cadj_in in Hxy; tauto).
    assert (Hxy' : x <> y) by (apply (cadj_neq p x y Hnd ltac:(lia) Hxy)).
    assert (Hyz' : y <> z) by (apply (cadj_neq p y z Hnd ltac:(lia) Hyz)).
    assert (HxF : In x (nbF F y)).
    { apply nbF_In. split; [exact Hx|]. split; [exact Hxy'|]. rewrite (enc_sym y x (not_eq_sym Hxy')). exact HxyF. }
    destruct (in_dec Nat.eq_dec (enc y z) F) as [H | Hn]; [exact H | exfalso].
    assert (Hsub : incl (nbF F y) [x]).
    { intros w Hw. apply nbF_In in Hw. destruct Hw as [_ [Hwy HwF]].
      assert (Hu : uadj p y w) by (apply (codes_of_uadj p Hnd HL y w (not_eq_sym Hwy)); apply Hincl; exact HwF).
      destruct Hu as [H | H].
      - rewrite <- (cadj_succ_unique p y z w Hnd Hyz H) in HwF. contradiction.
      - left. apply (cadj_pred_unique p y x w Hnd Hxy H). }
    pose proof (NoDup_incl_length (nbF_NoDup F y) Hsub) as Hle. simpl in Hle.
    specialize (HFv y Hy).
    destruct (nbF F y) as [|w [|w' l]]; [destruct HxF | simpl in HFv; discriminate | simpl in Hle; lia]. }
  (* some edge of p is in F *)
  destruct F as [|c0 F']; [contradiction|].
  assert (Hc0 : In c0 (codes_of p)) by (apply Hincl; left; reflexivity).
  apply (codes_of_In p HL) in Hc0. destruct Hc0 as [x0 [y0 [H0 E0]]].
  apply (codes_of_In p HL) in Hc'. destruct Hc' as [x [y [Hxy ->]]].
  apply (cyc_propagate p (fun u v => In (enc u v) (c0 :: F')) Hnd Hloc x0 y0 H0); [rewrite <- E0; left; reflexivity | exact Hxy].
Qed.


(* ------------------------------------------------------------------ a non-empty member contains a circuit *)

(* all consecutive pairs of q are edges of F *)
Definition Fchain (F : list nat) (q : list nat) : Prop :=
  forall l1 u v l2, q = l1 ++ u :: v :: l2 -> In (enc u v) F.

Lemma Fchain_chain : forall F q, (forall c, In c F -> ecode c) -> NoDup q -> Fchain F q -> chain a q.
Proof.
  intros F q HFe. induction q as [|x q IH]; intros Hnd HF; [exact I|].
  destruct q as [|y q']; [exact I|]. split.
  - apply ecode_adj; [|apply HFe; apply (HF [] x y q'); reflexivity].
    intros ->. inversion Hnd as [|? ? Hn _]; subst. apply Hn. left; reflexivity.
  - apply IH; [inversion Hnd; assumption|]. intros l1 u v l2 E. apply (HF (x :: l1) u v l2). simpl. rewrite E. reflexivity.
Qed.

Lemma walk_to_cycle : forall F, Zc F -> forall fuel x y t,
  NoDup (x :: y :: t) -> (forall w, In w (x :: y :: t) -> w < gn a) -> Fchain F (x :: y :: t) ->
  gn a - length (x :: y :: t) <= fuel ->
  exists p, is_cycle_seq a p /\ incl (codes_of p) F.
Proof.
  intros F [HFs [HFe HFv]]. induction fuel as [|fuel IH]; intros x y t Hnd Hlt HF Hfuel.
  all: assert (Hx : x < gn a) by (apply Hlt; left; reflexivity).
  all: assert (Hy : y < gn a) by (apply Hlt; right; left; reflexivity).
  all: assert (Hxy : x <> y) by (intros ->; inversion Hnd as [|? ? Hn _]; subst; apply Hn; left; reflexivity).
  all: assert (HyF : In y (nbF F x)) by (apply nbF_In; split; [exact Hy|]; split; [apply not_eq_sym; exact Hxy | apply (HF [] x y t); reflexivity]).
  all: assert (Hw : exists w, In w (nbF F x) /\ w <> y).
  1,3: (specialize (HFv x Hx); pose proof (nbF_NoDup F x) as Hn;
        destruct (nbF F x) as [|w1 [|w2 l]]; [destruct HyF | simpl in HFv; discriminate|];
        destruct (Nat.eq_dec w1 y) as [-> | H1]; [|exists w1; split; [left; reflexivity | exact H1]];
        exists w2; split; [right; left; reflexivity|]; intros ->; inversion Hn as [|? ? Hn1 _]; subst; apply Hn1; left; reflexivity).
  all: destruct Hw as [w [Hw Hwy]]; apply nbF_In in Hw; destruct Hw as [Hwn [Hwx HwF]].
  all: destruct (in_dec Nat.eq_dec w (x :: y :: t)) as [Hin | Hnin].
  1,3: (* the walk closes a cycle *)
    (destruct Hin as [E | [E | Hin]]; [congruence | congruence|];
     destruct (in_split w t Hin) as [t1 [t2 Et]];
     set (p := x :: y :: t1 ++ [w]);
     assert (Eq : x :: y :: t = p ++ t2) by (unfold p; rewrite Et; simpl; rewrite <- app_assoc; reflexivity);
     assert (Hndp : NoDup p) by (rewrite Eq in Hnd; apply nodup_app_left in Hnd; exact Hnd);
     assert (HFp : Fchain F p) by (intros l1 u v l2 E; apply (HF l1 u v (l2 ++ t2)); rewrite Eq, E, <- app_assoc; reflexivity);
     assert (HLp : 3 <= length p) by (unfold p; simpl; rewrite app_length; simpl; lia);
     assert (Hcyc : is_cycle_seq a p);
     [ split; [split; [unfold p; discriminate|]; split; [exact Hndp|]; split;
         [apply (Fchain_chain F p HFe Hndp HFp) | intros z Hz; apply Hlt; rewrite Eq; apply in_app_iff; left; exact Hz]
       | split; [exact HLp|];
         unfold p; simpl hd; change (x :: y :: t1 ++ [w]) with ((x :: y :: t1) ++ [w]); rewrite last_snoc;
         apply ecode_adj; [apply not_eq_sym; exact Hwx | apply HFe; exact HwF] ]
     | exists p; split; [exact Hcyc|];
       intros c Hc; apply (codes_of_In p HLp) in Hc; destruct Hc as [u [v [[[l1 [l2 E]] | [m E]] ->]]];
       [ apply (HFp l1 u v l2 E)
       | unfold p in E; injection E as <- E; change (y :: t1 ++ [w]) with ((y :: t1) ++ [w]) in E;
         apply app_inj_tail in E; destruct E as [_ <-];
         rewrite (enc_sym w x Hwx); exact HwF ] ]).
  - (* no fuel: the path already holds every vertex *)
    exfalso.
    assert (Hlen : length (w :: x :: y :: t) <= gn a).
    { rewrite <- (seq_length (gn a) 0). apply NoDup_incl_length; [constructor; assumption|].
      intros z [<- | Hz]; apply in_seq; [lia | specialize (Hlt z Hz); lia]. }
    simpl in Hlen, Hfuel. lia.
  - (* extend the walk *)
    assert (Hlen : length (w :: x :: y :: t) <= gn a).
    { rewrite <- (seq_length (gn a) 0). apply NoDup_incl_length; [constructor; assumption|].
      intros z [<- | Hz]; apply in_seq; [lia | specialize (Hlt z Hz); lia]. }
    apply (IH w x (y :: t)).
    + constructor; assumption.
    + intros z [<- | Hz]; [exact Hwn | apply Hlt; exact Hz].
    + intros l1 u v l2 E. destruct l1 as [|c l1]; simpl in E.
      * injection E as <- <- _. rewrite (enc_sym w x Hwx). exact HwF.
      * injection E as _ E. apply (HF l1 u v l2 E).
    + simpl in Hlen, Hfuel |- *. lia.
Qed.

Lemma Z_circ : forall F, Zc F -> F <> [] -> exists C, circ C /\ incl C F.
Proof.
  intros F HZ Hne. pose proof HZ as [HFs [HFe HFv]]. pose proof Hwf as [Hr [Hs Hl]].
  destruct F as [|c F']; [contradiction|].
  destruct (HFe c (or_introl eq_refl)) as [u [v [Ha Ec]]].
  assert (Huv : u <> v) by (intros ->; rewrite Hl in Ha; discriminate).
  destruct (Hr u v Ha) as [Hu Hv].
  destruct (walk_to_cycle (c :: F') HZ (gn a) v u []) as [p [Hp Hincl]].
  - constructor; [intros [E | []]; congruence | constructor; [intros [] | constructor]].
  - intros w [<- | [<- | []]]; assumption.
  - intros l1 x y l2 E. destruct l1 as [|? [|? l1]]; try discriminate.
    + injection E as <- <- _. left. rewrite Ec. apply enc_sym. exact Huv.
    + destruct l1; discriminate.
  - lia.
  - exists (codes_of p). split; [exists p; split; [exact Hp | reflexivity] | exact Hincl].
Qed.

End Space.
