(* C10 — blocks and articulation vertices component by component: the blocks / articulation
   vertices of a simple graph are those of its connected components taken as induced subgraphs
   with their own vertex numbering (CycleCount.induced: vertex a of the view on the component c
   is vertex [nth a c 0] of g). *)
From Coq Require Import List Arith Bool Lia Sorted Permutation.
From Mamba Require Import Invariants.Graph Invariants.DistSpec Invariants.DistRef Invariants.DistRefProofs
  Invariants.BlockRefProofs Invariants.CycleCount Invariants.CycleIPProofs.
Import ListNotations.

(* ------------------------------------------------------------------ walks along a vertex map *)

Lemma walk_fwd : forall (G H : graph) (f : nat -> nat),
  (forall a b, gadj H a b = true -> gadj G (f a) (f b) = true) ->
  forall a b k, walk H a b k -> walk G (f a) (f b) k.
Proof.
  intros G H f Hadj a b k W. induction W as [u | u w v k W IH E].
  - apply walk_nil.
  - eapply walk_snoc; [exact IH | apply Hadj; exact E].
Qed.

Lemma walk_bwd : forall (G H : graph) (f : nat -> nat) (D : nat -> Prop),
  (forall a y, D a -> gadj G (f a) y = true -> exists b, D b /\ y = f b /\ gadj H a b = true) ->
  forall x y k, walk G x y k -> forall a, D a -> x = f a ->
  exists b, D b /\ y = f b /\ walk H a b k.
Proof.
  intros G H f D Hadj x y k W. induction W as [u | u w v k W IH E]; intros a Da Ex.
  - exists a. split; [exact Da|]. split; [exact Ex | apply walk_nil].
  - destruct (IH a Da Ex) as [b' [Db' [Ew Wb']]]. subst w.
    destruct (Hadj b' v Db' E) as [b [Db [Ev Eb]]].
    exists b. split; [exact Db|]. split; [exact Ev|]. eapply walk_snoc; [exact Wb' | exact Eb].
Qed.

Lemma walk_mono : forall (G H : graph),
  (forall a b, gadj H a b = true -> gadj G a b = true) ->
  forall a b k, walk H a b k -> walk G a b k.
Proof.
  intros G H Hadj a b k W. induction W as [u | u w v k W IH E].
  - apply walk_nil.
  - eapply walk_snoc; [exact IH | apply Hadj; exact E].
Qed.

Lemma walk_unrestrict : forall g T a b k, walk (restrict g T) a b k -> walk g a b k.
Proof.
  intros g T. apply walk_mono. intros a b H. simpl in H.
  apply andb_true_iff in H. destruct H as [_ H]. exact H.
Qed.

(* a walk all of whose reachable vertices lie in T is a walk of G[T] *)
Lemma walk_restrict_in : forall g T a b k, walk g a b k ->
  (forall w, reach g a w -> memb w T = true) -> walk (restrict g T) a b k.
Proof.
  intros g T a b k W. induction W as [u | u w v k W IH E]; intro HT.
  - apply walk_nil.
  - eapply walk_snoc; [apply IH; exact HT|]. simpl.
    assert (Hw : memb w T = true) by (apply HT; exists k; exact W).
    assert (Hv : memb v T = true) by (apply HT; exists (S k); eapply walk_snoc; [exact W | exact E]).
    rewrite Hw, Hv, E. reflexivity.
Qed.

(* ------------------------------------------------------------------ ascending lists *)

Lemma sorted_nth_lt : forall l a b, StronglySorted lt l -> a < b -> b < length l ->
  nth a l 0 < nth b l 0.
Proof.
  induction l as [|x t IH]; intros a b Hs Hab Hb; [simpl in Hb; lia|].
  inversion Hs as [|? ? Hst Hall]; subst. rewrite Forall_forall in Hall.
  destruct b as [|b]; [lia|]. simpl in Hb.
  destruct a as [|a].
  - simpl. apply Hall. apply nth_In. lia.
  - simpl. apply IH; [exact Hst | lia | lia].
Qed.

Lemma sorted_map_mono : forall (f : nat -> nat) l, StronglySorted lt l ->
  (forall a b, In a l -> In b l -> a < b -> f a < f b) -> StronglySorted lt (map f l).
Proof.
  intros f l Hs. induction Hs as [|x t Hst IH Hall]; intro Hm; simpl; [constructor|].
  rewrite Forall_forall in Hall.
  constructor.
  - apply IH. intros a b Ha Hb. apply Hm; right; assumption.
  - apply Forall_forall. intros y Hy. apply in_map_iff in Hy. destruct Hy as [b [<- Hb]].
    apply Hm; [left; reflexivity | right; exact Hb | apply Hall; exact Hb].
Qed.

Lemma sorted_lt_ext_eq : forall l1 l2, StronglySorted lt l1 -> StronglySorted lt l2 ->
  (forall x, In x l1 <-> In x l2) -> l1 = l2.
Proof.
  induction l1 as [|a l1 IH]; intros l2 H1 H2 Hext.
  - destruct l2 as [|b l2]; [reflexivity|]. exfalso. apply (Hext b). left; reflexivity.
  - destruct l2 as [|b l2]; [exfalso; apply (Hext a); left; reflexivity|].
    inversion H1 as [|? ? Hs1 Ha]; subst. inversion H2 as [|? ? Hs2 Hb]; subst.
    rewrite Forall_forall in Ha, Hb.
    assert (a = b).
    { assert (Hab : In a (b :: l2)) by (apply Hext; left; reflexivity).
      assert (Hba : In b (a :: l1)) by (apply Hext; left; reflexivity).
      destruct Hab as [-> | Hab]; [reflexivity|]. destruct Hba as [-> | Hba]; [reflexivity|].
      apply Ha in Hba. apply Hb in Hab. lia. }
    subst b. f_equal. apply IH; try assumption.
    intro x. split; intro Hx.
    + assert (Hi : In x (a :: l2)) by (apply Hext; right; exact Hx).
      destruct Hi as [<- | Hi]; [|exact Hi]. apply Ha in Hx. lia.
    + assert (Hi : In x (a :: l1)) by (apply Hext; right; exact Hx).
      destruct Hi as [<- | Hi]; [|exact Hi]. apply Hb in Hx. lia.
Qed.

(* ------------------------------------------------------------------ inside one component *)

(* the vertex of g behind vertex a of the view on c *)
Definition cf (c : list nat) (a : nat) : nat := nth a c 0.

Section Comp.
Variable g : graph.
Hypothesis Hwf : wf g.
Variable c : list nat.
Hypothesis Hc : In c (comps_ref g).

Local Notation hc := (induced g c).
Local Notation f := (cf c).

Lemma c_root : exists v0, v0 < gn g /\ c = comp_ref g v0 /\
  forall x, In x c <-> x < gn g /\ reach g v0 x.
Proof.
  destruct (comps_ref_spec g Hwf) as [H1 _].
  destruct (H1 c Hc) as [v0 [Hv0 [_ [E Hin]]]].
  exists v0. split; [exact Hv0|]. split; [exact E | exact Hin].
Qed.

Lemma c_nd : NoDup c.
Proof. apply (comps_ref_ok g c Hwf Hc). Qed.

Lemma c_range : forall x, In x c -> x < gn g.
Proof. apply (comps_ref_ok g c Hwf Hc). Qed.

Lemma c_closed : forall x y, In x c -> gadj g x y = true -> In y c.
Proof. apply (comps_ref_ok g c Hwf Hc). Qed.

Lemma c_sorted : StronglySorted lt c.
Proof.
  destruct (comps_ref_spec g Hwf) as [_ [_ [_ [H4 _]]]].
  rewrite Forall_forall in H4. apply H4. exact Hc.
Qed.

Lemma c_nonempty : c <> [].
Proof.
  destruct c_root as [v0 [Hv0 [_ Hin]]].
  assert (H : In v0 c) by (apply Hin; split; [exact Hv0 | apply reach_refl]).
  intro E. rewrite E in H. destruct H.
Qed.

Lemma c_reach : forall x y, In x c -> In y c -> reach g x y.
Proof.
  intros x y Hx Hy. destruct c_root as [v0 [_ [_ Hin]]].
  apply Hin in Hx, Hy. destruct Hx as [_ Hx]. destruct Hy as [_ Hy].
  eapply reach_trans; [apply reach_sym; [exact Hwf | exact Hx] | exact Hy].
Qed.

Lemma c_reach_in : forall x y, In x c -> reach g x y -> In y c.
Proof.
  intros x y Hx Hr. destruct c_root as [v0 [_ [_ Hin]]].
  pose proof (c_range x Hx) as Hxr.
  apply Hin. apply Hin in Hx. destruct Hx as [_ Hx]. split.
  - destruct Hr as [k W]. apply (walk_range_r g x y k Hwf Hxr W).
  - eapply reach_trans; [exact Hx | exact Hr].
Qed.

Lemma c_reach_back : forall x y, In y c -> reach g x y -> In x c.
Proof.
  intros x y Hy Hr. apply (c_reach_in y x Hy). apply reach_sym; [exact Hwf | exact Hr].
Qed.

Lemma cf_in : forall a, a < length c -> In (f a) c.
Proof. intros a Ha. unfold cf. apply nth_In. exact Ha. Qed.

Lemma cf_range : forall a, a < length c -> f a < gn g.
Proof. intros a Ha. apply c_range. apply cf_in. exact Ha. Qed.

Lemma cf_inj : forall a b, a < length c -> b < length c -> f a = f b -> a = b.
Proof. intros a b Ha Hb E. unfold cf in E. apply (proj1 (NoDup_nth c 0) c_nd a b Ha Hb E). Qed.

Lemma cf_surj : forall x, In x c -> exists a, a < length c /\ f a = x.
Proof. intros x Hx. unfold cf. apply In_nth. exact Hx. Qed.

Lemma cf_mono : forall a b, a < b -> b < length c -> f a < f b.
Proof. intros a b Hab Hb. unfold cf. apply sorted_nth_lt; [apply c_sorted | exact Hab | exact Hb]. Qed.

Lemma hc_adj : forall a b, a < length c -> b < length c -> gadj hc a b = gadj g (f a) (f b).
Proof.
  intros a b Ha Hb. simpl. apply Nat.ltb_lt in Ha, Hb. rewrite Ha, Hb. reflexivity.
Qed.

Lemma hc_adj_true : forall a b, gadj hc a b = true ->
  a < length c /\ b < length c /\ gadj g (f a) (f b) = true.
Proof.
  intros a b H. simpl in H. rewrite !andb_true_iff, !Nat.ltb_lt in H.
  destruct H as [[Ha Hb] H]. split; [exact Ha|]. split; [exact Hb | exact H].
Qed.

(* --- plain walks *)

Lemma walk_hc_g : forall a b k, walk hc a b k -> walk g (f a) (f b) k.
Proof.
  apply walk_fwd. intros a b H. apply hc_adj_true in H. apply H.
Qed.

Lemma walk_g_hc : forall a y k, a < length c -> walk g (f a) y k ->
  exists b, b < length c /\ y = f b /\ walk hc a b k.
Proof.
  intros a y k Ha W.
  apply (walk_bwd g hc f (fun a => a < length c)) with (x := f a); [|exact W | exact Ha | reflexivity].
  clear a y k Ha W. intros a y Ha E.
  assert (Hy : In y c) by (apply (c_closed (f a) y); [apply cf_in; exact Ha | exact E]).
  destruct (cf_surj y Hy) as [b [Hb Eb]].
  exists b. split; [exact Hb|]. split; [symmetry; exact Eb|].
  rewrite hc_adj by assumption. rewrite Eb. exact E.
Qed.

Lemma reach_hc_g : forall a b, a < length c -> b < length c ->
  (reach hc a b <-> reach g (f a) (f b)).
Proof.
  intros a b Ha Hb. split.
  - intros [k W]. exists k. apply walk_hc_g. exact W.
  - intros [k W]. destruct (walk_g_hc a (f b) k Ha W) as [b' [Hb' [E W']]].
    apply cf_inj in E; [|exact Hb | exact Hb']. subst b'. exists k. exact W'.
Qed.

Lemma hc_connected : connected hc.
Proof.
  intros u v Hu Hv. simpl in Hu, Hv.
  apply reach_hc_g; [exact Hu | exact Hv|].
  apply c_reach; apply cf_in; assumption.
Qed.

(* --- walks inside a vertex set *)

Lemma memb_cf_map : forall a S', a < length c -> (forall b, In b S' -> b < length c) ->
  memb (f a) (map f S') = memb a S'.
Proof.
  intros a S' Ha HS'. apply eq_true_iff_eq. rewrite !memb_In, in_map_iff. split.
  - intros [b [E Hb]]. apply cf_inj in E; [subst; exact Hb | apply HS'; exact Hb | exact Ha].
  - intro H. exists a. split; [reflexivity | exact H].
Qed.

Lemma walk_r_fwd : forall S' a b k,
  walk (restrict hc S') a b k -> walk (restrict g (map f S')) (f a) (f b) k.
Proof.
  intro S'. apply walk_fwd. intros a b H. simpl in H.
  apply andb_true_iff in H. destruct H as [H Hadj].
  apply andb_true_iff in H. destruct H as [Ha Hb].
  apply memb_In in Ha, Hb.
  assert (Hadj' : gadj hc a b = true) by exact Hadj.
  apply hc_adj_true in Hadj'. destruct Hadj' as [_ [_ Hg]].
  simpl.
  assert (Ha' : memb (f a) (map f S') = true) by (apply memb_In; apply in_map; exact Ha).
  assert (Hb' : memb (f b) (map f S') = true) by (apply memb_In; apply in_map; exact Hb).
  rewrite Ha', Hb', Hg. reflexivity.
Qed.

Lemma walk_r_bwd : forall S' a y k, (forall b, In b S' -> b < length c) -> a < length c ->
  walk (restrict g (map f S')) (f a) y k ->
  exists b, b < length c /\ y = f b /\ walk (restrict hc S') a b k.
Proof.
  intros S' a y k HS' Ha W.
  apply (walk_bwd (restrict g (map f S')) (restrict hc S') f (fun a => a < length c)) with (x := f a);
    [|exact W | exact Ha | reflexivity].
  clear a y k Ha W. intros a y Ha E. simpl in E.
  apply andb_true_iff in E. destruct E as [E Hadj].
  apply andb_true_iff in E. destruct E as [Hma Hmy].
  rewrite (memb_cf_map a S' Ha HS') in Hma.
  apply memb_In in Hmy. apply in_map_iff in Hmy. destruct Hmy as [b [Eb Hb]].
  pose proof (HS' b Hb) as Hbl.
  exists b. split; [exact Hbl|]. split; [symmetry; exact Eb|].
  simpl. apply memb_In in Hb. rewrite Hma, Hb. simpl.
  apply Nat.ltb_lt in Ha, Hbl. rewrite Ha, Hbl. simpl.
  fold (f a). fold (f b). rewrite Eb. exact Hadj.
Qed.

Lemma conn_within_tr : forall S', (forall b, In b S' -> b < length c) ->
  (conn_within hc S' <-> conn_within g (map f S')).
Proof.
  intros S' HS'. unfold conn_within. split.
  - intros H x y Hx Hy. apply in_map_iff in Hx, Hy.
    destruct Hx as [a [<- Ha]]. destruct Hy as [b [<- Hb]].
    destruct (H a b Ha Hb) as [k W]. exists k. apply walk_r_fwd. exact W.
  - intros H a b Ha Hb.
    destruct (H (f a) (f b) (in_map f _ _ Ha) (in_map f _ _ Hb)) as [k W].
    destruct (walk_r_bwd S' a (f b) k HS' (HS' a Ha) W) as [b' [Hb' [E W']]].
    apply cf_inj in E; [|apply HS'; exact Hb | exact Hb']. subst b'. exists k. exact W'.
Qed.

Lemma without_map : forall v S', v < length c -> (forall b, In b S' -> b < length c) ->
  without (f v) (map f S') = map f (without v S').
Proof.
  intros v S' Hv HS'. unfold without. rewrite filter_map_comm. f_equal.
  apply filter_ext_in_eq. intros a Ha. f_equal.
  apply eq_true_iff_eq. rewrite !Nat.eqb_eq. split.
  - intro E. apply cf_inj; [apply HS'; exact Ha | exact Hv | exact E].
  - intros ->. reflexivity.
Qed.

Lemma without_lt : forall v S', (forall b, In b S' -> b < length c) ->
  forall b, In b (without v S') -> b < length c.
Proof. intros v S' HS' b Hb. apply without_In in Hb. apply HS'. apply Hb. Qed.

Lemma blockset_range : forall S', blockset hc S' -> forall b, In b S' -> b < length c.
Proof. intros S' [_ [Hr _]] b Hb. apply Hr in Hb. exact Hb. Qed.

Lemma blockset_fwd : forall S', blockset hc S' -> blockset g (map f S').
Proof.
  intros S' HB. pose proof (blockset_range S' HB) as HS'.
  destruct HB as [Hs [_ [Hne [Hcw Hcut]]]].
  split; [|split; [|split; [|split]]].
  - apply sorted_map_mono; [exact Hs|]. intros a b _ Hb Hab. apply cf_mono; [exact Hab | apply HS'; exact Hb].
  - intros x Hx. apply in_map_iff in Hx. destruct Hx as [a [<- Ha]]. apply cf_range. apply HS'. exact Ha.
  - intro E. apply map_eq_nil in E. contradiction.
  - apply conn_within_tr; assumption.
  - intros x Hx. apply in_map_iff in Hx. destruct Hx as [v [<- Hv]].
    rewrite (without_map v S' (HS' v Hv) HS').
    apply conn_within_tr; [apply without_lt; exact HS'|]. apply Hcut. exact Hv.
Qed.

Lemma blockset_bwd : forall S', (forall b, In b S' -> b < length c) -> StronglySorted lt S' ->
  blockset g (map f S') -> blockset hc S'.
Proof.
  intros S' HS' Hs [_ [_ [Hne [Hcw Hcut]]]].
  split; [exact Hs|]. split; [|split; [|split]].
  - intros x Hx. simpl. apply HS'. exact Hx.
  - intro E. apply Hne. rewrite E. reflexivity.
  - apply conn_within_tr; assumption.
  - intros v Hv. apply conn_within_tr; [apply without_lt; exact HS'|].
    rewrite <- (without_map v S' (HS' v Hv) HS'). apply Hcut. apply in_map. exact Hv.
Qed.

(* a blockset of g that meets c lies inside c *)
Lemma blockset_in_comp : forall T x, blockset g T -> In x T -> In x c -> forall y, In y T -> In y c.
Proof.
  intros T x [_ [_ [_ [Hcw _]]]] HxT Hxc y Hy.
  apply (c_reach_in x y Hxc). destruct (Hcw x y HxT Hy) as [k W].
  exists k. apply (walk_unrestrict g T). exact W.
Qed.

(* an ascending list of vertices of c is the image of an ascending list of indices *)
Lemma preimage : forall T, StronglySorted lt T -> (forall y, In y T -> In y c) ->
  exists T', StronglySorted lt T' /\ (forall b, In b T' -> b < length c) /\ map f T' = T.
Proof.
  intros T Hs HT.
  set (T' := filter (fun a => memb (f a) T) (seq 0 (length c))).
  assert (HT' : forall b, In b T' -> b < length c).
  { intros b Hb. unfold T' in Hb. apply filter_In in Hb. destruct Hb as [Hb _]. apply in_seq in Hb. lia. }
  assert (Hs' : StronglySorted lt T') by apply filter_seq_sorted.
  exists T'. split; [exact Hs'|]. split; [exact HT'|].
  apply sorted_lt_ext_eq.
  - apply sorted_map_mono; [exact Hs'|]. intros a b _ Hb Hab. apply cf_mono; [exact Hab | apply HT'; exact Hb].
  - exact Hs.
  - intro y. rewrite in_map_iff. split.
    + intros [a [<- Ha]]. unfold T' in Ha. apply filter_In in Ha. destruct Ha as [_ Ha].
      apply memb_In. exact Ha.
    + intro Hy. destruct (cf_surj y (HT y Hy)) as [a [Ha Ea]]. exists a. split; [exact Ea|].
      unfold T'. apply filter_In. split; [apply in_seq; lia|]. rewrite Ea. apply memb_In. exact Hy.
Qed.

(* --- articulation vertices *)

Lemma artic_fwd_adj : forall v, v < length c -> forall a b,
  gadj (restrict hc (without v (seq 0 (length c)))) a b = true ->
  gadj (restrict g (without (f v) (vertices g))) (f a) (f b) = true.
Proof.
  intros v Hv a b H. simpl in H.
  apply andb_true_iff in H. destruct H as [H Hadj].
  apply andb_true_iff in H. destruct H as [Ha Hb].
  apply memb_In in Ha, Hb. apply without_In in Ha, Hb.
  destruct Ha as [Ha Hav]. destruct Hb as [Hb Hbv].
  apply in_seq in Ha, Hb.
  assert (Hal : a < length c) by lia. assert (Hbl : b < length c) by lia.
  assert (Hadj' : gadj hc a b = true) by exact Hadj.
  apply hc_adj_true in Hadj'. destruct Hadj' as [_ [_ Hg]].
  assert (Ha' : memb (f a) (without (f v) (vertices g)) = true).
  { apply memb_In. apply without_In. split; [apply in_vertices; apply cf_range; exact Hal|].
    intro E. apply Hav. apply cf_inj; assumption. }
  assert (Hb' : memb (f b) (without (f v) (vertices g)) = true).
  { apply memb_In. apply without_In. split; [apply in_vertices; apply cf_range; exact Hbl|].
    intro E. apply Hbv. apply cf_inj; assumption. }
  simpl. rewrite Ha', Hb', Hg. reflexivity.
Qed.

Lemma artic_walk_fwd : forall v a b k, v < length c ->
  walk (restrict hc (without v (seq 0 (length c)))) a b k ->
  walk (restrict g (without (f v) (vertices g))) (f a) (f b) k.
Proof.
  intros v a b k Hv. apply walk_fwd. apply artic_fwd_adj. exact Hv.
Qed.

Lemma artic_walk_bwd : forall v a y k, v < length c -> a < length c ->
  walk (restrict g (without (f v) (vertices g))) (f a) y k ->
  exists b, b < length c /\ y = f b /\ walk (restrict hc (without v (seq 0 (length c)))) a b k.
Proof.
  intros v a y k Hv Ha W.
  apply (walk_bwd (restrict g (without (f v) (vertices g)))
                  (restrict hc (without v (seq 0 (length c)))) f (fun a => a < length c)) with (x := f a);
    [|exact W | exact Ha | reflexivity].
  clear a y k Ha W. intros a y Ha E. simpl in E.
  apply andb_true_iff in E. destruct E as [E Hadj].
  apply andb_true_iff in E. destruct E as [Hma Hmy].
  apply memb_In in Hma, Hmy. apply without_In in Hma, Hmy.
  destruct Hma as [_ Hav]. destruct Hmy as [_ Hyv].
  assert (Hy : In y c) by (apply (c_closed (f a) y); [apply cf_in; exact Ha | exact Hadj]).
  destruct (cf_surj y Hy) as [b [Hb Eb]].
  exists b. split; [exact Hb|]. split; [symmetry; exact Eb|].
  assert (Ha' : memb a (without v (seq 0 (length c))) = true).
  { apply memb_In. apply without_In. split; [apply in_seq; lia|]. intro E. apply Hav. rewrite E. reflexivity. }
  assert (Hb' : memb b (without v (seq 0 (length c))) = true).
  { apply memb_In. apply without_In. split; [apply in_seq; lia|]. intro E. apply Hyv. rewrite <- Eb, E. reflexivity. }
  assert (Hh : gadj hc a b = true) by (rewrite hc_adj by assumption; rewrite Eb; exact Hadj).
  change (memb a (without v (seq 0 (length c))) && memb b (without v (seq 0 (length c))) && gadj hc a b = true).
  rewrite Ha', Hb', Hh. reflexivity.
Qed.

Lemma artic_tr : forall v, v < length c -> (separates g (f v) <-> separates hc v).
Proof.
  intros v Hv. unfold separates. split.
  - intros [a [b [Ha [Hb [Hav [Hbv [Hr Hn]]]]]]].
    assert (Hac : In a c).
    { destruct (in_dec Nat.eq_dec a c) as [Hin | Hnin]; [exact Hin|].
      exfalso. apply Hn. destruct Hr as [k W]. exists k.
      apply walk_restrict_in; [exact W|].
      intros w Hw. apply memb_In. apply without_In. split.
      - apply in_vertices. destruct Hw as [j Wj]. apply (walk_range_r g a w j Hwf Ha Wj).
      - intro E. subst w. apply Hnin. apply (c_reach_back a (f v)); [apply cf_in; exact Hv | exact Hw]. }
    assert (Hbc : In b c) by (apply (c_reach_in a b Hac Hr)).
    destruct (cf_surj a Hac) as [a' [Ha' Ea]]. destruct (cf_surj b Hbc) as [b' [Hb' Eb]].
    subst a b.
    exists a', b'. simpl gn.
    split; [exact Ha'|]. split; [exact Hb'|].
    split; [intro E; apply Hav; rewrite E; reflexivity|].
    split; [intro E; apply Hbv; rewrite E; reflexivity|].
    split; [apply reach_hc_g; assumption|].
    intros [k W]. apply Hn. exists k.
    apply artic_walk_fwd; [exact Hv|]. exact W.
  - intros [a [b [Ha [Hb [Hav [Hbv [Hr Hn]]]]]]]. simpl in Ha, Hb.
    exists (f a), (f b).
    split; [apply cf_range; exact Ha|]. split; [apply cf_range; exact Hb|].
    split; [intro E; apply Hav; apply cf_inj; assumption|].
    split; [intro E; apply Hbv; apply cf_inj; assumption|].
    split; [apply reach_hc_g; assumption|].
    intros [k W]. apply Hn.
    destruct (artic_walk_bwd v a (f b) k Hv Ha W) as [b' [Hb' [E W']]].
    apply cf_inj in E; [|exact Hb | exact Hb']. subst b'. exists k. exact W'.
Qed.

End Comp.

(* ------------------------------------------------------------------ the statements *)

(* c is a reference component of g *)
Lemma comp_nonempty : forall g c, wf g -> In c (comps_ref g) -> c <> [].
Proof. intros g c Hwf Hc. apply (c_nonempty g Hwf c Hc). Qed.

Lemma comp_sorted : forall g c, wf g -> In c (comps_ref g) -> StronglySorted lt c.
Proof. intros g c Hwf Hc. apply (c_sorted g Hwf c Hc). Qed.

Lemma induced_comp_connected : forall g c, wf g -> In c (comps_ref g) -> connected (induced g c).
Proof. intros g c Hwf Hc. apply (hc_connected g Hwf c Hc). Qed.

(* every vertex of g is nth v c 0 for exactly one component c and index v < length c *)
Lemma vertex_in_comp : forall g x, wf g -> x < gn g ->
  exists c v, In c (comps_ref g) /\ v < length c /\ nth v c 0 = x.
Proof.
  intros g x Hwf Hx. destruct (comps_ref_spec g Hwf) as [_ [H2 _]].
  destruct (H2 x Hx) as [c [Hc Hin]].
  destruct (In_nth c x 0 Hin) as [v [Hv E]].
  exists c, v. split; [exact Hc|]. split; [exact Hv | exact E].
Qed.

Lemma vertex_in_comp_unique : forall g c1 v1 c2 v2, wf g ->
  In c1 (comps_ref g) -> v1 < length c1 -> In c2 (comps_ref g) -> v2 < length c2 ->
  nth v1 c1 0 = nth v2 c2 0 -> c1 = c2 /\ v1 = v2.
Proof.
  intros g c1 v1 c2 v2 Hwf Hc1 Hv1 Hc2 Hv2 E.
  destruct (comps_ref_spec g Hwf) as [_ [_ [H3 _]]].
  assert (Ec : c1 = c2).
  { apply (H3 c1 c2 (nth v1 c1 0) Hc1 Hc2); [apply nth_In; exact Hv1 | rewrite E; apply nth_In; exact Hv2]. }
  subst c2. split; [reflexivity|].
  apply (cf_inj g Hwf c1 Hc1 v1 v2 Hv1 Hv2). exact E.
Qed.

Theorem block_transport : forall g, wf g -> forall S,
  is_block g S <->
  exists c S', In c (comps_ref g) /\ is_block (induced g c) S' /\ S = map (fun a => nth a c 0) S'.
Proof.
  intros g Hwf S. split.
  - intros [HB Hmax].
    assert (HB' := HB). destruct HB' as [Hs [Hr [Hne _]]].
    destruct S as [|x S0]; [contradiction|].
    assert (Hx : x < gn g) by (apply Hr; left; reflexivity).
    destruct (comps_ref_spec g Hwf) as [_ [H2 _]].
    destruct (H2 x Hx) as [c [Hc Hxc]].
    assert (Hsub : forall y, In y (x :: S0) -> In y c).
    { apply (blockset_in_comp g Hwf c Hc (x :: S0) x HB); [left; reflexivity | exact Hxc]. }
    destruct (preimage g Hwf c Hc (x :: S0) Hs Hsub) as [S' [Hs' [HS' Emap]]].
    exists c, S'. split; [exact Hc|]. split; [|symmetry; exact Emap].
    assert (HB' : blockset (induced g c) S').
    { apply (blockset_bwd g Hwf c Hc S' HS' Hs'). rewrite Emap. exact HB. }
    split; [exact HB'|].
    intros T' HT' Hincl.
    pose proof (blockset_fwd g Hwf c Hc T' HT') as HT.
    assert (Hincl' : incl (x :: S0) (map (cf c) T')).
    { rewrite <- Emap. apply incl_map. exact Hincl. }
    pose proof (Hmax _ HT Hincl') as Hlen.
    rewrite <- Emap in Hlen. rewrite !map_length in Hlen. exact Hlen.
  - intros [c [S' [Hc [[HB' Hmax'] ES]]]].
    change (fun a => nth a c 0) with (cf c) in ES. subst S.
    pose proof (blockset_fwd g Hwf c Hc S' HB') as HB.
    pose proof (blockset_range g c S' HB') as HS'.
    split; [exact HB|].
    intros T HT Hincl.
    destruct HB' as [Hs' [_ [Hne' _]]].
    destruct S' as [|a0 S0']; [contradiction|].
    assert (Ha0 : a0 < length c) by (apply HS'; left; reflexivity).
    assert (Hx0T : In (cf c a0) T) by (apply Hincl; left; reflexivity).
    assert (Hx0c : In (cf c a0) c) by (apply cf_in; exact Ha0).
    assert (Hsub : forall y, In y T -> In y c).
    { apply (blockset_in_comp g Hwf c Hc T (cf c a0) HT Hx0T Hx0c). }
    assert (HsT : StronglySorted lt T) by apply HT.
    destruct (preimage g Hwf c Hc T HsT Hsub) as [T' [HsT' [HT' Emap]]].
    assert (HBT' : blockset (induced g c) T').
    { apply (blockset_bwd g Hwf c Hc T' HT' HsT'). rewrite Emap. exact HT. }
    assert (Hincl' : incl (a0 :: S0') T').
    { intros a Ha. assert (HaT : In (cf c a) T) by (apply Hincl; apply in_map; exact Ha).
      rewrite <- Emap in HaT. apply in_map_iff in HaT. destruct HaT as [b [E Hb]].
      apply (cf_inj g Hwf c Hc) in E; [subst b; exact Hb | apply HT'; exact Hb | apply HS'; exact Ha]. }
    pose proof (Hmax' T' HBT' Hincl') as Hlen.
    rewrite <- Emap. rewrite !map_length. exact Hlen.
Qed.

Theorem artic_transport : forall g c v, wf g -> In c (comps_ref g) -> v < length c ->
  (separates g (nth v c 0) <-> separates (induced g c) v).
Proof.
  intros g c v Hwf Hc Hv. apply (artic_tr g Hwf c Hc v Hv).
Qed.

Print Assumptions block_transport.
Print Assumptions artic_transport.
