(* Bron-Kerbosch, part 1: list facts, the pivot, and the inner loop over P with its swap-remove. *)
From Coq Require Import List Arith Bool ZArith Lia Permutation.
From Mamba Require Import Invariants.Graph Invariants.ColourModel Invariants.ColourProofs Invariants.DegenBins
  Invariants.DegenProofs Invariants.CliqueSpec Invariants.CliqueModel.
Import ListNotations.
Open Scope nat_scope.

(* ------------------------------------------------------------------ swap_remove by index *)

Lemma index_of_nth : forall (l : list nat) i, NoDup l -> i < length l -> index_of (nth i l 0) l = Some i.
Proof.
  induction l as [|x l IH]; intros i Hnd Hi; simpl in Hi; [lia|].
  inversion Hnd as [|? ? Hx Hnd']; subst. destruct i; simpl.
  - rewrite Nat.eqb_refl. reflexivity.
  - assert (Hin : In (nth i l 0) l) by (apply nth_In; lia).
    destruct (Nat.eqb_spec x (nth i l 0)) as [E|E]; [subst; contradiction|].
    rewrite IH by (auto; lia). reflexivity.
Qed.

Lemma removelast_length {A} (l : list A) : length (removelast l) = pred (length l).
Proof.
  destruct l as [|a l]; auto. pose proof (@app_removelast_last A (a :: l) a ltac:(discriminate)) as H.
  apply (f_equal (@length A)) in H. rewrite app_length in H. simpl in *. lia.
Qed.

Lemma nth_removelast {A} (l : list A) p d : p < pred (length l) -> nth p (removelast l) d = nth p l d.
Proof.
  intros Hp. destruct l as [|a l]; [simpl in Hp; lia|]. remember (a :: l) as m eqn:Em.
  assert (Hne : m <> []) by (subst; discriminate).
  pose proof (@app_removelast_last A m d Hne) as H.
  assert (E : nth p (removelast m ++ [last m d]) d = nth p (removelast m) d)
    by (apply app_nth1; rewrite removelast_length; auto).
  rewrite <- H in E. symmetry. exact E.
Qed.

Lemma last_is_nth (l : list nat) : l <> [] -> last l 0 = nth (pred (length l)) l 0.
Proof.
  intros Hne. pose proof (@app_removelast_last nat l 0 Hne) as H.
  assert (E : nth (length (removelast l)) (removelast l ++ [last l 0]) 0 = last l 0) by apply nth_middle.
  rewrite <- H in E. rewrite removelast_length in E. symmetry. exact E.
Qed.

Lemma swap_remove_index (l : list nat) i : NoDup l -> i < length l ->
  NoDup (swap_remove l i) /\ length (swap_remove l i) = pred (length l) /\
  (forall x, In x (swap_remove l i) <-> In x l /\ x <> nth i l 0) /\
  (forall p, p < pred (length l) -> nth p (swap_remove l i) 0 = if p =? i then last l 0 else nth p l 0).
Proof.
  intros Hnd Hi. destruct (swap_remove_spec l (nth i l 0) i Hnd (index_of_nth l i Hnd Hi)) as [H1 H2].
  split; auto. split; [|split; auto].
  - unfold swap_remove. rewrite removelast_length, upd_length. reflexivity.
  - intros p Hp. unfold swap_remove. rewrite nth_removelast by (rewrite upd_length; auto).
    destruct (Nat.eqb_spec p i) as [->|Hne].
    + apply nth_upd_same; auto.
    + apply nth_upd_other; auto.
Qed.

(* ------------------------------------------------------------------ sets of vertices as lists *)

Definition same_set (c s : list nat) : Prop := forall v, In v c <-> In v s.

Definition same_setb (c s : list nat) : bool :=
  forallb (fun v => inb v s) c && forallb (fun v => inb v c) s.

Lemma same_setb_spec c s : same_setb c s = true <-> same_set c s.
Proof.
  unfold same_setb, same_set. rewrite andb_true_iff, !forallb_forall. split.
  - intros [H1 H2] v. split; intros H; apply inb_spec; auto.
  - intros H. split; intros v Hv; apply inb_spec; apply H; auto.
Qed.

(* how often the set s is listed in L *)
Definition count (s : list nat) (L : list (list nat)) : nat := length (filter (fun c => same_setb c s) L).

Lemma count_app s L1 L2 : count s (L1 ++ L2) = count s L1 + count s L2.
Proof. unfold count. rewrite filter_app, app_length. reflexivity. Qed.

Lemma count_zero s L : (forall c, In c L -> ~ same_set c s) -> count s L = 0.
Proof.
  unfold count. induction L as [|c L IH]; intros H; simpl; auto.
  destruct (same_setb c s) eqn:E.
  - apply same_setb_spec in E. exfalso. apply (H c); auto. left; auto.
  - apply IH. intros; apply H; right; auto.
Qed.

(* ------------------------------------------------------------------ the pivot *)

Section Loop.
Variable g : graph.

Lemma nbf_spec v u : nbf g v u = true <-> u <> v /\ gadj g u v = true.
Proof. unfold nbf. rewrite andb_true_iff, negb_true_iff, Nat.eqb_neq. tauto. Qed.

Lemma pivot_fold_snd P : forall l st,
  snd (fold_left (pivot_step g P) l st) = snd st \/
  exists v, In v l /\ snd (fold_left (pivot_step g P) l st) = Some v.
Proof.
  induction l as [|v l IH]; intros st; simpl; auto.
  destruct (IH (pivot_step g P st v)) as [H|(w & Hw & H)].
  - rewrite H. unfold pivot_step. destruct (fst st <? pivot_size g P v)%Z; simpl; auto.
    right. exists v. split; auto.
  - right. exists w. split; auto.
Qed.

Lemma pick_pivot_in P X : P ++ X <> [] -> exists pv, pick_pivot g P X = Some pv /\ In pv (P ++ X).
Proof.
  unfold pick_pivot. destruct (P ++ X) as [|v l]; [congruence|]. intros _. simpl.
  assert (E : pivot_step g P ((-1)%Z, None) v = (pivot_size g P v, Some v)).
  { unfold pivot_step. simpl. assert (H : (-1 <? pivot_size g P v)%Z = true) by (apply Z.ltb_lt; unfold pivot_size; lia).
    rewrite H. reflexivity. }
  rewrite E. destruct (pivot_fold_snd P l (pivot_size g P v, Some v)) as [H|(w & Hw & H)].
  - exists v. rewrite H. simpl. auto.
  - exists w. rewrite H. auto.
Qed.

(* ------------------------------------------------------------------ the loop over P *)

Variables (R P X : list nat) (pv : nat).

Definition skipb (v : nat) : bool := negb (v =? pv) && gadj g v pv.

(* the frame pushed for v when the vertices [pre] have been taken out of P before it *)
Definition child_ok (pre : list nat) (v : nat) (f : frame) : Prop :=
  let '(R', P', X') := f in
  R' = R ++ [v] /\ NoDup P' /\
  (forall u, In u P' <-> In u P /\ ~ In u pre /\ nbf g v u = true) /\
  X' = filter (nbf g v) (X ++ pre).

(* pushed frames (the last one first) against the vertices processed (the first one first) *)
Inductive Rel : list frame -> list nat -> Prop :=
| Rel_nil : Rel [] []
| Rel_snoc pushed done v f : Rel pushed done -> child_ok done v f -> In v P -> ~ In v done ->
    Rel (f :: pushed) (done ++ [v]).

Lemma Rel_done pushed done : Rel pushed done -> NoDup done /\ incl done P.
Proof.
  induction 1 as [|pushed done v f Hrel [IH1 IH2] Hc Hv Hn].
  - split; [constructor|intros ? []].
  - split.
    + apply (Permutation_NoDup (l := v :: done)); [apply Permutation_cons_append|constructor; auto].
    + intros u Hu. apply in_app_iff in Hu. destruct Hu as [Hu|[<-|[]]]; auto.
Qed.

Lemma bk_loop_spec : forall k Pc pushed done,
  NoDup Pc -> k <= length Pc ->
  (forall p, k <= p < length Pc -> skipb (nth p Pc 0) = true) ->
  (forall u, In u Pc <-> In u P /\ ~ In u done) ->
  Rel pushed done ->
  exists pushed' done', bk_loop g pv R k Pc (X ++ done) pushed = Some pushed' /\ Rel pushed' done' /\
    (forall u, In u P -> ~ In u done' -> skipb u = true).
Proof.
  induction k; intros Pc pushed done Hnd Hk Hskip Hmem Hrel; simpl.
  - exists pushed, done. split; auto. split; auto.
    intros u Hu Hnu. assert (Hin : In u Pc) by (apply Hmem; auto).
    apply (In_nth Pc u 0) in Hin. destruct Hin as (p & Hp & <-). apply Hskip. lia.
  - assert (Hi : k < length Pc) by lia.
    rewrite (nth_error_nth' Pc 0 Hi). set (v := nth k Pc 0).
    assert (Hv : In v Pc) by (apply nth_In; auto).
    fold (skipb v). destruct (skipb v) eqn:Esk.
    + apply IHk; auto; [lia|]. intros p Hp. destruct (Nat.eq_dec p k) as [->|Hne]; auto. apply Hskip. lia.
    + destruct (swap_remove_index Pc k Hnd Hi) as (Hnd' & Hlen' & Hin' & Hnth'). fold v in Hin'.
      destruct (proj1 (Hmem v) Hv) as [HvP Hvd].
      replace ((X ++ done) ++ [v]) with (X ++ (done ++ [v])) by (rewrite app_assoc; reflexivity).
      apply IHk; auto.
      * lia.
      * rewrite Hlen'. intros p Hp. rewrite Hnth' by lia.
        destruct (Nat.eqb_spec p k) as [->|Hne].
        -- rewrite last_is_nth by (destruct Pc; [simpl in Hi; lia|discriminate]). apply Hskip. lia.
        -- apply Hskip. lia.
      * intros u. rewrite Hin', Hmem, in_app_iff. simpl. split.
        -- intros [[H1 H2] H3]. split; auto. intros [H|[H|[]]]; auto.
        -- intros [H1 H2]. split; [split; auto|]. intro; subst; apply H2; auto.
      * apply Rel_snoc; auto. unfold child_ok. split; auto. split; [apply NoDup_filter; auto|]. split; auto.
        intros u. rewrite filter_In, Hmem. tauto.
Qed.

End Loop.
