(* The exhaustive clique oracles of CliqueRef.v agree with the definitions of CliqueSpec.v. *)
From Coq Require Import List Arith Bool ZArith Lia Sorted Permutation.
From Mamba Require Import Invariants.Graph Invariants.CliqueSpec Invariants.CliqueRef.
Import ListNotations.
Open Scope nat_scope.

(* ------------------------------------------------------------------ subsets *)

Lemma nil_in_subsets l : In [] (subsets l).
Proof. induction l; simpl; auto. apply in_app_iff; right; auto. Qed.

Definition in_range (a len : nat) (s : list nat) : Prop := Forall (fun v => a <= v < a + len) s.

Lemma in_range_weaken a len s : in_range (S a) len s -> in_range a (S len) s.
Proof. unfold in_range. apply Forall_impl. intros; lia. Qed.

Lemma subsets_seq_spec : forall len a s,
  In s (subsets (seq a len)) <-> StronglySorted lt s /\ in_range a len s.
Proof.
  induction len; intros a s; simpl.
  - split.
    + intros [<-|[]]. split; constructor.
    + intros [_ Hr]. left. destruct s; auto. inversion Hr; subst. lia.
  - rewrite in_app_iff, in_map_iff. split.
    + intros [(s' & <- & Hs')|Hs].
      * apply IHlen in Hs'. destruct Hs' as [Hsort Hr]. split.
        -- constructor; auto. eapply Forall_impl; [|exact Hr]. simpl; intros; lia.
        -- constructor; [lia|]. apply in_range_weaken; auto.
      * apply IHlen in Hs. destruct Hs as [Hsort Hr]. split; auto. apply in_range_weaken; auto.
    + intros [Hsort Hr]. destruct s as [|x s'].
      * right. apply nil_in_subsets.
      * inversion Hsort as [|? ? Hsort' Hall]; subst. inversion Hr as [|? ? Hx Hr']; subst.
        destruct (Nat.eq_dec x a) as [->|Hne].
        -- left. exists s'. split; auto. apply IHlen. split; auto.
           unfold in_range. rewrite Forall_forall in *. intros v Hv.
           specialize (Hall v Hv). specialize (Hr' v Hv). simpl in *. lia.
        -- right. apply IHlen. split; auto. constructor; [lia|].
           unfold in_range. rewrite Forall_forall in *. intros v Hv.
           specialize (Hall v Hv). specialize (Hr' v Hv). simpl in *. lia.
Qed.

Lemma NoDup_app_disjoint {A} (l1 l2 : list A) :
  NoDup l1 -> NoDup l2 -> (forall x, In x l1 -> ~ In x l2) -> NoDup (l1 ++ l2).
Proof.
  induction l1; simpl; intros H1 H2 Hd; auto.
  inversion H1; subst. constructor.
  - rewrite in_app_iff. intros [H|H]; [contradiction|]. apply (Hd a); auto.
  - apply IHl1; auto.
Qed.

Lemma subsets_seq_NoDup : forall len a, NoDup (subsets (seq a len)).
Proof.
  induction len; intros a; simpl.
  - constructor; auto. constructor.
  - apply NoDup_app_disjoint.
    + apply FinFun.Injective_map_NoDup; auto. intros x y H. inversion H; auto.
    + auto.
    + intros s Hs Hs'. apply in_map_iff in Hs. destruct Hs as (s' & <- & _).
      apply subsets_seq_spec in Hs'. destruct Hs' as [_ Hr]. inversion Hr; subst. lia.
Qed.

(* ------------------------------------------------------------------ the boolean tests *)

Lemma memb_spec w s : memb w s = true <-> In w s.
Proof.
  unfold memb. rewrite existsb_exists. split.
  - intros (x & Hx & E). apply Nat.eqb_eq in E. subst; auto.
  - intros H. exists w. split; auto. apply Nat.eqb_refl.
Qed.

Lemma sorted_NoDup s : StronglySorted lt s -> NoDup s.
Proof.
  induction 1; constructor; auto. intro Hin. rewrite Forall_forall in H0. specialize (H0 a Hin). lia.
Qed.

Lemma cliqueb_spec g s : cliqueb g s = true <->
  forall u v, In u s -> In v s -> u <> v -> gadj g u v = true.
Proof.
  unfold cliqueb. rewrite forallb_forall. split.
  - intros H u v Hu Hv Hne. specialize (H u Hu). rewrite forallb_forall in H. specialize (H v Hv).
    apply orb_true_iff in H. destruct H as [H|H]; auto. apply Nat.eqb_eq in H. contradiction.
  - intros H u Hu. apply forallb_forall. intros v Hv. apply orb_true_iff.
    destruct (Nat.eq_dec u v) as [->|Hne]; [left; apply Nat.eqb_refl|right; auto].
Qed.

Lemma maximalb_spec g s : maximalb g s = true <->
  forall w, w < gn g -> ~ In w s -> exists u, In u s /\ gadj g u w = false.
Proof.
  unfold maximalb, vertices. rewrite forallb_forall. split.
  - intros H w Hw Hnin. specialize (H w). rewrite in_seq in H. specialize (H ltac:(lia)).
    apply orb_true_iff in H. destruct H as [H|H]; [apply memb_spec in H; contradiction|].
    apply existsb_exists in H. destruct H as (u & Hu & E). exists u. split; auto.
    apply negb_true_iff in E; auto.
  - intros H w Hw. apply in_seq in Hw. apply orb_true_iff.
    destruct (in_dec Nat.eq_dec w s) as [Hin|Hnin]; [left; apply memb_spec; auto|right].
    destruct (H w ltac:(lia) Hnin) as (u & Hu & E). apply existsb_exists. exists u. split; auto.
    rewrite E; auto.
Qed.

(* ------------------------------------------------------------------ the oracles *)

Lemma in_range_iff n s : in_range 0 n s <-> forall v, In v s -> v < n.
Proof. unfold in_range. rewrite Forall_forall. split; intros H v Hv; specialize (H v Hv); lia. Qed.

(* the cliques of g, each exactly once as an ascending list *)
Theorem cliques_ref_spec g :
  NoDup (cliques_ref g) /\
  forall s, In s (cliques_ref g) <-> StronglySorted lt s /\ is_clique g s.
Proof.
  unfold cliques_ref, vertices. split.
  - apply NoDup_filter. apply subsets_seq_NoDup.
  - intros s. rewrite filter_In, subsets_seq_spec, cliqueb_spec, in_range_iff. unfold is_clique. split.
    + intros [[Hs Hr] Hc]. split; auto. split; [apply sorted_NoDup; auto|auto].
    + intros [Hs (_ & Hr & Hc)]. auto.
Qed.

(* every maximal clique exactly once *)
Theorem maximal_cliques_ref_spec g :
  NoDup (maximal_cliques_ref g) /\
  forall s, In s (maximal_cliques_ref g) <-> StronglySorted lt s /\ maximal_clique g s.
Proof.
  unfold maximal_cliques_ref. destruct (cliques_ref_spec g) as [Hnd Hin]. split.
  - apply NoDup_filter; auto.
  - intros s. rewrite filter_In, Hin, maximalb_spec. unfold maximal_clique. tauto.
Qed.

(* every vertex set has an ascending listing *)
Lemma sorted_listing (s : list nat) : NoDup s ->
  exists s', StronglySorted lt s' /\ length s' = length s /\ forall v, In v s' <-> In v s.
Proof.
  induction s as [|x s IH]; intros Hnd.
  - exists []. split; [constructor|]. split; auto. tauto.
  - inversion Hnd as [|? ? Hx Hnd']; subst. destruct (IH Hnd') as (s' & Hs & Hl & Hin).
    assert (Hx' : ~ In x s') by (rewrite Hin; auto). clear IH Hnd Hnd' Hx.
    assert (Hins : forall t, StronglySorted lt t -> ~ In x t ->
              exists t', StronglySorted lt t' /\ length t' = S (length t) /\ forall v, In v t' <-> v = x \/ In v t).
    { induction t as [|y t IHt]; intros Hst Hxt.
      - exists [x]. split; [repeat constructor|]. split; auto. simpl. intros v; split; intros [H|H]; auto.
      - inversion Hst as [|? ? Hst' Hall]; subst.
        destruct (lt_dec x y).
        + exists (x :: y :: t). split; [|split; auto].
          * constructor; auto. constructor; auto. rewrite Forall_forall in *. intros v Hv. specialize (Hall v Hv). lia.
          * intros v. simpl. split; intros [H|H]; auto.
        + destruct IHt as (t' & Hst'' & Hl' & Hin'); auto. { intro; apply Hxt; right; auto. }
          exists (y :: t'). split; [|split].
          * constructor; auto. rewrite Forall_forall in *. intros v Hv. apply Hin' in Hv.
            destruct Hv as [->|Hv]; [|auto]. assert (x <> y) by (intro; subst; apply Hxt; left; auto). lia.
          * simpl. lia.
          * intros v. simpl. rewrite Hin'. tauto. }
    destruct (Hins s' Hs Hx') as (t' & H1 & H2 & H3).
    exists t'. split; auto. split; [simpl; lia|]. intros v. rewrite H3. simpl. rewrite Hin. split; intros [H|H]; auto.
Qed.

Lemma is_clique_listing g s s' : is_clique g s -> NoDup s' -> (forall v, In v s' <-> In v s) -> is_clique g s'.
Proof.
  intros (Hnd & Hr & Hc) Hnd' Hin. split; auto. split.
  - intros v Hv. apply Hr. apply Hin; auto.
  - intros u v Hu Hv. apply Hc; apply Hin; auto.
Qed.

Lemma list_max_in (l : list nat) : l <> [] -> In (list_max l) l.
Proof.
  induction l as [|a l IH]; [congruence|]. intros _. simpl.
  destruct l as [|b l'].
  - left. simpl. lia.
  - destruct (Nat.max_spec a (list_max (b :: l'))) as [[_ E]|[_ E]].
    + right. rewrite E. apply IH. congruence.
    + left. symmetry. exact E.
Qed.

(* clique_number_ref is the clique number *)
Theorem clique_number_ref_spec g : clique_number g (clique_number_ref g).
Proof.
  unfold clique_number_ref. destruct (cliques_ref_spec g) as [_ Hin]. split.
  - assert (Hne : map (@length nat) (cliques_ref g) <> []).
    { assert (H : In [] (cliques_ref g)).
      { apply Hin. split; [constructor|]. split; [constructor|]. split; [intros ? []|intros ? ? []]. }
      intro E. destruct (cliques_ref g); [contradiction|discriminate]. }
    apply list_max_in in Hne. apply in_map_iff in Hne. destruct Hne as (s & Hl & Hs).
    exists s. split; auto. apply Hin in Hs. tauto.
  - intros s Hs. destruct (sorted_listing s) as (s' & Hsort & Hl & Hin'); [apply Hs|].
    rewrite <- Hl.
    assert (H : In (length s') (map (@length nat) (cliques_ref g))).
    { apply in_map. apply Hin. split; auto. eapply is_clique_listing; eauto. apply sorted_NoDup; auto. }
    pose proof (proj1 (list_max_le (map (@length nat) (cliques_ref g)) (list_max (map (@length nat) (cliques_ref g)))) (le_n _)) as Hall.
    rewrite Forall_forall in Hall. apply Hall; auto.
Qed.

(* independent sets are the cliques of the complement view *)
Lemma independent_complement g s : wf g -> (is_independent g s <-> is_clique (complement g) s).
Proof.
  intros _. unfold is_independent, is_clique, complement; simpl. split; intros (Hnd & Hr & Hc); split; auto; split; auto.
  - intros u v Hu Hv Hne. rewrite (Hc u v Hu Hv Hne).
    rewrite (proj2 (Nat.ltb_lt _ _) (Hr u Hu)), (proj2 (Nat.ltb_lt _ _) (Hr v Hv)), (proj2 (Nat.eqb_neq _ _) Hne). reflexivity.
  - intros u v Hu Hv Hne. specialize (Hc u v Hu Hv Hne). rewrite !andb_true_iff in Hc.
    destruct Hc as [_ Hc]. apply negb_true_iff in Hc; auto.
Qed.

Theorem independence_number_ref_spec g : wf g -> independence_number g (independence_number_ref g).
Proof.
  intros Hwf. unfold independence_number_ref. destruct (clique_number_ref_spec (complement g)) as [(s & Hs & Hl) Hmax].
  split.
  - exists s. split; auto. apply independent_complement; auto.
  - intros s' Hs'. apply Hmax. apply independent_complement; auto.
Qed.
