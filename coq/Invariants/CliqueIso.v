(* The specification values of C09 are invariant under relabelling: an isomorphism of simple
   graphs carries cliques, independent sets, maximal cliques, proper colourings and degeneracy
   certificates over, so clique number, independence number, chromatic number and degeneracy
   agree.  (With the exactness theorems this gives the relabelling clause of the property for the
   functions that are proved exact; representation invariance is C05/C06's statement that all
   representations present the same abstract graph.) *)
From Coq Require Import List Arith Bool ZArith Lia.
From Mamba Require Import Invariants.Graph Invariants.ColourSpec Invariants.CliqueSpec.
Import ListNotations.
Open Scope nat_scope.

(* p maps the vertices of h bijectively onto those of g (q is its inverse) and preserves adjacency *)
Definition iso (p q : nat -> nat) (h g : graph) : Prop :=
  gn h = gn g /\
  (forall u, u < gn h -> p u < gn g /\ q (p u) = u) /\
  (forall v, v < gn g -> q v < gn h /\ p (q v) = v) /\
  (forall u v, u < gn h -> v < gn h -> gadj h u v = gadj g (p u) (p v)).

Lemma iso_sym p q h g : iso p q h g -> iso q p g h.
Proof.
  intros (Hn & Hp & Hq & Ha). split; [auto|]. split; [auto|]. split; [auto|].
  intros u v Hu Hv. destruct (Hq u Hu) as [Hu1 Hu2]. destruct (Hq v Hv) as [Hv1 Hv2].
  rewrite (Ha (q u) (q v) Hu1 Hv1), Hu2, Hv2. reflexivity.
Qed.

(* the relabelled graph of Graph.v is isomorphic to the original *)
Lemma relabel_iso g p q : wf g ->
  (forall u, u < gn g -> p u < gn g /\ q (p u) = u) ->
  (forall v, v < gn g -> q v < gn g /\ p (q v) = v) ->
  iso p q (relabel g p) g.
Proof.
  intros _ Hp Hq. split; [reflexivity|]. split; [exact Hp|]. split; [exact Hq|].
  intros u v Hu Hv. simpl in *. rewrite (proj2 (Nat.ltb_lt _ _) Hu), (proj2 (Nat.ltb_lt _ _) Hv). reflexivity.
Qed.

Lemma NoDup_map_on {A B} (f : A -> B) l : NoDup l ->
  (forall x y, In x l -> In y l -> f x = f y -> x = y) -> NoDup (map f l).
Proof.
  induction l as [|a l IH]; simpl; intros Hnd Hinj; [constructor|].
  inversion Hnd as [|? ? Ha Hnd']; subst. constructor.
  - intro H. apply in_map_iff in H. destruct H as (y & E & Hy).
    assert (y = a) by (apply Hinj; auto). subst. contradiction.
  - apply IH; auto.
Qed.

Section Iso.
Variables (p q : nat -> nat) (h g : graph).
Hypothesis Hiso : iso p q h g.

Lemma p_inj u v : u < gn h -> v < gn h -> p u = p v -> u = v.
Proof.
  destruct Hiso as (_ & Hp & _). intros Hu Hv E.
  destruct (Hp u Hu) as [_ <-]. destruct (Hp v Hv) as [_ <-]. rewrite E. reflexivity.
Qed.

Lemma clique_map s : is_clique h s -> is_clique g (map p s).
Proof.
  destruct Hiso as (Hn & Hp & Hq & Ha). intros (Hnd & Hr & Hadj). split; [|split].
  - apply NoDup_map_on; auto. intros x y Hx Hy. apply p_inj; auto.
  - intros v Hv. apply in_map_iff in Hv. destruct Hv as (u & <- & Hu). apply Hp; auto.
  - intros x y Hx Hy Hxy. apply in_map_iff in Hx, Hy. destruct Hx as (u & <- & Hu). destruct Hy as (v & <- & Hv).
    rewrite <- Ha by auto. apply Hadj; auto; try (intro; subst; auto).
Qed.

Lemma independent_map s : is_independent h s -> is_independent g (map p s).
Proof.
  destruct Hiso as (Hn & Hp & Hq & Ha). intros (Hnd & Hr & Hadj). split; [|split].
  - apply NoDup_map_on; auto. intros x y Hx Hy. apply p_inj; auto.
  - intros v Hv. apply in_map_iff in Hv. destruct Hv as (u & <- & Hu). apply Hp; auto.
  - intros x y Hx Hy Hxy. apply in_map_iff in Hx, Hy. destruct Hx as (u & <- & Hu). destruct Hy as (v & <- & Hv).
    rewrite <- Ha by auto. apply Hadj; auto; try (intro; subst; auto).
Qed.

Lemma maximal_clique_map s : maximal_clique h s -> maximal_clique g (map p s).
Proof.
  intros [Hc Hmax]. split; [apply clique_map; auto|].
  destruct Hiso as (Hn & Hp & Hq & Ha). destruct Hc as (_ & Hr & _).
  intros w Hw Hws. destruct (Hq w Hw) as [Hqw Hpq].
  destruct (Hmax (q w) Hqw) as (u & Hu & Hau).
  - intro H. apply Hws. rewrite <- Hpq. apply in_map; auto.
  - exists (p u). split; [apply in_map; auto|]. rewrite <- Hpq, <- Ha; auto.
Qed.

(* the colouring of g that gives p u the colour of u *)
Definition transport (c : list Z) : list Z := map (fun v => colour_of c (q v)) (seq 0 (gn g)).

Lemma transport_colour c v : v < gn g -> colour_of (transport c) v = colour_of c (q v).
Proof.
  intros Hv. unfold transport, colour_of at 1.
  rewrite nth_indep with (d' := colour_of c (q 0)) by (rewrite map_length, seq_length; auto).
  rewrite (map_nth (fun v => colour_of c (q v))), seq_nth; auto.
Qed.

Lemma colouring_transport k c : wf g -> k_colouring h k c -> k_colouring g k (transport c).
Proof.
  destruct Hiso as (Hn & Hp & Hq & Ha). intros (Hrg & _ & _) ((Hl & H0 & Hne) & Hk).
  split; [split; [|split]|].
  - unfold transport. rewrite map_length, seq_length. reflexivity.
  - intros v Hv. rewrite transport_colour by auto. apply H0. apply Hq; auto.
  - intros x y Hxy. destruct (Hrg x y Hxy) as [Hx Hy]. rewrite !transport_colour by auto.
    destruct (Hq x Hx) as [Hx1 Hx2]. destruct (Hq y Hy) as [Hy1 Hy2].
    apply Hne. rewrite (Ha _ _ Hx1 Hy1), Hx2, Hy2. exact Hxy.
  - intros v Hv. rewrite transport_colour by auto. apply Hk. apply Hq; auto.
Qed.

Lemma nbrs_in_map v l : v < gn h -> (forall u, In u l -> u < gn h) ->
  nbrs_in g (p v) (map p l) = nbrs_in h v l.
Proof.
  destruct Hiso as (Hn & Hp & Hq & Ha). intros Hv. unfold nbrs_in.
  induction l as [|u l IH]; intros Hl; simpl; auto.
  rewrite <- Ha by (auto; apply Hl; left; auto).
  destruct (gadj h v u); simpl; rewrite IH; auto; intros; apply Hl; right; auto.
Qed.

Lemma order_map order : is_order h order -> is_order g (map p order).
Proof.
  destruct Hiso as (Hn & Hp & Hq & Ha). intros (Hnd & Hl & Hr). split; [|split].
  - apply NoDup_map_on; auto. intros x y Hx Hy. apply p_inj; auto.
  - rewrite map_length. lia.
  - intros v Hv. apply in_map_iff in Hv. destruct Hv as (u & <- & Hu). apply Hp; auto.
Qed.

Lemma certifies_map order d : is_order h order -> certifies h order d -> certifies g (map p order) d.
Proof.
  intros (Hnd & Hl & Hr) Hc i v Hi. rewrite nth_error_map in Hi.
  destruct (nth_error order i) as [u|] eqn:E; [|discriminate]. inversion Hi; subst v.
  rewrite firstn_map. rewrite nbrs_in_map.
  - apply Hc; auto.
  - apply Hr. eapply nth_error_In; eauto.
  - intros w Hw. apply Hr. rewrite <- (firstn_skipn i order). apply in_app_iff; left; auto.
Qed.

End Iso.

(* ------------------------------------------------------------------ the values agree *)

Theorem clique_number_iso p q h g w : iso p q h g -> clique_number h w -> clique_number g w.
Proof.
  intros Hiso [(s & Hs & Hl) Hmax]. split.
  - exists (map p s). split; [eapply clique_map; eauto|rewrite map_length; auto].
  - intros s' Hs'. pose proof (clique_map q p g h (iso_sym _ _ _ _ Hiso) s' Hs') as H.
    apply Hmax in H. rewrite map_length in H. auto.
Qed.

Theorem independence_number_iso p q h g a : iso p q h g -> independence_number h a -> independence_number g a.
Proof.
  intros Hiso [(s & Hs & Hl) Hmax]. split.
  - exists (map p s). split; [eapply independent_map; eauto|rewrite map_length; auto].
  - intros s' Hs'. pose proof (independent_map q p g h (iso_sym _ _ _ _ Hiso) s' Hs') as H.
    apply Hmax in H. rewrite map_length in H. auto.
Qed.

Theorem chromatic_number_iso p q h g chi : wf h -> wf g -> iso p q h g ->
  chromatic_number h chi -> chromatic_number g chi.
Proof.
  intros Hwh Hwg Hiso [(c & Hc) Hmin]. split.
  - exists (transport q g c). eapply colouring_transport; eauto.
  - intros k c' Hc'. apply (Hmin k (transport p h c')).
    eapply colouring_transport; eauto. apply iso_sym; eauto.
Qed.

Theorem degeneracy_iso p q h g d : iso p q h g -> is_degeneracy h d -> is_degeneracy g d.
Proof.
  intros Hiso [(order & Hord & Hc) Hmin]. split.
  - exists (map p order). split; [eapply order_map; eauto|eapply certifies_map; eauto].
  - intros order' d' Hord' Hc'. apply (Hmin (map q order') d').
    + eapply order_map; eauto. apply iso_sym; eauto.
    + eapply certifies_map; eauto. apply iso_sym; eauto.
Qed.

(* maximal cliques correspond one to one (as vertex sets) *)
Theorem maximal_clique_iso p q h g s : iso p q h g -> maximal_clique h s -> maximal_clique g (map p s).
Proof. intros. eapply maximal_clique_map; eauto. Qed.
