(* DSATUR branch and bound, the combinatorial part: the stack of frames of [DsaturModel] seen as
   a position in the search tree.  Definitions of the abstract reading of a stack (assignment,
   admissible choices, covered colourings) and the lemmas that make the search complete:
   colours are interchangeable, so a proper colouring with few colours always follows one of the
   choices "an old colour not seen by the vertex, or max + 1". *)
From Coq Require Import List Arith Bool ZArith Lia Sorted Permutation.
From Mamba Require Import Invariants.Graph Invariants.ColourSpec Invariants.CliqueSpec Invariants.ColourRef
  Invariants.ColourRefProofs Invariants.DsaturModel.
Import ListNotations.
Open Scope Z_scope.

(* ------------------------------------------------------------------ assignments *)

Definition colr (f : dframe) : Z := nth (f_cur f) (f_choices f) (-1).
Definition asg (fr : list dframe) : list (nat * Z) := map (fun f => (f_v f, colr f)) fr.

Definition maxcol (A : list (nat * Z)) : Z := fold_right (fun p m => Z.max (snd p) m) (-1) A.

Section Abs.
  Variable g : graph.

  (* number of neighbours of u with colour j in A *)
  Definition cntn (A : list (nat * Z)) (u : nat) (j : Z) : nat :=
    length (filter (fun p => gadj g u (fst p) && (snd p =? j)) A).
  Definition cnt (A : list (nat * Z)) (u : nat) (j : Z) : Z := Z.of_nat (cntn A u j).

  Definition max_option (ub : Z) (A : list (nat * Z)) : Z := Z.min (ub - 2) (maxcol A + 1).

  (* the slice c that dfsDsatur builds for vertex v *)
  Definition choices_of (ub : Z) (A : list (nat * Z)) (v : nat) : list Z :=
    filter (fun j => cnt A v j =? 0) (map Z.of_nat (seq 0 (Z.to_nat (max_option ub A + 1)))).

  (* colours 0..maxcol all occur, none negative, vertices in range and distinct *)
  Definition good (A : list (nat * Z)) : Prop :=
    (forall u a, In (u, a) A -> 0 <= a /\ (u < gn g)%nat) /\
    (forall c, 0 <= c <= maxcol A -> exists w, In (w, c) A) /\
    NoDup (map fst A).

  (* A and the colouring f induce the same partition of the vertices of A *)
  Definition agree (A : list (nat * Z)) (f : list Z) : Prop :=
    forall u a w b, In (u, a) A -> In (w, b) A -> (a = b <-> colour_of f u = colour_of f w).

  Lemma NoDup_app_snoc {A} (l : list A) x : NoDup l -> ~ In x l -> NoDup (l ++ [x]).
  Proof.
    induction l as [|a l IH]; simpl; intros Hnd Hx; [constructor; auto; constructor|].
    inversion Hnd; subst. constructor.
    - rewrite in_app_iff. simpl. intuition.
    - apply IH; auto.
  Qed.

  (* ---------------------------------------------------------------- maxcol, cnt *)

  Lemma maxcol_ge A : -1 <= maxcol A.
  Proof. induction A; simpl; lia. Qed.

  Lemma maxcol_app A B : maxcol (A ++ B) = Z.max (maxcol A) (maxcol B).
  Proof.
    induction A as [|p A IH]; simpl; [pose proof (maxcol_ge B); lia|].
    change (fold_right (fun p m => Z.max (snd p) m) (-1) (A ++ B)) with (maxcol (A ++ B)).
    change (fold_right (fun p m => Z.max (snd p) m) (-1) A) with (maxcol A).
    rewrite IH; lia.
  Qed.

  Lemma maxcol_snoc A v c : maxcol (A ++ [(v, c)]) = Z.max (maxcol A) c.
  Proof. pose proof (maxcol_ge A). rewrite maxcol_app. simpl. lia. Qed.

  Lemma maxcol_in A u a : In (u, a) A -> a <= maxcol A.
  Proof. induction A as [|p A IH]; simpl; [tauto|]. intros [->|H]; simpl; [lia|]. specialize (IH H). lia. Qed.

  Lemma cntn_app A B u j : cntn (A ++ B) u j = (cntn A u j + cntn B u j)%nat.
  Proof. unfold cntn. rewrite filter_app, app_length. auto. Qed.

  Lemma cnt_snoc A v c u j :
    cnt (A ++ [(v, c)]) u j = cnt A u j + (if gadj g u v && (c =? j) then 1 else 0).
  Proof.
    unfold cnt. rewrite cntn_app. unfold cntn at 2. simpl.
    destruct (gadj g u v && (c =? j)); simpl; lia.
  Qed.

  Lemma cnt_zero A u j : cnt A u j = 0 <-> forall w, In (w, j) A -> gadj g u w = false.
  Proof.
    unfold cnt, cntn. split.
    - intros H w Hw. destruct (gadj g u w) eqn:E; auto. exfalso.
      assert (Hin : In (w, j) (filter (fun p => gadj g u (fst p) && (snd p =? j)) A)).
      { apply filter_In. split; auto. simpl. rewrite E, Z.eqb_refl. auto. }
      destruct (filter _ A); [contradiction|]. simpl in H. lia.
    - intros H. destruct (filter _ A) as [|[w b] l] eqn:E; auto. exfalso.
      assert (Hin : In (w, b) (filter (fun p => gadj g u (fst p) && (snd p =? j)) A)) by (rewrite E; left; auto).
      apply filter_In in Hin. destruct Hin as [Hin Hb]. simpl in Hb. apply andb_true_iff in Hb.
      destruct Hb as [Hb1 Hb2]. apply Z.eqb_eq in Hb2. subst b. rewrite (H w Hin) in Hb1. discriminate.
  Qed.

  Lemma cnt_nonneg A u j : 0 <= cnt A u j.
  Proof. unfold cnt. lia. Qed.

  (* ---------------------------------------------------------------- choices_of *)

  Lemma in_choices_of ub A v c :
    In c (choices_of ub A v) <-> 0 <= c <= max_option ub A /\ cnt A v c = 0.
  Proof.
    unfold choices_of. rewrite filter_In, in_map_iff, Z.eqb_eq. split.
    - intros [(x & <- & Hx) Hc]. apply in_seq in Hx. split; auto. lia.
    - intros [Hr Hc]. split; auto. exists (Z.to_nat c). split; [lia|]. apply in_seq. lia.
  Qed.

  Lemma sorted_map_of_nat : forall len a, StronglySorted Z.lt (map Z.of_nat (seq a len)).
  Proof.
    induction len; intros a; simpl; constructor; auto.
    apply Forall_forall. intros x Hx. apply in_map_iff in Hx. destruct Hx as (y & <- & Hy).
    apply in_seq in Hy. lia.
  Qed.

  Lemma sorted_filter (f : Z -> bool) l : StronglySorted Z.lt l -> StronglySorted Z.lt (filter f l).
  Proof.
    induction 1 as [|a l Hs IH Hf]; simpl; [constructor|].
    destruct (f a); auto. constructor; auto.
    rewrite Forall_forall in *. intros x Hx. apply filter_In in Hx. apply Hf. tauto.
  Qed.

  Lemma choices_of_sorted ub A v : StronglySorted Z.lt (choices_of ub A v).
  Proof. apply sorted_filter, sorted_map_of_nat. Qed.

  (* ---------------------------------------------------------------- colours are interchangeable *)

  Lemma good_nil : good [].
  Proof. split; [|split]; simpl; [tauto| |constructor]. unfold maxcol; simpl. intros; lia. Qed.

  Lemma good_snoc A v c : good A -> 0 <= c <= maxcol A + 1 -> ~ In v (map fst A) -> (v < gn g)%nat ->
    good (A ++ [(v, c)]).
  Proof.
    intros (H1 & H2 & H3) Hc Hv Hn. split; [|split].
    - intros u a Hin. apply in_app_iff in Hin. destruct Hin as [Hin|[E|[]]]; [apply H1; auto|].
      inversion E; subst. split; [lia|auto].
    - intros c' Hc'. rewrite maxcol_snoc in Hc'.
      destruct (Z.eq_dec c' c) as [->|Hne].
      + exists v. apply in_app_iff. right. left. auto.
      + assert (Hle : c' <= maxcol A) by lia.
        destruct (H2 c' ltac:(lia)) as (w & Hw). exists w. apply in_app_iff. auto.
    - rewrite map_app. simpl. apply NoDup_app_snoc; auto.
  Qed.

  (* a colouring that agrees with A uses at least maxcol A + 1 colours *)
  Lemma many_colours A f k : good A -> agree A f -> k_colouring g k f -> maxcol A + 1 <= Z.of_nat k.
  Proof.
    intros (H1 & H2 & _) Hag [[Hlen [Hnn _]] Hk].
    assert (Haux : forall m : nat, Z.of_nat m <= maxcol A + 1 ->
      exists l : list Z, NoDup l /\ length l = m /\
        forall z, In z l -> exists c w, 0 <= c < Z.of_nat m /\ In (w, c) A /\ z = colour_of f w).
    { induction m as [|m IH]; intros Hm.
      - exists []. split; [constructor|]. split; auto. intros z [].
      - destruct IH as (l & Hnd & Hl & Hz); [lia|].
        destruct (H2 (Z.of_nat m) ltac:(lia)) as (w & Hw).
        exists (colour_of f w :: l). split; [|split].
        + constructor; auto. intros Hin. destruct (Hz _ Hin) as (c' & w' & Hc' & Hw' & E).
          assert (c' = Z.of_nat m) by (apply (Hag w' c' w (Z.of_nat m)); auto). lia.
        + simpl. lia.
        + intros z [<-|Hin].
          * exists (Z.of_nat m), w. split; [lia|]. auto.
          * destruct (Hz _ Hin) as (c' & w' & Hc' & Hw' & E). exists c', w'. split; [lia|]. auto. }
    pose proof (maxcol_ge A) as Hge.
    destruct (Haux (Z.to_nat (maxcol A + 1)) ltac:(lia)) as (l & Hnd & Hl & Hz).
    assert (Hincl : incl l (palette k)).
    { intros z Hin. destruct (Hz _ Hin) as (c & w & _ & Hw & ->). apply in_palette.
      destruct (H1 _ _ Hw) as [_ Hwn]. split; [apply Hnn; auto|apply Hk; auto]. }
    pose proof (NoDup_incl_length Hnd Hincl) as Hle.
    unfold palette in Hle. rewrite map_length, seq_length in Hle. lia.
  Qed.

  Lemma dead_branch A f k ub : good A -> agree A f -> k_colouring g k f -> Z.of_nat k <= ub - 1 ->
    ub - 1 <= maxcol A -> False.
  Proof. intros HA Hag Hk Hle Hm. pose proof (many_colours A f k HA Hag Hk). lia. Qed.

  (* the step of the completeness argument: a colouring with at most ub-1 colours that agrees
     with A agrees with one of the choices offered for the next vertex v *)
  Lemma extend A f k ub v : good A -> agree A f -> k_colouring g k f -> Z.of_nat k <= ub - 1 ->
    (forall u a, In (u, a) A -> a <= ub - 2) -> ~ In v (map fst A) -> (v < gn g)%nat ->
    exists c, In c (choices_of ub A v) /\ agree (A ++ [(v, c)]) f.
  Proof.
    intros HA Hag Hk Hle Hub Hv Hn.
    destruct HA as (H1 & H2 & H3).
    destruct (find (fun p => colour_of f (fst p) =? colour_of f v) A) as [[w b]|] eqn:Hf.
    - apply find_some in Hf. destruct Hf as [Hin E]. simpl in E. apply Z.eqb_eq in E.
      exists b. split.
      + apply in_choices_of. split.
        * destruct (H1 _ _ Hin) as [Hb _]. pose proof (maxcol_in _ _ _ Hin). pose proof (Hub _ _ Hin).
          unfold max_option. lia.
        * apply cnt_zero. intros w' Hw'. destruct (gadj g v w') eqn:Ea; auto. exfalso.
          destruct Hk as [[_ [_ Hp]] _]. apply (Hp v w' Ea).
          rewrite <- E. apply (Hag w b w' b); auto.
      + intros u a u' a' Hu Hu'. apply in_app_iff in Hu. apply in_app_iff in Hu'.
        destruct Hu as [Hu|[Eu|[]]]; destruct Hu' as [Hu'|[Eu'|[]]].
        * apply Hag; auto.
        * inversion Eu'; subst u' a'. rewrite <- E. apply Hag; auto.
        * inversion Eu; subst u a. rewrite <- E. apply Hag; auto.
        * inversion Eu; inversion Eu'; subst. tauto.
    - assert (Hnone : forall w b, In (w, b) A -> colour_of f w <> colour_of f v).
      { intros w b Hin. pose proof (find_none _ _ Hf _ Hin) as E. simpl in E. apply Z.eqb_neq; auto. }
      set (c := maxcol A + 1).
      assert (Hgood' : good (A ++ [(v, c)])).
      { apply good_snoc; auto; [split; auto|]. pose proof (maxcol_ge A). unfold c. lia. }
      assert (Hag' : agree (A ++ [(v, c)]) f).
      { intros u a u' a' Hu Hu'. apply in_app_iff in Hu. apply in_app_iff in Hu'.
        destruct Hu as [Hu|[Eu|[]]]; destruct Hu' as [Hu'|[Eu'|[]]].
        - apply Hag; auto.
        - inversion Eu'; subst u' a'. pose proof (maxcol_in _ _ _ Hu). pose proof (Hnone _ _ Hu).
          split; intros; [unfold c in *; lia|contradiction].
        - inversion Eu; subst u a. pose proof (maxcol_in _ _ _ Hu'). pose proof (Hnone _ _ Hu').
          split; intros; [unfold c in *; lia|]. exfalso. auto.
        - inversion Eu; inversion Eu'; subst. tauto. }
      exists c. split; auto.
      apply in_choices_of. split.
      + pose proof (many_colours _ _ _ Hgood' Hag' Hk) as Hm. rewrite maxcol_snoc in Hm.
        pose proof (maxcol_ge A). unfold max_option, c in *. lia.
      + apply cnt_zero. intros w' Hw'. pose proof (maxcol_in _ _ _ Hw'). unfold c in *. lia.
  Qed.
End Abs.
