(* C10 — the orbit count behind the division by 2L in cycles_ref / icycles_ref.

   A cycle with L >= 3 vertices, as a subgraph, is a set of L edges.  [cadj p a b] says that b
   follows a in the vertex sequence p read cyclically; [same_cycle p q] that p and q have the
   same set of (unordered) cyclic edges.  For a duplicate-free p with L >= 3 vertices the
   sequences with the same edge set are exactly the 2L members of [dihedral p] (the L rotations
   of p and the L rotations of its reversal), all distinct.  Hence a duplicate-free list X of
   such sequences that is closed under rotation and reversal splits into classes of 2L
   sequences, one class per edge set: length X = 2L * number of classes ([orbit_count]).
   Instances: [cycle_seqs g L] and [induced_cycle_seqs g L]. *)
From Coq Require Import List Arith Bool Lia Permutation.
From Mamba Require Import Invariants.Graph Invariants.DistSpec Invariants.DistRef
  Invariants.DistRefProofs Invariants.CycleRefProofs Invariants.CycleCount Invariants.GirthExactLists.
Import ListNotations.

(* ------------------------------------------------------------------ rotations *)

Definition rot1 (p : list nat) : list nat := match p with [] => [] | x :: l => l ++ [x] end.
Fixpoint rotn (k : nat) (p : list nat) : list nat :=
  match k with O => p | S k' => rotn k' (rot1 p) end.
Definition rots (p : list nat) : list (list nat) := map (fun k => rotn k p) (seq 0 (length p)).
Definition dihedral (p : list nat) : list (list nat) := rots p ++ rots (rev p).

Lemma rot1_length : forall p, length (rot1 p) = length p.
Proof. destruct p as [|x l]; [reflexivity|]. simpl. rewrite app_length. simpl. lia. Qed.

Lemma rotn_length : forall k p, length (rotn k p) = length p.
Proof. induction k as [|k IH]; intro p; simpl; [reflexivity|]. rewrite IH. apply rot1_length. Qed.

Lemma rot1_perm : forall p, Permutation p (rot1 p).
Proof. destruct p as [|x l]; [constructor|]. simpl. apply Permutation_cons_append. Qed.

Lemma rotn_perm : forall k p, Permutation p (rotn k p).
Proof.
  induction k as [|k IH]; intro p; simpl; [apply Permutation_refl|].
  eapply Permutation_trans; [apply rot1_perm | apply IH].
Qed.

Lemma rotn_add : forall a b p, rotn (a + b) p = rotn b (rotn a p).
Proof. induction a as [|a IH]; intros b p; simpl; [reflexivity | apply IH]. Qed.

Lemma rotn_app : forall l1 l2, rotn (length l1) (l1 ++ l2) = l2 ++ l1.
Proof.
  induction l1 as [|x l1 IH]; intro l2; simpl; [rewrite app_nil_r; reflexivity|].
  rewrite <- app_assoc, IH, <- app_assoc. reflexivity.
Qed.

Lemma rotn_full : forall p, rotn (length p) p = p.
Proof. intro p. rewrite <- (app_nil_r p) at 2. rewrite rotn_app. reflexivity. Qed.

Lemma rotn_hd : forall k p, k < length p -> hd 0 (rotn k p) = nth k p 0.
Proof.
  induction k as [|k IH]; intros p Hk.
  - destruct p; reflexivity.
  - destruct p as [|x l]; [simpl in Hk; lia|]. simpl rotn. rewrite IH by (rewrite app_length; simpl in *; lia).
    simpl in Hk. simpl nth. apply app_nth1. lia.
Qed.

(* every rotation, by any amount, is among the first L *)
Lemma rotn_in_rots : forall k p, p <> [] -> In (rotn k p) (rots p).
Proof.
  intros k p Hne. induction k as [k IH] using lt_wf_ind.
  destruct (lt_dec k (length p)) as [Hlt | Hge].
  - unfold rots. apply in_map_iff. exists k. split; [reflexivity | apply in_seq; lia].
  - replace k with (length p + (k - length p)) by lia. rewrite rotn_add, rotn_full.
    apply IH. destruct p; [contradiction | simpl in *; lia].
Qed.

Lemma rots_in : forall p q, In q (rots p) -> exists k, k < length p /\ q = rotn k p.
Proof.
  intros p q H. unfold rots in H. apply in_map_iff in H. destruct H as [k [<- Hk]].
  apply in_seq in Hk. exists k. split; [lia | reflexivity].
Qed.

Lemma rev_rot1 : forall p, rev (rot1 p) = rotn (length p - 1) (rev p).
Proof.
  destruct p as [|x l]; [reflexivity|]. simpl rot1. rewrite rev_app_distr. simpl rev.
  replace (length (x :: l) - 1) with (length (rev l)) by (rewrite rev_length; simpl; lia).
  rewrite rotn_app. reflexivity.
Qed.

Lemma rev_rotn : forall k p, exists k', rev (rotn k p) = rotn k' (rev p).
Proof.
  induction k as [|k IH]; intro p; [exists 0; reflexivity|].
  simpl rotn. destruct (IH (rot1 p)) as [k' Hk']. rewrite Hk', rev_rot1, <- rotn_add.
  eexists. reflexivity.
Qed.

Lemma dihedral_length : forall p, length (dihedral p) = 2 * length p.
Proof. intro p. unfold dihedral, rots. rewrite app_length, !map_length, !seq_length, rev_length. lia. Qed.

Lemma dihedral_self : forall p, p <> [] -> In p (dihedral p).
Proof. intros p H. unfold dihedral. apply in_app_iff. left. apply (rotn_in_rots 0 p H). Qed.

Lemma dihedral_rotn : forall p q k, p <> [] -> In q (dihedral p) -> In (rotn k q) (dihedral p).
Proof.
  intros p q k Hne H. unfold dihedral in *. apply in_app_iff in H. apply in_app_iff.
  destruct H as [H | H]; [left | right]; apply rots_in in H; destruct H as [j [_ ->]];
    rewrite <- rotn_add; apply rotn_in_rots; [exact Hne|].
  intro E. apply Hne. apply (f_equal (@rev nat)) in E. rewrite rev_involutive in E. exact E.
Qed.

Lemma dihedral_rev : forall p q, p <> [] -> In q (dihedral p) -> In (rev q) (dihedral p).
Proof.
  intros p q Hne H. unfold dihedral in *. apply in_app_iff in H. apply in_app_iff.
  assert (Hne' : rev p <> []).
  { intro E. apply Hne. apply (f_equal (@rev nat)) in E. rewrite rev_involutive in E. exact E. }
  destruct H as [H | H]; apply rots_in in H; destruct H as [j [_ ->]]; destruct (rev_rotn j) with (p := p) as [k' Hk'].
  - right. rewrite Hk'. apply rotn_in_rots. exact Hne'.
  - left. destruct (rev_rotn j (rev p)) as [k'' Hk'']. rewrite Hk'', rev_involutive. apply rotn_in_rots. exact Hne.
Qed.

Lemma dihedral_all : forall p q, In q (dihedral p) -> Permutation p q.
Proof.
  intros p q H. unfold dihedral in H. apply in_app_iff in H.
  destruct H as [H | H]; apply rots_in in H; destruct H as [j [_ ->]].
  - apply rotn_perm.
  - eapply Permutation_trans; [apply Permutation_rev | apply rotn_perm].
Qed.

(* ------------------------------------------------------------------ cyclic adjacency *)

Definition cadj (p : list nat) (a b : nat) : Prop :=
  (exists l1 l2, p = l1 ++ a :: b :: l2) \/ (exists m, p = b :: m ++ [a]).
Definition uadj (p : list nat) (a b : nat) : Prop := cadj p a b \/ cadj p b a.
Definition same_cycle (p q : list nat) : Prop := forall a b, uadj p a b <-> uadj q a b.

Lemma cadj_rot1 : forall x l a b, cadj (x :: l) a b <-> cadj (l ++ [x]) a b.
Proof.
  intros x l a b. split.
  - intros [[l1 [l2 E]] | [m E]].
    + destruct l1 as [|y l1]; simpl in E; injection E as -> ->.
      * right. exists l2. reflexivity.
      * left. exists l1, (l2 ++ [y]). rewrite <- app_assoc. reflexivity.
    + injection E as -> ->. left. exists m, []. rewrite <- app_assoc. reflexivity.
  - intros [[l1 [l2 E]] | [m E]].
    + destruct (list_eq_dec Nat.eq_dec l2 []) as [-> | Hne].
      * replace (l1 ++ [a; b]) with ((l1 ++ [a]) ++ [b]) in E by (rewrite <- app_assoc; reflexivity).
        apply app_inj_tail in E. destruct E as [-> ->]. right. exists l1. reflexivity.
      * destruct (exists_last Hne) as [l2' [z ->]].
        replace (l1 ++ a :: b :: l2' ++ [z]) with ((l1 ++ a :: b :: l2') ++ [z]) in E
          by (rewrite <- app_assoc; reflexivity).
        apply app_inj_tail in E. destruct E as [-> ->]. left. exists (z :: l1), l2'. reflexivity.
    + change (b :: m ++ [a]) with ((b :: m) ++ [a]) in E. apply app_inj_tail in E. destruct E as [-> ->].
      left. exists [], m. reflexivity.
Qed.

Lemma cadj_rotn : forall k p a b, cadj (rotn k p) a b <-> cadj p a b.
Proof.
  induction k as [|k IH]; intros p a b; simpl; [tauto|]. rewrite IH.
  destruct p as [|x l]; [tauto|]. simpl. symmetry. apply cadj_rot1.
Qed.

Lemma cadj_rev1 : forall p a b, cadj p a b -> cadj (rev p) b a.
Proof.
  intros p a b [[l1 [l2 ->]] | [m ->]].
  - left. exists (rev l2), (rev l1). rewrite rev_app_distr. simpl. rewrite <- !app_assoc. reflexivity.
  - right. exists (rev m). simpl. rewrite rev_app_distr. reflexivity.
Qed.

Lemma cadj_rev : forall p a b, cadj (rev p) a b <-> cadj p b a.
Proof.
  intros p a b. split; intro H; [|apply cadj_rev1; exact H].
  apply cadj_rev1 in H. rewrite rev_involutive in H. exact H.
Qed.

Lemma uadj_sym : forall p a b, uadj p a b <-> uadj p b a.
Proof. intros. unfold uadj. tauto. Qed.

Lemma same_cycle_refl : forall p, same_cycle p p.
Proof. intros p a b. tauto. Qed.
Lemma same_cycle_sym : forall p q, same_cycle p q -> same_cycle q p.
Proof. intros p q H a b. symmetry. apply H. Qed.
Lemma same_cycle_trans : forall p q r, same_cycle p q -> same_cycle q r -> same_cycle p r.
Proof. intros p q r H1 H2 a b. rewrite (H1 a b). apply H2. Qed.

Lemma same_cycle_rotn : forall k p, same_cycle p (rotn k p).
Proof. intros k p a b. unfold uadj. rewrite !cadj_rotn. tauto. Qed.

Lemma same_cycle_rev : forall p, same_cycle p (rev p).
Proof. intros p a b. unfold uadj. rewrite !cadj_rev. tauto. Qed.

Lemma dihedral_same : forall p q, In q (dihedral p) -> same_cycle p q.
Proof.
  intros p q H. unfold dihedral in H. apply in_app_iff in H.
  destruct H as [H | H]; apply rots_in in H; destruct H as [j [_ ->]].
  - apply same_cycle_rotn.
  - eapply same_cycle_trans; [apply same_cycle_rev | apply same_cycle_rotn].
Qed.

(* ------------------------------------------------------------------ duplicate-free lists *)

Lemma nodup_split_unique : forall (l1 l2 r1 r2 : list nat) x,
  NoDup (l1 ++ x :: r1) -> l1 ++ x :: r1 = l2 ++ x :: r2 -> l1 = l2 /\ r1 = r2.
Proof.
  induction l1 as [|a l1 IH]; intros l2 r1 r2 x Hnd E.
  - destruct l2 as [|b l2]; simpl in E.
    + injection E as ->. split; reflexivity.
    + injection E as -> ->. exfalso. inversion Hnd as [|? ? Hn _]; subst. apply Hn.
      apply in_app_iff. right. left. reflexivity.
  - destruct l2 as [|b l2]; simpl in E.
    + injection E as -> E'. exfalso. inversion Hnd as [|? ? Hn _]; subst. apply Hn.
      apply in_app_iff. right. left. reflexivity.
    + injection E as -> E. inversion Hnd; subst. destruct (IH l2 r1 r2 x) as [-> ->]; try assumption.
      split; reflexivity.
Qed.

(* in a duplicate-free list the successor of an element that has one is unique, and it is not
   the last element *)
Lemma cadj_inner_succ : forall s x y t b, NoDup (s ++ x :: y :: t) -> cadj (s ++ x :: y :: t) x b -> b = y.
Proof.
  intros s x y t b Hnd [[l1 [l2 E]] | [m E]].
  - destruct (nodup_split_unique s l1 (y :: t) (b :: l2) x Hnd E) as [_ E']. injection E' as -> _. reflexivity.
  - exfalso.
    replace (b :: m ++ [x]) with ((b :: m) ++ x :: []) in E by reflexivity.
    destruct (nodup_split_unique s (b :: m) (y :: t) [] x Hnd E) as [_ E']. discriminate.
Qed.

Lemma cadj_inner_pred : forall s z x t a, NoDup ((s ++ [z]) ++ x :: t) -> cadj ((s ++ [z]) ++ x :: t) a x -> a = z.
Proof.
  intros s z x t a Hnd [[l1 [l2 E]] | [m E]].
  - replace (l1 ++ a :: x :: l2) with ((l1 ++ [a]) ++ x :: l2) in E by (rewrite <- app_assoc; reflexivity).
    destruct (nodup_split_unique (s ++ [z]) (l1 ++ [a]) t l2 x Hnd E) as [E' _].
    apply app_inj_tail in E'. destruct E' as [_ ->]. reflexivity.
  - exfalso. change (x :: m ++ [a]) with ([] ++ x :: m ++ [a]) in E.
    destruct (nodup_split_unique (s ++ [z]) [] t (m ++ [a]) x Hnd E) as [E' _].
    destruct s; discriminate.
Qed.

(* with at least three vertices an oriented cyclic edge is never met in both directions *)
Lemma cadj_antisym : forall u a b, NoDup u -> 3 <= length u -> cadj u a b -> cadj u b a -> False.
Proof.
  intros u a b Hnd HL [[l1 [l2 E1]] | [m E1]] [[l1' [l2' E2]] | [m' E2]]; subst u.
  - (* a b inside, b a inside *)
    replace (l1' ++ b :: a :: l2') with ((l1' ++ [b]) ++ a :: l2') in E2 by (rewrite <- app_assoc; reflexivity).
    destruct (nodup_split_unique l1 (l1' ++ [b]) (b :: l2) l2' a Hnd E2) as [-> _].
    rewrite <- app_assoc in Hnd. apply NoDup_remove_2 in Hnd. apply Hnd.
    apply in_app_iff. right. right. left. reflexivity.
  - (* a b inside; closing: head a, last b *)
    destruct l1 as [|c l1]; simpl in E2.
    + injection E2 as E2. destruct (list_eq_dec Nat.eq_dec l2 []) as [-> | Hne].
      * simpl in HL. lia.
      * destruct (exists_last Hne) as [l2' [z ->]].
        replace (b :: l2' ++ [z]) with ((b :: l2') ++ [z]) in E2 by reflexivity.
        apply app_inj_tail in E2. destruct E2 as [_ ->].
        inversion Hnd as [|? ? _ Hnd']; subst. inversion Hnd' as [|? ? Hn _]; subst. apply Hn.
        apply in_app_iff. right. left. reflexivity.
    + injection E2 as -> E2. inversion Hnd as [|? ? Hn _]; subst. apply Hn.
      apply in_app_iff. right. left. reflexivity.
  - (* closing: head b, last a; b a inside *)
    destruct l1' as [|c l1']; simpl in E2.
    + injection E2 as E2. destruct (list_eq_dec Nat.eq_dec l2' []) as [-> | Hne].
      * apply (f_equal (@length nat)) in E2. rewrite app_length in E2. simpl in E2, HL.
        rewrite app_length in HL. simpl in HL. lia.
      * destruct (exists_last Hne) as [l2'' [z ->]].
        replace (a :: l2'' ++ [z]) with ((a :: l2'') ++ [z]) in E2 by reflexivity.
        apply app_inj_tail in E2. destruct E2 as [-> <-].
        inversion Hnd as [|? ? _ Hnd']; subst. simpl in Hnd'.
        inversion Hnd' as [|? ? Hn _]; subst. apply Hn. apply in_app_iff. right. left. reflexivity.
    + injection E2 as -> E2. rewrite E2 in Hnd. inversion Hnd as [|? ? Hn _]; subst. apply Hn.
      apply in_app_iff. right. left. reflexivity.
  - (* both closing: a = b *)
    injection E2 as -> E2. inversion Hnd as [|? ? Hn _]; subst. apply Hn.
    apply in_app_iff. right. left. reflexivity.
Qed.

(* ------------------------------------------------------------------ the members of dihedral p are distinct *)


Lemma cadj_in : forall p a b, cadj p a b -> In a p /\ In b p.
Proof.
  intros p a b [[l1 [l2 ->]] | [m ->]].
  - split; apply in_app_iff; right; [left | right; left]; reflexivity.
  - split; [right; apply in_app_iff; right; left; reflexivity | left; reflexivity].
Qed.

(* the predecessor of the head is the last element *)
Lemma cadj_head : forall v r w, NoDup (v :: r) -> cadj (v :: r) w v -> r <> [] /\ w = last r 0.
Proof.
  intros v r w Hnd [[l1 [l2 E]] | [m E]].
  - exfalso. inversion Hnd as [|? ? Hn _]; subst. apply Hn. destruct l1 as [|c l1]; simpl in E.
    + injection E as _ ->. left. reflexivity.
    + injection E as _ ->. apply in_app_iff. right. right. left. reflexivity.
  - injection E as ->. split; [destruct m; discriminate | rewrite last_snoc; reflexivity].
Qed.

(* ------------------------------------------------------------------ the members of dihedral p are distinct *)

Lemma nodup_app : forall (A : Type) (l1 l2 : list A), NoDup l1 -> NoDup l2 ->
  (forall x, In x l1 -> In x l2 -> False) -> NoDup (l1 ++ l2).
Proof.
  intros A. induction l1 as [|c l1 IH]; intros l2 H1 H2 Hd; simpl; [exact H2|].
  inversion H1; subst. constructor.
  - intro Hin. apply in_app_iff in Hin. destruct Hin as [Hin | Hin]; [contradiction|].
    apply (Hd c); [left; reflexivity | exact Hin].
  - apply IH; try assumption. intros b Hb1 Hb2. apply (Hd b); [right; exact Hb1 | exact Hb2].
Qed.

Lemma rots_NoDup : forall p, NoDup p -> NoDup (rots p).
Proof.
  intros p Hnd. unfold rots. apply NoDup_map_inj_in; [|apply seq_NoDup].
  intros a b Ha Hb E. apply in_seq in Ha, Hb.
  apply (proj1 (NoDup_nth p 0) Hnd); [lia | lia|].
  rewrite <- !rotn_hd by lia. rewrite E. reflexivity.
Qed.

Lemma dihedral_NoDup : forall p, NoDup p -> 3 <= length p -> NoDup (dihedral p).
Proof.
  intros p Hnd HL. unfold dihedral. apply nodup_app.
  - apply rots_NoDup. exact Hnd.
  - apply rots_NoDup. apply (Permutation_NoDup (Permutation_rev p)). exact Hnd.
  - intros q H1 H2. apply rots_in in H1, H2. destruct H1 as [j [_ E1]]. destruct H2 as [k [_ E2]].
    destruct p as [|a [|b t]]; try (simpl in HL; lia).
    assert (Hab : cadj (a :: b :: t) a b) by (left; exists [], t; reflexivity).
    assert (Hq1 : cadj q a b) by (rewrite E1; apply cadj_rotn; exact Hab).
    assert (Hq2 : cadj q b a) by (rewrite E2; apply cadj_rotn; apply cadj_rev; exact Hab).
    apply (cadj_antisym q a b); try assumption.
    + rewrite E1. apply (Permutation_NoDup (rotn_perm j _)). exact Hnd.
    + rewrite E1, rotn_length. exact HL.
Qed.

(* ------------------------------------------------------------------ same edges => rotation or reflection *)

(* two duplicate-free sequences with the same cyclic edges that agree up to a vertex x that has a
   predecessor agree to the end *)
Lemma same_cycle_ext : forall t t' s z x,
  NoDup ((s ++ [z]) ++ x :: t) -> NoDup ((s ++ [z]) ++ x :: t') -> length t = length t' ->
  same_cycle ((s ++ [z]) ++ x :: t) ((s ++ [z]) ++ x :: t') -> t = t'.
Proof.
  induction t as [|y t IH]; intros t' s z x H1 H2 Hl Hs.
  - destruct t'; [reflexivity | discriminate].
  - destruct t' as [|y' t']; [discriminate|].
    assert (Ey : y = y').
    { assert (Hu : uadj ((s ++ [z]) ++ x :: y' :: t') x y).
      { apply Hs. left. left. exists (s ++ [z]), t. reflexivity. }
      destruct Hu as [Hc | Hc].
      - apply (cadj_inner_succ (s ++ [z]) x y' t' y H2 Hc).
      - apply (cadj_inner_pred s z x (y' :: t') y H2) in Hc. subst y. exfalso.
        rewrite <- app_assoc in H1. simpl in H1. apply NoDup_remove_2 in H1. apply H1.
        apply in_app_iff. right. right. left. reflexivity. }
    subst y'. f_equal.
    apply (IH t' (s ++ [z]) x y).
    + rewrite <- (app_assoc (s ++ [z]) [x] (y :: t)). exact H1.
    + rewrite <- (app_assoc (s ++ [z]) [x] (y :: t')). exact H2.
    + simpl in Hl. lia.
    + rewrite <- (app_assoc (s ++ [z]) [x] (y :: t)), <- (app_assoc (s ++ [z]) [x] (y :: t')). exact Hs.
Qed.

Theorem same_cycle_in_dihedral : forall p q, NoDup p -> NoDup q -> length p = length q ->
  3 <= length p -> same_cycle p q -> In q (dihedral p).
Proof.
  intros p q Hp Hq Hlen HL Hs.
  assert (Hpne : p <> []) by (destruct p; [simpl in HL; lia | discriminate]).
  destruct q as [|v [|w q']]; try (simpl in Hlen; lia).
  assert (Hvw : uadj (v :: w :: q') v w) by (left; left; exists [], q'; reflexivity).
  pose proof (proj2 (Hs v w) Hvw) as Hpvw.
  assert (Hvp : In v p) by (destruct Hpvw as [H | H]; apply cadj_in in H; tauto).
  destruct (In_nth p v 0 Hvp) as [k [Hk Ek]].
  set (p1 := rotn k p).
  assert (Hp1d : In p1 (dihedral p)) by (apply dihedral_rotn; [exact Hpne | apply dihedral_self; exact Hpne]).
  assert (Hp1n : NoDup p1) by (apply (Permutation_NoDup (rotn_perm k p)); exact Hp).
  assert (Hp1l : length p1 = length p) by apply rotn_length.
  assert (Hp1h : hd 0 p1 = v) by (unfold p1; rewrite rotn_hd by exact Hk; exact Ek).
  assert (Hp1s : same_cycle p1 (v :: w :: q')).
  { eapply same_cycle_trans; [apply same_cycle_sym; apply dihedral_same; exact Hp1d | exact Hs]. }
  destruct p1 as [|v' r] eqn:Ep1; [simpl in Hp1l; lia|]. simpl in Hp1h. subst v'.
  pose proof (proj2 (Hp1s v w) Hvw) as Hu.
  (* conclude from a member P = v :: w :: _ of dihedral p *)
  assert (Hfin : forall P', In (v :: w :: P') (dihedral p) -> In (v :: w :: q') (dihedral p)).
  { intros P' HP.
    assert (HPn : NoDup (v :: w :: P')) by (apply (Permutation_NoDup (dihedral_all p _ HP)); exact Hp).
    assert (HPl : length (v :: w :: P') = length p) by (symmetry; apply Permutation_length; apply dihedral_all; exact HP).
    assert (E : P' = q').
    { apply (same_cycle_ext P' q' [] v w); [exact HPn | exact Hq | simpl in HPl, Hlen; lia|].
      eapply same_cycle_trans; [apply same_cycle_sym; apply dihedral_same; exact HP | exact Hs]. }
    rewrite <- E. exact HP. }
  destruct r as [|a m1]; [simpl in Hp1l; lia|].
  destruct Hu as [Hc | Hc].
  - (* w follows v in p1 *)
    pose proof (cadj_inner_succ [] v a m1 w Hp1n Hc) as ->. apply (Hfin m1). exact Hp1d.
  - (* w precedes v in p1: w is its last vertex; take the reversal, rotated to start at v *)
    destruct (cadj_head v (a :: m1) w Hp1n Hc) as [_ Ew].
    destruct (exists_last (l := a :: m1) ltac:(discriminate)) as [r0 [w' Er]].
    assert (w' = w) by (rewrite Ew, Er, last_snoc; reflexivity). subst w'.
    assert (HP : In (rotn (length (rev (a :: m1))) (rev (v :: a :: m1))) (dihedral p)).
    { apply dihedral_rotn; [exact Hpne|]. apply dihedral_rev; [exact Hpne | exact Hp1d]. }
    change (rev (v :: a :: m1)) with (rev (a :: m1) ++ [v]) in HP. rewrite rotn_app in HP.
    rewrite Er, rev_app_distr in HP. simpl in HP. apply (Hfin (rev r0)). exact HP.
Qed.

(* ------------------------------------------------------------------ counting classes *)

Lemma class_count : forall (A : Type) (E : A -> A -> bool) (k : nat) (n : nat) (X : list A),
  length X <= n -> NoDup X ->
  (forall p, In p X -> E p p = true) ->
  (forall p q, In p X -> In q X -> E p q = true -> E q p = true) ->
  (forall p q r, In p X -> In q X -> In r X -> E p q = true -> E q r = true -> E p r = true) ->
  (forall p, In p X -> length (filter (E p) X) = k) ->
  exists reps, incl reps X /\ NoDup reps /\
    (forall p q, In p reps -> In q reps -> E p q = true -> p = q) /\
    (forall p, In p X -> exists r, In r reps /\ E r p = true) /\
    length X = k * length reps.
Proof.
  intros A E k. induction n as [|n IH]; intros X Hn Hnd Hr Hsy Htr Hk.
  - destruct X; [|simpl in Hn; lia]. exists []. split; [intros x []|]. split; [constructor|].
    split; [intros p q []|]. split; [intros p []|]. simpl. lia.
  - destruct X as [|p X'].
    { exists []. split; [intros x []|]. split; [constructor|].
      split; [intros p q []|]. split; [intros p []|]. simpl. lia. }
    set (X := p :: X') in *.
    set (rest := filter (fun q => negb (E p q)) X).
    assert (HpX : In p X) by (left; reflexivity).
    assert (Hrest_in : forall q, In q rest <-> In q X /\ E p q = false).
    { intro q. unfold rest. rewrite filter_In, negb_true_iff. tauto. }
    assert (Hsplit : length X = length (filter (E p) X) + length rest).
    { unfold rest. clear. induction X as [|a l IHl]; [reflexivity|]. simpl.
      destruct (E p a); simpl; lia. }
    assert (Hprest : ~ In p rest) by (intro H; apply Hrest_in in H; rewrite (Hr p HpX) in H; destruct H; discriminate).
    assert (Hlt : length rest <= n).
    { assert (length (filter (E p) X) >= 1).
      { assert (In p (filter (E p) X)) by (apply filter_In; split; [exact HpX | apply Hr; exact HpX]).
        destruct (filter (E p) X); [contradiction | simpl; lia]. }
      lia. }
    destruct (IH rest Hlt) as [reps [Hincl [Hrnd [Hpair [Hcover Hlen]]]]].
    + apply NoDup_filter. exact Hnd.
    + intros q Hq. apply Hr. apply Hrest_in in Hq. tauto.
    + intros q r Hq Hr'. apply Hsy; [apply Hrest_in in Hq | apply Hrest_in in Hr']; tauto.
    + intros q r u Hq Hr' Hu. apply Htr; [apply Hrest_in in Hq | apply Hrest_in in Hr' | apply Hrest_in in Hu]; tauto.
    + intros q Hq. apply Hrest_in in Hq. destruct Hq as [HqX Hpq]. rewrite <- (Hk q HqX).
      unfold rest. rewrite filter_filter. f_equal. apply filter_ext_in. intros u Hu.
      destruct (E q u) eqn:Equ; [|apply andb_false_r]. rewrite andb_true_r.
      destruct (E p u) eqn:Epu; [|reflexivity]. exfalso.
      assert (E p q = true) by (apply (Htr p u q); try assumption; apply Hsy; assumption). congruence.
    + exists (p :: reps). split; [|split; [|split; [|split]]].
      * intros x [<- | Hx]; [exact HpX | apply (proj1 (Hrest_in x)); apply Hincl; exact Hx].
      * constructor; [intro H; apply Hprest; apply Hincl; exact H | exact Hrnd].
      * intros a b Ha Hb Hab. destruct Ha as [Ea | Ha]; destruct Hb as [Eb | Hb].
        -- congruence.
        -- subst a. exfalso. apply Hincl, Hrest_in in Hb. destruct Hb as [_ Hb]. congruence.
        -- subst b. exfalso. apply Hincl, Hrest_in in Ha. destruct Ha as [HaX Ha].
           assert (E p a = true) by (apply Hsy; assumption). congruence.
        -- apply Hpair; assumption.
      * intros q Hq. destruct (E p q) eqn:Epq.
        -- exists p. split; [left; reflexivity | exact Epq].
        -- destruct (Hcover q) as [r [Hr1 Hr2]]; [apply Hrest_in; split; assumption|].
           exists r. split; [right; exact Hr1 | exact Hr2].
      * rewrite Hsplit, (Hk p HpX), Hlen. simpl length. lia.
Qed.

(* ------------------------------------------------------------------ the orbit count *)

Definition inb (q : list nat) (X : list (list nat)) : bool :=
  existsb (fun r => if list_eq_dec Nat.eq_dec q r then true else false) X.

Lemma inb_In : forall q X, inb q X = true <-> In q X.
Proof.
  intros q X. unfold inb. rewrite existsb_exists. split.
  - intros [r [Hr E]]. destruct (list_eq_dec Nat.eq_dec q r); [subst; exact Hr | discriminate].
  - intro H. exists q. split; [exact H|]. destruct (list_eq_dec Nat.eq_dec q q); [reflexivity | contradiction].
Qed.

Theorem orbit_count : forall (X : list (list nat)) L, 3 <= L -> NoDup X ->
  (forall p, In p X -> NoDup p /\ length p = L) ->
  (forall p q, In p X -> In q (dihedral p) -> In q X) ->
  exists reps, incl reps X /\ NoDup reps /\
    (forall p q, In p reps -> In q reps -> same_cycle p q -> p = q) /\
    (forall p, In p X -> exists r, In r reps /\ same_cycle r p) /\
    length X = 2 * L * length reps.
Proof.
  intros X L HL Hnd Hall Hcl.
  set (E := fun p q => inb q (dihedral p)).
  assert (HE : forall p q, In p X -> In q X -> (E p q = true <-> same_cycle p q)).
  { intros p q Hp Hq. unfold E. rewrite inb_In. destruct (Hall p Hp) as [Hp1 Hp2]. destruct (Hall q Hq) as [Hq1 Hq2].
    split; [apply dihedral_same|]. intro Hs. apply same_cycle_in_dihedral; try assumption; lia. }
  destruct (class_count (list nat) E (2 * L) (length X) X (le_n _) Hnd) as [reps [Hincl [Hrnd [Hpair [Hcover Hlen]]]]].
  - intros p Hp. apply (HE p p Hp Hp). apply same_cycle_refl.
  - intros p q Hp Hq H. apply (HE q p Hq Hp). apply same_cycle_sym. apply (HE p q Hp Hq). exact H.
  - intros p q r Hp Hq Hr H1 H2. apply (HE p r Hp Hr).
    eapply same_cycle_trans; [apply (HE p q Hp Hq); exact H1 | apply (HE q r Hq Hr); exact H2].
  - intros p Hp. destruct (Hall p Hp) as [Hp1 Hp2].
    rewrite <- Hp2, <- dihedral_length. apply Permutation_length. apply NoDup_Permutation.
    + apply NoDup_filter. exact Hnd.
    + apply dihedral_NoDup; [exact Hp1 | lia].
    + intro q. rewrite filter_In. unfold E. rewrite inb_In. split; [tauto|].
      intro Hq. split; [apply (Hcl p q Hp Hq) | exact Hq].
  - exists reps. split; [exact Hincl|]. split; [exact Hrnd|]. split; [|split].
    + intros p q Hp Hq Hs. apply Hpair; try assumption. apply (HE p q (Hincl p Hp) (Hincl q Hq)). exact Hs.
    + intros p Hp. destruct (Hcover p Hp) as [r [Hr1 Hr2]]. exists r. split; [exact Hr1|].
      apply (HE r p (Hincl r Hr1) Hp). exact Hr2.
    + exact Hlen.
Qed.

(* ------------------------------------------------------------------ cycle sequences *)

Lemma cycle_seq_rotn : forall g k p, wf g -> is_cycle_seq g p -> is_cycle_seq g (rotn k p).
Proof.
  intros g. induction k as [|k IH]; intros p Hwf H; [exact H|]. simpl. apply IH; [exact Hwf|].
  destruct p as [|x l]; [exact H|]. simpl. apply cycle_seq_rot1; assumption.
Qed.

Lemma cycle_seq_dihedral : forall g p q, wf g -> is_cycle_seq g p -> In q (dihedral p) -> is_cycle_seq g q.
Proof.
  intros g p q Hwf Hp H. unfold dihedral in H. apply in_app_iff in H.
  destruct H as [H | H]; apply rots_in in H; destruct H as [j [_ ->]]; apply cycle_seq_rotn; try assumption.
  apply cycle_seq_rev; assumption.
Qed.

(* the cycles with L vertices as subgraphs: one representative sequence per edge set *)
Theorem cycle_orbits : forall g L, wf g ->
  exists reps, NoDup reps /\
    (forall r, In r reps -> is_cycle_seq g r /\ length r = L) /\
    (forall r r', In r reps -> In r' reps -> same_cycle r r' -> r = r') /\
    (forall p, is_cycle_seq g p -> length p = L -> exists r, In r reps /\ same_cycle r p) /\
    length (cycle_seqs g L) = 2 * L * length reps.
Proof.
  intros g L Hwf. destruct (le_lt_dec 3 L) as [HL | HL].
  - destruct (orbit_count (cycle_seqs g L) L HL (cycle_seqs_NoDup g L)) as [reps [Hincl [Hnd [Hpair [Hcover Hlen]]]]].
    + intros p Hp. apply (cycle_seqs_spec g L p Hwf) in Hp. destruct Hp as [[[_ [Hn _]] _] Hl]. tauto.
    + intros p q Hp Hq. apply (cycle_seqs_spec g L p Hwf) in Hp. destruct Hp as [Hp Hl].
      apply (cycle_seqs_spec g L q Hwf). split; [eapply cycle_seq_dihedral; eassumption|].
      rewrite <- Hl. symmetry. apply Permutation_length. apply dihedral_all. exact Hq.
    + exists reps. split; [exact Hnd|]. split; [|split; [exact Hpair|split; [|exact Hlen]]].
      * intros r Hr. apply (cycle_seqs_spec g L r Hwf). apply Hincl. exact Hr.
      * intros p Hp Hl. apply Hcover. apply (cycle_seqs_spec g L p Hwf). tauto.
  - exists []. split; [constructor|]. split; [intros r []|]. split; [intros r r' []|]. split.
    + intros p [_ [H3 _]] Hl. lia.
    + unfold cycle_seqs. assert (E : (L <? 3) = true) by (apply Nat.ltb_lt; exact HL). rewrite E. simpl. lia.
Qed.

(* ------------------------------------------------------------------ induced cycle sequences *)

Lemma nth_split2 : forall (p : list nat) i, S i < length p ->
  p = firstn i p ++ nth i p 0 :: nth (S i) p 0 :: skipn (S (S i)) p.
Proof.
  induction p as [|x p IH]; intros i Hi; [simpl in Hi; lia|].
  destruct i as [|i].
  - destruct p as [|y p]; [simpl in Hi; lia | reflexivity].
  - simpl in Hi. cbn [firstn nth skipn app]. f_equal. apply IH. lia.
Qed.

Lemma pos_split : forall (l1 : list nat) a r, nth (length l1) (l1 ++ a :: r) 0 = a.
Proof. intros. rewrite app_nth2 by lia. rewrite Nat.sub_diag. reflexivity. Qed.

Lemma pos_unique : forall (p l1 r : list nat) a i, NoDup p -> i < length p -> nth i p 0 = a ->
  p = l1 ++ a :: r -> i = length l1.
Proof.
  intros p l1 r a i Hnd Hi Hn E. apply (proj1 (NoDup_nth p 0) Hnd); [exact Hi | |].
  - rewrite E, app_length. simpl. lia.
  - rewrite Hn. rewrite E at 1. symmetry. apply pos_split.
Qed.

(* the chord condition of an induced cycle: every adjacent pair of its vertices is a cyclic edge *)
Lemma induced_iff_uadj : forall g p, wf g -> is_cycle_seq g p ->
  ((forall i j, i < j -> j < length p -> j <> S i -> ~ (i = 0 /\ j = length p - 1) ->
      gadj g (nth i p 0) (nth j p 0) = false) <->
   (forall a b, In a p -> In b p -> gadj g a b = true -> uadj p a b)).
Proof.
  intros g p Hwf Hc. pose proof Hwf as [_ [Hs Hl]].
  destruct Hc as [[_ [Hnd _]] [H3 _]]. split.
  - intro Hch.
    assert (H : forall i j, i < j -> j < length p -> gadj g (nth i p 0) (nth j p 0) = true ->
                uadj p (nth i p 0) (nth j p 0)).
    { intros i j Hij Hj Ha. destruct (Nat.eq_dec j (S i)) as [-> | Hne].
      - left. left. exists (firstn i p), (skipn (S (S i)) p). apply nth_split2. exact Hj.
      - destruct (Nat.eq_dec i 0) as [-> | Hi0].
        + destruct (Nat.eq_dec j (length p - 1)) as [-> | Hjl].
          * right. right. destruct p as [|x r]; [simpl in H3; lia|].
            destruct (exists_last (l := r) ltac:(destruct r; [simpl in H3; lia | discriminate])) as [m [z Er]].
            exists m. simpl nth at 1. rewrite Er. f_equal. f_equal. f_equal.
            replace (length (x :: m ++ [z]) - 1) with (length (x :: m)) by (simpl; rewrite app_length; simpl; lia).
            change (x :: m ++ [z]) with ((x :: m) ++ z :: []). symmetry. apply pos_split.
          * rewrite Hch in Ha; [discriminate | lia | exact Hj | exact Hne | lia].
        + rewrite Hch in Ha; [discriminate | lia | exact Hj | exact Hne | lia]. }
    intros a b Ha Hb Hab.
    destruct (In_nth p a 0 Ha) as [i [Hi Ei]]. destruct (In_nth p b 0 Hb) as [j [Hj Ej]].
    destruct (lt_eq_lt_dec i j) as [[Hlt | Heq] | Hgt].
    + rewrite <- Ei, <- Ej. apply H; try assumption. rewrite Ei, Ej. exact Hab.
    + exfalso. subst j. rewrite Ei in Ej. subst b. rewrite Hl in Hab. discriminate.
    + apply uadj_sym. rewrite <- Ei, <- Ej. apply H; try assumption. rewrite Ei, Ej, Hs. exact Hab.
  - intros Hu i j Hij Hj Hne Hnc.
    destruct (gadj g (nth i p 0) (nth j p 0)) eqn:Ea; [exfalso | reflexivity].
    assert (Hi : i < length p) by lia.
    specialize (Hu _ _ (nth_In p 0 Hi) (nth_In p 0 Hj) Ea).
    destruct Hu as [[[l1 [l2 E]] | [m E]] | [[l1 [l2 E]] | [m E]]].
    + pose proof (pos_unique p l1 (nth j p 0 :: l2) _ i Hnd Hi eq_refl E) as E1.
      replace (l1 ++ nth i p 0 :: nth j p 0 :: l2) with ((l1 ++ [nth i p 0]) ++ nth j p 0 :: l2) in E
        by (rewrite <- app_assoc; reflexivity).
      pose proof (pos_unique p _ l2 _ j Hnd Hj eq_refl E) as E2. rewrite app_length in E2. simpl in E2. lia.
    + change (nth j p 0 :: m ++ [nth i p 0]) with ([] ++ nth j p 0 :: m ++ [nth i p 0]) in E.
      pose proof (pos_unique p [] _ _ j Hnd Hj eq_refl E) as E2. simpl in E2. lia.
    + pose proof (pos_unique p l1 (nth i p 0 :: l2) _ j Hnd Hj eq_refl E) as E1.
      replace (l1 ++ nth j p 0 :: nth i p 0 :: l2) with ((l1 ++ [nth j p 0]) ++ nth i p 0 :: l2) in E
        by (rewrite <- app_assoc; reflexivity).
      pose proof (pos_unique p _ l2 _ i Hnd Hi eq_refl E) as E2. rewrite app_length in E2. simpl in E2. lia.
    + change (nth i p 0 :: m ++ [nth j p 0]) with ([] ++ nth i p 0 :: m ++ [nth j p 0]) in E.
      pose proof (pos_unique p [] _ _ i Hnd Hi eq_refl E) as E1. simpl in E1.
      change (nth i p 0 :: m ++ [nth j p 0]) with ((nth i p 0 :: m) ++ nth j p 0 :: []) in E.
      pose proof (pos_unique p _ [] _ j Hnd Hj eq_refl E) as E2.
      pose proof (f_equal (@length nat) E) as EL. simpl in EL. rewrite app_length in EL. simpl in EL, E2.
      apply Hnc. split; [exact E1 | lia].
Qed.

Lemma induced_cycle_dihedral : forall g p q, wf g -> is_induced_cycle_seq g p -> In q (dihedral p) ->
  is_induced_cycle_seq g q.
Proof.
  intros g p q Hwf [Hc Hch] Hq.
  assert (Hcq : is_cycle_seq g q) by (eapply cycle_seq_dihedral; eassumption).
  split; [exact Hcq|]. apply (induced_iff_uadj g q Hwf Hcq).
  pose proof (proj1 (induced_iff_uadj g p Hwf Hc) Hch) as Hu.
  pose proof (dihedral_all p q Hq) as Hperm.
  intros a b Ha Hb Hab. apply (dihedral_same p q Hq). apply Hu; try assumption.
  - apply (Permutation_in a (Permutation_sym Hperm) Ha).
  - apply (Permutation_in b (Permutation_sym Hperm) Hb).
Qed.

(* the induced cycles with L vertices as subgraphs: one representative sequence per edge set *)
Theorem induced_cycle_orbits : forall g L, wf g ->
  exists reps, NoDup reps /\
    (forall r, In r reps -> is_induced_cycle_seq g r /\ length r = L) /\
    (forall r r', In r reps -> In r' reps -> same_cycle r r' -> r = r') /\
    (forall p, is_induced_cycle_seq g p -> length p = L -> exists r, In r reps /\ same_cycle r p) /\
    length (induced_cycle_seqs g L) = 2 * L * length reps.
Proof.
  intros g L Hwf. destruct (le_lt_dec 3 L) as [HL | HL].
  - destruct (orbit_count (induced_cycle_seqs g L) L HL (induced_cycle_seqs_NoDup g L))
      as [reps [Hincl [Hnd [Hpair [Hcover Hlen]]]]].
    + intros p Hp. apply (induced_cycle_seqs_spec g L p Hwf) in Hp.
      destruct Hp as [[[[_ [Hn _]] _] _] Hl]. tauto.
    + intros p q Hp Hq. apply (induced_cycle_seqs_spec g L p Hwf) in Hp. destruct Hp as [Hp Hl].
      apply (induced_cycle_seqs_spec g L q Hwf). split; [eapply induced_cycle_dihedral; eassumption|].
      rewrite <- Hl. symmetry. apply Permutation_length. apply dihedral_all. exact Hq.
    + exists reps. split; [exact Hnd|]. split; [|split; [exact Hpair|split; [|exact Hlen]]].
      * intros r Hr. apply (induced_cycle_seqs_spec g L r Hwf). apply Hincl. exact Hr.
      * intros p Hp Hl. apply Hcover. apply (induced_cycle_seqs_spec g L p Hwf). tauto.
  - exists []. split; [constructor|]. split; [intros r []|]. split; [intros r r' []|]. split.
    + intros p [[_ [H3 _]] _] Hl. lia.
    + unfold induced_cycle_seqs. assert (E : (L <? 3) = true) by (apply Nat.ltb_lt; exact HL). rewrite E. simpl. lia.
Qed.

(* the entries of the reference count vectors are numbers of subgraphs *)
Lemma div_2L : forall L k, L <> 0 -> 2 * L * k / (2 * L) = k.
Proof. intros L k HL. rewrite Nat.mul_comm. apply Nat.div_mul. lia. Qed.

Lemma nth_map_seq' : forall (f : nat -> nat) n L, L < n -> nth L (map f (seq 0 n)) 0 = f L.
Proof.
  intros f n L H. rewrite (nth_indep (map f (seq 0 n)) 0 (f 0)) by (rewrite map_length, seq_length; exact H).
  rewrite map_nth, seq_nth by exact H. reflexivity.
Qed.

(* entry L of cycles_ref is the number of cycles with L vertices, as subgraphs *)
Theorem cycles_ref_counts : forall g L, wf g -> L <= gn g ->
  exists reps, NoDup reps /\
    (forall r, In r reps -> is_cycle_seq g r /\ length r = L) /\
    (forall r r', In r reps -> In r' reps -> same_cycle r r' -> r = r') /\
    (forall p, is_cycle_seq g p -> length p = L -> exists r, In r reps /\ same_cycle r p) /\
    nth L (cycles_ref g) 0 = length reps.
Proof.
  intros g L Hwf HL. destruct (cycle_orbits g L Hwf) as [reps [H1 [H2 [H3 [H4 H5]]]]].
  exists reps. split; [exact H1|]. split; [exact H2|]. split; [exact H3|]. split; [exact H4|].
  unfold cycles_ref. rewrite nth_map_seq' by lia. rewrite H5.
  destruct (Nat.eq_dec L 0) as [-> | Hne]; [|apply div_2L; exact Hne].
  destruct reps as [|r reps]; [reflexivity|]. exfalso.
  destruct (H2 r (or_introl eq_refl)) as [[_ [Hr _]] Hl]. lia.
Qed.

(* entry L of icycles_ref is the number of induced cycles with L vertices, as subgraphs *)
Theorem icycles_ref_counts : forall g L, wf g -> L <= gn g ->
  exists reps, NoDup reps /\
    (forall r, In r reps -> is_induced_cycle_seq g r /\ length r = L) /\
    (forall r r', In r reps -> In r' reps -> same_cycle r r' -> r = r') /\
    (forall p, is_induced_cycle_seq g p -> length p = L -> exists r, In r reps /\ same_cycle r p) /\
    nth L (icycles_ref g) 0 = length reps.
Proof.
  intros g L Hwf HL. destruct (induced_cycle_orbits g L Hwf) as [reps [H1 [H2 [H3 [H4 H5]]]]].
  exists reps. split; [exact H1|]. split; [exact H2|]. split; [exact H3|]. split; [exact H4|].
  unfold icycles_ref. rewrite nth_map_seq' by lia. rewrite H5.
  destruct (Nat.eq_dec L 0) as [-> | Hne]; [|apply div_2L; exact Hne].
  destruct reps as [|r reps]; [reflexivity|]. exfalso.
  destruct (H2 r (or_introl eq_refl)) as [[[_ [Hr _]] _] Hl]. lia.
Qed.
