(* ChromaticPolynomial, part 2: deletion-contraction for the number of proper k-colourings.
   For an edge ij of h:  #col(h - ij) = #col(h) + #col(h / ij), by splitting the colourings of
   h - ij on whether i and j get the same colour; those that do are in bijection with the
   colourings of h / ij (delete the entry of j). *)
From Coq Require Import List Arith Bool ZArith Lia Permutation.
From Mamba Require Import Invariants.Graph Invariants.ColourSpec Invariants.CliqueSpec Invariants.ColourRef
  Invariants.ColourRefProofs Invariants.ChromPolyModel Invariants.ChromPolyGraph.
Import ListNotations.
Open Scope nat_scope.

(* ------------------------------------------------------------------ deleting / inserting an entry *)

Definition rm (j : nat) (c : list Z) : list Z := firstn j c ++ skipn (S j) c.

Lemma rm_split (a : list Z) x b : rm (length a) (a ++ x :: b) = a ++ b.
Proof.
  unfold rm. rewrite firstn_app, Nat.sub_diag, firstn_all, skipn_app.
  rewrite skipn_all2 by lia. replace (S (length a) - length a) with 1 by lia.
  simpl. rewrite app_nil_r. reflexivity.
Qed.

Lemma app_eq_len {A} : forall (a1 a2 b1 b2 : list A), length a1 = length a2 -> a1 ++ b1 = a2 ++ b2 -> a1 = a2 /\ b1 = b2.
Proof.
  induction a1; destruct a2; simpl; intros b1 b2 Hl H; try discriminate; auto.
  inversion H; subst. destruct (IHa1 a2 b1 b2) as [-> ->]; auto.
Qed.

Lemma split_at (c : list Z) j : j < length c -> exists a x b, c = a ++ x :: b /\ length a = j.
Proof.
  intros H. destruct (nth_error c j) as [x|] eqn:E; [|apply nth_error_None in E; lia].
  apply nth_error_split in E. destruct E as (a & b & -> & Hl). eauto.
Qed.

Lemma split_le (c : list Z) j : j <= length c -> exists a b, c = a ++ b /\ length a = j.
Proof.
  intros H. exists (firstn j c), (skipn j c). split; [symmetry; apply firstn_skipn|apply firstn_length_le; auto].
Qed.

Lemma colour_shift (a : list Z) x b u : colour_of (a ++ x :: b) (shift (length a) u) = colour_of (a ++ b) u.
Proof.
  unfold colour_of, shift. destruct (Nat.ltb_spec u (length a)).
  - rewrite !app_nth1 by auto. reflexivity.
  - rewrite !app_nth2 by lia. replace (S u - length a) with (S (u - length a)) by lia. reflexivity.
Qed.

Lemma colour_at (a : list Z) x b : colour_of (a ++ x :: b) (length a) = x.
Proof. unfold colour_of. apply nth_middle. Qed.

(* ------------------------------------------------------------------ the three facts *)

Section DC.
Variable h : graph.
Variables i j : nat.
Hypothesis Hwf : wf h.
Hypothesis Hji : j < i.
Hypothesis Hi : i < gn h.
Hypothesis Hedge : gadj h j i = true.
Variable k : nat.

Lemma Hedge' : gadj h i j = true.
Proof. destruct Hwf as (_ & Hs & _). rewrite Hs. exact Hedge. Qed.

Lemma dc_split c : k_colouring h k c <->
  k_colouring (remove_edge h i j) k c /\ colour_of c i <> colour_of c j.
Proof.
  unfold k_colouring, proper. simpl. split.
  - intros ((Hl & H0 & Hne) & Hk). split; [split; [split; [auto|split; auto]|auto]|].
    + intros u v Ha. apply remove_edge_adj in Ha. apply Hne. tauto.
    + apply Hne. apply Hedge'.
  - intros [((Hl & H0 & Hne) & Hk) Hij]. split; auto. split; auto. split; auto.
    intros u v Ha. destruct (Nat.eq_dec u i) as [->|Hui]; [destruct (Nat.eq_dec v j) as [->|Hvj]; auto|].
    + apply Hne. apply remove_edge_adj. split; auto. split; [tauto|]. intros [? ?]; lia.
    + destruct (Nat.eq_dec u j) as [->|Huj]; [destruct (Nat.eq_dec v i) as [->|Hvi]; auto|].
      * apply Hne. apply remove_edge_adj. split; auto. split; [intros [? ?]; lia|tauto].
      * apply Hne. apply remove_edge_adj. split; auto. tauto.
Qed.

Lemma dc_to_contract c : k_colouring (remove_edge h i j) k c -> colour_of c i = colour_of c j ->
  k_colouring (contract h i j) k (rm j c).
Proof.
  intros ((Hl & H0 & Hne) & Hk) Hij. simpl in *.
  destruct (split_at c j ltac:(lia)) as (a & x & b & -> & Hla). subst j. rewrite rm_split.
  rewrite app_length in Hl; simpl in Hl.
  assert (Hlen : length (a ++ b) = pred (gn h)) by (rewrite app_length; lia).
  assert (Hsh : forall u, u < pred (gn h) -> shift (length a) u < gn h) by (intros u Hu; apply shift_lt; auto; lia).
  split; [split; [|split]|].
  - rewrite contract_gn. auto.
  - rewrite contract_gn. intros v Hv. rewrite <- (colour_shift a x b v). apply H0. auto.
  - intros u v Ha. apply (contract_adj h i (length a) u v Hwf Hi) in Ha.
    rewrite <- (colour_shift a x b u), <- (colour_shift a x b v).
    pose proof (shift_neq (length a) u) as Hu. pose proof (shift_neq (length a) v) as Hv.
    destruct Ha as [Ha|(Huv & [[E Ha]|[E Ha]])].
    + apply Hne. apply remove_edge_adj. split; auto. split; intros [? ?]; congruence.
    + rewrite E, Hij. apply Hne. apply remove_edge_adj. split; auto. split; intros [? ?]; try congruence; lia.
    + rewrite E, Hij. intro Eq. symmetry in Eq. revert Eq. apply Hne. apply remove_edge_adj.
      split; auto. split; intros [? ?]; try congruence; lia.
  - rewrite contract_gn. intros v Hv. rewrite <- (colour_shift a x b v). apply Hk. auto.
Qed.

Lemma dc_from_contract c' : k_colouring (contract h i j) k c' ->
  exists c, k_colouring (remove_edge h i j) k c /\ colour_of c i = colour_of c j /\ rm j c = c'.
Proof.
  intros ((Hl & H0 & Hne) & Hk). rewrite contract_gn in *.
  destruct (split_le c' j ltac:(lia)) as (a & b & -> & Hla). subst j.
  set (x := colour_of (a ++ b) (pred i)).
  exists (a ++ x :: b).
  assert (Hsi : shift (length a) (pred i) = i) by (unfold shift; destruct (Nat.ltb_spec (pred i) (length a)); lia).
  assert (Hci : colour_of (a ++ x :: b) i = x) by (rewrite <- Hsi, colour_shift; reflexivity).
  assert (Hcj : colour_of (a ++ x :: b) (length a) = x) by apply colour_at.
  assert (Hcol : forall w, w < gn h -> w <> length a ->
            colour_of (a ++ x :: b) w = colour_of (a ++ b) (unshift (length a) w) /\ unshift (length a) w < pred (gn h)).
  { intros w Hw Hne'. rewrite <- (shift_unshift (length a) w Hne') at 1. rewrite colour_shift. split; auto.
    unfold unshift. destruct (Nat.ltb_spec w (length a)); lia. }
  assert (Hall : forall w, w < gn h -> (0 <= colour_of (a ++ x :: b) w < Z.of_nat k)%Z).
  { intros w Hw. destruct (Nat.eq_dec w (length a)) as [->|Hne'].
    - rewrite Hcj. unfold x. split; [apply H0|apply Hk]; lia.
    - destruct (Hcol w Hw Hne') as [-> Hlt]. split; [apply H0|apply Hk]; auto. }
  split; [|split; [congruence|apply rm_split]].
  split; [split; [|split]|].
  - simpl. rewrite app_length in *. simpl. lia.
  - simpl. intros v Hv. apply Hall; auto.
  - intros u v Ha. apply remove_edge_adj in Ha. destruct Ha as (Ha & Hn1 & Hn2).
    destruct Hwf as (Hr & Hs & Hirr). destruct (Hr _ _ Ha) as [Hu Hv].
    assert (Huv : u <> v) by (intro; subst; rewrite Hirr in Ha; discriminate).
    assert (Hedge_c : forall u' v', merged_adj h i (length a) (shift (length a) u') (shift (length a) v') ->
               colour_of (a ++ b) u' <> colour_of (a ++ b) v').
    { intros u' v' Hm. apply Hne. apply (contract_adj h i (length a) u' v'); auto. }
    destruct (Nat.eq_dec u (length a)) as [->|Hua]; destruct (Nat.eq_dec v (length a)) as [->|Hva]; try congruence.
    + (* u = j: the edge j-v becomes i-v *)
      assert (Hvi : v <> i) by (intro; subst; apply Hn2; auto).
      rewrite Hcj. destruct (Hcol v Hv Hva) as [-> _]. unfold x.
      apply Hedge_c. rewrite Hsi, shift_unshift by auto. right. split; auto.
    + assert (Hui : u <> i) by (intro; subst; apply Hn1; auto).
      rewrite Hcj. destruct (Hcol u Hu Hua) as [-> _]. unfold x.
      apply Hedge_c. rewrite Hsi, shift_unshift by auto. right. split; auto. right. split; auto. rewrite Hs; auto.
    + destruct (Hcol u Hu Hua) as [-> _]. destruct (Hcol v Hv Hva) as [-> _].
      apply Hedge_c. rewrite !shift_unshift by auto. left; auto.
  - simpl. intros v Hv. apply Hall; auto.
Qed.

Lemma rm_injective c1 c2 : length c1 = gn h -> length c2 = gn h ->
  colour_of c1 i = colour_of c1 j -> colour_of c2 i = colour_of c2 j -> rm j c1 = rm j c2 -> c1 = c2.
Proof.
  intros Hl1 Hl2 H1 H2 Hrm.
  destruct (split_at c1 j ltac:(lia)) as (a1 & x1 & b1 & -> & Hla1).
  destruct (split_at c2 j ltac:(lia)) as (a2 & x2 & b2 & -> & Hla2).
  subst j. rewrite rm_split in Hrm. rewrite <- Hla2 in Hrm at 1. rewrite rm_split in Hrm.
  assert (Hsi : forall a : list Z, length a = length a1 -> shift (length a) (pred i) = i).
  { intros a Ha. unfold shift. destruct (Nat.ltb_spec (pred i) (length a)); lia. }
  rewrite <- (Hsi a1 eq_refl) in H1 at 1. rewrite colour_shift, colour_at in H1.
  rewrite <- Hla2 in H2. rewrite <- (Hsi a2 Hla2) in H2 at 1. rewrite colour_shift, colour_at in H2.
  assert (x1 = x2) by (rewrite <- H1, <- H2, Hrm; reflexivity). subst x2.
  assert (Ha : a1 = a2 /\ b1 = b2).
  { apply app_eq_len; auto. }
  destruct Ha; subst; reflexivity.
Qed.

End DC.
