(* DSATUR branch and bound: the relation between the arrays of dfsDsatur (colouring, the heap,
   the counters seenColours) and the stack of frames, and its preservation by the three array
   manipulations of the loop: colouring a vertex (lines 298-318), uncolouring the top of the
   stack (251-262), changing the colour of the new top (268-282). *)
From Coq Require Import List Arith Bool ZArith Lia Permutation.
From Mamba Require Import Invariants.Graph Invariants.CliqueRef Invariants.CliqueRefProofs
  Invariants.DsaturModel Invariants.DsaturProofsHeap Invariants.DsaturProofsSeen Invariants.DsaturProofsAbs
  Invariants.DsaturProofsLoops Invariants.DsaturProofsCover.
Import ListNotations.
Local Open Scope nat_scope.

Lemma perm_seq_facts (l : list nat) n : Permutation l (seq 0 n) -> NoDup l /\ forall u, In u l <-> u < n.
Proof.
  intros H. split.
  - eapply Permutation_NoDup; [apply Permutation_sym; eauto|apply seq_NoDup].
  - intros u. split; intros Hu.
    + apply (Permutation_in _ H) in Hu. apply in_seq in Hu. lia.
    + apply (Permutation_in _ (Permutation_sym H)). apply in_seq. lia.
Qed.

Lemma NoDup_app_inv {A} (l l' : list A) : NoDup (l ++ l') ->
  NoDup l /\ NoDup l' /\ forall x, In x l -> In x l' -> False.
Proof.
  induction l as [|a l IH]; simpl; intros H.
  - split; [constructor|]. split; auto.
  - inversion H as [|? ? Ha Hnd]; subst. destruct (IH Hnd) as (H1 & H2 & H3).
    split; [constructor; auto; intros Hin; apply Ha; apply in_app_iff; auto|]. split; auto.
    intros x [->|Hx] Hx'; [apply Ha; apply in_app_iff; auto|eauto].
Qed.

Lemma eqb_to_nat t j : (0 <= t)%Z -> (j =? Z.to_nat t) = (t =? Z.of_nat j)%Z.
Proof.
  intros H. destruct (Nat.eqb_spec j (Z.to_nat t)); destruct (Z.eqb_spec t (Z.of_nat j)); auto; lia.
Qed.

Section Rel.
  Variable g : graph.
  Variable R : nat.
  Variable deg : list Z.
  Hypothesis Hdeg : length deg = gn g.

  Record rel0 (fr : list dframe) (col : list Z) (h : list nat) (sn : seen_t) : Prop := {
    r_arr : arr_ok (gn g) R sn;
    r_col_len : length col = gn g;
    r_perm : Permutation (h ++ map f_v fr) (seq 0 (gn g));
    r_col_fr : forall f, In f fr -> nth (f_v f) col (-1)%Z = colr f;
    r_col_h : forall u, In u h -> nth u col (-1)%Z = (-1)%Z;
    r_seen : forall u j, In u h -> j < R -> srow (fst sn) u j = cnt g (asg fr) u (Z.of_nat j);
    r_stale : forall i f j, nth_error fr i = Some f -> j < R ->
              srow (fst sn) (f_v f) j = cnt g (asg (firstn i fr)) (f_v f) (Z.of_nat j);
    r_range : forall f, In f fr -> (0 <= colr f)%Z /\ Z.to_nat (colr f) < R }.

  Lemma rel0_facts fr col h sn : rel0 fr col h sn ->
    NoDup h /\ NoDup (map f_v fr) /\ (forall u, In u h -> u < gn g) /\ (forall f, In f fr -> f_v f < gn g) /\
    (forall u, In u h -> ~ In u (map f_v fr)) /\ (forall u, u < gn g -> In u h \/ In u (map f_v fr)).
  Proof.
    intros H. destruct (perm_seq_facts _ _ (r_perm _ _ _ _ H)) as [Hnd Hin].
    destruct (NoDup_app_inv _ _ Hnd) as (H1 & H2 & H3).
    split; auto. split; auto. split; [|split; [|split]].
    - intros u Hu. apply Hin. apply in_app_iff. auto.
    - intros f Hf. apply Hin. apply in_app_iff. right. apply in_map; auto.
    - intros u Hu Hu'. eauto.
    - intros u Hu. apply Hin in Hu. apply in_app_iff in Hu. auto.
  Qed.

  Lemma agrees_heap nseen h : length nseen = gn g -> (forall u, In u h -> u < gn g) ->
    agrees (vless nseen deg) (kless nseen deg) h.
  Proof. intros Hn Hr. apply vless_agrees. intros a Ha. specialize (Hr a Ha). lia. Qed.

  Lemma nth_upd_other (col : list Z) v t u : u <> v -> nth u (upd col v t) (-1)%Z = nth u col (-1)%Z.
  Proof. intros H. apply nth_upd_neq. auto. Qed.

  (* ---------------------------------------------------------------- colour v with t *)
  Lemma rel0_push fr col v rest h1 sn t c :
    rel0 fr col (v :: rest) sn -> Permutation rest h1 -> hvalid (kless (snd sn) deg) h1 ->
    (0 <= t)%Z -> Z.to_nat t < R -> nth 0 c (-1)%Z = t ->
    exists h2 sn', fold_res (fwd_body g deg v t) (seq 0 (length h1)) (h1, sn) = Ok (h2, sn') /\
      rel0 (fr ++ [mkF v 0 c]) (upd col v t) h2 sn' /\ hvalid (kless (snd sn') deg) h2.
  Proof.
    intros Hrel Hp1 Hval Ht0 HtR Hc.
    destruct (rel0_facts _ _ _ _ Hrel) as (Hnd & Hndf & Hr & Hrf & Hdis & Hcov).
    pose proof (proj1 (NoDup_cons_iff _ _) Hnd) as [Hv Hndr].
    assert (Hnd1 : NoDup h1) by (eapply Permutation_NoDup; eauto).
    assert (Hr1 : forall u, In u h1 -> u < gn g).
    { intros u Hu. apply Hr. right. eapply Permutation_in; [apply Permutation_sym; eauto|auto]. }
    assert (Hv1 : ~ In v h1) by (intros Hin; apply Hv; eapply Permutation_in; [apply Permutation_sym; eauto|auto]).
    destruct (fwd_loop_ok g (gn g) R deg v t h1 sn Hdeg (r_arr _ _ _ _ Hrel) Hnd1 Hr1 Hval Ht0 HtR)
      as (h2 & sn' & E & Hp2 & Hv2 & Hok2 & Hrow).
    exists h2, sn'. split; auto. split; auto.
    assert (Hin2 : forall u, In u h2 -> In u rest).
    { intros u Hu. eapply Permutation_in; [apply Permutation_sym; eauto|].
      eapply Permutation_in; [apply Permutation_sym; eauto|auto]. }
    assert (Hin21 : forall u, In u h2 -> In u h1).
    { intros u Hu. eapply Permutation_in; [apply Permutation_sym; eauto|auto]. }
    assert (Hvn : v < gn g) by (apply Hr; left; auto).
    assert (Hvf : ~ In v (map f_v fr)) by (apply Hdis; left; auto).
    constructor; auto.
    - rewrite length_upd. apply (r_col_len _ _ _ _ Hrel).
    - rewrite map_app. simpl.
      eapply Permutation_trans; [|apply (r_perm _ _ _ _ Hrel)]. simpl.
      rewrite app_assoc. eapply Permutation_trans; [apply Permutation_sym, Permutation_cons_append|].
      constructor. apply Permutation_app_tail. apply Permutation_sym. eapply Permutation_trans; eauto.
    - intros f Hf. apply in_app_iff in Hf. destruct Hf as [Hf|[<-|[]]].
      + rewrite nth_upd_other; [apply (r_col_fr _ _ _ _ Hrel); auto|].
        intros E'. apply Hvf. rewrite <- E'. apply in_map; auto.
      + simpl. rewrite nth_upd_eq; [unfold colr; simpl; auto|]. rewrite (r_col_len _ _ _ _ Hrel). auto.
    - intros u Hu. rewrite nth_upd_other; [apply (r_col_h _ _ _ _ Hrel); right; auto|].
      intros ->. apply Hv. auto.
    - intros u j Hu Hj. rewrite Hrow, (r_seen _ _ _ _ Hrel) by (auto; right; auto).
      rewrite asg_app. simpl. rewrite cnt_snoc. unfold colr. simpl. rewrite Hc.
      rewrite (memb_true u h1) by auto. simpl. rewrite (eqb_to_nat t j Ht0). auto.
    - intros i f j Ei Hj.
      destruct (lt_dec i (length fr)) as [Hlt|Hge].
      + rewrite nth_error_app1 in Ei by auto. rewrite firstn_app.
        replace (i - length fr) with 0 by lia. simpl. rewrite app_nil_r.
        rewrite Hrow, (r_stale _ _ _ _ Hrel i f j Ei Hj).
        rewrite memb_false; [simpl; lia|].
        intros Hin. apply (Hdis (f_v f)); [right; eapply Permutation_in; [apply Permutation_sym; eauto|auto]|].
        apply in_map. eapply nth_error_In; eauto.
      + rewrite nth_error_app2 in Ei by lia. destruct (i - length fr) as [|d] eqn:Ed; simpl in Ei.
        2:{ destruct d; discriminate. }
        inversion Ei; subst f. simpl. assert (i = length fr) by lia. subst i.
        rewrite firstn_app, Nat.sub_diag, firstn_all. simpl. rewrite app_nil_r.
        rewrite Hrow, (memb_false v h1 Hv1). simpl.
        rewrite (r_seen _ _ _ _ Hrel v j) by (auto; left; auto). lia.
    - intros f Hf. apply in_app_iff in Hf. destruct Hf as [Hf|[<-|[]]]; [apply (r_range _ _ _ _ Hrel); auto|].
      unfold colr. simpl. rewrite Hc. auto.
  Qed.

  (* ---------------------------------------------------------------- uncolour the top frame *)
  Lemma rel0_undo fr0 P f col h sn j : rel0 (P ++ [f]) col h sn -> nth_error fr0 j = Some f ->
    exists col' h' sn', undo_body g deg fr0 (col, h, sn) j = Ok (col', h', sn') /\ rel0 P col' h' sn'.
  Proof.
    intros Hrel Ej.
    destruct (rel0_facts _ _ _ _ Hrel) as (Hnd & Hndf & Hr & Hrf & Hdis & Hcov).
    set (w := f_v f).
    assert (Hfin : In f (P ++ [f])) by (apply in_app_iff; right; left; auto).
    assert (Hwn : w < gn g) by (apply Hrf; auto).
    assert (Hwc : nth w col (-1)%Z = colr f) by (apply (r_col_fr _ _ _ _ Hrel); auto).
    destruct (r_range _ _ _ _ Hrel f Hfin) as [Hc0 HcR].
    assert (Hwh : ~ In w h).
    { intros Hin. apply (Hdis w Hin). apply in_map; auto. }
    assert (HwP : ~ In w (map f_v P)).
    { rewrite map_app in Hndf. simpl in Hndf. apply NoDup_app_inv in Hndf. destruct Hndf as (_ & _ & H3).
      intros Hin. apply (H3 w Hin). left; auto. }
    destruct (dec_all_ok g (gn g) R col w h sn (r_arr _ _ _ _ Hrel) Hnd Hr) as (sn1 & E1 & Hok1 & Hrow);
      try (rewrite ?Hwc; auto; rewrite (r_col_len _ _ _ _ Hrel); auto).
    rewrite Hwc in Hrow.
    destruct (h_push_ok (vless (snd sn1) deg) (kless (snd sn1) deg) h w) as (h' & E2 & Hp').
    { destruct Hok1 as (_ & _ & Hn1). apply agrees_heap; auto. intros u [<-|Hu]; auto. }
    exists (upd col w (-1)%Z), h', sn1. split.
    - unfold undo_body. rewrite (rnth_nth_error _ _ _ Ej). cbn [bind]. fold w. rewrite E1. cbn [bind].
      unfold rupd. rewrite (r_col_len _ _ _ _ Hrel). destruct (Nat.ltb_spec w (gn g)); [|lia]. cbn [bind].
      rewrite E2. cbn [bind]. auto.
    - assert (Hin' : forall u, In u h' <-> u = w \/ In u h).
      { intros u. split; intros Hu.
        - apply (Permutation_in _ (Permutation_sym Hp')) in Hu. destruct Hu; auto.
        - apply (Permutation_in _ Hp'). destruct Hu as [->|Hu]; [left|right]; auto. }
      constructor; auto.
      + rewrite length_upd. apply (r_col_len _ _ _ _ Hrel).
      + eapply Permutation_trans; [|apply (r_perm _ _ _ _ Hrel)]. rewrite map_app. simpl. fold w.
        eapply Permutation_trans; [apply Permutation_app_tail, Permutation_sym, Hp'|]. simpl.
        rewrite app_assoc. apply Permutation_cons_append.
      + intros f' Hf'. rewrite nth_upd_other; [apply (r_col_fr _ _ _ _ Hrel); apply in_app_iff; auto|].
        intros E'. apply HwP. rewrite <- E'. apply in_map; auto.
      + intros u Hu. apply Hin' in Hu. destruct Hu as [->|Hu].
        * apply nth_upd_eq. rewrite (r_col_len _ _ _ _ Hrel). auto.
        * rewrite nth_upd_other; [apply (r_col_h _ _ _ _ Hrel); auto|]. intros ->. auto.
      + intros u j' Hu Hj'. rewrite Hrow. apply Hin' in Hu. destruct Hu as [->|Hu].
        * rewrite (memb_false w h Hwh). simpl. unfold w.
          rewrite (r_stale _ _ _ _ Hrel (length P) f j'); auto.
          -- rewrite firstn_app, Nat.sub_diag, firstn_all. simpl. rewrite app_nil_r. lia.
          -- rewrite nth_error_app2, Nat.sub_diag; auto.
        * rewrite (memb_true u h Hu), (r_seen _ _ _ _ Hrel u j' Hu Hj'). rewrite asg_app. simpl.
          rewrite cnt_snoc. fold w. simpl. rewrite (eqb_to_nat _ j' Hc0).
          destruct (gadj g u w && (colr f =? Z.of_nat j')%Z); lia.
      + intros i f' j' Ei Hj'.
        assert (Hi : i < length P) by (apply nth_error_Some; congruence).
        rewrite Hrow. rewrite memb_false.
        * simpl. rewrite Z.add_0_r.
          rewrite (r_stale _ _ _ _ Hrel i f' j'); auto; [|rewrite nth_error_app1; auto].
          rewrite firstn_app. replace (i - length P) with 0 by lia. simpl. rewrite app_nil_r. auto.
        * intros Hin. apply (Hdis _ Hin). rewrite map_app. apply in_app_iff. left. apply in_map.
          eapply nth_error_In; eauto.
      + intros f' Hf'. apply (r_range _ _ _ _ Hrel). apply in_app_iff. auto.
  Qed.

  (* ---------------------------------------------------------------- recolour the top frame *)
  Lemma rel0_change P f col h sn t : rel0 (P ++ [f]) col h sn -> (0 <= t)%Z -> Z.to_nat t < R ->
    colr (bump f) = t ->
    exists sn', change_all g col (f_v f) t h sn = Ok sn' /\ rel0 (P ++ [bump f]) (upd col (f_v f) t) h sn'.
  Proof.
    intros Hrel Ht0 HtR Hbt.
    destruct (rel0_facts _ _ _ _ Hrel) as (Hnd & Hndf & Hr & Hrf & Hdis & Hcov).
    set (w := f_v f).
    assert (Hfin : In f (P ++ [f])) by (apply in_app_iff; right; left; auto).
    assert (Hwn : w < gn g) by (apply Hrf; auto).
    assert (Hwc : nth w col (-1)%Z = colr f) by (apply (r_col_fr _ _ _ _ Hrel); auto).
    destruct (r_range _ _ _ _ Hrel f Hfin) as [Hc0 HcR].
    assert (Hwh : ~ In w h).
    { intros Hin. apply (Hdis w Hin). apply in_map; auto. }
    assert (HwP : ~ In w (map f_v P)).
    { rewrite map_app in Hndf. simpl in Hndf. apply NoDup_app_inv in Hndf. destruct Hndf as (_ & _ & H3).
      intros Hin. apply (H3 w Hin). left; auto. }
    destruct (change_all_ok g (gn g) R col w t h sn (r_arr _ _ _ _ Hrel) Hnd Hr) as (sn1 & E1 & Hok1 & Hrow);
      try (rewrite ?Hwc; auto; rewrite (r_col_len _ _ _ _ Hrel); auto).
    rewrite Hwc in Hrow.
    exists sn1. split; auto.
    assert (Hmapv : map f_v (P ++ [bump f]) = map f_v (P ++ [f])) by (rewrite !map_app; auto).
    constructor; auto.
    - rewrite length_upd. apply (r_col_len _ _ _ _ Hrel).
    - rewrite Hmapv. apply (r_perm _ _ _ _ Hrel).
    - intros f' Hf'. apply in_app_iff in Hf'. destruct Hf' as [Hf'|[<-|[]]].
      + rewrite nth_upd_other; [apply (r_col_fr _ _ _ _ Hrel); apply in_app_iff; auto|].
        intros E'. apply HwP. rewrite <- E'. apply in_map; auto.
      + simpl. fold w. rewrite nth_upd_eq; auto. rewrite (r_col_len _ _ _ _ Hrel). auto.
    - intros u Hu. rewrite nth_upd_other; [apply (r_col_h _ _ _ _ Hrel); auto|]. intros ->. auto.
    - intros u j' Hu Hj'. rewrite Hrow, (memb_true u h Hu), (r_seen _ _ _ _ Hrel u j' Hu Hj').
      rewrite !asg_app. simpl. rewrite !cnt_snoc. simpl. fold w. rewrite Hbt.
      rewrite (eqb_to_nat _ j' Hc0), (eqb_to_nat _ j' Ht0).
      destruct (gadj g u w && (colr f =? Z.of_nat j')%Z); destruct (gadj g u w && (t =? Z.of_nat j')%Z); lia.
    - intros i f' j' Ei Hj'.
      assert (Hi : i < S (length P)).
      { assert (i < length (P ++ [bump f])) by (apply nth_error_Some; congruence).
        rewrite app_length in *. simpl in *. lia. }
      assert (Hfirst : firstn i (P ++ [bump f]) = firstn i (P ++ [f])).
      { rewrite !firstn_app. f_equal. destruct (i - length P) eqn:Ed; auto. lia. }
      rewrite Hfirst, Hrow.
      destruct (lt_dec i (length P)) as [Hlt|Hge].
      + rewrite nth_error_app1 in Ei by auto.
        rewrite memb_false.
        * simpl. rewrite !Z.add_0_r. apply (r_stale _ _ _ _ Hrel i f' j'); auto. rewrite nth_error_app1; auto.
        * intros Hin. apply (Hdis _ Hin). rewrite map_app. apply in_app_iff. left. apply in_map.
          eapply nth_error_In; eauto.
      + assert (i = length P) by lia. subst i. rewrite nth_error_app2, Nat.sub_diag in Ei by lia.
        simpl in Ei. inversion Ei; subst f'. simpl. fold w. rewrite (memb_false w h Hwh). simpl.
        rewrite !Z.add_0_r. apply (r_stale _ _ _ _ Hrel (length P) f j'); auto.
        rewrite nth_error_app2, Nat.sub_diag; auto.
    - intros f' Hf'. apply in_app_iff in Hf'. destruct Hf' as [Hf'|[<-|[]]].
      + apply (r_range _ _ _ _ Hrel). apply in_app_iff. auto.
      + rewrite Hbt. auto.
  Qed.
End Rel.
