(* C03 (orderly generation) — the k-subset orbit loop of addAugmentations (model:
   Search/OrderlyKsubModel.v) computes one representative of every orbit of the group generated
   by the permutations it is given, on the k-subsets of 0..n-1 ([ksub_loop_transversal]), provided
   - [cs] lists exactly the ascending k-subsets of 0..n-1, each once       (CombinationsColex: C15),
   - [rk] maps the i-th of them to i                                        (comb.Rank: C16),
   - [sortl] sorts duplicate-free lists                                     (ints.Sort),
   and the union-find is the verified model of disjoint.Set (C18, [run_partition], [roots_conn]).
   Hence [ksub_ok] of Search/OrderlySpec.v for the loop ([ksub_loop_ok]) and for the brute-force
   reference instance of the parameters ([ksub_ref_ok]). *)
From Coq Require Import List NArith ZArith Arith Bool Lia Permutation Sorted.
From Mamba Require Import Disjoint.Model Disjoint.Proofs Disjoint.Views.
From Mamba Require Import Search.Model Search.ShardGraph.
From Mamba Require Import Canon.AutBase Canon.Aut Canon.Group.
From Mamba Require Import Search.OrderlyBase Search.OrderlyGraph Search.OrderlySpec Search.OrderlyAugs.
From Mamba Require Import Search.OrderlyToyModel Search.OrderlyToy Search.OrderlyKsubModel.
Import ListNotations.
Local Open Scope nat_scope.

(* ---------------------------------------------------------------- ascending lists *)

Lemma sorted_ext : forall c c', StronglySorted lt c -> StronglySorted lt c' ->
  (forall v, In v c <-> In v c') -> c = c'.
Proof.
  induction c as [|a c IH]; intros c' S S' H.
  - destruct c' as [|b c']; [reflexivity|]. exfalso. apply (H b). left. reflexivity.
  - destruct c' as [|b c']; [exfalso; apply (H a); left; reflexivity|].
    inversion S as [|? ? Sc Fa]; subst. inversion S' as [|? ? Sc' Fb]; subst.
    rewrite Forall_forall in Fa, Fb.
    assert (a = b).
    { destruct (proj1 (H a) (or_introl eq_refl)) as [E|I]; [congruence|].
      destruct (proj2 (H b) (or_introl eq_refl)) as [E|I']; [congruence|].
      specialize (Fa b I'). specialize (Fb a I). lia. }
    subst b. f_equal. apply IH; auto. intros v. split; intros I.
    + destruct (proj1 (H v) (or_intror I)) as [E|I']; [|exact I']. subst v. specialize (Fa a I). lia.
    + destruct (proj2 (H v) (or_intror I)) as [E|I']; [|exact I']. subst v. specialize (Fb a I). lia.
Qed.

Lemma seq_sorted : forall n a, StronglySorted lt (seq a n).
Proof.
  induction n as [|n IH]; intros a; cbn [seq]; constructor; [apply IH|].
  apply Forall_forall. intros x Hx. apply in_seq in Hx. lia.
Qed.

Lemma filter_sorted : forall (p : nat -> bool) c, StronglySorted lt c -> StronglySorted lt (filter p c).
Proof.
  intros p c. induction 1 as [|a c S IH F]; cbn [filter]; [constructor|].
  destruct (p a); [|exact IH]. constructor; [exact IH|].
  rewrite Forall_forall in *. intros x Hx. apply filter_In in Hx. apply F. tauto.
Qed.

Lemma bits_of_sorted : forall x, StronglySorted lt (bits_of x).
Proof. intros x. unfold bits_of. apply filter_sorted, seq_sorted. Qed.

(* ---------------------------------------------------------------- the loop *)

Definition sorted_ksub (n k : nat) (c : list nat) : Prop :=
  StronglySorted lt c /\ length c = k /\ forall v, In v c -> v < n.

Section LoopProof.
Variables n k : nat.
Variable cs : list (list nat).
Variable rk : list nat -> nat.
Variable sortl : list nat -> list nat.
Hypothesis Hcs : forall c, In c cs <-> sorted_ksub n k c.
Hypothesis Hnd : NoDup cs.
Hypothesis Hrk : forall i, i < length cs -> rk (nth i cs []) = i.
Hypothesis Hsort : forall l, NoDup l -> StronglySorted lt (sortl l) /\ forall v, In v (sortl l) <-> In v l.

Variable gens : list perm.
Hypothesis GP : Forall (is_perm n) gens.

Let NC := length cs.
Notation comb i := (nth i cs []).

Lemma comb_in : forall i, i < NC -> sorted_ksub n k (comb i).
Proof. intros i Hi. apply Hcs. apply nth_In. exact Hi. Qed.

Lemma cs_index : forall c, sorted_ksub n k c -> exists i, i < NC /\ comb i = c /\ rk c = i.
Proof.
  intros c Hc. apply Hcs in Hc. destruct (In_nth cs c [] Hc) as [i [Hi E]].
  exists i. split; [exact Hi|]. split; [exact E|]. rewrite <- E. apply Hrk. exact Hi.
Qed.

(* the sorted image of a k-subset under a permutation *)
Lemma image_ksub : forall g c, is_perm n g -> sorted_ksub n k c ->
  sorted_ksub n k (sortl (map (app g) c)) /\
  forall j, j < n -> (In j c <-> In (app g j) (sortl (map (app g) c))).
Proof.
  intros g c Hg (S & L & B).
  assert (ND : NoDup (map (app g) c)) by (apply (map_app_NoDup n); [exact Hg|apply SSorted_NoDup; exact S|exact B]).
  destruct (Hsort _ ND) as [SS MEM]. split.
  - split; [exact SS|]. split.
    + rewrite <- L, <- (map_length (app g) c). apply Permutation_length. apply NoDup_Permutation.
      * apply SSorted_NoDup. exact SS.
      * exact ND.
      * exact MEM.
    + intros v Hv. apply MEM in Hv. apply in_map_iff in Hv. destruct Hv as [j [<- Hj]].
      apply (app_lt n g); [exact Hg|apply B; exact Hj].
  - intros j Hj. rewrite MEM, in_map_iff. split.
    + intros I. exists j. auto.
    + intros [j' [E I]]. apply (app_inj n g) in E; [subst j'; exact I|exact Hg|apply B; exact I|exact Hj].
Qed.

(* a permutation carrying c_i onto c_j determines j *)
Lemma image_unique : forall g c c', is_perm n g -> sorted_ksub n k c -> sorted_ksub n k c' ->
  (forall j, j < n -> (In j c <-> In (app g j) c')) -> c' = sortl (map (app g) c).
Proof.
  intros g c c' Hg Hc Hc' H. destruct (image_ksub g c Hg Hc) as [(S & _ & _) M].
  destruct Hc' as (S' & _ & B'). apply sorted_ext; [exact S'|exact S|].
  intros t. split.
  - intros It. specialize (B' t It).
    rewrite <- (app_inv_r n g t Hg B'). apply M; [apply (inv_lt n g); assumption|].
    apply H; [apply (inv_lt n g); assumption|]. rewrite (app_inv_r n g t Hg B'). exact It.
  - intros It. destruct Hc as (Sc & _ & Bc).
    assert (ND : NoDup (map (app g) c)) by (apply (map_app_NoDup n); [exact Hg|apply SSorted_NoDup; exact Sc|exact Bc]).
    apply (proj2 (Hsort _ ND)) in It. apply in_map_iff in It. destruct It as [j [<- Ij]].
    apply H; [apply Bc; exact Ij|exact Ij].
Qed.

Lemma pairs_ksub_ops : forall x y, In (x, y) (pairs (ksub_ops cs rk sortl gens)) <->
  x < NC /\ exists g, In g gens /\ y = rk (sortl (map (app g) (comb x))).
Proof.
  intros x y. unfold pairs, ksub_ops. rewrite in_flat_map. split.
  - intros [o [Ho Hp]]. apply in_flat_map in Ho. destruct Ho as [i [Hi Ho]].
    apply in_seq in Hi. apply in_map_iff in Ho. destruct Ho as [g [<- Hg]].
    cbn [pair_of] in Hp. destruct Hp as [E|[]]. inversion E; subst. split; [fold NC; lia|eauto].
  - intros [Hx [g [Hg ->]]]. exists (OUnionB x (rk (sortl (map (app g) (comb x))))). split.
    + apply in_flat_map. exists x. split; [apply in_seq; fold NC; lia|]. apply in_map_iff. eauto.
    + left. reflexivity.
Qed.

Lemma ops_valid : Forall (op_valid NC) (ksub_ops cs rk sortl gens).
Proof.
  apply Forall_forall. intros o Ho. unfold ksub_ops in Ho. apply in_flat_map in Ho.
  destruct Ho as [i [Hi Ho]]. apply in_seq in Hi. apply in_map_iff in Ho. destruct Ho as [g [<- Hg]].
  cbn [op_valid]. split; [fold NC in Hi; lia|].
  rewrite Forall_forall in GP.
  destruct (image_ksub g (comb i) (GP g Hg) (comb_in i ltac:(fold NC in Hi; lia))) as [SK _].
  destruct (cs_index _ SK) as (j & Hj & _ & ->). exact Hj.
Qed.

Definition carries (a : perm) (i j : nat) : Prop :=
  forall v, v < n -> (In v (comb i) <-> In (app a v) (comb j)).

Lemma conn_carries : forall i j, conn NC (pairs (ksub_ops cs rk sortl gens)) i j ->
  i < NC /\ j < NC /\ exists a, generated n gens a /\ carries a i j.
Proof.
  intros i j H. induction H as [x Hx|x y Hp|x y H IH|x y z H1 IH1 H2 IH2].
  - split; [exact Hx|]. split; [exact Hx|]. exists (idp n). split; [constructor|].
    intros v Hv. rewrite app_idp. reflexivity.
  - apply pairs_ksub_ops in Hp. destruct Hp as [Hx [g [Hg ->]]].
    rewrite Forall_forall in GP.
    destruct (image_ksub g (comb x) (GP g Hg) (comb_in x Hx)) as [SK M].
    destruct (cs_index _ SK) as (j & Hj & Ej & ->).
    split; [exact Hx|]. split; [exact Hj|]. exists g. split; [apply gen_in; exact Hg|].
    intros v Hv. rewrite Ej. apply M. exact Hv.
  - destruct IH as (Hx & Hy & a & Ga & Ca). split; [exact Hy|]. split; [exact Hx|].
    pose proof (generated_perm n gens GP a Ga) as Pa.
    exists (inv a). split; [apply gen_inv; exact Ga|]. intros v Hv.
    rewrite (Ca (app (inv a) v)) by (apply (inv_lt n a); assumption).
    rewrite (app_inv_r n) by assumption. reflexivity.
  - destruct IH1 as (Hx & Hy & a & Ga & Ca). destruct IH2 as (_ & Hz & b & Gb & Cb).
    split; [exact Hx|]. split; [exact Hz|].
    pose proof (generated_perm n gens GP a Ga) as Pa.
    exists (compose b a). split; [apply gen_mul; assumption|]. intros v Hv.
    rewrite app_compose by (rewrite (proj1 Pa); exact Hv).
    rewrite (Ca v Hv). apply Cb. apply (app_lt n a); assumption.
Qed.

Lemma carries_conn : forall a, generated n gens a -> forall i j, i < NC -> j < NC ->
  carries a i j -> conn NC (pairs (ksub_ops cs rk sortl gens)) i j.
Proof.
  intros a Ga. induction Ga as [|g Hg|g h Gg IHg Gh IHh|g Gg IHg]; intros i j Hi Hj C.
  - (* identity *)
    assert (E : comb i = comb j).
    { destruct (comb_in i Hi) as (Si & _ & Bi). destruct (comb_in j Hj) as (Sj & _ & Bj).
      apply sorted_ext; [exact Si|exact Sj|]. intros v. split; intros I.
      - specialize (C v (Bi v I)). rewrite app_idp in C. apply C. exact I.
      - specialize (C v (Bj v I)). rewrite app_idp in C. apply C. exact I. }
    assert (i = j) by (apply (proj1 (NoDup_nth cs []) Hnd); assumption).
    subst j. apply c_refl. exact Hi.
  - (* a generator: one of the unions *)
    rewrite Forall_forall in GP.
    pose proof (image_unique g (comb i) (comb j) (GP g Hg) (comb_in i Hi) (comb_in j Hj) C) as E.
    apply c_pair. apply pairs_ksub_ops. split; [exact Hi|]. exists g. split; [exact Hg|].
    rewrite <- E. symmetry. apply Hrk. exact Hj.
  - (* product: through the image under h *)
    pose proof (generated_perm n gens GP g Gg) as Pg. pose proof (generated_perm n gens GP h Gh) as Ph.
    destruct (image_ksub h (comb i) Ph (comb_in i Hi)) as [SK M].
    destruct (cs_index _ SK) as (m & Hm & Em & _).
    apply c_trans with (y := m).
    + apply IHh; [exact Hi|exact Hm|]. intros v Hv. rewrite Em. apply M. exact Hv.
    + apply IHg; [exact Hm|exact Hj|]. intros w Hw. rewrite Em.
      set (v := app (inv h) w). assert (Hv : v < n) by (apply (inv_lt n h); assumption).
      assert (Ew : app h v = w) by (apply (app_inv_r n); assumption).
      rewrite <- Ew. rewrite <- (M v Hv). rewrite (C v Hv).
      rewrite app_compose by (rewrite (proj1 Ph); exact Hv). reflexivity.
  - (* inverse *)
    pose proof (generated_perm n gens GP g Gg) as Pg.
    apply c_sym. apply IHg; [exact Hj|exact Hi|]. intros w Hw.
    rewrite (C (app g w)) by (apply (app_lt n g); assumption).
    rewrite (app_inv_l n) by assumption. reflexivity.
Qed.

Lemma mask_comb : forall i, i < NC -> forall v, In v (bits_of (mask_of (comb i))) <-> In v (comb i).
Proof. intros i Hi v. apply mask_of_In. Qed.

Theorem ksub_loop_transversal : exists R, ksub_loop cs rk sortl gens = Some R /\ transversal_gen n gens k R.
Proof.
  destruct (run_partition NC _ ops_valid) as (ds & RUN & REP).
  destruct (roots_conn NC ds _ REP) as [RS RX].
  exists (map (fun i => mask_of (comb i)) (roots ds)). split.
  { unfold ksub_loop. fold NC. rewrite RUN. reflexivity. }
  assert (RLT : forall r, In r (roots ds) -> r < NC).
  { intros r Hr. apply roots_iff in Hr. apply reaches_dom in Hr. destruct REP as (_ & L & _). lia. }
  assert (EQV : forall i j, i < NC -> j < NC ->
            (sub_equiv_gen n gens (bits_of (mask_of (comb i))) (bits_of (mask_of (comb j))) <->
             conn NC (pairs (ksub_ops cs rk sortl gens)) i j)).
  { intros i j Hi Hj. split.
    - intros [a [Ga C]]. apply (carries_conn a Ga i j Hi Hj). intros v Hv.
      rewrite <- (mask_comb i Hi), <- (mask_comb j Hj). apply C. exact Hv.
    - intros C. destruct (conn_carries i j C) as (_ & _ & a & Ga & Ca). exists a. split; [exact Ga|].
      intros v Hv. rewrite (mask_comb i Hi), (mask_comb j Hj). apply Ca. exact Hv. }
  split; [|split].
  - intros x Hx. apply in_map_iff in Hx. destruct Hx as [r [<- Hr]].
    destruct (comb_in r (RLT r Hr)) as (S & L & B). split; [apply bits_of_NoDup|]. split.
    + rewrite <- L. apply Permutation_length. apply NoDup_Permutation;
        [apply bits_of_NoDup|apply SSorted_NoDup; exact S|apply mask_of_In].
    + intros v Hv. apply (proj1 (mask_of_In _ _)) in Hv. apply B. exact Hv.
  - intros S (ND & L & B).
    destruct (Hsort S ND) as [SS MEM].
    assert (SK : sorted_ksub n k (sortl S)).
    { split; [exact SS|]. split.
      - rewrite <- L. apply Permutation_length. apply NoDup_Permutation; [apply SSorted_NoDup; exact SS|exact ND|exact MEM].
      - intros v Hv. apply B. apply MEM. exact Hv. }
    destruct (cs_index _ SK) as (i & Hi & Ei & _).
    destruct (RX i Hi) as (r & Hr & Hrl & C & _).
    exists (mask_of (comb r)). split; [apply in_map_iff; exists r; auto|].
    apply (EQV i r Hi Hrl) in C. destruct C as [a [Ga Ca]]. exists a. split; [exact Ga|].
    intros v Hv. rewrite <- (Ca v Hv). rewrite mask_of_In, Ei. symmetry. apply MEM.
  - apply FOP_map. eapply FOP_impl; [|apply FOP_NoDup, SSorted_NoDup, RS].
    intros r1 r2 H1 H2 NE Q. apply NE.
    apply (EQV r1 r2 (RLT r1 H1) (RLT r2 H2)) in Q.
    destruct (RX r1 (RLT r1 H1)) as (r & Hr & Hrl & C & U).
    rewrite (U r1 H1 (RLT r1 H1) (c_refl _ _ _ (RLT r1 H1))).
    symmetry. apply (U r2 H2 (RLT r2 H2) Q).
Qed.

End LoopProof.

(* ---------------------------------------------------------------- ksub_ok for the loop *)

Section LoopOk.
Variable cs : nat -> nat -> list (list nat).
Variable rk : list nat -> nat.
Variable sortl : list nat -> list nat.
Variable NN : nat.
Hypothesis Hcs : forall n k c, n <= NN -> 2 <= k <= n -> (In c (cs n k) <-> sorted_ksub n k c).
Hypothesis Hnd : forall n k, n <= NN -> 2 <= k <= n -> NoDup (cs n k).
Hypothesis Hrk : forall n k i, n <= NN -> 2 <= k <= n -> i < length (cs n k) -> rk (nth i (cs n k) []) = i.
Hypothesis Hsort : forall l, NoDup l -> StronglySorted lt (sortl l) /\ forall v, In v (sortl l) <-> In v l.

Definition ksub_of (n k : nat) (gens : list (list nat)) : list N :=
  match ksub_loop (cs n k) rk sortl gens with Some r => r | None => [] end.

Theorem ksub_loop_ok : ksub_ok ksub_of NN.
Proof.
  intros n k gens Hn Hk GP.
  destruct (ksub_loop_transversal n k (cs n k) rk sortl (fun c => Hcs n k c Hn Hk) (Hnd n k Hn Hk) (fun i => Hrk n k i Hn Hk) Hsort gens GP)
    as [R [E T]].
  unfold ksub_of. rewrite E. exact T.
Qed.

End LoopOk.

(* ---------------------------------------------------------------- the reference parameters *)

Lemma cs_ref_In : forall n k c, In c (cs_ref n k) <-> sorted_ksub n k c.
Proof.
  intros n k c. unfold cs_ref. rewrite in_map_iff. split.
  - intros [x [<- Hx]]. apply filter_In in Hx. destruct Hx as [Hx L].
    apply all_masks_In in Hx. apply Nat.eqb_eq in L.
    split; [apply bits_of_sorted|]. split; [exact L|]. apply below_bits. exact Hx.
  - intros (S & L & B).
    assert (E : bits_of (mask_of c) = c).
    { apply sorted_ext; [apply bits_of_sorted|exact S|apply mask_of_In]. }
    exists (mask_of c). split; [exact E|]. apply filter_In. split.
    + apply all_masks_In. apply bits_below. rewrite E. exact B.
    + rewrite E. apply Nat.eqb_eq. exact L.
Qed.

Lemma cs_ref_NoDup : forall n k, NoDup (cs_ref n k).
Proof.
  intros n k. unfold cs_ref. apply FinFun.Injective_map_NoDup.
  - intros x y E. rewrite <- (mask_bits x), <- (mask_bits y), E. reflexivity.
  - apply NoDup_filter, all_masks_NoDup.
Qed.

Lemma index_in_nth : forall l i, NoDup l -> i < length l -> index_in (nth i l []) l = i.
Proof.
  induction l as [|x l IH]; intros i ND Hi; [cbn in Hi; lia|].
  inversion ND as [|? ? Hnin ND']; subst. destruct i as [|i]; cbn [nth index_in].
  - destruct (list_eq_dec Nat.eq_dec x x); [reflexivity|contradiction].
  - destruct (list_eq_dec Nat.eq_dec x (nth i l [])) as [E|NE].
    + exfalso. apply Hnin. rewrite E. apply nth_In. cbn [length] in Hi. lia.
    + f_equal. apply IH; [exact ND'|cbn [length] in Hi; lia].
Qed.

Lemma sort_ref_spec : forall l, StronglySorted lt (sort_ref l) /\ forall v, In v (sort_ref l) <-> In v l.
Proof. intros l. split; [apply bits_of_sorted|apply mask_of_In]. Qed.

Theorem ksub_ref_ok : forall NN, ksub_ok ksub_ref NN.
Proof.
  intros NN n k gens _ _ GP.
  destruct (ksub_loop_transversal n k (cs_ref n k) (fun c => index_in c (cs_ref n k)) sort_ref
              (cs_ref_In n k) (cs_ref_NoDup n k)
              (fun i Hi => index_in_nth (cs_ref n k) i (cs_ref_NoDup n k) Hi)
              (fun l _ => sort_ref_spec l) gens GP) as [R [E T]].
  unfold ksub_ref. rewrite E. exact T.
Qed.

(* the brute-force labelling with the loop model for the k-subsets meets the specification *)
Theorem toy_loop_canon_spec : forall NN, canon_spec toy_canon ksub_ref NN.
Proof.
  intros NN. apply canon_spec_of_parts; [apply toy_label_ok| |apply ksub_ref_ok].
  intros g c W HN E. destruct (toy_get_aut g W) as (nb & _ & GA & ADJ).
  unfold answer in E. rewrite GA in E. inversion E; subst c. clear E.
  constructor.
  - destruct (toy_perm_spec g nb ADJ) as (p & P & Hp & _). exists p. auto.
  - apply toy_orb_spec; assumption.
  - split.
    + intros s Hs. apply (toy_gens_spec g nb ADJ). exact Hs.
    + intros a Ha. apply gen_in. apply (toy_gens_spec g nb ADJ). exact Ha.
  - intros vb c' _ GA'. rewrite GA in GA'. inversion GA'. left. reflexivity.
Qed.
