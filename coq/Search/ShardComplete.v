(* C03: the converse of ShardSim.outputs_spec: if the recursive presentation gives Some L (no
   panic anywhere in the tree) then the caller's loop over the model's Next ends, without panic,
   with exactly L ([spec_outputs]).  Together: for enough calls and fuel,
   outputs = Ok L  <->  spec = Some L. *)
From Coq Require Import List NArith ZArith Arith Bool Lia.
From Mamba Require Import Disjoint.Model Search.Model Search.SaveModel Search.SaveProofs.
From Mamba Require Import Search.ShardModel Search.ShardGraph Search.ShardSim.
Import ListNotations.
Local Open Scope nat_scope.

Ltac sst := unfold with_stacks, with_cache, with_graph, with_first;
  cbn [SN SA SM SFirst SG SCache SVB SChoices SPath].

Section Complete.
Variable grow : nat -> nat.
Variable canon : nat -> Z -> list (list nat) -> bool -> N -> cache.
Variable ksub_reps : nat -> nat -> list (list nat) -> list N.
Variables preprune prune : vgraph -> bool.
Hypothesis canon_novb : canon_ignores_stale_bits canon.
Variables n a m : nat.

Notation step' := (step grow canon ksub_reps preprune prune).
Notation collect' := (collect grow canon ksub_reps preprune prune).
Notation run' := (run grow canon ksub_reps preprune prune).
Notation next' := (next grow canon ksub_reps preprune prune).
Notation outputs' := (outputs grow canon ksub_reps preprune prune).
Notation child' := (child canon preprune prune).
Notation sibs' := (sibs canon preprune prune n a m).
Notation tree' := (tree canon ksub_reps preprune prune n a m).
Notation St := (mkState n a m false).
Notation par := (par).

Lemma collect_go : forall f p s p' s' L, step' p s = Go p' s' -> collect' f p' s' = Ok L ->
  collect' (S f) p s = Ok L.
Proof. intros f p s p' s' L H C. cbn [collect]. rewrite H. exact C. Qed.

(* what the run does after everything below g has been explored *)
Definition cont (g : vgraph) (ch : list N) (pa : list nat) (L2 : list vgraph) : Prop :=
  (ch = [] -> L2 = []) /\
  forall G' c' vb', ginv G' -> vis G' = g ->
    exists f, collect' f (Step false) (St G' c' vb' ch pa) = Ok L2.

Lemma retract_ok : forall sf G c vb ch pa g, par sf G g ->
  exists G' c', (if sf then Some (St G c vb ch pa) else retract (St G c vb ch pa)) =
                Some (St G' c' vb ch pa) /\ ginv G' /\ vis G' = g.
Proof.
  intros sf G c vb ch pa g [GI P]. destruct sf.
  - exists G, c. auto.
  - pose proof (remove_last_v_vis G) as V. rewrite P in V.
    destruct (remove_last G) as [G'|] eqn:R; [|discriminate]. cbn in V. inversion V.
    exists G', no_cache. unfold retract. cbn [SG]. rewrite R. sst.
    destruct (remove_last_ginv _ _ GI R) as [_ GI']. auto.
Qed.

Lemma step_for_0_ok : forall sf G c vb ch k pa g, par sf G g ->
  exists G' c', step' (For 0 sf) (St G c vb ch (k :: pa)) = Go (Step false) (St G' c' vb ch pa) /\
                ginv G' /\ vis G' = g.
Proof.
  intros sf G c vb ch k pa g P.
  destruct (retract_ok sf G c vb ch (k :: pa) g P) as (G' & c' & R & GI & V).
  exists G', c'. cbn [step]. rewrite R. sst. auto.
Qed.

Lemma step_for_S_ok : forall i sf G c vb x ch k pa g,
  par sf G g -> shape g -> nvv g = S (length pa) -> m <> 0 ->
  if skip n a m (nvv g) i
  then step' (For (S i) sf) (St G c vb (x :: ch) (k :: pa)) = Go (For i sf) (St G c vb ch (k :: pa))
  else match child' g x with
       | CCrash => True
       | CReject => exists G' c' vb',
           step' (For (S i) sf) (St G c vb (x :: ch) (k :: pa)) =
             Go (For i false) (St G' c' vb' ch (k :: pa)) /\ par false G' g
       | CAccept g' c' => exists G' vb',
           step' (For (S i) sf) (St G c vb (x :: ch) (k :: pa)) =
             Go (Outer false false) (St G' c' vb' ch (i :: pa)) /\
           vis G' = g' /\ par false G' g /\ shape g' /\ nvv g' = S (nvv g)
       end.
Proof.
  intros i sf G c vb x ch k pa g P SH LV M0.
  cbn [step SChoices SM SA SN SPath]. rewrite (proj2 (Nat.eqb_neq _ _) M0).
  unfold skip. cbn [length]. rewrite LV.
  destruct (negb (i mod m =? a) && (Z.of_nat (S (length pa)) =? split_level n)%Z); [reflexivity|].
  sst.
  destruct (retract_ok sf G c vb ch (k :: pa) g P) as (G0 & c0 & R & GI0 & V0). rewrite R.
  cbn [SG SVB SCache SPath SChoices SN SA SM SFirst].
  unfold child. rewrite add_v_eq.
  pose proof (add_vertex_vis grow G0 (bits_of x) (proj1 GI0)) as AVV. rewrite V0 in AVV.
  destruct (add_vertex_v g (bits_of x)) as [g'|] eqn:AV; [|exact I].
  destruct (add_vertex grow G0 (bits_of x)) as [G1|] eqn:AV1; [|discriminate].
  cbn [option_map] in AVV. inversion AVV as [V1].
  destruct (add_vertex_ginv _ _ _ _ GI0 AV1) as [_ GI1].
  assert (P1 : par false G1 g).
  { split; [exact GI1|]. rewrite V1. eapply remove_add_v; eauto. apply bits_of_NoDup. }
  destruct (add_vertex_v_shape' _ _ _ SH AV) as [SH1 NVV1].
  sst. rewrite V1.
  destruct (preprune g') eqn:PP.
  - exists G1, no_cache, vb. auto.
  - pose proof (is_canonical_nocache canon g' (bits_of x) vb 0%N) as IC.
    destruct (is_canonical canon g' (bits_of x) no_cache 0%N) as [[[b c1] vb1]|]; [|exact I].
    destruct (is_canonical canon g' (bits_of x) no_cache vb) as [[[b' c1'] vb1']|]; [|discriminate].
    cbn in IC. inversion IC; subst b' c1'.
    destruct (b && negb (prune g')).
    + exists G1, vb1'. sst. repeat split; auto; try apply P1; lia.
    + exists G1, c1, vb1'. sst. auto.
Qed.

(* Step false with the children xs still to try *)
Lemma step_false_ok : forall G c vb xs ch i pa,
  (xs ++ ch = [] /\ step' (Step false) (St G c vb (xs ++ ch) (i :: pa)) = Ret false (St G c vb (xs ++ ch) (i :: pa))) \/
  step' (Step false) (St G c vb (xs ++ ch) (i :: pa)) = Go (For i false) (St G c vb (xs ++ ch) (i :: pa)).
Proof.
  intros G c vb xs ch i pa. cbn [step SChoices SPath].
  destruct (xs ++ ch); [left; auto|right; reflexivity].
Qed.

Definition C_node (d : nat) : Prop :=
  forall g c L1, tree' d g c = Some L1 -> n = nvv g + d -> shape g ->
  forall G vb ch pa L2, ginv G -> vis G = g -> nvv g = S (length pa) -> cont g ch pa L2 ->
  exists f, collect' f (Outer false false) (St G c vb ch pa) = Ok (L1 ++ L2).

Lemma for_complete : forall d, C_node d ->
  forall g xs L1, sibs' (tree' d) g xs = Some L1 -> n = nvv g + S d -> shape g ->
  forall G c vb ch k pa sf L2, par sf G g -> nvv g = S (length pa) -> cont g ch pa L2 ->
  exists f, collect' f (For (length xs) sf) (St G c vb (xs ++ ch) (k :: pa)) = Ok (L1 ++ L2).
Proof.
  intros d CN g xs. induction xs as [|x xs IH]; intros L1 H ND SH G c vb ch k pa sf L2 P LV K.
  - cbn [sibs] in H. inversion H; subst L1. cbn [length app].
    destruct (step_for_0_ok sf G c vb ch k pa g P) as (G' & c' & ST & GI & V).
    destruct (proj2 K G' c' vb GI V) as [f C]. exists (S f). eapply collect_go; eauto.
  - cbn [sibs] in H. destruct (m =? 0) eqn:M0; [discriminate|]. apply Nat.eqb_neq in M0.
    pose proof (step_for_S_ok (length xs) sf G c vb x (xs ++ ch) k pa g P SH LV M0) as ST.
    rewrite nv_of_nvv in H. cbn [length app].
    destruct (skip n a m (nvv g) (length xs)).
    + destruct (IH L1 H ND SH G c vb ch k pa sf L2 P LV K) as [f C].
      exists (S f). eapply collect_go; eauto.
    + destruct (child' g x) as [| |g' c'] eqn:CH; [discriminate| |].
      * destruct ST as (G' & c' & vb' & ST & P').
        destruct (IH L1 H ND SH G' c' vb' ch k pa false L2 P' LV K) as [f C].
        exists (S f). eapply collect_go; eauto.
      * destruct ST as (G' & vb' & ST & V' & P' & SH' & NV').
        destruct (tree' d g' c') as [l1|] eqn:T1; [|discriminate].
        destruct (sibs' (tree' d) g xs) as [l2|] eqn:S2; [|discriminate].
        inversion H; subst L1.
        (* the continuation of the child: try the remaining children of g *)
        assert (K' : cont g' (xs ++ ch) (length xs :: pa) (l2 ++ L2)).
        { assert (E0 : xs ++ ch = [] -> l2 ++ L2 = []).
          { intros E. apply app_eq_nil in E. destruct E as [-> ->]. cbn [sibs] in S2.
            inversion S2; subst l2. rewrite (proj1 K eq_refl). reflexivity. }
          split; [exact E0|].
          intros G'' c'' vb'' GI'' V''.
          destruct (step_false_ok G'' c'' vb'' xs ch (length xs) pa) as [[E ST2]|ST2].
          - exists 1. cbn [collect]. rewrite ST2, (E0 E). reflexivity.
          - assert (P'' : par false G'' g).
            { split; [exact GI''|]. rewrite V'', <- V'. exact (proj2 P'). }
            destruct (IH l2 eq_refl ND SH G'' c'' vb'' ch (length xs) pa false L2 P'' LV K) as [f C].
            exists (S f). eapply collect_go; eauto. }
        destruct (CN g' c' l1 T1 ltac:(lia) SH' G' vb' (xs ++ ch) (length xs :: pa) (l2 ++ L2)
                    (proj1 P') V' ltac:(cbn [length]; lia) K') as [f C].
        exists (S f). rewrite <- app_assoc. eapply collect_go; eauto.
Qed.


Lemma node_complete : forall d, C_node d.
Proof.
  intros d. induction d as [|d IH]; intros g c L1 T ND SH G vb ch pa L2 GI V LV K.
  - cbn [tree] in T. inversion T; subst L1.
    destruct (proj2 K G c vb GI V) as [f C].
    exists (S (S f)). cbn [collect step SG SN].
    replace (NV G =? n) with true by (symmetry; apply Nat.eqb_eq; rewrite <- nvv_vis, V; lia).
    cbn [fmap_res collect step SG]. rewrite C, V. reflexivity.
  - cbn [tree] in T.
    destruct (add_augs canon ksub_reps g c 0) as [[masks c2]|] eqn:AA; [|discriminate].
    pose proof (add_augs_nonempty _ _ _ _ _ _ _ AA) as NE.
    destruct (for_complete d IH g (rev masks) L1 T ND SH G c2 vb ch (length (rev masks)) pa true L2
                (conj GI V) LV K) as [f C].
    exists (S (S f)). cbn [collect step SG SN SCache SVB].
    replace (NV G =? n) with false by (symmetry; apply Nat.eqb_neq; rewrite <- nvv_vis, V; lia).
    rewrite V, (add_augs_novb canon ksub_reps canon_novb g c vb 0%N), AA. sst.
    cbn [collect step SChoices SPath].
    assert (NE' : rev masks ++ ch <> []).
    { intros Q. apply app_eq_nil in Q. destruct Q as [Q _].
      apply (f_equal (@rev N)) in Q. rewrite rev_involutive in Q. auto. }
    destruct (rev masks ++ ch) as [|y ys] eqn:RM; [contradiction|]. rewrite <- RM in C |- *.
    rewrite <- (rev_length masks). exact C.
Qed.

(* ---------------------------------------------------------------- from one run to the caller's loop *)

Lemma run_mono : forall f p s r k, run' f p s = Ok r -> run' (f + k) p s = Ok r.
Proof.
  intros f. induction f as [|f IH]; intros p s r k H; [discriminate|]. cbn [run plus] in *.
  destruct (step' p s); auto.
Qed.

Lemma collect_run : forall f p s L, collect' f p s = Ok L ->
  match L with
  | [] => exists s', run' f p s = Ok (false, s')
  | g :: L' => exists s' f', run' f p s = Ok (true, s') /\ vis (SG s') = g /\
                             collect' f' (Outer true false) s' = Ok L'
  end.
Proof.
  intros f. induction f as [|f IH]; intros p s L H; [discriminate|]. cbn [collect run] in *.
  destruct (step' p s) as [p1 s1|[|] s1|]; try discriminate.
  - apply IH. exact H.
  - apply fmap_ok in H. destruct H as [L' [H ->]]. exists s1, f. auto.
  - inversion H; subst. eauto.
Qed.

Lemma next_mono : forall f s r k, next' f s = Ok r -> next' (f + k) s = Ok r.
Proof.
  intros f s r k H. unfold next in *.
  destruct (SN s) as [|[|n2]]; try exact H.
  destruct (SFirst s).
  - destruct (set_one (SG s)); [|exact H]. destruct (_ || _); [exact H|]. apply run_mono. exact H.
  - apply run_mono. exact H.
Qed.

Lemma outputs_mono_fuel : forall calls f s L k, outputs' calls f s = Ok L -> outputs' calls (f + k) s = Ok L.
Proof.
  intros calls. induction calls as [|c IH]; intros f s L k H; [discriminate|]. cbn [outputs] in *.
  destruct (next' f s) as [[b s']| |] eqn:NX; try discriminate.
  rewrite (next_mono _ _ _ k NX). destruct b; [|exact H].
  apply fmap_ok in H. destruct H as [L' [H ->]]. rewrite (IH _ _ _ k H). reflexivity.
Qed.

Lemma collect_outputs : forall L f s, SFirst s = false -> 2 <= SN s ->
  collect' f (Outer true false) s = Ok L ->
  exists calls fuel, outputs' calls fuel s = Ok L.
Proof.
  intros L. induction L as [|g L IH]; intros f s F N H.
  - apply collect_run in H. destruct H as [s' R]. exists 1, f.
    cbn [outputs]. rewrite (next_later _ _ _ _ _ f s F N), R. reflexivity.
  - apply collect_run in H. destruct H as (s' & f' & R & V & C).
    pose proof (run_frame _ _ _ _ _ _ _ _ _ _ R) as (F1 & _ & _ & F4).
    destruct (IH f' s' ltac:(congruence) ltac:(lia) C) as (calls' & fuel' & O').
    exists (S calls'), (f + fuel'). cbn [outputs].
    rewrite (next_later _ _ _ _ _ (f + fuel') s F N), (run_mono _ _ _ _ fuel' R), V.
    rewrite Nat.add_comm, (outputs_mono_fuel _ _ _ _ f O'). reflexivity.
Qed.

(* ---------------------------------------------------------------- the whole iterator *)

Theorem spec_outputs : forall L,
  spec canon ksub_reps preprune prune n a m = Some L ->
  exists calls fuel, outputs' calls fuel (init n a m) = Ok L.
Proof.
  intros L H.
  destruct (le_lt_dec 2 n) as [N2|N2].
  - rewrite (spec_ge2 canon ksub_reps preprune prune a m n N2) in H.
    destruct (next_first_ge2 grow canon ksub_reps preprune prune a m n N2) as (G1 & GI & V & NX).
    destruct (preprune g1 || prune g1) eqn:PR.
    + inversion H; subst L. exists 1, 1. cbn [outputs]. rewrite NX. reflexivity.
    + assert (K : cont g1 [] [] []).
      { split; [reflexivity|]. intros G' c' vb' _ _. exists 1. reflexivity. }
      destruct (node_complete (n - 1) g1 no_cache L H ltac:(cbn; lia) ltac:(unfold shape, g1; cbn; auto)
                  G1 0%N [] [] [] GI V eq_refl K) as [f C].
      rewrite app_nil_r in C.
      (* split the run at its first return *)
      apply collect_run in C. destruct L as [|g L].
      * destruct C as [s' R]. exists 1, f. cbn [outputs]. rewrite NX, R. reflexivity.
      * destruct C as (s' & f' & R & Vs & C).
        pose proof (run_frame _ _ _ _ _ _ _ _ _ _ R) as (F1 & _ & _ & F4). cbn in F1, F4.
        destruct (collect_outputs L f' s' F4 ltac:(lia) C) as (calls' & fuel' & O').
        exists (S calls'), (f + fuel'). cbn [outputs].
        rewrite NX, (run_mono _ _ _ _ fuel' R), Vs.
        rewrite Nat.add_comm, (outputs_mono_fuel _ _ _ _ f O'). reflexivity.
  - unfold spec in H. exists 2, 1. destruct n as [|[|n2]] eqn:En; [| |lia].
    + inversion H; subst L. cbn [outputs next init SN]. unfold first_test.
      cbn [SFirst SA SG init new_search_graph]. change (vis (new_search_graph 0)) with g0. cbn [andb].
      destruct ((a =? 0) && negb (preprune g0) && negb (prune g0)); reflexivity.
    + inversion H; subst L. cbn [outputs next init SN]. cbn. unfold first_test, vis. cbn.
      change (1, 0%Z, [0%Z], @nil N) with g1.
      destruct ((a =? 0) && negb (preprune g1) && negb (prune g1)); reflexivity.
Qed.

End Complete.
