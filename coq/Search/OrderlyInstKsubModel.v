(* C03 (orderly generation) — the k-subset orbit loop of addAugmentations (Search/OrderlyKsubModel.v,
   [ksub_loop]) with its three parameters instantiated by the Z-based models of the Go functions
   the real loop calls (definitions only; proofs in Search/OrderlyInstKsub.v):

     cs     itertools.CombinationsColex(n, k)   Iter/Model.v  [colex_init], [colex_next], [colex_value],
                                                drained by Iter/Enum.v [drain]                     (C15)
     rk     comb.Rank                           Comb/Model.v  [rank] (Panic on its overflow guards) (C16)
     sortl  ints.Sort                           IntSort/Model.v [sort]                             (C17)

   Values travel as lists of [nat] in [ksub_loop] and as lists of [Z] (Go ints) in these models:
   the conversions are [Z.of_nat] on the way in and [Z.to_nat] on the way out; a negative result
   (never produced: theorem) is refused like a panic, not truncated.

   A panic or exhausted fuel of any of the three models is [None], never a value: [ksub_real]
   first checks, on exactly the arguments the loop passes (for every value c of the iterator and
   every generator g: Sort(g(c)), then Rank of the sorted slice), that every call returns, and
   only then runs [ksub_loop] with the total wrappers [rk_tot], [sort_tot]; otherwise it is [None].
   [None] of [ksub_loop] itself is a panic of UnionBuffered (index out of range). *)
From Coq Require Import List NArith ZArith Arith Bool.
From Mamba Require Import Canon.AutModel Search.OrderlyKsubModel.
From Mamba Require Iter.Model Iter.Enum Comb.Model Comb.Spec Sortints.Base IntSort.Model.
Import ListNotations.
Local Open Scope nat_scope.

(* ---------------------------------------------------------------- CombinationsColex(n, k), drained *)

(* one call of Next per value and the call that reports exhaustion: C(n,k) + 1 calls
   ([fast_binom] of Comb/Spec.v is proved equal to the binomial coefficient in Comb/Binom.v) *)
Definition cs_fuel (n k : nat) : nat :=
  S (Z.to_nat (Comb.Spec.fast_binom (Z.of_nat n) (Z.of_nat k))).

Definition nat_list (x : list Z) : option (list nat) :=
  if forallb (fun v => (0 <=? v)%Z) x then Some (map Z.to_nat x) else None.

Fixpoint nat_lists (l : list (list Z)) : option (list (list nat)) :=
  match l with
  | [] => Some []
  | x :: t => match nat_list x, nat_lists t with
              | Some c, Some r => Some (c :: r)
              | _, _ => None
              end
  end.

(* None: a panic of Next, exhausted fuel (more than C(n,k) values), or a negative entry *)
Definition cs_real (n k : nat) : option (list (list nat)) :=
  match Iter.Enum.drain Iter.Model.colex_next Iter.Model.colex_value (cs_fuel n k)
          (Iter.Model.colex_init (Z.of_nat n) k) with
  | Some (l, _) => nat_lists l
  | None => None
  end.

(* ---------------------------------------------------------------- comb.Rank *)

(* None: a panic of Rank (overflow guard of Coeff / addHasOverflowed), or a negative result *)
Definition rk_real (c : list nat) : option nat :=
  match Comb.Model.rank (map Z.of_nat c) with
  | Comb.Model.Ret r => if (r <? 0)%Z then None else Some (Z.to_nat r)
  | Comb.Model.Panic => None
  | Comb.Model.OutOfFuel => None
  end.

(* ---------------------------------------------------------------- ints.Sort *)

(* None: a panic of Sort, exhausted fuel of one of its loops, or a negative entry *)
Definition sort_real (l : list nat) : option (list nat) :=
  match IntSort.Model.sort (map Z.of_nat l) with
  | Sortints.Base.Ret d => nat_list d
  | Sortints.Base.Panic => None
  | Sortints.Base.OutOfFuel => None
  end.

(* ---------------------------------------------------------------- the loop *)

(* total wrappers, used only after [calls_ok] has established that no call fails *)
Definition rk_tot (c : list nat) : nat := match rk_real c with Some r => r | None => 0 end.
Definition sort_tot (l : list nat) : list nat := match sort_real l with Some s => s | None => [] end.

(* the calls of the first pass: for every value c and every generator g, Sort(g(c)) and Rank of it *)
Definition call_ok (g : list nat) (c : list nat) : bool :=
  match sort_real (map (app g) c) with
  | Some s => match rk_real s with Some _ => true | None => false end
  | None => false
  end.

Definition calls_ok (cs : list (list nat)) (gens : list (list nat)) : bool :=
  forallb (fun c => forallb (fun g => call_ok g c) gens) cs.

Definition ksub_real (n k : nat) (gens : list (list nat)) : option (list N) :=
  match cs_real n k with
  | None => None
  | Some cs => if calls_ok cs gens then ksub_loop cs rk_tot sort_tot gens else None
  end.

(* the shape [ksub_reps] of Search/OrderlySpec.v; [] also stands for a failure, which
   [ksub_real_transversal] excludes *)
Definition ksub_real_fn (n k : nat) (gens : list (list nat)) : list N :=
  match ksub_real n k gens with Some r => r | None => [] end.
