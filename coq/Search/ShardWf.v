(* C03: every graph in the output of the recursive presentation is a well-formed graph on
   exactly n vertices ([spec_wf]); AddVertex preserves well-formedness ([add_v_wfv]). *)
From Coq Require Import List NArith ZArith Arith Bool Lia Permutation.
From Mamba Require Import Disjoint.Model Search.Model Search.SaveModel Search.SaveProofs.
From Mamba Require Import Search.ShardModel Search.ShardGraph.
Import ListNotations.
Local Open Scope nat_scope.

(* ---------------------------------------------------------------- counting *)

Lemma filter_map_length : forall {A B} (f : A -> B) (p : B -> bool) l,
  length (filter p (map f l)) = length (filter (fun a => p (f a)) l).
Proof.
  intros A B f p l. induction l as [|a l IH]; [reflexivity|]. cbn [map filter].
  destruct (p (f a)); cbn [length]; rewrite IH; reflexivity.
Qed.

Lemma memb_In : forall i nb, memb i nb = true <-> In i nb.
Proof.
  intros i nb. unfold memb. rewrite existsb_exists. split.
  - intros [x [H Q]]. apply Nat.eqb_eq in Q. now subst.
  - intros H. exists i. split; [assumption|apply Nat.eqb_refl].
Qed.

Lemma count_memb : forall nb nv, NoDup nb -> (forall v, In v nb -> v < nv) ->
  length (filter (fun i => memb i nb) (seq 0 nv)) = length nb.
Proof.
  intros nb nv ND LT. apply Permutation_length. apply NoDup_Permutation.
  - apply NoDup_filter, seq_NoDup.
  - exact ND.
  - intros x. rewrite filter_In, in_seq, memb_In. split; [tauto|]. intros H. split; [|exact H].
    specialize (LT x H). lia.
Qed.

Definition marks (nb : list nat) (nv : nat) : list N :=
  map (fun i => if memb i nb then 1%N else 0%N) (seq 0 nv).

Lemma marks_length : forall nb nv, length (marks nb nv) = nv.
Proof. intros. unfold marks. rewrite map_length, seq_length. reflexivity. Qed.

Lemma marks_nth : forall nb nv i, i < nv -> nth i (marks nb nv) 0%N = if memb i nb then 1%N else 0%N.
Proof.
  intros nb nv i H. unfold marks. set (f := fun i => if memb i nb then 1%N else 0%N).
  rewrite (nth_indep _ 0%N (f 0)) by (rewrite map_length, seq_length; exact H).
  rewrite (map_nth f), seq_nth by exact H. reflexivity.
Qed.

Lemma edge_index_lt : forall u v nv, u < nv -> v < nv -> u <> v -> edge_index u v < tri nv.
Proof.
  intros u v nv Hu Hv Huv. unfold edge_index. destruct (u <? v) eqn:Q.
  - apply Nat.ltb_lt in Q. pose proof (tri_S v). pose proof (tri_mono (S v) nv ltac:(lia)). lia.
  - apply Nat.ltb_ge in Q. pose proof (tri_S u). pose proof (tri_mono (S u) nv ltac:(lia)). lia.
Qed.

(* ---------------------------------------------------------------- AddVertex *)

Lemma add_v_marks : forall nv ne d e nb g', length d = nv -> length e = tri nv -> NoDup nb ->
  add_v (nv, ne, d, e) nb = Some g' ->
  exists d1, g' = (S nv, (ne + Z.of_nat (length nb))%Z, d1 ++ [Z.of_nat (length nb)], e ++ marks nb nv) /\
    length d1 = nv /\ (forall v, In v nb -> v < nv) /\
    (forall i, i < nv -> nth i d1 0%Z = (nth i d 0 + if memb i nb then 1 else 0)%Z).
Proof.
  intros nv ne d e nb g' HD HE ND H. unfold add_v in H.
  destruct (mark nb (tri nv) (e ++ repeat 0%N nv) d) as [[e1 d1]|] eqn:M; [|discriminate].
  inversion H; subst g'; clear H.
  destruct (mark_length _ _ _ _ _ _ M) as [Le1 Ld1]. rewrite app_length, repeat_length in Le1.
  destruct (mark_spec _ _ _ _ _ _ ND M) as (A & B & C & D).
  exists d1. split; [|split; [lia|split; [intros v Hv; rewrite <- HD; auto|]]].
  - f_equal. apply nth_error_ext. intros j.
    destruct (j <? tri nv) eqn:Q.
    + apply Nat.ltb_lt in Q. rewrite (B j Q). rewrite !nth_error_app1 by lia. reflexivity.
    + apply Nat.ltb_ge in Q. replace j with (tri nv + (j - tri nv)) by lia.
      rewrite (C (j - tri nv)). rewrite !nth_error_app2 by lia. rewrite HE.
      replace (tri nv + (j - tri nv) - tri nv) with (j - tri nv) by lia.
      destruct (j - tri nv <? nv) eqn:Q2.
      * apply Nat.ltb_lt in Q2. rewrite (nth_error_repeat _ Q2).
        rewrite (nth_error_nth' _ 0%N) by (rewrite marks_length; exact Q2).
        rewrite marks_nth by exact Q2. destruct (memb (j - tri nv) nb); reflexivity.
      * apply Nat.ltb_ge in Q2.
        rewrite (proj2 (nth_error_None (repeat 0%N nv) _)) by (rewrite repeat_length; exact Q2).
        rewrite (proj2 (nth_error_None (marks nb nv) _)) by (rewrite marks_length; exact Q2).
        destruct (memb (j - tri nv) nb) eqn:Mb; [|reflexivity].
        apply memb_In in Mb. specialize (A _ Mb). lia.
  - intros i Hi. specialize (D i).
    rewrite (nth_error_nth' d1 0%Z) in D by lia. rewrite (nth_error_nth' d 0%Z) in D by lia.
    destruct (memb i nb); cbn [option_map] in D; inversion D; lia.
Qed.

Theorem add_v_wfv : forall g nb g', wfv g -> NoDup nb -> add_v g nb = Some g' ->
  wfv g' /\ nv_of g' = S (nv_of g).
Proof.
  intros [[[nv ne] d] e] nb g' (HD & HE & H01 & HDeg & HNe) ND H.
  destruct (add_v_marks _ _ _ _ _ _ HD HE ND H) as (d1 & -> & Ld1 & LT & Dd).
  split; [|reflexivity]. unfold wfv.
  assert (CNT : ones (marks nb nv) = length nb).
  { unfold ones, marks. rewrite filter_map_length. rewrite <- (count_memb nb nv ND LT).
    f_equal. apply filter_ext. intros i. destruct (memb i nb); reflexivity. }
  split; [rewrite app_length; cbn; lia|].
  split; [rewrite app_length, marks_length, tri_S; lia|].
  split.
  { apply Forall_app. split; [exact H01|]. unfold marks. apply Forall_forall. intros b Hb.
    apply in_map_iff in Hb. destruct Hb as [i [<- _]]. destruct (memb i nb); auto. }
  split.
  - intros v Hv. unfold degree_of. rewrite seq_S, filter_app. cbn [plus filter].
    rewrite app_length.
    destruct (Nat.eq_dec v nv) as [->|Hne].
    + rewrite Nat.eqb_refl. cbn [negb andb length]. rewrite Nat.add_0_r.
      rewrite app_nth2 by lia. replace (nv - length d1) with 0 by lia. cbn [nth].
      rewrite <- (count_memb nb nv ND LT). f_equal. f_equal. apply filter_ext_in.
      intros u Hu. apply in_seq in Hu.
      replace (u =? nv) with false by (symmetry; apply Nat.eqb_neq; lia). cbn [negb andb].
      unfold edge_index. replace (u <? nv) with true by (symmetry; apply Nat.ltb_lt; lia).
      rewrite app_nth2 by lia. rewrite HE. replace (tri nv + u - tri nv) with u by lia.
      rewrite marks_nth by lia. destruct (memb u nb); reflexivity.
    + assert (Hv' : v < nv) by lia.
      rewrite app_nth1 by lia. rewrite (Dd v Hv'), (HDeg v Hv'). unfold degree_of.
      rewrite Nat2Z.inj_add. f_equal.
      * f_equal. f_equal. apply filter_ext_in. intros u Hu. apply in_seq in Hu.
        destruct (u =? v) eqn:Q; [reflexivity|]. apply Nat.eqb_neq in Q. cbn [negb andb].
        rewrite app_nth1; [reflexivity|]. rewrite HE. apply edge_index_lt; lia.
      * replace (nv =? v) with false by (symmetry; apply Nat.eqb_neq; lia). cbn [negb andb].
        unfold edge_index. replace (nv <? v) with false by (symmetry; apply Nat.ltb_ge; lia).
        rewrite app_nth2 by lia. rewrite HE. replace (tri nv + v - tri nv) with v by lia.
        rewrite marks_nth by lia. destruct (memb v nb); reflexivity.
  - unfold ones in CNT, HNe |- *. rewrite filter_app, app_length, CNT. lia.
Qed.

(* ---------------------------------------------------------------- the tree *)

Section Wf.
Variable canon : nat -> Z -> list (list nat) -> bool -> N -> cache.
Variable ksub_reps : nat -> nat -> list (list nat) -> list N.
Variables preprune prune : vgraph -> bool.
Variables n a m : nat.

Notation child' := (child canon preprune prune).
Notation sibs' := (sibs canon preprune prune n a m).
Notation tree' := (tree canon ksub_reps preprune prune n a m).

Lemma child_wfv : forall g x g' c, wfv g -> child' g x = CAccept g' c ->
  wfv g' /\ nv_of g' = S (nv_of g).
Proof.
  intros g x g' c W H. unfold child in H.
  destruct (add_v g (bits_of x)) as [g1|] eqn:AV; [|discriminate].
  destruct (preprune g1); [discriminate|].
  destruct (is_canonical _ _ _ _ _) as [[[b c1] vb]|]; [|discriminate].
  destruct (b && _); [|discriminate]. inversion H; subst.
  eapply add_v_wfv; eauto. apply bits_of_NoDup.
Qed.

Lemma sibs_wf : forall (rec : vgraph -> cache -> option (list vgraph)) (Q : vgraph -> Prop) g xs L,
  wfv g ->
  (forall g' c' L', wfv g' -> nv_of g' = S (nv_of g) -> rec g' c' = Some L' -> Forall Q L') ->
  sibs' rec g xs = Some L -> Forall Q L.
Proof.
  intros rec Q g xs. induction xs as [|x xs IH]; intros L W R H; cbn [sibs] in H.
  - inversion H. constructor.
  - destruct (m =? 0); [discriminate|].
    destruct (skip n a m (nv_of g) (length xs)); [eauto|].
    destruct (child' g x) as [| |g' c'] eqn:CH; [discriminate|eauto|].
    destruct (rec g' c') as [l1|] eqn:R1; [|discriminate].
    destruct (sibs' rec g xs) as [l2|]; [|discriminate]. inversion H; subst L.
    destruct (child_wfv _ _ _ _ W CH) as [W' NV'].
    apply Forall_app. split; [eapply R; eauto|eapply IH; eauto].
Qed.

Lemma tree_wf : forall d g c L, wfv g -> tree' d g c = Some L ->
  Forall (wf_graph (nv_of g + d)) L.
Proof.
  intros d. induction d as [|d IH]; intros g c L W H; cbn [tree] in H.
  - inversion H; subst. constructor; [|constructor]. split; [|exact W].
    destruct g as [[[nv ne] dd] e]. cbn. lia.
  - destruct (add_augs canon ksub_reps g c 0) as [[masks c2]|]; [|discriminate].
    eapply sibs_wf; [exact W| |exact H].
    intros g' c' L' W' NV' R. specialize (IH g' c' L' W' R).
    replace (nv_of g + S d) with (nv_of g' + d) by lia. exact IH.
Qed.

Lemma wfv_g0 : wfv g0.
Proof. unfold wfv, g0. cbn. repeat split; auto. intros v Hv. lia. Qed.

Lemma wfv_g1 : wfv g1.
Proof.
  unfold wfv, g1. cbn. repeat split; auto. intros v Hv.
  destruct v; [reflexivity|lia].
Qed.

Theorem spec_wf : forall L, spec canon ksub_reps preprune prune n a m = Some L ->
  Forall (wf_graph n) L.
Proof.
  intros L H. unfold spec in H.
  destruct n as [|[|n2]] eqn:En.
  - inversion H; subst L. destruct (_ && _); constructor; [|constructor].
    split; [reflexivity|exact wfv_g0].
  - inversion H; subst L. destruct (_ && _); constructor; [|constructor].
    split; [reflexivity|exact wfv_g1].
  - destruct (preprune g1 || prune g1); [inversion H; constructor|].
    rewrite <- En in H. apply tree_wf in H; [|exact wfv_g1].
    rewrite <- En. replace (nv_of g1 + (n - 1)) with n in H by (cbn; lia). exact H.
Qed.

End Wf.
