(* C03 (orderly generation) — the recursive presentation [tree] of the unsplit, unpruned search
   as a sequence of levels ([level], [tree_level]); one step of the search: trying an
   augmentation ([kid_spec]), all children of a node ([kids_spec]); permutations fixing the
   last point, extended by a fixed point, transpositions. *)
From Coq Require Import List NArith ZArith Arith Bool Lia Permutation.
From Mamba Require Import Disjoint.Model Disjoint.Proofs.
From Mamba Require Import Search.Model Search.ShardModel Search.ShardGraph Search.ShardWf Search.Prune.
From Mamba Require Import Canon.AutBase Canon.Aut Canon.Group.
From Mamba Require Import Search.OrderlyBase Search.OrderlyGraph Search.OrderlySpec Search.OrderlyCanon Search.OrderlyAugs.
Import ListNotations.
Local Open Scope nat_scope.

(* ---------------------------------------------------------------- permutations *)

Lemma app_map_seq : forall (f : nat -> nat) k j, j < k -> app (map f (seq 0 k)) j = f j.
Proof.
  intros f k j Hj. unfold app.
  rewrite (nth_indep _ j (f 0)) by (rewrite map_length, seq_length; exact Hj).
  rewrite (map_nth f), seq_nth by exact Hj. reflexivity.
Qed.

Lemma is_perm_map_seq : forall (f : nat -> nat) k,
  (forall j, j < k -> f j < k) -> (forall i j, i < k -> j < k -> f i = f j -> i = j) ->
  is_perm k (map f (seq 0 k)).
Proof.
  intros f k Hlt Hinj. split; [rewrite map_length, seq_length; reflexivity|]. split.
  - assert (G : forall l, NoDup l -> (forall x, In x l -> x < k) -> NoDup (map f l)).
    { induction l as [|a l IH]; intros ND H; cbn [map]; [constructor|].
      inversion ND; subst. constructor.
      - intros Hin. apply in_map_iff in Hin. destruct Hin as [b [E Hb]].
        assert (b = a) by (apply Hinj; [apply H; right; exact Hb|apply H; left; reflexivity|exact E]).
        subst b. contradiction.
      - apply IH; [assumption|]. intros x Hx. apply H. right. exact Hx. }
    apply G; [apply seq_NoDup|]. intros x Hx. apply in_seq in Hx. lia.
  - apply Forall_forall. intros x Hx. apply in_map_iff in Hx. destruct Hx as [j [<- Hj]].
    apply in_seq in Hj. apply Hlt. lia.
Qed.

(* the restriction of a permutation of 0..k fixing k *)
Definition prestrict (k : nat) (p : perm) : perm := map (app p) (seq 0 k).

Lemma prestrict_perm : forall k p, is_perm (S k) p -> app p k = k -> is_perm k (prestrict k p).
Proof.
  intros k p Hp Hk. apply is_perm_map_seq.
  - intros j Hj. pose proof (app_lt (S k) p j Hp ltac:(lia)) as H.
    assert (app p j <> k); [|lia]. intros E.
    assert (E' : app p j = app p k) by congruence.
    apply (app_inj (S k) p) in E'; [lia|exact Hp|lia|lia].
  - intros i j Hi Hj E. apply (app_inj (S k) p); [exact Hp|lia|lia|exact E].
Qed.

Lemma prestrict_app : forall k p j, j < k -> app (prestrict k p) j = app p j.
Proof. intros k p j Hj. unfold prestrict. apply app_map_seq. exact Hj. Qed.

(* the extension of a permutation of 0..k-1 by the fixed point k *)
Definition pextend (k : nat) (p : perm) : perm :=
  map (fun j => if j <? k then app p j else k) (seq 0 (S k)).

Lemma pextend_app_lt : forall k p j, j < k -> app (pextend k p) j = app p j.
Proof.
  intros k p j Hj. unfold pextend. rewrite app_map_seq by lia.
  replace (j <? k) with true by (symmetry; apply Nat.ltb_lt; exact Hj). reflexivity.
Qed.

Lemma pextend_app_k : forall k p, app (pextend k p) k = k.
Proof.
  intros k p. unfold pextend. rewrite app_map_seq by lia. rewrite Nat.ltb_irrefl. reflexivity.
Qed.

Lemma pextend_perm : forall k p, is_perm k p -> is_perm (S k) (pextend k p).
Proof.
  intros k p Hp. apply is_perm_map_seq.
  - intros j Hj. destruct (Nat.ltb_spec j k) as [H|H]; [|lia].
    pose proof (app_lt k p j Hp H). lia.
  - intros i j Hi Hj E.
    destruct (Nat.ltb_spec i k) as [H1|H1]; destruct (Nat.ltb_spec j k) as [H2|H2].
    + apply (app_inj k p); assumption.
    + pose proof (app_lt k p i Hp H1). lia.
    + pose proof (app_lt k p j Hp H2). lia.
    + lia.
Qed.

(* the transposition of v and k *)
Definition ptrans (k v : nat) : perm :=
  map (fun i => if i =? v then k else if i =? k then v else i) (seq 0 (S k)).

Lemma ptrans_app : forall k v i, i < S k ->
  app (ptrans k v) i = if i =? v then k else if i =? k then v else i.
Proof. intros k v i Hi. unfold ptrans. apply app_map_seq. exact Hi. Qed.

Lemma ptrans_perm : forall k v, v <= k -> is_perm (S k) (ptrans k v).
Proof.
  intros k v Hv. apply is_perm_map_seq.
  - intros j Hj. destruct (j =? v); [lia|]. destruct (j =? k); lia.
  - intros i j Hi Hj.
    destruct (Nat.eqb_spec i v); destruct (Nat.eqb_spec j v);
    destruct (Nat.eqb_spec i k); destruct (Nat.eqb_spec j k); lia.
Qed.

Lemma ptrans_app_k : forall k v, v <= k -> app (ptrans k v) k = v.
Proof.
  intros k v Hv. rewrite ptrans_app by lia. destruct (Nat.eqb_spec k v); [lia|].
  rewrite Nat.eqb_refl. reflexivity.
Qed.

(* ---------------------------------------------------------------- levels *)

Definition node := (vgraph * cache)%type.

Section Levels.
Variable canon : nat -> Z -> list (list nat) -> bool -> N -> cache.
Variable ksub_reps : nat -> nat -> list (list nat) -> list N.

(* the accepted child of g for the augmentation x, if any *)
Definition kid (g : vgraph) (x : N) : list node :=
  match child canon no_prune no_prune g x with
  | CAccept g' c' => [(g', c')]
  | _ => []
  end.

(* all accepted children, in the order in which the search visits them *)
Definition kids (t : node) : list node :=
  match add_augs canon ksub_reps (fst t) (snd t) 0%N with
  | None => []
  | Some (masks, _) => flat_map (kid (fst t)) (rev masks)
  end.

Fixpoint level (d : nat) (ts : list node) : list node :=
  match d with
  | 0 => ts
  | S d' => level d' (flat_map kids ts)
  end.

Lemma level_nil : forall d, level d [] = [].
Proof. induction d as [|d IH]; [reflexivity|exact IH]. Qed.

Lemma level_app : forall d l1 l2, level d (l1 ++ l2) = level d l1 ++ level d l2.
Proof.
  induction d as [|d IH]; intros l1 l2; [reflexivity|]. cbn [level]. rewrite flat_map_app. apply IH.
Qed.

Lemma level_S_end : forall d ts, level (S d) ts = flat_map kids (level d ts).
Proof.
  induction d as [|d IH]; intros ts; [reflexivity|].
  change (level (S (S d)) ts) with (level (S d) (flat_map kids ts)). rewrite IH. reflexivity.
Qed.

Variable NN : nat.
Hypothesis HC : canon_spec canon ksub_reps NN.

Definition good (t : node) : Prop :=
  wfv (fst t) /\ 1 <= nv_of (fst t) /\ cache_good canon (fst t) (snd t).

Lemma cdel_orb : forall g x y, wfv g -> 1 <= nv_of g <= NN -> cdel canon g x -> cdel canon g y ->
  orbA (nv_of g) (vadj g) x y.
Proof.
  intros g x y W HN Cx Cy.
  destruct Cx as (c & p & w & E & P & F & O). destruct Cy as (c2 & p2 & w2 & E2 & P2 & F2 & O2).
  rewrite E in E2. inversion E2; subst c2. rewrite P in P2. inversion P2; subst p2.
  rewrite F in F2. inversion F2; subst w2.
  pose proof (proj2 HC g c W HN E) as OK. destruct (ok_perm _ _ _ _ OK) as [p' [P1 Hp]].
  rewrite P in P1. inversion P1; subst p'.
  destruct (find_perm_lt _ _ _ _ Hp F) as [Hw _].
  eapply orbA_trans; [|exact O2]. apply orbA_sym; assumption.
Qed.

(* trying one augmentation *)
Lemma kid_spec : forall g x, wfv g -> 1 <= nv_of g -> S (nv_of g) <= NN ->
  (forall v, In v (bits_of x) -> v < nv_of g) ->
  exists g', add_v g (bits_of x) = Some g' /\ wfv g' /\ nv_of g' = S (nv_of g) /\
    (forall i j, i < nv_of g -> j < nv_of g -> vadj g' i j = vadj g i j) /\
    (forall j, j < nv_of g -> vadj g' j (nv_of g) = true <-> In j (bits_of x)) /\
    child canon no_prune no_prune g x <> CCrash /\
    ((kid g x = [] /\ ~ cdel canon g' (nv_of g)) \/
     (exists c', kid g x = [(g', c')] /\ cdel canon g' (nv_of g) /\ cache_good canon g' c')).
Proof.
  intros g x W H1 HN V.
  destruct (add_v_ok g (bits_of x) W (bits_of_NoDup x) V) as (g' & AV & W' & NV' & ADJ & NEW).
  assert (NEW' : forall j, j < nv_of g -> vadj g' j (nv_of g) = true <-> In j (bits_of x)).
  { intros j Hj. rewrite (NEW j Hj). apply smemb_In. }
  exists g'. split; [exact AV|]. split; [exact W'|]. split; [exact NV'|]. split; [exact ADJ|].
  split; [exact NEW'|].
  destruct (is_canonical_cdel canon ksub_reps NN HC g' (bits_of x) W' ltac:(lia) (bits_of_NoDup x))
    as (b & c & vb & IC & BC & CG).
  { intros j. rewrite NV'. replace (S (nv_of g) - 1) with (nv_of g) by lia. split.
    - intros Hj. split; [apply V; exact Hj|]. apply NEW'; [apply V; exact Hj|exact Hj].
    - intros [Hj Q]. apply NEW'; assumption. }
  rewrite NV' in BC. replace (S (nv_of g) - 1) with (nv_of g) in BC by lia.
  unfold kid, child. rewrite AV. unfold no_prune at 1 3. rewrite IC. unfold no_prune.
  rewrite andb_true_r. destruct b.
  - split; [discriminate|]. right. exists c. split; [reflexivity|]. split; [apply BC; reflexivity|exact CG].
  - split; [discriminate|]. left. split; [reflexivity|]. intros C. apply BC in C. discriminate.
Qed.

(* all augmentations of a node *)
Lemma kids_spec : forall t, good t -> nv_of (fst t) <= NN ->
  exists masks c', add_augs canon ksub_reps (fst t) (snd t) 0%N = Some (masks, c') /\
    kids t = flat_map (kid (fst t)) (rev masks) /\
    (forall x, In x masks -> forall v, In v (bits_of x) -> v < nv_of (fst t)) /\
    (forall S, NoDup S -> (forall v, In v S -> v < nv_of (fst t)) ->
       (forall u, u < nv_of (fst t) ->
          (Z.of_nat (length S) <= zdeg (nv_of (fst t)) (vadj (fst t)) u + 1)%Z) ->
       exists x, In x masks /\ sub_equiv (nv_of (fst t)) (vadj (fst t)) S (bits_of x)) /\
    ForallOrdPairs (noneq (fst t)) masks.
Proof.
  intros [g c] (W & H1 & CG) HN. cbn [fst snd] in *.
  destruct (add_augs_spec canon ksub_reps NN HC g c W ltac:(lia) CG) as (masks & c' & AA & V & CO & FO).
  exists masks, c'. split; [exact AA|]. split; [unfold kids; cbn [fst snd]; rewrite AA; reflexivity|].
  auto.
Qed.

Lemma kids_good : forall t t', good t -> S (nv_of (fst t)) <= NN -> In t' (kids t) ->
  good t' /\ nv_of (fst t') = S (nv_of (fst t)).
Proof.
  intros t t' G HN Hin.
  destruct (kids_spec t G ltac:(lia)) as (masks & c' & AA & KE & V & _ & _).
  rewrite KE in Hin. apply in_flat_map in Hin. destruct Hin as [x [Hx Hin]].
  apply in_rev in Hx. destruct G as (W & H1 & CG).
  destruct (kid_spec (fst t) x W H1 HN (V x Hx)) as (g' & AV & W' & NV' & _ & _ & _ & [[K _]|[c1 [K [_ CG']]]]).
  - rewrite K in Hin. destruct Hin.
  - rewrite K in Hin. destruct Hin as [<-|[]]. unfold good. cbn [fst snd]. split; [|exact NV'].
    split; [exact W'|]. split; [lia|exact CG'].
Qed.

Lemma level_good : forall d ts k, (forall t, In t ts -> good t /\ nv_of (fst t) = k) -> k + d <= NN ->
  forall t, In t (level d ts) -> good t /\ nv_of (fst t) = k + d.
Proof.
  induction d as [|d IH]; intros ts k H HN t Hin; cbn [level] in Hin.
  - rewrite Nat.add_0_r. apply H. exact Hin.
  - replace (k + S d) with (S k + d) by lia. apply (IH (flat_map kids ts) (S k)); [|lia|exact Hin].
    intros t' Hin'. apply in_flat_map in Hin'. destruct Hin' as [t0 [H0 Hin']].
    destruct (H t0 H0) as [G0 N0]. rewrite <- N0. apply kids_good; [exact G0|lia|exact Hin'].
Qed.

(* ---------------------------------------------------------------- the recursive presentation *)

Variable n : nat.
Notation tree0 := (tree canon ksub_reps no_prune no_prune n 0 1).
Notation sibs0 := (sibs canon no_prune no_prune n 0 1).

Lemma skip_unsplit : forall lvl i, skip n 0 1 lvl i = false.
Proof. intros lvl i. unfold skip. rewrite Nat.mod_1_r. reflexivity. Qed.

Lemma sibs_level : forall d g xs, wfv g -> 1 <= nv_of g -> S (nv_of g) <= NN ->
  (forall g' c', good (g', c') -> nv_of g' = S (nv_of g) -> tree0 d g' c' = Some (map fst (level d [(g', c')]))) ->
  (forall x, In x xs -> forall v, In v (bits_of x) -> v < nv_of g) ->
  sibs0 (tree0 d) g xs = Some (map fst (level d (flat_map (kid g) xs))).
Proof.
  intros d g xs W H1 HN REC. induction xs as [|x xs IH]; intros V; cbn [sibs flat_map].
  - rewrite level_nil. reflexivity.
  - change (1 =? 0) with false. cbv iota. rewrite skip_unsplit.
    specialize (IH (fun y Hy => V y (or_intror Hy))).
    destruct (kid_spec g x W H1 HN (V x (or_introl eq_refl)))
      as (g' & AV & W' & NV' & _ & _ & NC & [[K _]|[c1 [K [_ CG']]]]).
    + rewrite K. unfold kid in K. destruct (child canon no_prune no_prune g x) as [| |g2 c2] eqn:CH;
        [contradiction|rewrite IH; reflexivity|discriminate].
    + rewrite K. unfold kid in K. destruct (child canon no_prune no_prune g x) as [| |g2 c2] eqn:CH;
        [contradiction|discriminate|]. inversion K; subst g2 c2.
      rewrite (REC g' c1); [|split; [exact W'|split; [cbn [fst]; lia|exact CG']]|exact NV'].
      rewrite IH. rewrite level_app, map_app. reflexivity.
Qed.

Theorem tree_level : forall d t, good t -> nv_of (fst t) + d <= NN ->
  tree0 d (fst t) (snd t) = Some (map fst (level d [t])).
Proof.
  induction d as [|d IH]; intros [g c] G HN; cbn [fst snd] in *; [reflexivity|].
  cbn [tree].
  assert (HN0 : nv_of (fst (g, c)) <= NN) by (cbn [fst]; lia).
  destruct (kids_spec (g, c) G HN0) as (masks & c' & AA & KE & V & _ & _). cbn [fst snd] in *.
  rewrite AA. destruct G as (W & H1 & CG). cbn [fst snd] in *.
  rewrite (sibs_level d g (rev masks) W H1 ltac:(lia)).
  - cbn [level flat_map]. rewrite app_nil_r, KE. reflexivity.
  - intros g' c1 G' NV'. apply (IH (g', c1) G'). cbn [fst]. lia.
  - intros x Hx. apply V. apply in_rev. exact Hx.
Qed.

End Levels.
