(* C04: definitions used to state the save / load theorems about the model of
   graph/search/search_all.go in Search/Model.v (definitions only; proofs in SaveProofs.v).

   [save], [load], [proj] are in Model.v.  Here:
   - [inv]: what holds of the iterator between two calls of Next (lengths of the visible slices,
     the first element of the backing array of DegreeSequence while the graph is still empty,
     the depth of the DFS stack, no automorphism group cached before the first call);
   - [advance]: k calls of Next with what the caller sees after each (the answer of Next and,
     when it is true, the visible graph returned by Value);
   - [chain]: advance, Save, Load, continue with the loaded iterator, and so on;
   - [reachable]: the states a program can be in between two calls of Next, starting from
     WithPruning and using Next and Load(Save(.)) in any order. *)
From Coq Require Import List NArith ZArith Arith Bool.
From Mamba Require Import Disjoint.Model Search.Model.
Import ListNotations.
Local Open Scope nat_scope.

Definition ginv (g : dense) : Prop :=
  length (Edg g) = tri (NV g) /\ length (Deg g) = NV g.

(* between two calls of Next *)
Definition inv (s : state) : Prop :=
  ginv (SG s) /\
  NV (SG s) <= SN s /\
  (NV (SG s) = 0 -> firstn 1 (DegTail (SG s)) = firstn 1 (repeat 0%Z (SN s))) /\
  (SFirst s = true -> SPath s = [] /\ SCache s = no_cache) /\
  (SFirst s = false -> 2 <= SN s -> NV (SG s) = S (length (SPath s))) /\
  (SFirst s = true \/ SN s <= 1 -> NV (SG s) <= 1).

(* inside Next, at program point p (only reached when n >= 2 and first = false) *)
Definition pinv (p : pc) (s : state) : Prop :=
  ginv (SG s) /\ SFirst s = false /\ 2 <= SN s /\
  match p with
  | Outer true true => False
  | Step true => S (NV (SG s)) <= SN s /\ NV (SG s) = length (SPath s) /\ SChoices s <> []
  | For _ true => S (NV (SG s)) <= SN s /\ NV (SG s) = length (SPath s)
  | _ => NV (SG s) <= SN s /\ NV (SG s) = S (length (SPath s))
  end.

(* what the caller sees after one call: None = Next answered false, Some g = Next answered
   true and Value() shows g (NumberOfVertices, NumberOfEdges, DegreeSequence, Edges) *)
Definition obs := option vgraph.
Definition observe (b : bool) (s : state) : obs := if b then Some (vis (SG s)) else None.

(* ---------------------------------------------------------------- the invariant as a test
   (run by the model driver on states dumped from /repo).  [inv_vis_b]: the clauses about the
   saved projection; [inv_hid_b]: the clauses about what is not saved (first element of the
   hidden part of DegreeSequence while the graph is empty, no cached group before the first
   call). *)
Definition cache_is_empty (c : cache) : bool :=
  match CPerm c, COrb c, CGens c with
  | None, [], [] => true
  | _, _, _ => false
  end.

Definition inv_vis_b (s : state) : bool :=
  let g := SG s in
  (length (Edg g) =? tri (NV g)) && (length (Deg g) =? NV g) && (NV g <=? SN s) &&
  (if SFirst s then match SPath s with [] => true | _ => false end
   else if 2 <=? SN s then NV g =? S (length (SPath s)) else true) &&
  (if SFirst s || (SN s <=? 1) then NV g <=? 1 else true).

Definition inv_hid_b (s : state) : bool :=
  (if NV (SG s) =? 0
   then match SN s, DegTail (SG s) with
        | 0, [] => true
        | S _, z :: _ => (z =? 0)%Z
        | _, _ => false
        end
   else true) &&
  (if SFirst s then cache_is_empty (SCache s) else true).

Definition inv_b (s : state) : bool := inv_vis_b s && inv_hid_b s.

Section SaveModel.
Variable grow : nat -> nat.
Variable canon : nat -> Z -> list (list nat) -> bool -> N -> cache.
Variable ksub_reps : nat -> nat -> list (list nat) -> list N.
Variables preprune prune : vgraph -> bool.

Definition next' := next grow canon ksub_reps preprune prune.

(* k calls of Next: the observations made and where it ended (Ok s, or Panic / Fuel at the
   call after the listed observations) *)
Fixpoint advance (fuel k : nat) (s : state) : list obs * res state :=
  match k with
  | 0 => ([], Ok s)
  | S k' =>
    match next' fuel s with
    | Ok (b, s') => let '(os, r) := advance fuel k' s' in (observe b s' :: os, r)
    | Panic => ([], Panic)
    | Fuel => ([], Fuel)
    end
  end.

(* for each j of js: j calls of Next, then Save and Load, continuing with the loaded iterator;
   a failing Load (slice bound out of range) is Panic *)
Fixpoint chain (fuel : nat) (js : list nat) (s : state) : list obs * res state :=
  match js with
  | [] => ([], Ok s)
  | j :: js' =>
    match advance fuel j s with
    | (os, Ok s1) =>
      match load (save s1) with
      | Some s2 => let '(os', r) := chain fuel js' s2 in (os ++ os', r)
      | None => (os, Panic)
      end
    | (os, r) => (os, r)
    end
  end.

(* chain, then k more calls on the last loaded iterator *)
Definition chain_then (fuel : nat) (js : list nat) (k : nat) (s : state) : list obs * res state :=
  match chain fuel js s with
  | (os, Ok s1) => let '(os', r) := advance fuel k s1 in (os ++ os', r)
  | (os, r) => (os, r)
  end.

Inductive reachable : state -> Prop :=
| r_init n a m : reachable (init n a m)
| r_next fuel s b s' : reachable s -> next' fuel s = Ok (b, s') -> reachable s'
| r_load s s' : reachable s -> load (save s) = Some s' -> reachable s'.

End SaveModel.

(* two end points agree: same kind, and equal saved projections when both are states *)
Definition end_eq (r1 r2 : res state) : Prop :=
  match r1, r2 with
  | Ok s1, Ok s2 => proj s1 = proj s2
  | Panic, Panic => True
  | Fuel, Fuel => True
  | _, _ => False
  end.

(* results of one call agree: same answer and equal saved projections, or both panic, or both
   run out of fuel *)
Definition res_rel (r1 r2 : res (bool * state)) : Prop :=
  match r1, r2 with
  | Ok (b1, s1), Ok (b2, s2) => b1 = b2 /\ proj s1 = proj s2
  | Panic, Panic => True
  | Fuel, Fuel => True
  | _, _ => False
  end.

(* the hypothesis on the canonical labelling: with CheckViability = false the (stale) value of
   options.ViableBits is not read *)
Definition canon_ignores_stale_bits (canon : nat -> Z -> list (list nat) -> bool -> N -> cache) :=
  forall n m nb vb vb', canon n m nb false vb = canon n m nb false vb'.

Definition trace_eq (t1 t2 : list obs * res state) : Prop :=
  fst t1 = fst t2 /\ end_eq (snd t1) (snd t2).
