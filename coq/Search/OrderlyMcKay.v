(* C03 (orderly generation) — McKay's canonical construction path theorem (Isomorph-free
   exhaustive generation, J. Algorithms 26 (1998), Theorem 1) for the levels of the search
   model: level j of the unsplit, unpruned search holds exactly one graph of every isomorphism
   class of graphs on j+1 vertices ([levels_transversal]).

   (a) [parent_unique]: if two accepted children are isomorphic then there is an isomorphism
       fixing the new vertex; it restricts to an isomorphism of the parents mapping one
       neighbourhood to the other;
   (b) hence two isomorphic accepted children of one parent come from neighbourhoods in one
       orbit of Aut(parent), i.e. from the same representative;
   (c) [extension_complete]: for a graph H whose last vertex lies in the canonical deletion
       orbit and a node isomorphic to H minus that vertex, some accepted child of the node is
       isomorphic to H. *)
From Coq Require Import List NArith ZArith Arith Bool Lia Permutation.
From Mamba Require Import Disjoint.Model Disjoint.Proofs.
From Mamba Require Import Search.Model Search.ShardModel Search.ShardGraph Search.ShardWf Search.Prune.
From Mamba Require Import Canon.AutBase Canon.Aut Canon.Group.
From Mamba Require Import Search.OrderlyBase Search.OrderlyGraph Search.OrderlySpec Search.OrderlyCanon.
From Mamba Require Import Search.OrderlyAugs Search.OrderlyLevels.
Import ListNotations.
Local Open Scope nat_scope.

Section McKay.
Variable canon : nat -> Z -> list (list nat) -> bool -> N -> cache.
Variable ksub_reps : nat -> nat -> list (list nat) -> list N.
Variable NN : nat.
Hypothesis HC : canon_spec canon ksub_reps NN.

Notation cdel' := (cdel canon).
Notation kid' := (kid canon).
Notation kids' := (kids canon ksub_reps).
Notation level' := (level canon ksub_reps).
Notation good' := (good canon).

(* g' is g with a new last vertex joined to the set x *)
Definition ext_of (g : vgraph) (x : N) (g' : vgraph) : Prop :=
  wfv g' /\ nv_of g' = S (nv_of g) /\
  (forall i j, i < nv_of g -> j < nv_of g -> vadj g' i j = vadj g i j) /\
  (forall j, j < nv_of g -> vadj g' j (nv_of g) = true <-> In j (bits_of x)).

Lemma kid_in : forall g x t', wfv g -> 1 <= nv_of g -> S (nv_of g) <= NN ->
  (forall v, In v (bits_of x) -> v < nv_of g) -> In t' (kid' g x) ->
  ext_of g x (fst t') /\ cdel' (fst t') (nv_of g).
Proof.
  intros g x t' W H1 HN V Hin.
  destruct (kid_spec canon ksub_reps NN HC g x W H1 HN V)
    as (g' & _ & W' & NV' & AD & NW & _ & [[K _]|[c' [K [C _]]]]); rewrite K in Hin.
  - destruct Hin.
  - destruct Hin as [<-|[]]. cbn [fst]. split; [|exact C]. split; [exact W'|]. auto.
Qed.

(* two graphs on the same number of vertices are isomorphic *)
Definition viso (g h : vgraph) : Prop := exists q, isoP (nv_of g) (vadj g) (vadj h) q.

(* (a) *)
Lemma parent_unique : forall k g1 g2 x1 x2 g1' g2' q,
  1 <= k -> S k <= NN -> nv_of g1 = k -> nv_of g2 = k ->
  ext_of g1 x1 g1' -> ext_of g2 x2 g2' -> cdel' g1' k -> cdel' g2' k ->
  isoP (S k) (vadj g1') (vadj g2') q ->
  exists r, isoP k (vadj g1) (vadj g2) r /\
    forall j, j < k -> (In j (bits_of x2) <-> In (app r j) (bits_of x1)).
Proof.
  intros k g1 g2 x1 x2 g1' g2' q H1 HN N1 N2 (W1 & NV1 & AD1 & NW1) (W2 & NV2 & AD2 & NW2) C1 C2 Hq.
  rewrite N1 in *. rewrite N2 in *.
  assert (HN1 : 1 <= nv_of g1' <= NN) by lia.
  (* move q(k) back to k by an automorphism of g1' *)
  assert (C3 : cdel' g1' (app q k)).
  { apply (cdel_iso canon ksub_reps NN HC g1' g2' q k W1 W2); [lia|exact HN1|rewrite NV1; exact Hq|exact C2]. }
  destruct (cdel_orb canon ksub_reps NN HC g1' (app q k) k W1 HN1 C3 C1) as [b [Hb Eb]].
  rewrite NV1 in Hb.
  set (psi := compose b q).
  assert (Ipsi : isoP (S k) (vadj g1') (vadj g2') psi).
  { apply isoP_comp with (B := vadj g1'); [apply autP_isoP; exact Hb|exact Hq]. }
  assert (Epsi : app psi k = k).
  { unfold psi. rewrite app_compose by (rewrite (proj1 (proj1 Hq)); lia). exact Eb. }
  pose proof (prestrict_perm k psi (proj1 Ipsi) Epsi) as Hr.
  exists (prestrict k psi). split.
  - split; [exact Hr|]. intros i j Hi Hj. rewrite !prestrict_app by assumption.
    rewrite <- AD2 by assumption. rewrite (proj2 Ipsi) by lia.
    apply AD1; rewrite <- (prestrict_app k psi) by assumption; apply (app_lt k _ _ Hr); assumption.
  - intros j Hj. rewrite prestrict_app by exact Hj.
    rewrite <- (NW2 j Hj). rewrite (proj2 Ipsi) by lia. rewrite Epsi.
    apply NW1. rewrite <- (prestrict_app k psi) by exact Hj. apply (app_lt k _ _ Hr). exact Hj.
Qed.

(* degree of a vertex when the last vertex is removed *)
Lemma zdeg_S : forall k A u, (zdeg (S k) A u = zdeg k A u + if A k u then 1 else 0)%Z.
Proof. intros k A u. unfold zdeg. apply nsum_S. Qed.

Lemma zdeg_ext : forall n A A' v, (forall i j, i < n -> j < n -> A i j = A' i j) -> v < n ->
  zdeg n A v = zdeg n A' v.
Proof.
  intros n A A' v H Hv. pose proof (key_ext n A A' v H Hv) as K. unfold key in K. congruence.
Qed.

(* (c) *)
Lemma extension_complete : forall t k A' phi,
  good' t -> nv_of (fst t) = k -> S k <= NN ->
  asym (S k) A' -> airr (S k) A' -> cdel' (mk_vgraph (S k) A') k ->
  isoP k (vadj (fst t)) A' phi ->
  exists t' psi, In t' (kids' t) /\ isoP (S k) (vadj (fst t')) A' psi.
Proof.
  intros [g c] k A' phi G NK HN SY IR CD Hphi. cbn [fst] in *.
  pose proof G as (W & H1 & CG). cbn [fst snd] in W, H1, CG.
  set (hv := mk_vgraph (S k) A') in *.
  assert (Whv : wfv hv) by apply mk_vgraph_wfv.
  assert (Ahv : forall i j, i < S k -> j < S k -> vadj hv i j = A' i j).
  { intros i j Hi Hj. apply mk_vgraph_adj; assumption. }
  assert (HNhv : 1 <= nv_of hv <= NN) by (cbn [hv mk_vgraph nv_of]; lia).
  pose proof (proj1 Hphi) as Pphi.
  (* the neighbourhood of the last vertex, carried to the node *)
  set (S0 := filter (fun j => A' j k) (seq 0 k)).
  set (S1 := map (app phi) S0).
  assert (ND0 : NoDup S0) by (apply NoDup_filter, seq_NoDup).
  assert (LT0 : forall j, In j S0 <-> j < k /\ A' j k = true).
  { intros j. unfold S0. rewrite filter_In, in_seq. split; intros [P Q]; split; auto; lia. }
  assert (ND1 : NoDup S1).
  { apply (map_app_NoDup k); [exact Pphi|exact ND0|]. intros j Hj. apply LT0 in Hj. lia. }
  assert (LT1 : forall v, In v S1 -> v < k).
  { intros v Hv. apply in_map_iff in Hv. destruct Hv as [j [<- Hj]]. apply LT0 in Hj.
    apply (app_lt k phi); [exact Pphi|lia]. }
  assert (IN1 : forall j, j < k -> (In (app phi j) S1 <-> A' j k = true)).
  { intros j Hj. unfold S1. rewrite in_map_iff. split.
    - intros [j' [E Hj']]. apply LT0 in Hj'. destruct Hj' as [Hj' Q].
      apply (app_inj k phi) in E; [subst j'; exact Q|exact Pphi|lia|lia].
    - intros Q. exists j. split; [reflexivity|]. apply LT0. auto. }
  (* its size is at most the minimum degree of the node plus one *)
  assert (SZ : forall u, u < k -> (Z.of_nat (length S1) <= zdeg k (vadj g) u + 1)%Z).
  { intros u Hu. unfold S1. rewrite map_length.
    assert (D0 : Z.of_nat (length S0) = zdeg (S k) A' k).
    { rewrite zdeg_S, (IR k ltac:(lia)), Z.add_0_r, zdeg_count. reflexivity. }
    destruct (cdel_lt canon ksub_reps NN HC hv k Whv HNhv CD) as [_ MK].
    cbn [hv mk_vgraph nv_of] in MK. fold hv in MK.
    rewrite minkeyb_spec in MK.
    set (u' := app (inv phi) u).
    assert (Hu' : u' < k) by (apply (inv_lt k phi); assumption).
    specialize (MK u' ltac:(lia)).
    assert (LE : (zdeg (S k) (vadj hv) k <= zdeg (S k) (vadj hv) u')%Z).
    { destruct (Z.le_gt_cases (zdeg (S k) (vadj hv) k) (zdeg (S k) (vadj hv) u')) as [L|L]; [exact L|].
      exfalso. apply not_true_iff_false in MK. apply MK. unfold key. apply kltb_spec. left. lia. }
    rewrite (zdeg_ext (S k) (vadj hv) A' k Ahv ltac:(lia)) in LE.
    rewrite (zdeg_ext (S k) (vadj hv) A' u' Ahv ltac:(lia)) in LE.
    rewrite (zdeg_S k A' u') in LE.
    rewrite (zdeg_iso k (vadj g) A' phi u' Hphi Hu') in LE.
    assert (Eu : app phi u' = u) by (apply (app_inv_r k); assumption).
    rewrite Eu in LE.
    destruct (A' k u'); lia. }
  assert (HN0 : nv_of (fst (g, c)) <= NN) by (cbn [fst]; lia).
  destruct (kids_spec canon ksub_reps NN HC (g, c) G HN0) as (masks & c1 & AA & KE & V & CO & FO).
  cbn [fst snd] in AA, KE, V, CO, FO. rewrite NK in CO.
  destruct (CO S1 ND1 LT1 SZ) as [x [Hx [a [Ha SE]]]].
  assert (HNg : S (nv_of g) <= NN) by lia.
  destruct (kid_spec canon ksub_reps NN HC g x W H1 HNg (V x Hx))
    as (g' & AV & W' & NV' & ADJ & NEW & _ & KID). rewrite NK in NV', ADJ, NEW, KID.
  (* the isomorphism from the child to A': (a o phi) extended by the fixed point k *)
  pose proof (autP_perm _ _ _ Ha) as Pa.
  set (psi := pextend k (compose a phi)).
  assert (Pcp : is_perm k (compose a phi)) by (apply compose_perm; assumption).
  assert (Ppsi : is_perm (S k) psi) by (apply pextend_perm; exact Pcp).
  assert (Elt : forall j, j < k -> app psi j = app a (app phi j)).
  { intros j Hj. unfold psi. rewrite pextend_app_lt by exact Hj.
    apply app_compose. rewrite (proj1 Pphi). exact Hj. }
  assert (Ek : app psi k = k) by apply pextend_app_k.
  assert (Llt : forall j, j < k -> app psi j < k).
  { intros j Hj. rewrite Elt by exact Hj. apply (app_lt k a); [exact Pa|]. apply (app_lt k phi); assumption. }
  assert (NEWV : forall j, j < k -> vadj g' (app psi j) k = A' j k).
  { intros j Hj. apply eq_true_iff_eq. rewrite (NEW _ (Llt j Hj)). rewrite Elt by exact Hj.
    rewrite <- (SE (app phi j)) by (apply (app_lt k phi); assumption). apply IN1. exact Hj. }
  assert (Ipsi : isoP (S k) (vadj g') (vadj hv) psi).
  { split; [exact Ppsi|]. intros i j Hi Hj. rewrite Ahv by assumption.
    destruct (Nat.eq_dec i k) as [->|Hik]; destruct (Nat.eq_dec j k) as [->|Hjk].
    - rewrite Ek. rewrite vadj_irrefl. apply IR. lia.
    - rewrite Ek. rewrite vadj_sym. rewrite NEWV by lia. apply SY; lia.
    - rewrite Ek. rewrite NEWV by lia. reflexivity.
    - assert (Hi' : i < k) by lia. assert (Hj' : j < k) by lia.
      rewrite ADJ by (apply Llt; assumption). rewrite !Elt by assumption.
      rewrite (proj2 Hphi) by assumption.
      destruct Ha as (_ & Ha & _). symmetry. apply Ha; apply (app_lt k phi); assumption. }
  assert (CD' : cdel' g' k).
  { rewrite <- Ek. apply (cdel_iso canon ksub_reps NN HC g' hv psi k W' Whv).
    - rewrite NV'. reflexivity.
    - lia.
    - rewrite NV'. exact Ipsi.
    - exact CD. }
  destruct KID as [[_ NC]|[c' [K [_ CG']]]]; [contradiction|].
  exists (g', c'), psi. split.
  - rewrite KE. apply in_flat_map. exists x. split; [apply -> in_rev; exact Hx|].
    rewrite K. left. reflexivity.
  - cbn [fst]. apply (isoP_ext (S k) (vadj g') (vadj g') (vadj hv) A' psi); auto.
Qed.

(* ---------------------------------------------------------------- the levels *)

Definition root : node := (g1, no_cache).

Lemma root_good : good' root.
Proof. split; [exact wfv_g1|]. split; [cbn; lia|]. left. reflexivity. Qed.

Definition lev (j : nat) : list node := level' j [root].

Lemma lev_good : forall j t, S j <= NN -> In t (lev j) -> good' t /\ nv_of (fst t) = S j.
Proof.
  intros j t HN Hin. apply (level_good canon ksub_reps NN HC j [root] 1); [|lia|exact Hin].
  intros t0 [<-|[]]. split; [exact root_good|reflexivity].
Qed.

Definition noniso (t1 t2 : node) : Prop := ~ viso (fst t1) (fst t2).

(* isomorphic children have isomorphic parents, and children of one parent by inequivalent
   neighbourhoods are not isomorphic *)
Lemma kids_noniso : forall t k, good' t -> nv_of (fst t) = k -> S k <= NN ->
  ForallOrdPairs noniso (kids' t).
Proof.
  intros t k G NK HN.
  assert (HN0 : nv_of (fst t) <= NN) by lia.
  destruct (kids_spec canon ksub_reps NN HC t G HN0) as (masks & c1 & AA & KE & V & CO & FO).
  destruct G as (W & H1 & CG). rewrite KE. apply FOP_flat_map.
  - intros x Hx. unfold kid. destruct (child _ _ _ _ x); repeat constructor.
  - eapply FOP_impl; [|apply (FOP_rev (noneq (fst t))); [|exact FO]].
    + intros x y Hx Hy NE t1 t2 Ht1 Ht2 [q Hq]. apply NE. apply in_rev in Hx, Hy.
      assert (HNg : S (nv_of (fst t)) <= NN) by lia.
      destruct (kid_in (fst t) x t1 W H1 HNg (V x Hx) Ht1) as [E1 C1].
      destruct (kid_in (fst t) y t2 W H1 HNg (V y Hy) Ht2) as [E2 C2].
      rewrite (proj1 (proj2 E1)), NK in Hq. rewrite NK in C1, C2.
      destruct (parent_unique k (fst t) (fst t) x y (fst t1) (fst t2) q ltac:(lia) HN NK NK E1 E2 C1 C2 Hq)
        as [r [Ir Sr]].
      apply sub_equiv_sym. exists r. rewrite NK. split; [apply autP_isoP; exact Ir|exact Sr].
    + intros x y NE Q. apply NE. apply sub_equiv_sym. exact Q.
Qed.

Lemma kids_parents_iso : forall t1 t2 t1' t2' k, good' t1 -> good' t2 ->
  nv_of (fst t1) = k -> nv_of (fst t2) = k -> S k <= NN ->
  In t1' (kids' t1) -> In t2' (kids' t2) -> viso (fst t1') (fst t2') -> viso (fst t1) (fst t2).
Proof.
  intros t1 t2 t1' t2' k G1 G2 N1 N2 HN I1 I2 [q Hq].
  assert (HN1 : nv_of (fst t1) <= NN) by lia. assert (HN2 : nv_of (fst t2) <= NN) by lia.
  destruct (kids_spec canon ksub_reps NN HC t1 G1 HN1) as (m1 & c1 & _ & KE1 & V1 & _ & _).
  destruct (kids_spec canon ksub_reps NN HC t2 G2 HN2) as (m2 & c2 & _ & KE2 & V2 & _ & _).
  rewrite KE1 in I1. rewrite KE2 in I2. apply in_flat_map in I1, I2.
  destruct I1 as [x [Hx I1]]. destruct I2 as [y [Hy I2]]. apply in_rev in Hx, Hy.
  destruct G1 as (W1 & H1 & _). destruct G2 as (W2 & H2 & _).
  assert (HNg1 : S (nv_of (fst t1)) <= NN) by lia.
  assert (HNg2 : S (nv_of (fst t2)) <= NN) by lia.
  destruct (kid_in (fst t1) x t1' W1 H1 HNg1 (V1 x Hx) I1) as [E1 C1].
  destruct (kid_in (fst t2) y t2' W2 H2 HNg2 (V2 y Hy) I2) as [E2 C2].
  rewrite (proj1 (proj2 E1)), N1 in Hq. rewrite N1 in C1. rewrite N2 in C2.
  destruct (parent_unique k (fst t1) (fst t2) x y (fst t1') (fst t2') q ltac:(lia) HN N1 N2 E1 E2 C1 C2 Hq)
    as [r [Ir _]].
  exists r. rewrite N1. exact Ir.
Qed.

Theorem levels_transversal : forall j, S j <= NN ->
  ForallOrdPairs noniso (lev j) /\
  forall A, asym (S j) A -> airr (S j) A ->
    exists t q, In t (lev j) /\ isoP (S j) (vadj (fst t)) A q.
Proof.
  induction j as [|j IH]; intros HN.
  - split; [repeat constructor|]. intros A SY IR. exists root, (idp 1).
    split; [left; reflexivity|]. split; [apply idp_perm|].
    intros i k Hi Hk. assert (i = 0) by lia. assert (k = 0) by lia. subst.
    rewrite app_idp. cbn [fst root]. rewrite vadj_irrefl. apply IR. lia.
  - destruct (IH ltac:(lia)) as [UNI COM]. unfold lev in *. rewrite level_S_end. split.
    + (* uniqueness *)
      apply FOP_flat_map.
      * intros t Ht. destruct (lev_good j t ltac:(lia) Ht) as [G NV].
        apply (kids_noniso t (S j) G NV HN).
      * eapply FOP_impl; [|exact UNI]. intros t1 t2 H1 H2 NI t1' t2' I1 I2 Q. apply NI.
        destruct (lev_good j t1 ltac:(lia) H1) as [G1 NV1].
        destruct (lev_good j t2 ltac:(lia) H2) as [G2 NV2].
        apply (kids_parents_iso t1 t2 t1' t2' (S j) G1 G2 NV1 NV2 HN I1 I2 Q).
    + (* completeness *)
      intros A SY IR. set (k := S j) in *.
      set (hv := mk_vgraph (S k) A).
      assert (Whv : wfv hv) by apply mk_vgraph_wfv.
      assert (HNhv : 1 <= nv_of hv <= NN) by (cbn [hv mk_vgraph nv_of]; lia).
      destruct (cdel_exists canon ksub_reps NN HC hv Whv HNhv) as [v [Hv CDv]].
      cbn [hv mk_vgraph nv_of] in Hv. fold hv in CDv.
      (* relabel so that v becomes the last vertex *)
      set (tau := ptrans k v).
      assert (Ptau : is_perm (S k) tau) by (apply ptrans_perm; lia).
      assert (Etau : app tau k = v) by (apply ptrans_app_k; lia).
      set (A' := fun i j => A (app tau i) (app tau j)).
      assert (SY' : asym (S k) A').
      { intros i i' Hi Hi'. unfold A'. apply SY; apply (app_lt (S k) tau); assumption. }
      assert (IR' : airr (S k) A').
      { intros i Hi. unfold A'. apply IR. apply (app_lt (S k) tau); assumption. }
      set (hv' := mk_vgraph (S k) A').
      assert (Whv' : wfv hv') by apply mk_vgraph_wfv.
      assert (Itau : isoP (S k) (vadj hv) (vadj hv') tau).
      { split; [exact Ptau|]. intros i i' Hi Hi'. unfold hv, hv'.
        rewrite !mk_vgraph_adj; auto; apply (app_lt (S k) tau); assumption. }
      assert (CD' : cdel' hv' k).
      { replace k with (app (inv tau) v) by (rewrite <- Etau; apply (app_inv_l (S k)); [exact Ptau|lia]).
        apply (cdel_iso canon ksub_reps NN HC hv' hv (inv tau) v Whv' Whv); [reflexivity| |apply isoP_inv; exact Itau|exact CDv].
        cbn [hv' mk_vgraph nv_of]. lia. }
      (* the parent *)
      destruct (COM A') as (t & phi & Ht & Iphi).
      { intros i i' Hi Hi'. apply SY'; lia. }
      { intros i Hi. apply IR'; lia. }
      destruct (lev_good j t ltac:(lia) Ht) as [G NV]. fold k in NV, Iphi.
      destruct (extension_complete t k A' phi G NV HN SY' IR' CD' Iphi) as (t' & psi & Ht' & Ipsi).
      exists t', (compose psi (inv tau)). split; [apply in_flat_map; exists t; auto|].
      apply isoP_comp with (B := A'); [exact Ipsi|].
      apply isoP_inv. split; [exact Ptau|]. intros i i' Hi Hi'. reflexivity.
Qed.

End McKay.
