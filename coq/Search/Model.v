(* Model of graph/search/search_all.go (definitions only).

   What is modelled, as written in /repo:
   - the part of graph.DenseGraph the search uses: the visible slices DegreeSequence / Edges
     AND the invisible rest of their backing arrays (len..cap), because WithPruning allocates
     capacity-n arrays once and AddVertex / RemoveVertex / Load re-slice inside them;
     [add_vertex] is DenseGraph.AddVertex, [remove_last] is DenseGraph.RemoveVertex(N-1)
     (the only call the search makes);
   - GraphIterator.Next as a machine over program points ([pc]) with one [step] function,
     [addAugmentations], [isCanonical] with its degree / degree-sum / degree-square filters,
     the automorphism cache (sg.Perm, sg.Orbits, sg.Generators), options.ViableBits (stale
     between calls), Save / Load on the saved struct;
   - the canonical labelling graph.CanonicalIsomorphAllocated is NOT modelled: it is the
     Section variable [canon] (an arbitrary function of (n, m, neighbours, CheckViability,
     ViableBits)); likewise [ksub_reps] (the orbit representatives of k-subsets that
     addAugmentations computes with comb.Rank / CombinationsColex / disjoint.UnionBuffered for
     k >= 2), the pruning functions, and [grow] (capacity chosen by append when it reallocates).

   Conventions: [None] / [Panic] = a Go run-time panic (index or slice bound out of range,
   division by zero).  Stacks [SChoices], [SPath] are kept with the TOP AT THE HEAD (the Go
   slices grow at the end; the saved projection lists them in Go order, see [proj]).
   options.CheckViability is assigned immediately before both calls of getAutomorphismGroup
   and never read in between, so it is an argument of [canon], not a state component.
   Scratch buffers that are fully rewritten before every use (iter.v, iter.ds, sg.Neighbours,
   storage, op) are not state components either.  Masks are [N]; Go's uint is 64 bits, so the
   model is that of the code for n < 64 (WithPruning allocates C(n, n/2) ints, so nothing
   larger can be run anyway). *)
From Coq Require Import List NArith ZArith Arith Bool.
From Mamba Require Import Disjoint.Model.
Import ListNotations.
Local Open Scope nat_scope.

Definition tri (k : nat) : nat := k * (k - 1) / 2.

(* ---------------------------------------------------------------- slices *)

Fixpoint set_nth {A} (l : list A) (i : nat) (x : A) : option (list A) :=
  match l, i with
  | [], _ => None
  | _ :: l', 0 => Some (x :: l')
  | a :: l', S i' => match set_nth l' i' x with Some r => Some (a :: r) | None => None end
  end.

(* s[:k] of a slice with visible part v and invisible rest t *)
Definition reslice {A} (k : nat) (v t : list A) : option (list A * list A) :=
  if k <=? length v + length t then Some (firstn k (v ++ t), skipn k (v ++ t)) else None.

(* copy(dst, src) *)
Definition copy_into {A} (dst src : list A) : list A :=
  firstn (length dst) src ++ skipn (length src) dst.

(* ---------------------------------------------------------------- DenseGraph *)

Record dense := mkDense {
  NV : nat;            (* NumberOfVertices *)
  NE : Z;              (* NumberOfEdges *)
  Deg : list Z;        (* DegreeSequence[0:len] *)
  DegTail : list Z;    (* DegreeSequence[len:cap] *)
  Edg : list N;        (* Edges[0:len] (bytes) *)
  EdgTail : list N     (* Edges[len:cap] *)
}.

(* what a reader of the graph can see; also exactly what gob encodes *)
Definition vgraph := (nat * Z * list Z * list N)%type.
Definition vis (g : dense) : vgraph := (NV g, NE g, Deg g, Edg g).

(* NewDense(n, nil) followed by the reset to the empty graph in WithPruning *)
Definition new_search_graph (n : nat) : dense :=
  mkDense 0 0 [] (repeat 0%Z n) [] (repeat 0%N (tri n)).

(* g.NumberOfVertices = 1; g.DegreeSequence = g.DegreeSequence[:1] *)
Definition set_one (g : dense) : option dense :=
  match reslice 1 (Deg g) (DegTail g) with
  | None => None
  | Some (d, t) => Some (mkDense 1 (NE g) d t (Edg g) (EdgTail g))
  end.

Section Grow.
Variable grow : nat -> nat.   (* extra capacity after a reallocating append, by old length *)

Fixpoint mark (nb : list nat) (off : nat) (e : list N) (d : list Z) : option (list N * list Z) :=
  match nb with
  | [] => Some (e, d)
  | v :: nb' =>
    match set_nth e (off + v) 1%N with
    | None => None
    | Some e' =>
      match nth_error d v with
      | None => None
      | Some dv =>
        match set_nth d v (dv + 1)%Z with
        | None => None
        | Some d' => mark nb' off e' d'
        end
      end
    end
  end.

Definition add_vertex (g : dense) (nb : list nat) : option dense :=
  let oldSize := tri (NV g) in
  let newSize := oldSize + NV g in
  let all := Edg g ++ EdgTail g in
  let '(e0, et) :=
    if newSize <=? length all
    then (firstn oldSize all ++ repeat 0%N (NV g), skipn newSize all)
    else (firstn newSize (Edg g ++ repeat 0%N newSize), []) in
  match mark nb oldSize e0 (Deg g) with
  | None => None
  | Some (e1, d1) =>
    let len := Z.of_nat (length nb) in
    let '(d2, dt) := match DegTail g with
                     | _ :: t => (d1 ++ [len], t)
                     | [] => (d1 ++ [len], repeat 0%Z (grow (length d1)))
                     end in
    Some (mkDense (S (NV g)) (NE g + len) d2 dt e1 et)
  end.
End Grow.

Fixpoint dec_loop (cnt i base : nat) (e : list N) (d : list Z) : option (list Z) :=
  match cnt with
  | 0 => Some d
  | S c =>
    match nth_error e (base + i) with
    | None => None
    | Some b =>
      if (0 <? b)%N then
        match nth_error d i with
        | None => None
        | Some di => match set_nth d i (di - 1)%Z with
                     | None => None
                     | Some d' => dec_loop c (S i) base e d'
                     end
        end
      else dec_loop c (S i) base e d
    end
  end.

(* RemoveVertex(g.NumberOfVertices - 1) *)
Definition remove_last (g : dense) : option dense :=
  match NV g with
  | 0 => None
  | S v =>
    match nth_error (Deg g) v with
    | None => None
    | Some dv =>
      match dec_loop v 0 (tri v) (Edg g) (Deg g) with
      | None => None
      | Some d1 =>
        (* copy(d[v:], d[v+1:]); d = d[:len-1] *)
        let d2 := firstn v d1 ++ skipn (S v) d1 in
        let dt := last d1 0%Z :: DegTail g in
        (* copy(Edges[tri v:], Edges[tri (v+1):]); Edges = Edges[:tri v] *)
        let src := tri (S v) in
        let dst := tri v in
        if src <=? length (Edg g) then
          let moved := skipn src (Edg g) in
          let e1 := firstn dst (Edg g) ++ moved ++ skipn (dst + length moved) (Edg g) in
          match reslice dst e1 (EdgTail g) with
          | None => None
          | Some (e2, et) => Some (mkDense v (NE g - dv) d2 dt e2 et)
          end
        else None
      end
    end
  end.

(* ---------------------------------------------------------------- reading a visible graph *)

Definition bits_of (x : N) : list nat :=
  filter (fun i => N.testbit x (N.of_nat i)) (seq 0 (N.to_nat (N.size x))).

Definition edge_index (u v : nat) : nat := if u <? v then tri v + u else tri u + v.

(* neighbours of v in ascending order, as updateNeighbours computes them *)
Fixpoint nbrs_scan (e : list N) (v : nat) (is : list nat) : option (list nat) :=
  match is with
  | [] => Some []
  | i :: is' =>
    if i =? v then nbrs_scan e v is' else
    match nth_error e (edge_index i v) with
    | None => None
    | Some b =>
      match nbrs_scan e v is' with
      | None => None
      | Some r => Some (if (0 <? b)%N then i :: r else r)
      end
    end
  end.

Fixpoint all_nbrs_from (e : list N) (n : nat) (vs : list nat) : option (list (list nat)) :=
  match vs with
  | [] => Some []
  | v :: vs' =>
    match nbrs_scan e v (seq 0 n) with
    | None => None
    | Some r => match all_nbrs_from e n vs' with
                | None => None
                | Some rs => Some (r :: rs)
                end
    end
  end.

Definition all_nbrs (g : vgraph) : option (list (list nat)) :=
  let '(n, _, _, e) := g in all_nbrs_from e n (seq 0 n).

(* ---------------------------------------------------------------- the automorphism cache *)

Record cache := mkCache {
  CPerm : option (list nat);   (* sg.Perm, None = nil *)
  COrb : list Z;               (* sg.Orbits (a disjoint.Set) *)
  CGens : list (list nat)      (* sg.Generators *)
}.
Definition no_cache : cache := mkCache None [] [].

Inductive res (A : Type) : Type :=
| Ok (a : A)
| Panic
| Fuel.
Arguments Ok {A} a.
Arguments Panic {A}.
Arguments Fuel {A}.

Section Search.
Variable grow : nat -> nat.
Variable canon : nat -> Z -> list (list nat) -> bool -> N -> cache.
Variable ksub_reps : nat -> nat -> list (list nat) -> list N.
Variables preprune prune : vgraph -> bool.

(* getAutomorphismGroup: op.Reset, updateNeighbours, CanonicalIsomorphAllocated *)
Definition get_aut (g : vgraph) (cv : bool) (vb : N) : option cache :=
  match all_nbrs g with
  | None => None
  | Some nb => let '(n, m, _, _) := g in Some (canon n m nb cv vb)
  end.

(* ---------------------------------------------------------------- addAugmentations *)

(* masks in the order in which they are appended to choices *)
Fixpoint orbit_singletons (i : nat) (orb : list Z) : list N :=
  match orb with
  | [] => []
  | v :: orb' => if (v <? 0)%Z then N.shiftl 1 (N.of_nat i) :: orbit_singletons (S i) orb'
                 else orbit_singletons (S i) orb'
  end.

Definition aug_masks (n : nat) (maxSize : Z) (c : cache) : list N :=
  [0%N] ++ orbit_singletons 0 (COrb c)
  ++ flat_map (fun k => ksub_reps n k (CGens c)) (seq 2 (Z.to_nat maxSize - 1)).

(* returns (numFound, cache, pushed masks in push order) *)
Definition add_augs (g : vgraph) (c : cache) (vb : N) : option (list N * cache) :=
  let '(n, _, d, _) := g in
  match d with
  | [] => None                                   (* ints.Min: a[0] *)
  | d0 :: ds =>
    let minDeg := fold_left Z.min ds d0 in
    let maxSize := (minDeg + 1)%Z in
    match (match CPerm c with
           | None => get_aut g false vb
           | Some _ => Some c
           end) with
    | None => None
    | Some c' => Some (aug_masks n maxSize c', c')
    end
  end.

(* ---------------------------------------------------------------- isCanonical *)

Inductive verdict := VPanic | VFalse | VTrue | VBits (b : N).

(* first loop: compare the degree of the new vertex with every other degree *)
Fixpoint degree_filter (is : list nat) (d : list Z) (degree : Z) (acc : N) : verdict :=
  match is with
  | [] => VBits acc
  | i :: is' =>
    match nth_error d i with
    | None => VPanic
    | Some di =>
      if (di <? degree)%Z then VFalse
      else if (di =? degree)%Z then degree_filter is' d degree (N.lor acc (N.shiftl 1 (N.of_nat i)))
      else degree_filter is' d degree acc
    end
  end.

Fixpoint sum_sq (vs : list nat) (d : list Z) (s q : Z) : option (Z * Z) :=
  match vs with
  | [] => Some (s, q)
  | v :: vs' => match nth_error d v with
                | None => None
                | Some dv => sum_sq vs' d (s + dv)%Z (q + dv * dv)%Z
                end
  end.

(* sumV, squareV of vertex v: over j <> v with Edges[..] == 1 *)
Fixpoint nb_sum_sq (js : list nat) (v : nat) (e : list N) (d : list Z) (s q : Z) : option (Z * Z) :=
  match js with
  | [] => Some (s, q)
  | j :: js' =>
    if j =? v then nb_sum_sq js' v e d s q else
    match nth_error e (edge_index j v) with
    | None => None
    | Some b =>
      if (b =? 1)%N then
        match nth_error d j with
        | None => None
        | Some dj => nb_sum_sq js' v e d (s + dj)%Z (q + dj * dj)%Z
        end
      else nb_sum_sq js' v e d s q
    end
  end.

(* second loop: over the set bits of the viable set as it was when the loop started *)
Fixpoint sum_filter (vs : list nat) (n : nat) (e : list N) (d : list Z) (sum square : Z) (viable : N) : verdict :=
  match vs with
  | [] => VBits viable
  | v :: vs' =>
    match nb_sum_sq (seq 0 n) v e d 0%Z 0%Z with
    | None => VPanic
    | Some (sumV, squareV) =>
      if (sum <? sumV)%Z then VFalse
      else if (sumV <? sum)%Z then sum_filter vs' n e d sum square (N.lxor viable (N.shiftl 1 (N.of_nat v)))
      else if (square <? squareV)%Z then VFalse
      else if (squareV <? square)%Z then sum_filter vs' n e d sum square (N.lxor viable (N.shiftl 1 (N.of_nat v)))
      else sum_filter vs' n e d sum square viable
    end
  end.

Definition degree_tests (g : vgraph) (aug : list nat) : verdict :=
  let '(n, _, d, e) := g in
  match n with
  | 0 => VPanic                                   (* degrees[-1] *)
  | S n1 =>
    match nth_error d n1 with
    | None => VPanic
    | Some degree =>
      match degree_filter (seq 0 n1) d degree 0%N with
      | VBits vb0 =>
        if (vb0 =? 0)%N then VTrue else
        match sum_sq aug d 0%Z 0%Z with
        | None => VPanic
        | Some (sum, square) =>
          match sum_filter (bits_of vb0) n e d sum square vb0 with
          | VBits vb1 => if (vb1 =? 0)%N then VTrue else VBits vb1
          | v => v
          end
        end
      | v => v
      end
    end
  end.

(* the final loop over sg.Perm *)
Fixpoint perm_scan (perm : list nat) (last : nat) (viable : N) (orb : list Z) (correct : nat)
  : option (bool * list Z) :=
  match perm with
  | [] => Some (true, orb)
  | u :: perm' =>
    if u =? last then Some (true, orb)
    else if N.testbit viable (N.of_nat u) then
      match find orb u with
      | None => None
      | Some (orb', r) => Some (correct =? r, orb')
      end
    else perm_scan perm' last viable orb correct
  end.

(* isCanonical(sg, aug, ...): verdict, new cache, new options.ViableBits *)
Definition is_canonical (g : vgraph) (aug : list nat) (c : cache) (vb : N) : option (bool * cache * N) :=
  match degree_tests g aug with
  | VPanic => None
  | VFalse => Some (false, c, vb)
  | VTrue => Some (true, c, vb)
  | VBits viable =>
    match (match CPerm c with
           | None => match get_aut g true viable with
                     | None => None
                     | Some c' => Some (c', viable)
                     end
           | Some _ => Some (c, vb)
           end) with
    | None => None
    | Some (c', vb') =>
      match CPerm c' with
      | None => Some (false, c', vb')
      | Some perm =>
        let '(n, _, _, _) := g in
        match find (COrb c') (n - 1) with
        | None => None
        | Some (orb1, correct) =>
          match perm_scan perm (n - 1) viable orb1 correct with
          | None => None
          | Some (b, orb2) => Some (b, mkCache (CPerm c') orb2 (CGens c'), vb')
          end
        end
      end
    end
  end.

(* ---------------------------------------------------------------- the iterator *)

Record state := mkState {
  SN : nat; SA : nat; SM : nat;
  SFirst : bool;
  SG : dense;
  SCache : cache;
  SVB : N;                 (* options.ViableBits *)
  SChoices : list N;       (* top at the head *)
  SPath : list nat         (* top at the head *)
}.

Definition split_level (n : nat) : Z := (2 * (Z.of_nat n + 1) / 3 - 1)%Z.

(* WithPruning(n, a, m, preprune, prune) *)
Definition init (n a m : nat) : state :=
  mkState n a m true (new_search_graph n) no_cache 0%N [] [].

Definition with_graph (s : state) (g : dense) : state :=
  mkState (SN s) (SA s) (SM s) (SFirst s) g (SCache s) (SVB s) (SChoices s) (SPath s).
Definition with_first (s : state) (b : bool) : state :=
  mkState (SN s) (SA s) (SM s) b (SG s) (SCache s) (SVB s) (SChoices s) (SPath s).
Definition with_cache (s : state) (c : cache) (vb : N) : state :=
  mkState (SN s) (SA s) (SM s) (SFirst s) (SG s) c vb (SChoices s) (SPath s).
Definition with_stacks (s : state) (ch : list N) (p : list nat) : state :=
  mkState (SN s) (SA s) (SM s) (SFirst s) (SG s) (SCache s) (SVB s) ch p.

(* RemoveVertex(N-1); clearAutomorphismGroup *)
Definition retract (s : state) : option state :=
  match remove_last (SG s) with
  | None => None
  | Some g => Some (with_cache (with_graph s g) no_cache (SVB s))
  end.

(* program points of the loop nest of Next:
   Outer cont sf : top of `for true`
   Step sf       : top of `stepLoop: for true`
   For c sf      : the test `i >= 0` of the inner loop with i = c - 1 *)
Inductive pc := Outer (cont sf : bool) | Step (sf : bool) | For (c : nat) (sf : bool).

Inductive outcome :=
| Go (p : pc) (s : state)
| Ret (b : bool) (s : state)
| Crash.

Definition step (p : pc) (s : state) : outcome :=
  match p with
  | Outer cont sf =>
    if cont then Go (Step sf) s
    else if NV (SG s) =? SN s then Ret true s
    else match add_augs (vis (SG s)) (SCache s) (SVB s) with
         | None => Crash
         | Some (masks, c) =>
           Go (Step true)
              (with_stacks (with_cache s c (SVB s)) (rev masks ++ SChoices s) (length masks :: SPath s))
         end
  | Step sf =>
    match SChoices s with
    | [] => Ret false s
    | _ => match SPath s with
           | [] => Crash                              (* currentPath[-1] *)
           | c :: _ => Go (For c sf) s
           end
    end
  | For 0 sf =>
    (* none of the options on this level worked: step back *)
    match (if sf then Some s else retract s) with
    | None => Crash
    | Some s1 =>
      match SPath s1 with
      | [] => Crash                                   (* currentPath[:-1] *)
      | _ :: p => Go (Step false) (with_stacks s1 (SChoices s1) p)
      end
    end
  | For (S i) sf =>
    match SChoices s with
    | [] => Crash                                     (* choices[-1] *)
    | x :: ch =>
      let s1 := with_stacks s ch (SPath s) in
      if SM s =? 0 then Crash                         (* i % 0 *)
      else if negb (i mod SM s =? SA s) && (Z.of_nat (length (SPath s)) =? split_level (SN s))%Z
      then Go (For i sf) s1
      else
        let v := bits_of x in
        match (if sf then Some s1 else retract s1) with
        | None => Crash
        | Some s2 =>
          match add_vertex grow (SG s2) v with
          | None => Crash
          | Some g =>
            let s3 := with_cache (with_graph s2 g) no_cache (SVB s2) in
            if preprune (vis g) then Go (For i false) s3
            else match is_canonical (vis g) v (SCache s3) (SVB s3) with
                 | None => Crash
                 | Some (b, c, vb) =>
                   let s4 := with_cache s3 c vb in
                   if b && negb (prune (vis g)) then
                     match SPath s4 with
                     | [] => Crash
                     | _ :: p => Go (Outer false false) (with_stacks s4 (SChoices s4) (i :: p))
                     end
                   else Go (For i false) s4
                 end
          end
        end
    end
  end.

Fixpoint run (fuel : nat) (p : pc) (s : state) : res (bool * state) :=
  match fuel with
  | 0 => Fuel
  | S f => match step p s with
           | Go p' s' => run f p' s'
           | Ret b s' => Ok (b, s')
           | Crash => Panic
           end
  end.

Definition first_test (s : state) : bool :=
  SFirst s && (SA s =? 0) && negb (preprune (vis (SG s))) && negb (prune (vis (SG s))).

(* GraphIterator.Next *)
Definition next (fuel : nat) (s : state) : res (bool * state) :=
  match SN s with
  | 0 => if first_test s then Ok (true, with_first s false) else Ok (false, s)
  | 1 => match set_one (SG s) with
         | None => Panic
         | Some g => let s1 := with_graph s g in
                     if first_test s1 then Ok (true, with_first s1 false) else Ok (false, s1)
         end
  | _ => if SFirst s then
           match set_one (SG s) with
           | None => Panic
           | Some g => let s1 := with_first (with_graph s g) false in
                       if preprune (vis g) || prune (vis g) then Ok (false, s1)
                       else run fuel (Outer false false) s1
           end
         else run fuel (Outer true false) s
  end.

(* ---------------------------------------------------------------- Save / Load *)

(* the save struct, with the two stacks in Go order (bottom first) *)
Record saved := mkSaved {
  VN : nat; VA : nat; VM : nat; VFirst : bool;
  VG : vgraph;
  VChoices : list N;
  VPath : list nat
}.

(* Save reads the iterator and gob-encodes the struct; gob transports exactly the visible
   slices (trusted).  Save does not write to the iterator: it is a function of s. *)
Definition save (s : state) : saved :=
  mkSaved (SN s) (SA s) (SM s) (SFirst s) (vis (SG s)) (rev (SChoices s)) (rev (SPath s)).

(* the saved projection of a state *)
Definition proj (s : state) : saved := save s.

(* Load: WithPruning(N, A, M, ...) and then overwrite first, choices, currentPath and copy
   the graph into the capacity-N arrays *)
Definition load (v : saved) : option state :=
  let s0 := init (VN v) (VA v) (VM v) in
  let '(nv, ne, d, e) := VG v in
  let g0 := SG s0 in
  match reslice nv (Deg g0) (DegTail g0) with
  | None => None
  | Some (d0, dt) =>
    match reslice (length e) (Edg g0) (EdgTail g0) with
    | None => None
    | Some (e0, et) =>
      Some (mkState (VN v) (VA v) (VM v) (VFirst v)
                    (mkDense nv ne (copy_into d0 d) dt (copy_into e0 e) et)
                    no_cache 0%N (rev (VChoices v)) (rev (VPath v)))
    end
  end.

End Search.
