(* C03: a concrete instance of the section variables of Search/Model.v on which the model runs
   by computation (used for the non-vacuity examples of Props/C03.v).  The "canonical
   labelling" here is a toy: reversed identity, every vertex its own orbit, no generators; the
   only 2-subset offered as an augmentation is {0,1}.  The theorems hold for every such
   instance, so the shards must partition and pruning must filter here too. *)
From Coq Require Import List NArith ZArith Arith Bool Lia Permutation.
From Mamba Require Import Disjoint.Model Search.Model Search.SaveModel Search.ShardModel Search.Prune.
Import ListNotations.
Local Open Scope nat_scope.

Definition canon0 (n : nat) (m : Z) (nb : list (list nat)) (cv : bool) (vb : N) : cache :=
  mkCache (Some (rev (seq 0 n))) (repeat (-1)%Z n) [].
Definition ksub0 (n k : nat) (gens : list (list nat)) : list N := if Nat.eqb k 2 then [3%N] else [].
Definition grow0 (k : nat) : nat := k.

Lemma canon0_novb : canon_ignores_stale_bits canon0.
Proof. intros n m nb vb vb'. reflexivity. Qed.

Definition outs0 pre post n a m := outputs grow0 canon0 ksub0 pre post 40 200 (init n a m).

(* more than three edges *)
Definition many_edges (g : vgraph) : bool := let '(_, ne, _, _) := g in (3 <? ne)%Z.

Lemma many_edges_grows : grows_bad many_edges.
Proof.
  intros [[[nv ne] d] e] nb g' H. unfold add_v in H.
  destruct (mark _ _ _ _) as [[e1 d1]|]; [|discriminate]. inversion H; subst g'.
  unfold many_edges. intros Q. apply Z.ltb_lt in Q. apply Z.ltb_lt. lia.
Qed.

Definition len_res (r : res (list vgraph)) : nat := match r with Ok l => length l | _ => 0 end.

(* n = 4: the unsplit run finds 16 graphs, the two shards of m = 2 find 7 and 9 *)
Example shards_example :
  len_res (outs0 no_prune no_prune 4 0 1) = 16 /\
  len_res (outs0 no_prune no_prune 4 0 2) = 7 /\
  len_res (outs0 no_prune no_prune 4 1 2) = 9.
Proof. vm_compute. auto. Qed.

(* n = 4: 16 graphs without pruning, 12 with [many_edges] in either place *)
Example prune_example :
  len_res (outs0 no_prune no_prune 4 0 1) = 16 /\
  len_res (outs0 many_edges no_prune 4 0 1) = 12 /\
  len_res (outs0 no_prune many_edges 4 0 1) = 12 /\
  outs0 many_edges no_prune 4 0 1 = outs0 no_prune many_edges 4 0 1.
Proof. vm_compute. auto. Qed.

(* the first graph found by shard 1 of 2 for n = 4 (K4 minus an edge) is well-formed *)
Example wf_example :
  len_res (outs0 no_prune no_prune 4 1 2) = 9 /\
  wf_graph 4 (4, 5%Z, [3; 3; 2; 2]%Z, [1; 1; 1; 1; 1; 0]%N).
Proof.
  split; [vm_compute; reflexivity|].
  unfold wf_graph, wfv. split; [reflexivity|].
  split; [reflexivity|]. split; [reflexivity|].
  split; [repeat (apply Forall_cons; [auto|]); apply Forall_nil|].
  split; [|vm_compute; reflexivity].
  intros v Hv. do 4 (destruct v as [|v]; [vm_compute; reflexivity|]). lia.
Qed.

(* the recursive presentation computes the same list as the machine (n = 4, shard 1 of 2) *)
Example spec_example :
  spec canon0 ksub0 no_prune no_prune 4 1 2 =
  match outs0 no_prune no_prune 4 1 2 with Ok l => Some l | _ => None end /\
  len_res (outs0 no_prune no_prune 4 1 2) = 9.
Proof. vm_compute. auto. Qed.
