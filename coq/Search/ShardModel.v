(* C03: definitions used to state the theorems about the model of the search iterator
   (Search/Model.v).  Definitions only; proofs in ShardGraph.v, ShardSim.v, Shard.v, Prune.v.

   - [outputs]: what a caller collects from `for it.Next() { use(it.Value()) }`: the visible
     graphs shown after each call that answered true, until the first call that answers false;
   - [collect]: the same sequence read off one uninterrupted run of the machine;
   - [tree] / [sibs] / [spec]: the recursive (depth-first) presentation of the search: the
     subtree below an accepted graph g (with the automorphism cache left by isCanonical) is
     explored by trying the augmentations of g in the order in which Next pops them. *)
From Coq Require Import List NArith ZArith Arith Bool.
From Mamba Require Import Disjoint.Model Search.Model.
Import ListNotations.
Local Open Scope nat_scope.

Definition fmap_res {A B} (f : A -> B) (r : res A) : res B :=
  match r with Ok a => Ok (f a) | Panic => Panic | Fuel => Fuel end.

(* the visible effect of AddVertex (proved equal to the effect of [add_vertex] on the visible
   part in SaveProofs.add_vertex_vis) *)
Definition add_v (g : vgraph) (nb : list nat) : option vgraph :=
  let '(nv, ne, d, e) := g in
  match mark nb (tri nv) (e ++ repeat 0%N nv) d with
  | None => None
  | Some (e1, d1) =>
    Some (S nv, (ne + Z.of_nat (length nb))%Z, d1 ++ [Z.of_nat (length nb)], e1)
  end.

(* well-formedness of a visible graph: array lengths, 0/1 entries, DegreeSequence[v] = number of
   neighbours of v in the packed upper triangle, NumberOfEdges = number of ones *)
Definition ones (e : list N) : nat := length (filter (N.eqb 1) e).
Definition degree_of (e : list N) (n v : nat) : nat :=
  length (filter (fun u => negb (u =? v) && (nth (edge_index u v) e 0 =? 1)%N) (seq 0 n)).
Definition wfv (g : vgraph) : Prop :=
  let '(nv, ne, d, e) := g in
  length d = nv /\ length e = tri nv /\
  Forall (fun b => b = 0%N \/ b = 1%N) e /\
  (forall v, v < nv -> nth v d 0%Z = Z.of_nat (degree_of e nv v)) /\
  ne = Z.of_nat (ones e).
(* a well-formed graph on exactly n vertices *)
Definition wf_graph (n : nat) (g : vgraph) : Prop :=
  (let '(nv, _, _, _) := g in nv = n) /\ wfv g.

Section Spec.
Variable grow : nat -> nat.
Variable canon : nat -> Z -> list (list nat) -> bool -> N -> cache.
Variable ksub_reps : nat -> nat -> list (list nat) -> list N.
Variables preprune prune : vgraph -> bool.

Notation step' := (step grow canon ksub_reps preprune prune).
Notation next' := (next grow canon ksub_reps preprune prune).

(* one uninterrupted run: where Next would return true the graph is recorded and the run goes
   on from the entry point of the following call *)
Fixpoint collect (fuel : nat) (p : pc) (s : state) : res (list vgraph) :=
  match fuel with
  | 0 => Fuel
  | S f =>
    match step' p s with
    | Go p' s' => collect f p' s'
    | Ret true s' => fmap_res (cons (vis (SG s'))) (collect f (Outer true false) s')
    | Ret false _ => Ok []
    | Crash => Panic
    end
  end.

(* the caller's loop: at most [calls] calls of Next, each with [fuel] steps *)
Fixpoint outputs (calls fuel : nat) (s : state) : res (list vgraph) :=
  match calls with
  | 0 => Fuel
  | S k =>
    match next' fuel s with
    | Ok (true, s') => fmap_res (cons (vis (SG s'))) (outputs k fuel s')
    | Ok (false, _) => Ok []
    | Panic => Panic
    | Fuel => Fuel
    end
  end.

Variables n a m : nat.

(* the child with index i at depth [level] belongs to another shard *)
Definition skip (level i : nat) : bool :=
  negb (i mod m =? a) && (Z.of_nat level =? split_level n)%Z.

Inductive cres := CCrash | CReject | CAccept (g : vgraph) (c : cache).

(* try the augmentation x of the accepted graph g *)
Definition child (g : vgraph) (x : N) : cres :=
  match add_v g (bits_of x) with
  | None => CCrash
  | Some g' =>
    if preprune g' then CReject else
    match is_canonical canon g' (bits_of x) no_cache 0%N with
    | None => CCrash
    | Some (b, c, _) => if b && negb (prune g') then CAccept g' c else CReject
    end
  end.

Definition nv_of (g : vgraph) : nat := let '(nv, _, _, _) := g in nv.

(* the augmentations xs of g still to be tried, in the order in which they are popped; the
   head has index (length xs - 1) *)
Fixpoint sibs (rec : vgraph -> cache -> option (list vgraph)) (g : vgraph) (xs : list N)
  : option (list vgraph) :=
  match xs with
  | [] => Some []
  | x :: xs' =>
    if m =? 0 then None
    else if skip (nv_of g) (length xs') then sibs rec g xs'
    else match child g x with
         | CCrash => None
         | CReject => sibs rec g xs'
         | CAccept g' c =>
           match rec g' c with
           | None => None
           | Some l1 => match sibs rec g xs' with
                        | None => None
                        | Some l2 => Some (l1 ++ l2)
                        end
           end
         end
  end.

(* the subtree below the accepted graph g, d = n - (number of vertices of g) *)
Fixpoint tree (d : nat) (g : vgraph) (c : cache) : option (list vgraph) :=
  match d with
  | 0 => Some [g]
  | S d' =>
    match add_augs canon ksub_reps g c 0%N with
    | None => None
    | Some (masks, _) => sibs (tree d') g (rev masks)
    end
  end.

Definition g0 : vgraph := (0, 0%Z, [], []).
Definition g1 : vgraph := (1, 0%Z, [0%Z], []).

(* the whole search; None = a run-time panic somewhere *)
Definition spec : option (list vgraph) :=
  match n with
  | 0 => Some (if (a =? 0) && negb (preprune g0) && negb (prune g0) then [g0] else [])
  | 1 => Some (if (a =? 0) && negb (preprune g1) && negb (prune g1) then [g1] else [])
  | _ => if preprune g1 || prune g1 then Some [] else tree (n - 1) g1 no_cache
  end.

End Spec.
