(* C03 (orderly generation) — basic vocabulary for the proof of McKay's canonical construction
   path theorem on the model of graph/search/search_all.go.

   - sums over 0..n-1 and their invariance under a permutation of the index set;
   - graphs as adjacency functions [agraph], isomorphisms as permutation slices ([isoP], in the
     vocabulary of the C02 files Canon/AutBase.v, Aut.v: [app], [compose], [inv], [Aut]);
   - the vertex invariant used by isCanonical before it asks the canonical labelling:
     [key] = (degree, sum of the neighbours' degrees, sum of their squares), its order
     [kltb] (smaller degree first, then LARGER sum, then LARGER square sum), [minkeyb];
   - invariance of all of these under isomorphism. *)
From Coq Require Import List NArith ZArith Arith Bool Lia Permutation.
From Mamba Require Import Canon.AutBase Canon.Aut Canon.Group.
Import ListNotations.
Local Open Scope nat_scope.

(* ---------------------------------------------------------------- sums *)

Fixpoint zsum (l : list Z) : Z := match l with [] => 0%Z | a :: r => (a + zsum r)%Z end.

Lemma zsum_app : forall l1 l2, zsum (l1 ++ l2) = (zsum l1 + zsum l2)%Z.
Proof. induction l1 as [|a l IH]; intros l2; cbn [zsum List.app]; [lia|]. rewrite IH. lia. Qed.

Lemma zsum_perm : forall l1 l2, Permutation l1 l2 -> zsum l1 = zsum l2.
Proof. induction 1; cbn [zsum] in *; lia. Qed.

Lemma zsum_nonneg : forall l, (forall x, In x l -> (0 <= x)%Z) -> (0 <= zsum l)%Z.
Proof.
  induction l as [|a l IH]; intros H; cbn [zsum]; [lia|].
  assert (0 <= a)%Z by (apply H; left; reflexivity).
  assert (0 <= zsum l)%Z by (apply IH; intros x Hx; apply H; right; exact Hx). lia.
Qed.

Lemma map_app_seq : forall n p, length p = n -> map (app p) (seq 0 n) = p.
Proof.
  intros n p H. subst n. apply (nth_ext _ _ 0 0).
  - rewrite map_length, seq_length. reflexivity.
  - intros i Hi. rewrite map_length, seq_length in Hi.
    rewrite (nth_indep _ 0 (app p 0)) by (rewrite map_length, seq_length; exact Hi).
    rewrite (map_nth (app p)), seq_nth by exact Hi. unfold app. apply nth_indep. exact Hi.
Qed.

Lemma zsum_reindex : forall n p (F : nat -> Z), is_perm n p ->
  zsum (map (fun j => F (app p j)) (seq 0 n)) = zsum (map F (seq 0 n)).
Proof.
  intros n p F Hp. rewrite <- (map_map (app p) F), (map_app_seq n p) by apply Hp.
  apply zsum_perm. apply Permutation_map. apply Permutation_sym.
  apply is_perm_Permutation. exact Hp.
Qed.

Lemma zsum_ext : forall (F G : nat -> Z) l, (forall j, In j l -> F j = G j) ->
  zsum (map F l) = zsum (map G l).
Proof. intros F G l H. f_equal. apply map_ext_in. exact H. Qed.

Lemma length_filter_zsum : forall (f : nat -> bool) l,
  Z.of_nat (length (filter f l)) = zsum (map (fun u => if f u then 1%Z else 0%Z) l).
Proof.
  intros f l. induction l as [|a l IH]; [reflexivity|]. cbn [filter map zsum].
  destruct (f a); cbn [length]; lia.
Qed.

(* sum over a duplicate-free list = sum over 0..n-1 restricted to the members *)
Lemma zsum_members : forall n (S : list nat) (F : nat -> Z) (P : nat -> bool),
  NoDup S -> (forall j, In j S <-> j < n /\ P j = true) ->
  zsum (map F S) = zsum (map (fun j => if P j then F j else 0%Z) (seq 0 n)).
Proof.
  intros n S F P ND H.
  assert (E : zsum (map (fun j => if P j then F j else 0%Z) (seq 0 n)) =
              zsum (map F (filter P (seq 0 n)))).
  { generalize (seq 0 n). intros l. induction l as [|a l IH]; [reflexivity|].
    cbn [map filter zsum]. destruct (P a); cbn [map zsum]; lia. }
  rewrite E. apply zsum_perm. apply Permutation_map. apply NoDup_Permutation.
  - exact ND.
  - apply NoDup_filter, seq_NoDup.
  - intros j. rewrite filter_In, in_seq, H. split; intros [A B]; split; auto; lia.
Qed.

(* ---------------------------------------------------------------- adjacency functions *)

Definition agraph := nat -> nat -> bool.
Definition nocls : nat -> nat := fun _ => 0.

Definition asym (n : nat) (A : agraph) : Prop := forall i j, i < n -> j < n -> A i j = A j i.
Definition airr (n : nat) (A : agraph) : Prop := forall i, i < n -> A i i = false.

(* B is A relabelled by p: vertex i of B is vertex p_i of A *)
Definition isoP (n : nat) (A B : agraph) (p : perm) : Prop :=
  is_perm n p /\ forall i j, i < n -> j < n -> B i j = A (app p i) (app p j).

Definition autP (n : nat) (A : agraph) (a : perm) : Prop := Aut n A nocls a.

Lemma autP_isoP : forall n A a, autP n A a <-> isoP n A A a.
Proof.
  intros n A a. unfold autP, Aut, isoP. split.
  - intros (H1 & H2 & _). split; [exact H1|]. intros i j Hi Hj. symmetry. apply H2; assumption.
  - intros (H1 & H2). split; [exact H1|]. split; [|reflexivity].
    intros i j Hi Hj. symmetry. apply H2; assumption.
Qed.

Lemma isoP_id : forall n A, isoP n A A (idp n).
Proof. intros n A. apply autP_isoP. apply Aut_id. Qed.

Lemma isoP_comp : forall n A B C p q, isoP n A B p -> isoP n B C q -> isoP n A C (compose p q).
Proof.
  intros n A B C p q [Hp HB] [Hq HC]. split; [apply compose_perm; assumption|].
  intros i j Hi Hj. pose proof (proj1 Hq) as Lq.
  rewrite !app_compose by lia. rewrite HC by assumption.
  apply HB; apply (app_lt n q); assumption.
Qed.

Lemma isoP_inv : forall n A B p, isoP n A B p -> isoP n B A (inv p).
Proof.
  intros n A B p [Hp HB]. split; [apply inv_perm; exact Hp|].
  intros i j Hi Hj. rewrite HB by (apply (inv_lt n p); assumption).
  rewrite !(app_inv_r n) by assumption. reflexivity.
Qed.

Lemma isoP_ext : forall n A A' B B' p,
  (forall i j, i < n -> j < n -> A i j = A' i j) ->
  (forall i j, i < n -> j < n -> B i j = B' i j) ->
  isoP n A B p -> isoP n A' B' p.
Proof.
  intros n A A' B B' p HA HB [Hp H]. split; [exact Hp|]. intros i j Hi Hj.
  rewrite <- HB, <- HA by (try apply (app_lt n p); assumption). apply H; assumption.
Qed.

Lemma autP_comp : forall n A a b, autP n A a -> autP n A b -> autP n A (compose a b).
Proof. intros. apply Aut_compose; assumption. Qed.

Lemma autP_inv : forall n A a, autP n A a -> autP n A (inv a).
Proof. intros. apply Aut_inv; assumption. Qed.

Lemma autP_id : forall n A, autP n A (idp n).
Proof. intros. apply Aut_id. Qed.

Lemma autP_perm : forall n A a, autP n A a -> is_perm n a.
Proof. intros n A a H. apply H. Qed.

(* conjugation: an automorphism of B carried to A along an isomorphism *)
Lemma autP_conj : forall n A B q b, isoP n A B q -> autP n B b ->
  autP n A (compose (compose q b) (inv q)).
Proof.
  intros n A B q b Hq Hb. apply autP_isoP.
  apply isoP_comp with (B := B).
  - apply isoP_comp with (B := B); [exact Hq|apply autP_isoP; exact Hb].
  - apply isoP_inv. exact Hq.
Qed.

Lemma app_conj : forall n q b x, is_perm n q -> is_perm n b -> x < n ->
  app (compose (compose q b) (inv q)) (app q x) = app q (app b x).
Proof.
  intros n q b x Hq Hb Hx. pose proof (proj1 Hq) as Lq. pose proof (proj1 Hb) as Lb.
  rewrite app_compose by (rewrite inv_length, Lq; apply (app_lt n q); assumption).
  rewrite (app_inv_l n) by assumption. apply app_compose. lia.
Qed.

(* orbits of the automorphism group *)
Definition orbA (n : nat) (A : agraph) (x y : nat) : Prop := exists a, autP n A a /\ app a x = y.

Lemma orbA_refl : forall n A x, orbA n A x x.
Proof. intros n A x. exists (idp n). split; [apply autP_id|apply app_idp]. Qed.

Lemma orbA_sym : forall n A x y, x < n -> orbA n A x y -> orbA n A y x.
Proof.
  intros n A x y Hx [a [Ha E]]. exists (inv a). split; [apply autP_inv; exact Ha|].
  subst y. apply (app_inv_l n); [apply Ha|exact Hx].
Qed.

Lemma orbA_trans : forall n A x y z, orbA n A x y -> orbA n A y z -> orbA n A x z.
Proof.
  intros n A x y z [a [Ha E1]] [b [Hb E2]]. exists (compose b a).
  split; [apply autP_comp; assumption|].
  destruct (Nat.lt_ge_cases x n) as [Hx|Hx].
  - rewrite app_compose by (rewrite (proj1 (autP_perm _ _ _ Ha)); exact Hx). congruence.
  - pose proof (proj1 (autP_perm _ _ _ Ha)) as La. pose proof (proj1 (autP_perm _ _ _ Hb)) as Lb.
    assert (Ex : forall p, length p = n -> app p x = x).
    { intros p Lp. unfold app. apply nth_overflow. lia. }
    rewrite (Ex a La) in E1. subst y. rewrite (Ex b Lb) in E2. subst z.
    apply Ex. rewrite compose_length. exact La.
Qed.

Lemma orbA_lt : forall n A x y, x < n -> orbA n A x y -> y < n.
Proof. intros n A x y Hx [a [Ha E]]. subst y. apply (app_lt n); [apply Ha|exact Hx]. Qed.

(* an isomorphism carries orbits to orbits *)
Lemma orbA_iso : forall n A B q x y, isoP n A B q -> x < n -> orbA n B x y ->
  orbA n A (app q x) (app q y).
Proof.
  intros n A B q x y Hq Hx [b [Hb E]]. subst y.
  exists (compose (compose q b) (inv q)). split; [eapply autP_conj; eauto|].
  apply (app_conj n); [apply Hq|apply Hb|exact Hx].
Qed.

(* ---------------------------------------------------------------- the vertex invariant *)

Definition nsum (n : nat) (A : agraph) (f : nat -> Z) (v : nat) : Z :=
  zsum (map (fun j => if A j v then f j else 0%Z) (seq 0 n)).

Definition zdeg (n : nat) (A : agraph) (v : nat) : Z := nsum n A (fun _ => 1%Z) v.

Definition key (n : nat) (A : agraph) (v : nat) : Z * Z * Z :=
  (zdeg n A v, nsum n A (zdeg n A) v, nsum n A (fun j => (zdeg n A j * zdeg n A j)%Z) v).

(* a is strictly better than b: smaller degree, or equal degree and larger sum, or equal
   degree and sum and larger square sum *)
Definition kltb (a b : Z * Z * Z) : bool :=
  let '(d1, s1, q1) := a in
  let '(d2, s2, q2) := b in
  (d1 <? d2)%Z || ((d1 =? d2)%Z && ((s2 <? s1)%Z || ((s1 =? s2)%Z && (q2 <? q1)%Z))).

Definition minkeyb (n : nat) (A : agraph) (v : nat) : bool :=
  forallb (fun u => negb (kltb (key n A u) (key n A v))) (seq 0 n).

Lemma kltb_irrefl : forall a, kltb a a = false.
Proof.
  intros [[d s] q]. unfold kltb. rewrite !Z.ltb_irrefl, !Z.eqb_refl. reflexivity.
Qed.

Lemma kltb_spec : forall d1 s1 q1 d2 s2 q2,
  kltb (d1, s1, q1) (d2, s2, q2) = true <->
  (d1 < d2 \/ (d1 = d2 /\ (s2 < s1 \/ (s1 = s2 /\ q2 < q1))))%Z.
Proof.
  intros. unfold kltb.
  rewrite !orb_true_iff, !andb_true_iff, !orb_true_iff, !andb_true_iff, !Z.ltb_lt, !Z.eqb_eq.
  tauto.
Qed.

Lemma kltb_trans : forall a b c, kltb a b = true -> kltb b c = true -> kltb a c = true.
Proof.
  intros [[d1 s1] q1] [[d2 s2] q2] [[d3 s3] q3]. rewrite !kltb_spec. lia.
Qed.

Lemma kltb_total : forall a b, kltb a b = false -> kltb b a = false -> a = b.
Proof.
  intros [[d1 s1] q1] [[d2 s2] q2] H1 H2.
  apply not_true_iff_false in H1. apply not_true_iff_false in H2.
  rewrite kltb_spec in H1, H2.
  assert (d1 = d2 /\ s1 = s2 /\ q1 = q2) as (-> & -> & ->) by lia. reflexivity.
Qed.

Lemma minkeyb_spec : forall n A v,
  minkeyb n A v = true <-> forall u, u < n -> kltb (key n A u) (key n A v) = false.
Proof.
  intros n A v. unfold minkeyb. rewrite forallb_forall. split.
  - intros H u Hu. apply negb_true_iff. apply H. apply in_seq. lia.
  - intros H u Hu. apply negb_true_iff. apply H. apply in_seq in Hu. lia.
Qed.

(* a finite non-empty set has a best element *)
Lemma exists_min : forall (f : nat -> Z * Z * Z) n, 0 < n ->
  exists v, v < n /\ forall u, u < n -> kltb (f u) (f v) = false.
Proof.
  intros f n. induction n as [|n IH]; intros Hn; [lia|].
  destruct n as [|n].
  - exists 0. split; [lia|]. intros u Hu. replace u with 0 by lia. apply kltb_irrefl.
  - destruct IH as [v [Hv Hmin]]; [lia|].
    destruct (kltb (f (S n)) (f v)) eqn:E.
    + exists (S n). split; [lia|]. intros u Hu.
      destruct (Nat.eq_dec u (S n)) as [->|Hne]; [apply kltb_irrefl|].
      destruct (kltb (f u) (f (S n))) eqn:E2; [|reflexivity].
      rewrite <- (Hmin u ltac:(lia)). symmetry. eapply kltb_trans; eauto.
    + exists v. split; [lia|]. intros u Hu.
      destruct (Nat.eq_dec u (S n)) as [->|Hne]; [exact E|]. apply Hmin. lia.
Qed.

Lemma minkey_exists : forall n A, 0 < n -> exists v, v < n /\ minkeyb n A v = true.
Proof.
  intros n A Hn. destruct (exists_min (key n A) n Hn) as [v [Hv H]].
  exists v. split; [exact Hv|]. apply minkeyb_spec. exact H.
Qed.

(* two best vertices have the same key *)
Lemma minkey_eq : forall n A u v, u < n -> v < n ->
  minkeyb n A u = true -> minkeyb n A v = true -> key n A u = key n A v.
Proof.
  intros n A u v Hu Hv Mu Mv. rewrite minkeyb_spec in Mu, Mv.
  apply kltb_total; [apply Mv|apply Mu]; assumption.
Qed.

Lemma minkey_of_eq : forall n A u v,
  minkeyb n A u = true -> key n A v = key n A u -> minkeyb n A v = true.
Proof. intros n A u v Mu E. unfold minkeyb in *. rewrite E. exact Mu. Qed.

(* ---------------------------------------------------------------- invariance *)

Lemma nsum_iso : forall n A B p fA fB i, isoP n A B p -> i < n ->
  (forall j, j < n -> fB j = fA (app p j)) ->
  nsum n B fB i = nsum n A fA (app p i).
Proof.
  intros n A B p fA fB i [Hp HB] Hi Hf. unfold nsum.
  rewrite <- (zsum_reindex n p (fun j => if A j (app p i) then fA j else 0%Z) Hp).
  apply zsum_ext. intros j Hj. apply in_seq in Hj.
  rewrite HB by lia. rewrite Hf by lia. reflexivity.
Qed.

Lemma zdeg_iso : forall n A B p i, isoP n A B p -> i < n -> zdeg n B i = zdeg n A (app p i).
Proof. intros n A B p i H Hi. unfold zdeg. apply nsum_iso with (p := p); auto. Qed.

Lemma key_iso : forall n A B p i, isoP n A B p -> i < n -> key n B i = key n A (app p i).
Proof.
  intros n A B p i H Hi. unfold key.
  rewrite (zdeg_iso n A B p i H Hi).
  rewrite (nsum_iso n A B p (zdeg n A) (zdeg n B) i H Hi) by (intros j Hj; apply zdeg_iso; auto).
  rewrite (nsum_iso n A B p (fun j => (zdeg n A j * zdeg n A j)%Z)
             (fun j => (zdeg n B j * zdeg n B j)%Z) i H Hi)
    by (intros j Hj; rewrite (zdeg_iso n A B p j H Hj); reflexivity).
  reflexivity.
Qed.

Lemma minkeyb_iso : forall n A B p i, isoP n A B p -> i < n ->
  minkeyb n B i = minkeyb n A (app p i).
Proof.
  intros n A B p i H Hi. apply eq_true_iff_eq. rewrite !minkeyb_spec.
  pose proof (proj1 H) as Hp. split.
  - intros M u Hu. destruct (app_surj n p u Hp Hu) as [u' [Hu' <-]].
    rewrite <- !(key_iso n A B p) by assumption. apply M. exact Hu'.
  - intros M u Hu. rewrite !(key_iso n A B p) by assumption. apply M.
    apply (app_lt n p); assumption.
Qed.

Lemma key_ext : forall n A A' v, (forall i j, i < n -> j < n -> A i j = A' i j) -> v < n ->
  key n A v = key n A' v.
Proof.
  intros n A A' v H Hv.
  assert (I : isoP n A A' (idp n)).
  { split; [apply idp_perm|]. intros i j Hi Hj. rewrite !app_idp. symmetry. apply H; assumption. }
  rewrite (key_iso n A A' (idp n) v I Hv), app_idp. reflexivity.
Qed.

(* degrees *)
Lemma zdeg_count : forall n A v,
  zdeg n A v = Z.of_nat (length (filter (fun u => A u v) (seq 0 n))).
Proof. intros n A v. rewrite length_filter_zsum. reflexivity. Qed.

Lemma filter_length_le' : forall {T} (f : T -> bool) l, length (filter f l) <= length l.
Proof. intros T f l. induction l as [|a l IH]; cbn [filter length]; [lia|]. destruct (f a); cbn [length]; lia. Qed.

Lemma zdeg_bounds : forall n A v, (0 <= zdeg n A v <= Z.of_nat n)%Z.
Proof.
  intros n A v. rewrite zdeg_count. split; [lia|].
  pose proof (filter_length_le' (fun u => A u v) (seq 0 n)) as H. rewrite seq_length in H. lia.
Qed.

Lemma nsum_S : forall n A f v,
  nsum (S n) A f v = (nsum n A f v + if A n v then f n else 0)%Z.
Proof.
  intros n A f v. unfold nsum. rewrite seq_S, map_app, zsum_app. cbn [plus map zsum]. lia.
Qed.
