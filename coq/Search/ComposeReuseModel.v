(* C03 / C04 — the call of graph.CanonicalIsomorphAllocated with options.CheckViability = true on a
   REUSED CanonicalStorage / CanonicalOrderedPartition (definitions only; proofs in
   Search/ComposeReuse.v).  GraphIterator allocates one storage and one partition in WithPruning
   and passes them to every call; [canon_search_v] (ComposeModel.v) is the run on fresh storage.
   Here: the model of Canon/SearchReuseModel.v ([canon_alloc_cells]: every field of the storage
   is a backing array with ARBITRARY contents, only the capacities are known; C02's reuse theorems
   are about it, for the zero options) with the viability check of ComposeModel.v added to the
   first refinement, exactly as there.  The early exit `return nil, nil, nil` happens before any
   record of the storage is written (the scratch arrays, whose contents are outside the search
   model, aside): the storage is returned as it was. *)
From Coq Require Import List NArith ZArith Arith Bool.
From Mamba Require Import Disjoint.Model.
From Mamba Require Search.Model.
From Mamba Require Import Canon.Perm Canon.Iso Canon.Model Canon.AutModel Canon.SearchModel
  Canon.AutResetModel Canon.SearchReuseModel.
From Mamba Require Import Search.ComposeModel.
Import ListNotations.
Local Open Scope nat_scope.

Section ReuseV.
Variable g : graph.
Variables n m : nat.
Variables cbB flB : list nat.          (* backing arrays of currentBest and firstLeaf at entry *)
Variable vb : N.

(* [round_loop_r] of Canon/SearchReuseModel.v with the check of [round_loop_v] *)
Fixpoint round_loop_vr (cb fl : list nat) (w : list nat) (age : Z)
         (pre_rev post : list acell) (value : list nat) (spl : nat) : rr :=
  match pre_rev with
  | [] => RrOk (mkP post age value spl)
  | c :: pre' =>
      if uniform g w (cverts c) then round_loop_vr cb fl w age pre' (c :: post) value spl
      else
        let post' := with_ages age (cage c) (fragments g w (cverts c)) ++ post in
        let cells := rev pre' ++ post' in
        match (if length pre' =? spl then expand_value_r g n cbB flB cells cb fl value spl
               else EvOk value spl) with
        | EvPanic => RrPanic
        | EvWorse v s => RrWorse (mkP cells age v s)
        | EvOk v s =>
            match viab_check cells n vb with
            | None => RrPanic
            | Some true => RrWorse (mkP cells age v s)
            | Some false => round_loop_vr cb fl w age pre' post' v s
            end
        end
  end.

Fixpoint refine_loop_vr (k : nat) (cb fl : list nat) (ps : pstate) : res (bool * pstate) :=
  match pick_a (p_cells ps) with
  | None => Ok (false, ps)
  | Some (P', w) =>
      match k with
      | 0 => Fuel
      | S k' =>
          match round_loop_vr cb fl w (p_age ps) (rev P') [] (p_value ps) (p_spl ps) with
          | RrPanic => Panic
          | RrWorse ps' => Ok (true, ps')
          | RrOk ps' => refine_loop_vr k' cb fl ps'
          end
      end
  end.

Definition refine_v_r (cb fl : list nat) (ps : pstate) : res (bool * pstate) :=
  refine_loop_vr (2 * length (order_of (p_cells ps)) + length (p_cells ps)) cb fl ps.

End ReuseV.

(* CanonicalIsomorphAllocated(n, m, neighbours(g), op, storage, &CanonicalOptions{true, vb}) where op
   is in the state [cs]: (result or nil, storage afterwards) *)
Definition canon_alloc_cells_v (fuel : nat) (st : storage) (g : graph) (vb : N) (cs : list acell)
  : res (option result * storage) :=
  let n := length g in
  let m := num_edges g in
  if (n =? 0) || (m =? 0) then
    (* returns before options.CheckViability is read *)
    do r <- canon_alloc_cells fuel st g cs; Ok (Some (fst r), snd r)
  else
    do s0 <- of_opt (alloc_state st n m (mkP cs 0%Z [] 0));
    let cbB := st_cb st in
    let flB := st_fl st in
    let gcap := length (st_gens st) in
    let start (v : list nat) (s : nat) :=
      do w <- refine_v_r g n cbB flB vb [] (s_fl s0) (mkP cs 0%Z v s);
      if fst w then Ok (None, st)                          (* if worse { return nil, nil, nil } *)
      else
        do f <- main_loop_r g n m cbB flB gcap fuel (set_ps s0 (snd w)) false;
        Ok (Some (s_cbPerm f, s_flOrb f, s_gens f), write_back st n f) in
    match expand_value_r g n cbB flB cs [] (s_fl s0) [] 0 with
    | EvPanic => Panic
    | EvWorse v s => start v s
    | EvOk v s => start v s
    end.

(* op.Reset(n, m, nil) on the old partition state [op] (any contents), then the call *)
Definition canon_alloc_reset_v (fuel : nat) (st : storage) (op : opst) (g : graph) (vb : N)
  : res (option result * storage) :=
  let n := length g in
  if n =? 0 then Ok (Some ([], [], []), st)
  else
    match reset Canon.Model.isort op n (num_edges g) None with
    | None => Panic
    | Some op' => canon_alloc_cells_v fuel st g vb (cells_of_op op')
    end.

(* getAutomorphismGroup on the iterator's own storage and partition, in any state *)
Definition canon_real_reused (st : storage) (op : opst) (n : nat) (m : Z) (nb : list (list nat))
           (cv : bool) (vb : N) : Search.Model.cache :=
  let g := nb_matrix n nb in
  if cv then
    match canon_alloc_reset_v (real_fuel n) st op g vb with
    | Ok (Some r, _) => cache_of r
    | Ok (None, _) => Search.Model.no_cache
    | _ => Search.Model.no_cache
    end
  else
    match canon_alloc_reset (real_fuel n) st op g None with
    | Ok (r, _) => cache_of r
    | _ => Search.Model.no_cache
    end.
