(* C03 (tie of [canon_spec] to the code) — an executable checker of the specification of the
   canonical labelling (Search/OrderlySpec.v) on a concrete [canon] / [ksub_reps], definitions
   only.  Soundness: Search/OrderlyInstCheck.v.

   The co-simulation driver (ocaml/c03/driver.ml) instantiates [canon] and [ksub_reps] with the
   TABLE of answers of graph.CanonicalIsomorphAllocated and of the k-subset orbit loop of
   addAugmentations that harness/cmd/c03sim computed with the real code, and evaluates
   [check_upto] on it: a verdict [true] is, by [check_upto_sound], exactly the hypothesis
   [canon_spec canon ksub_reps n] of the orderly-generation theorem for the table.

   Everything is by brute force (all permutations of 0..n-1, all masks below 2^n); the automorphism
   group, "generators generate it" and "the forest is its orbit partition" reuse the proved
   certificate [check_full] of C02 (Canon/AutModel.v, Canon/AutCheck.v). *)
From Coq Require Import List NArith ZArith Arith Bool.
From Mamba Require Import Disjoint.Model Search.Model Search.ShardModel Canon.AutModel Search.OrderlyToyModel.
Import ListNotations.
Local Open Scope nat_scope.

(* ---------------------------------------------------------------- reading and enumerating graphs *)

(* = OrderlyGraph.eadj / vadj (repeated here to keep this file free of proofs) *)
Definition cadj (e : list N) (u v : nat) : bool :=
  negb (u =? v) && (nth (edge_index u v) e 0 =? 1)%N.
Definition cvadj (g : vgraph) : nat -> nat -> bool := let '(_, _, _, e) := g in cadj e.
Definition ncls : nat -> nat := fun _ => 0.

(* the well-formed visible graph on k vertices with packed triangle e *)
Definition vg_of_edges (k : nat) (e : list N) : vgraph :=
  (k, Z.of_nat (ones e), map (fun v => Z.of_nat (degree_of e k v)) (seq 0 k), e).

Fixpoint all01 (m : nat) : list (list N) :=
  match m with
  | 0 => [[]]
  | S m' => flat_map (fun l => [0%N :: l; 1%N :: l]) (all01 m')
  end.

(* every well-formed visible graph on k vertices *)
Definition all_graphs (k : nat) : list vgraph := map (vg_of_edges k) (all01 (tri k)).

Definition all_masks (n : nat) : list N := map N.of_nat (seq 0 (2 ^ n)).

(* ---------------------------------------------------------------- equality of answers *)

Fixpoint leqb {A} (eqb : A -> A -> bool) (l1 l2 : list A) : bool :=
  match l1, l2 with
  | [], [] => true
  | a :: r1, b :: r2 => eqb a b && leqb eqb r1 r2
  | _, _ => false
  end.

Definition cache_eqb (c1 c2 : cache) : bool :=
  match CPerm c1, CPerm c2 with
  | Some p, Some q => leqb Nat.eqb p q
  | None, None => true
  | _, _ => false
  end && leqb Z.eqb (COrb c1) (COrb c2) && leqb (leqb Nat.eqb) (CGens c1) (CGens c2).

(* ---------------------------------------------------------------- subsets and their orbits *)

Definition image_mask (a : perm) (x : N) : N := mask_of (map (app a) (bits_of x)).

(* some listed automorphism carries the set x onto the set y *)
Definition sub_equiv_b (auts : list perm) (x y : N) : bool :=
  existsb (fun a => (image_mask a x =? y)%N) auts.

Fixpoint pairwise_b {A} (r : A -> A -> bool) (l : list A) : bool :=
  match l with
  | [] => true
  | x :: t => forallb (r x) t && pairwise_b r t
  end.

(* R holds masks of k-subsets of 0..n-1, every k-subset is carried onto a listed one, no two
   listed ones (at different positions) are carried onto one another *)
Definition transversal_b (n : nat) (auts : list perm) (k : nat) (R : list N) : bool :=
  forallb (fun x => (length (bits_of x) =? k) && (x <? 2 ^ N.of_nat n)%N) R &&
  forallb (fun s => negb (length (bits_of s) =? k) || existsb (sub_equiv_b auts s) R) (all_masks n) &&
  pairwise_b (fun x y => negb (sub_equiv_b auts x y)) R.

(* = OrderlySpec.first_hit *)
Definition first_hit_c (last : nat) (vb : N) (p : list nat) : option nat :=
  List.find (fun u => (u =? last) || N.testbit vb (N.of_nat u)) p.

(* B is A relabelled by some permutation *)
Definition iso_b (n : nat) (A B : nat -> nat -> bool) : bool :=
  existsb (fun q => forallb (fun ij => Bool.eqb (B (fst ij) (snd ij)) (A (app q (fst ij)) (app q (snd ij))))
                            (pairs_of n)) (all_perms n).

(* the graph relabelled by p *)
Definition radj (g : vgraph) (p : perm) : nat -> nat -> bool :=
  fun i j => cvadj g (app p i) (app p j).

Fixpoint nfact (n : nat) : nat := match n with 0 => 1 | S m => S m * nfact m end.

(* ---------------------------------------------------------------- the clauses *)

Section Check.
Variable canon : nat -> Z -> list (list nat) -> bool -> N -> cache.
Variable ksub_reps : nat -> nat -> list (list nat) -> list N.

(* ok_perm *)
Definition check_perm (g : vgraph) (c : cache) : bool :=
  match CPerm c with Some p => is_permb (nv_of g) p | None => false end.

(* ok_orb and pa_gens: C02's certificate; |Aut| <= n!, so cap = n! never rejects for lack of room *)
Definition check_orb (g : vgraph) (c : cache) : bool :=
  check_full (S (nfact (nv_of g))) (nfact (nv_of g)) (nv_of g) (cvadj g) ncls (CGens c) (COrb c).

(* ok_ksub, directly against the brute-force automorphism group *)
Definition check_ksub (g : vgraph) (c : cache) : bool :=
  let n := nv_of g in
  let auts := aut_bruteforce n (cvadj g) ncls in
  forallb (fun k => transversal_b n auts k (ksub_reps n k (CGens c))) (seq 2 (n - 1)).

(* ok_early for one viable set *)
Definition early_b (g : vgraph) (c : cache) (p : perm) (auts : list perm) (vb : N) : bool :=
  match get_aut canon g true vb with
  | None => false
  | Some c' =>
    cache_eqb c' c ||
    (match CPerm c' with None => true | Some _ => false end &&
     match first_hit_c (nv_of g - 1) vb p with
     | Some u => negb (existsb (fun a => app a u =? nv_of g - 1) auts)
     | None => true
     end)
  end.

Definition check_early (vbs : list N) (g : vgraph) (c : cache) : bool :=
  match CPerm c with
  | None => false
  | Some p => let auts := aut_bruteforce (nv_of g) (cvadj g) ncls in forallb (early_b g c p auts) vbs
  end.

(* all per-graph clauses, the early exit for the viable sets in vbs *)
Definition check_graph (vbs : list N) (g : vgraph) : bool :=
  match get_aut canon g false 0%N with
  | None => false
  | Some c => check_perm g c && check_orb g c && check_ksub g c && check_early vbs g c
  end.

(* which viable sets: all subsets of 0..n-2, or only those isCanonical can ask for (non-empty
   sets of vertices of the same degree as the last vertex) *)
Definition vbs_all (g : vgraph) : list N := all_masks (nv_of g - 1).

Definition vbs_deg (g : vgraph) : list N :=
  let '(n, _, d, _) := g in
  filter (fun vb => negb (vb =? 0)%N &&
                    forallb (fun i => (nth i d 0 =? nth (n - 1) d 0)%Z) (bits_of vb))
         (all_masks (n - 1)).

(* what the tables of harness/cmd/c03sim hold (constant vbFullK = 6 there) *)
Definition vbs_mixed (g : vgraph) : list N := if nv_of g <=? 6 then vbs_all g else vbs_deg g.

(* canon_label_ok on a list of graphs on k vertices: the distinct canonical forms met are pairwise
   non-isomorphic (isomorphism decided by trying every permutation).  Since every graph is
   isomorphic to its own form, isomorphic graphs then have the same form. *)
Definition form_of (g : vgraph) : option (N * (vgraph * perm)) :=
  match get_aut canon g false 0%N with
  | None => None
  | Some c => match CPerm c with
              | None => None
              | Some p => Some (pcode (nv_of g) (cvadj g) p, (g, p))
              end
  end.

Fixpoint forms_acc (gs : list vgraph) (acc : list (N * (vgraph * perm))) : option (list (N * (vgraph * perm))) :=
  match gs with
  | [] => Some acc
  | g :: t =>
    match form_of g with
    | None => None
    | Some r => if existsb (fun r' => (fst r' =? fst r)%N) acc then forms_acc t acc
                else forms_acc t (r :: acc)
    end
  end.

Definition rep_adj (r : N * (vgraph * perm)) : nat -> nat -> bool := radj (fst (snd r)) (snd (snd r)).

Definition label_check (k : nat) (gs : list vgraph) : bool :=
  match forms_acc gs [] with
  | None => false
  | Some reps => pairwise_b (fun r1 r2 => negb (iso_b k (rep_adj r1) (rep_adj r2))) reps
  end.

(* one isomorphic pair given with its isomorphism (for sampled graphs): h is g relabelled by q *)
Definition label_pair_check (g h : vgraph) (q : perm) : bool :=
  (nv_of g =? nv_of h) && is_permb (nv_of g) q &&
  forallb (fun ij => Bool.eqb (cvadj h (fst ij) (snd ij)) (cvadj g (app q (fst ij)) (app q (snd ij))))
          (pairs_of (nv_of g)) &&
  match form_of g, form_of h with
  | Some rg, Some rh => (fst rg =? fst rh)%N
  | _, _ => false
  end.

(* every graph on k vertices *)
Definition check_level (vbdom : vgraph -> list N) (k : nat) : bool :=
  let gs := all_graphs k in
  forallb (fun g => check_graph (vbdom g) g) gs && label_check k gs.

(* every graph on 1..n vertices *)
Definition check_upto (vbdom : vgraph -> list N) (n : nat) : bool :=
  forallb (check_level vbdom) (seq 1 n).

End Check.
