(* Counting core of the completeness certificate used by the C03 harness (stdlib only).

   A finite universe [X] (a duplicate-free list) carries an equivalence [R] (decidable,
   given as a boolean function).  The class of [y] has [csize y] members.  If [Y] is a list
   of members of [X] that are pairwise inequivalent and the class sizes of its members add up
   to [length X], then every member of [X] is equivalent to exactly one member of [Y].

   For graphs on n vertices: X = all 2^(n(n-1)/2) labelled graphs, R = isomorphism, and the
   class of g has n!/|Aut g| members (orbit-stabiliser; proved in Search/Certificate.v with
   mathcomp).  This file is the pure counting argument. *)
From Coq Require Import List Arith Lia Bool.
Import ListNotations.

Section Counting.
Context {A : Type}.
Variable R : A -> A -> bool.
Variable X : list A.

Hypothesis R_refl : forall x, In x X -> R x x = true.
Hypothesis R_sym : forall x y, In x X -> In y X -> R x y = true -> R y x = true.
Hypothesis R_trans : forall x y z, In x X -> In y X -> In z X ->
  R x y = true -> R y z = true -> R x z = true.

Definition csize (y : A) : nat := length (filter (R y) X).

Definition hits (Y : list A) (x : A) : nat := length (filter (fun y => R y x) Y).

Fixpoint sum_sizes (Y : list A) : nat :=
  match Y with [] => 0 | y :: Y' => csize y + sum_sizes Y' end.

Lemma filter_length_or_disjoint : forall (p q : A -> bool) (l : list A),
  (forall x, In x l -> p x = true -> q x = true -> False) ->
  length (filter (fun x => p x || q x) l) = length (filter p l) + length (filter q l).
Proof.
  intros p q l. induction l as [|x l IH]; intros Hd; simpl; [reflexivity|].
  assert (IH' := IH (fun y Hy => Hd y (or_intror Hy))).
  destruct (p x) eqn:Hp, (q x) eqn:Hq; simpl; try lia.
  exfalso. apply (Hd x); auto. now left.
Qed.

Lemma filter_length_le : forall (p : A -> bool) (l : list A), length (filter p l) <= length l.
Proof. intros p l. induction l as [|x l IH]; simpl; [lia|]. destruct (p x); simpl; lia. Qed.

Lemma filter_length_full : forall (p : A -> bool) (l : list A),
  length (filter p l) = length l -> forall x, In x l -> p x = true.
Proof.
  intros p l. induction l as [|a l IH]; simpl; intros Hlen x Hin; [contradiction|].
  pose proof (filter_length_le p l) as Hle.
  destruct (p a) eqn:Hp; simpl in Hlen.
  - destruct Hin as [<-|Hin]; [assumption|]. apply IH; [lia|assumption].
  - lia.
Qed.

Lemma filter_false_length : forall (l : list A), length (filter (fun _ => false) l) = 0.
Proof. induction l; simpl; auto. Qed.

Lemma filter_none : forall (p : A -> bool) (l : list A),
  (forall z, In z l -> p z = false) -> filter p l = [].
Proof.
  intros p l. induction l as [|a l IH]; intros H; simpl; [reflexivity|].
  rewrite (H a (or_introl eq_refl)). apply IH. intros z Hz. apply H. now right.
Qed.

(* the members of X equivalent to some member of Y *)
Definition covered (Y : list A) (x : A) : bool := existsb (fun y => R y x) Y.

Lemma covered_count : forall Y,
  Forall (fun y => In y X) Y ->
  ForallOrdPairs (fun y y' => R y y' = false) Y ->
  length (filter (covered Y) X) = sum_sizes Y.
Proof.
  induction Y as [|y Y IH]; intros Hin Hpw.
  - simpl. unfold covered. simpl. apply filter_false_length.
  - inversion Hin as [|? ? Hy HinY]; subst. inversion Hpw as [|? ? Hyy HpwY]; subst.
    simpl. rewrite <- (IH HinY HpwY).
    change (filter (covered (y :: Y)) X) with (filter (fun x => R y x || covered Y x) X).
    rewrite filter_length_or_disjoint; [reflexivity|].
    intros x Hx Hyx Hcov. unfold covered in Hcov. apply existsb_exists in Hcov.
    destruct Hcov as [y' [Hy' Hy'x]].
    rewrite Forall_forall in Hyy, HinY.
    assert (R y y' = true).
    { apply (R_trans y x y'); auto. all: try (apply R_sym; auto). }
    rewrite (Hyy y' Hy') in H. discriminate.
Qed.

Lemma hits_le_1 : forall Y x, In x X ->
  Forall (fun y => In y X) Y ->
  ForallOrdPairs (fun y y' => R y y' = false) Y ->
  hits Y x <= 1.
Proof.
  induction Y as [|y Y IH]; intros x Hx Hin Hpw; simpl; [unfold hits; simpl; lia|].
  inversion Hin as [|? ? Hy HinY]; subst. inversion Hpw as [|? ? Hyy HpwY]; subst.
  unfold hits in *. simpl. destruct (R y x) eqn:Hyx; [|apply IH; auto].
  simpl. enough (filter (fun y0 => R y0 x) Y = []) as -> by (simpl; lia).
  rewrite Forall_forall in Hyy, HinY.
  apply filter_none. intros z Hz.
  destruct (R z x) eqn:Hzx; [|reflexivity].
  exfalso. assert (In z X) by (apply HinY; assumption).
  assert (R y z = true).
  { apply (R_trans y x z); auto. all: try (apply R_sym; auto). }
  rewrite (Hyy z Hz) in H0. discriminate.
Qed.

Lemma hits_covered : forall Y x, covered Y x = true -> 1 <= hits Y x.
Proof.
  induction Y as [|y Y IH]; intros x; unfold covered, hits in *; simpl; [discriminate|].
  destruct (R y x); simpl; [lia|]. apply IH.
Qed.

(* The counting core: representatives of distinct classes whose class sizes add up to the
   size of the universe hit every class, exactly once. *)
Theorem representatives_complete : forall Y,
  NoDup X ->
  Forall (fun y => In y X) Y ->
  ForallOrdPairs (fun y y' => R y y' = false) Y ->
  sum_sizes Y = length X ->
  forall x, In x X -> hits Y x = 1.
Proof.
  intros Y _ Hin Hpw Hsum x Hx.
  pose proof (covered_count Y Hin Hpw) as Hc. rewrite Hsum in Hc.
  pose proof (filter_length_full _ _ Hc x Hx) as Hcov.
  pose proof (hits_covered Y x Hcov). pose proof (hits_le_1 Y x Hx Hin Hpw). lia.
Qed.

End Counting.
