(* C03 — order-preserving refinement.  Every step of the labelling that changes the ordered
   partition downwards (a split of a bin into fragments, a round, a whole refinement,
   individualisation, a descent to a leaf) replaces a bin IN PLACE by bins with the same
   vertices.  Hence: a vertex that lies in an earlier cell than another at some moment of the
   first refinement lies in an earlier cell of the root, and before it in every leaf below the
   root ([oref], [V_oref], [refine_oref], [leaves_sorted]); class-preserving maps that fix a
   partition bin by bin keep the cell index ([sim_icell]).
   Then the refinement with the viability check of ComposeModel.v: it returns what the plain
   refinement returns, or it exits at a partition that the plain result refines in place
   ([refine_v_cases]). *)
From Coq Require Import List NArith ZArith Arith Bool Lia Permutation Sorted.
From Mamba Require Import Disjoint.Model.
From Mamba Require Search.Model.
From Mamba Require Import Canon.Perm Canon.Iso Canon.Model Canon.Refine Canon.Tree.
From Mamba Require Import Canon.SearchModel Canon.SearchCells Canon.SearchDeage Canon.SearchRefine.
From Mamba Require Import Search.ComposeModel.
Import ListNotations.
Local Open Scope nat_scope.

(* ---------------------------------------------------------------- cell index on partitions *)

Fixpoint icell (P : part) (v : nat) : nat :=
  match P with
  | [] => 0
  | c :: r => if memb v (snd c) then 0 else S (icell r v)
  end.

Lemma in_cell_icell : forall cs v, in_cell cs v = icell (erase cs) v.
Proof.
  induction cs as [|c cs IH]; intros v; [reflexivity|].
  cbn [in_cell erase map icell]. unfold cverts. rewrite <- IH. reflexivity.
Qed.

Lemma icell_le : forall P v, icell P v <= length P.
Proof.
  induction P as [|c P IH]; intros v; cbn [icell length]; [lia|].
  destruct (memb v (snd c)); [lia|]. specialize (IH v). lia.
Qed.

Lemma icell_in : forall P v, In v (verts P) -> icell P v < length P.
Proof.
  induction P as [|c P IH]; intros v H; [contradiction|].
  rewrite verts_cons in H. cbn [icell length].
  destruct (memb v (snd c)) eqn:M; [lia|].
  apply in_app_or in H. destruct H as [H|H]; [apply memb_In in H; congruence|].
  specialize (IH v H). lia.
Qed.

Lemma icell_notin : forall P v, ~ In v (verts P) -> icell P v = length P.
Proof.
  induction P as [|c P IH]; intros v H; [reflexivity|].
  rewrite verts_cons in H. cbn [icell length].
  destruct (memb v (snd c)) eqn:M.
  - exfalso. apply H. apply in_or_app. left. apply memb_In. exact M.
  - rewrite IH; [reflexivity|]. intros Q. apply H. apply in_or_app. right. exact Q.
Qed.

Lemma icell_app_l : forall A B v, In v (verts A) -> icell (A ++ B) v = icell A v.
Proof.
  induction A as [|c A IH]; intros B v H; [contradiction|].
  rewrite verts_cons in H. cbn [app icell]. destruct (memb v (snd c)) eqn:M; [reflexivity|].
  apply in_app_or in H. destruct H as [H|H]; [apply memb_In in H; congruence|].
  rewrite IH by exact H. reflexivity.
Qed.

Lemma icell_app_r : forall A B v, ~ In v (verts A) -> icell (A ++ B) v = length A + icell B v.
Proof.
  induction A as [|c A IH]; intros B v H; [reflexivity|].
  rewrite verts_cons in H. cbn [app icell length]. destruct (memb v (snd c)) eqn:M.
  - exfalso. apply H. apply in_or_app. left. apply memb_In. exact M.
  - rewrite IH; [reflexivity|]. intros Q. apply H. apply in_or_app. right. exact Q.
Qed.

(* the index of the cell that contains v, when the vertices are distinct *)
Lemma icell_index : forall b c a v, NoDup (verts (b ++ c :: a)) -> In v (snd c) ->
  icell (b ++ c :: a) v = length b.
Proof.
  intros b c a v ND Hv. rewrite verts_app, verts_cons in ND.
  rewrite icell_app_r.
  - cbn [icell]. replace (memb v (snd c)) with true by (symmetry; apply memb_In; exact Hv). lia.
  - intros Q. eapply NoDup_app_disj; [exact ND|exact Q|]. apply in_or_app. left. exact Hv.
Qed.

(* ---------------------------------------------------------------- refinement in place *)

(* Q refines P in place: the order of the cells is kept *)
Definition oref (P Q : part) : Prop :=
  forall x y, icell P x < icell P y -> icell Q x < icell Q y.

Lemma oref_refl : forall P, oref P P.
Proof. intros P x y H. exact H. Qed.

Lemma oref_trans : forall P Q R, oref P Q -> oref Q R -> oref P R.
Proof. intros P Q R H1 H2 x y H. apply H2, H1, H. Qed.

Lemma oref_le : forall P Q x y, oref P Q -> icell Q x <= icell Q y -> icell P x <= icell P y.
Proof.
  intros P Q x y H L. destruct (Nat.le_gt_cases (icell P x) (icell P y)) as [A|A]; [exact A|].
  specialize (H y x A). lia.
Qed.

Definition same_verts (c : cell) (l : part) : Prop := forall x, In x (verts l) <-> In x (snd c).

(* every cell replaced by a block of cells with the same vertices *)
Lemma oref_blocks : forall P parts, Forall2 same_verts P parts -> oref P (concat parts).
Proof.
  intros P parts F. induction F as [|c l P parts Hc _ IH]; [apply oref_refl|].
  intros x y H. cbn [concat]. cbn [icell] in H.
  destruct (memb x (snd c)) eqn:Mx.
  - destruct (memb y (snd c)) eqn:My; [lia|].
    assert (Hx : In x (verts l)) by (apply Hc, memb_In; exact Mx).
    assert (Hy : ~ In y (verts l)) by (intros Q; apply Hc, memb_In in Q; congruence).
    rewrite (icell_app_l _ _ _ Hx), (icell_app_r _ _ _ Hy).
    pose proof (icell_in l x Hx). lia.
  - destruct (memb y (snd c)) eqn:My; [lia|].
    assert (Hx : ~ In x (verts l)) by (intros Q; apply Hc, memb_In in Q; congruence).
    assert (Hy : ~ In y (verts l)) by (intros Q; apply Hc, memb_In in Q; congruence).
    rewrite (icell_app_r _ _ _ Hx), (icell_app_r _ _ _ Hy).
    assert (icell P x < icell P y) by lia. specialize (IH x y H0). lia.
Qed.

Lemma same_verts_self : forall c, same_verts c [c].
Proof. intros c x. rewrite verts_cons. cbn [verts map concat]. rewrite app_nil_r. tauto. Qed.

Lemma blocks_self : forall P : part, Forall2 same_verts P (map (fun c => [c]) P).
Proof. induction P as [|c P IH]; constructor; [apply same_verts_self|exact IH]. Qed.

(* one cell in the middle replaced *)
Lemma oref_mid : forall b c a l, same_verts c l -> oref (b ++ c :: a) (b ++ l ++ a).
Proof.
  intros b c a l H.
  replace (b ++ l ++ a) with (concat (map (fun c => [c]) b ++ l :: map (fun c => [c]) a)).
  - apply oref_blocks. apply Forall2_app; [apply blocks_self|]. constructor; [exact H|apply blocks_self].
  - rewrite concat_app. cbn [concat]. rewrite !concat_singletons. reflexivity.
Qed.

(* only the second components matter *)
Lemma icell_snd : forall P Q v, map snd P = map snd Q -> icell P v = icell Q v.
Proof.
  induction P as [|c P IH]; intros [|d Q] v H; try discriminate; [reflexivity|].
  cbn [map] in H. inversion H as [[H1 H2]]. cbn [icell]. rewrite H1, (IH Q v H2). reflexivity.
Qed.

Lemma pick_snd : forall P P' w, pick P = Some (P', w) -> map snd P' = map snd P.
Proof.
  induction P as [|c P IH]; intros P' w H; cbn [pick] in H; [discriminate|].
  destruct (pick P) as [[r w0]|] eqn:E.
  - inversion H; subst. cbn [map]. rewrite (IH _ _ eq_refl). reflexivity.
  - destruct (fst c); [|discriminate]. inversion H; subst. reflexivity.
Qed.

Lemma step_oref : forall g w P, oref P (flat_map (split_cell g w) P).
Proof.
  intros g w P. rewrite flat_map_concat_map. apply oref_blocks.
  induction P as [|c P IH]; cbn [map]; constructor; [|exact IH].
  intros x. pose proof (split_cell_verts g w c) as HP. split; intros H.
  - eapply Permutation_in; [exact HP|exact H].
  - eapply Permutation_in; [apply Permutation_sym; exact HP|exact H].
Qed.

Lemma refine_fuel_oref : forall k g P Q, refine_fuel k g P = Some Q -> oref P Q.
Proof.
  induction k as [|k IH]; intros g P Q H; cbn [refine_fuel] in H.
  - destruct (pick P) as [[P' w]|]; [discriminate|]. inversion H; subst. apply oref_refl.
  - destruct (pick P) as [[P' w]|] eqn:E; [|inversion H; subst; apply oref_refl].
    apply oref_trans with P'.
    + intros x y L. rewrite !(icell_snd P' P) by (eapply pick_snd; exact E). exact L.
    + eapply oref_trans; [apply (step_oref g w)|]. apply (IH g). exact H.
Qed.

Lemma refine_oref : forall g P Q, refine g P = Some Q -> oref P Q.
Proof. intros g P Q H. unfold refine in H. eapply refine_fuel_oref. exact H. Qed.

Lemma indiv_oref : forall b c a fl v, In v c -> oref (b ++ (fl, c) :: a) (indiv b c a v).
Proof.
  intros b c a fl v Hv. unfold indiv.
  change (b ++ (true, [v]) :: (true, filter (fun u => negb (u =? v)) c) :: a)
    with (b ++ [(true, [v]); (true, filter (fun u => negb (u =? v)) c)] ++ a).
  apply oref_mid. intros x. cbn [verts map concat snd]. rewrite app_nil_r. cbn [app In].
  rewrite filter_In. split.
  - intros [<-|[H _]]; assumption.
  - intros H. destruct (Nat.eq_dec v x) as [E|E]; [left; exact E|right].
    split; [exact H|]. apply negb_true_iff, Nat.eqb_neq. congruence.
Qed.

(* the splitting steps of the search model *)
Lemma V_oref : forall a cs cs', V a cs cs' -> oref (erase cs) (erase cs').
Proof.
  intros a cs cs' (parts & F & ->).
  replace (erase (concat parts)) with (concat (map erase parts))
    by (unfold erase; rewrite concat_map; reflexivity).
  apply oref_blocks. induction F as [|c l cs parts Hc _ IH]; cbn [erase map]; constructor; [|exact IH].
  intros x. pose proof (vrep_order _ _ _ Hc) as HP. unfold order_of in HP.
  change (snd (snd c)) with (cverts c). split; intros H.
  - eapply Permutation_in; [exact HP|exact H].
  - eapply Permutation_in; [apply Permutation_sym; exact HP|exact H].
Qed.

(* ---------------------------------------------------------------- leaves *)

Definition cle (P : part) (x y : nat) : Prop := icell P x <= icell P y.

Lemma verts_sorted : forall P, NoDup (verts P) -> StronglySorted (cle P) (verts P).
Proof.
  induction P as [|c P IH]; intros ND; [constructor|].
  rewrite verts_cons in *. pose proof (NoDup_app_r _ _ _ ND) as ND2.
  assert (A : forall l, incl l (snd c) -> StronglySorted (cle (c :: P)) (l ++ verts P)).
  { induction l as [|x l IHl]; intros I.
    - cbn [app]. specialize (IH ND2). clear - IH ND.
      assert (G : forall l, StronglySorted (cle P) l -> (forall y, In y l -> ~ In y (snd c)) ->
                  StronglySorted (cle (c :: P)) l).
      { induction l as [|y l IHl]; intros S D; [constructor|]. inversion S as [|? ? S1 S2]; subst.
        constructor; [apply IHl; [exact S1|intros z Hz; apply D; right; exact Hz]|].
        rewrite Forall_forall in *. intros z Hz. unfold cle in *. cbn [icell].
        replace (memb y (snd c)) with false
          by (symmetry; apply not_true_iff_false; intros Q; apply memb_In in Q; exact (D y (or_introl eq_refl) Q)).
        replace (memb z (snd c)) with false
          by (symmetry; apply not_true_iff_false; intros Q; apply memb_In in Q; exact (D z (or_intror Hz) Q)).
        specialize (S2 z Hz). lia. }
      apply G; [exact IH|]. intros y Hy Q. eapply NoDup_app_disj; [exact ND|exact Q|exact Hy].
    - cbn [app]. constructor; [apply IHl; intros z Hz; apply I; right; exact Hz|].
      apply Forall_forall. intros z _. unfold cle. cbn [icell].
      replace (memb x (snd c)) with true by (symmetry; apply memb_In, I; left; reflexivity). lia. }
  apply A. apply incl_refl.
Qed.

Lemma sorted_weaken : forall (R R' : nat -> nat -> Prop) l, (forall x y, R x y -> R' x y) ->
  StronglySorted R l -> StronglySorted R' l.
Proof.
  intros R R' l H S. induction S as [|x l S IH F]; constructor; [exact IH|].
  eapply Forall_impl; [|exact F]. intros y. apply H.
Qed.

(* a leaf below P lists the vertices cell by cell in the order of P *)
Lemma leaves_sorted : forall d g P p, NoDup (verts P) -> In (Some p) (leaves d g P) ->
  StronglySorted (cle P) p.
Proof.
  induction d as [|d IH]; intros g P p Hnd Hin; cbn [leaves] in Hin.
  - destruct (target P) as [[[b c] a]|]; destruct Hin as [H|[]]; [discriminate|].
    inversion H; subst. apply verts_sorted. exact Hnd.
  - destruct (target P) as [[[b c] a]|] eqn:ET.
    + apply in_flat_map in Hin. destruct Hin as [v [Hv Hin]].
      destruct (target_spec _ _ _ _ ET) as [fl [EP _]]. subst P.
      assert (Hc : NoDup c).
      { rewrite verts_app, verts_cons in Hnd. cbn [snd] in Hnd.
        apply NoDup_app_r in Hnd. apply NoDup_app_l in Hnd. exact Hnd. }
      pose proof (indiv_verts b c a fl v Hc Hv) as HI.
      destruct (refine g (indiv b c a v)) as [Q|] eqn:ER; [|destruct Hin as [H|[]]; discriminate].
      pose proof (refine_verts _ _ _ ER) as HR.
      assert (NQ : NoDup (verts Q))
        by (apply (Permutation_NoDup (Permutation_sym (Permutation_trans HR HI))); exact Hnd).
      specialize (IH g Q p NQ Hin).
      eapply sorted_weaken; [|exact IH]. intros x y L. unfold cle in *.
      eapply oref_le; [|exact L].
      eapply oref_trans; [apply (indiv_oref b c a fl v Hv)|apply (refine_oref g _ _ ER)].
    + destruct Hin as [H|[]]. inversion H; subst. apply verts_sorted. exact Hnd.
Qed.

(* ---------------------------------------------------------------- maps fixing a partition *)

Lemma sim_icell : forall f P P', sim f P P' -> NoDup (verts P') ->
  forall x, In x (verts P) -> icell P' (f x) = icell P x.
Proof.
  intros f P P' S. induction S as [|c c' P P' [_ Hc] S IH]; intros ND x Hx; [contradiction|].
  rewrite verts_cons in *. cbn [icell]. destruct (memb x (snd c)) eqn:M.
  - apply memb_In in M.
    replace (memb (f x) (snd c')) with true; [reflexivity|].
    symmetry. apply memb_In. apply (Permutation_in _ Hc). apply in_map. exact M.
  - apply in_app_or in Hx. destruct Hx as [Hx|Hx]; [apply memb_In in Hx; congruence|].
    assert (Hfx : In (f x) (verts P')) by (apply (Permutation_in _ (sim_verts _ _ _ S)), in_map; exact Hx).
    replace (memb (f x) (snd c')) with false.
    + rewrite IH; [reflexivity|eapply NoDup_app_r; exact ND|exact Hx].
    + symmetry. apply not_true_iff_false. intros Q. apply memb_In in Q.
      eapply NoDup_app_disj; [exact ND|exact Q|exact Hfx].
Qed.

(* ---------------------------------------------------------------- the viability check *)

Lemma viab_scan_some : forall cs n cell vs, (forall v, In v vs -> v < n) ->
  exists b, viab_scan cs n cell vs = Some b.
Proof.
  intros cs n cell vs. induction vs as [|v vs IH]; intros H; cbn [viab_scan]; [eauto|].
  replace (v <? n) with true by (symmetry; apply Nat.ltb_lt, H; left; reflexivity).
  destruct (in_cell cs v <? cell); [eauto|]. apply IH. intros u Hu. apply H. right. exact Hu.
Qed.

Lemma viab_scan_true : forall cs n cell vs, viab_scan cs n cell vs = Some true ->
  exists v, In v vs /\ in_cell cs v < cell.
Proof.
  intros cs n cell vs. induction vs as [|v vs IH]; intros H; cbn [viab_scan] in H; [discriminate|].
  destruct (v <? n); [|discriminate]. destruct (in_cell cs v <? cell) eqn:L.
  - exists v. split; [left; reflexivity|apply Nat.ltb_lt; exact L].
  - destruct (IH H) as [u [Hu Lu]]. exists u. split; [right; exact Hu|exact Lu].
Qed.

Definition bits_ok (n : nat) (vb : N) : Prop := forall v, In v (Search.Model.bits_of vb) -> v < n.

Lemma viab_check_some : forall cs n vb, 0 < n -> bits_ok n vb -> exists b, viab_check cs n vb = Some b.
Proof.
  intros cs [|n1] vb Hn H; [lia|]. cbn [viab_check]. apply viab_scan_some. exact H.
Qed.

Lemma viab_check_true : forall cs n vb, viab_check cs n vb = Some true ->
  exists v, In v (Search.Model.bits_of vb) /\ in_cell cs v < in_cell cs (n - 1).
Proof.
  intros cs [|n1] vb H; [discriminate|]. cbn [viab_check] in H.
  replace (S n1 - 1) with n1 by lia. eapply viab_scan_true. exact H.
Qed.

(* ---------------------------------------------------------------- the refinement with the check *)

Section RefineV.
Variable g : graph.
Variables n m : nat.
Variables cb fl : list nat.
Variable vb : N.
Hypothesis Hn : 0 < n.
Hypothesis Hvb : bits_ok n vb.

(* an exit at a partition that the plain result refines in place *)
Definition exits (a : Z) (rv r : option (bool * pstate)) : Prop :=
  exists psx, rv = Some (true, psx) /\ viab_check (p_cells psx) n vb = Some true /\
    forall w ps', r = Some (w, ps') -> V a (p_cells psx) (p_cells ps').

Lemma round_v_cases : forall w age pre_rev post value spl,
  round_loop_v g n m cb fl vb w age pre_rev post value spl = round_loop g n m cb fl w age pre_rev post value spl \/
  exits age (rr_cells (round_loop_v g n m cb fl vb w age pre_rev post value spl))
            (rr_cells (round_loop g n m cb fl w age pre_rev post value spl)).
Proof.
  intros w age. induction pre_rev as [|c pre IH]; intros post value spl; [left; reflexivity|].
  cbn [round_loop_v round_loop]. destruct (uniform g w (cverts c)); [apply IH|].
  set (post' := with_ages age (cage c) (fragments g w (cverts c)) ++ post).
  assert (K : forall v s,
    match viab_check (rev pre ++ post') n vb with
    | None => RrPanic
    | Some true => RrWorse (mkP (rev pre ++ post') age v s)
    | Some false => round_loop_v g n m cb fl vb w age pre post' v s
    end = round_loop g n m cb fl w age pre post' v s \/
    exits age (rr_cells match viab_check (rev pre ++ post') n vb with
                        | None => RrPanic
                        | Some true => RrWorse (mkP (rev pre ++ post') age v s)
                        | Some false => round_loop_v g n m cb fl vb w age pre post' v s
                        end)
              (rr_cells (round_loop g n m cb fl w age pre post' v s))).
  { intros v s. destruct (viab_check_some (rev pre ++ post') n vb Hn Hvb) as [b E]. rewrite E.
    destruct b; [|apply IH]. right. exists (mkP (rev pre ++ post') age v s).
    split; [reflexivity|]. split; [exact E|]. intros w0 ps' R. cbn [p_cells].
    destruct (round_loop_spec g n m cb fl w age pre post' v s w0 ps' R) as (mid & HV & HC & _).
    rewrite HC. apply V_app; [exact HV|apply V_refl]. }
  destruct (length pre =? spl); [|apply K].
  destruct (expand_value g (rev pre ++ post') n m cb fl value spl) as [|v s|v s];
    [left; reflexivity|left; reflexivity|apply K].
Qed.

Lemma refine_v_cases : forall k ps,
  refine_loop_v k g n m cb fl vb ps = refine_loop k g n m cb fl ps \/
  exists psx, refine_loop_v k g n m cb fl vb ps = Ok (true, psx) /\
    viab_check (p_cells psx) n vb = Some true /\
    forall w ps', refine_loop k g n m cb fl ps = Ok (w, ps') -> V (p_age ps) (p_cells psx) (p_cells ps').
Proof.
  induction k as [|k IH]; intros ps; cbn [refine_loop_v refine_loop].
  - left. reflexivity.
  - destruct (pick_a (p_cells ps)) as [[P' w]|] eqn:EP; [|left; reflexivity].
    destruct (round_v_cases w (p_age ps) (rev P') [] (p_value ps) (p_spl ps)) as [E|(psx & E1 & E2 & E3)].
    + rewrite E.
      destruct (round_loop g n m cb fl w (p_age ps) (rev P') [] (p_value ps) (p_spl ps)) as [|ps1|ps1] eqn:ER;
        [left; reflexivity|left; reflexivity|].
      destruct (IH ps1) as [E'|(psx & E1 & E2 & E3)]; [left; exact E'|right].
      exists psx. split; [exact E1|]. split; [exact E2|].
      destruct (round_loop_spec g n m cb fl w (p_age ps) (rev P') [] (p_value ps) (p_spl ps) false ps1)
        as (_ & _ & _ & HA & _); [rewrite ER; reflexivity|].
      rewrite <- HA. exact E3.
    + right. exists psx.
      destruct (round_loop_v g n m cb fl vb w (p_age ps) (rev P') [] (p_value ps) (p_spl ps)) as [|px|px];
        cbn [rr_cells] in E1; try discriminate. inversion E1; subst px.
      split; [reflexivity|]. split; [exact E2|]. intros w0 ps' R.
      destruct (round_loop g n m cb fl w (p_age ps) (rev P') [] (p_value ps) (p_spl ps)) as [|ps1|ps1] eqn:ER;
        [discriminate| |].
      * inversion R; subst. apply (E3 true ps'). reflexivity.
      * specialize (E3 false ps1 eq_refl).
        destruct (round_loop_spec g n m cb fl w (p_age ps) (rev P') [] (p_value ps) (p_spl ps) false ps1)
          as (_ & _ & _ & HA & _); [rewrite ER; reflexivity|].
        destruct (refine_loop_spec _ _ _ _ _ _ _ _ _ R) as (HV & _). rewrite HA in HV.
        eapply V_trans; eassumption.
Qed.

End RefineV.
