(* C03 — the early viability exit of CanonicalIsomorphAllocated (options.CheckViability), on
   adjacency matrices: [canon_search_v] of ComposeModel.v returns what [canon_search] returns, or
   it returns nil and then some vertex v of ViableBits lies in an earlier cell of the root of
   the search tree (the first equitable partition) than the vertex n-1 ([early_root]); in that
   case the first vertex, in the order of the canonical labelling, that is n-1 or in ViableBits
   is not in the orbit of n-1 ([early_sound]): the labelling is a leaf below the root, so it
   lists the vertices cell by cell in the order of the root, and every automorphism fixes the
   root bin by bin. *)
From Coq Require Import List NArith ZArith Arith Bool Lia Permutation Sorted.
From Mamba Require Import Disjoint.Model Disjoint.Proofs.
From Mamba Require Search.Model Search.OrderlyGraph.
From Mamba Require Canon.AutBase Canon.Aut.
From Mamba Require Import Canon.Perm Canon.Iso Canon.Model Canon.Refine Canon.Tree.
From Mamba Require Import Canon.SearchModel Canon.SearchCells Canon.SearchDeage Canon.SearchRefine
  Canon.SearchExpand Canon.SearchInit Canon.SearchEquiv Canon.SearchPrune Canon.SearchProofs Canon.SearchAut
  Canon.SearchCompleteBase Canon.SearchComplete.
From Mamba Require Import Search.ComposeModel Search.ComposeRefine.
Import ListNotations.
Local Open Scope nat_scope.

(* ---------------------------------------------------------------- lists *)

Lemma find_split : forall (f : nat -> bool) l u, List.find f l = Some u ->
  exists l1 l2, l = l1 ++ u :: l2 /\ (forall x, In x l1 -> f x = false) /\ f u = true.
Proof.
  intros f l. induction l as [|a l IH]; intros u H; cbn [List.find] in H; [discriminate|].
  destruct (f a) eqn:Fa.
  - inversion H; subst. exists [], l. split; [reflexivity|]. split; [intros x []|exact Fa].
  - destruct (IH u H) as (l1 & l2 & E & H1 & H2). exists (a :: l1), l2.
    split; [rewrite E; reflexivity|]. split; [|exact H2].
    intros x [<-|Hx]; [exact Fa|apply H1; exact Hx].
Qed.

Lemma sorted_app_r : forall (R : nat -> nat -> Prop) l1 l2, StronglySorted R (l1 ++ l2) -> StronglySorted R l2.
Proof.
  intros R l1. induction l1 as [|a l1 IH]; intros l2 H; [exact H|].
  cbn [app] in H. inversion H; subst. apply IH. assumption.
Qed.

(* ---------------------------------------------------------------- no classes *)

Lemma class0 : forall n v, v < n -> in_cell (init_cells n None) v = 0.
Proof.
  intros [|n] v Hv; [lia|]. unfold init_cells, init_part. cbn [map in_cell cverts snd].
  replace (memb v (seq 0 (S n))) with true; [reflexivity|].
  symmetry. apply memb_In. apply in_seq. lia.
Qed.

Lemma real_fuel_eq : forall n, real_fuel n = search_fuel n.
Proof.
  intros n. reflexivity.   (* [tree_nodes] and [SearchTerm.Nn] are the same fixpoint *)
Qed.

(* ---------------------------------------------------------------- the shortcuts *)

Lemma canon_search_v_shortcut : forall fuel G vb, length G = 0 \/ num_edges G = 0 ->
  canon_search_v fuel G vb =
  match canon_search fuel G None with Ok r => Ok (Some r) | Panic => Panic | Fuel => Fuel end.
Proof.
  intros fuel G vb H. unfold canon_search_v, canon_search.
  destruct (length G =? 0) eqn:E0; [reflexivity|].
  destruct H as [H|H]; [rewrite H in E0; discriminate|]. rewrite H. reflexivity.
Qed.

(* ---------------------------------------------------------------- the first refinement *)

Section Early.
Variable G : graph.
Hypothesis HG : simple G.
Let n := length G.
Let m := num_edges G.
Let cs0 := init_cells n None.
Hypothesis Hn : 0 < n.
Hypothesis Hm : 0 < m.
Variable vb : N.
Hypothesis Hvb : bits_ok n vb.

Theorem early_root : forall fuel p o gs, canon_search fuel G None = Ok (p, o, gs) ->
  canon_search_v fuel G vb = Ok (Some (p, o, gs)) \/
  (canon_search_v fuel G vb = Ok None /\
   exists root v, refine G (erase cs0) = Some root /\ In v (Search.Model.bits_of vb) /\
                  icell root v < icell root (n - 1)).
Proof.
  intros fuel p o gs H. unfold canon_search in H. unfold canon_search_v. fold n m cs0 in H |- *.
  assert (En : n =? 0 = false) by (apply Nat.eqb_neq; lia).
  assert (Em : m =? 0 = false) by (apply Nat.eqb_neq; lia).
  rewrite En, Em in *.
  assert (K : forall v s,
    (do w <- refine_s G n m [] (repeat 0 m) (mkP cs0 0%Z v s);
     main_loop G n m fuel (init_state n m (snd w)) (fst w)) = Ok (p, o, gs) ->
    (do w <- refine_v G n m [] (repeat 0 m) vb (mkP cs0 0%Z v s);
     if fst w then Ok None
     else do r <- main_loop G n m fuel (init_state n m (snd w)) false; Ok (Some r)) = Ok (Some (p, o, gs)) \/
    ((do w <- refine_v G n m [] (repeat 0 m) vb (mkP cs0 0%Z v s);
      if fst w then Ok None
      else do r <- main_loop G n m fuel (init_state n m (snd w)) false; Ok (Some r)) = Ok None /\
     exists root v, refine G (erase cs0) = Some root /\ In v (Search.Model.bits_of vb) /\
                    icell root v < icell root (n - 1))).
  { intros v s R.
    destruct (refine_s G n m [] (repeat 0 m) (mkP cs0 0%Z v s)) as [[w ps0]| |] eqn:ER; try discriminate.
    cbn [bind fst snd] in R.
    assert (Hw : w = false) by (unfold refine_s in ER; eapply refine_loop_nil; exact ER). subst w.
    destruct (refine_s_spec _ _ _ _ _ _ _ _ ER) as (_ & _ & HW). destruct (HW eq_refl) as [_ HRf].
    cbn [p_cells] in HRf.
    unfold refine_v. unfold refine_s in ER. cbn [p_cells] in *.
    destruct (refine_v_cases G n m [] (repeat 0 m) vb Hn Hvb
                (2 * length (order_of cs0) + length cs0) (mkP cs0 0%Z v s)) as [E|(psx & E1 & E2 & E3)].
    - left. rewrite E, ER. cbn [bind fst snd]. rewrite R. reflexivity.
    - right. rewrite E1. cbn [bind fst]. split; [reflexivity|].
      exists (erase (p_cells ps0)).
      destruct (viab_check_true _ _ _ E2) as (x & Hx & Lx). exists x.
      split; [exact HRf|]. split; [exact Hx|].
      specialize (E3 false ps0 ER). cbn [p_age] in E3. apply V_oref in E3.
      rewrite !in_cell_icell in Lx. apply E3. exact Lx. }
  destruct (expand_value G cs0 n m [] (repeat 0 m) [] 0) as [|v s|v s]; [discriminate|apply K; exact H|apply K; exact H].
Qed.

(* ---------------------------------------------------------------- why the exit is sound *)

Notation clsf := (in_cell cs0).

Theorem early_sound : forall fuel p o gs root v u,
  canon_search fuel G None = Ok (p, o, gs) ->
  refine G (erase cs0) = Some root ->
  In v (Search.Model.bits_of vb) -> icell root v < icell root (n - 1) ->
  List.find (fun u => (u =? n - 1) || N.testbit vb (N.of_nat u)) p = Some u ->
  ~ exists a, Aut.Aut n (adjb G) clsf a /\ AutModel.app a u = n - 1.
Proof.
  intros fuel p o gs root v u H HRf Hv Lv F (a & Ha & Eau).
  destruct (search_leaf G None HG I fuel p o gs Hm H) as (root' & HRf' & HL).
  fold n cs0 in HRf'. rewrite HRf in HRf'. inversion HRf'; subst root'. clear HRf'. fold n in HL.
  destruct (init_cells_ok n None Hn I) as (HP0 & _). fold cs0 in HP0.
  assert (HPr : Permutation (verts root) (seq 0 n))
    by (eapply perm_trans; [eapply refine_verts; exact HRf|exact HP0]).
  assert (NDr : NoDup (verts root)) by (apply (Permutation_NoDup (Permutation_sym HPr)), seq_NoDup).
  pose proof (leaves_sorted n G root p NDr HL) as HS.
  pose proof (search_perm G None HG I fuel p o gs H) as HPp. fold n in HPp.
  (* u comes no later than v in p *)
  destruct (find_split _ _ _ F) as (l1 & l2 & Ep & H1 & H2).
  assert (Hvn : v < n) by (apply Hvb; exact Hv).
  assert (Fv : (v =? n - 1) || N.testbit vb (N.of_nat v) = true).
  { apply orb_true_iff. right. apply Search.OrderlyGraph.bits_of_In. exact Hv. }
  assert (Hvp : In v p) by (apply (Permutation_in _ (Permutation_sym HPp)), in_seq; lia).
  assert (Huv : icell root u <= icell root v).
  { rewrite Ep in Hvp, HS. apply sorted_app_r in HS. inversion HS as [|? ? _ FA]; subst.
    apply in_app_or in Hvp. destruct Hvp as [Q|[Q|Q]].
    - rewrite (H1 v Q) in Fv. discriminate.
    - subst v. lia.
    - rewrite Forall_forall in FA. apply (FA v Q). }
  assert (Hup : In u p) by (rewrite Ep; apply in_or_app; right; left; reflexivity).
  assert (Hun : u < n) by (apply (Permutation_in _ HPp) in Hup; apply in_seq in Hup; lia).
  (* the automorphism fixes the root bin by bin *)
  pose proof (Aut_isaut G n clsf a Ha) as Ia.
  pose proof (isaut_autf' G n clsf a Ia) as Hf.
  assert (HSr : sim (gfun a) root root).
  { pose proof (refine_sim (gfun a) G G (seq 0 n)
                  ltac:(intros x y Hx Hy; apply in_seq in Hx; apply in_seq in Hy; apply (proj1 Hf); lia)
                  (erase cs0) (erase cs0) ltac:(intros x Hx; apply (Permutation_in _ HP0); exact Hx)
                  (class_sim G n cs0 a eq_refl HP0 Ia)) as HRs.
    rewrite HRf in HRs. exact HRs. }
  assert (Hur : In u (verts root)) by (apply (Permutation_in _ (Permutation_sym HPr)), in_seq; lia).
  pose proof (sim_icell (gfun a) root root HSr NDr u Hur) as E.
  assert (Eg : gfun a u = n - 1).
  { unfold gfun. rewrite <- Eau. symmetry. apply (app_nth0 n); [apply (isaut_length G n clsf); exact Ia|exact Hun]. }
  rewrite Eg in E. lia.
Qed.

End Early.

(* ---------------------------------------------------------------- in one statement *)

(* CanonicalIsomorphAllocated with CheckViability = true and ViableBits = vb (bits below n) on a
   simple graph with at least one vertex: it returns what the call with CheckViability = false
   returns, or it returns nil, and then the first vertex in the order of the canonical labelling
   that is n-1 or in ViableBits is not in the orbit of n-1 under Aut(G). *)
Theorem early_exit_sound : forall G vb fuel p o gs,
  simple G -> 0 < length G -> bits_ok (length G) vb ->
  canon_search fuel G None = Ok (p, o, gs) ->
  canon_search_v fuel G vb = Ok (Some (p, o, gs)) \/
  (canon_search_v fuel G vb = Ok None /\
   forall u, List.find (fun u => (u =? length G - 1) || N.testbit vb (N.of_nat u)) p = Some u ->
     ~ exists a, Aut.Aut (length G) (adjb G) (in_cell (init_cells (length G) None)) a /\
                 AutModel.app a u = length G - 1).
Proof.
  intros G vb fuel p o gs HG Hn Hvb H.
  destruct (Nat.eq_dec (num_edges G) 0) as [Hm|Hm].
  - left. rewrite (canon_search_v_shortcut fuel G vb (or_intror Hm)), H. reflexivity.
  - destruct (early_root G Hn ltac:(lia) vb Hvb fuel p o gs H) as [E|(E & root & v & R1 & R2 & R3)];
      [left; exact E|right].
    split; [exact E|]. intros u F.
    exact (early_sound G HG Hn ltac:(lia) vb Hvb fuel p o gs root v u H R1 R2 R3 F).
Qed.
