(* C03 / C04 — the answers of the labelling do not depend on the reused storage, also with
   options.CheckViability = true.  C02's reuse theorems (Canon/SearchReuse.v, SearchReuseReset.v:
   op.Reset on ANY old partition state, then the call on ANY storage contents of sufficient
   capacity, returns what the call on fresh storage returns) are about the zero options; here
   the same for the early viability exit ([canon_alloc_v_noninterference],
   [canon_alloc_reset_v_noninterference]): with currentBest empty the first refinement reads
   neither currentBest nor firstLeaf, so the check sees the same partitions; if it does not
   exit, the rest is the call without the option, to which C02's theorem applies.  Hence
   [canon_real_reused_eq]: getAutomorphismGroup on the iterator's own storage and partition, in
   whatever state earlier calls left them, stores what [canon_real] stores. *)
From Coq Require Import List NArith ZArith Arith Bool Lia Permutation.
From Mamba Require Import Disjoint.Model.
From Mamba Require Search.Model Search.ShardModel Search.OrderlyGraph Search.OrderlyTop.
From Mamba Require Import Canon.Perm Canon.Iso Canon.Model Canon.AutModel Canon.SearchModel
  Canon.SearchInit Canon.SearchCells Canon.SearchExpand Canon.SearchProofs Canon.SearchTotal
  Canon.SearchReuseModel Canon.SearchReuseCap Canon.SearchReuse Canon.SearchReuseReset.
From Mamba Require Canon.AutReset Canon.AutResetModel Canon.Refine.
From Mamba Require Import Search.ComposeModel Search.ComposeRefine Search.ComposeEarly Search.ComposeReuseModel.
From Mamba Require Search.SaveProofs Search.Compose Search.ComposeEdges.
Import ListNotations.
Local Open Scope nat_scope.

(* ---------------------------------------------------------------- with currentBest empty nothing of the storage is read *)

Section Nil.
Variable g : graph.
Variables n m : nat.
Variables cbB flB : list nat.
Variable vb : N.

Lemma expand_loop_r_nil : forall k cs fl fl' value j,
  expand_loop_r g n cbB flB k cs [] fl' value j = expand_loop k g cs n m [] fl value j.
Proof.
  induction k as [|k IH]; intros cs fl fl' value j; [reflexivity|]. cbn [expand_loop_r expand_loop].
  destruct (nth_error cs j) as [c|]; [|reflexivity].
  destruct (length (cverts c) =? 1); [|reflexivity].
  destruct (nth_error (order_of cs) j) as [u|]; [|reflexivity]. apply IH.
Qed.

Lemma round_loop_vr_nil : forall fl fl' w age pre_rev post value spl,
  round_loop_vr g n cbB flB vb [] fl' w age pre_rev post value spl =
  round_loop_v g n m [] fl vb w age pre_rev post value spl.
Proof.
  intros fl fl' w age. induction pre_rev as [|c pre IH]; intros post value spl; [reflexivity|].
  cbn [round_loop_vr round_loop_v]. destruct (uniform g w (cverts c)); [apply IH|].
  unfold expand_value_r, expand_value. rewrite (expand_loop_r_nil _ _ fl fl').
  destruct (if length pre =? spl then _ else _) as [|v s|v s]; try reflexivity.
  destruct (viab_check _ n vb) as [[|]|]; try reflexivity. apply IH.
Qed.

Lemma refine_loop_vr_nil : forall k fl fl' ps,
  refine_loop_vr g n cbB flB vb k [] fl' ps = refine_loop_v k g n m [] fl vb ps.
Proof.
  induction k as [|k IH]; intros fl fl' ps; cbn [refine_loop_vr refine_loop_v].
  - destruct (pick_a (p_cells ps)) as [[P' w]|]; reflexivity.
  - destruct (pick_a (p_cells ps)) as [[P' w]|]; [|reflexivity].
    rewrite (round_loop_vr_nil fl fl'). destruct (round_loop_v _ _ _ _ _ _ _ _ _ _ _ _); try reflexivity. apply IH.
Qed.

(* a refinement with the check that does not exit is the plain refinement *)
Lemma round_v_ok : forall cb fl w age pre_rev post value spl ps',
  round_loop_v g n m cb fl vb w age pre_rev post value spl = RrOk ps' ->
  round_loop g n m cb fl w age pre_rev post value spl = RrOk ps'.
Proof.
  intros cb fl w age. induction pre_rev as [|c pre IH]; intros post value spl ps' H; [exact H|].
  cbn [round_loop_v round_loop] in *. destruct (uniform g w (cverts c)); [apply IH; exact H|].
  destruct (length pre =? spl).
  - destruct (expand_value g _ n m cb fl value spl) as [|v s|v s]; try discriminate.
    destruct (viab_check _ n vb) as [[|]|]; try discriminate. apply IH. exact H.
  - destruct (viab_check _ n vb) as [[|]|]; try discriminate. apply IH. exact H.
Qed.

Lemma refine_v_ok : forall k cb fl ps ps',
  refine_loop_v k g n m cb fl vb ps = Ok (false, ps') -> refine_loop k g n m cb fl ps = Ok (false, ps').
Proof.
  induction k as [|k IH]; intros cb fl ps ps' H; cbn [refine_loop_v refine_loop] in *.
  - destruct (pick_a (p_cells ps)) as [[P' w]|]; [discriminate|exact H].
  - destruct (pick_a (p_cells ps)) as [[P' w]|]; [|exact H].
    destruct (round_loop_v g n m cb fl vb w (p_age ps) (rev P') [] (p_value ps) (p_spl ps)) as [|ps1|ps1] eqn:E;
      try discriminate.
    rewrite (round_v_ok _ _ _ _ _ _ _ _ _ E). apply IH. exact H.
Qed.

End Nil.

(* ---------------------------------------------------------------- the call on reused storage *)

Theorem canon_alloc_v_noninterference : forall g vb fuel st,
  simple g -> storage_caps st (length g) (num_edges g) ->
  res_map fst (canon_alloc_cells_v fuel st g vb (init_cells (length g) None)) = canon_search_v fuel g vb.
Proof.
  intros g vb fuel st Hg HS.
  assert (C1 : num_edges g <= length (st_cb st)) by apply HS.
  assert (C6 : num_edges g <= length (st_fl st)) by apply HS.
  pose proof (reuse_noninterference g None Hg I fuel st HS) as BB. unfold canon_alloc in BB.
  pose proof (canon_search_total g None Hg I fuel) as NP.
  unfold canon_alloc_cells_v, canon_search_v.
  set (n := length g) in *. set (m := num_edges g) in *. set (cs0 := init_cells n None) in *.
  destruct (n =? 0) eqn:En.
  { cbn [orb]. unfold canon_alloc_cells. fold n. rewrite En. reflexivity. }
  destruct (m =? 0) eqn:Em.
  { cbn [orb]. unfold canon_search in BB. fold n m cs0 in BB. rewrite En, Em in BB.
    destruct (canon_alloc_cells fuel st g cs0) as [[r st']| |]; cbn [res_map fst bind] in BB |- *; try discriminate.
    inversion BB; subst r. reflexivity. }
  cbn [orb].
  unfold canon_alloc_cells, canon_search in BB, NP. fold n m cs0 in BB, NP. rewrite En, Em in BB, NP.
  destruct (alloc_state st n m (mkP cs0 0%Z [] 0)) as [s0|]; cbn [of_opt bind] in BB |- *.
  2:{ cbn [res_map] in BB. exfalso. apply NP. symmetry. exact BB. }
  unfold expand_value_r, expand_value in *.
  rewrite (expand_loop_r_nil g n m (st_cb st) (st_fl st) (n - 0) cs0 (repeat 0 m) (s_fl s0) [] 0) in *.
  assert (K : forall v s,
    res_map fst (do w <- refine_s_r g n (st_cb st) (st_fl st) [] (s_fl s0) (mkP cs0 0%Z v s);
                 do f <- main_loop_r g n m (st_cb st) (st_fl st) (length (st_gens st)) fuel (set_ps s0 (snd w)) (fst w);
                 Ok ((s_cbPerm f, s_flOrb f, s_gens f), write_back st n f)) =
    (do w <- refine_s g n m [] (repeat 0 m) (mkP cs0 0%Z v s);
     main_loop g n m fuel (init_state n m (snd w)) (fst w)) ->
    (do w <- refine_s g n m [] (repeat 0 m) (mkP cs0 0%Z v s);
     main_loop g n m fuel (init_state n m (snd w)) (fst w)) <> Panic ->
    res_map fst (do w <- refine_v_r g n (st_cb st) (st_fl st) vb [] (s_fl s0) (mkP cs0 0%Z v s);
                 if fst w then Ok (None, st)
                 else do f <- main_loop_r g n m (st_cb st) (st_fl st) (length (st_gens st)) fuel (set_ps s0 (snd w)) false;
                      Ok (Some (s_cbPerm f, s_flOrb f, s_gens f), write_back st n f)) =
    (do w <- refine_v g n m [] (repeat 0 m) vb (mkP cs0 0%Z v s);
     if fst w then Ok None
     else do r <- main_loop g n m fuel (init_state n m (snd w)) false; Ok (Some r))).
  { intros v s B P. unfold refine_v_r, refine_v. cbn [p_cells].
    rewrite (refine_loop_vr_nil g n m (st_cb st) (st_fl st) vb _ (repeat 0 m) (s_fl s0)).
    destruct (refine_loop_v (2 * length (order_of cs0) + length cs0) g n m [] (repeat 0 m) vb (mkP cs0 0%Z v s))
      as [[w ps0]| |] eqn:EV; try reflexivity.
    cbn [bind fst snd]. destruct w; [reflexivity|].
    pose proof (refine_v_ok g n m vb _ _ _ _ _ EV) as ER.
    assert (ER' : refine_s g n m [] (repeat 0 m) (mkP cs0 0%Z v s) = Ok (false, ps0)) by exact ER.
    rewrite ER' in B, P. cbn [bind fst snd] in B, P.
    rewrite (refine_s_sim g n m (st_cb st) (st_fl st) C1 C6 [] (repeat 0 m) (s_fl s0)) in B;
      [|left; reflexivity|rewrite ER'; discriminate].
    rewrite ER' in B. cbn [bind fst snd] in B.
    destruct (main_loop_r g n m (st_cb st) (st_fl st) (length (st_gens st)) fuel (set_ps s0 ps0) false) as [f| |];
      cbn [bind res_map fst] in B |- *; rewrite <- B; reflexivity. }
  destruct (expand_loop (n - 0) g cs0 n m [] (repeat 0 m) [] 0) as [|v s|v s];
    [reflexivity|apply K; assumption|apply K; assumption].
Qed.

Theorem canon_alloc_reset_v_noninterference : forall g vb fuel st op,
  simple g -> storage_caps st (length g) (num_edges g) ->
  Canon.AutReset.caps_ok op (length g) (num_edges g) ->
  res_map fst (canon_alloc_reset_v fuel st op g vb) = canon_search_v fuel g vb.
Proof.
  intros g vb fuel st op Hg HS HO. unfold canon_alloc_reset_v.
  destruct (length g =? 0) eqn:En.
  - unfold canon_search_v. rewrite En. reflexivity.
  - apply Nat.eqb_neq in En.
    destruct (R.reset_spec Canon.Model.isort model_isort_length op (length g) (num_edges g) None ltac:(lia) HO I)
      as (op' & -> & Hspec).
    rewrite (cells_of_state_spec (length g) None op' ltac:(lia) I Hspec).
    exact (canon_alloc_v_noninterference g vb fuel st Hg HS).
Qed.

(* ---------------------------------------------------------------- the adapter *)

(* whatever the iterator's storage and partition hold (capacities as allocated by WithPruning or
   more), getAutomorphismGroup stores what the call on fresh storage stores *)
Theorem canon_real_reused_eq : forall st op n m nb cv vb,
  let G := nb_matrix n nb in
  simple G -> storage_caps st (length G) (num_edges G) ->
  Canon.AutReset.caps_ok op (length G) (num_edges G) ->
  canon_real_reused st op n m nb cv vb = canon_real n m nb cv vb.
Proof.
  intros st op n m nb cv vb G Hg HS HO. unfold canon_real_reused, canon_real. fold G. destruct cv.
  - pose proof (canon_alloc_reset_v_noninterference G vb (real_fuel n) st op Hg HS HO) as E.
    rewrite <- E. destruct (canon_alloc_reset_v (real_fuel n) st op G vb) as [[[r|] st']| |]; reflexivity.
  - pose proof (canon_alloc_reset_noninterference G None (real_fuel n) st op Hg I HS HO) as E.
    rewrite <- E. destruct (canon_alloc_reset (real_fuel n) st op G None) as [[r st']| |]; reflexivity.
Qed.

(* ---------------------------------------------------------------- capacities are kept *)

Lemma canon_alloc_cells_v_caps : forall fuel st g vb cs r st' N M, storage_caps st N M ->
  canon_alloc_cells_v fuel st g vb cs = Ok (r, st') -> storage_caps st' N M.
Proof.
  intros fuel st g vb cs r st' N M HC H. unfold canon_alloc_cells_v in H.
  destruct ((length g =? 0) || (num_edges g =? 0)).
  - destruct (canon_alloc_cells fuel st g cs) as [[r0 st0]| |] eqn:E; cbn [bind] in H; try discriminate.
    inversion H; subst. cbn [snd]. eapply canon_alloc_cells_caps; eassumption.
  - destruct (alloc_state st (length g) (num_edges g) _) as [s0|]; cbn [of_opt bind] in H; [|discriminate].
    assert (K : forall v s,
      (do w <- refine_v_r g (length g) (st_cb st) (st_fl st) vb [] (s_fl s0) (mkP cs 0%Z v s);
       if fst w then Ok (None, st)
       else do f <- main_loop_r g (length g) (num_edges g) (st_cb st) (st_fl st) (length (st_gens st)) fuel
                      (set_ps s0 (snd w)) false;
            Ok (Some (s_cbPerm f, s_flOrb f, s_gens f), write_back st (length g) f)) = Ok (r, st') ->
      storage_caps st' N M).
    { intros v s K. destruct (refine_v_r _ _ _ _ _ _ _ _) as [[w ps]| |]; cbn [bind fst snd] in K; try discriminate.
      destruct w; [inversion K; subst; exact HC|].
      destruct (main_loop_r _ _ _ _ _ _ _ _ _) as [f| |]; cbn [bind] in K; try discriminate.
      inversion K; subst. apply write_back_caps. exact HC. }
    destruct (expand_value_r _ _ _ _ _ _ _ _ _) as [|v s|v s]; [discriminate|eapply K; exact H|eapply K; exact H].
Qed.

Lemma canon_alloc_reset_v_caps : forall fuel st op g vb r st' N M, storage_caps st N M ->
  canon_alloc_reset_v fuel st op g vb = Ok (r, st') -> storage_caps st' N M.
Proof.
  intros fuel st op g vb r st' N M HC H. unfold canon_alloc_reset_v in H.
  destruct (length g =? 0); [inversion H; subst; exact HC|].
  destruct (Canon.AutResetModel.reset _ _ _ _ _) as [op'|]; [|discriminate].
  eapply canon_alloc_cells_v_caps; eassumption.
Qed.

(* ---------------------------------------------------------------- for the graphs of the search *)

Import Search.Model Search.ShardModel Search.OrderlyTop Search.Compose Search.ComposeEdges.

(* the iterator of WithPruning(N, ..) owns NewStorage(N, N(N-1)/2) and NewOrderedPartition(N,
   N(N-1)/2, nil); whatever they hold when getAutomorphismGroup is called on a well-formed graph
   with at most N vertices, the cache it fills is the one of [canon_real] *)
Theorem real_reused_on_search : forall N st op g nb cv vb,
  wfv g -> nv_of g <= N -> all_nbrs g = Some nb ->
  storage_caps st N (tri N) ->
  Canon.AutReset.caps_ok op N (tri N) ->
  canon_real_reused st op (nv_of g) (ne_of g) nb cv vb = canon_real (nv_of g) (ne_of g) nb cv vb.
Proof.
  intros N st op g nb cv vb W HN E HS HO.
  assert (HM : num_edges (matrix_of g) <= tri N).
  { pose proof (wfv_num_edges g W) as Q. destruct g as [[[nv ne] d] e]. cbn [ne_of nv_of] in *.
    destruct W as (_ & HE & _ & _ & HNe).
    assert (Q2 : num_edges (matrix_of (nv, ne, d, e)) = ones e) by (apply Nat2Z.inj; rewrite <- Q; exact HNe).
    rewrite Q2. unfold ones. pose proof (Canon.Refine.filter_len_le _ (N.eqb 1) e) as L. rewrite HE in L.
    pose proof (Search.SaveProofs.tri_mono nv N HN). lia. }
  apply canon_real_reused_eq; cbn zeta; rewrite (nb_matrix_eq g nb W E).
  - apply matrix_of_simple.
  - rewrite matrix_of_length. eapply storage_caps_mono; eassumption.
  - rewrite matrix_of_length. destruct HO as (O1 & O2 & O3 & O4 & O5 & O6). repeat split; lia.
Qed.
