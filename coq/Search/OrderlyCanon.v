(* C03 (orderly generation) — isCanonical of the search model decides membership of the new
   vertex in the canonical deletion orbit ([is_canonical_cdel]).

   The degree filters (degree, degree sum, degree-square sum) compute exactly "the new vertex has
   a best [key], and the viable set is the set of the other vertices with a best key"
   ([degree_tests_spec]); the final scan over the canonical order finds the first best vertex and
   compares its orbit with that of the new vertex ([perm_scan_spec]). *)
From Coq Require Import List NArith ZArith Arith Bool Lia Permutation.
From Mamba Require Import Disjoint.Model Disjoint.Proofs Search.Model Search.ShardModel Search.ShardGraph.
From Mamba Require Import Canon.AutBase Canon.Aut Canon.Group.
From Mamba Require Import Search.OrderlyBase Search.OrderlyGraph Search.OrderlySpec.
Import ListNotations.
Local Open Scope nat_scope.

Notation dfind := Disjoint.Model.find.

(* ---------------------------------------------------------------- bits *)

Lemma testbit_lor_single : forall acc i j,
  N.testbit (N.lor acc (N.shiftl 1 (N.of_nat i))) (N.of_nat j) = N.testbit acc (N.of_nat j) || (i =? j).
Proof. intros. rewrite N.lor_spec, testbit_single. reflexivity. Qed.

Lemma testbit_lxor_single : forall acc i j,
  N.testbit (N.lxor acc (N.shiftl 1 (N.of_nat i))) (N.of_nat j) = xorb (N.testbit acc (N.of_nat j)) (i =? j).
Proof. intros. rewrite N.lxor_spec, testbit_single. reflexivity. Qed.

Lemma N_eq0_bits : forall x, (forall j, N.testbit x (N.of_nat j) = false) -> x = 0%N.
Proof.
  intros x H. apply N.bits_inj_0. intros m. rewrite <- (N2Nat.id m). apply H.
Qed.

(* ---------------------------------------------------------------- the loops of isCanonical *)

Section Loops.
Variable n : nat.
Variable A : agraph.
Variable d : list Z.
Variable e : list N.
Let D := zdeg n A.
Let S1 := nsum n A D.
Let S2 := nsum n A (fun j => (D j * D j)%Z).
Hypothesis Hd : forall i, i < n -> nth_error d i = Some (D i).
Hypothesis He : forall u v, u < n -> v < n -> u <> v ->
  exists b, nth_error e (edge_index u v) = Some b /\ A u v = (b =? 1)%N.
Hypothesis Hirr : forall v, A v v = false.

Lemma degree_filter_spec : forall is degree acc, (forall i, In i is -> i < n) ->
  (degree_filter is d degree acc = VFalse /\ exists i, In i is /\ (D i < degree)%Z) \/
  ((forall i, In i is -> (degree <= D i)%Z) /\
   exists vb, degree_filter is d degree acc = VBits vb /\
     forall j, N.testbit vb (N.of_nat j) =
               N.testbit acc (N.of_nat j) || (existsb (Nat.eqb j) is && (D j =? degree)%Z)).
Proof.
  intros is. induction is as [|i is IH]; intros degree acc H; cbn [degree_filter].
  - right. split; [intros i []|]. exists acc. split; [reflexivity|]. intros j. cbn. rewrite orb_false_r. reflexivity.
  - rewrite (Hd i (H i (or_introl eq_refl))).
    destruct (Z.ltb_spec (D i) degree) as [Lt|Ge].
    + left. split; [reflexivity|]. exists i. split; [left; reflexivity|exact Lt].
    + assert (H' : forall i0, In i0 is -> i0 < n) by (intros i0 Hi0; apply H; right; exact Hi0).
      destruct (Z.eqb_spec (D i) degree) as [Eq|Ne].
      * destruct (IH degree (N.lor acc (N.shiftl 1 (N.of_nat i))) H') as [[E [i0 [Hi0 L]]]|[G [vb [E B]]]].
        -- left. split; [exact E|]. exists i0. split; [right; exact Hi0|exact L].
        -- right. split; [intros i0 [<-|Hi0]; [lia|apply G; exact Hi0]|].
           exists vb. split; [exact E|]. intros j. rewrite B, testbit_lor_single. cbn [existsb].
           destruct (Nat.eqb_spec j i) as [->|Hji].
           ++ rewrite Nat.eqb_refl. rewrite Eq, Z.eqb_refl. cbn. rewrite !orb_true_r. reflexivity.
           ++ replace (i =? j) with false by (symmetry; apply Nat.eqb_neq; lia).
              cbn [orb]. rewrite orb_false_r. reflexivity.
      * destruct (IH degree acc H') as [[E [i0 [Hi0 L]]]|[G [vb [E B]]]].
        -- left. split; [exact E|]. exists i0. split; [right; exact Hi0|exact L].
        -- right. split; [intros i0 [<-|Hi0]; [lia|apply G; exact Hi0]|].
           exists vb. split; [exact E|]. intros j. rewrite B. cbn [existsb].
           destruct (Nat.eqb_spec j i) as [->|Hji]; [|reflexivity].
           replace (D i =? degree)%Z with false by (symmetry; apply Z.eqb_neq; exact Ne).
           cbn [orb]. rewrite !andb_false_r. reflexivity.
Qed.

Lemma sum_sq_spec : forall vs s q, (forall v, In v vs -> v < n) ->
  sum_sq vs d s q = Some ((s + zsum (map D vs))%Z, (q + zsum (map (fun j => (D j * D j)%Z) vs))%Z).
Proof.
  intros vs. induction vs as [|v vs IH]; intros s q H; cbn [sum_sq map zsum].
  - apply f_equal; apply f_equal2; lia.
  - rewrite (Hd v (H v (or_introl eq_refl))). rewrite IH by (intros w Hw; apply H; right; exact Hw).
    apply f_equal; apply f_equal2; lia.
Qed.

Lemma nb_sum_sq_spec : forall js v s q, v < n -> (forall j, In j js -> j < n) ->
  nb_sum_sq js v e d s q =
  Some ((s + zsum (map (fun j => if A j v then D j else 0%Z) js))%Z,
        (q + zsum (map (fun j => if A j v then (D j * D j)%Z else 0%Z) js))%Z).
Proof.
  intros js. induction js as [|j js IH]; intros v s q Hv H; cbn [nb_sum_sq map zsum].
  - apply f_equal; apply f_equal2; lia.
  - assert (H' : forall j0, In j0 js -> j0 < n) by (intros j0 Hj0; apply H; right; exact Hj0).
    assert (Hj : j < n) by (apply H; left; reflexivity).
    destruct (Nat.eqb_spec j v) as [->|Hne].
    + rewrite Hirr. rewrite IH by assumption. apply f_equal; apply f_equal2; lia.
    + destruct (He j v Hj Hv Hne) as [b [Eb Ab]]. rewrite Eb, <- Ab.
      destruct (A j v).
      * rewrite (Hd j Hj). rewrite IH by assumption. apply f_equal; apply f_equal2; lia.
      * rewrite IH by assumption. apply f_equal; apply f_equal2; lia.
Qed.

Lemma nb_sum_sq_full : forall v, v < n ->
  nb_sum_sq (seq 0 n) v e d 0%Z 0%Z = Some (S1 v, S2 v).
Proof.
  intros v Hv. rewrite nb_sum_sq_spec; [reflexivity|exact Hv|].
  intros j Hj. apply in_seq in Hj. lia.
Qed.

(* the vertex v is strictly better / equal / worse than (sum, square) on the second and third
   component *)
Definition sq_better (sum square : Z) (v : nat) : bool :=
  (sum <? S1 v)%Z || ((S1 v =? sum)%Z && (square <? S2 v)%Z).
Definition sq_equal (sum square : Z) (v : nat) : bool :=
  (S1 v =? sum)%Z && (S2 v =? square)%Z.

Lemma sum_filter_spec : forall vs sum square viable,
  NoDup vs -> (forall v, In v vs -> v < n /\ N.testbit viable (N.of_nat v) = true) ->
  (sum_filter vs n e d sum square viable = VFalse /\
   exists v, In v vs /\ sq_better sum square v = true) \/
  ((forall v, In v vs -> sq_better sum square v = false) /\
   exists vb, sum_filter vs n e d sum square viable = VBits vb /\
     forall j, N.testbit vb (N.of_nat j) =
               N.testbit viable (N.of_nat j) &&
               negb (existsb (Nat.eqb j) vs && negb (sq_equal sum square j))).
Proof.
  intros vs. induction vs as [|v vs IH]; intros sum square viable ND H; cbn [sum_filter].
  - right. split; [intros v []|]. exists viable. split; [reflexivity|].
    intros j. cbn. rewrite andb_true_r. reflexivity.
  - destruct (H v (or_introl eq_refl)) as [Hv Bv]. rewrite (nb_sum_sq_full v Hv).
    inversion ND as [|? ? Hnin ND']; subst.
    assert (REC : forall viable', (forall w, In w vs -> N.testbit viable' (N.of_nat w) = N.testbit viable (N.of_nat w)) ->
              forall w, In w vs -> w < n /\ N.testbit viable' (N.of_nat w) = true).
    { intros viable' HV w Hw. destruct (H w (or_intror Hw)) as [H1 H2]. split; [exact H1|].
      rewrite HV by exact Hw. exact H2. }
    assert (FLIP : forall w, In w vs ->
              N.testbit (N.lxor viable (N.shiftl 1 (N.of_nat v))) (N.of_nat w) = N.testbit viable (N.of_nat w)).
    { intros w Hw. rewrite testbit_lxor_single.
      replace (v =? w) with false by (symmetry; apply Nat.eqb_neq; intros ->; contradiction).
      apply xorb_false_r. }
    assert (DROP : sq_better sum square v = false -> sq_equal sum square v = false ->
              (forall v0, In v0 (v :: vs) -> sq_better sum square v0 = false) /\
              (exists vb, sum_filter vs n e d sum square (N.lxor viable (N.shiftl 1 (N.of_nat v))) = VBits vb /\
                 forall j, N.testbit vb (N.of_nat j) =
                   N.testbit viable (N.of_nat j) &&
                   negb (existsb (Nat.eqb j) (v :: vs) && negb (sq_equal sum square j))) \/
              (sum_filter vs n e d sum square (N.lxor viable (N.shiftl 1 (N.of_nat v))) = VFalse /\
               exists v0, In v0 (v :: vs) /\ sq_better sum square v0 = true)).
    { intros NB NE.
      destruct (IH sum square (N.lxor viable (N.shiftl 1 (N.of_nat v))) ND' (REC _ FLIP))
        as [[E [v0 [Hv0 B0]]]|[G [vb [E B]]]].
      - right. split; [exact E|]. exists v0. split; [right; exact Hv0|exact B0].
      - left. split; [intros v0 [<-|Hv0]; [exact NB|apply G; exact Hv0]|].
        exists vb. split; [exact E|]. intros j. rewrite B, testbit_lxor_single. cbn [existsb].
        destruct (Nat.eqb_spec j v) as [->|Hjv].
        + rewrite Nat.eqb_refl, Bv, NE. cbn. reflexivity.
        + replace (v =? j) with false by (symmetry; apply Nat.eqb_neq; lia).
          rewrite xorb_false_r. cbn [orb]. reflexivity. }
    assert (KEEP : sq_better sum square v = false -> sq_equal sum square v = true ->
              (forall v0, In v0 (v :: vs) -> sq_better sum square v0 = false) /\
              (exists vb, sum_filter vs n e d sum square viable = VBits vb /\
                 forall j, N.testbit vb (N.of_nat j) =
                   N.testbit viable (N.of_nat j) &&
                   negb (existsb (Nat.eqb j) (v :: vs) && negb (sq_equal sum square j))) \/
              (sum_filter vs n e d sum square viable = VFalse /\
               exists v0, In v0 (v :: vs) /\ sq_better sum square v0 = true)).
    { intros NB EQ.
      destruct (IH sum square viable ND' (REC _ (fun w _ => eq_refl)))
        as [[E [v0 [Hv0 B0]]]|[G [vb [E B]]]].
      - right. split; [exact E|]. exists v0. split; [right; exact Hv0|exact B0].
      - left. split; [intros v0 [<-|Hv0]; [exact NB|apply G; exact Hv0]|].
        exists vb. split; [exact E|]. intros j. rewrite B. cbn [existsb].
        destruct (Nat.eqb_spec j v) as [->|Hjv]; [|reflexivity].
        rewrite EQ. cbn. destruct (existsb (Nat.eqb v) vs); reflexivity. }
    unfold sq_better, sq_equal in DROP, KEEP |- *.
    destruct (Z.ltb_spec sum (S1 v)) as [L1|G1].
    + left. split; [reflexivity|]. exists v. split; [left; reflexivity|].
      replace (sum <? S1 v)%Z with true by (symmetry; apply Z.ltb_lt; exact L1). reflexivity.
    + destruct (Z.ltb_spec (S1 v) sum) as [L2|G2].
      * destruct DROP as [[G [vb [E B]]]|[E X]].
        -- replace (sum <? S1 v)%Z with false by (symmetry; apply Z.ltb_ge; lia).
           replace (S1 v =? sum)%Z with false by (symmetry; apply Z.eqb_neq; lia). reflexivity.
        -- replace (S1 v =? sum)%Z with false by (symmetry; apply Z.eqb_neq; lia). reflexivity.
        -- right. split; [exact G|]. exists vb. split; [exact E|exact B].
        -- left. split; [exact E|exact X].
      * assert (E1 : S1 v = sum) by lia.
        destruct (Z.ltb_spec square (S2 v)) as [L3|G3].
        -- left. split; [reflexivity|]. exists v. split; [left; reflexivity|].
           replace (S1 v =? sum)%Z with true by (symmetry; apply Z.eqb_eq; exact E1).
           replace (square <? S2 v)%Z with true by (symmetry; apply Z.ltb_lt; exact L3).
           apply orb_true_r.
        -- destruct (Z.ltb_spec (S2 v) square) as [L4|G4].
           ++ destruct DROP as [[G [vb [E B]]]|[E X]].
              ** replace (sum <? S1 v)%Z with false by (symmetry; apply Z.ltb_ge; lia).
                 replace (square <? S2 v)%Z with false by (symmetry; apply Z.ltb_ge; lia).
                 rewrite andb_false_r. reflexivity.
              ** replace (S2 v =? square)%Z with false by (symmetry; apply Z.eqb_neq; lia).
                 apply andb_false_r.
              ** right. split; [exact G|]. exists vb. split; [exact E|exact B].
              ** left. split; [exact E|exact X].
           ++ destruct KEEP as [[G [vb [E B]]]|[E X]].
              ** replace (sum <? S1 v)%Z with false by (symmetry; apply Z.ltb_ge; lia).
                 replace (square <? S2 v)%Z with false by (symmetry; apply Z.ltb_ge; lia).
                 rewrite andb_false_r. reflexivity.
              ** replace (S1 v =? sum)%Z with true by (symmetry; apply Z.eqb_eq; exact E1).
                 replace (S2 v =? square)%Z with true by (symmetry; apply Z.eqb_eq; lia). reflexivity.
              ** right. split; [exact G|]. exists vb. split; [exact E|exact B].
              ** left. split; [exact E|exact X].
Qed.

End Loops.

(* ---------------------------------------------------------------- the degree tests *)

Lemma existsb_eqb_seq : forall j k, existsb (Nat.eqb j) (seq 0 k) = (j <? k).
Proof.
  intros j k. apply eq_true_iff_eq. rewrite existsb_exists, Nat.ltb_lt. split.
  - intros [x [Hx E]]. apply in_seq in Hx. apply Nat.eqb_eq in E. lia.
  - intros H. exists j. split; [apply in_seq; lia|apply Nat.eqb_refl].
Qed.

Lemma existsb_eqb_bits : forall j x, existsb (Nat.eqb j) (bits_of x) = N.testbit x (N.of_nat j).
Proof.
  intros j x. apply eq_true_iff_eq. rewrite existsb_exists, <- bits_of_In. split.
  - intros [y [Hy E]]. apply Nat.eqb_eq in E. subst y. exact Hy.
  - intros H. exists j. split; [exact H|apply Nat.eqb_refl].
Qed.

Lemma key_eq_parts : forall n A u v,
  key n A u = key n A v <->
  zdeg n A u = zdeg n A v /\ nsum n A (zdeg n A) u = nsum n A (zdeg n A) v /\
  nsum n A (fun j => (zdeg n A j * zdeg n A j)%Z) u = nsum n A (fun j => (zdeg n A j * zdeg n A j)%Z) v.
Proof.
  intros n A u v. unfold key. split.
  - intros H. inversion H. auto.
  - intros (-> & -> & ->). reflexivity.
Qed.

Lemma degree_tests_spec : forall k ne d e aug,
  wfv (S k, ne, d, e) -> NoDup aug -> (forall j, In j aug <-> j < k /\ eadj e j k = true) ->
  (degree_tests (S k, ne, d, e) aug = VFalse /\ minkeyb (S k) (eadj e) k = false) \/
  (minkeyb (S k) (eadj e) k = true /\
   ((degree_tests (S k, ne, d, e) aug = VTrue /\ forall u, u < k -> minkeyb (S k) (eadj e) u = false) \/
    (exists vb, degree_tests (S k, ne, d, e) aug = VBits vb /\ vb <> 0%N /\
       forall j, N.testbit vb (N.of_nat j) = (j <? k) && minkeyb (S k) (eadj e) j))).
Proof.
  intros k ne d e aug W ND AUG. cbn [degree_tests].
  set (n := S k). set (A := eadj e).
  set (D := zdeg n A). set (S1 := nsum n A D). set (S2 := nsum n A (fun j => (D j * D j)%Z)).
  assert (Hd : forall i, i < n -> nth_error d i = Some (D i)).
  { intros i Hi. exact (wfv_deg (n, ne, d, e) i W Hi). }
  assert (He : forall u v, u < n -> v < n -> u <> v ->
             exists b, nth_error e (edge_index u v) = Some b /\ A u v = (b =? 1)%N).
  { intros u v Hu Hv Huv. destruct (wfv_edge _ _ _ _ u v W Hu Hv Huv) as [b [E [_ [Q _]]]]. eauto. }
  assert (Hirr : forall v, A v v = false) by (intros v; apply eadj_irrefl).
  assert (KEY : forall v, key n A v = (D v, S1 v, S2 v)) by reflexivity.
  assert (KLT : forall u v, kltb (key n A u) (key n A v) = true <->
            (D u < D v \/ (D u = D v /\ (S1 v < S1 u \/ (S1 u = S1 v /\ S2 v < S2 u))))%Z).
  { intros u v. rewrite !KEY. apply kltb_spec. }
  assert (NOTMIN : forall u, u < n -> kltb (key n A u) (key n A k) = true -> minkeyb n A k = false).
  { intros u Hu L. apply not_true_is_false. intros M. rewrite minkeyb_spec in M.
    rewrite (M u Hu) in L. discriminate. }
  rewrite (Hd k ltac:(lia)).
  destruct (degree_filter_spec n A d Hd (seq 0 k) (D k) 0%N) as [[E [i [Hi L]]]|[G [vb0 [E B0]]]].
  { intros i Hi. apply in_seq in Hi. lia. }
  { (* a vertex of smaller degree *)
    left. rewrite E. split; [reflexivity|]. apply in_seq in Hi.
    apply (NOTMIN i ltac:(lia)). apply KLT. left. exact L. }
  rewrite E.
  assert (B0' : forall j, N.testbit vb0 (N.of_nat j) = (j <? k) && (D j =? D k)%Z).
  { intros j. rewrite B0, N.bits_0, existsb_eqb_seq. reflexivity. }
  assert (G' : forall i, i < k -> (D k <= D i)%Z) by (intros i Hi; apply G; apply in_seq; lia).
  destruct (N.eqb_spec vb0 0) as [Z0|NZ0].
  { (* the new vertex is the only one of minimum degree *)
    right.
    assert (LT : forall u, u < k -> (D k < D u)%Z).
    { intros u Hu. specialize (G' u Hu). specialize (B0' u). rewrite Z0, N.bits_0 in B0'.
      replace (u <? k) with true in B0' by (symmetry; apply Nat.ltb_lt; exact Hu). cbn [andb] in B0'.
      symmetry in B0'. apply Z.eqb_neq in B0'. lia. }
    split.
    - apply minkeyb_spec. intros u Hu. destruct (Nat.eq_dec u k) as [->|Hne]; [apply kltb_irrefl|].
      apply not_true_is_false. intros Q. apply KLT in Q. specialize (LT u ltac:(lia)). lia.
    - left. split; [reflexivity|]. intros u Hu. apply not_true_is_false. intros M.
      rewrite minkeyb_spec in M. specialize (M k ltac:(lia)).
      apply not_true_iff_false in M. apply M. apply KLT. left. apply LT. exact Hu. }
  (* degree sums *)
  rewrite (sum_sq_spec n A d Hd aug 0%Z 0%Z) by (intros v Hv; apply AUG in Hv; lia).
  assert (SUM1 : (0 + zsum (map D aug))%Z = S1 k).
  { rewrite Z.add_0_l. unfold S1, nsum.
    apply (zsum_members n aug D (fun j => A j k) ND).
    intros j. rewrite AUG. split; intros [H1 H2]; split; auto; try lia.
    destruct (Nat.eq_dec j k) as [->|Hne]; [rewrite Hirr in H2; discriminate|lia]. }
  assert (SUM2 : (0 + zsum (map (fun j => (D j * D j)%Z) aug))%Z = S2 k).
  { rewrite Z.add_0_l. unfold S2, nsum.
    apply (zsum_members n aug (fun j => (D j * D j)%Z) (fun j => A j k) ND).
    intros j. rewrite AUG. split; intros [H1 H2]; split; auto; try lia.
    destruct (Nat.eq_dec j k) as [->|Hne]; [rewrite Hirr in H2; discriminate|lia]. }
  fold D. rewrite SUM1, SUM2.
  destruct (sum_filter_spec n A d e Hd He Hirr (bits_of vb0) (S1 k) (S2 k) vb0 (bits_of_NoDup vb0))
    as [[E1 [v [Hv BT]]]|[GF [vb1 [E1 B1]]]].
  { intros v Hv. apply bits_of_In in Hv. split; [|exact Hv]. rewrite B0' in Hv.
    apply andb_true_iff in Hv. destruct Hv as [Hv _]. apply Nat.ltb_lt in Hv. lia. }
  { (* a vertex of the same degree with a larger sum / square sum *)
    left. fold D S1 S2 in E1. rewrite E1. split; [reflexivity|].
    apply bits_of_In in Hv. rewrite B0' in Hv. apply andb_true_iff in Hv. destruct Hv as [Hv Dv].
    apply Nat.ltb_lt in Hv. apply Z.eqb_eq in Dv.
    apply (NOTMIN v ltac:(lia)). apply KLT. right. split; [exact Dv|].
    unfold sq_better in BT. fold D S1 S2 in BT.
    apply orb_true_iff in BT. destruct BT as [BT|BT].
    - left. apply Z.ltb_lt in BT. exact BT.
    - right. apply andb_true_iff in BT. destruct BT as [T1 T2].
      apply Z.eqb_eq in T1. apply Z.ltb_lt in T2. auto. }
  fold D S1 S2 in E1, GF, B1. rewrite E1.
  right.
  assert (MK : minkeyb n A k = true).
  { apply minkeyb_spec. intros u Hu. destruct (Nat.eq_dec u k) as [->|Hne]; [apply kltb_irrefl|].
    assert (Huk : u < k) by lia.
    apply not_true_is_false. intros Q. apply KLT in Q. specialize (G' u Huk).
    destruct Q as [Q|[Q1 Q2]]; [lia|].
    assert (Hb : In u (bits_of vb0)).
    { apply bits_of_In. rewrite B0'. apply andb_true_iff. split; [apply Nat.ltb_lt; exact Huk|apply Z.eqb_eq; exact Q1]. }
    specialize (GF u Hb). unfold sq_better in GF. fold D S1 S2 in GF.
    apply orb_false_iff in GF. destruct GF as [F1 F2]. apply Z.ltb_ge in F1.
    destruct Q2 as [Q2|[Q2 Q3]]; [lia|].
    rewrite Q2, Z.eqb_refl in F2. cbn [andb] in F2. apply Z.ltb_ge in F2. lia. }
  split; [exact MK|].
  assert (B1' : forall j, N.testbit vb1 (N.of_nat j) = (j <? k) && minkeyb n A j).
  { intros j. rewrite B1, existsb_eqb_bits, B0'.
    destruct (Nat.ltb_spec j k) as [Hj|Hj]; [|reflexivity]. cbn [andb].
    apply eq_true_iff_eq. split.
    - intros H. apply andb_true_iff in H. destruct H as [H1 H2]. rewrite H1 in H2. cbn [andb] in H2.
      apply negb_true_iff, negb_false_iff in H2. unfold sq_equal in H2. fold D S1 S2 in H2.
      apply andb_true_iff in H2. destruct H2 as [H2 H3].
      apply Z.eqb_eq in H1, H2, H3.
      apply (minkey_of_eq n A k j MK). apply key_eq_parts. fold D S1 S2. auto.
    - intros M. pose proof (minkey_eq n A j k ltac:(lia) ltac:(lia) M MK) as KE.
      apply key_eq_parts in KE. fold D S1 S2 in KE. destruct KE as (K1 & K2 & K3).
      unfold sq_equal. fold D S1 S2. rewrite K1, K2, K3, !Z.eqb_refl. reflexivity. }
  destruct (N.eqb_spec vb1 0) as [Z1|NZ1].
  - left. split; [reflexivity|]. intros u Hu. specialize (B1' u). rewrite Z1, N.bits_0 in B1'.
    replace (u <? k) with true in B1' by (symmetry; apply Nat.ltb_lt; exact Hu). cbn [andb] in B1'.
    symmetry. exact B1'.
  - right. exists vb1. split; [reflexivity|]. split; [exact NZ1|exact B1'].
Qed.

(* ---------------------------------------------------------------- the scan over the canonical order *)

Lemma perm_scan_spec : forall p last viable ob correct n,
  WF ob -> length ob = n -> (forall u, In u p -> u < n) ->
  exists b ob', perm_scan p last viable ob correct = Some (b, ob') /\ equiv ob ob' /\
    match first_hit last viable p with
    | None => b = true
    | Some u => if u =? last then b = true else exists r, reaches ob u r /\ b = (correct =? r)
    end.
Proof.
  intros p last viable ob correct n W L. induction p as [|u p IH]; intros H; cbn [perm_scan first_hit List.find].
  - exists true, ob. split; [reflexivity|]. split; [apply equiv_refl|reflexivity].
  - destruct (u =? last) eqn:E1; cbn [orb].
    + exists true, ob. split; [reflexivity|]. split; [apply equiv_refl|]. rewrite E1. reflexivity.
    + destruct (N.testbit viable (N.of_nat u)) eqn:E2.
      * destruct (find_spec ob u W) as (ds' & r & F & R & EQ).
        { rewrite L. apply H. left. reflexivity. }
        rewrite F. exists (correct =? r), ds'. split; [reflexivity|]. split; [exact EQ|].
        rewrite E1. exists r. split; [exact R|reflexivity].
      * apply IH. intros w Hw. apply H. right. exact Hw.
Qed.

Lemma equiv_orb_exact : forall g d1 d2, equiv d1 d2 -> orb_exact g d1 -> orb_exact g d2.
Proof.
  intros g d1 d2 E (L & W & S). split; [destruct E; lia|]. split; [eapply equiv_WF; eauto|].
  intros x y Hx Hy. rewrite <- (equiv_same d1 d2 x y E). apply S; assumption.
Qed.

(* ---------------------------------------------------------------- isCanonical *)

Section IsCanonical.
Variable canon : nat -> Z -> list (list nat) -> bool -> N -> cache.
Variable ksub_reps : nat -> nat -> list (list nat) -> list N.
Variable NN : nat.
Hypothesis HC : canon_spec canon ksub_reps NN.

(* the cache handed to addAugmentations is empty, or holds the generators of the full answer
   and a forest representing exactly the orbits *)
Definition cache_good (g : vgraph) (c : cache) : Prop :=
  CPerm c = None \/
  exists c0, answer canon g = Some c0 /\ CGens c = CGens c0 /\ orb_exact g (COrb c).

Theorem is_canonical_cdel : forall g aug, wfv g -> 2 <= nv_of g <= NN -> NoDup aug ->
  (forall j, In j aug <-> j < nv_of g - 1 /\ vadj g j (nv_of g - 1) = true) ->
  exists b c vb, is_canonical canon g aug no_cache 0%N = Some (b, c, vb) /\
    (b = true <-> cdel canon g (nv_of g - 1)) /\ cache_good g c.
Proof.
  intros [[[n ne] d] e] aug W HN ND AUG. cbn [nv_of] in HN, AUG.
  destruct n as [|k]; [lia|]. replace (S k - 1) with k in AUG by lia.
  assert (HN1 : 1 <= nv_of (S k, ne, d, e) <= NN) by (cbn [nv_of]; lia).
  destruct (answer_ok canon ksub_reps NN HC _ W HN1) as (c0 & p & E0 & OK & P & Hp).
  cbn [nv_of] in Hp.
  assert (Hk : In k p) by (apply (perm_incl_seq _ _ Hp), in_seq; lia).
  assert (CD : forall x, cdel canon (S k, ne, d, e) x <->
             exists w, List.find (minkeyb (S k) (eadj e)) p = Some w /\ orbA (S k) (eadj e) w x).
  { intros x. split.
    - intros (c & p' & w & E & P' & F & O). rewrite E0 in E. inversion E; subst c.
      rewrite P in P'. inversion P'; subst p'. exists w. auto.
    - intros [w [F O]]. exists c0, p, w. auto. }
  cbn [nv_of]. replace (S k - 1) with k by lia.
  unfold is_canonical.
  destruct (degree_tests_spec k ne d e aug W ND AUG) as [[E M]|[M [[E U]|[vb [E [NZ B]]]]]]; rewrite E.
  - (* rejected by the degree filters *)
    exists false, no_cache, 0%N. split; [reflexivity|]. split; [|left; reflexivity].
    split; [discriminate|]. intros C.
    destruct (cdel_lt canon ksub_reps NN HC _ _ W HN1 C) as [_ M']. cbn [nv_of vadj] in M'. congruence.
  - (* accepted by the degree filters: the new vertex is the only best one *)
    exists true, no_cache, 0%N. split; [reflexivity|]. split; [|left; reflexivity].
    split; [|reflexivity]. intros _. apply CD.
    destruct (find_exists _ _ _ Hk M) as [w F]. exists w. split; [exact F|].
    destruct (find_perm_lt _ _ _ _ Hp F) as [Hw Mw].
    destruct (Nat.eq_dec w k) as [->|Hne]; [apply orbA_refl|].
    rewrite (U w ltac:(lia)) in Mw. discriminate.
  - (* the canonical labelling is asked *)
    cbn [CPerm no_cache].
    destruct (get_aut_some canon (S k, ne, d, e) true vb W) as [c' GA]. rewrite GA.
    assert (VB : forall j, N.testbit vb (N.of_nat j) = true -> j < nv_of (S k, ne, d, e) - 1).
    { intros j Hj. rewrite B in Hj. apply andb_true_iff in Hj. destruct Hj as [Hj _].
      apply Nat.ltb_lt in Hj. cbn [nv_of]. lia. }
    assert (FH : first_hit k vb p = List.find (minkeyb (S k) (eadj e)) p).
    { unfold first_hit. apply find_ext_in. intros u Hu.
      assert (Hu' : u < S k). { destruct Hp as (_ & _ & Hb). rewrite Forall_forall in Hb. apply Hb. exact Hu. }
      rewrite B. destruct (Nat.eqb_spec u k) as [->|Hne]; [rewrite M; reflexivity|].
      replace (u <? k) with true by (symmetry; apply Nat.ltb_lt; lia). reflexivity. }
    destruct (find_exists _ _ _ Hk M) as [w F].
    destruct (find_perm_lt _ _ _ _ Hp F) as [Hw Mw].
    destruct (ok_orb _ _ _ _ OK) as (OL & OW & OS). cbn [nv_of vadj] in OL, OS.
    destruct (ok_early _ _ _ _ OK vb c' VB GA) as [->|[PN SOUND]].
    + (* full answer *)
      rewrite P. cbv beta iota. replace (S k - 1) with k by lia.
      destruct (find_spec (COrb c0) k OW ltac:(lia)) as (orb1 & correct & F1 & R1 & EQ1).
      rewrite F1.
      destruct (perm_scan_spec p k vb orb1 correct (S k)) as (b & orb2 & PS & EQ2 & HIT).
      { eapply equiv_WF; eauto. }
      { destruct EQ1; lia. }
      { intros u Hu. destruct Hp as (_ & _ & Hb). rewrite Forall_forall in Hb. apply Hb. exact Hu. }
      rewrite PS. exists b, (mkCache (Some p) orb2 (CGens c0)), vb. split; [reflexivity|].
      split.
      * rewrite FH, F in HIT. rewrite CD.
        destruct (Nat.eqb_spec w k) as [->|Hne].
        -- subst b. split; [|reflexivity]. intros _. exists k. split; [exact F|apply orbA_refl].
        -- destruct HIT as [r [Rr Eb]].
           assert (SAME : same (COrb c0) k w <-> correct = r).
           { rewrite (equiv_same _ _ k w EQ1). split.
             - intros [r' [Q1 Q2]]. apply (proj2 EQ1) in R1.
               rewrite (reaches_fun _ _ _ _ R1 Q1). apply (reaches_fun _ _ _ _ Q2 Rr).
             - intros <-. exists correct. split; [apply (proj2 EQ1); exact R1|exact Rr]. }
           rewrite Eb, Nat.eqb_eq, <- SAME, (OS k w ltac:(lia) Hw). split.
           ++ intros O. exists w. split; [exact F|]. apply orbA_sym; [lia|exact O].
           ++ intros [w' [F' O]]. rewrite F in F'. inversion F'; subst w'.
              apply orbA_sym; [exact Hw|exact O].
      * right. exists c0. split; [exact E0|]. split; [reflexivity|]. cbn [COrb].
        apply (equiv_orb_exact _ orb1 orb2 EQ2). apply (equiv_orb_exact _ (COrb c0) orb1 EQ1).
        apply (ok_orb _ _ _ _ OK).
    + (* early exit *)
      rewrite PN. exists false, c', vb. split; [reflexivity|]. split; [|left; exact PN].
      split; [discriminate|]. intros C. exfalso. apply CD in C. destruct C as [w' [F' O]].
      rewrite F in F'. inversion F'; subst w'.
      apply (SOUND p w P); [cbn [nv_of]; replace (S k - 1) with k by lia; rewrite FH; exact F|].
      cbn [nv_of]. replace (S k - 1) with k by lia. apply OS; [exact Hw|lia|exact O].
Qed.

End IsCanonical.
