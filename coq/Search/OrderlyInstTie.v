(* C03 (tie of [canon_spec] to the code) — the orderly-generation theorems with the hypothesis
   [canon_spec] replaced by the verdict of the executable checker (Search/OrderlyInstCheck.v) and
   the existential fuel replaced by the closed bounds of Search/OrderlyFuel2.v.

   This is the statement that applies to a co-simulation run: the driver evaluates
   [check_upto canon ksub_reps vbs_mixed n] on the table of answers of the real labelling and of
   the real k-subset loop; when it prints [spec:ok], the model run with that table is, by
   [checked_tables_run], a run that ends without panic within the stated bounds with exactly one
   graph per isomorphism class, and by [checked_tables_full] so do all its shards and pruned
   variants. *)
From Coq Require Import List NArith ZArith Arith Bool Lia Permutation.
From Mamba Require Import Disjoint.Model Search.Model Search.SaveModel Search.ShardModel Search.Prune.
From Mamba Require Canon.Iso.
From Mamba Require Import Disjoint.Proofs Canon.AutBase Canon.Group Search.OrderlyBase Search.OrderlyGraph.
From Mamba Require Import Search.OrderlySpec Search.OrderlyTop.
From Mamba Require Import Search.OrderlyInstCheckModel Search.OrderlyInstCheck.
From Mamba Require Import Search.OrderlyFuelModel Search.OrderlyFuel2.
Import ListNotations.
Local Open Scope nat_scope.

Section Tie.
Variable grow : nat -> nat.
Variable canon : nat -> Z -> list (list nat) -> bool -> N -> cache.
Variable ksub_reps : nat -> nat -> list (list nat) -> list N.
Hypothesis canon_novb : canon_ignores_stale_bits canon.

Theorem checked_run : forall n, check_upto canon ksub_reps vbs_all n = true ->
  exists L,
    (forall calls fuel, calls_bound n <= calls -> fuel_bound n <= fuel ->
       outputs grow canon ksub_reps (fun _ => false) (fun _ => false) calls fuel (init n 0 1) = Ok L) /\
    Forall (wf_graph n) L /\
    (forall H, Iso.simple H -> length H = n -> exists g, In g L /\ Iso.iso (matrix_of g) H) /\
    ForallOrdPairs (fun g h => ~ Iso.iso (matrix_of g) (matrix_of h)) L.
Proof.
  intros n H. apply (outputs_orderly_fuel canon ksub_reps grow canon_novb n).
  apply check_upto_sound. exact H.
Qed.

Theorem checked_tables_run : forall n, n <= 6 -> check_upto canon ksub_reps vbs_mixed n = true ->
  exists L,
    (forall calls fuel, calls_bound n <= calls -> fuel_bound n <= fuel ->
       outputs grow canon ksub_reps (fun _ => false) (fun _ => false) calls fuel (init n 0 1) = Ok L) /\
    Forall (wf_graph n) L /\
    (forall H, Iso.simple H -> length H = n -> exists g, In g L /\ Iso.iso (matrix_of g) H) /\
    ForallOrdPairs (fun g h => ~ Iso.iso (matrix_of g) (matrix_of h)) L.
Proof.
  intros n Hn H. apply (outputs_orderly_fuel canon ksub_reps grow canon_novb n).
  apply check_upto_sound_mixed; assumption.
Qed.

Theorem checked_tables_full : forall n, n <= 6 -> check_upto canon ksub_reps vbs_mixed n = true ->
  exists L, one_per_class n L /\
    (exists calls fuel, outputs grow canon ksub_reps no_prune no_prune calls fuel (init n 0 1) = Ok L) /\
    (forall m, 1 <= m -> exists Ls, length Ls = m /\ Permutation (concat Ls) L /\
       forall a, a < m -> exists calls fuel,
         outputs grow canon ksub_reps no_prune no_prune calls fuel (init n a m) = Ok (nth a Ls [])) /\
    (forall P pre post, grows_bad P ->
       (pre = P \/ pre = no_prune) -> (post = P \/ post = no_prune) -> (pre = P \/ post = P) ->
       forall m, 1 <= m -> exists Ls, length Ls = m /\
         Permutation (concat Ls) (filter (fun g => negb (P g)) L) /\
         forall a, a < m -> exists calls fuel,
           outputs grow canon ksub_reps pre post calls fuel (init n a m) = Ok (nth a Ls [])).
Proof.
  intros n Hn H. apply (search_full canon ksub_reps grow canon_novb n).
  apply check_upto_sound_mixed; assumption.
Qed.

End Tie.

(* [check_graph_sound] with the record [ok_at_dom] spelled out *)
Theorem check_graph_sound_flat : forall canon ksub_reps vbs g,
  1 <= nv_of g -> check_graph canon ksub_reps vbs g = true ->
  exists c, answer canon g = Some c /\
    (exists p, CPerm c = Some p /\ is_perm (nv_of g) p) /\
    orb_exact g (COrb c) /\
    ((forall s, In s (CGens c) -> autP (nv_of g) (vadj g) s) /\
     (forall a, autP (nv_of g) (vadj g) a -> generated (nv_of g) (CGens c) a)) /\
    (forall k, 2 <= k <= nv_of g -> transversal (nv_of g) (vadj g) k (ksub_reps (nv_of g) k (CGens c))) /\
    (forall vb c', In vb vbs -> get_aut canon g true vb = Some c' ->
       c' = c \/
       (CPerm c' = None /\
        forall p u, CPerm c = Some p -> first_hit (nv_of g - 1) vb p = Some u ->
                    ~ same (COrb c) u (nv_of g - 1))).
Proof.
  intros canon ksub_reps vbs g HN H.
  destruct (check_graph_sound canon ksub_reps vbs g HN H) as [c [A [P O G K E]]].
  exists c. split; [exact A|]. split; [exact P|]. split; [exact O|]. split; [exact G|]. split; [exact K|exact E].
Qed.
