(* C03: facts about the DenseGraph part of Search/Model.v used by the search proofs:
   RemoveVertex(N-1) undoes AddVertex on the visible graph ([remove_add_v]); the bits of a
   mask are distinct ([bits_of_NoDup]). *)
From Coq Require Import List NArith ZArith Arith Bool Lia.
From Mamba Require Import Disjoint.Model Search.Model Search.SaveModel Search.SaveProofs.
Import ListNotations.
Local Open Scope nat_scope.

(* ---------------------------------------------------------------- lists *)

Lemma nth_error_ext : forall {A} (l l' : list A),
  (forall i, nth_error l i = nth_error l' i) -> l = l'.
Proof.
  intros A l. induction l as [|x l IH]; intros [|y l'] H.
  - reflexivity.
  - specialize (H 0). discriminate.
  - specialize (H 0). discriminate.
  - pose proof (H 0) as H0. cbn in H0. inversion H0; subst. f_equal.
    apply IH. intros i. exact (H (S i)).
Qed.

Lemma nth_error_firstn_lt : forall {A} (l : list A) n j, j < n ->
  nth_error (firstn n l) j = nth_error l j.
Proof.
  intros A l. induction l as [|a l IH]; intros n j H.
  - rewrite firstn_nil. reflexivity.
  - destruct n as [|n]; [lia|]. destruct j as [|j]; [reflexivity|].
    cbn [firstn nth_error]. apply IH. lia.
Qed.

Lemma set_nth_nth_error : forall {A} (l : list A) i x l', set_nth l i x = Some l' ->
  forall j, nth_error l' j = if j =? i then Some x else nth_error l j.
Proof.
  intros A l. induction l as [|a l IH]; intros i x l' H j; [discriminate|].
  destruct i as [|i]; cbn [set_nth] in H.
  - inversion H; subst. destruct j; reflexivity.
  - destruct (set_nth l i x) as [r|] eqn:E; [|discriminate]. inversion H; subst.
    destruct j as [|j]; [reflexivity|]. cbn [nth_error]. rewrite (IH _ _ _ E j). reflexivity.
Qed.

Lemma set_nth_some : forall {A} (l : list A) i x, i < length l -> exists l', set_nth l i x = Some l'.
Proof.
  intros A l. induction l as [|a l IH]; intros i x H; [cbn in H; lia|].
  destruct i as [|i]; cbn [set_nth]; [eauto|].
  destruct (IH i x) as [r ->]; [cbn in H; lia|]. eauto.
Qed.

Lemma set_nth_lt : forall {A} (l : list A) i x l', set_nth l i x = Some l' -> i < length l.
Proof.
  intros A l. induction l as [|a l IH]; intros i x l' H; [discriminate|].
  destruct i as [|i]; cbn [set_nth length] in *; [lia|].
  destruct (set_nth l i x) eqn:E; [|discriminate]. apply IH in E. lia.
Qed.

(* ---------------------------------------------------------------- mark *)

Definition memb (i : nat) (nb : list nat) : bool := existsb (Nat.eqb i) nb.

Lemma mark_spec : forall nb off e d e' d', NoDup nb -> mark nb off e d = Some (e', d') ->
  (forall v, In v nb -> v < length d) /\
  (forall j, j < off -> nth_error e' j = nth_error e j) /\
  (forall i, nth_error e' (off + i) = if memb i nb then Some 1%N else nth_error e (off + i)) /\
  (forall i, nth_error d' i =
     if memb i nb then option_map (fun z => (z + 1)%Z) (nth_error d i) else nth_error d i).
Proof.
  intros nb. induction nb as [|v nb IH]; intros off e d e' d' ND H; cbn [mark] in H.
  - inversion H; subst. cbn. repeat split; auto. intros v [].
  - destruct (set_nth e (off + v) 1%N) as [e1|] eqn:E1; [|discriminate].
    destruct (nth_error d v) as [dv|] eqn:Dv; [|discriminate].
    destruct (set_nth d v (dv + 1)%Z) as [d1|] eqn:E2; [|discriminate].
    inversion ND as [|? ? Hnin ND']; subst.
    destruct (IH _ _ _ _ _ ND' H) as (A & B & C & D).
    pose proof (set_nth_length _ _ _ _ E2) as L2.
    pose proof (set_nth_lt _ _ _ _ E2) as Lv.
    repeat split.
    + intros w [<-|Hw]; [assumption|]. rewrite <- L2. auto.
    + intros j Hj. rewrite (B j Hj), (set_nth_nth_error _ _ _ _ E1).
      destruct (j =? off + v) eqn:Q; [apply Nat.eqb_eq in Q; lia|reflexivity].
    + intros i. rewrite (C i), (set_nth_nth_error _ _ _ _ E1). cbn [memb existsb].
      destruct (i =? v) eqn:Q.
      * apply Nat.eqb_eq in Q. subst i. rewrite Nat.eqb_refl. cbn [orb].
        destruct (memb v nb); reflexivity.
      * replace (off + i =? off + v) with false; [reflexivity|].
        symmetry. apply Nat.eqb_neq. apply Nat.eqb_neq in Q. lia.
    + intros i. rewrite (D i), (set_nth_nth_error _ _ _ _ E2). cbn [memb existsb].
      destruct (i =? v) eqn:Q.
      * apply Nat.eqb_eq in Q. subst i.
        replace (memb v nb) with false.
        -- rewrite Dv. reflexivity.
        -- symmetry. apply not_true_is_false. intros M. apply Hnin.
           apply existsb_exists in M. destruct M as [w [Hw Q]]. apply Nat.eqb_eq in Q. now subst.
      * cbn [orb]. reflexivity.
Qed.

(* ---------------------------------------------------------------- dec_loop *)

Lemma dec_loop_spec : forall cnt i base e d,
  i + cnt <= length d -> base + i + cnt <= length e ->
  exists d', dec_loop cnt i base e d = Some d' /\
    forall k, nth_error d' k =
      if (i <=? k) && (k <? i + cnt) &&
         (match nth_error e (base + k) with Some b => (0 <? b)%N | None => false end)
      then option_map (fun z => (z - 1)%Z) (nth_error d k) else nth_error d k.
Proof.
  intros cnt. induction cnt as [|c IH]; intros i base e d Hd He; cbn [dec_loop].
  - eexists; split; [reflexivity|]. intros k.
    replace ((i <=? k) && (k <? i + 0)) with false; [reflexivity|].
    symmetry. apply andb_false_iff. destruct (i <=? k) eqn:Q; [right|left; reflexivity].
    apply Nat.ltb_ge. apply Nat.leb_le in Q. lia.
  - destruct (nth_error e (base + i)) as [b|] eqn:Eb;
      [|apply nth_error_None in Eb; lia].
    destruct (0 <? b)%N eqn:Pb.
    + destruct (nth_error d i) as [di|] eqn:Di; [|apply nth_error_None in Di; lia].
      destruct (set_nth_some d i (di - 1)%Z) as [d1 E1]; [lia|]. rewrite E1.
      pose proof (set_nth_length _ _ _ _ E1) as L1.
      destruct (IH (S i) base e d1) as [d' [R P]]; [lia|lia|].
      exists d'. split; [exact R|]. intros k. rewrite (P k), (set_nth_nth_error _ _ _ _ E1).
      destruct (k =? i) eqn:Q.
      * apply Nat.eqb_eq in Q. subst k.
        replace (S i <=? i) with false by (symmetry; apply Nat.leb_gt; lia). cbn [andb].
        rewrite Nat.leb_refl. replace (i <? i + S c) with true by (symmetry; apply Nat.ltb_lt; lia).
        cbn [andb]. rewrite Eb, Pb, Di. reflexivity.
      * apply Nat.eqb_neq in Q.
        replace (S i <=? k) with (i <=? k).
        2:{ destruct (i <=? k) eqn:A; symmetry; [apply Nat.leb_le; apply Nat.leb_le in A; lia|
            apply Nat.leb_gt; apply Nat.leb_gt in A; lia]. }
        replace (S i + c) with (i + S c) by lia. reflexivity.
    + destruct (IH (S i) base e d) as [d' [R P]]; [lia|lia|].
      exists d'. split; [exact R|]. intros k. rewrite (P k).
      destruct (k =? i) eqn:Q.
      * apply Nat.eqb_eq in Q. subst k.
        replace (S i <=? i) with false by (symmetry; apply Nat.leb_gt; lia).
        rewrite Eb, Pb, !andb_false_r. reflexivity.
      * apply Nat.eqb_neq in Q.
        replace (S i <=? k) with (i <=? k).
        2:{ destruct (i <=? k) eqn:A; symmetry; [apply Nat.leb_le; apply Nat.leb_le in A; lia|
            apply Nat.leb_gt; apply Nat.leb_gt in A; lia]. }
        replace (S i + c) with (i + S c) by lia. reflexivity.
Qed.

(* ---------------------------------------------------------------- the round trip *)

(* RemoveVertex(N-1) on the visible graph *)
Definition remove_last_v (g : vgraph) : option vgraph :=
  let '(nv, ne, d, e) := g in option_map vis (remove_last (mkDense nv ne d [] e [])).

Lemma remove_last_v_vis : forall g, option_map vis (remove_last g) = remove_last_v (vis g).
Proof.
  intros g. unfold remove_last_v, vis at 2.
  apply remove_last_vis. reflexivity.
Qed.

Definition shape (g : vgraph) : Prop :=
  let '(nv, _, d, e) := g in length d = nv /\ length e = tri nv.

Definition nvv (g : vgraph) : nat := let '(nv, _, _, _) := g in nv.

Lemma shape_vis : forall g, ginv g <-> shape (vis g).
Proof. intros g. unfold ginv, shape, vis. tauto. Qed.

Lemma nvv_vis : forall g, nvv (vis g) = NV g.
Proof. reflexivity. Qed.

Lemma add_vertex_v_shape' : forall g nb g', shape g -> add_vertex_v g nb = Some g' ->
  shape g' /\ nvv g' = S (nvv g).
Proof.
  intros [[[nv ne] d] e] nb [[[nv' ne'] d'] e'] [HD HE] H.
  destruct (add_vertex_v_shape _ _ _ _ _ _ _ _ _ HE HD H) as (A & B & C).
  unfold shape, nvv. subst nv'. auto.
Qed.

Theorem remove_add_v : forall g nb g', shape g -> NoDup nb ->
  add_vertex_v g nb = Some g' -> remove_last_v g' = Some g.
Proof.
  intros [[[nv ne] d] e] nb g' [HD HE] ND H. unfold add_vertex_v in H.
  destruct (mark nb (tri nv) (e ++ repeat 0%N nv) d) as [[e1 d1]|] eqn:M; [|discriminate].
  inversion H; subst g'; clear H.
  destruct (mark_length _ _ _ _ _ _ M) as [Le1 Ld1].
  rewrite app_length, repeat_length in Le1.
  destruct (mark_spec _ _ _ _ _ _ ND M) as (A & B & C & D).
  unfold remove_last_v, remove_last. cbn [NV NE Deg DegTail Edg EdgTail].
  set (len := Z.of_nat (length nb)).
  assert (Nl : nth_error (d1 ++ [len]) nv = Some len).
  { rewrite nth_error_app2 by lia. replace (nv - length d1) with 0 by lia. reflexivity. }
  rewrite Nl.
  destruct (dec_loop_spec nv 0 (tri nv) e1 (d1 ++ [len])) as [dd [R P]].
  { rewrite app_length. cbn. lia. }
  { lia. }
  rewrite R.
  assert (Ldd : length dd = S nv).
  { apply dec_loop_length in R. rewrite R, app_length. cbn. lia. }
  assert (Edd : dd = d ++ [len]).
  { apply nth_error_ext. intros k. rewrite (P k). cbn [Nat.leb andb plus].
    destruct (k <? nv) eqn:Q.
    - apply Nat.ltb_lt in Q. rewrite (C k).
      rewrite (nth_error_app1 d1) by lia. rewrite (nth_error_app1 d) by lia. rewrite (D k).
      destruct (memb k nb) eqn:Mk.
      + cbn [N.ltb]. replace (0 <? 1)%N with true by reflexivity. cbn [andb].
        destruct (nth_error d k); cbn [option_map]; [f_equal; lia|reflexivity].
      + rewrite nth_error_app2 by lia. rewrite HE.
        replace (tri nv + k - tri nv) with k by lia.
        rewrite (nth_error_repeat _ Q). reflexivity.
    - apply Nat.ltb_ge in Q. cbn [andb].
      destruct (Nat.eq_dec k nv) as [->|Hk].
      + rewrite Nl. rewrite nth_error_app2 by lia. replace (nv - length d) with 0 by lia. reflexivity.
      + rewrite (proj2 (nth_error_None _ _)) by (rewrite app_length; cbn; lia).
        rewrite (proj2 (nth_error_None _ _)) by (rewrite app_length; cbn; lia). reflexivity. }
  subst dd.
  replace (tri (S nv) <=? length e1) with true by (symmetry; apply Nat.leb_le; rewrite tri_S; lia).
  assert (Sk : skipn (tri (S nv)) e1 = []) by (apply skipn_all2; rewrite tri_S; lia).
  rewrite Sk. cbn [length app]. rewrite Nat.add_0_r, firstn_skipn.
  rewrite reslice_le by lia. cbn [option_map vis NV NE Deg Edg].
  f_equal. unfold vis. cbn [NV NE Deg Edg]. f_equal; [f_equal; [f_equal; lia|]|].
  - rewrite firstn_app, firstn_all2 by lia. replace (nv - length d) with 0 by lia.
    cbn [firstn]. rewrite app_nil_r.
    rewrite skipn_app, skipn_all2 by lia. replace (S nv - length d) with 1 by lia.
    cbn [skipn]. rewrite app_nil_r. reflexivity.
  - apply nth_error_ext. intros j.
    destruct (j <? tri nv) eqn:Q.
    + apply Nat.ltb_lt in Q. rewrite nth_error_firstn_lt by exact Q.
      rewrite (B j Q). rewrite nth_error_app1 by lia. reflexivity.
    + apply Nat.ltb_ge in Q.
      rewrite (proj2 (nth_error_None _ _)) by (rewrite firstn_length; lia).
      rewrite (proj2 (nth_error_None _ _)) by lia. reflexivity.
Qed.

(* ---------------------------------------------------------------- masks *)

Lemma bits_of_NoDup : forall x, NoDup (bits_of x).
Proof. intros x. unfold bits_of. apply NoDup_filter. apply seq_NoDup. Qed.
