(* C03 (orderly generation) — model of the k-subset orbit loop of addAugmentations
   (graph/search/search_all.go, `for k := 2; k <= maxSize; k++ { ... }`), definitions only.

   Parameters: [cs] = the sequence of values of itertools.CombinationsColex(n, k) (ascending
   k-subsets of 0..n-1), [rk] = comb.Rank, [sortl] = ints.Sort.  The union-find is the array-level
   model of disjoint.Set of C18 (Disjoint/Model.v: [run], [roots]); ds = ds[:Coeff(n,k)] reset to
   -1 is [run (length cs)].  First pass: for every i and every generator g,
   UnionBuffered(i, Rank(sort(g(c_i)))).  Second pass: for every i with ds[i] < 0 (in ascending
   order, = [roots]) the mask of c_i is appended. *)
From Coq Require Import List NArith ZArith Arith Bool.
From Mamba Require Import Disjoint.Model Search.Model Canon.AutModel Search.OrderlyToyModel.
Import ListNotations.
Local Open Scope nat_scope.

Section Loop.
Variable cs : list (list nat).
Variable rk : list nat -> nat.
Variable sortl : list nat -> list nat.

Definition ksub_ops (gens : list (list nat)) : list op :=
  flat_map (fun i => map (fun g => OUnionB i (rk (sortl (map (app g) (nth i cs []))))) gens)
           (seq 0 (length cs)).

(* None = a panic of UnionBuffered (index out of range) *)
Definition ksub_loop (gens : list (list nat)) : option (list N) :=
  match Disjoint.Model.run (length cs) (ksub_ops gens) with
  | None => None
  | Some ds => Some (map (fun i => mask_of (nth i cs [])) (roots ds))
  end.
End Loop.

(* a reference instance of the parameters, by brute force: the ascending k-subsets read off
   the masks below 2^n, the position in that list, sorting through a mask *)
Definition cs_ref (n k : nat) : list (list nat) :=
  map bits_of (filter (fun x => length (bits_of x) =? k) (map N.of_nat (seq 0 (2 ^ n)))).

Fixpoint index_in (c : list nat) (l : list (list nat)) : nat :=
  match l with
  | [] => 0
  | x :: r => if list_eq_dec Nat.eq_dec x c then 0 else S (index_in c r)
  end.

Definition sort_ref (l : list nat) : list nat := bits_of (mask_of l).

Definition ksub_ref (n k : nat) (gens : list (list nat)) : list N :=
  match ksub_loop (cs_ref n k) (fun c => index_in c (cs_ref n k)) sort_ref gens with
  | Some r => r
  | None => []
  end.
