(* C03: explicit step counts for the model of GraphIterator.Next (definitions only).

   [sibs_steps] / [tree_steps] / [spec_steps] mirror [sibs] / [tree] / [spec] of ShardModel.v and
   count the machine steps ([Model.step]) that one uninterrupted run ([collect]) performs below an
   accepted graph:
     - an accepted graph on n vertices (a leaf): Outer false false (returns true) and, on
       re-entry, Outer true false: 2 steps;
     - an inner node: Outer false false (addAugmentations) and Step true: 2 steps, then the loop
       over its masks;
     - every popped mask: one [For (S i)] step; an accepted child costs its own subtree plus the
       [Step false] step that resumes the loop of the parent;
     - the end of the loop: one [For 0] step (step back).
   The final [Step false] on empty stacks (Next returns false) is the [S] in [spec_steps].
   Where the recursive presentation crashes the count is 0 (irrelevant: excluded by hypothesis).

   [fuel_bound] / [calls_bound]: closed bounds for the unsplit, unpruned run, relative to
   [canon_spec] (Search/OrderlyFuel2.v): at most 2^(tri j) nodes on j vertices (pairwise
   non-isomorphic, hence distinct packed triangles) and at most 2^j masks per node. *)
From Coq Require Import List NArith ZArith Arith Bool.
From Mamba Require Import Disjoint.Model Search.Model Search.ShardModel.
Import ListNotations.
Local Open Scope nat_scope.

Section Steps.
Variable canon : nat -> Z -> list (list nat) -> bool -> N -> cache.
Variable ksub_reps : nat -> nat -> list (list nat) -> list N.
Variables preprune prune : vgraph -> bool.
Variables n a m : nat.

Fixpoint sibs_steps (rec : vgraph -> cache -> nat) (g : vgraph) (xs : list N) : nat :=
  match xs with
  | [] => 1
  | x :: xs' =>
    if m =? 0 then 0
    else if skip n a m (nv_of g) (length xs') then S (sibs_steps rec g xs')
    else match child canon preprune prune g x with
         | CCrash => 0
         | CReject => S (sibs_steps rec g xs')
         | CAccept g' c => S (rec g' c + S (sibs_steps rec g xs'))
         end
  end.

Fixpoint tree_steps (d : nat) (g : vgraph) (c : cache) : nat :=
  match d with
  | 0 => 2
  | S d' =>
    match add_augs canon ksub_reps g c 0%N with
    | None => 0
    | Some (masks, _) => S (S (sibs_steps (tree_steps d') g (rev masks)))
    end
  end.

(* machine steps of the whole search (all calls of Next together); also enough for each call *)
Definition spec_steps : nat :=
  match n with
  | 0 => 0
  | 1 => 0
  | _ => if preprune g1 || prune g1 then 0 else S (tree_steps (n - 1) g1 no_cache)
  end.

End Steps.

(* sum_{j = 1..n} 2^(tri j) * (2^j + 4) *)
Definition fuel_term (j : nat) : nat := 2 ^ tri j * (2 ^ j + 4).
Definition fuel_bound (n : nat) : nat := list_sum (map fuel_term (seq 1 n)).
Definition calls_bound (n : nat) : nat := S (2 ^ tri n).
