(* C03 / C04 — the composed model (definitions only; proofs in Search/Compose*.v):
   the Section variable [canon] of Search/Model.v instantiated with the model of the WHOLE of
   graph.CanonicalIsomorphAllocated (Canon/SearchModel.v, [canon_search]), as getAutomorphismGroup
   of graph/search/search_all.go calls it.

   What search_all.go passes and reads back (getAutomorphismGroup):
     op.Reset(n, m, nil); updateNeighbours(sg);
     perm, orbits, generators := graph.CanonicalIsomorphAllocated(n, m, sg.Neighbours, op, storage, options)
     sg.Perm, sg.Orbits, sg.Generators = perm, orbits, generators
   with n = G.NumberOfVertices, m = G.NumberOfEdges, Neighbours = the ascending neighbour lists
   read off the packed triangle G.Edges ([all_nbrs] of Search/Model.v), no vertex classes,
   options.CheckViability / options.ViableBits set by the caller.  perm == nil (then also
   orbits == nil, generators == nil) is returned only by the early viability exit.

   [canon_real n m nb cv vb]:
   - the graph given to the labelling is the adjacency matrix of the neighbour lists
     ([nb_matrix]; Canon/SearchModel.v works on matrices of Canon/Iso.v); the model computes the
     number of edges from the matrix ([num_edges]) where the Go code uses its argument m — for
     every graph the search passes the two agree ([Compose.wfv_num_edges]);
   - CheckViability = false: [canon_search] with the fuel [real_fuel n] (= search_fuel n of
     Canon/SearchProofs.v, from which on the result does not depend on the fuel), no classes;
   - CheckViability = true: [canon_search_v]: the same code with the check that
     equitableRefinementProcedure makes under options.CheckViability after EVERY split of a bin
     during the FIRST refinement (graph/canonical.go:409-428: if some vertex of ViableBits lies
     in an earlier cell than the vertex n-1, return true), and `if worse { return nil, nil, nil }`
     (canonical.go:606-612).  options.CheckViability is reset to false after the first
     refinement, so the rest of the search is [main_loop] unchanged.  The n == 0 and m == 0
     shortcuts return before the option is looked at.
   - a Panic / out-of-fuel of the labelling cannot be expressed in the type of [canon] (a total
     function into [cache]); it is mapped to [no_cache] and EXCLUDED BY THEOREM for every graph
     the search can pass ([Compose.canon_real_returns], [Compose.canon_real_v_returns]).
   Storage reuse (the search reuses one CanonicalStorage / CanonicalOrderedPartition) is not
   part of this model: [canon_search] is the run on fresh storage (C02's reuse theorems and the
   co-simulation of C03 cover it). *)
From Coq Require Import List NArith ZArith Arith Bool.
From Mamba Require Import Disjoint.Model.
From Mamba Require Search.Model Search.OrderlyToyModel.
From Mamba Require Import Canon.Perm Canon.Iso Canon.Model Canon.AutModel Canon.SearchModel.
Import ListNotations.
Local Open Scope nat_scope.

(* ---------------------------------------------------------------- the graph *)

(* adjacency matrix of the neighbour lists: (u, v) is an edge iff v occurs in neighbours[u] *)
Definition nb_matrix (n : nat) (nb : list (list nat)) : graph :=
  map (fun u => map (fun v => Search.OrderlyToyModel.nb_adj nb u v) (seq 0 n)) (seq 0 n).

(* number of nodes of the complete tree of degree B and depth d; [real_fuel n] = search_fuel n *)
Fixpoint tree_nodes (B d : nat) : nat := match d with 0 => 1 | S d' => 1 + B * tree_nodes B d' end.
Definition real_fuel (n : nat) : nat := S (tree_nodes (S n) n).

(* ---------------------------------------------------------------- the viability check *)

(* for x != 0 { v := TrailingZeros(x); if op.inCell[v] < cell { return true } ... }
   None = op.inCell[v] out of range *)
Fixpoint viab_scan (cs : list acell) (n cell : nat) (vs : list nat) : option bool :=
  match vs with
  | [] => Some false
  | v :: r =>
      if v <? n then
        if in_cell cs v <? cell then Some true else viab_scan cs n cell r
      else None
  end.

(* cell := op.inCell[len(op.order)-1]; the scan over the set bits of options.ViableBits *)
Definition viab_check (cs : list acell) (n : nat) (vb : N) : option bool :=
  match n with
  | 0 => None
  | S n1 => viab_scan cs n (in_cell cs n1) (Search.Model.bits_of vb)
  end.

(* [round_loop] of Canon/SearchModel.v with the check after every split (after expandValue) *)
Fixpoint round_loop_v (g : graph) (n m : nat) (cb fl : list nat) (vb : N) (w : list nat) (age : Z)
         (pre_rev post : list acell) (value : list nat) (spl : nat) : rr :=
  match pre_rev with
  | [] => RrOk (mkP post age value spl)
  | c :: pre' =>
      if uniform g w (cverts c) then round_loop_v g n m cb fl vb w age pre' (c :: post) value spl
      else
        let post' := with_ages age (cage c) (fragments g w (cverts c)) ++ post in
        let cells := rev pre' ++ post' in
        match (if length pre' =? spl then expand_value g cells n m cb fl value spl
               else EvOk value spl) with
        | EvPanic => RrPanic
        | EvWorse v s => RrWorse (mkP cells age v s)
        | EvOk v s =>
            match viab_check cells n vb with
            | None => RrPanic
            | Some true => RrWorse (mkP cells age v s)         (* return true *)
            | Some false => round_loop_v g n m cb fl vb w age pre' post' v s
            end
        end
  end.

Fixpoint refine_loop_v (k : nat) (g : graph) (n m : nat) (cb fl : list nat) (vb : N) (ps : pstate)
  : res (bool * pstate) :=
  match pick_a (p_cells ps) with
  | None => Ok (false, ps)
  | Some (P', w) =>
      match k with
      | 0 => Fuel
      | S k' =>
          match round_loop_v g n m cb fl vb w (p_age ps) (rev P') [] (p_value ps) (p_spl ps) with
          | RrPanic => Panic
          | RrWorse ps' => Ok (true, ps')
          | RrOk ps' => refine_loop_v k' g n m cb fl vb ps'
          end
      end
  end.

(* equitableRefinementProcedure with options.CheckViability = true *)
Definition refine_v (g : graph) (n m : nat) (cb fl : list nat) (vb : N) (ps : pstate)
  : res (bool * pstate) :=
  refine_loop_v (2 * length (order_of (p_cells ps)) + length (p_cells ps)) g n m cb fl vb ps.

(* ---------------------------------------------------------------- CheckViability = true *)

(* CanonicalIsomorphAllocated with options = {CheckViability: true, ViableBits: vb}, fresh
   storage, no classes; [None] = return nil, nil, nil *)
Definition canon_search_v (fuel : nat) (g : graph) (vb : N)
  : res (option (list nat * dset * list (list nat))) :=
  let n := length g in
  let m := num_edges g in
  if n =? 0 then Ok (Some ([], [], []))
  else
    let cs := init_cells n None in
    if m =? 0 then
      Ok (Some (order_of cs, edgeless_ds (new n) (map cverts cs), edgeless_gens n (map cverts cs)))
    else
      let start (v : list nat) (s : nat) :=
        do w <- refine_v g n m [] (repeat 0 m) vb (mkP cs 0%Z v s);
        if fst w then Ok None                                 (* if worse { return nil, nil, nil } *)
        else do r <- main_loop g n m fuel (init_state n m (snd w)) false; Ok (Some r) in
      match expand_value g cs n m [] (repeat 0 m) [] 0 with
      | EvPanic => Panic
      | EvWorse v s => start v s
      | EvOk v s => start v s
      end.

(* ---------------------------------------------------------------- the adapter *)

Definition cache_of (r : list nat * dset * list (list nat)) : Search.Model.cache :=
  let '(p, o, gs) := r in Search.Model.mkCache (Some p) o gs.

Definition canon_real (n : nat) (m : Z) (nb : list (list nat)) (cv : bool) (vb : N) : Search.Model.cache :=
  let g := nb_matrix n nb in
  if cv then
    match canon_search_v (real_fuel n) g vb with
    | Ok (Some r) => cache_of r
    | Ok None => Search.Model.no_cache                         (* sg.Perm = nil *)
    | _ => Search.Model.no_cache                               (* excluded by theorem *)
    end
  else
    match canon_search (real_fuel n) g None with
    | Ok r => cache_of r
    | _ => Search.Model.no_cache                               (* excluded by theorem *)
    end.
