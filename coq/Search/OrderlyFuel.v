(* C03: the completeness direction of ShardComplete.v with an EXPLICIT bound: if the recursive
   presentation gives Some L then the caller's loop over the model's Next ends with exactly L
   within S (length L) calls of [spec_steps] machine steps each ([spec_outputs_fuel]), and for
   every larger number of calls / fuel. *)
From Coq Require Import List NArith ZArith Arith Bool Lia.
From Mamba Require Import Disjoint.Model Search.Model Search.SaveModel Search.SaveProofs.
From Mamba Require Import Search.ShardModel Search.ShardGraph Search.ShardSim Search.ShardComplete.
From Mamba Require Import Search.OrderlyFuelModel.
Import ListNotations.
Local Open Scope nat_scope.

Section Fuel.
Variable grow : nat -> nat.
Variable canon : nat -> Z -> list (list nat) -> bool -> N -> cache.
Variable ksub_reps : nat -> nat -> list (list nat) -> list N.
Variables preprune prune : vgraph -> bool.
Hypothesis canon_novb : canon_ignores_stale_bits canon.
Variables n a m : nat.

Notation step' := (step grow canon ksub_reps preprune prune).
Notation collect' := (collect grow canon ksub_reps preprune prune).
Notation run' := (run grow canon ksub_reps preprune prune).
Notation next' := (next grow canon ksub_reps preprune prune).
Notation outputs' := (outputs grow canon ksub_reps preprune prune).
Notation child' := (child canon preprune prune).
Notation sibs' := (sibs canon preprune prune n a m).
Notation tree' := (tree canon ksub_reps preprune prune n a m).
Notation ssteps := (sibs_steps canon preprune prune n a m).
Notation tsteps := (tree_steps canon ksub_reps preprune prune n a m).
Notation St := (mkState n a m false).
Notation par := (par).

Lemma collect_le : forall f f' p s L, collect' f p s = Ok L -> f <= f' -> collect' f' p s = Ok L.
Proof.
  intros f f' p s L H LE. replace f' with (f + (f' - f)) by lia.
  apply (collect_mono grow canon ksub_reps preprune prune). exact H.
Qed.

Lemma collect_go' : forall f p s p' s' L, step' p s = Go p' s' -> collect' f p' s' = Ok L ->
  collect' (S f) p s = Ok L.
Proof. intros f p s p' s' L H C. cbn [collect]. rewrite H. exact C. Qed.

(* what the run does, within k steps, after everything below g has been explored *)
Definition contk (k : nat) (g : vgraph) (ch : list N) (pa : list nat) (L2 : list vgraph) : Prop :=
  (ch = [] -> L2 = []) /\
  forall G' c' vb', ginv G' -> vis G' = g ->
    collect' k (Step false) (St G' c' vb' ch pa) = Ok L2.

Definition Ck_node (d : nat) : Prop :=
  forall g c L1, tree' d g c = Some L1 -> n = nvv g + d -> shape g ->
  forall G vb ch pa L2 k, ginv G -> vis G = g -> nvv g = S (length pa) -> contk k g ch pa L2 ->
  collect' (tsteps d g c + k) (Outer false false) (St G c vb ch pa) = Ok (L1 ++ L2).

Lemma for_complete_fuel : forall d, Ck_node d ->
  forall g xs L1, sibs' (tree' d) g xs = Some L1 -> n = nvv g + S d -> shape g ->
  forall G c vb ch k0 pa sf L2 k, par sf G g -> nvv g = S (length pa) -> contk k g ch pa L2 ->
  collect' (ssteps (tsteps d) g xs + k) (For (length xs) sf) (St G c vb (xs ++ ch) (k0 :: pa)) =
    Ok (L1 ++ L2).
Proof.
  intros d CN g xs. induction xs as [|x xs IH]; intros L1 H ND SH G c vb ch k0 pa sf L2 k P LV K.
  - cbn [sibs] in H. inversion H; subst L1. cbn [length app sibs_steps plus].
    destruct (step_for_0_ok grow canon ksub_reps preprune prune n a m sf G c vb ch k0 pa g P)
      as (G' & c' & ST & GI & V).
    eapply collect_go'; [exact ST|]. exact (proj2 K G' c' vb GI V).
  - cbn [sibs] in H. cbn [sibs_steps].
    destruct (m =? 0) eqn:M0; [discriminate|]. apply Nat.eqb_neq in M0.
    pose proof (step_for_S_ok grow canon ksub_reps preprune prune n a m
                  (length xs) sf G c vb x (xs ++ ch) k0 pa g P SH LV M0) as ST.
    change (nv_of g) with (nvv g) in H |- *. cbn [length app].
    destruct (skip n a m (nvv g) (length xs)).
    + cbn [plus]. eapply collect_go'; [exact ST|].
      exact (IH L1 H ND SH G c vb ch k0 pa sf L2 k P LV K).
    + destruct (child' g x) as [| |g' c'] eqn:CH; [discriminate| |].
      * destruct ST as (G' & c' & vb' & ST & P').
        cbn [plus]. eapply collect_go'; [exact ST|].
        exact (IH L1 H ND SH G' c' vb' ch k0 pa false L2 k P' LV K).
      * destruct ST as (G' & vb' & ST & V' & P' & SH' & NV').
        destruct (tree' d g' c') as [l1|] eqn:T1; [|discriminate].
        destruct (sibs' (tree' d) g xs) as [l2|] eqn:S2; [|discriminate].
        inversion H; subst L1.
        (* the continuation of the child: try the remaining children of g *)
        assert (K' : contk (S (ssteps (tsteps d) g xs + k)) g' (xs ++ ch) (length xs :: pa) (l2 ++ L2)).
        { assert (E0 : xs ++ ch = [] -> l2 ++ L2 = []).
          { intros E. apply app_eq_nil in E. destruct E as [-> ->]. cbn [sibs] in S2.
            inversion S2; subst l2. rewrite (proj1 K eq_refl). reflexivity. }
          split; [exact E0|].
          intros G'' c'' vb'' GI'' V''.
          destruct (step_false_ok grow canon ksub_reps preprune prune n a m G'' c'' vb'' xs ch (length xs) pa)
            as [[E ST2]|ST2].
          - cbn [collect]. rewrite ST2, (E0 E). reflexivity.
          - assert (P'' : par false G'' g).
            { split; [exact GI''|]. rewrite V'', <- V'. exact (proj2 P'). }
            eapply collect_go'; [exact ST2|].
            exact (IH l2 eq_refl ND SH G'' c'' vb'' ch (length xs) pa false L2 k P'' LV K). }
        pose proof (CN g' c' l1 T1 ltac:(lia) SH' G' vb' (xs ++ ch) (length xs :: pa) (l2 ++ L2) _
                    (proj1 P') V' ltac:(cbn [length]; lia) K') as C.
        rewrite <- app_assoc.
        replace (S (tsteps d g' c' + S (ssteps (tsteps d) g xs)) + k)
          with (S (tsteps d g' c' + S (ssteps (tsteps d) g xs + k))) by lia.
        eapply collect_go'; [exact ST|exact C].
Qed.

Lemma node_complete_fuel : forall d, Ck_node d.
Proof.
  intros d. induction d as [|d IH]; intros g c L1 T ND SH G vb ch pa L2 k GI V LV K.
  - cbn [tree] in T. inversion T; subst L1.
    pose proof (proj2 K G c vb GI V) as C.
    cbn [tree_steps plus collect step SG SN].
    replace (NV G =? n) with true by (symmetry; apply Nat.eqb_eq; rewrite <- nvv_vis, V; lia).
    cbn [fmap_res collect step SG]. rewrite C, V. reflexivity.
  - cbn [tree] in T. cbn [tree_steps].
    destruct (add_augs canon ksub_reps g c 0) as [[masks c2]|] eqn:AA; [|discriminate].
    pose proof (add_augs_nonempty _ _ _ _ _ _ _ AA) as NE.
    pose proof (for_complete_fuel d IH g (rev masks) L1 T ND SH G c2 vb ch (length (rev masks)) pa true L2 k
                (conj GI V) LV K) as C.
    cbn [plus collect step SG SN SCache SVB].
    replace (NV G =? n) with false by (symmetry; apply Nat.eqb_neq; rewrite <- nvv_vis, V; lia).
    rewrite V, (add_augs_novb canon ksub_reps canon_novb g c vb 0%N), AA.
    unfold with_stacks, with_cache. cbn [SN SA SM SFirst SG SCache SVB SChoices SPath].
    cbn [collect step SChoices SPath].
    assert (NE' : rev masks ++ ch <> []).
    { intros Q. apply app_eq_nil in Q. destruct Q as [Q _].
      apply (f_equal (@rev N)) in Q. rewrite rev_involutive in Q. auto. }
    destruct (rev masks ++ ch) as [|y ys] eqn:RM; [contradiction|]. rewrite <- RM in C |- *.
    rewrite <- (rev_length masks). exact C.
Qed.

(* ---------------------------------------------------------------- from one run to the caller's loop *)

Lemma collect_split : forall f p s L, collect' f p s = Ok L ->
  match L with
  | [] => exists s', run' f p s = Ok (false, s')
  | g :: L' => exists s', run' f p s = Ok (true, s') /\ vis (SG s') = g /\
                          collect' f (Outer true false) s' = Ok L'
  end.
Proof.
  intros f. induction f as [|f IH]; intros p s L H; [discriminate|]. cbn [collect] in H. cbn [run].
  destruct (step' p s) as [p1 s1|[|] s1|]; try discriminate.
  - specialize (IH _ _ _ H). destruct L as [|g L']; [exact IH|].
    destruct IH as (s' & R & V & C). exists s'. split; [exact R|]. split; [exact V|].
    eapply collect_le; [exact C|lia].
  - apply fmap_ok in H. destruct H as [L' [H ->]]. exists s1. split; [reflexivity|].
    split; [reflexivity|]. eapply collect_le; [exact H|lia].
  - inversion H; subst. eauto.
Qed.

Lemma outputs_S : forall k f s, outputs' (S k) f s =
  match next' f s with
  | Ok (true, s') => fmap_res (cons (vis (SG s'))) (outputs' k f s')
  | Ok (false, _) => Ok []
  | Panic => Panic
  | Fuel => Fuel
  end.
Proof. reflexivity. Qed.

Lemma collect_outputs_fuel : forall L f s, SFirst s = false -> 2 <= SN s ->
  collect' f (Outer true false) s = Ok L -> outputs' (S (length L)) f s = Ok L.
Proof.
  intros L. induction L as [|g L IH]; intros f s F N H; apply collect_split in H.
  - destruct H as [s' R]. cbn [length outputs].
    rewrite (next_later _ _ _ _ _ f s F N), R. reflexivity.
  - destruct H as (s' & R & V & C).
    pose proof (run_frame _ _ _ _ _ _ _ _ _ _ R) as (F1 & _ & _ & F4).
    pose proof (IH f s' ltac:(congruence) ltac:(lia) C) as O'.
    cbn [length]. rewrite outputs_S.
    rewrite (next_later _ _ _ _ _ f s F N), R, V, O'. reflexivity.
Qed.

Lemma outputs_mono_calls : forall calls calls' f s L, outputs' calls f s = Ok L -> calls <= calls' ->
  outputs' calls' f s = Ok L.
Proof.
  intros calls. induction calls as [|c IH]; intros calls' f s L H LE; [discriminate|].
  destruct calls' as [|c']; [lia|]. cbn [outputs] in *.
  destruct (next' f s) as [[[|] s']| |]; try discriminate; [|exact H].
  apply fmap_ok in H. destruct H as [L' [H ->]]. rewrite (IH c' f s' L' H ltac:(lia)). reflexivity.
Qed.

Lemma outputs_mono : forall calls calls' f f' s L, outputs' calls f s = Ok L ->
  calls <= calls' -> f <= f' -> outputs' calls' f' s = Ok L.
Proof.
  intros calls calls' f f' s L H LC LF. apply (outputs_mono_calls calls); [|exact LC].
  replace f' with (f + (f' - f)) by lia.
  apply (outputs_mono_fuel grow canon ksub_reps preprune prune). exact H.
Qed.

(* ---------------------------------------------------------------- the whole iterator *)

Notation ssp := (spec_steps canon ksub_reps preprune prune n a m).

Theorem spec_outputs_exact : forall L,
  spec canon ksub_reps preprune prune n a m = Some L ->
  outputs' (S (length L)) ssp (init n a m) = Ok L.
Proof.
  intros L H.
  destruct (le_lt_dec 2 n) as [N2|N2].
  - rewrite (spec_ge2 canon ksub_reps preprune prune a m n N2) in H.
    destruct (next_first_ge2 grow canon ksub_reps preprune prune a m n N2) as (G1 & GI & V & NX).
    assert (SS : ssp = if preprune g1 || prune g1 then 0
                       else S (tsteps (n - 1) g1 no_cache)).
    { unfold spec_steps. destruct n as [|[|n2]]; [lia|lia|reflexivity]. }
    rewrite SS. clear SS.
    destruct (preprune g1 || prune g1) eqn:PR.
    + inversion H; subst L. cbn [length outputs]. rewrite NX. reflexivity.
    + assert (K : contk 1 g1 [] [] []).
      { split; [reflexivity|]. intros G' c' vb' _ _. reflexivity. }
      pose proof (node_complete_fuel (n - 1) g1 no_cache L H ltac:(cbn; lia) ltac:(unfold shape, g1; cbn; auto)
                  G1 0%N [] [] [] 1 GI V eq_refl K) as C.
      rewrite app_nil_r in C. rewrite Nat.add_1_r in C.
      (* split the run at its first return *)
      apply collect_split in C. destruct L as [|g L].
      * destruct C as [s' R]. cbn [length outputs]. rewrite NX, R. reflexivity.
      * destruct C as (s' & R & Vs & C).
        pose proof (run_frame _ _ _ _ _ _ _ _ _ _ R) as (F1 & _ & _ & F4). cbn in F1, F4.
        pose proof (collect_outputs_fuel L _ s' F4 ltac:(lia) C) as O'.
        cbn [length]. rewrite outputs_S, NX, R, Vs, O'. reflexivity.
  - unfold spec in H. unfold spec_steps. destruct n as [|[|n2]] eqn:En; [| |lia].
    + inversion H; subst L. cbn [outputs next init SN]. unfold first_test.
      cbn [SFirst SA SG init new_search_graph]. change (vis (new_search_graph 0)) with g0. cbn [andb].
      destruct ((a =? 0) && negb (preprune g0) && negb (prune g0)); reflexivity.
    + inversion H; subst L. cbn [outputs next init SN]. cbn. unfold first_test, vis. cbn.
      change (1, 0%Z, [0%Z], @nil N) with g1.
      destruct ((a =? 0) && negb (preprune g1) && negb (prune g1)); reflexivity.
Qed.

Theorem spec_outputs_fuel : forall L,
  spec canon ksub_reps preprune prune n a m = Some L ->
  forall calls fuel, S (length L) <= calls -> ssp <= fuel ->
  outputs' calls fuel (init n a m) = Ok L.
Proof.
  intros L H calls fuel LC LF. eapply outputs_mono; [apply spec_outputs_exact; exact H|exact LC|exact LF].
Qed.

End Fuel.
