(* C04 on the composed model — "a saved search resumes with exactly the remaining graphs", with
   the run itself: [outputs] (ShardModel.v) is what a caller collects from
   `for it.Next() { use(it.Value()) }`.  For every labelling that ignores the stale ViableBits:
   states with equal saved projection collect the same ([outputs_proj]), so the iterator loaded
   from a save collects what the original would ([resume_outputs]); if a run from a state s
   collects L, then after k <= |L| calls the iterator has shown the first k graphs of L and the
   iterator loaded from a save made there collects exactly the remaining ones
   ([resume_remaining]).  For the composed model (canon_real, ksub_real_fn) such runs exist for
   every n <= 63 and L holds one graph per isomorphism class ([real_resume_remaining]). *)
From Coq Require Import List NArith ZArith Arith Bool Lia.
From Mamba Require Import Disjoint.Model Search.Model Search.SaveModel Search.SaveProofs Search.ShardModel Search.Prune.
From Mamba Require Import Search.OrderlySpec Search.OrderlyTop Search.OrderlyInstKsubModel Search.OrderlyInstKsub.
From Mamba Require Import Search.ComposeModel Search.Compose.
Import ListNotations.
Local Open Scope nat_scope.

Section Resume.
Variable grow : nat -> nat.
Variable canon : nat -> Z -> list (list nat) -> bool -> N -> cache.
Variable ksub_reps : nat -> nat -> list (list nat) -> list N.
Variables preprune prune : vgraph -> bool.
Hypothesis NOVB : canon_ignores_stale_bits canon.

Notation outs := (outputs grow canon ksub_reps preprune prune).
Notation nxt := (next grow canon ksub_reps preprune prune).
Notation adv := (advance grow canon ksub_reps preprune prune).

Lemma outputs_proj : forall calls fuel s1 s2, inv s1 -> inv s2 -> proj s1 = proj s2 ->
  outs calls fuel s1 = outs calls fuel s2.
Proof.
  induction calls as [|c IH]; intros fuel s1 s2 I1 I2 PR; [reflexivity|]. cbn [outputs].
  pose proof (next_noninterference grow canon ksub_reps preprune prune NOVB fuel s1 s2 I1 I2 PR) as R.
  destruct (nxt fuel s1) as [[b1 t1]| |] eqn:E1; destruct (nxt fuel s2) as [[b2 t2]| |] eqn:E2;
    cbn [res_rel] in R; try contradiction; try reflexivity.
  destruct R as [-> PR']. destruct b2; [|reflexivity].
  rewrite (IH fuel t1 t2 (next_inv _ _ _ _ _ _ _ _ _ I1 E1) (next_inv _ _ _ _ _ _ _ _ _ I2 E2) PR').
  apply (f_equal VG) in PR'. cbn [proj save VG] in PR'. rewrite PR'. reflexivity.
Qed.

Theorem resume_outputs : forall s s', inv s -> load (save s) = Some s' ->
  forall calls fuel, outs calls fuel s' = outs calls fuel s.
Proof.
  intros s s' I L calls fuel. destruct (load_save s I) as (t & L' & PR & I'). rewrite L in L'. inversion L'; subst t.
  apply outputs_proj; assumption.
Qed.

Lemma outputs_split : forall k calls fuel s L, inv s -> outs calls fuel s = Ok L -> k <= length L ->
  exists s_k, adv fuel k s = (map Some (firstn k L), Ok s_k) /\ inv s_k /\
              outs (calls - k) fuel s_k = Ok (skipn k L).
Proof.
  induction k as [|k IH]; intros calls fuel s L I H Hk.
  - exists s. rewrite Nat.sub_0_r. auto.
  - destruct L as [|g L]; [cbn in Hk; lia|]. destruct calls as [|c]; [discriminate|].
    cbn [outputs] in H. cbn [advance]. unfold next'.
    destruct (nxt fuel s) as [[b s1]| |] eqn:E; try discriminate.
    destruct b; [|discriminate].
    destruct (outs c fuel s1) as [L1| |] eqn:E1; cbn [fmap_res] in H; try discriminate.
    inversion H; subst g L1.
    destruct (IH c fuel s1 L (next_inv _ _ _ _ _ _ _ _ _ I E) E1 ltac:(cbn in Hk; lia)) as (sk & A & Ik & O).
    exists sk. rewrite A. cbn [observe firstn map skipn Nat.sub]. auto.
Qed.

Theorem resume_remaining : forall calls fuel s L, inv s -> outs calls fuel s = Ok L ->
  forall k, k <= length L ->
  exists s_k s', adv fuel k s = (map Some (firstn k L), Ok s_k) /\
    load (save s_k) = Some s' /\ outs (calls - k) fuel s' = Ok (skipn k L).
Proof.
  intros calls fuel s L I H k Hk. destruct (outputs_split k calls fuel s L I H Hk) as (sk & A & Ik & O).
  destruct (load_save sk Ik) as (s' & L' & _ & _). exists sk, s'. split; [exact A|]. split; [exact L'|].
  rewrite (resume_outputs sk s' Ik L'). exact O.
Qed.

End Resume.

(* the composed model: the run exists, and a save made after any number of graphs resumes with
   exactly the remaining ones *)
Theorem real_resume_remaining : forall grow n, n <= NMAX ->
  exists L calls fuel,
    one_per_class n L /\
    outputs grow canon_real ksub_real_fn no_prune no_prune calls fuel (init n 0 1) = Ok L /\
    forall k, k <= length L ->
    exists s_k s', advance grow canon_real ksub_real_fn no_prune no_prune fuel k (init n 0 1) =
                     (map Some (firstn k L), Ok s_k) /\
      load (save s_k) = Some s' /\
      outputs grow canon_real ksub_real_fn no_prune no_prune (calls - k) fuel s' = Ok (skipn k L).
Proof.
  intros grow n Hn.
  destruct (outputs_orderly canon_real ksub_real_fn grow canon_real_novb n (real_canon_spec n Hn))
    as (L & (calls & fuel & O) & OPC).
  exists L, calls, fuel. split; [exact OPC|]. split; [exact O|].
  apply (resume_remaining grow canon_real ksub_real_fn no_prune no_prune canon_real_novb calls fuel _ L
           (init_inv n 0 1) O).
Qed.

(* every shard, with or without a predicate that stays true when a vertex is added (P := no_prune
   gives the unpruned shards) *)
Theorem real_resume_full : forall grow n, n <= NMAX ->
  forall P pre post, grows_bad P ->
    (pre = P \/ pre = no_prune) -> (post = P \/ post = no_prune) -> (pre = P \/ post = P) ->
  forall m a, a < m ->
  exists L calls fuel,
    outputs grow canon_real ksub_real_fn pre post calls fuel (init n a m) = Ok L /\
    forall k, k <= length L ->
    exists s_k s', advance grow canon_real ksub_real_fn pre post fuel k (init n a m) =
                     (map Some (firstn k L), Ok s_k) /\
      load (save s_k) = Some s' /\
      outputs grow canon_real ksub_real_fn pre post (calls - k) fuel s' = Ok (skipn k L).
Proof.
  intros grow n Hn P pre post GB H1 H2 H3 m a Ha.
  destruct (search_full canon_real ksub_real_fn grow canon_real_novb n (real_canon_spec n Hn))
    as (L0 & _ & _ & _ & PR).
  destruct (PR P pre post GB H1 H2 H3 m ltac:(lia)) as (Ls & _ & _ & RUN).
  destruct (RUN a Ha) as (calls & fuel & O).
  exists (nth a Ls []), calls, fuel. split; [exact O|].
  apply (resume_remaining grow canon_real ksub_real_fn pre post canon_real_novb calls fuel _ _
           (init_inv n a m) O).
Qed.
