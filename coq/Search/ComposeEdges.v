(* C03 — the number of edges the search passes to the labelling.  getAutomorphismGroup calls
   CanonicalIsomorphAllocated(n, m, neighbours, ...) with m = G.NumberOfEdges; the model of the
   labelling (Canon/SearchModel.v) computes the number of edges from the adjacency matrix
   ([num_edges]: the m == 0 shortcut, the capacity of currentBest / firstLeaf).  For every
   well-formed graph of the search model the two agree ([wfv_num_edges]), so [canon_real]
   (ComposeModel.v), which does not look at its argument m, is the model of that call. *)
From Coq Require Import List NArith ZArith Arith Bool Lia.
From Mamba Require Import Search.Model Search.SaveProofs Search.ShardModel Search.ShardWf.
From Mamba Require Canon.Perm Canon.Iso Canon.Refine Canon.SearchModel.
From Mamba Require Import Search.OrderlyGraph Search.OrderlyTop Search.ComposeModel Search.Compose.
Import ListNotations.
Local Open Scope nat_scope.

(* the packed triangle, listed column by column *)
Lemma tri_listing : forall n (e : list N), length e = tri n ->
  e = flat_map (fun v => map (fun u => nth (tri v + u) e 0%N) (seq 0 v)) (seq 0 n).
Proof.
  induction n as [|n IH]; intros e L.
  - destruct e; [reflexivity|discriminate].
  - rewrite tri_S in L. rewrite seq_S, flat_map_app. cbn [plus flat_map]. rewrite app_nil_r.
    rewrite <- (firstn_skipn (tri n) e) at 1. f_equal.
    + rewrite (IH (firstn (tri n) e)) at 1 by (rewrite firstn_length; lia).
      apply Canon.Refine.flat_map_ext_in'. intros v Hv. apply in_seq in Hv.
      apply map_ext_in. intros u Hu. apply in_seq in Hu.
      rewrite <- (firstn_skipn (tri n) e) at 2. symmetry. apply app_nth1. rewrite firstn_length.
      pose proof (tri_S v). pose proof (tri_mono (S v) n ltac:(lia)). lia.
    + assert (L2 : length (skipn (tri n) e) = n) by (rewrite skipn_length; lia).
      rewrite <- (Canon.Perm.map_nth_seq _ (skipn (tri n) e) 0%N) at 1. rewrite L2.
      apply map_ext_in. intros u Hu.
      rewrite <- (firstn_skipn (tri n) e) at 2. rewrite app_nth2 by (rewrite firstn_length; lia).
      f_equal. rewrite firstn_length. lia.
Qed.

Lemma count_flat : forall {A B} (f : A -> bool) (f' : B -> bool) (F : nat -> list A) (F' : nat -> list B) l,
  (forall v, In v l -> length (filter f (F v)) = length (filter f' (F' v))) ->
  length (filter f (flat_map F l)) = length (filter f' (flat_map F' l)).
Proof.
  intros A B f f' F F' l. induction l as [|v l IH]; intros H; [reflexivity|].
  cbn [flat_map]. rewrite !filter_app, !app_length. rewrite (H v (or_introl eq_refl)), IH; [reflexivity|].
  intros w Hw. apply H. right. exact Hw.
Qed.

Lemma count_map : forall {A B} (f : A -> bool) (f' : B -> bool) (h : nat -> A) (h' : nat -> B) l,
  (forall u, In u l -> f (h u) = f' (h' u)) ->
  length (filter f (map h l)) = length (filter f' (map h' l)).
Proof.
  intros A B f f' h h' l. induction l as [|u l IH]; intros H; [reflexivity|].
  cbn [map filter]. rewrite (H u (or_introl eq_refl)).
  destruct (f' (h' u)); cbn [length]; rewrite IH; try reflexivity; intros w Hw; apply H; right; exact Hw.
Qed.

Theorem wfv_num_edges : forall g, wfv g -> ne_of g = Z.of_nat (SearchModel.num_edges (matrix_of g)).
Proof.
  intros [[[n ne] d] e] W. pose proof W as (HD & HE & H01 & HDeg & HNe). cbn [ne_of]. rewrite HNe. f_equal.
  unfold ones, SearchModel.num_edges. rewrite matrix_of_length. cbn [nv_of].
  rewrite (tri_listing n e HE) at 1.
  apply count_flat. intros v Hv. apply in_seq in Hv. apply count_map. intros u Hu. apply in_seq in Hu.
  cbn [fst snd]. rewrite matrix_of_adjb by (cbn [nv_of]; lia).
  cbn [vadj]. unfold eadj. replace (u =? v) with false by (symmetry; apply Nat.eqb_neq; lia).
  cbn [negb andb]. unfold edge_index. replace (u <? v) with true by (symmetry; apply Nat.ltb_lt; lia).
  apply N.eqb_sym.
Qed.

(* the call made by getAutomorphismGroup, with the m it passes *)
Corollary get_aut_real_m : forall g nb cv vb, wfv g -> all_nbrs g = Some nb ->
  get_aut canon_real g cv vb =
  Some (canon_real (nv_of g) (Z.of_nat (SearchModel.num_edges (nb_matrix (nv_of g) nb))) nb cv vb).
Proof.
  intros g nb cv vb W E. rewrite (get_aut_real g nb cv vb E), (nb_matrix_eq g nb W E), <- (wfv_num_edges g W).
  reflexivity.
Qed.
