(* C03: a CLOSED bound on the number of calls of Next and on the machine steps of the unsplit,
   unpruned search, relative to [canon_spec]:
     - pairwise non-isomorphic well-formed graphs on k vertices have pairwise distinct packed
       triangles, so there are at most 2^(tri k) of them ([noniso_count]); this bounds every
       level of the search ([lev_count]) and the output ([one_per_class_length]);
     - the masks that addAugmentations pushes are pairwise inequivalent, hence distinct, and
       below 2^k ([masks_count]);
     - [tree_steps] summed over a level is bounded level by level ([level_steps], [cost_closed],
       [closed_sum]).
   Result: [outputs_orderly_fuel]. *)
From Coq Require Import List NArith ZArith Arith Bool Lia Permutation.
From Mamba Require Import Disjoint.Model Disjoint.Proofs.
From Mamba Require Import Search.Model Search.SaveModel Search.ShardModel Search.ShardGraph Search.ShardWf Search.Prune.
From Mamba Require Import Canon.AutBase Canon.Aut Canon.Group.
From Mamba Require Canon.Iso.
From Mamba Require Import Search.OrderlyBase Search.OrderlyGraph Search.OrderlySpec Search.OrderlyCanon.
From Mamba Require Import Search.OrderlyAugs Search.OrderlyLevels Search.OrderlyMcKay Search.OrderlyTop.
From Mamba Require Import Search.OrderlyFuelModel Search.OrderlyFuel.
From Mamba Require Import Search.OrderlyToyModel Search.OrderlyToy.
Import ListNotations.
Local Open Scope nat_scope.

(* ---------------------------------------------------------------- counting *)

Fixpoint bitlists (t : nat) : list (list N) :=
  match t with
  | 0 => [[]]
  | S t' => map (cons 0%N) (bitlists t') ++ map (cons 1%N) (bitlists t')
  end.

Lemma bitlists_length : forall t, length (bitlists t) = 2 ^ t.
Proof.
  induction t as [|t IH]; [reflexivity|].
  cbn [bitlists]. rewrite app_length, !map_length, IH, Nat.pow_succ_r'. lia.
Qed.

Lemma bitlists_In : forall e, Forall (fun b => b = 0%N \/ b = 1%N) e -> In e (bitlists (length e)).
Proof.
  induction 1 as [|b e Hb _ IH]; [left; reflexivity|].
  cbn [length bitlists]. apply in_or_app.
  destruct Hb as [->| ->]; [left|right]; apply in_map; exact IH.
Qed.

Lemma FOP_NoDup_map : forall {S T} (R : S -> S -> Prop) (f : S -> T) l,
  ForallOrdPairs R l -> (forall x y, In x l -> In y l -> f x = f y -> R x y -> False) ->
  NoDup (map f l).
Proof.
  intros S T R f l. induction 1 as [|a l Fa Fl IH]; intros H; cbn [map]; constructor.
  - intros Hin. apply in_map_iff in Hin. destruct Hin as [b [E Hb]].
    rewrite Forall_forall in Fa.
    apply (H a b); [left; reflexivity|right; exact Hb|symmetry; exact E|apply Fa; exact Hb].
  - apply IH. intros x y Hx Hy. apply H; right; assumption.
Qed.

Definition edg_of (g : vgraph) : list N := let '(_, _, _, e) := g in e.

Lemma same_edges_viso : forall g h, nv_of g = nv_of h -> edg_of g = edg_of h -> viso g h.
Proof.
  intros [[[nv ne] d] e] [[[nv' ne'] d'] e'] NVE E. cbn [nv_of edg_of] in NVE, E. subst.
  exists (idp nv'). cbn [nv_of vadj]. apply isoP_id.
Qed.

Lemma wf_graph_nv : forall n g, wf_graph n g -> nv_of g = n.
Proof. intros n [[[nv ne] d] e] [E _]. exact E. Qed.

(* pairwise non-isomorphic well-formed graphs on n vertices: at most 2^(n(n-1)/2) *)
Lemma noniso_count : forall n L, Forall (wf_graph n) L ->
  ForallOrdPairs (fun g h => ~ viso g h) L -> length L <= 2 ^ tri n.
Proof.
  intros n L WF FO. rewrite Forall_forall in WF.
  rewrite <- (map_length edg_of L), <- bitlists_length. apply NoDup_incl_length.
  - apply (FOP_NoDup_map (fun g h => ~ viso g h)); [exact FO|].
    intros x y Hx Hy E NI. apply NI. apply same_edges_viso; [|exact E].
    rewrite (wf_graph_nv n x (WF x Hx)), (wf_graph_nv n y (WF y Hy)). reflexivity.
  - intros e He. apply in_map_iff in He. destruct He as [g [<- Hg]].
    specialize (WF g Hg). destruct g as [[[nv ne] d] e]. destruct WF as [E (_ & LE & F01 & _)].
    cbn [edg_of]. subst nv. rewrite <- LE. apply bitlists_In. exact F01.
Qed.

Lemma one_per_class_length : forall n L, one_per_class n L -> length L <= 2 ^ tri n.
Proof.
  intros n L (WF & _ & FO). apply noniso_count; [exact WF|].
  rewrite Forall_forall in WF.
  eapply FOP_impl; [|exact FO]. intros g h Hg Hh NI Q. apply NI.
  apply viso_matrix; [|exact Q].
  rewrite (wf_graph_nv n g (WF g Hg)), (wf_graph_nv n h (WF h Hh)). reflexivity.
Qed.

(* a mask whose bits are below k is below 2^k *)
Lemma bits_lt_pow : forall x k, (forall v, In v (bits_of x) -> v < k) -> N.to_nat x < 2 ^ k.
Proof.
  intros x k H.
  assert (B : (x < 2 ^ N.of_nat k)%N).
  { destruct (N.eq_dec x 0) as [->|NZ].
    - apply N.neq_0_lt_0. apply N.pow_nonzero. discriminate.
    - assert (P : (0 < x)%N) by (apply N.neq_0_lt_0; exact NZ).
      destruct (N.log2_spec x P) as [_ UP].
      assert (Hb : N.to_nat (N.log2 x) < k).
      { apply H. apply bits_of_In. rewrite N2Nat.id. apply N.bit_log2. exact NZ. }
      eapply N.lt_le_trans; [exact UP|]. apply N.pow_le_mono_r; [discriminate|]. lia. }
  assert (E : 2 ^ k = N.to_nat (2 ^ N.of_nat k)) by (rewrite N2Nat.inj_pow, Nat2N.id; reflexivity).
  rewrite E. lia.
Qed.

Lemma list_sum_cons : forall a l, list_sum (a :: l) = a + list_sum l.
Proof. reflexivity. Qed.

Lemma list_sum_map_S : forall {T} (f : T -> nat) l,
  list_sum (map (fun t => S (f t)) l) = length l + list_sum (map f l).
Proof. intros T f l. induction l as [|a l IH]; cbn [map length]; rewrite ?list_sum_cons; lia. Qed.

(* ---------------------------------------------------------------- levels and masks *)

Section Bound.
Variable canon : nat -> Z -> list (list nat) -> bool -> N -> cache.
Variable ksub_reps : nat -> nat -> list (list nat) -> list N.
Variable NN : nat.
Hypothesis HC : canon_spec canon ksub_reps NN.

Notation kid' := (kid canon).
Notation kids' := (kids canon ksub_reps).
Notation level' := (level canon ksub_reps).
Notation good' := (good canon).
Notation lev' := (lev canon ksub_reps).

Lemma lev_count : forall j, S j <= NN -> length (lev' j) <= 2 ^ tri (S j).
Proof.
  intros j HN.
  apply Nat.le_trans with (length (map fst (lev' j))); [rewrite map_length; apply Nat.le_refl|].
  apply noniso_count.
  - apply Forall_forall. intros g Hg. apply in_map_iff in Hg. destruct Hg as [t [<- Ht]].
    destruct (lev_good canon ksub_reps NN HC j t HN Ht) as [(W & _) NVE].
    split; [|exact W]. destruct (fst t) as [[[nv ne] d] e]. exact NVE.
  - apply FOP_map. exact (proj1 (levels_transversal canon ksub_reps NN HC j HN)).
Qed.

Lemma noneq_irrefl : forall g x, ~ noneq g x x.
Proof.
  intros g x NE. apply NE. exists (idp (nv_of g)). split; [apply autP_id|].
  intros j Hj. rewrite app_idp by exact Hj. reflexivity.
Qed.

(* the masks pushed by addAugmentations at a node on k vertices: at most 2^k *)
Lemma masks_count : forall t masks c', good' t -> nv_of (fst t) <= NN ->
  add_augs canon ksub_reps (fst t) (snd t) 0%N = Some (masks, c') ->
  length masks <= 2 ^ nv_of (fst t).
Proof.
  intros t masks c' G HN AA.
  destruct (kids_spec canon ksub_reps NN HC t G HN) as (masks0 & c0 & AA0 & _ & V & _ & FO).
  rewrite AA in AA0. inversion AA0; subst masks0 c0.
  rewrite <- (map_length N.to_nat masks), <- (seq_length (2 ^ nv_of (fst t)) 0).
  apply NoDup_incl_length.
  - apply (FOP_NoDup_map (noneq (fst t))); [exact FO|].
    intros x y _ _ E NE. apply N2Nat.inj in E. subst y. exact (noneq_irrefl _ _ NE).
  - intros v Hv. apply in_map_iff in Hv. destruct Hv as [x [<- Hx]]. apply in_seq.
    pose proof (bits_lt_pow x (nv_of (fst t)) (V x Hx)). lia.
Qed.

(* ---------------------------------------------------------------- steps below a node *)

Variable n : nat.
Notation tsteps0 := (tree_steps canon ksub_reps no_prune no_prune n 0 1).
Notation ssteps0 := (sibs_steps canon no_prune no_prune n 0 1).

Lemma sibs_steps_level : forall rec g xs, wfv g -> 1 <= nv_of g -> S (nv_of g) <= NN ->
  (forall x, In x xs -> forall v, In v (bits_of x) -> v < nv_of g) ->
  ssteps0 rec g xs =
    S (length xs + list_sum (map (fun t => S (rec (fst t) (snd t))) (flat_map (kid' g) xs))).
Proof.
  intros rec g xs W H1 HN. induction xs as [|x xs IH]; intros V; cbn [sibs_steps flat_map length].
  - reflexivity.
  - change (1 =? 0) with false. cbv iota. rewrite skip_unsplit.
    specialize (IH (fun y Hy => V y (or_intror Hy))).
    destruct (kid_spec canon ksub_reps NN HC g x W H1 HN (V x (or_introl eq_refl)))
      as (_ & _ & _ & _ & _ & _ & NC & _).
    unfold kid at 1.
    destruct (child canon no_prune no_prune g x) as [| |g2 c2]; [contradiction| |].
    + rewrite IH. cbn [List.app]. lia.
    + rewrite IH. cbn [List.app map fst snd]. rewrite list_sum_cons. lia.
Qed.

Definition sum_steps (d : nat) (ts : list node) : nat :=
  list_sum (map (fun t => tsteps0 d (fst t) (snd t)) ts).

Lemma node_steps : forall d t k, good' t -> nv_of (fst t) = k -> S k <= NN ->
  tsteps0 (S d) (fst t) (snd t) <= 3 + 2 ^ k + length (kids' t) + sum_steps d (kids' t).
Proof.
  intros d t k G NK HN.
  assert (HN0 : nv_of (fst t) <= NN) by lia.
  destruct (kids_spec canon ksub_reps NN HC t G HN0) as (masks & c' & AA & KE & V & _ & _).
  pose proof (masks_count t masks c' G HN0 AA) as MC. rewrite NK in MC.
  cbn [tree_steps]. rewrite AA. destruct G as (W & H1 & _).
  rewrite (sibs_steps_level (tsteps0 d) (fst t) (rev masks) W H1 ltac:(lia)).
  - rewrite <- KE, rev_length, list_sum_map_S. unfold sum_steps, node in *. lia.
  - intros x Hx. apply V. apply in_rev. exact Hx.
Qed.

Lemma sum_steps_app : forall d l1 l2, sum_steps d (l1 ++ l2) = sum_steps d l1 + sum_steps d l2.
Proof. intros d l1 l2. unfold sum_steps. rewrite map_app, list_sum_app. reflexivity. Qed.

(* level by level *)
Fixpoint cost (d k : nat) (ts : list node) : nat :=
  match d with
  | 0 => 2 * length ts
  | S d' => length ts * (3 + 2 ^ k) + length (flat_map kids' ts) + cost d' (S k) (flat_map kids' ts)
  end.

Lemma level_steps : forall d ts k, (forall t, In t ts -> good' t /\ nv_of (fst t) = k) ->
  k + d <= NN -> sum_steps d ts <= cost d k ts.
Proof.
  induction d as [|d IH]; intros ts k H HN.
  - cbn [cost]. unfold sum_steps. clear H. induction ts as [|t ts IHt]; [reflexivity|].
    cbn [map length tree_steps] in *. rewrite list_sum_cons. lia.
  - cbn [cost].
    assert (ST : sum_steps (S d) ts <=
                 length ts * (3 + 2 ^ k) + length (flat_map kids' ts) + sum_steps d (flat_map kids' ts)).
    { clear IH. induction ts as [|t ts IHt]; [cbn; lia|].
      cbn [flat_map length]. rewrite app_length, sum_steps_app.
      change (sum_steps (S d) (t :: ts)) with (tsteps0 (S d) (fst t) (snd t) + sum_steps (S d) ts).
      destruct (H t (or_introl eq_refl)) as [G NK].
      pose proof (node_steps d t k G NK ltac:(lia)) as NS.
      specialize (IHt (fun t' Ht' => H t' (or_intror Ht'))).
      cbn [Nat.mul]. lia. }
    assert (IH' : sum_steps d (flat_map kids' ts) <= cost d (S k) (flat_map kids' ts)).
    { apply IH; [|lia]. intros t' Hin'. apply in_flat_map in Hin'. destruct Hin' as [t0 [H0 Hin']].
      destruct (H t0 H0) as [G0 N0]. rewrite <- N0.
      apply (kids_good canon ksub_reps NN HC); [exact G0|lia|exact Hin']. }
    lia.
Qed.

Fixpoint closed (d k : nat) : nat :=
  match d with
  | 0 => 2 * 2 ^ tri k
  | S d' => 2 ^ tri k * (3 + 2 ^ k) + 2 ^ tri (S k) + closed d' (S k)
  end.

Lemma cost_closed : forall d ts k,
  (forall i, i <= d -> length (level' i ts) <= 2 ^ tri (k + i)) -> cost d k ts <= closed d k.
Proof.
  induction d as [|d IH]; intros ts k H; cbn [cost closed].
  - pose proof (H 0 ltac:(lia)) as H0. rewrite Nat.add_0_r in H0. cbn [level] in H0. lia.
  - pose proof (H 0 ltac:(lia)) as H0. rewrite Nat.add_0_r in H0. cbn [level] in H0.
    pose proof (H 1 ltac:(lia)) as H1. rewrite Nat.add_1_r in H1. cbn [level] in H1.
    assert (IH' : cost d (S k) (flat_map kids' ts) <= closed d (S k)).
    { apply IH. intros i Hi. specialize (H (S i) ltac:(lia)). cbn [level] in H.
      replace (S k + i) with (k + S i) by lia. exact H. }
    pose proof (Nat.mul_le_mono_r _ _ (3 + 2 ^ k) H0). lia.
Qed.

Lemma closed_sum : forall d k, closed d k + 2 ^ tri k <= list_sum (map fuel_term (seq k (S d))).
Proof.
  induction d as [|d IH]; intros k.
  - cbn [closed seq map]. rewrite list_sum_cons. unfold fuel_term. cbn [list_sum fold_right]. nia.
  - specialize (IH (S k)).
    change (seq k (S (S d))) with (k :: seq (S k) (S d)). cbn [closed map]. rewrite list_sum_cons.
    unfold fuel_term at 1. nia.
Qed.

End Bound.

(* ---------------------------------------------------------------- the closed bound *)

Section Top.
Variable canon : nat -> Z -> list (list nat) -> bool -> N -> cache.
Variable ksub_reps : nat -> nat -> list (list nat) -> list N.

(* the machine steps of the whole unsplit, unpruned search *)
Theorem spec_steps_bound : forall n, canon_spec canon ksub_reps n ->
  spec_steps canon ksub_reps no_prune no_prune n 0 1 <= fuel_bound n.
Proof.
  intros n HC. destruct n as [|[|n2]]; [cbn; lia|cbn; lia|].
  set (n := S (S n2)) in *.
  change (spec_steps canon ksub_reps no_prune no_prune n 0 1)
    with (S (tree_steps canon ksub_reps no_prune no_prune n 0 1 (n - 1) g1 no_cache)).
  assert (E : tree_steps canon ksub_reps no_prune no_prune n 0 1 (n - 1) g1 no_cache =
              sum_steps canon ksub_reps n (n - 1) [root]).
  { unfold sum_steps, root. cbn [map fst snd]. rewrite list_sum_cons. cbn [list_sum fold_right]. lia. }
  pose proof (level_steps canon ksub_reps n HC n (n - 1) [root] 1) as LS.
  assert (LS' : sum_steps canon ksub_reps n (n - 1) [root] <= cost canon ksub_reps (n - 1) 1 [root]).
  { apply LS; [|lia]. intros t [<-|[]]. split; [exact (root_good canon)|reflexivity]. }
  assert (CC : cost canon ksub_reps (n - 1) 1 [root] <= closed (n - 1) 1).
  { apply cost_closed. intros i Hi. apply (lev_count canon ksub_reps n HC i). lia. }
  pose proof (closed_sum (n - 1) 1) as CS.
  change (2 ^ tri 1) with 1 in CS. replace (S (n - 1)) with n in CS by lia.
  unfold fuel_bound. lia.
Qed.

Variable grow : nat -> nat.
Hypothesis canon_novb : canon_ignores_stale_bits canon.

(* The statement of OrderlyTop.outputs_orderly / Props.C03_all_exactly_one_per_class with the
   existential [exists calls fuel] replaced by the closed bounds
     calls_bound n = 2^(n(n-1)/2) + 1,
     fuel_bound n  = sum_{j=1..n} 2^(j(j-1)/2) * (2^j + 4)   (machine steps, per call of Next,
                     and also for all calls together). *)
Theorem outputs_orderly_fuel : forall n, canon_spec canon ksub_reps n ->
  exists L,
    (forall calls fuel, calls_bound n <= calls -> fuel_bound n <= fuel ->
       outputs grow canon ksub_reps (fun _ => false) (fun _ => false) calls fuel (init n 0 1) = Ok L) /\
    Forall (wf_graph n) L /\
    (forall H, Iso.simple H -> length H = n -> exists g, In g L /\ Iso.iso (matrix_of g) H) /\
    ForallOrdPairs (fun g h => ~ Iso.iso (matrix_of g) (matrix_of h)) L.
Proof.
  intros n HC. destruct (spec_orderly canon ksub_reps n HC) as [L [S O]]. exists L.
  split; [|exact O].
  intros calls fuel LC LF. pose proof (one_per_class_length n L O) as LL.
  pose proof (spec_steps_bound n HC) as SB.
  apply (spec_outputs_fuel grow canon ksub_reps no_prune no_prune canon_novb n 0 1 L S).
  - unfold calls_bound in LC. lia.
  - unfold no_prune in *. lia.
Qed.

(* the same, with the run-dependent (computable) bounds of OrderlyFuel.spec_outputs_fuel *)
Theorem outputs_orderly_steps : forall n, canon_spec canon ksub_reps n ->
  exists L, one_per_class n L /\ length L <= 2 ^ tri n /\
    spec_steps canon ksub_reps no_prune no_prune n 0 1 <= fuel_bound n /\
    forall calls fuel, S (length L) <= calls ->
      spec_steps canon ksub_reps no_prune no_prune n 0 1 <= fuel ->
      outputs grow canon ksub_reps no_prune no_prune calls fuel (init n 0 1) = Ok L.
Proof.
  intros n HC. destruct (spec_orderly canon ksub_reps n HC) as [L [S O]]. exists L.
  split; [exact O|]. split; [exact (one_per_class_length n L O)|].
  split; [exact (spec_steps_bound n HC)|].
  intros calls fuel LC LF.
  exact (spec_outputs_fuel grow canon ksub_reps no_prune no_prune canon_novb n 0 1 L S calls fuel LC LF).
Qed.

End Top.

(* unconditionally, for the brute-force labelling *)
Theorem reference_instance_fuel : forall grow n, exists L,
  (forall calls fuel, calls_bound n <= calls -> fuel_bound n <= fuel ->
     outputs grow toy_canon toy_ksub no_prune no_prune calls fuel (init n 0 1) = Ok L) /\
  one_per_class n L.
Proof. intros grow n. exact (outputs_orderly_fuel toy_canon toy_ksub grow toy_novb n (toy_canon_spec n)). Qed.

Print Assumptions spec_outputs_fuel.
Print Assumptions outputs_orderly_fuel.
Print Assumptions outputs_orderly_steps.
Print Assumptions reference_instance_fuel.

(* Non-vacuity by computation (brute-force labelling, n = 4): the run ends with the 11 graphs of
   [spec] within S (length L) = 12 calls of [spec_steps] = 82 steps; the closed bound is 1398. *)
Definition toy_steps (n : nat) : nat := spec_steps toy_canon toy_ksub no_prune no_prune n 0 1.

Example spec_outputs_fuel_toy :
  match spec toy_canon toy_ksub no_prune no_prune 4 0 1 with
  | Some L =>
      length L = 11 /\
      outputs (fun k => k) toy_canon toy_ksub no_prune no_prune (S (length L)) (toy_steps 4) (init 4 0 1) = Ok L
  | None => False
  end /\
  map (fun n => N.of_nat (toy_steps n)) [2; 3; 4; 5] = [12; 31; 82; 249]%N /\
  map (fun n => N.of_nat (fuel_bound n)) [2; 3; 4; 5] = [22; 118; 1398; 38262]%N.
Proof. vm_compute. repeat split. Qed.
