(* C03 (orderly generation) — addAugmentations of the search model lists one neighbourhood for
   every orbit of Aut(g) on the subsets of size at most (minimum degree + 1)
   ([add_augs_spec]): the empty set, one singleton per orbit of vertices (the roots of the
   union-find forest returned by the canonical labelling), and the k-subset representatives. *)
From Coq Require Import List NArith ZArith Arith Bool Lia Permutation Sorted.
From Mamba Require Import Disjoint.Model Disjoint.Proofs Disjoint.Views.
From Mamba Require Import Search.Model Search.ShardModel Search.ShardGraph.
From Mamba Require Import Canon.AutBase Canon.Aut Canon.Group.
From Mamba Require Import Search.OrderlyBase Search.OrderlyGraph Search.OrderlySpec Search.OrderlyCanon.
Import ListNotations.
Local Open Scope nat_scope.

(* ---------------------------------------------------------------- ForallOrdPairs *)

Lemma FOP_app : forall {T} (R : T -> T -> Prop) l1 l2,
  ForallOrdPairs R l1 -> ForallOrdPairs R l2 -> (forall x y, In x l1 -> In y l2 -> R x y) ->
  ForallOrdPairs R (l1 ++ l2).
Proof.
  intros T R l1. induction l1 as [|a l1 IH]; intros l2 F1 F2 H; [exact F2|].
  inversion F1 as [|? ? Fa Fl]; subst. cbn [List.app]. constructor.
  - apply Forall_app. split; [exact Fa|]. apply Forall_forall. intros y Hy. apply H; [left; reflexivity|exact Hy].
  - apply IH; [exact Fl|exact F2|]. intros x y Hx Hy. apply H; [right; exact Hx|exact Hy].
Qed.

Lemma FOP_flat_map : forall {S T} (R : T -> T -> Prop) (f : S -> list T) l,
  (forall a, In a l -> ForallOrdPairs R (f a)) ->
  ForallOrdPairs (fun a b => forall x y, In x (f a) -> In y (f b) -> R x y) l ->
  ForallOrdPairs R (flat_map f l).
Proof.
  intros S T R f l. induction l as [|a l IH]; intros H1 H2; [constructor|].
  inversion H2 as [|? ? Fa Fl]; subst. cbn [flat_map]. apply FOP_app.
  - apply H1. left. reflexivity.
  - apply IH; [intros b Hb; apply H1; right; exact Hb|exact Fl].
  - intros x y Hx Hy. apply in_flat_map in Hy. destruct Hy as [b [Hb Hy]].
    rewrite Forall_forall in Fa. exact (Fa b Hb x y Hx Hy).
Qed.

Lemma FOP_NoDup : forall {T} (l : list T), NoDup l -> ForallOrdPairs (fun a b => a <> b) l.
Proof.
  intros T l. induction 1 as [|a l Hnin ND IH]; constructor; [|exact IH].
  apply Forall_forall. intros y Hy E. subst y. contradiction.
Qed.

Lemma FOP_map : forall {S T} (R : T -> T -> Prop) (f : S -> T) l,
  ForallOrdPairs (fun a b => R (f a) (f b)) l -> ForallOrdPairs R (map f l).
Proof.
  intros S T R f l. induction 1 as [|a l Fa Fl IH]; cbn [map]; constructor; [|exact IH].
  apply Forall_forall. intros y Hy. apply in_map_iff in Hy. destruct Hy as [b [<- Hb]].
  rewrite Forall_forall in Fa. apply Fa. exact Hb.
Qed.

Lemma FOP_rev : forall {T} (R : T -> T -> Prop) l, (forall x y, R x y -> R y x) ->
  ForallOrdPairs R l -> ForallOrdPairs R (rev l).
Proof.
  intros T R l Hs. induction 1 as [|a l Fa Fl IH]; cbn [rev]; [constructor|].
  apply FOP_app; [exact IH|constructor; [constructor|constructor]|].
  intros x y Hx [<-|[]]. apply Hs. rewrite Forall_forall in Fa. apply Fa. apply in_rev. exact Hx.
Qed.

Lemma SSorted_NoDup : forall l, StronglySorted lt l -> NoDup l.
Proof.
  induction 1 as [|a l S IH F]; constructor; [|exact IH].
  intros Hin. rewrite Forall_forall in F. specialize (F a Hin). lia.
Qed.

(* ---------------------------------------------------------------- orbits of subsets *)

Lemma sub_equiv_sym : forall n A S T, sub_equiv n A S T -> sub_equiv n A T S.
Proof.
  intros n A S T [a [Ha H]]. exists (inv a). split; [apply autP_inv; exact Ha|].
  intros j Hj. pose proof (autP_perm _ _ _ Ha) as Hp.
  rewrite (H (app (inv a) j)) by (apply (inv_lt n a); assumption).
  rewrite (app_inv_r n) by assumption. reflexivity.
Qed.

Lemma sub_equiv_length : forall n A S T, sub_equiv n A S T ->
  NoDup S -> NoDup T -> (forall v, In v S -> v < n) -> (forall v, In v T -> v < n) ->
  length S = length T.
Proof.
  intros n A S T [a [Ha H]] NS NT LS LT. pose proof (autP_perm _ _ _ Ha) as Hp.
  rewrite <- (map_length (app a) S). apply Permutation_length. apply NoDup_Permutation.
  - apply (map_app_NoDup n); assumption.
  - exact NT.
  - intros t. rewrite in_map_iff. split.
    + intros [j [<- Hj]]. apply H; [apply LS; exact Hj|exact Hj].
    + intros Ht. exists (app (inv a) t). specialize (LT t Ht).
      split; [apply (app_inv_r n); assumption|].
      apply H; [apply (inv_lt n a); assumption|]. rewrite (app_inv_r n) by assumption. exact Ht.
Qed.

Lemma bits_single_length : forall r, length (bits_of (N.shiftl 1 (N.of_nat r))) = 1.
Proof.
  intros r. change 1 with (length [r]). apply Permutation_length. apply NoDup_Permutation.
  - apply bits_of_NoDup.
  - constructor; [intros []|constructor].
  - intros j. rewrite bits_of_single. cbn. split; [intros ->; auto|intros [<-|[]]; reflexivity].
Qed.

(* ---------------------------------------------------------------- minimum of the degrees *)

Lemma fold_min_spec : forall l a, (fold_left Z.min l a <= a)%Z /\
  (forall x, In x l -> (fold_left Z.min l a <= x)%Z) /\ In (fold_left Z.min l a) (a :: l).
Proof.
  intros l. induction l as [|b l IH]; intros a; cbn [fold_left].
  - split; [lia|]. split; [intros x []|left; reflexivity].
  - destruct (IH (Z.min a b)) as (H1 & H2 & H3). split; [lia|]. split.
    + intros x [<-|Hx]; [lia|apply H2; exact Hx].
    + destruct H3 as [H3|H3]; [|right; right; exact H3].
      destruct (Z.min_spec a b) as [[_ E]|[_ E]]; [left|right; left]; rewrite <- H3; lia.
Qed.

Lemma filter_seq_bound : forall (f : nat -> bool) n v, v < n -> f v = false ->
  length (filter f (seq 0 n)) <= n - 1.
Proof.
  intros f n v Hv Fv. replace n with (v + (1 + (n - v - 1))) at 1 by lia.
  rewrite seq_app, seq_app, !filter_app, !app_length. cbn [plus seq filter]. rewrite Fv. cbn [length].
  pose proof (filter_length_le' f (seq 0 v)) as H1.
  pose proof (filter_length_le' f (seq (v + 1) (n - v - 1))) as H2.
  rewrite seq_length in H1, H2. lia.
Qed.

Lemma zdeg_irr_bound : forall n A v, v < n -> A v v = false -> (zdeg n A v <= Z.of_nat n - 1)%Z.
Proof.
  intros n A v Hv Irr. rewrite zdeg_count.
  pose proof (filter_seq_bound (fun u => A u v) n v Hv Irr). lia.
Qed.

(* ---------------------------------------------------------------- orbit singletons *)

Lemma orbit_singletons_roots : forall orb i,
  orbit_singletons i orb = map (fun r => N.shiftl 1 (N.of_nat r)) (roots_from i orb).
Proof.
  intros orb. induction orb as [|v orb IH]; intros i; cbn [orbit_singletons roots_from]; [reflexivity|].
  destruct (v <? 0)%Z; cbn [map]; rewrite IH; reflexivity.
Qed.

(* ---------------------------------------------------------------- addAugmentations *)

Section Augs.
Variable canon : nat -> Z -> list (list nat) -> bool -> N -> cache.
Variable ksub_reps : nat -> nat -> list (list nat) -> list N.
Variable NN : nat.
Hypothesis HC : canon_spec canon ksub_reps NN.

Definition noneq (g : vgraph) (x y : N) : Prop :=
  ~ sub_equiv (nv_of g) (vadj g) (bits_of x) (bits_of y).

Theorem add_augs_spec : forall g c, wfv g -> 1 <= nv_of g <= NN -> cache_good canon g c ->
  exists masks c', add_augs canon ksub_reps g c 0%N = Some (masks, c') /\
    (forall x, In x masks -> forall v, In v (bits_of x) -> v < nv_of g) /\
    (forall S, NoDup S -> (forall v, In v S -> v < nv_of g) ->
       (forall u, u < nv_of g -> (Z.of_nat (length S) <= zdeg (nv_of g) (vadj g) u + 1)%Z) ->
       exists x, In x masks /\ sub_equiv (nv_of g) (vadj g) S (bits_of x)) /\
    ForallOrdPairs (noneq g) masks.
Proof.
  intros g c W HN CG.
  destruct (answer_ok canon ksub_reps NN HC g W HN) as (c0 & p0 & E0 & OK & P0 & Hp0).
  (* the cache used *)
  assert (CA : exists c', (match CPerm c with None => get_aut canon g false 0%N | Some _ => Some c end) = Some c' /\
                 CGens c' = CGens c0 /\ orb_exact g (COrb c')).
  { destruct CG as [PN|[c1 [E1 [G1 O1]]]].
    - rewrite PN. exists c0. split; [exact E0|]. split; [reflexivity|apply (ok_orb _ _ _ _ OK)].
    - destruct (CPerm c) eqn:PC.
      + exists c. split; [reflexivity|]. unfold answer in *. rewrite E0 in E1. inversion E1; subst c1. auto.
      + exists c0. split; [exact E0|]. split; [reflexivity|apply (ok_orb _ _ _ _ OK)]. }
  destruct CA as (c' & CE & CGE & (OL & OW & OS)).
  destruct g as [[[n ne] d] e]. cbn [nv_of vadj] in *.
  set (A := eadj e) in *.
  assert (Hd : forall i, i < n -> nth_error d i = Some (zdeg n A i)).
  { intros i Hi. exact (wfv_deg (n, ne, d, e) i W Hi). }
  unfold add_augs.
  destruct d as [|d0 ds]; [destruct W as [W _]; cbn in W; lia|].
  rewrite CE.
  set (minDeg := fold_left Z.min ds d0).
  destruct (fold_min_spec ds d0) as (M1 & M2 & M3). fold minDeg in M1, M2, M3.
  assert (MLE : forall u, u < n -> (minDeg <= zdeg n A u)%Z).
  { intros u Hu. specialize (Hd u Hu). destruct u as [|u]; cbn [nth_error] in Hd.
    - inversion Hd. lia.
    - apply M2. eapply nth_error_In; eauto. }
  assert (MEX : exists u0, u0 < n /\ minDeg = zdeg n A u0).
  { destruct (In_nth _ _ 0%Z M3) as [u0 [Hu0 Eu0]].
    assert (Ld : length (d0 :: ds) = n) by (destruct W as [W _]; exact W).
    exists u0. split; [lia|]. specialize (Hd u0 ltac:(lia)).
    rewrite (nth_error_nth' _ 0%Z Hu0) in Hd. inversion Hd. congruence. }
  destruct MEX as (u0 & Hu0 & EM).
  assert (MB : (0 <= minDeg <= Z.of_nat n - 1)%Z).
  { rewrite EM. split; [apply zdeg_bounds|]. apply zdeg_irr_bound; [exact Hu0|apply eadj_irrefl]. }
  exists (aug_masks ksub_reps n (minDeg + 1)%Z c'), c'. split; [reflexivity|].
  unfold aug_masks. rewrite orbit_singletons_roots. fold (roots (COrb c')).
  set (sing := map (fun r => N.shiftl 1 (N.of_nat r)) (roots (COrb c'))).
  set (ks := seq 2 (Z.to_nat (minDeg + 1) - 1)).
  set (ksubs := flat_map (fun k => ksub_reps n k (CGens c')) ks).
  assert (KS : forall k, In k ks <-> 2 <= k /\ (Z.of_nat k <= minDeg + 1)%Z).
  { intros k. unfold ks. rewrite in_seq. lia. }
  assert (TR : forall k, In k ks -> transversal n A k (ksub_reps n k (CGens c'))).
  { intros k Hk. apply KS in Hk. rewrite CGE. apply (ok_ksub _ _ _ _ OK). cbn [nv_of]. lia. }
  destruct (roots_spec (COrb c') OW) as [RS RX].
  assert (RLT : forall r, In r (roots (COrb c')) -> r < n).
  { intros r Hr. apply roots_iff in Hr. apply reaches_dom in Hr. lia. }
  (* sizes *)
  assert (SZ1 : forall x, In x sing -> length (bits_of x) = 1).
  { intros x Hx. apply in_map_iff in Hx. destruct Hx as [r [<- _]]. apply bits_single_length. }
  assert (SZK : forall x, In x ksubs -> exists k, 2 <= k /\ ksubset n k (bits_of x)).
  { intros x Hx. apply in_flat_map in Hx. destruct Hx as [k [Hk Hx]].
    exists k. split; [apply KS in Hk; lia|]. apply (proj1 (TR k Hk)). exact Hx. }
  assert (VAL : forall x, In x ([0%N] ++ sing ++ ksubs) -> forall v, In v (bits_of x) -> v < n).
  { intros x Hx v Hv. apply in_app_or in Hx. destruct Hx as [[<-|[]]|Hx]; [destruct Hv|].
    apply in_app_or in Hx. destruct Hx as [Hx|Hx].
    - apply in_map_iff in Hx. destruct Hx as [r [<- Hr]]. apply bits_of_single in Hv. subst v. apply RLT. exact Hr.
    - destruct (SZK x Hx) as [k [_ (_ & _ & LT)]]. apply LT. exact Hv. }
  split; [exact VAL|].
  assert (DIFF : forall x y, In x ([0%N] ++ sing ++ ksubs) -> In y ([0%N] ++ sing ++ ksubs) ->
            length (bits_of x) <> length (bits_of y) -> noneq (n, ne, d0 :: ds, e) x y).
  { intros x y Hx Hy NE Q. apply NE. cbn [nv_of vadj] in Q.
    apply (sub_equiv_length n A _ _ Q); try apply bits_of_NoDup; apply VAL; assumption. }
  split.
  - (* completeness *)
    intros S ND LT SZ.
    destruct S as [|v S'].
    { exists 0%N. split; [left; reflexivity|]. exists (idp n). split; [apply autP_id|].
      intros j Hj. rewrite app_idp. reflexivity. }
    destruct S' as [|v2 S''].
    { (* a singleton: the root of its orbit *)
      assert (Hv : v < n) by (apply LT; left; reflexivity).
      destruct (RX v ltac:(lia)) as [r [Hr [SM _]]].
      exists (N.shiftl 1 (N.of_nat r)). split.
      - apply in_or_app. right. apply in_or_app. left. apply in_map_iff. exists r. split; [reflexivity|exact Hr].
      - apply (OS v r Hv (RLT r Hr)) in SM. destruct SM as [a [Ha Ea]].
        exists a. split; [exact Ha|]. intros j Hj. rewrite bits_of_single. cbn [In].
        split.
        + intros [<-|[]]. exact Ea.
        + intros E. left. apply (app_inj n a); try assumption; [apply Ha|congruence]. }
    (* at least two elements *)
    set (S := v :: v2 :: S'') in *. set (k := length S).
    assert (Hk : In k ks).
    { apply KS. split; [unfold k, S; cbn [length]; lia|]. specialize (SZ u0 Hu0). fold k in SZ. lia. }
    destruct (TR k Hk) as (_ & T2 & _).
    destruct (T2 S) as [x [Hx Q]]; [split; [exact ND|split; [reflexivity|exact LT]]|].
    exists x. split; [|exact Q]. apply in_or_app. right. apply in_or_app. right. apply in_flat_map. exists k. auto.
  - (* pairwise inequivalent *)
    apply FOP_app.
    + constructor; [constructor|constructor].
    + apply FOP_app.
      * (* singletons: distinct roots *)
        unfold sing. apply FOP_map. eapply FOP_impl; [|apply FOP_NoDup, SSorted_NoDup, RS].
        intros r1 r2 H1 H2 NE [a [Ha Q]]. cbn [nv_of vadj] in Ha, Q. apply NE.
        assert (E : app a r1 = r2).
        { apply bits_of_single. apply Q; [apply RLT; exact H1|]. apply bits_of_single. reflexivity. }
        assert (SM : same (COrb c') r1 r2).
        { apply OS; [apply RLT; exact H1|apply RLT; exact H2|]. exists a. auto. }
        destruct SM as [r [Q1 Q2]]. apply roots_iff in H1, H2.
        rewrite (reaches_fun _ _ _ _ H1 Q1), (reaches_fun _ _ _ _ H2 Q2). reflexivity.
      * (* k-subsets *)
        unfold ksubs. apply FOP_flat_map.
        -- intros k Hk. exact (proj2 (proj2 (TR k Hk))).
        -- eapply FOP_impl; [|apply FOP_NoDup, seq_NoDup].
           intros k1 k2 H1 H2 NE x y Hx Hy. apply DIFF.
           ++ apply in_or_app. right. apply in_or_app. right. apply in_flat_map. exists k1. auto.
           ++ apply in_or_app. right. apply in_or_app. right. apply in_flat_map. exists k2. auto.
           ++ destruct (proj1 (TR k1 H1) x Hx) as (_ & L1 & _).
              destruct (proj1 (TR k2 H2) y Hy) as (_ & L2 & _). cbv beta in NE. lia.
      * intros x y Hx Hy. apply DIFF.
        -- apply in_or_app. right. apply in_or_app. left. exact Hx.
        -- apply in_or_app. right. apply in_or_app. right. exact Hy.
        -- rewrite (SZ1 x Hx). destruct (SZK y Hy) as [k [Hk (_ & L & _)]]. lia.
    + intros x y [<-|[]] Hy. apply DIFF; [left; reflexivity|apply in_or_app; right; exact Hy|].
      rewrite bits_of_0. cbn [length]. apply in_app_or in Hy. destruct Hy as [Hy|Hy].
      * rewrite (SZ1 y Hy). lia.
      * destruct (SZK y Hy) as [k [Hk (_ & L & _)]]. lia.
Qed.

(* the cache that addAugmentations leaves is irrelevant for the recursive presentation *)
End Augs.
