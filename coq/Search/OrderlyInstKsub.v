(* C03 (orderly generation) — the parameters of the k-subset orbit loop instantiated with the
   proved models of itertools.CombinationsColex (C15), comb.Rank (C16) and ints.Sort (C17)
   (definitions: Search/OrderlyInstKsubModel.v).  For n <= NMAX = 63 (masks are machine words:
   n < 64 is the standing assumption of the search model) and 2 <= k <= n:

   ksub_real_params_ok     the drained iterator model returns (no panic, the fuel C(n,k)+1 is
                           enough) exactly the ascending k-subsets of 0..n-1, each once; Rank of the
                           i-th is i and Rank returns on every ascending k-subset of 0..n-1 (its
                           overflow guards are not hit); Sort returns on every list and sorts
                           duplicate-free lists; hence no call made by the loop fails
   ksub_real_transversal   for all permutations gens of 0..n-1 the loop returns (no panic anywhere)
                           one mask per orbit of the generated group on the k-subsets
   ksub_real_ok, toy_real_canon_spec   hence [ksub_ok] and, with the brute-force labelling, [canon_spec]

   The bound 63 is sharp for the guard of Rank: C(63,31) * 31 >= 2^64, so Coeff(63, 31) panics
   (Props/C16.v, C16_coeff_nonvacuous) and Rank panics on the 32-subsets of 0..63 that hold 63 at
   position 30.  The facts "C(v,j) * min(j, v-j) < 2^64 and C(v,j) <= MaxInt for v <= 62" and
   "C(63,k) <= MaxInt" are checked by computation on [fast_binom] (= binomz, Comb/Binom.v). *)
From Coq Require Import List NArith ZArith Arith Bool Lia Permutation Sorted.
From Mamba Require Import Disjoint.Model Disjoint.Proofs Disjoint.Views.
From Mamba Require Import Search.Model Search.ShardGraph.
From Mamba Require Import Canon.AutBase Canon.Aut Canon.Group.
From Mamba Require Import Search.OrderlyBase Search.OrderlyGraph Search.OrderlySpec Search.OrderlyAugs.
From Mamba Require Import Search.OrderlyToyModel Search.OrderlyToy Search.OrderlyKsubModel Search.OrderlyKsub.
From Mamba Require Import Search.OrderlyInstKsubModel.
From Mamba Require Gen.CombTables Comb.Model Comb.Spec Comb.Arith64 Comb.Binom Comb.Tables Comb.CoeffProofs.
From Mamba Require Comb.RankProofs Comb.UnrankProofs Comb.ColexEnum Comb.ColexIter.
From Mamba Require Iter.Model Iter.Enum Iter.Comb Iter.Colex.
From Mamba Require Sortints.Base Sortints.Spec IntSort.Model IntSort.Quick.
Import ListNotations.
Local Open Scope nat_scope.

Definition NMAX : nat := 63.

(* ================================================================ the Z side: iterator and Rank *)

Module ZSide.
Import Gen.CombTables Comb.Model Comb.Spec Comb.Arith64 Comb.Binom Comb.Tables Comb.CoeffProofs.
Import Comb.RankProofs Comb.UnrankProofs Comb.ColexEnum Comb.ColexIter.
Local Open Scope Z_scope.

(* ---------------------------------------------------------------- the guards of Coeff below 63 *)

(* stated on the unfolded term so that the kernel checks it with the VM only *)
Lemma fits_all_true :
  forallb (fun v => forallb (fun j => (fast_binom v j * Z.min j (v - j) <? two64) && (fast_binom v j <=? maxInt))
                            (zrange 1 63)) (zrange 0 63) = true.
Proof. vm_compute. reflexivity. Qed.

Lemma top_row_ok_true : forallb (fun k => fast_binom 63 k <=? maxInt) (zrange 0 64) = true.
Proof. vm_compute. reflexivity. Qed.

Lemma maxInt_nonneg : 0 <= maxInt.
Proof. rewrite maxInt_val. unfold two63. lia. Qed.

(* every term of a rank sum over elements <= 62 passes both guards of Coeff *)
Lemma fits_term v j : 0 <= v <= 62 -> 1 <= j ->
  binomz v j * Z.min j (v - j) < two64 /\ binomz v j <= maxInt.
Proof.
  intros Hv Hj. destruct (Z.le_gt_cases j 63) as [J|J].
  - pose proof fits_all_true as F. rewrite forallb_forall in F.
    specialize (F v (zrange_In 0 63 v ltac:(lia))). cbv beta in F. rewrite forallb_forall in F.
    specialize (F j (zrange_In 1 63 j ltac:(lia))). cbv beta in F. rewrite !fast_binom_correct in F.
    apply andb_prop in F. destruct F as [F1 F2]. split; [apply Z.ltb_lt; exact F1|apply Z.leb_le; exact F2].
  - rewrite binomz_gt by lia. pose proof maxInt_nonneg. unfold two64. lia.
Qed.

Lemma binomz_le_maxInt n k : 0 <= n <= 63 -> binomz n k <= maxInt.
Proof.
  intros Hn. destruct (Z.lt_ge_cases k 0) as [K|K].
  { rewrite binomz_neg by lia. apply maxInt_nonneg. }
  destruct (Z.le_gt_cases k 63) as [J|J].
  - pose proof top_row_ok_true as F. rewrite forallb_forall in F.
    specialize (F k (zrange_In 0 64 k ltac:(lia))). cbv beta in F. rewrite fast_binom_correct in F.
    apply Z.leb_le in F. pose proof (binomz_mono n 63 k ltac:(lia)). lia.
  - rewrite binomz_gt by lia. apply maxInt_nonneg.
Qed.

(* ---------------------------------------------------------------- Rank returns under the real guards *)

(* the guards as the code has them: the step-by-step product of CoeffUint64 fits a uint64 and
   the coefficient fits an int ([rank_fits] of Comb/RankProofs.v asks the product to fit an int,
   which fails for C(62,31) * 31 although Coeff(62,31) returns) *)
Fixpoint rank_fits64 (i : Z) (c : list Z) : Prop :=
  match c with
  | [] => True
  | v :: t => binomz v (i + 1) * Z.min (i + 1) (v - (i + 1)) < two64 /\ binomz v (i + 1) <= maxInt /\
              rank_fits64 (i + 1) t
  end.

Lemma coeff_complete64 n k : 0 <= n < two63 -> 0 <= k < two63 ->
  binomz n k * Z.min k (n - k) < two64 -> binomz n k <= maxInt -> coeff n k = Ret (binomz n k).
Proof.
  intros Hn Hk H1 H2. unfold coeff. pose proof maxInt_val as MI. pose proof (binomz_nonneg n k) as NN.
  destruct (Z.ltb_spec n 0) as [H0|_]; [lia|]. destruct (Z.ltb_spec k 0) as [H0|_]; [lia|].
  assert (T : two63 < two64) by reflexivity.
  rewrite (u64_id n), (u64_id k) by lia.
  rewrite coeff_u64_complete by (try assumption; lia). cbn [bind].
  rewrite Z.gtb_ltb. destruct (Z.ltb_spec maxInt (binomz n k)) as [Hb|Hb]; [lia|].
  rewrite i64_id; [reflexivity|]. unfold two63 in *. lia.
Qed.

Lemma rank_go_complete64 : forall c i acc,
  Forall (fun v => 0 <= v < two63) c -> 0 <= i -> i + Z.of_nat (length c) < two63 -> 0 <= acc ->
  rank_fits64 i c -> acc + crank_from i c <= maxInt -> rank_go i c acc = Ret (acc + crank_from i c).
Proof.
  pose proof maxInt_val as MI.
  induction c as [|v t IH]; intros i acc Hc Hi Hlen Hacc F B.
  - cbn [rank_go crank_from]. f_equal. lia.
  - cbn [rank_go crank_from rank_fits64] in *. cbn [length] in Hlen. rewrite Nat2Z.inj_succ in Hlen.
    inversion Hc as [|? ? Hv Ht]; subst. destruct F as (F1 & F2 & F3).
    pose proof (crank_from_nonneg t (i + 1)) as NN. pose proof (binomz_nonneg v (i + 1)) as NB.
    rewrite coeff_complete64 by (try assumption; unfold two63 in *; lia). cbn [bind].
    rewrite add_ovf_ok by (unfold two63 in *; lia).
    rewrite IH; try assumption; try lia. f_equal. lia.
Qed.

Theorem rank_complete64 c : Forall (fun v => 0 <= v < two63) c -> Z.of_nat (length c) < two63 ->
  rank_fits64 0 c -> crank c <= maxInt -> rank c = Ret (crank c).
Proof.
  intros Hc Hl F B. unfold rank, crank in *.
  rewrite rank_go_complete64; try assumption; try lia. rewrite Z.add_0_l. reflexivity.
Qed.

Lemma incr_bounds N : forall c lo, incr_from lo c -> top lo c <= N -> Forall (fun v => lo <= v < N) c.
Proof.
  induction c as [|v t IH]; intros lo H T; [constructor|].
  cbn [incr_from top] in *. destruct H as [H1 H2]. pose proof (top_ge t (v + 1) H2) as G.
  constructor; [lia|]. eapply Forall_impl; [|apply (IH (v + 1) H2 T)]. cbn beta. intros a Ha. lia.
Qed.

Lemma fits64_incr : forall c lo i, 0 <= lo -> 0 <= i -> incr_from lo c -> top lo c <= 63 -> rank_fits64 i c.
Proof.
  induction c as [|v t IH]; intros lo i Hlo Hi H T; cbn [rank_fits64]; [exact I|].
  cbn [incr_from top] in *. destruct H as [H1 H2]. pose proof (top_ge t (v + 1) H2) as G.
  destruct (fits_term v (i + 1) ltac:(lia) ltac:(lia)) as [A B].
  split; [exact A|]. split; [exact B|]. apply (IH (v + 1)); try assumption; lia.
Qed.

(* Rank returns the colex rank on every k-subset of 0..n-1, n <= 63 *)
Lemma rank_below n k x : 0 <= n <= 63 -> below n k x -> rank x = Ret (crank x) /\ 0 <= crank x < binomz n (Z.of_nat k).
Proof.
  intros Hn B. pose proof (below_crank n k x B) as C. split; [|exact C].
  destruct B as (L & Sx & T). unfold subset_nat in Sx.
  pose proof (top_ge_len x 0 Sx) as LL.
  apply rank_complete64.
  - eapply Forall_impl; [|apply (incr_bounds n x 0 Sx T)]. cbn beta. intros a Ha. unfold two63. lia.
  - unfold two63. lia.
  - apply (fits64_incr x 0 0); try assumption; lia.
  - pose proof (binomz_le_maxInt n (Z.of_nat k) Hn). lia.
Qed.

(* ---------------------------------------------------------------- the drained iterator *)

Theorem colex_rank_listing (n k : nat) : (n <= 63)%nat -> (k <= n)%nat ->
  exists l e,
    Iter.Enum.drain Iter.Model.colex_next Iter.Model.colex_value
      (S (Z.to_nat (fast_binom (Z.of_nat n) (Z.of_nat k)))) (Iter.Model.colex_init (Z.of_nat n) k) = Some (l, e) /\
    NoDup l /\ (forall x, In x l <-> below (Z.of_nat n) k x) /\
    forall i, (i < length l)%nat -> rank (nth i l []) = Ret (Z.of_nat i).
Proof.
  intros Hn Kle.
  destruct (Iter.Colex.colex_enumerates_exact (Z.of_nat n) k) as (l & e & D & S & ND & M & _).
  assert (M' : forall x, In x l <-> below (Z.of_nat n) k x).
  { intros x. rewrite M. apply in_comb_below. lia. }
  assert (S' : StronglySorted colex_lt l).
  { apply (sorted_transfer (Z.of_nat n) k); [lia| |exact S]. intros x Hx. apply M. exact Hx. }
  pose proof (binomz_le_maxInt (Z.of_nat n) (Z.of_nat k) ltac:(lia)) as BM.
  pose proof maxInt_val as MI.
  destruct (colex_listing_is_unrank (Z.of_nat n) k l ltac:(unfold two63 in *; lia) ltac:(lia) S' M') as [Len U].
  exists l, e. rewrite fast_binom_correct. rewrite <- Len, Nat2Z.id.
  split; [exact D|]. split; [exact ND|]. split; [exact M'|].
  intros i Hi. specialize (U i Hi).
  assert (B : below (Z.of_nat n) k (nth i l [])) by (apply M', nth_In; exact Hi).
  destruct (rank_below (Z.of_nat n) k _ ltac:(lia) B) as [R C]. rewrite R. f_equal.
  apply (rank_unrank (Z.of_nat i) (Z.of_nat k) (nth i l []) (crank (nth i l []))); try lia.
  - unfold two63 in *. lia.
  - intros K0. assert (k = 0)%nat by lia. subst k. change (Z.of_nat 0) with 0 in Len.
    rewrite binomz_0_r in Len by lia. lia.
  - exact U.
  - exact R.
Qed.

End ZSide.

(* ================================================================ conversions between nat and Z lists *)

Lemma of_to_nat_list : forall x : list Z, Forall (fun v => (0 <= v)%Z) x -> map Z.of_nat (map Z.to_nat x) = x.
Proof.
  induction 1 as [|a x Ha Hx IH]; cbn [map]; [reflexivity|]. rewrite Z2Nat.id by exact Ha. f_equal. exact IH.
Qed.

Lemma to_of_nat_list : forall c : list nat, map Z.to_nat (map Z.of_nat c) = c.
Proof. induction c as [|a c IH]; cbn [map]; [reflexivity|]. rewrite Nat2Z.id. f_equal. exact IH. Qed.

Lemma nat_list_some : forall x, Forall (fun v => (0 <= v)%Z) x -> nat_list x = Some (map Z.to_nat x).
Proof.
  intros x H. unfold nat_list. replace (forallb (fun v : Z => (0 <=? v)%Z) x) with true; [reflexivity|].
  symmetry. apply forallb_forall. rewrite Forall_forall in H. intros v Hv. apply Z.leb_le. apply H. exact Hv.
Qed.

Lemma nat_lists_some : forall l, (forall x, In x l -> Forall (fun v => (0 <= v)%Z) x) ->
  nat_lists l = Some (map (map Z.to_nat) l).
Proof.
  induction l as [|x l IH]; intros H; cbn [nat_lists map]; [reflexivity|].
  rewrite nat_list_some by (apply H; left; reflexivity).
  rewrite IH by (intros y Hy; apply H; right; exact Hy). reflexivity.
Qed.

Lemma NoDup_map_inj_in : forall (A B : Type) (f : A -> B) (l : list A),
  (forall x y, In x l -> In y l -> f x = f y -> x = y) -> NoDup l -> NoDup (map f l).
Proof.
  intros A B f l. induction l as [|a l IH]; intros Inj ND; cbn [map]; [constructor|].
  inversion ND as [|? ? Hnin ND']; subst. constructor.
  - intros Hin. apply in_map_iff in Hin. destruct Hin as [y [E Hy]]. apply Hnin.
    rewrite <- (Inj y a (or_intror Hy) (or_introl eq_refl) E). exact Hy.
  - apply IH; [|exact ND']. intros x y Hx Hy. apply Inj; right; assumption.
Qed.

(* the k-subsets of C16 ([below]: increasing Z lists) are the ascending lists of [sorted_ksub] *)
Lemma incr_sorted (n : nat) : forall (c : list nat) (lo : nat),
  (Comb.Spec.incr_from (Z.of_nat lo) (map Z.of_nat c) /\
   (Comb.RankProofs.top (Z.of_nat lo) (map Z.of_nat c) <= Z.of_nat n)%Z)
  <-> (StronglySorted lt c /\ (forall v, In v c -> lo <= v < n) /\ lo <= n).
Proof.
  induction c as [|v t IH]; intros lo; cbn [map Comb.Spec.incr_from Comb.RankProofs.top].
  - split.
    + intros [_ H]. split; [constructor|]. split; [intros v []|lia].
    + intros (_ & _ & H). split; [exact I|lia].
  - replace (Z.of_nat v + 1)%Z with (Z.of_nat (S v)) by lia. split.
    + intros [[H1 H2] H3]. destruct (proj1 (IH (S v)) (conj H2 H3)) as (SS & B & L).
      split; [constructor; [exact SS|apply Forall_forall; intros w Hw; specialize (B w Hw); lia]|].
      split; [|lia]. intros w [<-|Hw]; [lia|specialize (B w Hw); lia].
    + intros (SS & B & L). inversion SS as [|? ? St Fa]; subst. rewrite Forall_forall in Fa.
      pose proof (B v (or_introl eq_refl)) as Bv.
      assert (P : StronglySorted lt t /\ (forall w, In w t -> S v <= w < n) /\ S v <= n).
      { split; [exact St|]. split; [|lia]. intros w Hw. specialize (Fa w Hw).
        specialize (B w (or_intror Hw)). lia. }
      apply (IH (S v)) in P. destruct P as [P1 P2]. split; [split; [lia|exact P1]|exact P2].
Qed.

Lemma below_sorted_ksub n k c : Comb.ColexEnum.below (Z.of_nat n) k (map Z.of_nat c) <-> sorted_ksub n k c.
Proof.
  unfold Comb.ColexEnum.below, Comb.Spec.subset_nat, sorted_ksub. rewrite map_length.
  pose proof (incr_sorted n c 0) as H. change (Z.of_nat 0) with 0%Z in H. split.
  - intros (L & A & B). destruct (proj1 H (conj A B)) as (S1 & S2 & _).
    split; [exact S1|]. split; [exact L|]. intros v Hv. apply S2. exact Hv.
  - intros (S1 & L & B). destruct (proj2 H) as [A1 A2]; [|auto].
    split; [exact S1|]. split; [|lia]. intros v Hv. specialize (B v Hv). lia.
Qed.

(* ================================================================ ints.Sort *)

Lemma sort_real_spec : forall l, sort_real l = Some (map Z.to_nat (Sortints.Base.isort (map Z.of_nat l))).
Proof.
  intros l. unfold sort_real. rewrite IntSort.Quick.sort_ok. apply nat_list_some.
  apply Forall_forall. intros v Hv. apply (proj1 (Sortints.Spec.isort_In _ _)) in Hv. apply in_map_iff in Hv.
  destruct Hv as [w [<- _]]. lia.
Qed.

(* Sort never fails, on any list *)
Lemma sort_real_tot : forall l, sort_real l = Some (sort_tot l).
Proof. intros l. unfold sort_tot. rewrite sort_real_spec. reflexivity. Qed.

Lemma le_sorted_nodup_lt : forall s : list Z, StronglySorted Z.le s -> NoDup s -> Forall (fun v => (0 <= v)%Z) s ->
  StronglySorted lt (map Z.to_nat s).
Proof.
  induction 1 as [|a s SS IH Fa]; intros ND NN; cbn [map]; [constructor|].
  inversion ND as [|? ? Hnin ND']; subst. inversion NN as [|? ? Ha NN']; subst.
  constructor; [apply IH; assumption|]. apply Forall_forall. intros w Hw. apply in_map_iff in Hw.
  destruct Hw as [z [<- Hz]]. rewrite Forall_forall in Fa, NN'. specialize (Fa z Hz). specialize (NN' z Hz).
  assert (a <> z) by (intros ->; contradiction). lia.
Qed.

Lemma sort_tot_spec : forall l, NoDup l -> StronglySorted lt (sort_tot l) /\ forall v, In v (sort_tot l) <-> In v l.
Proof.
  intros l ND. unfold sort_tot. rewrite sort_real_spec.
  set (s := Sortints.Base.isort (map Z.of_nat l)).
  assert (MEM : forall z, In z s <-> In z (map Z.of_nat l)) by (intros z; apply Sortints.Spec.isort_In).
  assert (NN : Forall (fun v => (0 <= v)%Z) s).
  { apply Forall_forall. intros z Hz. apply MEM in Hz. apply in_map_iff in Hz. destruct Hz as [w [<- _]]. lia. }
  split.
  - apply le_sorted_nodup_lt; [apply Sortints.Spec.isort_Inc| |exact NN].
    apply (Permutation_NoDup (Sortints.Spec.isort_perm (map Z.of_nat l))).
    apply NoDup_map_inj_in; [|exact ND]. intros x y _ _ E. lia.
  - intros v. rewrite in_map_iff. split.
    + intros [z [<- Hz]]. apply MEM in Hz. apply in_map_iff in Hz. destruct Hz as [w [<- Hw]].
      rewrite Nat2Z.id. exact Hw.
    + intros Hv. exists (Z.of_nat v). split; [apply Nat2Z.id|]. apply MEM. apply in_map. exact Hv.
Qed.

(* ================================================================ the three parameters together *)

Lemma cs_real_spec n k : n <= NMAX -> k <= n ->
  exists cs, cs_real n k = Some cs /\ (forall c, In c cs <-> sorted_ksub n k c) /\ NoDup cs /\
             (forall i, i < length cs -> rk_real (nth i cs []) = Some i).
Proof.
  intros Hn Hk. destruct (ZSide.colex_rank_listing n k Hn Hk) as (l & e & D & ND & M & R).
  assert (NNg : forall x, In x l -> Forall (fun v => (0 <= v)%Z) x).
  { intros x Hx. apply M in Hx. destruct Hx as (_ & Sx & T).
    eapply Forall_impl; [|apply (ZSide.incr_bounds _ x 0%Z Sx T)]. cbn beta. intros a Ha. lia. }
  exists (map (map Z.to_nat) l). split; [|split; [|split]].
  - unfold cs_real, cs_fuel. rewrite D. apply nat_lists_some. exact NNg.
  - intros c. rewrite in_map_iff. split.
    + intros [x [<- Hx]]. apply below_sorted_ksub. rewrite of_to_nat_list by (apply NNg; exact Hx).
      apply M. exact Hx.
    + intros Hc. exists (map Z.of_nat c). split; [apply to_of_nat_list|]. apply M.
      apply below_sorted_ksub. exact Hc.
  - apply NoDup_map_inj_in; [|exact ND]. intros x y Hx Hy E.
    rewrite <- (of_to_nat_list x (NNg x Hx)), <- (of_to_nat_list y (NNg y Hy)), E. reflexivity.
  - intros i Hi. rewrite map_length in Hi.
    replace (nth i (map (map Z.to_nat) l) []) with (map Z.to_nat (nth i l []))
      by (symmetry; apply (map_nth (map Z.to_nat) l [] i)).
    unfold rk_real. rewrite of_to_nat_list by (apply NNg, nth_In; exact Hi). rewrite (R i Hi).
    destruct (Z.ltb_spec (Z.of_nat i) 0) as [H0|_]; [lia|]. rewrite Nat2Z.id. reflexivity.
Qed.

Lemma rk_tot_of_real c i : rk_real c = Some i -> rk_tot c = i.
Proof. intros H. unfold rk_tot. rewrite H. reflexivity. Qed.

(* 1. the instantiated parameters never fail on what the loop passes and meet Hcs / Hnd / Hrk / Hsort
      of Section LoopProof *)
Theorem ksub_real_params_ok : forall n k, n <= NMAX -> 2 <= k <= n ->
  exists cs, cs_real n k = Some cs /\
    (forall c, In c cs <-> sorted_ksub n k c) /\ NoDup cs /\
    (forall i, i < length cs -> rk_real (nth i cs []) = Some i /\ rk_tot (nth i cs []) = i) /\
    (forall c, sorted_ksub n k c -> exists i, rk_real c = Some i) /\
    (forall l, sort_real l = Some (sort_tot l)) /\
    (forall l, NoDup l -> StronglySorted lt (sort_tot l) /\ forall v, In v (sort_tot l) <-> In v l) /\
    (forall gens, Forall (is_perm n) gens -> calls_ok cs gens = true).
Proof.
  intros n k Hn Hk. destruct (cs_real_spec n k Hn ltac:(lia)) as (cs & E & Hcs & Hnd & Hrk).
  assert (RK : forall c, sorted_ksub n k c -> exists i, rk_real c = Some i).
  { intros c Hc. apply Hcs in Hc. destruct (In_nth cs c [] Hc) as [i [Hi Ei]]. exists i.
    rewrite <- Ei. apply Hrk. exact Hi. }
  exists cs. split; [exact E|]. split; [exact Hcs|]. split; [exact Hnd|].
  split; [intros i Hi; split; [|apply rk_tot_of_real]; apply Hrk; exact Hi|].
  split; [exact RK|]. split; [exact sort_real_tot|]. split; [exact sort_tot_spec|].
  intros gens GP. unfold calls_ok. apply forallb_forall. intros c Hc. apply forallb_forall. intros g Hg.
  unfold call_ok. rewrite sort_real_tot. rewrite Forall_forall in GP.
  destruct (image_ksub n k sort_tot sort_tot_spec g c (GP g Hg) (proj1 (Hcs c) Hc)) as [SK _].
  destruct (RK _ SK) as [i Ei]. rewrite Ei. reflexivity.
Qed.

(* 2. the loop with the real parameters: no panic anywhere, one mask per orbit *)
Theorem ksub_real_transversal : forall n k gens, n <= NMAX -> 2 <= k <= n -> Forall (is_perm n) gens ->
  exists R, ksub_real n k gens = Some R /\ transversal_gen n gens k R.
Proof.
  intros n k gens Hn Hk GP.
  destruct (ksub_real_params_ok n k Hn Hk) as (cs & E & Hcs & Hnd & Hrk & _ & _ & Hsort & CO).
  destruct (ksub_loop_transversal n k cs rk_tot sort_tot Hcs Hnd (fun i Hi => proj2 (Hrk i Hi)) Hsort gens GP)
    as [R [ER T]].
  exists R. split; [|exact T]. unfold ksub_real. rewrite E, (CO gens GP). exact ER.
Qed.

(* 3. hence [ksub_ok], and [canon_spec] for the brute-force labelling with this loop *)
Theorem ksub_real_ok : forall NN, NN <= NMAX -> ksub_ok ksub_real_fn NN.
Proof.
  intros NN HNN n k gens Hn Hk GP.
  destruct (ksub_real_transversal n k gens ltac:(lia) Hk GP) as [R [E T]].
  unfold ksub_real_fn. rewrite E. exact T.
Qed.

Theorem toy_real_canon_spec : forall NN, NN <= NMAX -> canon_spec toy_canon ksub_real_fn NN.
Proof.
  intros NN HNN. apply canon_spec_of_parts; [apply toy_label_ok| |apply ksub_real_ok; exact HNN].
  intros g c W HN E. destruct (toy_get_aut g W) as (nb & _ & GA & ADJ).
  unfold answer in E. rewrite GA in E. inversion E; subst c. clear E.
  constructor.
  - destruct (toy_perm_spec g nb ADJ) as (p & P & Hp & _). exists p. auto.
  - apply toy_orb_spec; assumption.
  - split.
    + intros s Hs. apply (toy_gens_spec g nb ADJ). exact Hs.
    + intros a Ha. apply gen_in. apply (toy_gens_spec g nb ADJ). exact Ha.
  - intros vb c' _ GA'. rewrite GA in GA'. inversion GA'. left. reflexivity.
Qed.

(* 4. non-vacuity: n = 4, k = 2, the group generated by (0 1) and (2 3); the 2-subsets in colex
      order are 01 02 12 03 13 23, the orbits {01}, {02,12,03,13}, {23}; the masks returned are
      those of 01, 12 (the root the union-find is left with) and 23 *)
Example ksub_real_example :
  cs_real 4 2 = Some [[0; 1]; [0; 2]; [1; 2]; [0; 3]; [1; 3]; [2; 3]] /\
  ksub_real 4 2 [[1; 0; 2; 3]; [0; 1; 3; 2]] = Some [3%N; 6%N; 12%N] /\
  ksub_real 4 2 [[1; 0; 2; 3]; [0; 1; 3; 2]] = Some (ksub_ref 4 2 [[1; 0; 2; 3]; [0; 1; 3; 2]]) /\
  ksub_real 5 3 [[1; 2; 0; 3; 4]; [0; 1; 2; 4; 3]] = Some [7%N; 14%N; 26%N] /\
  (* a generator that is not a permutation of 0..3: Rank([0,7]) = 21 is out of range for
     UnionBuffered, the panic is None and not a value *)
  ksub_real 4 2 [[1; 0; 2; 7]] = None.
Proof. vm_compute. repeat split. Qed.

Print Assumptions ksub_real_params_ok.
Print Assumptions ksub_real_transversal.
Print Assumptions ksub_real_ok.
Print Assumptions toy_real_canon_spec.
