(* C03 (orderly generation) — the theorems on the recursive presentation [spec] and on the
   model of GraphIterator.Next ([outputs]): relative to the specification [canon_spec] of the
   canonical labelling and of the k-subset representatives, the unsplit, unpruned search ends
   without panic and its output holds exactly one graph of every isomorphism class of simple
   graphs on n vertices.  Graphs of the statement: adjacency matrices of Canon/Iso.v
   ([matrix_of], [Iso.iso], [Iso.simple]). *)
From Coq Require Import List NArith ZArith Arith Bool Lia Permutation.
From Mamba Require Import Disjoint.Model Disjoint.Proofs.
From Mamba Require Import Search.Model Search.SaveModel Search.ShardModel Search.ShardGraph Search.ShardWf Search.Prune.
From Mamba Require Import Search.ShardTop.
From Mamba Require Import Canon.AutBase Canon.Aut Canon.Group.
From Mamba Require Canon.Perm Canon.Iso.
From Mamba Require Import Search.OrderlyBase Search.OrderlyGraph Search.OrderlySpec Search.OrderlyCanon.
From Mamba Require Import Search.OrderlyAugs Search.OrderlyLevels Search.OrderlyMcKay.
Import ListNotations.
Local Open Scope nat_scope.

(* ---------------------------------------------------------------- adjacency matrices *)

Definition matrix_of (g : vgraph) : Iso.graph :=
  map (fun u => map (fun v => vadj g u v) (seq 0 (nv_of g))) (seq 0 (nv_of g)).

Lemma matrix_of_length : forall g, length (matrix_of g) = nv_of g.
Proof. intros g. unfold matrix_of. rewrite map_length, seq_length. reflexivity. Qed.

Lemma matrix_of_wf : forall g, Iso.wf_graph (matrix_of g).
Proof.
  intros g r Hr. rewrite matrix_of_length. unfold matrix_of in Hr. apply in_map_iff in Hr.
  destruct Hr as [u [<- _]]. rewrite map_length, seq_length. reflexivity.
Qed.

Lemma matrix_of_adjb : forall g u v, u < nv_of g -> v < nv_of g ->
  Iso.adjb (matrix_of g) u v = vadj g u v.
Proof.
  intros g u v Hu Hv. unfold Iso.adjb, matrix_of.
  rewrite (Perm.nth_map_lt _ _ _ _ _ _ 0) by (rewrite seq_length; exact Hu).
  rewrite (Perm.nth_map_lt _ _ _ _ _ _ 0) by (rewrite seq_length; exact Hv).
  rewrite !seq_nth by assumption. reflexivity.
Qed.

Lemma is_perm_bridge : forall n p, Perm.is_perm n p = true <-> is_perm n p.
Proof.
  intros n p. rewrite Perm.is_perm_spec. unfold is_perm. rewrite Forall_forall. tauto.
Qed.

(* isomorphism of matrices = isomorphism of adjacency functions *)
Lemma iso_matrix : forall g (H : Iso.graph), Iso.wf_graph H -> length H = nv_of g ->
  (Iso.iso (matrix_of g) H <-> exists q, isoP (nv_of g) (vadj g) (Iso.adjb H) q).
Proof.
  intros g H WH LH. rewrite (Iso.iso_adj _ _ (matrix_of_wf g)), matrix_of_length. split.
  - intros (_ & _ & p & Hp & AD). exists p. split; [apply is_perm_bridge; exact Hp|].
    intros i j Hi Hj. rewrite (AD i j Hi Hj).
    apply is_perm_bridge in Hp.
    apply matrix_of_adjb; apply (app_lt (nv_of g) p); assumption.
  - intros [q [Hq AD]]. split; [exact LH|]. split; [exact WH|].
    exists q. split; [apply is_perm_bridge; exact Hq|]. intros i j Hi Hj.
    rewrite (AD i j Hi Hj). symmetry.
    apply matrix_of_adjb; apply (app_lt (nv_of g) q); assumption.
Qed.

Lemma viso_matrix : forall g h, nv_of g = nv_of h ->
  (Iso.iso (matrix_of g) (matrix_of h) <-> viso g h).
Proof.
  intros g h NV. rewrite (iso_matrix g (matrix_of h) (matrix_of_wf h)) by (rewrite matrix_of_length; lia).
  unfold viso. split; intros [q Hq]; exists q.
  - apply (isoP_ext _ (vadj g) (vadj g) (Iso.adjb (matrix_of h)) (vadj h) q); auto.
    intros i j Hi Hj. apply matrix_of_adjb; lia.
  - apply (isoP_ext _ (vadj g) (vadj g) (vadj h) (Iso.adjb (matrix_of h)) q); auto.
    intros i j Hi Hj. symmetry. apply matrix_of_adjb; lia.
Qed.

(* ---------------------------------------------------------------- the recursive presentation *)

Section Top.
Variable canon : nat -> Z -> list (list nat) -> bool -> N -> cache.
Variable ksub_reps : nat -> nat -> list (list nat) -> list N.

Definition one_per_class (n : nat) (L : list vgraph) : Prop :=
  Forall (wf_graph n) L /\
  (forall H, Iso.simple H -> length H = n -> exists g, In g L /\ Iso.iso (matrix_of g) H) /\
  ForallOrdPairs (fun g h => ~ Iso.iso (matrix_of g) (matrix_of h)) L.

Lemma one_per_class_of_adj : forall n L,
  Forall (wf_graph n) L ->
  (forall A, asym n A -> airr n A -> exists g q, In g L /\ isoP n (vadj g) A q) ->
  ForallOrdPairs (fun g h => ~ viso g h) L ->
  one_per_class n L.
Proof.
  intros n L WF CO UN. split; [exact WF|].
  assert (NV : forall g, In g L -> nv_of g = n).
  { intros g Hg. rewrite Forall_forall in WF. destruct (WF g Hg) as [E _].
    destruct g as [[[nv ne] d] e]. exact E. }
  split.
  - intros H (WH & IR & SY) LH.
    destruct (CO (Iso.adjb H)) as (g & q & Hg & Iq).
    { intros i j _ _. apply SY. }
    { intros i _. apply IR. }
    exists g. split; [exact Hg|]. apply iso_matrix; [exact WH|rewrite (NV g Hg); exact LH|].
    exists q. rewrite (NV g Hg). exact Iq.
  - eapply FOP_impl; [|exact UN]. intros g h Hg Hh NI Q. apply NI.
    apply viso_matrix; [rewrite (NV g Hg), (NV h Hh); reflexivity|exact Q].
Qed.

Theorem spec_orderly : forall n, canon_spec canon ksub_reps n ->
  exists L, spec canon ksub_reps no_prune no_prune n 0 1 = Some L /\ one_per_class n L.
Proof.
  intros n HC. destruct n as [|[|n2]].
  - (* n = 0 *)
    exists [g0]. split; [reflexivity|]. apply one_per_class_of_adj.
    + constructor; [|constructor]. split; [reflexivity|exact wfv_g0].
    + intros A _ _. exists g0, (idp 0). split; [left; reflexivity|]. split; [apply idp_perm|].
      intros i j Hi. lia.
    + repeat constructor.
  - (* n = 1 *)
    exists [g1]. split; [reflexivity|]. apply one_per_class_of_adj.
    + constructor; [|constructor]. split; [reflexivity|exact wfv_g1].
    + intros A _ IR. exists g1, (idp 1). split; [left; reflexivity|]. split; [apply idp_perm|].
      intros i j Hi Hj. assert (i = 0) by lia. assert (j = 0) by lia. subst.
      rewrite app_idp, vadj_irrefl. apply IR. lia.
    + repeat constructor.
  - (* n >= 2 *)
    set (n := S (S n2)) in *.
    exists (map fst (lev canon ksub_reps (n - 1))).
    assert (T : tree canon ksub_reps no_prune no_prune n 0 1 (n - 1) g1 no_cache =
                Some (map fst (lev canon ksub_reps (n - 1)))).
    { apply (tree_level canon ksub_reps n HC n (n - 1) root (root_good canon)). cbn [fst root nv_of g1]. lia. }
    split; [exact T|].
    destruct (levels_transversal canon ksub_reps n HC (n - 1) ltac:(lia)) as [UN CO].
    replace (S (n - 1)) with n in CO by lia.
    apply one_per_class_of_adj.
    + apply Forall_forall. intros g Hg. apply in_map_iff in Hg. destruct Hg as [t [<- Ht]].
      destruct (lev_good canon ksub_reps n HC (n - 1) t ltac:(lia) Ht) as [(W & _) NV].
      split; [|exact W]. destruct (fst t) as [[[nv ne] d] e]. cbn [nv_of] in NV. lia.
    + intros A SY IR. destruct (CO A SY IR) as (t & q & Ht & Iq).
      exists (fst t), q. split; [apply in_map; exact Ht|exact Iq].
    + apply FOP_map. exact UN.
Qed.

(* ---------------------------------------------------------------- the model of Next *)

Variable grow : nat -> nat.
Hypothesis canon_novb : canon_ignores_stale_bits canon.

Theorem outputs_orderly : forall n, canon_spec canon ksub_reps n ->
  exists L, (exists calls fuel, outputs grow canon ksub_reps no_prune no_prune calls fuel (init n 0 1) = Ok L) /\
    one_per_class n L.
Proof.
  intros n HC. destruct (spec_orderly n HC) as [L [S O]]. exists L. split; [|exact O].
  apply (outputs_iff_spec grow canon ksub_reps canon_novb). exact S.
Qed.

(* with the sharding and pruning theorems: the whole of C03 on the model, relative to the
   specification of the canonical labelling *)
Theorem search_full : forall n, canon_spec canon ksub_reps n ->
  exists L, one_per_class n L /\
    (exists calls fuel, outputs grow canon ksub_reps no_prune no_prune calls fuel (init n 0 1) = Ok L) /\
    (forall m, 1 <= m -> exists Ls, length Ls = m /\ Permutation (concat Ls) L /\
       forall a, a < m -> exists calls fuel,
         outputs grow canon ksub_reps no_prune no_prune calls fuel (init n a m) = Ok (nth a Ls [])) /\
    (forall P pre post, grows_bad P ->
       (pre = P \/ pre = no_prune) -> (post = P \/ post = no_prune) -> (pre = P \/ post = P) ->
       forall m, 1 <= m -> exists Ls, length Ls = m /\
         Permutation (concat Ls) (filter (fun g => negb (P g)) L) /\
         forall a, a < m -> exists calls fuel,
           outputs grow canon ksub_reps pre post calls fuel (init n a m) = Ok (nth a Ls [])).
Proof.
  intros n HC. destruct (outputs_orderly n HC) as [L [R O]]. exists L. split; [exact O|]. split; [exact R|].
  assert (SH : forall pre post L0,
            (exists calls fuel, outputs grow canon ksub_reps pre post calls fuel (init n 0 1) = Ok L0) ->
            forall m, 1 <= m -> exists Ls, length Ls = m /\ Permutation (concat Ls) L0 /\
              forall a, a < m -> exists calls fuel,
                outputs grow canon ksub_reps pre post calls fuel (init n a m) = Ok (nth a Ls [])).
  { intros pre post L0 R0 m Hm.
    assert (EX : forall k, k <= m -> exists Ls, length Ls = k /\ forall a, a < k -> exists calls fuel,
                   outputs grow canon ksub_reps pre post calls fuel (init n a m) = Ok (nth a Ls [])).
    { induction k as [|k IH]; intros Hk.
      - exists []. split; [reflexivity|]. intros a Ha. lia.
      - destruct (IH ltac:(lia)) as [Ls [LL HL]].
        destruct (shards_terminate grow canon ksub_reps canon_novb pre post n m L0 k Hm ltac:(lia) R0)
          as [La HLa].
        exists (Ls ++ [La]). split; [rewrite app_length; cbn; lia|]. intros a Ha.
        destruct (Nat.eq_dec a k) as [->|Hne].
        + rewrite app_nth2 by lia. rewrite LL, Nat.sub_diag. exact HLa.
        + rewrite app_nth1 by lia. apply HL. lia. }
    destruct (EX m (le_n m)) as [Ls [LL HL]]. exists Ls. split; [exact LL|]. split; [|exact HL].
    apply (shards_partition grow canon ksub_reps canon_novb pre post n m L0 Ls Hm LL R0 HL). }
  split.
  - intros m Hm. apply (SH no_prune no_prune L R m Hm).
  - intros P pre post GB H1 H2 H3 m Hm. apply SH; [|exact Hm].
    apply (prune_terminates grow canon ksub_reps canon_novb P pre post n 0 1 L GB H1 H2 H3 R).
Qed.

End Top.
