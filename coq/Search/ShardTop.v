(* C03: the theorems about the model of the iterator (Search/Model.v), obtained from the
   recursive presentation (ShardSim.outputs_spec) and the theorems on it (Shard.v, Prune.v).

   [outputs grow canon ksub_reps preprune prune calls fuel (init n a m) = Ok L] reads: the
   caller's loop `for it.Next() { .. it.Value() .. }` on WithPruning(n, a, m, preprune, prune)
   ends (within [calls] calls of [fuel] machine steps each) without a run-time panic, and L is
   the list of the visible graphs it has seen, in order. *)
From Coq Require Import List NArith ZArith Arith Bool Lia Permutation.
From Mamba Require Import Disjoint.Model Search.Model Search.SaveModel.
From Mamba Require Import Search.ShardModel Search.ShardSim Search.ShardComplete Search.Shard Search.Prune Search.ShardWf.
Import ListNotations.
Local Open Scope nat_scope.

Section Top.
Variable grow : nat -> nat.
Variable canon : nat -> Z -> list (list nat) -> bool -> N -> cache.
Variable ksub_reps : nat -> nat -> list (list nat) -> list N.
Hypothesis canon_novb : canon_ignores_stale_bits canon.

Notation outs pre post := (outputs grow canon ksub_reps pre post).

(* The iterative machine and the recursive presentation agree: the caller's loop ends without
   panic with the list L (for some number of calls and fuel) exactly when spec = Some L. *)
Theorem outputs_iff_spec : forall preprune prune n a m L,
  (exists calls fuel, outs preprune prune calls fuel (init n a m) = Ok L) <->
  spec canon ksub_reps preprune prune n a m = Some L.
Proof.
  intros preprune prune n a m L. split.
  - intros [calls [fuel H]]. eapply outputs_spec; eauto.
  - apply spec_outputs. exact canon_novb.
Qed.

(* If the unsplit search ends without panic, so does every shard. *)
Theorem shards_terminate : forall preprune prune n m L a,
  1 <= m -> a < m ->
  (exists calls fuel, outs preprune prune calls fuel (init n 0 1) = Ok L) ->
  exists La calls fuel, outs preprune prune calls fuel (init n a m) = Ok La.
Proof.
  intros preprune prune n m L a M1 Ha H0. apply outputs_iff_spec in H0.
  destruct (spec_part canon ksub_reps preprune prune n m M1 L H0) as [NP _].
  specialize (NP a Ha).
  destruct (spec canon ksub_reps preprune prune n a m) as [La|] eqn:E; [|contradiction].
  exists La. apply outputs_iff_spec. exact E.
Qed.

(* If the unpruned search ends without panic, the pruned one ends without panic with the
   filtered output. *)
Theorem prune_terminates : forall P pre post n a m L,
  grows_bad P ->
  (pre = P \/ pre = no_prune) -> (post = P \/ post = no_prune) -> (pre = P \/ post = P) ->
  (exists calls fuel, outs no_prune no_prune calls fuel (init n a m) = Ok L) ->
  exists calls fuel, outs pre post calls fuel (init n a m) = Ok (filter (fun g => negb (P g)) L).
Proof.
  intros P pre post n a m L HP H1 H2 H3 R0. apply outputs_iff_spec in R0.
  apply outputs_iff_spec.
  exact (spec_prune canon ksub_reps P HP n a m pre post (conj H1 (conj H2 H3)) L R0).
Qed.

(* The shards together are the unsplit search, as multisets; for all pruning functions. *)
Theorem shards_partition : forall preprune prune n m L (Ls : list (list vgraph)),
  1 <= m -> length Ls = m ->
  (exists calls fuel, outs preprune prune calls fuel (init n 0 1) = Ok L) ->
  (forall a, a < m -> exists calls fuel,
     outs preprune prune calls fuel (init n a m) = Ok (nth a Ls [])) ->
  Permutation (concat Ls) L.
Proof.
  intros preprune prune n m L Ls M1 LEN [calls [fuel H0]] HA.
  apply (outputs_spec _ _ _ _ _ canon_novb) in H0.
  destruct (spec_part canon ksub_reps preprune prune n m M1 L H0) as [_ PERM].
  rewrite <- PERM, <- flat_map_nth_concat, LEN.
  erewrite flat_map_ext_in; [reflexivity|].
  intros a Ha. apply in_seq in Ha. destruct (HA a ltac:(lia)) as [c [f H]].
  apply (outputs_spec _ _ _ _ _ canon_novb) in H. rewrite H. reflexivity.
Qed.

(* A hereditary predicate as preprune, as prune or as both gives the unpruned output filtered,
   in the same order. *)
Theorem prune_is_filter : forall P pre post n a m L LP,
  grows_bad P ->
  (pre = P \/ pre = no_prune) -> (post = P \/ post = no_prune) -> (pre = P \/ post = P) ->
  (exists calls fuel, outs no_prune no_prune calls fuel (init n a m) = Ok L) ->
  (exists calls fuel, outs pre post calls fuel (init n a m) = Ok LP) ->
  LP = filter (fun g => negb (P g)) L.
Proof.
  intros P pre post n a m L LP HP H1 H2 H3 [c0 [f0 R0]] [c1 [f1 R1]].
  apply (outputs_spec _ _ _ _ _ canon_novb) in R0.
  apply (outputs_spec _ _ _ _ _ canon_novb) in R1.
  rewrite (spec_prune canon ksub_reps P HP n a m pre post (conj H1 (conj H2 H3)) L R0) in R1.
  inversion R1. reflexivity.
Qed.

(* Every yielded value is a well-formed graph on exactly n vertices. *)
Theorem outputs_wf : forall preprune prune n a m calls fuel L,
  outs preprune prune calls fuel (init n a m) = Ok L -> Forall (wf_graph n) L.
Proof.
  intros preprune prune n a m calls fuel L H.
  apply (outputs_spec _ _ _ _ _ canon_novb) in H. eapply spec_wf; eauto.
Qed.

End Top.
