(* C03 (tie of [canon_spec] to the code) — soundness of the executable checker of
   Search/OrderlyInstCheckModel.v: a verdict [true] of [check_upto canon ksub_reps vbs_all n] is
   the hypothesis [canon_spec canon ksub_reps n] of the orderly-generation theorem
   ([check_upto_sound]); per graph, [check_graph] gives the clauses of [canon_ok_at] /
   [canon_parts_at] with the early-exit clause for the viable sets that were tried
   ([check_graph_sound], [ok_at_dom]); [label_check] gives [canon_label_ok] on the listed graphs. *)
From Coq Require Import List NArith ZArith Arith Bool Lia Permutation.
From Mamba Require Import Disjoint.Model Disjoint.Proofs Search.Model Search.ShardModel Search.ShardGraph.
From Mamba Require Import Canon.AutBase Canon.Aut Canon.Group Canon.GroupOrder Canon.AutCheck.
From Mamba Require Import Search.OrderlyBase Search.OrderlyGraph Search.OrderlySpec Search.OrderlyAugs.
From Mamba Require Import Search.OrderlyToyModel Search.OrderlyToy Search.OrderlyInstCheckModel.
Import ListNotations.
Local Open Scope nat_scope.

(* ---------------------------------------------------------------- the enumeration is complete *)

Lemma cvadj_vadj : forall g, cvadj g = vadj g.
Proof. intros [[[nv ne] d] e]. reflexivity. Qed.

Definition edges_of (g : vgraph) : list N := let '(_, _, _, e) := g in e.

Lemma wfv_vg : forall g, wfv g -> g = vg_of_edges (nv_of g) (edges_of g).
Proof.
  intros [[[nv ne] d] e] (HD & HE & H01 & HDeg & HNe). cbn [nv_of edges_of]. unfold vg_of_edges.
  rewrite HNe. f_equal. f_equal.
  apply (nth_ext _ _ 0%Z 0%Z).
  - rewrite map_length, seq_length. exact HD.
  - intros i Hi. rewrite HD in Hi.
    rewrite (nth_indep (map _ _) 0%Z (Z.of_nat (degree_of e nv 0))) by (rewrite map_length, seq_length; exact Hi).
    rewrite (map_nth (fun v => Z.of_nat (degree_of e nv v))). rewrite seq_nth by exact Hi.
    cbn [plus]. apply HDeg. exact Hi.
Qed.

Lemma all01_In : forall m e, length e = m -> Forall (fun b => b = 0%N \/ b = 1%N) e -> In e (all01 m).
Proof.
  induction m as [|m IH]; intros e L F.
  - destruct e; [left; reflexivity|discriminate].
  - destruct e as [|b e]; [discriminate|]. cbn [all01]. apply in_flat_map. exists e.
    inversion F as [|? ? Fb Fe]; subst. split; [apply IH; [cbn in L; lia|exact Fe]|].
    destruct Fb as [->| ->]; [left; reflexivity|right; left; reflexivity].
Qed.

Lemma all_graphs_In : forall g, wfv g -> In g (all_graphs (nv_of g)).
Proof.
  intros g W. rewrite (wfv_vg g W) at 1. unfold all_graphs. apply in_map.
  destruct g as [[[nv ne] d] e]. destruct W as (_ & HE & H01 & _). cbn [nv_of edges_of].
  apply all01_In; assumption.
Qed.

(* ---------------------------------------------------------------- small deciders *)

Lemma leqb_eq : forall {A} (eqb : A -> A -> bool), (forall a b, eqb a b = true -> a = b) ->
  forall l1 l2, leqb eqb l1 l2 = true -> l1 = l2.
Proof.
  intros A eqb H l1. induction l1 as [|a l1 IH]; intros [|b l2] E; cbn [leqb] in E; try discriminate; [reflexivity|].
  apply andb_true_iff in E. destruct E as [E1 E2]. rewrite (H a b E1), (IH l2 E2). reflexivity.
Qed.

Lemma cache_eqb_eq : forall c1 c2, cache_eqb c1 c2 = true -> c1 = c2.
Proof.
  intros [p1 o1 g1] [p2 o2 g2] E. unfold cache_eqb in E. cbn [CPerm COrb CGens] in E.
  apply andb_true_iff in E. destruct E as [E E3]. apply andb_true_iff in E. destruct E as [E1 E2].
  assert (NE : forall a b, (a =? b) = true -> a = b) by (intros a b; apply Nat.eqb_eq).
  assert (ZE : forall a b, (a =? b)%Z = true -> a = b) by (intros a b; apply Z.eqb_eq).
  apply (leqb_eq Z.eqb ZE) in E2. apply (leqb_eq _ (leqb_eq Nat.eqb NE)) in E3. subst o2 g2.
  destruct p1 as [p1|], p2 as [p2|]; try discriminate; [|reflexivity].
  apply (leqb_eq Nat.eqb NE) in E1. subst p2. reflexivity.
Qed.

Lemma pairwise_b_FOP : forall {A} (r : A -> A -> bool) l, pairwise_b r l = true ->
  ForallOrdPairs (fun x y => r x y = true) l.
Proof.
  intros A r l. induction l as [|x l IH]; intros H; [constructor|]. cbn [pairwise_b] in H.
  apply andb_true_iff in H. destruct H as [H1 H2]. constructor; [|apply IH; exact H2].
  apply Forall_forall. apply forallb_forall. exact H1.
Qed.

Lemma FOP_In2 : forall {A} (R : A -> A -> Prop) l, ForallOrdPairs R l ->
  forall x y, In x l -> In y l -> x <> y -> R x y \/ R y x.
Proof.
  intros A R l F. induction F as [|a l Fa Fl IH]; intros x y Hx Hy NE; [destruct Hx|].
  rewrite Forall_forall in Fa. destruct Hx as [<-|Hx], Hy as [<-|Hy].
  - congruence.
  - left. apply Fa. exact Hy.
  - right. apply Fa. exact Hx.
  - apply IH; assumption.
Qed.

(* ---------------------------------------------------------------- subsets *)

Lemma image_eq : forall n a S T, is_perm n a -> (forall v, In v S -> v < n) -> (forall v, In v T -> v < n) ->
  (forall j, j < n -> (In j S <-> In (app a j) T)) -> mask_of T = mask_of (map (app a) S).
Proof.
  intros n a S T Pa LS LT H. apply mask_of_ext. intros t. rewrite in_map_iff. split.
  - intros Ht. exists (app (inv a) t). specialize (LT t Ht).
    split; [apply (app_inv_r n); assumption|].
    apply H; [apply (inv_lt n a); assumption|]. rewrite (app_inv_r n) by assumption. exact Ht.
  - intros [j [<- Hj]]. apply H; [apply LS; exact Hj|exact Hj].
Qed.

Lemma sub_equiv_b_spec : forall n A auts x y, (forall a, In a auts <-> autP n A a) ->
  (forall j, In j (bits_of x) -> j < n) -> (forall j, In j (bits_of y) -> j < n) ->
  (sub_equiv_b auts x y = true <-> sub_equiv n A (bits_of x) (bits_of y)).
Proof.
  intros n A auts x y G LX LY. unfold sub_equiv_b. rewrite existsb_exists. split.
  - intros [a [Ha E]]. apply N.eqb_eq in E. apply G in Ha. pose proof (autP_perm _ _ _ Ha) as Pa.
    exists a. split; [exact Ha|]. intros j Hj. rewrite <- E. unfold image_mask. rewrite mask_of_In, in_map_iff. split.
    + intros Hx. exists j. split; [reflexivity|exact Hx].
    + intros [s [E2 Hs]]. apply (app_inj n a) in E2; [subst s; exact Hs|exact Pa|apply LX; exact Hs|exact Hj].
  - intros [a [Ha H]]. exists a. split; [apply G; exact Ha|]. apply N.eqb_eq. unfold image_mask.
    transitivity (mask_of (bits_of y)); [|apply mask_bits]. symmetry. apply (image_eq n); auto.
    apply (autP_perm _ _ _ Ha).
Qed.

Lemma transversal_b_sound : forall n A auts k R, (forall a, In a auts <-> autP n A a) ->
  transversal_b n auts k R = true -> transversal n A k R.
Proof.
  intros n A auts k R G H. unfold transversal_b in H.
  apply andb_true_iff in H. destruct H as [H H3]. apply andb_true_iff in H. destruct H as [H1 H2].
  rewrite forallb_forall in H1, H2.
  assert (K1 : forall x, In x R -> length (bits_of x) = k /\ forall j, In j (bits_of x) -> j < n).
  { intros x Hx. specialize (H1 x Hx). apply andb_true_iff in H1. destruct H1 as [L B].
    apply Nat.eqb_eq in L. apply N.ltb_lt in B. split; [exact L|]. apply below_bits. exact B. }
  split; [|split].
  - intros x Hx. destruct (K1 x Hx) as [L B]. split; [apply bits_of_NoDup|]. split; assumption.
  - intros S (ND & LS & LT). set (s := mask_of S).
    assert (BS : forall j, In j (bits_of s) <-> In j S) by (intros j; apply mask_of_In).
    assert (LB : forall j, In j (bits_of s) -> j < n) by (intros j Hj; apply LT, BS; exact Hj).
    assert (Hs : In s (all_masks n)) by (apply all_masks_In, bits_below; exact LB).
    assert (Lk : length (bits_of s) = k).
    { rewrite <- LS. apply Permutation_length. apply NoDup_Permutation; [apply bits_of_NoDup|exact ND|exact BS]. }
    specialize (H2 s Hs). rewrite Lk, Nat.eqb_refl in H2. cbn [negb orb] in H2.
    apply existsb_exists in H2. destruct H2 as [x [Hx E]]. exists x. split; [exact Hx|].
    apply (sub_equiv_b_spec n A auts s x G LB (proj2 (K1 x Hx))) in E.
    destruct E as [a [Ha E]]. exists a. split; [exact Ha|]. intros j Hj. rewrite <- BS. apply E. exact Hj.
  - apply pairwise_b_FOP in H3. eapply FOP_impl; [|exact H3]. intros x y Hx Hy E Q. cbn beta in E.
    apply negb_true_iff in E.
    apply (sub_equiv_b_spec n A auts x y G (proj2 (K1 x Hx)) (proj2 (K1 y Hy))) in Q. congruence.
Qed.

(* ---------------------------------------------------------------- isomorphism by brute force *)

Lemma iso_b_complete : forall n A B q, isoP n A B q -> iso_b n A B = true.
Proof.
  intros n A B q [Pq H]. unfold iso_b. apply existsb_exists. exists q. split; [apply all_perms_spec; exact Pq|].
  apply forallb_forall. intros [i j] Hij. apply pairs_of_In in Hij. cbn [fst snd].
  rewrite H by tauto. apply eqb_reflx.
Qed.

Lemma radj_iso : forall n g p, is_perm n p -> isoP n (vadj g) (radj g p) p.
Proof. intros n g p Hp. split; [exact Hp|]. intros i j _ _. unfold radj. rewrite cvadj_vadj. reflexivity. Qed.

(* ---------------------------------------------------------------- the clauses *)

Section Sound.
Variable canon : nat -> Z -> list (list nat) -> bool -> N -> cache.
Variable ksub_reps : nat -> nat -> list (list nat) -> list N.

Notation answer' := (answer canon).

(* the per-graph clauses of the specification ([canon_ok_at] and [canon_parts_at] together), the
   early-exit clause for the viable sets of a list *)
Record ok_at_dom (vbs : list N) (g : vgraph) (c : cache) : Prop := {
  od_perm : exists p, CPerm c = Some p /\ is_perm (nv_of g) p;
  od_orb : orb_exact g (COrb c);
  od_gens : (forall s, In s (CGens c) -> autP (nv_of g) (vadj g) s) /\
            (forall a, autP (nv_of g) (vadj g) a -> generated (nv_of g) (CGens c) a);
  od_ksub : forall k, 2 <= k <= nv_of g ->
            transversal (nv_of g) (vadj g) k (ksub_reps (nv_of g) k (CGens c));
  od_early : forall vb c', In vb vbs -> get_aut canon g true vb = Some c' ->
             c' = c \/
             (CPerm c' = None /\
              forall p u, CPerm c = Some p -> first_hit (nv_of g - 1) vb p = Some u ->
                          ~ same (COrb c) u (nv_of g - 1))
}.

Lemma auts_spec : forall g a, In a (aut_bruteforce (nv_of g) (cvadj g) ncls) <-> autP (nv_of g) (vadj g) a.
Proof. intros g a. rewrite cvadj_vadj. apply (proj2 (aut_bruteforce_spec (nv_of g) (vadj g) nocls)). Qed.

Lemma check_orb_sound : forall g c, check_orb g c = true ->
  orb_exact g (COrb c) /\
  (forall s, In s (CGens c) -> autP (nv_of g) (vadj g) s) /\
  (forall a, autP (nv_of g) (vadj g) a -> generated (nv_of g) (CGens c) a).
Proof.
  intros g c H. unfold check_orb in H. rewrite cvadj_vadj in H.
  apply check_full_sound in H. destruct H as (H1 & H2 & H3 & H4 & H5).
  split; [|split].
  - split; [exact H3|]. split; [exact H4|]. intros x y Hx Hy. rewrite (H5 x y Hx Hy). reflexivity.
  - exact H1.
  - intros a Ha. apply H2. exact Ha.
Qed.

Lemma check_ksub_sound : forall g c, check_ksub ksub_reps g c = true ->
  forall k, 2 <= k <= nv_of g -> transversal (nv_of g) (vadj g) k (ksub_reps (nv_of g) k (CGens c)).
Proof.
  intros g c H k Hk. unfold check_ksub in H. rewrite forallb_forall in H.
  apply (transversal_b_sound _ _ (aut_bruteforce (nv_of g) (cvadj g) ncls)); [apply auts_spec|].
  apply H. apply in_seq. lia.
Qed.

Lemma check_early_sound : forall vbs g c, 1 <= nv_of g ->
  (exists p, CPerm c = Some p /\ is_perm (nv_of g) p) -> orb_exact g (COrb c) ->
  check_early canon vbs g c = true ->
  forall vb c', In vb vbs -> get_aut canon g true vb = Some c' ->
    c' = c \/
    (CPerm c' = None /\
     forall p u, CPerm c = Some p -> first_hit (nv_of g - 1) vb p = Some u ->
                 ~ same (COrb c) u (nv_of g - 1)).
Proof.
  intros vbs g c HN (p & P & Hp) (_ & _ & OE) H vb c' Hvb GA. unfold check_early in H. rewrite P in H.
  rewrite forallb_forall in H. specialize (H vb Hvb). unfold early_b in H. rewrite GA in H.
  apply orb_true_iff in H. destruct H as [H|H]; [left; apply cache_eqb_eq; exact H|right].
  apply andb_true_iff in H. destruct H as [H1 H2].
  split; [destruct (CPerm c'); [discriminate|reflexivity]|].
  intros p0 u P0 FH. rewrite P in P0. inversion P0; subst p0.
  change (first_hit (nv_of g - 1) vb p) with (first_hit_c (nv_of g - 1) vb p) in FH. rewrite FH in H2.
  apply negb_true_iff in H2. intros SM.
  assert (Hu : u < nv_of g) by (apply (find_perm_lt _ _ _ _ Hp FH)).
  apply (OE u (nv_of g - 1) Hu ltac:(lia)) in SM. destruct SM as [a [Ha E]].
  assert (X : existsb (fun a => app a u =? nv_of g - 1) (aut_bruteforce (nv_of g) (cvadj g) ncls) = true).
  { apply existsb_exists. exists a. split; [apply auts_spec; exact Ha|apply Nat.eqb_eq; exact E]. }
  congruence.
Qed.

Theorem check_graph_sound : forall vbs g, 1 <= nv_of g -> check_graph canon ksub_reps vbs g = true ->
  exists c, answer' g = Some c /\ ok_at_dom vbs g c.
Proof.
  intros vbs g HN H. unfold check_graph in H. unfold answer.
  destruct (get_aut canon g false 0%N) as [c|]; [|discriminate]. exists c. split; [reflexivity|].
  apply andb_true_iff in H. destruct H as [H H4]. apply andb_true_iff in H. destruct H as [H H3].
  apply andb_true_iff in H. destruct H as [H1 H2].
  assert (PP : exists p, CPerm c = Some p /\ is_perm (nv_of g) p).
  { unfold check_perm in H1. destruct (CPerm c) as [p|]; [|discriminate]. exists p. split; [reflexivity|].
    apply is_permb_spec. exact H1. }
  destruct (check_orb_sound g c H2) as (O1 & O2 & O3).
  constructor; auto.
  - apply check_ksub_sound. exact H3.
  - apply check_early_sound; assumption.
Qed.

(* with every viable set tried: the clauses as stated in Search/OrderlySpec.v *)
Lemma vbs_all_In : forall g vb, (forall j, N.testbit vb (N.of_nat j) = true -> j < nv_of g - 1) -> In vb (vbs_all g).
Proof.
  intros g vb H. unfold vbs_all. apply all_masks_In. apply bits_below. intros j Hj. apply H. apply bits_of_In. exact Hj.
Qed.

Lemma ok_at_dom_all : forall g c, ok_at_dom (vbs_all g) g c ->
  canon_ok_at canon ksub_reps g c /\ canon_parts_at canon g c.
Proof.
  intros g c [P O G K E]. split; constructor; auto.
  - intros vb c' Hvb. apply E. apply vbs_all_In. exact Hvb.
  - intros vb c' Hvb. apply E. apply vbs_all_In. exact Hvb.
Qed.

(* ---------------------------------------------------------------- canonical forms *)

Lemma form_of_spec : forall g r, form_of canon g = Some r ->
  exists c p, answer' g = Some c /\ CPerm c = Some p /\ r = (pcode (nv_of g) (cvadj g) p, (g, p)).
Proof.
  intros g r H. unfold form_of in H. unfold answer. destruct (get_aut canon g false 0%N) as [c|]; [|discriminate].
  destruct (CPerm c) as [p|] eqn:P; [|discriminate]. inversion H. exists c, p. auto.
Qed.

Lemma forms_acc_spec : forall gs acc reps, forms_acc canon gs acc = Some reps ->
  (forall r, In r acc -> In r reps) /\
  (forall r, In r reps -> In r acc \/ exists g, In g gs /\ form_of canon g = Some r) /\
  (forall g, In g gs -> exists r r', form_of canon g = Some r' /\ In r reps /\ fst r = fst r').
Proof.
  induction gs as [|g gs IH]; intros acc reps H; cbn [forms_acc] in H.
  - inversion H; subst reps. split; [auto|]. split; [auto|]. intros g [].
  - destruct (form_of canon g) as [r0|] eqn:F; [|discriminate].
    destruct (existsb (fun r' => (fst r' =? fst r0)%N) acc) eqn:X.
    + destruct (IH _ _ H) as (I1 & I2 & I3). split; [exact I1|]. split.
      * intros r Hr. destruct (I2 r Hr) as [A|[g' [Hg' Fg']]]; [left; exact A|right].
        exists g'. split; [right; exact Hg'|exact Fg'].
      * intros g' [<-|Hg']; [|apply I3; exact Hg'].
        apply existsb_exists in X. destruct X as [r1 [Hr1 E]]. apply N.eqb_eq in E.
        exists r1, r0. split; [exact F|]. split; [apply I1; exact Hr1|exact E].
    + destruct (IH _ _ H) as (I1 & I2 & I3). split; [intros r Hr; apply I1; right; exact Hr|]. split.
      * intros r Hr. destruct (I2 r Hr) as [[<-|A]|[g' [Hg' Fg']]].
        -- right. exists g. split; [left; reflexivity|exact F].
        -- left. exact A.
        -- right. exists g'. split; [right; exact Hg'|exact Fg'].
      * intros g' [<-|Hg']; [|apply I3; exact Hg'].
        exists r0, r0. split; [exact F|]. split; [apply I1; left; reflexivity|reflexivity].
Qed.

(* a representative with the same code as the form of g is g relabelled, as an adjacency function *)
Lemma rep_adj_eq : forall k g pg r, nv_of g = k ->
  (exists g1, nv_of g1 = k /\ form_of canon g1 = Some r) ->
  fst r = pcode k (cvadj g) pg ->
  forall i j, i < k -> j < k -> rep_adj r i j = radj g pg i j.
Proof.
  intros k g pg r NV (g1 & NV1 & F1) E i j Hi Hj.
  destruct (form_of_spec g1 r F1) as (c1 & p1 & _ & _ & ->). cbn [fst] in E. rewrite NV1 in E.
  unfold rep_adj, radj. cbn [fst snd]. apply (pcode_eq_adj k _ _ _ _ E); assumption.
Qed.

Theorem label_check_sound : forall k gs, (forall g, In g gs -> nv_of g = k) ->
  label_check canon k gs = true ->
  forall g h cg ch pg ph q, In g gs -> In h gs ->
    answer' g = Some cg -> answer' h = Some ch -> CPerm cg = Some pg -> CPerm ch = Some ph ->
    is_perm k pg -> is_perm k ph -> isoP k (vadj g) (vadj h) q ->
    forall i j, i < k -> j < k -> vadj g (app pg i) (app pg j) = vadj h (app ph i) (app ph j).
Proof.
  intros k gs NVS H. unfold label_check in H.
  destruct (forms_acc canon gs []) as [reps|] eqn:FA; [|discriminate].
  destruct (forms_acc_spec _ _ _ FA) as (_ & I2 & I3). apply pairwise_b_FOP in H.
  assert (FORM : forall g c p, answer' g = Some c -> CPerm c = Some p ->
            form_of canon g = Some (pcode (nv_of g) (cvadj g) p, (g, p))).
  { intros g c p A P. unfold form_of. unfold answer in A. rewrite A, P. reflexivity. }
  (* a relabelling between two graphs gives one between their representatives *)
  assert (STEP : forall g h cg ch pg ph q rg rh, In g gs -> In h gs ->
            answer' g = Some cg -> answer' h = Some ch -> CPerm cg = Some pg -> CPerm ch = Some ph ->
            is_perm k pg -> is_perm k ph -> isoP k (vadj g) (vadj h) q ->
            In rg reps -> In rh reps -> fst rg = pcode k (cvadj g) pg -> fst rh = pcode k (cvadj h) ph ->
            iso_b k (rep_adj rg) (rep_adj rh) = true).
  { intros g h cg ch pg ph q rg rh Hg Hh Ag Ah Pg Ph Ppg Pph Iq Rg Rh Eg Eh.
    assert (SRC : forall r, In r reps -> exists g1, nv_of g1 = k /\ form_of canon g1 = Some r).
    { intros r Hr. destruct (I2 r Hr) as [[]|[g1 [Hg1 F1]]]. exists g1. split; [apply NVS; exact Hg1|exact F1]. }
    apply (iso_b_complete k _ _ (compose (compose (inv pg) q) ph)).
    eapply isoP_ext; [| |].
    - intros i j Hi Hj. symmetry. apply (rep_adj_eq k g pg rg (NVS g Hg) (SRC rg Rg) Eg i j Hi Hj).
    - intros i j Hi Hj. symmetry. apply (rep_adj_eq k h ph rh (NVS h Hh) (SRC rh Rh) Eh i j Hi Hj).
    - eapply isoP_comp; [eapply isoP_comp|].
      + apply isoP_inv. apply radj_iso. exact Ppg.
      + exact Iq.
      + apply radj_iso. exact Pph. }
  intros g h cg ch pg ph q Hg Hh Ag Ah Pg Ph Ppg Pph Iq i j Hi Hj.
  pose proof (NVS g Hg) as NVg. pose proof (NVS h Hh) as NVh.
  destruct (I3 g Hg) as (rg & rg' & Fg & Rg & Eg). destruct (I3 h Hh) as (rh & rh' & Fh & Rh & Eh).
  rewrite (FORM g cg pg Ag Pg) in Fg. rewrite (FORM h ch ph Ah Ph) in Fh.
  inversion Fg; subst rg'. inversion Fh; subst rh'. cbn [fst] in Eg, Eh. rewrite NVg in Eg. rewrite NVh in Eh.
  destruct (N.eq_dec (pcode k (cvadj g) pg) (pcode k (cvadj h) ph)) as [E|NE].
  - rewrite <- !cvadj_vadj. apply (pcode_eq_adj k _ _ _ _ E); assumption.
  - exfalso. assert (NR : rg <> rh) by (intros ->; congruence).
    destruct (FOP_In2 _ _ H rg rh Rg Rh NR) as [X|X]; cbn beta in X; apply negb_true_iff in X.
    + rewrite (STEP g h cg ch pg ph q rg rh) in X; auto. discriminate.
    + rewrite (STEP h g ch cg ph pg (inv q) rh rg) in X; auto; [discriminate|]. apply isoP_inv. exact Iq.
Qed.

(* a sampled pair with its isomorphism *)
Theorem label_pair_check_sound : forall g h q, label_pair_check canon g h q = true ->
  nv_of g = nv_of h /\ isoP (nv_of g) (vadj g) (vadj h) q /\
  exists cg ch pg ph, answer' g = Some cg /\ answer' h = Some ch /\ CPerm cg = Some pg /\ CPerm ch = Some ph /\
    forall i j, i < nv_of g -> j < nv_of g -> vadj g (app pg i) (app pg j) = vadj h (app ph i) (app ph j).
Proof.
  intros g h q H. unfold label_pair_check in H.
  apply andb_true_iff in H. destruct H as [H H4]. apply andb_true_iff in H. destruct H as [H H3].
  apply andb_true_iff in H. destruct H as [H1 H2]. apply Nat.eqb_eq in H1. apply is_permb_spec in H2.
  split; [exact H1|]. split.
  - split; [exact H2|]. intros i j Hi Hj. rewrite forallb_forall in H3.
    specialize (H3 (i, j) (proj2 (pairs_of_In _ i j) (conj Hi Hj))). cbn [fst snd] in H3.
    apply eqb_prop in H3. rewrite <- !cvadj_vadj. exact H3.
  - destruct (form_of canon g) as [rg|] eqn:Fg; [|discriminate].
    destruct (form_of canon h) as [rh|] eqn:Fh; [|discriminate]. apply N.eqb_eq in H4.
    destruct (form_of_spec g rg Fg) as (cg & pg & Ag & Pg & ->).
    destruct (form_of_spec h rh Fh) as (ch & ph & Ah & Ph & ->). cbn [fst] in H4. rewrite <- H1 in H4.
    exists cg, ch, pg, ph. repeat (split; [assumption|]). intros i j Hi Hj.
    rewrite <- !cvadj_vadj. apply (pcode_eq_adj _ _ _ _ _ H4); assumption.
Qed.

(* ---------------------------------------------------------------- all graphs on up to n vertices *)

(* [canon_spec] with the early-exit clause restricted to the viable sets of [vbdom] *)
Definition canon_spec_dom (vbdom : vgraph -> list N) (n : nat) : Prop :=
  canon_label_ok canon n /\
  forall g c, wfv g -> 1 <= nv_of g <= n -> answer' g = Some c -> ok_at_dom (vbdom g) g c.

Lemma all_graphs_nv : forall k g, In g (all_graphs k) -> nv_of g = k.
Proof. intros k g H. unfold all_graphs in H. apply in_map_iff in H. destruct H as [e [<- _]]. reflexivity. Qed.

Theorem check_upto_sound_dom : forall vbdom n, check_upto canon ksub_reps vbdom n = true -> canon_spec_dom vbdom n.
Proof.
  intros vbdom n H. unfold check_upto in H. rewrite forallb_forall in H.
  assert (LV : forall k, 1 <= k <= n ->
            (forall g, In g (all_graphs k) -> check_graph canon ksub_reps (vbdom g) g = true) /\
            label_check canon k (all_graphs k) = true).
  { intros k Hk. specialize (H k ltac:(apply in_seq; lia)). unfold check_level in H.
    apply andb_true_iff in H. destruct H as [H1 H2]. rewrite forallb_forall in H1. split; assumption. }
  assert (AT : forall g c, wfv g -> 1 <= nv_of g <= n -> answer' g = Some c -> ok_at_dom (vbdom g) g c).
  { intros g c W HN A. destruct (LV (nv_of g) HN) as [L1 _].
    destruct (check_graph_sound (vbdom g) g (proj1 HN) (L1 g (all_graphs_In g W))) as (c0 & A0 & OK).
    rewrite A in A0. inversion A0; subst c0. exact OK. }
  split; [|exact AT].
  intros g h cg ch pg ph q Wg Wh NV HN Ag Ah Pg Ph Iq i j Hi Hj.
  assert (HN' : 1 <= nv_of g <= n) by lia.
  destruct (LV (nv_of g) HN') as [_ L2].
  destruct (od_perm _ _ _ (AT g cg Wg HN' Ag)) as (pg' & Pg' & Ppg). rewrite Pg in Pg'. inversion Pg'; subst pg'.
  destruct (od_perm _ _ _ (AT h ch Wh ltac:(lia) Ah)) as (ph' & Ph' & Pph). rewrite Ph in Ph'. inversion Ph'; subst ph'.
  rewrite <- NV in Pph.
  apply (label_check_sound (nv_of g) (all_graphs (nv_of g)) (all_graphs_nv (nv_of g)) L2 g h cg ch pg ph q); auto.
  - apply all_graphs_In. exact Wg.
  - rewrite NV. apply all_graphs_In. exact Wh.
Qed.

Lemma canon_spec_dom_all : forall n, canon_spec_dom vbs_all n -> canon_spec canon ksub_reps n.
Proof.
  intros n [L A]. split; [exact L|]. intros g c W HN E. apply (proj1 (ok_at_dom_all g c (A g c W HN E))).
Qed.

(* THE TIE: the verdict [true] of the checker on all graphs with at most n vertices, every
   viable set tried, is the hypothesis of the orderly-generation theorem *)
Theorem check_upto_sound : forall n, check_upto canon ksub_reps vbs_all n = true -> canon_spec canon ksub_reps n.
Proof. intros n H. apply canon_spec_dom_all. apply check_upto_sound_dom. exact H. Qed.

(* what the co-simulation driver evaluates: all viable sets up to 6 vertices *)
Theorem check_upto_sound_mixed : forall n, n <= 6 -> check_upto canon ksub_reps vbs_mixed n = true ->
  canon_spec canon ksub_reps n.
Proof.
  intros n Hn H. apply check_upto_sound_dom in H. destruct H as [L A]. apply canon_spec_dom_all.
  split; [exact L|]. intros g c W HN E. specialize (A g c W HN E). unfold vbs_mixed in A.
  replace (nv_of g <=? 6) with true in A by (symmetry; apply Nat.leb_le; lia). exact A.
Qed.

(* and with the parts named as in [canon_parts_at] *)
Theorem check_upto_parts : forall n, check_upto canon ksub_reps vbs_all n = true ->
  canon_label_ok canon n /\
  forall g c, wfv g -> 1 <= nv_of g <= n -> answer' g = Some c ->
    canon_parts_at canon g c /\
    forall k, 2 <= k <= nv_of g -> transversal (nv_of g) (vadj g) k (ksub_reps (nv_of g) k (CGens c)).
Proof.
  intros n H. apply check_upto_sound_dom in H. destruct H as [L A]. split; [exact L|].
  intros g c W HN E. specialize (A g c W HN E). split; [apply (proj2 (ok_at_dom_all g c A))|apply (od_ksub _ _ _ A)].
Qed.

End Sound.
