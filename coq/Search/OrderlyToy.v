(* C03 (orderly generation) — the brute-force instance of Search/OrderlyToyModel.v meets the
   specification [canon_spec] for every bound N ([toy_canon_spec]): the hypotheses of the
   orderly-generation theorem are satisfiable, and the theorem instantiated with it is an
   unconditional statement about the search model run with a (slow) correct labelling. *)
From Coq Require Import List NArith ZArith Arith Bool Lia Permutation.
From Mamba Require Import Disjoint.Model Disjoint.Proofs.
From Mamba Require Import Search.Model Search.SaveModel Search.ShardModel Search.ShardGraph Search.ShardWf.
From Mamba Require Import Canon.AutBase Canon.Aut Canon.Group Canon.Orbit.
From Mamba Require Import Search.OrderlyBase Search.OrderlyGraph Search.OrderlySpec Search.OrderlyAugs.
From Mamba Require Import Search.OrderlyToyModel.
Import ListNotations.
Local Open Scope nat_scope.

(* ---------------------------------------------------------------- updateNeighbours *)

Lemma nbrs_scan_In : forall e v is r, nbrs_scan e v is = Some r ->
  forall i, In i r <-> In i is /\ i <> v /\
    exists b, nth_error e (edge_index i v) = Some b /\ (0 <? b)%N = true.
Proof.
  intros e v is. induction is as [|a is IH]; intros r H i; cbn [nbrs_scan] in H.
  - inversion H; subst. cbn. tauto.
  - destruct (Nat.eqb_spec a v) as [->|Hne].
    + rewrite (IH r H i). cbn [In]. split.
      * intros (A & B & C). split; [right; exact A|split; assumption].
      * intros ([A|A] & B & C); [congruence|]. split; [exact A|split; assumption].
    + destruct (nth_error e (edge_index a v)) as [b|] eqn:Eb; [|discriminate].
      destruct (nbrs_scan e v is) as [r0|] eqn:R0; [|discriminate]. inversion H; subst r. clear H.
      specialize (IH r0 eq_refl i). destruct (0 <? b)%N eqn:Pb.
      * cbn [In]. rewrite IH. split.
        -- intros [<-|(A & B & C)].
           ++ split; [left; reflexivity|]. split; [exact Hne|]. exists b. split; assumption.
           ++ split; [right; exact A|split; assumption].
        -- intros ([A|A] & B & C); [left; exact A|right]. split; [exact A|split; assumption].
      * rewrite IH. cbn [In]. split.
        -- intros (A & B & C). split; [right; exact A|split; assumption].
        -- intros ([A|A] & B & (b' & E' & P')).
           ++ subst a. rewrite Eb in E'. inversion E'; subst b'. congruence.
           ++ split; [exact A|]. split; [exact B|]. exists b'. split; assumption.
Qed.

Lemma all_nbrs_from_nth : forall e n vs rs, all_nbrs_from e n vs = Some rs ->
  length rs = length vs /\
  forall k, k < length vs -> nbrs_scan e (nth k vs 0) (seq 0 n) = Some (nth k rs []).
Proof.
  intros e n vs. induction vs as [|v vs IH]; intros rs H; cbn [all_nbrs_from] in H.
  - inversion H; subst. split; [reflexivity|]. intros k Hk. cbn in Hk. lia.
  - destruct (nbrs_scan e v (seq 0 n)) as [r|] eqn:R; [|discriminate].
    destruct (all_nbrs_from e n vs) as [rs0|] eqn:RS; [|discriminate]. inversion H; subst rs.
    destruct (IH rs0 eq_refl) as [L N0]. split; [cbn [length]; lia|].
    intros [|k] Hk; cbn [nth]; [exact R|]. apply N0. cbn [length] in Hk. lia.
Qed.

Lemma all_nbrs_adj : forall g nb, wfv g -> all_nbrs g = Some nb ->
  forall u v, u < nv_of g -> v < nv_of g -> nb_adj nb u v = vadj g u v.
Proof.
  intros [[[n ne] d] e] nb W H u v Hu Hv. cbn [all_nbrs nv_of vadj] in *.
  destruct (all_nbrs_from_nth e n (seq 0 n) nb H) as [L N0].
  rewrite seq_length in *. specialize (N0 u Hu). rewrite seq_nth in N0 by exact Hu. cbn [plus] in N0.
  unfold nb_adj. apply eq_true_iff_eq. rewrite existsb_exists. split.
  - intros [x [Hx E]]. apply Nat.eqb_eq in E. subst x.
    apply (nbrs_scan_In _ _ _ _ N0) in Hx. destruct Hx as (_ & Hne & b & Eb & Pb).
    rewrite eadj_sym. destruct (wfv_edge _ _ _ _ v u W Hv Hu Hne) as (b' & Eb' & _ & _ & Q).
    rewrite Eb in Eb'. inversion Eb'; subst b'. rewrite Q. exact Pb.
  - intros Q. exists v. split; [|apply Nat.eqb_refl].
    assert (Hne : v <> u) by (intros ->; rewrite eadj_irrefl in Q; discriminate).
    apply (nbrs_scan_In _ _ _ _ N0). split; [apply in_seq; lia|]. split; [exact Hne|].
    destruct (wfv_edge _ _ _ _ v u W Hv Hu Hne) as (b' & Eb' & _ & _ & Q').
    exists b'. split; [exact Eb'|]. rewrite <- Q', eadj_sym. exact Q.
Qed.

(* ---------------------------------------------------------------- argmin, bcode *)

Lemma argmin_spec : forall {T} (key : T -> N) l d,
  In (argmin key l d) (d :: l) /\ forall x, In x (d :: l) -> (key (argmin key l d) <= key x)%N.
Proof.
  intros T key l. induction l as [|a l IH]; intros d; cbn [argmin].
  - split; [left; reflexivity|]. intros x [<-|[]]. lia.
  - destruct (N.ltb_spec (key a) (key d)) as [Lt|Ge].
    + destruct (IH a) as [I M]. split.
      * destruct I as [I|I]; [right; left; exact I|right; right; exact I].
      * intros x [<-|[<-|Hx]].
        -- specialize (M a (or_introl eq_refl)). lia.
        -- apply M. left. reflexivity.
        -- apply M. right. exact Hx.
    + destruct (IH d) as [I M]. split.
      * destruct I as [I|I]; [left; exact I|right; right; exact I].
      * intros x [<-|[<-|Hx]].
        -- apply M. left. reflexivity.
        -- specialize (M d (or_introl eq_refl)). lia.
        -- apply M. right. exact Hx.
Qed.

Lemma bcode_inj : forall l f f' acc acc', bcode f l acc = bcode f' l acc' ->
  acc = acc' /\ forall x, In x l -> f x = f' x.
Proof.
  intros l. induction l as [|a l IH]; intros f f' acc acc' H; cbn [bcode fold_left] in H.
  - split; [exact H|intros x []].
  - apply IH in H. destruct H as [E R].
    assert (acc = acc' /\ f a = f' a) as [E1 E2] by (destruct (f a), (f' a); split; try reflexivity; lia).
    split; [exact E1|]. intros x [<-|Hx]; [exact E2|apply R; exact Hx].
Qed.

Lemma bcode_ext : forall l f f' acc, (forall x, In x l -> f x = f' x) -> bcode f l acc = bcode f' l acc.
Proof.
  intros l. induction l as [|a l IH]; intros f f' acc H; cbn [bcode fold_left]; [reflexivity|].
  rewrite (H a (or_introl eq_refl)). apply IH. intros x Hx. apply H. right. exact Hx.
Qed.

Lemma pairs_of_In : forall n i j, In (i, j) (pairs_of n) <-> i < n /\ j < n.
Proof. intros n i j. unfold pairs_of. rewrite in_prod_iff, !in_seq. lia. Qed.

Lemma pcode_ext : forall n A A' p, is_perm n p ->
  (forall u v, u < n -> v < n -> A u v = A' u v) -> pcode n A p = pcode n A' p.
Proof.
  intros n A A' p Hp H. unfold pcode. apply bcode_ext. intros [i j] Hij. apply pairs_of_In in Hij.
  cbn [fst snd]. apply H; apply (app_lt n p); tauto.
Qed.

Lemma pcode_compose : forall n A q p, is_perm n p ->
  pcode n (fun i j => A (app q i) (app q j)) p = pcode n A (compose q p).
Proof.
  intros n A q p Hp. unfold pcode. apply bcode_ext. intros [i j] Hij. apply pairs_of_In in Hij.
  cbn [fst snd]. rewrite !app_compose by (rewrite (proj1 Hp); tauto). reflexivity.
Qed.

Lemma pcode_eq_adj : forall n A B p q, pcode n A p = pcode n B q ->
  forall i j, i < n -> j < n -> A (app p i) (app p j) = B (app q i) (app q j).
Proof.
  intros n A B p q H i j Hi Hj. unfold pcode in H. apply bcode_inj in H. destruct H as [_ H].
  apply (H (i, j)). apply pairs_of_In. auto.
Qed.

Lemma pcode_app_ext : forall n A p p', (forall i, i < n -> app p i = app p' i) ->
  pcode n A p = pcode n A p'.
Proof.
  intros n A p p' H. unfold pcode. apply bcode_ext. intros [i j] Hij. apply pairs_of_In in Hij.
  cbn [fst snd]. rewrite !H by tauto. reflexivity.
Qed.

(* ---------------------------------------------------------------- the toy labelling *)

Definition toy_auts (n : nat) (A : agraph) : list perm :=
  filter (is_automorphism n A (fun _ => 0)) (all_perms n).

Lemma toy_auts_In : forall n A A' a, (forall u v, u < n -> v < n -> A' u v = A u v) ->
  (In a (toy_auts n A') <-> autP n A a).
Proof.
  intros n A A' a H. unfold toy_auts. rewrite filter_In, all_perms_spec, is_automorphism_spec.
  unfold autP, Aut. split.
  - intros [_ (Hp & Ha & Hc)]. split; [exact Hp|]. split; [|exact Hc].
    intros i j Hi Hj. rewrite <- !H by (try apply (app_lt n a); assumption). apply Ha; assumption.
  - intros (Hp & Ha & Hc). split; [exact Hp|]. split; [exact Hp|]. split; [|exact Hc].
    intros i j Hi Hj. rewrite !H by (try apply (app_lt n a); assumption). apply Ha; assumption.
Qed.

Lemma toy_get_aut : forall g, wfv g -> exists nb, all_nbrs g = Some nb /\
  (forall cv vb, get_aut toy_canon g cv vb = Some (toy_canon (nv_of g) 0%Z nb false 0%N)) /\
  (forall u v, u < nv_of g -> v < nv_of g -> nb_adj nb u v = vadj g u v).
Proof.
  intros g W. destruct (all_nbrs_some g W) as [nb E]. exists nb. split; [exact E|]. split.
  - intros cv vb. unfold get_aut. rewrite E. destruct g as [[[n ne] d] e]. reflexivity.
  - apply all_nbrs_adj; assumption.
Qed.

Section ToyAt.
Variable g : vgraph.
Variable nb : list (list nat).
Hypothesis W : wfv g.
Hypothesis ADJ : forall u v, u < nv_of g -> v < nv_of g -> nb_adj nb u v = vadj g u v.

Let n := nv_of g.
Let c := toy_canon n 0%Z nb false 0%N.

Lemma toy_perm_spec : exists p, CPerm c = Some p /\ is_perm n p /\
  forall q, is_perm n q -> (pcode n (vadj g) p <= pcode n (vadj g) q)%N.
Proof.
  set (p := argmin (pcode n (nb_adj nb)) (all_perms n) (idp n)).
  exists p. split; [reflexivity|].
  destruct (argmin_spec (pcode n (nb_adj nb)) (all_perms n) (idp n)) as [I M]. fold p in I, M.
  assert (Hp : is_perm n p).
  { destruct I as [<-|I]; [apply idp_perm|apply all_perms_spec; exact I]. }
  split; [exact Hp|]. intros q Hq.
  rewrite <- (pcode_ext n (nb_adj nb) (vadj g) p Hp ADJ), <- (pcode_ext n (nb_adj nb) (vadj g) q Hq ADJ).
  apply M. right. apply all_perms_spec. exact Hq.
Qed.

Lemma toy_gens_spec : forall a, In a (CGens c) <-> autP n (vadj g) a.
Proof. intros a. apply (toy_auts_In n (vadj g) (nb_adj nb) a ADJ). Qed.

Lemma toy_orb_spec : orb_exact g (COrb c).
Proof.
  assert (GP : Forall (is_perm n) (CGens c)).
  { apply Forall_forall. intros a Ha. apply toy_gens_spec in Ha. apply Ha. }
  destruct (orbits_ds_spec n (CGens c) GP) as (ds & E & WFds & L & S).
  assert (EC : COrb c = ds).
  { unfold c, toy_canon. cbn [COrb]. change (filter _ (all_perms n)) with (CGens c). rewrite E. reflexivity. }
  rewrite EC. split; [exact L|]. split; [exact WFds|].
  intros x y Hx Hy. fold n. rewrite (S x y Hx Hy). split.
  - intros [a [Ga Ea]]. exists a. split; [|exact Ea].
    unfold autP. eapply generated_Aut; [|exact Ga]. intros s Hs. apply toy_gens_spec. exact Hs.
  - intros [a [Ha Ea]]. exists a. split; [|exact Ea]. apply gen_in. apply toy_gens_spec. exact Ha.
Qed.

End ToyAt.

Lemma toy_label_ok : forall N, canon_label_ok toy_canon N.
Proof.
  intros N g h cg ch pg ph q Wg Wh NV _ Eg Eh Pg Ph Hq.
  destruct (toy_get_aut g Wg) as (nbg & _ & GAg & ADJg).
  destruct (toy_get_aut h Wh) as (nbh & _ & GAh & ADJh).
  unfold answer in Eg, Eh. rewrite GAg in Eg. rewrite GAh in Eh. inversion Eg; subst cg. inversion Eh; subst ch.
  destruct (toy_perm_spec g nbg ADJg) as (pg' & Pg' & Hpg & Mg). rewrite Pg in Pg'. inversion Pg'; subst pg'.
  destruct (toy_perm_spec h nbh ADJh) as (ph' & Ph' & Hph & Mh). rewrite Ph in Ph'. inversion Ph'; subst ph'.
  rewrite <- NV in Hph, Mh. set (n := nv_of g) in *.
  destruct Hq as [Pq HB].
  assert (CODE : forall p, is_perm n p -> pcode n (vadj h) p = pcode n (vadj g) (compose q p)).
  { intros p Hp. rewrite <- pcode_compose by exact Hp. apply pcode_ext; [exact Hp|]. exact HB. }
  assert (LE1 : (pcode n (vadj g) pg <= pcode n (vadj h) ph)%N).
  { rewrite (CODE ph Hph). apply Mg. apply compose_perm; assumption. }
  assert (LE2 : (pcode n (vadj h) ph <= pcode n (vadj g) pg)%N).
  { replace (pcode n (vadj g) pg) with (pcode n (vadj h) (compose (inv q) pg)).
    - apply Mh. apply compose_perm; [apply inv_perm; exact Pq|exact Hpg].
    - rewrite CODE by (apply compose_perm; [apply inv_perm; exact Pq|exact Hpg]).
      apply pcode_app_ext. intros i Hi.
      rewrite app_compose by (rewrite compose_length, (proj1 Hpg); exact Hi).
      rewrite app_compose by (rewrite (proj1 Hpg); exact Hi).
      apply (app_inv_r n); [exact Pq|]. apply (app_lt n pg); assumption. }
  apply pcode_eq_adj. lia.
Qed.

(* ---------------------------------------------------------------- masks *)

Lemma mask_of_testbit : forall l j, N.testbit (mask_of l) (N.of_nat j) = existsb (Nat.eqb j) l.
Proof.
  intros l j. induction l as [|v l IH]; cbn [mask_of fold_right existsb]; [apply N.bits_0|].
  fold (mask_of l). rewrite N.setbit_eqb, IH. f_equal.
  destruct (Nat.eqb_spec j v) as [->|H]; [apply N.eqb_refl|]. apply N.eqb_neq. lia.
Qed.

Lemma mask_of_In : forall l j, In j (bits_of (mask_of l)) <-> In j l.
Proof.
  intros l j. rewrite bits_of_In, mask_of_testbit, existsb_exists. split.
  - intros [x [Hx E]]. apply Nat.eqb_eq in E. subst x. exact Hx.
  - intros H. exists j. split; [exact H|apply Nat.eqb_refl].
Qed.

Lemma N_bits_ext : forall x y, (forall j, N.testbit x (N.of_nat j) = N.testbit y (N.of_nat j)) -> x = y.
Proof. intros x y H. apply N.bits_inj. intros m. rewrite <- (N2Nat.id m). apply H. Qed.

Lemma mask_of_ext : forall l l', (forall j, In j l <-> In j l') -> mask_of l = mask_of l'.
Proof.
  intros l l' H. apply N_bits_ext. intros j. apply eq_true_iff_eq.
  rewrite <- !bits_of_In, !mask_of_In. apply H.
Qed.

Lemma mask_bits : forall x, mask_of (bits_of x) = x.
Proof.
  intros x. apply N_bits_ext. intros j. apply eq_true_iff_eq.
  rewrite <- !bits_of_In, mask_of_In. reflexivity.
Qed.

Lemma below_bits : forall x n, (x < 2 ^ N.of_nat n)%N -> forall j, In j (bits_of x) -> j < n.
Proof.
  intros x n Hx j Hj. apply bits_of_In in Hj.
  destruct (Nat.lt_ge_cases j n) as [H|H]; [exact H|exfalso].
  destruct (N.eq_dec x 0) as [->|Hx0]; [rewrite N.bits_0 in Hj; discriminate|].
  assert (L : (N.log2 x < N.of_nat n)%N) by (apply N.log2_lt_pow2; lia).
  rewrite N.bits_above_log2 in Hj by lia. discriminate.
Qed.

Lemma bits_below : forall x n, (forall j, In j (bits_of x) -> j < n) -> (x < 2 ^ N.of_nat n)%N.
Proof.
  intros x n H. destruct (N.eq_dec x 0) as [->|Hx0].
  - apply N.neq_0_lt_0. apply N.pow_nonzero. discriminate.
  - apply N.log2_lt_pow2; [lia|].
    assert (B : In (N.to_nat (N.log2 x)) (bits_of x)).
    { apply bits_of_In. rewrite N2Nat.id. apply N.bit_log2. exact Hx0. }
    specialize (H _ B). lia.
Qed.

Lemma all_masks_In : forall x n, In x (map N.of_nat (seq 0 (2 ^ n))) <-> (x < 2 ^ N.of_nat n)%N.
Proof.
  intros x n. rewrite in_map_iff. split.
  - intros [k [<- Hk]]. apply in_seq in Hk.
    change 2%N with (N.of_nat 2). rewrite <- Nat2N.inj_pow. lia.
  - intros H. exists (N.to_nat x). split; [apply N2Nat.id|]. apply in_seq.
    assert (N.of_nat (2 ^ n) = (2 ^ N.of_nat n)%N) by (rewrite Nat2N.inj_pow; reflexivity). lia.
Qed.

Lemma all_masks_NoDup : forall n, NoDup (map N.of_nat (seq 0 (2 ^ n))).
Proof.
  intros n. apply FinFun.Injective_map_NoDup; [|apply seq_NoDup]. intros a b. apply Nat2N.inj.
Qed.

(* ---------------------------------------------------------------- k-subset representatives *)

Lemma toy_ksub_transversal : forall n A gens k,
  (forall a, In a gens <-> autP n A a) -> transversal n A k (toy_ksub n k gens).
Proof.
  intros n A gens k G.
  assert (MEM : forall x, In x (toy_ksub n k gens) <->
            (x < 2 ^ N.of_nat n)%N /\ length (bits_of x) = k /\
            forall a, autP n A a -> (x <= mask_of (map (app a) (bits_of x)))%N).
  { intros x. unfold toy_ksub. rewrite filter_In, all_masks_In, andb_true_iff, Nat.eqb_eq, forallb_forall.
    split.
    - intros (H1 & H2 & H3). split; [exact H1|]. split; [exact H2|].
      intros a Ha. apply N.leb_le. apply H3. apply G. exact Ha.
    - intros (H1 & H2 & H3). split; [exact H1|]. split; [exact H2|].
      intros a Ha. apply N.leb_le. apply H3. apply G. exact Ha. }
  (* an equivalence of masks by a gives the mask of the image *)
  assert (IMG : forall S T a, autP n A a -> (forall v, In v S -> v < n) -> (forall v, In v T -> v < n) ->
            (forall j, j < n -> (In j S <-> In (app a j) T)) -> mask_of T = mask_of (map (app a) S)).
  { intros S T a Ha LS LT H. pose proof (autP_perm _ _ _ Ha) as Pa. apply mask_of_ext. intros t. rewrite in_map_iff. split.
    - intros Ht. exists (app (inv a) t). specialize (LT t Ht).
      split; [apply (app_inv_r n); assumption|].
      apply H; [apply (inv_lt n a); assumption|]. rewrite (app_inv_r n) by assumption. exact Ht.
    - intros [j [<- Hj]]. apply H; [apply LS; exact Hj|exact Hj]. }
  split; [|split].
  - intros x Hx. apply MEM in Hx. destruct Hx as (H1 & H2 & _).
    split; [apply bits_of_NoDup|]. split; [exact H2|]. apply below_bits. exact H1.
  - (* completeness: the least image of S *)
    intros S (ND & LS & LT).
    set (key := fun a => mask_of (map (app a) S)).
    destruct (argmin_spec key gens (idp n)) as [I M].
    set (a0 := argmin key gens (idp n)) in *.
    assert (Ha0 : autP n A a0).
    { destruct I as [<-|I]; [apply autP_id|apply G; exact I]. }
    pose proof (autP_perm _ _ _ Ha0) as Pa0.
    set (x := key a0).
    assert (BX : forall j, In j (bits_of x) <-> In j (map (app a0) S)) by (intros j; apply mask_of_In).
    assert (LX : forall j, In j (bits_of x) -> j < n).
    { intros j Hj. apply BX in Hj. apply in_map_iff in Hj. destruct Hj as [s [<- Hs]].
      apply (app_lt n a0); [exact Pa0|apply LT; exact Hs]. }
    exists x. split.
    + apply MEM. split; [apply bits_below; exact LX|]. split.
      * rewrite <- LS, <- (map_length (app a0) S). apply Permutation_length. apply NoDup_Permutation.
        -- apply bits_of_NoDup.
        -- apply (map_app_NoDup n); assumption.
        -- exact BX.
      * intros b Hb. pose proof (autP_perm _ _ _ Hb) as Pb.
        replace (mask_of (map (app b) (bits_of x))) with (key (compose b a0)).
        -- apply M. right. apply G. apply autP_comp; assumption.
        -- unfold key. apply mask_of_ext. intros t. rewrite !in_map_iff. split.
           ++ intros [s [<- Hs]]. exists (app a0 s). split.
              ** symmetry. apply app_compose. rewrite (proj1 Pa0). apply LT. exact Hs.
              ** apply BX. apply in_map. exact Hs.
           ++ intros [j [<- Hj]]. apply BX in Hj. apply in_map_iff in Hj. destruct Hj as [s [<- Hs]].
              exists s. split; [|exact Hs]. apply app_compose. rewrite (proj1 Pa0). apply LT. exact Hs.
    + exists a0. split; [exact Ha0|]. intros j Hj. rewrite BX, in_map_iff. split.
      * intros Hs. exists j. split; [reflexivity|exact Hs].
      * intros [s [E Hs]]. apply (app_inj n a0) in E; [subst s; exact Hs|exact Pa0|apply LT; exact Hs|exact Hj].
  - (* two equivalent least masks are equal *)
    assert (ND : NoDup (toy_ksub n k gens)) by (apply NoDup_filter, all_masks_NoDup).
    eapply FOP_impl; [|apply FOP_NoDup; exact ND]. intros x y Hx Hy NE Q. apply NE.
    apply MEM in Hx, Hy. destruct Hx as (X1 & _ & X3). destruct Hy as (Y1 & _ & Y3).
    pose proof (below_bits x n X1) as LX. pose proof (below_bits y n Y1) as LY.
    destruct Q as [a [Ha H]].
    assert (E1 : y = mask_of (map (app a) (bits_of x))).
    { rewrite <- (mask_bits y) at 1. apply (IMG _ _ a Ha LX LY H). }
    destruct (sub_equiv_sym n A _ _ (ex_intro _ a (conj Ha H))) as [b [Hb H']].
    assert (E2 : x = mask_of (map (app b) (bits_of y))).
    { rewrite <- (mask_bits x) at 1. apply (IMG _ _ b Hb LY LX H'). }
    specialize (X3 a Ha). specialize (Y3 b Hb). rewrite <- E1 in X3. rewrite <- E2 in Y3. lia.
Qed.

(* ---------------------------------------------------------------- the specification holds *)

Theorem toy_canon_spec : forall N, canon_spec toy_canon toy_ksub N.
Proof.
  intros N. split; [apply toy_label_ok|].
  intros g c W HN E. destruct (toy_get_aut g W) as (nb & _ & GA & ADJ).
  unfold answer in E. rewrite GA in E. inversion E; subst c. clear E.
  constructor.
  - destruct (toy_perm_spec g nb ADJ) as (p & P & Hp & _). exists p. auto.
  - apply toy_orb_spec; assumption.
  - intros k Hk. apply toy_ksub_transversal. intros a. apply toy_gens_spec. exact ADJ.
  - intros vb c' _ GA'. rewrite GA in GA'. inversion GA'. left. reflexivity.
Qed.

Lemma toy_novb : canon_ignores_stale_bits toy_canon.
Proof. intros n m nb vb vb'. reflexivity. Qed.
