(* C03: the shards partition the unsplit search (on the recursive presentation
   [ShardModel.spec], hence by ShardSim.outputs_spec on the model of Next).

   [spec_shards]: if the unsplit search (a = 0, m = 1) ends without panic with output L, then
   for every m >= 1 no shard (a, m), a < m, panics, and the outputs of the m shards, appended
   in the order a = 0 .. m-1, are a permutation of L.  This holds for every canonical
   labelling [canon], every [ksub_reps] and every pair of pruning functions: the split discards
   exactly the children with index i mod m <> a at the one level [split_level n], and every
   path from the root to an output crosses that level exactly once. *)
From Coq Require Import List NArith ZArith Arith Bool Lia Permutation.
From Coq Require Import ZifyNat ZifyBool.
From Mamba Require Import Disjoint.Model Search.Model Search.ShardModel.
Import ListNotations.
Local Open Scope nat_scope.

Ltac Zify.zify_post_hook ::= Z.div_mod_to_equations.

Definition out {A} (o : option (list A)) : list A := match o with Some l => l | None => [] end.

(* ---------------------------------------------------------------- lists *)

Lemma flat_map_app_perm : forall {A B} (F G : A -> list B) l,
  Permutation (flat_map (fun a => F a ++ G a) l) (flat_map F l ++ flat_map G l).
Proof.
  intros A B F G l. induction l as [|x l IH]; cbn [flat_map]; [constructor|].
  rewrite <- !app_assoc. apply Permutation_app_head.
  rewrite IH. rewrite !app_assoc. apply Permutation_app_tail. apply Permutation_app_comm.
Qed.

Lemma flat_map_ext_in : forall {A B} (F G : A -> list B) l,
  (forall a, In a l -> F a = G a) -> flat_map F l = flat_map G l.
Proof.
  intros A B F G l. induction l as [|x l IH]; intros H; cbn [flat_map]; [reflexivity|].
  rewrite (H x (or_introl eq_refl)), IH; [reflexivity|]. intros a Ha. apply H. now right.
Qed.

Lemma flat_map_nil : forall {A B} (l : list A), flat_map (fun _ => @nil B) l = [].
Proof. intros A B l. induction l; cbn; auto. Qed.

Lemma flat_map_one : forall {B} (X : list B) (G : nat -> list B) a0 l,
  NoDup l -> In a0 l ->
  Permutation (flat_map (fun a => if a =? a0 then X ++ G a else G a) l) (X ++ flat_map G l).
Proof.
  intros B X G a0 l. induction l as [|x l IH]; intros ND HI; [contradiction|].
  inversion ND as [|? ? Hx ND']; subst. cbn [flat_map].
  destruct (x =? a0) eqn:E.
  - apply Nat.eqb_eq in E. subst x. rewrite <- app_assoc. apply Permutation_app_head.
    apply Permutation_app_head.
    rewrite (flat_map_ext_in (fun a => if a =? a0 then X ++ G a else G a) G); [reflexivity|].
    intros a Ha. destruct (a =? a0) eqn:Q; [|reflexivity].
    apply Nat.eqb_eq in Q. subst a. contradiction.
  - apply Nat.eqb_neq in E. destruct HI as [->|HI]; [contradiction|].
    rewrite (IH ND' HI). rewrite !app_assoc. apply Permutation_app_tail. apply Permutation_app_comm.
Qed.

Lemma flat_map_nth_concat : forall {B} (Ls : list (list B)),
  flat_map (fun a => nth a Ls []) (seq 0 (length Ls)) = concat Ls.
Proof.
  intros B Ls. induction Ls as [|l Ls IH]; [reflexivity|].
  cbn [length seq flat_map concat nth]. f_equal. rewrite <- seq_shift, flat_map_concat_map, map_map.
  rewrite <- flat_map_concat_map. exact IH.
Qed.

(* ---------------------------------------------------------------- the split level *)

Lemma split_level_range : forall n, 2 <= n ->
  (1 <= split_level n)%Z /\ (split_level n <= Z.of_nat n - 1)%Z.
Proof. intros n H. unfold split_level. lia. Qed.

Lemma skip_unsplit : forall n lv i, skip n 0 1 lv i = false.
Proof. intros n lv i. unfold skip. rewrite Nat.mod_1_r. reflexivity. Qed.

Lemma skip_off_level : forall n a m lv i, Z.of_nat lv <> split_level n -> skip n a m lv i = false.
Proof.
  intros n a m lv i H. unfold skip. apply andb_false_iff. right. apply Z.eqb_neq. exact H.
Qed.

Lemma skip_on_level : forall n a m lv i, Z.of_nat lv = split_level n ->
  skip n a m lv i = negb (i mod m =? a).
Proof. intros n a m lv i H. unfold skip. rewrite H, Z.eqb_refl. apply andb_true_r. Qed.

Section Shards.
Variable canon : nat -> Z -> list (list nat) -> bool -> N -> cache.
Variable ksub_reps : nat -> nat -> list (list nat) -> list N.
Variables preprune prune : vgraph -> bool.
Variables n m : nat.
Hypothesis m1 : 1 <= m.

Notation child' := (child canon preprune prune).
Notation T a := (tree canon ksub_reps preprune prune n a m).
Notation T0 := (tree canon ksub_reps preprune prune n 0 1).
Notation S a := (sibs canon preprune prune n a m).
Notation S0 := (sibs canon preprune prune n 0 1).

Lemma child_nv : forall g x g' c, child' g x = CAccept g' c -> nv_of g' = Datatypes.S (nv_of g).
Proof.
  intros [[[nv ne] d] e] x g' c H. unfold child, add_v in H.
  destruct (mark _ _ _ _) as [[e1 d1]|]; [|discriminate].
  destruct (preprune _); [discriminate|].
  destruct (is_canonical _ _ _ _ _) as [[[b c1] vb]|]; [|discriminate].
  destruct (b && _); [|discriminate]. inversion H. reflexivity.
Qed.

Lemma m_neq0 : (m =? 0) = false.
Proof. apply Nat.eqb_neq. lia. Qed.

(* below the split level every shard does what the unsplit search does *)
Lemma sibs_same : forall a rec rec0 g xs,
  Z.of_nat (nv_of g) <> split_level n ->
  (forall g' c', nv_of g' = Datatypes.S (nv_of g) -> rec g' c' = rec0 g' c') ->
  S a rec g xs = S0 rec0 g xs.
Proof.
  intros a rec rec0 g xs LV R. induction xs as [|x xs IH]; [reflexivity|].
  cbn [sibs]. rewrite m_neq0. cbn [Nat.eqb].
  rewrite skip_unsplit, (skip_off_level _ _ _ _ _ LV), IH.
  destruct (child' g x) as [| |g' c'] eqn:CH; try reflexivity.
  rewrite (R g' c' (child_nv _ _ _ _ CH)). reflexivity.
Qed.

Lemma tree_same : forall a d g c, (split_level n < Z.of_nat (nv_of g))%Z -> T a d g c = T0 d g c.
Proof.
  intros a d. induction d as [|d IH]; intros g c H; [reflexivity|].
  cbn [tree]. destruct (add_augs canon ksub_reps g c 0) as [[masks c2]|]; [|reflexivity].
  apply sibs_same; [lia|]. intros g' c' NV. apply IH. lia.
Qed.

(* the statement proved for the subtrees above the split level *)
Definition part (fa : nat -> option (list vgraph)) (L : list vgraph) : Prop :=
  (forall a, a < m -> fa a <> None) /\
  Permutation (flat_map (fun a => out (fa a)) (seq 0 m)) L.

Lemma part_nil : part (fun _ => Some []) [].
Proof.
  split; [intros; discriminate|]. cbn [out]. rewrite flat_map_nil. constructor.
Qed.

Lemma part_ext : forall fa fb L, (forall a, a < m -> fa a = fb a) -> part fa L -> part fb L.
Proof.
  intros fa fb L E [P1 P2]. split.
  - intros a Ha. rewrite <- (E a Ha). auto.
  - rewrite <- (flat_map_ext_in (fun a => out (fa a))); [exact P2|].
    intros a Ha. apply in_seq in Ha. rewrite (E a); [reflexivity|lia].
Qed.

(* children of g are dealt to the shards *)
Lemma sibs_split : forall (rec : nat -> vgraph -> cache -> option (list vgraph)) rec0 g xs L,
  Z.of_nat (nv_of g) = split_level n ->
  (forall a g' c', nv_of g' = Datatypes.S (nv_of g) -> rec a g' c' = rec0 g' c') ->
  S0 rec0 g xs = Some L ->
  part (fun a => S a (rec a) g xs) L.
Proof.
  intros rec rec0 g xs. induction xs as [|x xs IH]; intros L LV R H.
  - inversion H; subst. exact part_nil.
  - cbn [sibs] in H. cbn [Nat.eqb] in H. rewrite skip_unsplit in H.
    set (a0 := length xs mod m).
    assert (A0 : a0 < m) by (apply Nat.mod_upper_bound; lia).
    assert (STEP : forall a, S a (rec a) g (x :: xs) =
              if a =? a0 then
                match child' g x with
                | CCrash => None
                | CReject => S a (rec a) g xs
                | CAccept g' c' => match rec a g' c' with
                                   | None => None
                                   | Some l1 => match S a (rec a) g xs with
                                                | None => None | Some l2 => Some (l1 ++ l2) end
                                   end
                end
              else S a (rec a) g xs).
    { intros a. cbn [sibs]. rewrite m_neq0, (skip_on_level _ _ _ _ _ LV). fold a0.
      rewrite (Nat.eqb_sym a a0).
      destruct (a0 =? a); cbn [negb]; [|reflexivity].
      reflexivity. }
    destruct (child' g x) as [| |g' c'] eqn:CH; [discriminate| |].
    + specialize (IH L LV R H). eapply part_ext; [|exact IH].
      intros a Ha. rewrite STEP. destruct (a =? a0); reflexivity.
    + assert (RR : forall a, rec a g' c' = rec0 g' c') by (intros a; apply R; eapply child_nv; eauto).
      destruct (rec0 g' c') as [l1|] eqn:R1; [|discriminate].
      destruct (S0 rec0 g xs) as [l2|] eqn:S2; [|discriminate].
      inversion H; subst L. destruct (IH l2 LV R eq_refl) as [P1 P2].
      split.
      * intros a Ha. rewrite STEP, RR. specialize (P1 a Ha).
        destruct (S a (rec a) g xs); [|contradiction]. destruct (a =? a0); discriminate.
      * rewrite (flat_map_ext_in _ (fun a => if a =? a0 then l1 ++ out (S a (rec a) g xs)
                                               else out (S a (rec a) g xs))).
        -- rewrite flat_map_one; [|apply seq_NoDup|apply in_seq; lia].
           apply Permutation_app_head. exact P2.
        -- intros a Ha. apply in_seq in Ha. rewrite STEP, RR. specialize (P1 a ltac:(lia)).
           destruct (S a (rec a) g xs); [|contradiction]. destruct (a =? a0); reflexivity.
Qed.

(* above the split level every shard descends into every child *)
Lemma sibs_above : forall (rec : nat -> vgraph -> cache -> option (list vgraph)) rec0 g xs L,
  Z.of_nat (nv_of g) <> split_level n ->
  (forall g' c' L', nv_of g' = Datatypes.S (nv_of g) -> rec0 g' c' = Some L' ->
                    part (fun a => rec a g' c') L') ->
  S0 rec0 g xs = Some L ->
  part (fun a => S a (rec a) g xs) L.
Proof.
  intros rec rec0 g xs. induction xs as [|x xs IH]; intros L LV R H.
  - inversion H; subst. exact part_nil.
  - cbn [sibs] in H. cbn [Nat.eqb] in H. rewrite skip_unsplit in H.
    assert (STEP : forall a, S a (rec a) g (x :: xs) =
                match child' g x with
                | CCrash => None
                | CReject => S a (rec a) g xs
                | CAccept g' c' => match rec a g' c' with
                                   | None => None
                                   | Some l1 => match S a (rec a) g xs with
                                                | None => None | Some l2 => Some (l1 ++ l2) end
                                   end
                end).
    { intros a. cbn [sibs]. rewrite m_neq0, (skip_off_level _ _ _ _ _ LV). reflexivity. }
    destruct (child' g x) as [| |g' c'] eqn:CH; [discriminate| |].
    + specialize (IH L LV R H). eapply part_ext; [|exact IH]. intros a Ha. rewrite STEP. reflexivity.
    + destruct (rec0 g' c') as [l1|] eqn:R1; [|discriminate].
      destruct (S0 rec0 g xs) as [l2|] eqn:S2; [|discriminate].
      inversion H; subst L. destruct (IH l2 LV R eq_refl) as [P1 P2].
      destruct (R g' c' l1 (child_nv _ _ _ _ CH) R1) as [Q1 Q2].
      split.
      * intros a Ha. rewrite STEP. specialize (P1 a Ha). specialize (Q1 a Ha).
        destruct (rec a g' c'); [|contradiction].
        destruct (S a (rec a) g xs); [discriminate|contradiction].
      * rewrite (flat_map_ext_in _ (fun a => out (rec a g' c') ++ out (S a (rec a) g xs))).
        -- rewrite flat_map_app_perm. apply Permutation_app; assumption.
        -- intros a Ha. apply in_seq in Ha. rewrite STEP.
           specialize (P1 a ltac:(lia)). specialize (Q1 a ltac:(lia)).
           destruct (rec a g' c'); [|contradiction].
           destruct (S a (rec a) g xs); [reflexivity|contradiction].
Qed.

Lemma tree_part : forall d g c L, 2 <= n -> n = nv_of g + d ->
  (Z.of_nat (nv_of g) <= split_level n)%Z ->
  T0 d g c = Some L -> part (fun a => T a d g c) L.
Proof.
  intros d. induction d as [|d IH]; intros g c L N2 ND LV H.
  - pose proof (split_level_range n N2). lia.
  - cbn [tree] in *.
    destruct (add_augs canon ksub_reps g c 0) as [[masks c2]|]; [|discriminate].
    destruct (Z.eq_dec (Z.of_nat (nv_of g)) (split_level n)) as [E|NE].
    + apply (sibs_split (fun a => T a d) (T0 d)); [exact E| |exact H].
      intros a g' c' NV. apply tree_same. lia.
    + apply (sibs_above (fun a => T a d) (T0 d)); [exact NE| |exact H].
      intros g' c' L' NV R. apply IH; [exact N2|lia|lia|exact R].
Qed.

Theorem spec_part : forall L,
  spec canon ksub_reps preprune prune n 0 1 = Some L ->
  part (fun a => spec canon ksub_reps preprune prune n a m) L.
Proof.
  intros L H. unfold spec in *.
  assert (SM : seq 0 m = 0 :: seq 1 (m - 1)).
  { destruct m as [|k] eqn:Em; [lia|]. cbn [seq]. replace (Datatypes.S k - 1) with k by lia. reflexivity. }
  assert (SMALL : forall (b : nat -> bool) (g : vgraph),
            (forall a, 1 <= a -> b a = false) ->
            part (fun a => Some (if b a then [g] else [])) (if b 0 then [g] else [])).
  { intros b g Hb. split; [intros; discriminate|]. rewrite SM. cbn [flat_map out].
    rewrite (flat_map_ext_in _ (fun _ => [])).
    - rewrite flat_map_nil, app_nil_r. reflexivity.
    - intros a Ha. apply in_seq in Ha. rewrite Hb by lia. reflexivity. }
  destruct n as [|[|n2]] eqn:En.
  - inversion H; subst L. cbn [Nat.eqb andb].
    apply (SMALL (fun a => (a =? 0) && negb (preprune g0) && negb (prune g0)) g0).
    intros a Ha. destruct a; [lia|reflexivity].
  - inversion H; subst L. cbn [Nat.eqb andb].
    apply (SMALL (fun a => (a =? 0) && negb (preprune g1) && negb (prune g1)) g1).
    intros a Ha. destruct a; [lia|reflexivity].
  - destruct (preprune g1 || prune g1).
    + inversion H; subst. exact part_nil.
    + rewrite <- En in *. apply tree_part; [lia|cbn; lia| |exact H].
      pose proof (split_level_range n ltac:(lia)). cbn. lia.
Qed.

End Shards.
