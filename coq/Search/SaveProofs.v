(* C04: proofs about Save / Load on the model of the search iterator (Search/Model.v).

   Main results (Section Save, for every grow, ksub_reps, preprune, prune and every canon that
   ignores ViableBits when CheckViability is false):
   - [next_noninterference]: two states satisfying the between-calls invariant [inv] and having
     the same saved projection give, under Next, the same answer and successor states with the
     same saved projection (or both panic / both run out of fuel): the automorphism cache,
     options.ViableBits and the invisible parts of the backing arrays are dead between calls;
   - [next_inv], [init_inv], [load_save]: [inv] holds initially, is preserved by Next, and
     Load (Save s) succeeds on a state with [inv], has the same projection and [inv] again;
   - [advance_noninterference], [resume_exact], [chain_exact]: by induction, the remaining
     observation sequences coincide, for every position and chains of any length. *)
From Coq Require Import List NArith ZArith Arith Bool Lia.
From Mamba Require Import Disjoint.Model Search.Model Search.SaveModel.
Import ListNotations.
Local Open Scope nat_scope.

(* ---------------------------------------------------------------- arithmetic, lists *)

Lemma tri_S : forall v, tri (S v) = tri v + v.
Proof.
  intros v. unfold tri. replace (S v - 1) with v by lia.
  replace (S v * v) with (v * (v - 1) + v * 2).
  - rewrite Nat.div_add by lia. reflexivity.
  - destruct v as [|w]; [reflexivity|]. replace (S w - 1) with w by lia. ring.
Qed.

Lemma tri_0 : tri 0 = 0.
Proof. reflexivity. Qed.

Lemma tri_1 : tri 1 = 0.
Proof. reflexivity. Qed.

Lemma tri_mono : forall v w, v <= w -> tri v <= tri w.
Proof.
  intros v w H. induction H as [|w H IH]; [lia|]. rewrite tri_S. lia.
Qed.

Lemma firstn_repeat : forall {A} (x : A) k n, firstn k (repeat x n) = repeat x (Nat.min k n).
Proof.
  intros A x k. induction k as [|k IH]; intros n; [reflexivity|].
  destruct n as [|n]; [reflexivity|]. cbn [repeat firstn Nat.min]. rewrite IH. reflexivity.
Qed.

Lemma skipn_repeat : forall {A} (x : A) k n, skipn k (repeat x n) = repeat x (n - k).
Proof.
  intros A x k. induction k as [|k IH]; intros n.
  - rewrite Nat.sub_0_r. reflexivity.
  - destruct n as [|n]; [reflexivity|]. cbn [repeat skipn Nat.sub]. apply IH.
Qed.

Lemma rev_inj : forall {A} (l1 l2 : list A), rev l1 = rev l2 -> l1 = l2.
Proof.
  intros A l1 l2 H. rewrite <- (rev_involutive l1), <- (rev_involutive l2), H. reflexivity.
Qed.

Lemma reslice_le : forall {A} k (v t : list A), k <= length v ->
  reslice k v t = Some (firstn k v, skipn k v ++ t).
Proof.
  intros A k v t H. unfold reslice.
  rewrite (proj2 (Nat.leb_le _ _)) by lia.
  rewrite firstn_app, skipn_app. replace (k - length v) with 0 by lia.
  cbn [firstn skipn]. rewrite app_nil_r. reflexivity.
Qed.

Lemma set_nth_length : forall {A} (l : list A) i x l', set_nth l i x = Some l' -> length l' = length l.
Proof.
  intros A l. induction l as [|a l IH]; intros i x l' H; [discriminate|].
  destruct i as [|i]; cbn [set_nth] in H.
  - inversion H; reflexivity.
  - destruct (set_nth l i x) as [r|] eqn:E; [|discriminate]. inversion H; subst.
    cbn [length]. f_equal. eapply IH; eauto.
Qed.

Lemma copy_into_same_length : forall {A} (dst src : list A), length dst = length src ->
  copy_into dst src = src.
Proof.
  intros A dst src H. unfold copy_into. rewrite H, firstn_all, skipn_all2 by lia.
  apply app_nil_r.
Qed.

(* ---------------------------------------------------------------- DenseGraph operations *)

Lemma mark_length : forall nb off e d e' d', mark nb off e d = Some (e', d') ->
  length e' = length e /\ length d' = length d.
Proof.
  intros nb. induction nb as [|v nb IH]; intros off e d e' d' H; cbn [mark] in H.
  - inversion H; auto.
  - destruct (set_nth e (off + v) 1%N) as [e1|] eqn:E1; [|discriminate].
    destruct (nth_error d v) as [dv|]; [|discriminate].
    destruct (set_nth d v (dv + 1)%Z) as [d1|] eqn:E2; [|discriminate].
    apply IH in H. apply set_nth_length in E1. apply set_nth_length in E2. lia.
Qed.

Lemma dec_loop_length : forall cnt i base e d d', dec_loop cnt i base e d = Some d' ->
  length d' = length d.
Proof.
  intros cnt. induction cnt as [|c IH]; intros i base e d d' H; cbn [dec_loop] in H.
  - inversion H; reflexivity.
  - destruct (nth_error e (base + i)) as [b|]; [|discriminate].
    destruct (0 <? b)%N.
    + destruct (nth_error d i) as [di|]; [|discriminate].
      destruct (set_nth d i (di - 1)%Z) as [d1|] eqn:E; [|discriminate].
      apply IH in H. apply set_nth_length in E. lia.
    + eapply IH; eauto.
Qed.

(* the visible result of AddVertex is a function of the visible graph *)
Definition add_vertex_v (g : vgraph) (nb : list nat) : option vgraph :=
  let '(nv, ne, d, e) := g in
  match mark nb (tri nv) (e ++ repeat 0%N nv) d with
  | None => None
  | Some (e1, d1) =>
    Some (S nv, (ne + Z.of_nat (length nb))%Z, d1 ++ [Z.of_nat (length nb)], e1)
  end.

Lemma add_vertex_vis : forall grow g nb, length (Edg g) = tri (NV g) ->
  option_map vis (add_vertex grow g nb) = add_vertex_v (vis g) nb.
Proof.
  intros grow g nb HE. unfold add_vertex, add_vertex_v, vis.
  assert (E0 : fst (if tri (NV g) + NV g <=? length (Edg g ++ EdgTail g)
               then (firstn (tri (NV g)) (Edg g ++ EdgTail g) ++ repeat 0%N (NV g),
                     skipn (tri (NV g) + NV g) (Edg g ++ EdgTail g))
               else (firstn (tri (NV g) + NV g) (Edg g ++ repeat 0%N (tri (NV g) + NV g)), []))
             = Edg g ++ repeat 0%N (NV g)).
  { destruct (tri (NV g) + NV g <=? length (Edg g ++ EdgTail g)); cbn [fst].
    - rewrite firstn_app, <- HE, firstn_all, Nat.sub_diag. cbn [firstn]. rewrite app_nil_r. reflexivity.
    - rewrite firstn_app, <- HE. rewrite firstn_all2 by lia.
      replace (length (Edg g) + NV g - length (Edg g)) with (NV g) by lia.
      rewrite firstn_repeat. rewrite Nat.min_l by lia. reflexivity. }
  destruct (if tri (NV g) + NV g <=? length (Edg g ++ EdgTail g) then _ else _) as [e0 et].
  cbn [fst] in E0. subst e0.
  destruct (mark nb (tri (NV g)) (Edg g ++ repeat 0%N (NV g)) (Deg g)) as [[e1 d1]|]; [|reflexivity].
  destruct (DegTail g); reflexivity.
Qed.

Lemma add_vertex_v_shape : forall nv ne d e nb nv' ne' d' e',
  length e = tri nv -> length d = nv ->
  add_vertex_v (nv, ne, d, e) nb = Some (nv', ne', d', e') ->
  nv' = S nv /\ length e' = tri nv' /\ length d' = nv'.
Proof.
  intros nv ne d e nb nv' ne' d' e' HE HD H. unfold add_vertex_v in H.
  destruct (mark nb (tri nv) (e ++ repeat 0%N nv) d) as [[e1 d1]|] eqn:M; [|discriminate].
  inversion H; subst. apply mark_length in M. destruct M as [M1 M2].
  rewrite app_length, repeat_length in M1. rewrite app_length. cbn [length].
  rewrite tri_S. lia.
Qed.

Lemma add_vertex_ginv : forall grow g nb g', ginv g -> add_vertex grow g nb = Some g' ->
  NV g' = S (NV g) /\ ginv g'.
Proof.
  intros grow g nb g' [HE HD] H.
  pose proof (add_vertex_vis grow g nb HE) as V. rewrite H in V. cbn [option_map] in V.
  unfold vis in V at 2. symmetry in V.
  destruct (vis g') as [[[nv' ne'] d'] e'] eqn:Vg'.
  apply add_vertex_v_shape in V; auto.
  unfold vis in Vg'. inversion Vg'; subst. unfold ginv. intuition.
Qed.

Lemma remove_last_vis : forall g1 g2, vis g1 = vis g2 ->
  option_map vis (remove_last g1) = option_map vis (remove_last g2).
Proof.
  intros [nv ne d dt1 e et1] [nv2 ne2 d2 dt2 e2 et2] H. unfold vis in H. cbn in H.
  inversion H; subst. unfold remove_last. cbn [NV NE Deg DegTail Edg EdgTail].
  destruct nv2 as [|v]; [reflexivity|].
  destruct (nth_error d2 v) as [dv|]; [|reflexivity].
  destruct (dec_loop v 0 (tri v) e2 d2) as [d1|]; [|reflexivity].
  destruct (tri (S v) <=? length e2) eqn:L; [|reflexivity].
  apply Nat.leb_le in L.
  assert (HL : tri v <= length (firstn (tri v) e2 ++ skipn (tri (S v)) e2 ++
                 skipn (tri v + length (skipn (tri (S v)) e2)) e2)).
  { rewrite !app_length, firstn_length, !skipn_length. rewrite tri_S in *. lia. }
  rewrite !(reslice_le _ _ _ HL). reflexivity.
Qed.

Lemma remove_last_ginv : forall g g', ginv g -> remove_last g = Some g' ->
  NV g = S (NV g') /\ ginv g'.
Proof.
  intros [nv ne d dt e et] g' [HE HD] H. unfold remove_last in H.
  cbn [NV NE Deg DegTail Edg EdgTail] in *.
  destruct nv as [|v]; [discriminate|].
  destruct (nth_error d v) as [dv|]; [|discriminate].
  destruct (dec_loop v 0 (tri v) e d) as [d1|] eqn:DL; [|discriminate].
  destruct (tri (S v) <=? length e) eqn:L; [|discriminate].
  apply Nat.leb_le in L. apply dec_loop_length in DL.
  assert (HL : tri v <= length (firstn (tri v) e ++ skipn (tri (S v)) e ++
                 skipn (tri v + length (skipn (tri (S v)) e)) e)).
  { rewrite !app_length, firstn_length, !skipn_length. rewrite tri_S in *. lia. }
  rewrite (reslice_le _ _ _ HL) in H. inversion H; subst. cbn [NV]. split; [reflexivity|].
  unfold ginv. cbn [NV Deg Edg]. split.
  - rewrite firstn_length. lia.
  - destruct d1 as [|z l]; [cbn [length] in DL; lia|].
    rewrite app_length, firstn_length, skipn_length. cbn [length] in *. lia.
Qed.

(* g.NumberOfVertices = 1; DegreeSequence[:1] on a graph with at most one vertex whose backing
   array starts with 0 while it is empty *)
Lemma set_one_spec : forall g n, ginv g -> NV g <= 1 -> 1 <= n ->
  (NV g = 0 -> firstn 1 (DegTail g) = firstn 1 (repeat 0%Z n)) ->
  exists g', set_one g = Some g' /\ ginv g' /\ NV g' = 1 /\
             vis g' = (1, NE g, firstn 1 (Deg g ++ [0%Z]), Edg g).
Proof.
  intros [nv ne d dt e et] n [HE HD] Hle Hn HT. cbn [NV NE Deg DegTail Edg EdgTail] in *.
  unfold set_one. cbn [NV NE Deg DegTail Edg EdgTail].
  assert (Ee : length e = 0).
  { destruct nv as [|[|nv]]; [rewrite HE; apply tri_0 | rewrite HE; apply tri_1 | lia]. }
  destruct nv as [|nv].
  - destruct d; [|discriminate]. specialize (HT eq_refl).
    destruct n as [|n]; [lia|]. cbn [repeat firstn] in HT.
    destruct dt as [|z dt]; [discriminate|]. cbn [firstn] in HT. inversion HT; subst.
    unfold reslice. cbn. eexists; split; [reflexivity|]. unfold ginv, vis. cbn. rewrite Ee. auto.
  - assert (nv = 0) by lia. subst nv.
    destruct d as [|x [|y d]]; try discriminate.
    unfold reslice. cbn. eexists; split; [reflexivity|]. unfold ginv, vis. cbn. rewrite Ee. auto.
Qed.

(* ---------------------------------------------------------------- the relation *)

Definition sim (s1 s2 : state) : Prop :=
  SN s1 = SN s2 /\ SA s1 = SA s2 /\ SM s1 = SM s2 /\ SFirst s1 = SFirst s2 /\
  vis (SG s1) = vis (SG s2) /\ SChoices s1 = SChoices s2 /\ SPath s1 = SPath s2.

Lemma sim_proj : forall s1 s2, sim s1 s2 <-> proj s1 = proj s2.
Proof.
  intros s1 s2. unfold sim, proj, save. split.
  - intros (H1 & H2 & H3 & H4 & H5 & H6 & H7). congruence.
  - intros H. split; [exact (f_equal VN H)|]. split; [exact (f_equal VA H)|].
    split; [exact (f_equal VM H)|]. split; [exact (f_equal VFirst H)|].
    split; [exact (f_equal VG H)|].
    split; apply rev_inj; [exact (f_equal VChoices H) | exact (f_equal VPath H)].
Qed.

Lemma sim_refl : forall s, sim s s.
Proof. intros s. unfold sim. repeat split. Qed.

Lemma sim_sym : forall s1 s2, sim s1 s2 -> sim s2 s1.
Proof. intros s1 s2 H. apply sim_proj. symmetry. apply sim_proj. exact H. Qed.

Lemma sim_trans : forall s1 s2 s3, sim s1 s2 -> sim s2 s3 -> sim s1 s3.
Proof. intros s1 s2 s3 H1 H2. apply sim_proj. apply sim_proj in H1, H2. congruence. Qed.

Lemma vis_ginv : forall g1 g2, vis g1 = vis g2 -> ginv g1 -> ginv g2.
Proof.
  intros g1 g2 H [HE HD]. unfold vis in H. inversion H. unfold ginv. split; congruence.
Qed.

Lemma vis_NV : forall g1 g2, vis g1 = vis g2 -> NV g1 = NV g2.
Proof. intros g1 g2 H. unfold vis in H. inversion H. reflexivity. Qed.

(* the cache is live only on arrival at the top of the outer loop after a successful step *)
Definition rel (p : pc) (s1 s2 : state) : Prop :=
  sim s1 s2 /\ match p with Outer false _ => SCache s1 = SCache s2 | _ => True end.

Definition out_rel (o1 o2 : outcome) : Prop :=
  match o1, o2 with
  | Go p1 s1, Go p2 s2 => p1 = p2 /\ rel p1 s1 s2
  | Ret b1 s1, Ret b2 s2 => b1 = b2 /\ sim s1 s2
  | Crash, Crash => True
  | _, _ => False
  end.


(* ---------------------------------------------------------------- Load after Save *)

Theorem init_inv : forall n a m, inv (init n a m).
Proof.
  intros n a m. unfold inv, init, ginv, new_search_graph. cbn.
  repeat split; auto; try lia; try discriminate.
Qed.

Theorem load_save : forall s, inv s ->
  exists s', load (save s) = Some s' /\ proj s' = proj s /\ inv s'.
Proof.
  intros [n a m f [nv ne d dt e et] c vb ch pa] ([HE HD] & HN & HT & HF & HP & HL).
  cbn [SN SA SM SFirst SG SCache SVB SChoices SPath NV NE Deg DegTail Edg EdgTail] in *.
  unfold load, save, vis.
  cbn [VN VA VM VFirst VG VChoices VPath SN SA SM SFirst SG SCache SVB SChoices SPath
       NV NE Deg DegTail Edg EdgTail init new_search_graph].
  assert (L1 : nv <= length (@nil Z) + length (repeat 0%Z n)) by (rewrite repeat_length; cbn; lia).
  assert (L2 : length e <= length (@nil N) + length (repeat 0%N (tri n))).
  { rewrite repeat_length, HE. cbn. apply tri_mono. exact HN. }
  unfold reslice. rewrite (proj2 (Nat.leb_le _ _) L1), (proj2 (Nat.leb_le _ _) L2).
  cbn [app]. rewrite !firstn_repeat, !skipn_repeat, !rev_involutive.
  rewrite repeat_length in L1, L2. cbn in L1, L2.
  rewrite !Nat.min_l by assumption.
  rewrite !copy_into_same_length by (rewrite repeat_length; congruence).
  eexists; split; [reflexivity|]. split; [reflexivity|].
  unfold inv, ginv. cbn. repeat split; auto; try (apply HF; assumption).
  intros ->. rewrite Nat.sub_0_r. reflexivity.
Qed.

(* ---------------------------------------------------------------- the invariant as a test *)

Lemma cache_is_empty_spec : forall c, cache_is_empty c = true <-> c = no_cache.
Proof.
  intros [[p|] [|o os] [|g gs]]; unfold cache_is_empty, no_cache; cbn; split; intros H;
    try discriminate; reflexivity.
Qed.

Theorem inv_b_spec : forall s, inv_b s = true <-> inv s.
Proof.
  intros [n a m f [nv ne d dt e et] c vb ch pa].
  unfold inv_b, inv_vis_b, inv_hid_b, inv, ginv.
  cbn [SN SA SM SFirst SG SCache SVB SChoices SPath NV NE Deg DegTail Edg EdgTail].
  rewrite !andb_true_iff, !Nat.eqb_eq, Nat.leb_le.
  assert (T : (if nv =? 0
               then match n, dt with 0, [] => true | S _, z :: _ => (z =? 0)%Z | _, _ => false end
               else true) = true <->
              (nv = 0 -> firstn 1 dt = firstn 1 (repeat 0%Z n))).
  { destruct (nv =? 0) eqn:E.
    - apply Nat.eqb_eq in E. destruct n as [|n], dt as [|z dt]; cbn; split; intros H; auto;
        try discriminate; try (specialize (H E); discriminate).
      + intros _. apply Z.eqb_eq in H. subst. reflexivity.
      + specialize (H E). inversion H. reflexivity.
    - apply Nat.eqb_neq in E. split; intros; [contradiction|reflexivity]. }
  rewrite T. clear T.
  destruct f, pa as [|p0 pa]; cbn [orb];
    destruct (Nat.leb_spec 2 n) as [E2|E2]; destruct (Nat.leb_spec n 1) as [E1|E1];
    rewrite ?cache_is_empty_spec, ?Nat.eqb_eq, ?Nat.leb_le; cbn [length];
    intuition (try discriminate; try lia; auto).
Qed.

Section Save.
Variable grow : nat -> nat.
Variable canon : nat -> Z -> list (list nat) -> bool -> N -> cache.
Variable ksub_reps : nat -> nat -> list (list nat) -> list N.
Variables preprune prune : vgraph -> bool.

(* CanonicalIsomorphAllocated reads options.ViableBits only under options.CheckViability
   (graph/canonical.go: `if options.CheckViability { ... viable := options.ViableBits`) *)
Hypothesis canon_novb : canon_ignores_stale_bits canon.

Notation step' := (step grow canon ksub_reps preprune prune).
Notation run' := (run grow canon ksub_reps preprune prune).
Notation next'' := (next grow canon ksub_reps preprune prune).
Notation advance' := (advance grow canon ksub_reps preprune prune).
Notation chain' := (chain grow canon ksub_reps preprune prune).
Notation chain_then' := (chain_then grow canon ksub_reps preprune prune).
Notation reachable' := (reachable grow canon ksub_reps preprune prune).

(* ---------------------------------------------------------------- stale ViableBits *)

Lemma add_augs_novb : forall g c vb vb',
  add_augs canon ksub_reps g c vb = add_augs canon ksub_reps g c vb'.
Proof.
  intros [[[n m] d] e] c vb vb'. unfold add_augs.
  destruct d as [|d0 ds]; [reflexivity|].
  destruct (CPerm c); [reflexivity|].
  unfold get_aut. destruct (all_nbrs (n, m, d0 :: ds, e)); [|reflexivity].
  rewrite (canon_novb n m l vb vb'). reflexivity.
Qed.

(* with an empty cache isCanonical overwrites ViableBits before it is read *)
Lemma is_canonical_nocache : forall g aug vb vb',
  option_map (fun r => (fst (fst r), snd (fst r))) (is_canonical canon g aug no_cache vb) =
  option_map (fun r => (fst (fst r), snd (fst r))) (is_canonical canon g aug no_cache vb').
Proof.
  intros g aug vb vb'. unfold is_canonical.
  destruct (degree_tests g aug); reflexivity.
Qed.

(* ---------------------------------------------------------------- one step *)

Lemma step_rel : forall p s1 s2, ginv (SG s1) -> rel p s1 s2 -> out_rel (step' p s1) (step' p s2).
Proof.
  intros p [n a m f g1 c1 vb1 ch pa] [n2 a2 m2 f2 g2 c2 vb2 ch2 pa2] G1 [S C].
  unfold sim in S. cbn [SN SA SM SFirst SG SCache SVB SChoices SPath] in *.
  destruct S as (<- & <- & <- & <- & V & <- & <-).
  pose proof (vis_NV _ _ V) as VN.
  destruct p as [cont sf | sf | [|i] sf].
  - (* Outer *)
    destruct cont.
    + cbn. unfold rel, sim. cbn. intuition.
    + cbn in C. subst c2. cbn [step SG SN SCache SVB]. rewrite <- VN, <- V.
      destruct (NV g1 =? n).
      * cbn. unfold sim. cbn. intuition.
      * rewrite (add_augs_novb (vis g1) c1 vb1 vb2).
        destruct (add_augs canon ksub_reps (vis g1) c1 vb2) as [[masks c]|]; [|exact I].
        cbn. unfold rel, sim. cbn. intuition.
  - (* Step *)
    cbn [step SChoices SPath]. destruct ch; [cbn; unfold sim; cbn; intuition|].
    destruct pa; [exact I|]. cbn. unfold rel, sim. cbn. intuition.
  - (* For 0 *)
    cbn [step]. destruct sf.
    + cbn [SPath]. destruct pa; [exact I|]. cbn. unfold rel, sim. cbn. intuition.
    + unfold retract. cbn [SG SVB].
      pose proof (remove_last_vis _ _ V) as R.
      destruct (remove_last g1) as [g1'|], (remove_last g2) as [g2'|]; cbn in R; try discriminate R; [|exact I].
      assert (R' : vis g1' = vis g2') by congruence. cbn [with_cache with_graph SPath SN SA SM SFirst SG SCache SVB SChoices].
      destruct pa; [exact I|]. cbn. unfold rel, sim. cbn. intuition.
  - (* For (S i) *)
    cbn [step SChoices SM SA SN SPath].
    destruct ch as [|x ch]; [exact I|].
    destruct (m =? 0); [exact I|].
    destruct (negb (i mod m =? a) && (Z.of_nat (length pa) =? split_level n)%Z).
    + cbn. unfold rel, sim. cbn. intuition.
    + assert (AV : forall g1' g2', ginv g1' -> vis g1' = vis g2' ->
        out_rel
          (match add_vertex grow g1' (bits_of x) with
           | None => Crash
           | Some g =>
             let s3 := with_cache (with_graph (mkState n a m f g1' no_cache vb1 ch pa) g) no_cache vb1 in
             if preprune (vis g) then Go (For i false) s3
             else match is_canonical canon (vis g) (bits_of x) (SCache s3) (SVB s3) with
                  | None => Crash
                  | Some (b, c, vb) =>
                    let s4 := with_cache s3 c vb in
                    if b && negb (prune (vis g)) then
                      match SPath s4 with
                      | [] => Crash
                      | _ :: p => Go (Outer false false) (with_stacks s4 (SChoices s4) (i :: p))
                      end
                    else Go (For i false) s4
                  end
           end)
          (match add_vertex grow g2' (bits_of x) with
           | None => Crash
           | Some g =>
             let s3 := with_cache (with_graph (mkState n a m f g2' no_cache vb2 ch pa) g) no_cache vb2 in
             if preprune (vis g) then Go (For i false) s3
             else match is_canonical canon (vis g) (bits_of x) (SCache s3) (SVB s3) with
                  | None => Crash
                  | Some (b, c, vb) =>
                    let s4 := with_cache s3 c vb in
                    if b && negb (prune (vis g)) then
                      match SPath s4 with
                      | [] => Crash
                      | _ :: p => Go (Outer false false) (with_stacks s4 (SChoices s4) (i :: p))
                      end
                    else Go (For i false) s4
                  end
           end)).
      { intros g1' g2' G' V'.
        pose proof (add_vertex_vis grow g1' (bits_of x) (proj1 G')) as A1.
        pose proof (add_vertex_vis grow g2' (bits_of x) (proj1 (vis_ginv _ _ V' G'))) as A2.
        rewrite <- V' in A2. rewrite <- A2 in A1. clear A2.
        destruct (add_vertex grow g1' (bits_of x)) as [h1|], (add_vertex grow g2' (bits_of x)) as [h2|];
          cbn in A1; try discriminate A1; [|exact I].
        assert (A : vis h1 = vis h2) by congruence. cbn zeta.
        cbn [with_cache with_graph with_stacks SN SA SM SFirst SG SCache SVB SChoices SPath].
        rewrite <- A.
        destruct (preprune (vis h1)).
        - cbn. unfold rel, sim. cbn. intuition.
        - pose proof (is_canonical_nocache (vis h1) (bits_of x) vb1 vb2) as IC.
          destruct (is_canonical canon (vis h1) (bits_of x) no_cache vb1) as [[[b1 cc1] w1]|],
                   (is_canonical canon (vis h1) (bits_of x) no_cache vb2) as [[[b2 cc2] w2]|];
            cbn in IC; try discriminate IC; [|exact I].
          inversion IC; subst.
          destruct (b2 && negb (prune (vis h1))).
          + destruct pa; [exact I|]. cbn. unfold rel, sim. cbn. intuition.
          + cbn. unfold rel, sim. cbn. intuition. }
      destruct sf.
      * cbn [with_stacks SN SA SM SFirst SG SCache SVB SChoices SPath].
        (* the live cache is overwritten by no_cache before it is read *)
        specialize (AV g1 g2 G1 V).
        unfold with_cache, with_graph in *. cbn [SN SA SM SFirst SG SCache SVB SChoices SPath] in *.
        exact AV.
      * unfold retract. cbn [with_stacks SN SA SM SFirst SG SCache SVB SChoices SPath].
        pose proof (remove_last_vis _ _ V) as R.
        destruct (remove_last g1) as [g1'|] eqn:R1, (remove_last g2) as [g2'|]; cbn in R; try discriminate R; [|exact I].
        assert (R' : vis g1' = vis g2') by congruence.
        specialize (AV g1' g2' (proj2 (remove_last_ginv _ _ G1 R1)) R').
        unfold with_cache, with_graph in *. cbn [SN SA SM SFirst SG SCache SVB SChoices SPath] in *.
        exact AV.
Qed.

(* ---------------------------------------------------------------- the invariant inside Next *)

Lemma add_augs_nonempty : forall g c vb masks c',
  add_augs canon ksub_reps g c vb = Some (masks, c') -> masks <> [].
Proof.
  intros [[[n m] d] e] c vb masks c' H. unfold add_augs in H.
  destruct d as [|d0 ds]; [discriminate|].
  destruct (match CPerm c with None => _ | Some _ => _ end) as [c1|]; [|discriminate].
  inversion H. unfold aug_masks. discriminate.
Qed.

Lemma step_pinv : forall p s, pinv p s ->
  match step' p s with
  | Go p' s' => pinv p' s'
  | Ret _ s' => inv s'
  | Crash => True
  end.
Proof.
  intros p [n a m f g c vb ch pa] (G & F & N2 & P).
  cbn [SN SA SM SFirst SG SCache SVB SChoices SPath] in *. subst f.
  destruct p as [cont sf | sf | [|i] sf].
  - destruct cont.
    + destruct sf; [contradiction|]. cbn. unfold pinv. cbn. intuition.
    + cbn [step SG SN SCache SVB]. destruct P as [P1 P2].
      destruct (NV g =? n) eqn:E.
      * unfold inv. cbn. repeat split; try apply G; auto; try lia; try discriminate.
      * apply Nat.eqb_neq in E.
        destruct (add_augs canon ksub_reps (vis g) c vb) as [[masks c']|] eqn:AA; [|exact I].
        apply add_augs_nonempty in AA.
        unfold pinv. cbn. repeat split; try apply G; auto; try lia.
        destruct masks as [|x masks]; [congruence|]. cbn [rev].
        intros H. apply app_eq_nil in H. destruct H as [H _].
        apply app_eq_nil in H. destruct H as [_ H]. discriminate.
  - cbn [step SChoices SPath]. destruct ch as [|x ch].
    + destruct sf.
      * destruct P as (_ & _ & P). congruence.
      * destruct P as [P1 P2]. unfold inv. cbn.
        repeat split; try apply G; auto; try lia; try discriminate.
    + destruct pa as [|c0 pa]; [exact I|]. unfold pinv. cbn.
      destruct sf; repeat split; try apply G; auto; try lia; intuition.
  - cbn [step]. destruct sf.
    + cbn [SPath]. destruct pa as [|c0 pa]; [exact I|]. destruct P as [P1 P2].
      unfold pinv. cbn in *. repeat split; try apply G; auto; try lia.
    + unfold retract. cbn [SG SVB]. destruct P as [P1 P2].
      destruct (remove_last g) as [g'|] eqn:R; [|exact I].
      apply remove_last_ginv in R; auto. destruct R as [R1 R2].
      cbn [with_cache with_graph SPath SN SA SM SFirst SG SCache SVB SChoices].
      destruct pa as [|c0 pa]; [exact I|].
      unfold pinv. cbn in *. repeat split; try apply R2; auto; try lia.
  - cbn [step SChoices SM SA SN SPath].
    destruct ch as [|x ch]; [exact I|].
    destruct (m =? 0); [exact I|].
    destruct (negb (i mod m =? a) && (Z.of_nat (length pa) =? split_level n)%Z).
    + unfold pinv. cbn. destruct sf; repeat split; try apply G; auto; try lia; intuition.
    + assert (AV : forall g2 c2, ginv g2 -> S (NV g2) <= n -> NV g2 = length pa ->
        match
          (match add_vertex grow g2 (bits_of x) with
           | None => Crash
           | Some g =>
             let s3 := with_cache (with_graph (mkState n a m false g2 c2 vb ch pa) g) no_cache vb in
             if preprune (vis g) then Go (For i false) s3
             else match is_canonical canon (vis g) (bits_of x) (SCache s3) (SVB s3) with
                  | None => Crash
                  | Some (b, c, vb) =>
                    let s4 := with_cache s3 c vb in
                    if b && negb (prune (vis g)) then
                      match SPath s4 with
                      | [] => Crash
                      | _ :: p => Go (Outer false false) (with_stacks s4 (SChoices s4) (i :: p))
                      end
                    else Go (For i false) s4
                  end
           end)
        with
        | Go p' s' => pinv p' s'
        | Ret _ s' => inv s'
        | Crash => True
        end).
      { intros g2 c2 G2 L2 E2.
        destruct (add_vertex grow g2 (bits_of x)) as [h|] eqn:A; [|exact I].
        apply add_vertex_ginv in A; auto. destruct A as [A1 A2]. cbn zeta.
        cbn [with_cache with_graph with_stacks SN SA SM SFirst SG SCache SVB SChoices SPath].
        destruct (preprune (vis h)).
        - unfold pinv. cbn. repeat split; try apply A2; auto; try lia.
        - destruct (is_canonical canon (vis h) (bits_of x) no_cache vb) as [[[b cc] w]|]; [|exact I].
          destruct (b && negb (prune (vis h))).
          + destruct pa as [|c0 pa]; [exact I|].
            unfold pinv. cbn in *. repeat split; try apply A2; auto; try lia.
          + unfold pinv. cbn. repeat split; try apply A2; auto; try lia. }
      destruct sf.
      * destruct P as [P1 P2].
        cbn [with_stacks SN SA SM SFirst SG SCache SVB SChoices SPath].
        specialize (AV g c G P1 P2).
        unfold with_cache, with_graph in *. cbn [SN SA SM SFirst SG SCache SVB SChoices SPath] in *.
        exact AV.
      * destruct P as [P1 P2].
        unfold retract. cbn [with_stacks SN SA SM SFirst SG SCache SVB SChoices SPath].
        destruct (remove_last g) as [g'|] eqn:R; [|exact I].
        apply remove_last_ginv in R; auto. destruct R as [R1 R2].
        assert (L2 : S (NV g') <= n) by lia. assert (E2 : NV g' = length pa) by lia.
        specialize (AV g' no_cache R2 L2 E2).
        unfold with_cache, with_graph in *. cbn [SN SA SM SFirst SG SCache SVB SChoices SPath] in *.
        exact AV.
Qed.

Lemma pinv_sim : forall p s1 s2, sim s1 s2 -> pinv p s1 -> pinv p s2.
Proof.
  intros p s1 s2 (H1 & H2 & H3 & H4 & H5 & H6 & H7) (G & F & N & P).
  pose proof (vis_NV _ _ H5) as HV.
  unfold pinv. rewrite <- H1, <- H4, <- H6, <- H7, <- HV.
  split; [eapply vis_ginv; eauto|]. split; [assumption|]. split; [assumption|]. exact P.
Qed.

Lemma run_inv : forall fuel p s b s', pinv p s -> run' fuel p s = Ok (b, s') -> inv s'.
Proof.
  intros fuel. induction fuel as [|fuel IH]; intros p s b s' P H; cbn [run] in H; [discriminate|].
  pose proof (step_pinv p s P) as SP.
  destruct (step' p s) as [p1 s1 | b1 s1 |]; [eauto | inversion H; subst; exact SP | discriminate].
Qed.

Lemma run_rel : forall fuel p s1 s2, pinv p s1 -> rel p s1 s2 ->
  res_rel (run' fuel p s1) (run' fuel p s2).
Proof.
  intros fuel. induction fuel as [|fuel IH]; intros p s1 s2 P R; cbn [run]; [exact I|].
  pose proof (step_rel p s1 s2 (proj1 P) R) as SR.
  pose proof (step_pinv p s1 P) as SP.
  destruct (step' p s1) as [p1 t1 | b1 t1 |], (step' p s2) as [p2 t2 | b2 t2 |]; cbn in SR; try contradiction.
  - destruct SR as [<- SR]. apply IH; assumption.
  - destruct SR as [<- SR]. split; [reflexivity|]. apply sim_proj. exact SR.
  - exact I.
Qed.

(* ---------------------------------------------------------------- Next *)

Lemma inv_set_one : forall s, inv s -> (SFirst s = true \/ SN s <= 1) -> 1 <= SN s ->
  exists g', set_one (SG s) = Some g' /\ ginv g' /\ NV g' = 1 /\
             vis g' = (1, NE (SG s), firstn 1 (Deg (SG s) ++ [0%Z]), Edg (SG s)).
Proof.
  intros s (G & HN & HT & HF & HP & HL) H1 H2.
  eapply set_one_spec; eauto.
Qed.

Lemma first_test_sim : forall s1 s2, sim s1 s2 ->
  first_test preprune prune s1 = first_test preprune prune s2.
Proof.
  intros s1 s2 (H1 & H2 & H3 & H4 & H5 & H6 & H7). unfold first_test.
  rewrite H2, H4, H5. reflexivity.
Qed.

Lemma sim_with_first : forall s1 s2 f, sim s1 s2 -> sim (with_first s1 f) (with_first s2 f).
Proof. intros s1 s2 f H. unfold sim, with_first in *. cbn. intuition. Qed.

Lemma sim_with_graph : forall s1 s2 g1 g2, sim s1 s2 -> vis g1 = vis g2 ->
  sim (with_graph s1 g1) (with_graph s2 g2).
Proof. intros s1 s2 g1 g2 H V. unfold sim, with_graph in *. cbn. intuition. Qed.

Lemma inv_after_set_one : forall s g' f, inv s -> 1 <= SN s -> ginv g' -> NV g' = 1 ->
  (f = true -> SFirst s = true) -> (2 <= SN s -> SFirst s = true) ->
  inv (with_first (with_graph s g') f).
Proof.
  intros s g' f (G & HN & HT & HF & HP & HL) H1 G' N' Hf H2.
  unfold inv, with_first, with_graph. cbn. rewrite N'.
  split; [exact G'|]. split; [exact H1|]. split; [intros; lia|].
  split; [intros E; apply HF; auto|].
  split; [|intros; lia].
  intros _ E. destruct (HF (H2 E)) as [-> _]. reflexivity.
Qed.

Theorem next_inv : forall fuel s b s', inv s -> next'' fuel s = Ok (b, s') -> inv s'.
Proof.
  intros fuel s b s' I H. unfold next in H.
  destruct (SN s) as [|[|n]] eqn:EN.
  - (* n = 0 *)
    assert (I' : inv (with_first s false)).
    { destruct I as (G & HN & HT & HF & HP & HL). unfold inv, with_first. cbn.
      rewrite EN in *.
      split; [exact G|]. split; [exact HN|]. split; [exact HT|].
      split; [discriminate|]. split; [intros; lia|]. intros; apply HL; right; lia. }
    destruct (first_test preprune prune s); inversion H; subst; assumption.
  - (* n = 1 *)
    destruct (inv_set_one s I) as (g' & E & G' & N' & V'); [right; lia | lia |].
    rewrite E in H.
    assert (I1 : inv (with_graph s g')).
    { replace (with_graph s g') with (with_first (with_graph s g') (SFirst s)) by (destruct s; reflexivity).
      apply inv_after_set_one; auto; lia. }
    assert (I2 : inv (with_first (with_graph s g') false)).
    { apply inv_after_set_one; auto; try lia; try discriminate. }
    destruct (first_test preprune prune (with_graph s g')); inversion H; subst; assumption.
  - (* n >= 2 *)
    destruct (SFirst s) eqn:EF.
    + destruct (inv_set_one s I) as (g' & E & G' & N' & V'); [left; exact EF | lia |].
      rewrite E in H.
      assert (I2 : inv (with_first (with_graph s g') false)).
      { apply inv_after_set_one; auto; try lia; try discriminate. }
      destruct (preprune (vis g') || prune (vis g')).
      * inversion H; subst; assumption.
      * eapply run_inv; [|exact H].
        destruct I2 as (G2 & HN2 & HT2 & HF2 & HP2 & HL2).
        unfold pinv. cbn in *. rewrite EN in *.
        repeat split; try apply G2; auto; try lia; try (apply HP2; auto; lia).
    + eapply run_inv; [|exact H].
      destruct I as (G & HN & HT & HF & HP & HL).
      unfold pinv. rewrite EF, EN.
      repeat split; try apply G; auto; try lia; try (apply HP; auto; lia).
Qed.

(* Two states with the same saved projection are indistinguishable for Next. *)
Theorem next_noninterference : forall fuel s1 s2, inv s1 -> inv s2 -> proj s1 = proj s2 ->
  res_rel (next'' fuel s1) (next'' fuel s2).
Proof.
  intros fuel s1 s2 I1 I2 PR. apply sim_proj in PR.
  pose proof PR as (H1 & H2 & H3 & H4 & H5 & H6 & H7).
  unfold next. rewrite <- H1.
  destruct (SN s1) as [|[|n]] eqn:EN.
  - rewrite <- (first_test_sim s1 s2 PR).
    destruct (first_test preprune prune s1); cbn; (split; [reflexivity|]); apply sim_proj;
      auto using sim_with_first.
  - destruct (inv_set_one s1 I1) as (g1 & E1 & G1 & N1 & V1); [right; lia | lia |].
    destruct (inv_set_one s2 I2) as (g2 & E2 & G2 & N2 & V2); [right; lia | lia |].
    rewrite E1, E2.
    assert (V : vis g1 = vis g2).
    { rewrite V1, V2. unfold vis in H5. inversion H5. reflexivity. }
    pose proof (sim_with_graph s1 s2 g1 g2 PR V) as PG.
    rewrite <- (first_test_sim _ _ PG).
    destruct (first_test preprune prune (with_graph s1 g1)); cbn; (split; [reflexivity|]);
      apply sim_proj; auto using sim_with_first.
  - rewrite <- H4. destruct (SFirst s1) eqn:EF.
    + destruct (inv_set_one s1 I1) as (g1 & E1 & G1 & N1 & V1); [left; exact EF | lia |].
      destruct (inv_set_one s2 I2) as (g2 & E2 & G2 & N2 & V2); [left; congruence | lia |].
      rewrite E1, E2.
      assert (V : vis g1 = vis g2).
      { rewrite V1, V2. unfold vis in H5. inversion H5. reflexivity. }
      pose proof (sim_with_first _ _ false (sim_with_graph s1 s2 g1 g2 PR V)) as PG.
      rewrite <- V.
      destruct (preprune (vis g1) || prune (vis g1)).
      * cbn. split; [reflexivity|]. apply sim_proj. exact PG.
      * apply run_rel.
        -- assert (J : inv (with_first (with_graph s1 g1) false)).
           { apply inv_after_set_one; auto; try lia; try discriminate. }
           destruct J as (J1 & J2 & J3 & J4 & J5 & J6).
           unfold pinv. cbn in *. rewrite EN in *.
           repeat split; try apply J1; auto; try lia; try (apply J5; auto; lia).
        -- split; [exact PG|]. cbn.
           destruct I1 as (_ & _ & _ & F1 & _). destruct I2 as (_ & _ & _ & F2 & _).
           destruct (F1 EF) as [_ ->]. destruct (F2 ltac:(congruence)) as [_ ->]. reflexivity.
    + apply run_rel.
      * destruct I1 as (G & HN & HT & HF & HP & HL).
        unfold pinv. rewrite EF, EN.
        repeat split; try apply G; auto; try lia; try (apply HP; auto; lia).
      * split; [exact PR|exact I].
Qed.

(* ---------------------------------------------------------------- sequences of calls *)

Lemma end_eq_refl : forall r, end_eq r r.
Proof. intros [s| |]; cbn; auto. Qed.

Lemma end_eq_trans : forall r1 r2 r3, end_eq r1 r2 -> end_eq r2 r3 -> end_eq r1 r3.
Proof.
  intros [s1| |] [s2| |] [s3| |]; cbn; try tauto; congruence.
Qed.

Lemma trace_eq_refl : forall t, trace_eq t t.
Proof. intros t. split; [reflexivity|apply end_eq_refl]. Qed.

Lemma trace_eq_trans : forall t1 t2 t3, trace_eq t1 t2 -> trace_eq t2 t3 -> trace_eq t1 t3.
Proof.
  intros t1 t2 t3 [A1 A2] [B1 B2]. split; [congruence|eapply end_eq_trans; eauto].
Qed.

Lemma observe_proj : forall b s1 s2, proj s1 = proj s2 -> observe b s1 = observe b s2.
Proof.
  intros b s1 s2 H. unfold observe. destruct b; [|reflexivity].
  f_equal. exact (f_equal VG H).
Qed.

Lemma advance_inv : forall fuel k s os s', inv s -> advance' fuel k s = (os, Ok s') -> inv s'.
Proof.
  intros fuel k. induction k as [|k IH]; intros s os s' I H; cbn [advance] in H.
  - inversion H; subst; assumption.
  - unfold next' in H.
    destruct (next'' fuel s) as [[b t]| |] eqn:E; try discriminate.
    destruct (advance' fuel k t) as [os1 r1] eqn:A. inversion H; subst.
    eapply IH; [|exact A]. eapply next_inv; eauto.
Qed.

Theorem advance_noninterference : forall fuel k s1 s2, inv s1 -> inv s2 -> proj s1 = proj s2 ->
  trace_eq (advance' fuel k s1) (advance' fuel k s2).
Proof.
  intros fuel k. induction k as [|k IH]; intros s1 s2 I1 I2 P; cbn [advance].
  - split; [reflexivity|exact P].
  - unfold next'. pose proof (next_noninterference fuel s1 s2 I1 I2 P) as NR.
    destruct (next'' fuel s1) as [[b1 t1]| |] eqn:E1, (next'' fuel s2) as [[b2 t2]| |] eqn:E2;
      cbn in NR; try contradiction; try (split; [reflexivity|exact I]).
    destruct NR as [<- PT].
    specialize (IH t1 t2 (next_inv _ _ _ _ I1 E1) (next_inv _ _ _ _ I2 E2) PT).
    destruct (advance' fuel k t1) as [os1 r1], (advance' fuel k t2) as [os2 r2].
    destruct IH as [A B]. cbn in A, B. split; cbn; [|exact B].
    rewrite A, (observe_proj b1 t1 t2 PT). reflexivity.
Qed.

(* Load (Save s) continues with exactly the observations s would still have produced *)
Theorem resume_exact : forall s, inv s ->
  exists s', load (save s) = Some s' /\ inv s' /\
    forall fuel k, trace_eq (advance' fuel k s') (advance' fuel k s).
Proof.
  intros s I. destruct (load_save s I) as (s' & L & P & I').
  exists s'. split; [exact L|]. split; [exact I'|].
  intros fuel k. apply advance_noninterference; assumption.
Qed.

Lemma advance_split : forall fuel j k s,
  advance' fuel (j + k) s =
  match advance' fuel j s with
  | (os, Ok s1) => let '(os', r) := advance' fuel k s1 in (os ++ os', r)
  | (os, r) => (os, r)
  end.
Proof.
  intros fuel j. induction j as [|j IH]; intros k s.
  - cbn [advance Nat.add]. destruct (advance' fuel k s); reflexivity.
  - cbn [advance Nat.add]. destruct (next' grow canon ksub_reps preprune prune fuel s) as [[b t]| |]; try reflexivity.
    rewrite IH. destruct (advance' fuel j t) as [os [s1| |]]; try reflexivity.
    destruct (advance' fuel k s1); reflexivity.
Qed.

Lemma chain_then_cons : forall fuel j js k s,
  chain_then' fuel (j :: js) k s =
  match advance' fuel j s with
  | (os, Ok s1) =>
    match load (save s1) with
    | Some s2 => let '(os', r) := chain_then' fuel js k s2 in (os ++ os', r)
    | None => (os, Panic)
    end
  | (os, r) => (os, r)
  end.
Proof.
  intros fuel j js k s. unfold chain_then. cbn [chain].
  destruct (advance' fuel j s) as [os [s1| |]]; try reflexivity.
  destruct (load (save s1)) as [s2|]; [|reflexivity].
  destruct (chain' fuel js s2) as [os1 [s3| |]]; try reflexivity.
  destruct (advance' fuel k s3) as [os2 r2]. rewrite app_assoc. reflexivity.
Qed.

(* save / load chains of any length: advancing j1, saving, loading, advancing j2, ..., and then
   k more calls, shows exactly what j1 + j2 + ... + k calls on the original would show *)
Theorem chain_exact : forall fuel js k s, inv s ->
  trace_eq (chain_then' fuel js k s) (advance' fuel (list_sum js + k) s).
Proof.
  intros fuel js k. induction js as [|j js IH]; intros s I.
  - unfold chain_then. cbn [chain list_sum fold_right Nat.add].
    destruct (advance' fuel k s) as [os r]. cbn [app]. apply trace_eq_refl.
  - rewrite chain_then_cons. cbn [list_sum fold_right]. rewrite <- Nat.add_assoc, advance_split.
    destruct (advance' fuel j s) as [os [s1| |]] eqn:A; try apply trace_eq_refl.
    pose proof (advance_inv _ _ _ _ _ I A) as I1.
    destruct (load_save s1 I1) as (s2 & L & P & I2). rewrite L.
    pose proof (trace_eq_trans _ _ _ (IH s2 I2)
                  (advance_noninterference fuel (list_sum js + k) s2 s1 I2 I1 P)) as T.
    unfold list_sum in T.
    destruct (chain_then' fuel js k s2) as [osa ra],
             (advance' fuel (fold_right Nat.add 0 js + k) s1) as [osb rb].
    destruct T as [T1 T2]. cbn in T1, T2. subst osb. split; [reflexivity|exact T2].
Qed.

Theorem reachable_inv : forall s, reachable' s -> inv s.
Proof.
  intros s R. induction R as [n a m | fuel s b s' R IH E | s s' R IH L].
  - apply init_inv.
  - eapply next_inv; eauto.
  - destruct (load_save s IH) as (t & L' & _ & I'). congruence.
Qed.

Theorem resume_exact_reachable : forall s, reachable' s ->
  exists s', load (save s) = Some s' /\ reachable' s' /\
    forall fuel k, trace_eq (advance' fuel k s') (advance' fuel k s).
Proof.
  intros s R. destruct (resume_exact s (reachable_inv s R)) as (s' & L & _ & T).
  exists s'. split; [exact L|]. split; [eapply r_load; eauto | exact T].
Qed.

Theorem chain_exact_reachable : forall fuel js k s, reachable' s ->
  trace_eq (chain_then' fuel js k s) (advance' fuel (list_sum js + k) s).
Proof. intros fuel js k s R. apply chain_exact. apply reachable_inv. exact R. Qed.

End Save.
