(* C03 co-simulation: three pruning predicates on visible graphs, extracted and run by the model
   driver next to their Go twins in harness/cmd/c03sim (definitions only).  P g = true: prune. *)
From Coq Require Import List NArith ZArith Arith Bool.
From Mamba Require Import Disjoint.Model Search.Model.
Import ListNotations.
Local Open Scope nat_scope.

(* more than three edges (reads NumberOfEdges) *)
Definition p_edges3 (g : vgraph) : bool := let '(_, ne, _, _) := g in (3 <? ne)%Z.

(* some vertex of degree > 2 (reads DegreeSequence) *)
Definition p_maxdeg2 (g : vgraph) : bool := let '(_, _, d, _) := g in existsb (fun z => (2 <? z)%Z) d.

(* contains a triangle (reads Edges) *)
Definition edge_at (e : list N) (u v : nat) : bool := (0 <? nth (edge_index u v) e 0)%N.
Definition p_triangle (g : vgraph) : bool :=
  let '(nv, _, _, e) := g in
  existsb (fun i => existsb (fun j => existsb (fun k =>
    (i <? j) && (j <? k) && edge_at e i j && edge_at e i k && edge_at e j k)
    (seq 0 nv)) (seq 0 nv)) (seq 0 nv).

Definition p_none (g : vgraph) : bool := false.
