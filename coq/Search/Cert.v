(* The orbit-counting certificate used by the C03 harness (mathcomp).

   A labelled graph on n vertices is a set of edges, each edge a set of exactly two vertices.
   [relabel E s] renames every vertex v to s v.  Two graphs are isomorphic when one is a
   relabelling of the other; [aut_count E] is the number of relabellings that fix E.

   Theorem [certificate]: if Y is a list of graphs on n vertices, pairwise non-isomorphic, and
       sum over g in Y of  n! / aut_count g  =  2 ^ C(n,2),
   then every graph on n vertices is isomorphic to exactly one entry of Y.

   Proof: the relabellings are an action of the symmetric group; the class of g has
   n!/|Aut g| members (orbit-stabiliser); the classes of the entries of Y are disjoint subsets
   of the 2^C(n,2) labelled graphs whose sizes add up to 2^C(n,2), so they cover. *)
From mathcomp Require Import all_ssreflect fingroup perm action.
Set Implicit Arguments.
Unset Strict Implicit.
Unset Printing Implicit Defensive.
Import GroupScope.

Section Cert.
Variable n : nat.

Local Notation lgraph := {set {set 'I_n}}.

(* every edge has exactly two (distinct) ends *)
Definition is_graph (E : lgraph) : bool := E \subset [set e : {set 'I_n} | #|e| == 2].

Definition relabel (E : lgraph) (s : 'S_n) : lgraph := [set [set s v | v in e] | e : {set 'I_n} in E].

Definition iso (E F : lgraph) : bool := [exists s : 'S_n, relabel E s == F].

Definition aut_count (E : lgraph) : nat := #|[set s : 'S_n | relabel E s == E]|.

(* ------------------------------------------------------------------ the action *)

Let to := set_action (set_action (perm_action (ordinal_finType n))).
Let G : {group 'S_n} := [group of [set: 'S_n]].

Lemma relabelE E s : relabel E s = to E s.
Proof. by []. Qed.

Lemma isoE E F : iso E F = (F \in orbit to G E).
Proof.
apply/existsP/orbitP => [[s /eqP <-]|[s _ <-]]; first by exists s; rewrite ?inE.
by exists s; rewrite relabelE.
Qed.

Lemma iso_refl E : iso E E.
Proof. by rewrite isoE orbit_refl. Qed.

Lemma iso_sym E F : iso E F = iso F E.
Proof. by rewrite !isoE orbit_sym. Qed.

Lemma iso_trans F E H : iso E F -> iso F H -> iso E H.
Proof. by rewrite !isoE => EF FH; apply: orbit_trans FH EF. Qed.

Lemma aut_countE E : aut_count E = #|'C_G[E | to]|.
Proof.
rewrite /aut_count; apply: eq_card => s.
by rewrite !inE /= sub1set inE.
Qed.

Lemma class_size E : (#|orbit to G E| * aut_count E)%N = n`!.
Proof. by rewrite aut_countE card_orbit_stab /= cardsT card_Sn. Qed.

Lemma aut_count_gt0 E : 0 < aut_count E.
Proof.
by have := fact_gt0 n; rewrite -(class_size E); case: (aut_count E); rewrite ?muln0.
Qed.

Lemma class_sizeE E : n`! %/ aut_count E = #|orbit to G E|.
Proof. by rewrite -(class_size E) mulnK ?aut_count_gt0. Qed.

Lemma is_graph_relabel E s : is_graph E -> is_graph (relabel E s).
Proof.
move/subsetP => gE; apply/subsetP => e /imsetP[e0 /gE]; rewrite !inE => /eqP e02 ->.
by rewrite card_imset ?e02 //; apply: perm_inj.
Qed.

Lemma is_graph_iso E F : is_graph E -> iso E F -> is_graph F.
Proof. by move=> gE /existsP[s /eqP <-]; apply: is_graph_relabel. Qed.

Lemma iso_equivalence E F H :
  iso E E /\ (iso E F = iso F E) /\ (iso E F -> iso F H -> iso E H) /\
  (is_graph E -> iso E F -> is_graph F).
Proof.
split; first exact: iso_refl.
split; first exact: iso_sym.
split; [exact: iso_trans | exact: is_graph_iso].
Qed.

(* the class of E has n!/|Aut E| members *)
Lemma class_card E : #|[set F | iso E F]| = n`! %/ aut_count E.
Proof. by rewrite class_sizeE; apply: eq_card => F; rewrite inE isoE. Qed.

Definition graphs : {set lgraph} := powerset [set e : {set 'I_n} | #|e| == 2].

Lemma graphsE E : (E \in graphs) = is_graph E.
Proof. by rewrite powersetE. Qed.

Lemma card_graphs : #|graphs| = (2 ^ 'C(n, 2))%N.
Proof. by rewrite card_powerset card_draws card_ord. Qed.

(* ------------------------------------------------------------------ counting *)

Definition cov (Y : seq lgraph) : {set lgraph} := \bigcup_(g <- Y) orbit to G g.

Lemma covP Y x : reflect (exists2 g, g \in Y & iso g x) (x \in cov Y).
Proof.
rewrite /cov; elim: Y => [|g Y IH]; first by rewrite big_nil inE; right; case.
rewrite big_cons inE -isoE; apply: (iffP orP) => [[gx|/IH[h hY hx]]|[h]].
- by exists g; rewrite ?mem_head.
- by exists h; rewrite ?inE ?hY ?orbT.
- rewrite inE => /orP[/eqP ->|hY] hx; [by left|right; apply/IH; by exists h].
Qed.

Lemma cov_sub Y : all is_graph Y -> cov Y \subset graphs.
Proof.
move/allP => gY; apply/subsetP => x /covP[g /gY gg gx].
by rewrite graphsE; apply: is_graph_iso gx.
Qed.

Lemma card_cov Y : pairwise (fun g h => ~~ iso g h) Y ->
  #|cov Y| = \sum_(g <- Y) n`! %/ aut_count g.
Proof.
rewrite /cov; elim: Y => [|g Y IH]; first by rewrite !big_nil cards0.
rewrite pairwise_cons => /andP[/allP gY pY]; rewrite !big_cons cardsU IH // class_sizeE.
rewrite [X in _ - X](_ : _ = 0) ?subn0 //; apply/eqP; rewrite cards_eq0 -subset0.
apply/subsetP => x; rewrite !inE -isoE => /andP[gx /covP[h hY hx]].
by case/negP: (gY h hY); apply: iso_trans gx _; rewrite iso_sym.
Qed.

Lemma count_le1 Y x : pairwise (fun g h => ~~ iso g h) Y -> (count (iso^~ x) Y <= 1)%N.
Proof.
elim: Y => [|g Y IH] //=; rewrite -/(pairwise _ Y) => /andP[/allP gY /IH le1].
case gx: (iso g x) => //=; rewrite add1n ltnS leqn0 -[_ == 0]negbK -lt0n -has_count.
apply/hasPn => h hY; apply: contra (gY h hY) => hx.
by apply: iso_trans gx _; rewrite iso_sym.
Qed.

(* The certificate. *)
Theorem certificate (Y : seq lgraph) :
  all is_graph Y ->
  pairwise (fun g h => ~~ iso g h) Y ->
  (\sum_(g <- Y) n`! %/ aut_count g = 2 ^ 'C(n, 2))%N ->
  forall x, is_graph x -> count (fun g => iso g x) Y = 1%N.
Proof.
move=> gY pY sumY x gx; apply/eqP; rewrite eqn_leq count_le1 //= -has_count.
have /eqP : cov Y = graphs.
  by apply/eqP; rewrite eqEcard cov_sub //= card_cov // sumY card_graphs.
move/eqP/setP/(_ x); rewrite graphsE gx => /covP[g gYx giso].
by apply/hasP; exists g.
Qed.

End Cert.

Notation lgraph n := {set {set 'I_n}}.

(* ------------------------------------------------------------------ non-vacuity: n = 2 *)

Section Example.
Import GroupScope.

Definition empty_graph n : lgraph n := set0.
Definition complete_graph n : lgraph n := [set e : {set 'I_n} | #|e| == 2].

Lemma relabel_empty n (s : 'S_n) : relabel (empty_graph n) s = empty_graph n.
Proof. by rewrite /relabel /empty_graph imset0. Qed.

Lemma relabel_complete n (s : 'S_n) : relabel (complete_graph n) s = complete_graph n.
Proof.
apply/eqP; rewrite eqEcard; apply/andP; split.
  by apply: (@is_graph_relabel n (complete_graph n) s); apply: subxx.
rewrite card_imset //; apply: imset_inj; apply: perm_inj.
Qed.

Lemma aut_count_empty n : aut_count (empty_graph n) = n`!.
Proof.
rewrite /aut_count -card_Sn -cardsT; apply: eq_card => s.
by rewrite !inE relabel_empty eqxx.
Qed.

Lemma aut_count_complete n : aut_count (complete_graph n) = n`!.
Proof.
rewrite /aut_count -card_Sn -cardsT; apply: eq_card => s.
by rewrite !inE relabel_complete eqxx.
Qed.

Lemma certificate_example :
  let Y := [:: empty_graph 2; complete_graph 2] in
  [/\ all (@is_graph 2) Y, pairwise (fun g h => ~~ iso g h) Y
    & (\sum_(g <- Y) 2`! %/ aut_count g = 2 ^ 'C(2, 2))%N].
Proof.
split.
- by rewrite /= /is_graph sub0set subxx.
- rewrite /= !andbT; apply/existsP => -[s]; rewrite relabel_empty => /eqP/setP e0.
  have: #|complete_graph 2| = 0%N by rewrite -(eq_card e0) cards0.
  by rewrite card_draws card_ord.
- by rewrite !big_cons big_nil aut_count_empty aut_count_complete.
Qed.

End Example.
