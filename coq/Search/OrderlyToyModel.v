(* C03 (orderly generation) — a reference instance of the Section variables of Search/Model.v
   by brute force (definitions only; proofs in OrderlyToy.v): [toy_canon] takes, among all
   permutations of 0..n-1, one whose relabelled adjacency matrix (read as a binary number) is
   least, the list of ALL automorphisms as generators, and the union-find forest obtained by
   uniting i with a(i) for every automorphism a (C02's [orbits_ds]); it never exits early.
   [toy_ksub] keeps, among all masks below 2^n with k bits, those that are least among their
   images under the given permutations. *)
From Coq Require Import List NArith ZArith Arith Bool.
From Mamba Require Import Disjoint.Model Search.Model Canon.AutModel.
Import ListNotations.
Local Open Scope nat_scope.

Definition nb_adj (nb : list (list nat)) (u v : nat) : bool := existsb (Nat.eqb v) (nth u nb []).

(* the relabelled adjacency matrix as a binary number, most significant bit first *)
Definition bcode (f : nat * nat -> bool) (l : list (nat * nat)) (acc : N) : N :=
  fold_left (fun a ij => (2 * a + if f ij then 1 else 0)%N) l acc.

Definition pairs_of (n : nat) : list (nat * nat) := list_prod (seq 0 n) (seq 0 n).

Definition pcode (n : nat) (A : nat -> nat -> bool) (p : perm) : N :=
  bcode (fun ij => A (app p (fst ij)) (app p (snd ij))) (pairs_of n) 0%N.

(* a minimiser of [key] in d :: l *)
Fixpoint argmin {T} (key : T -> N) (l : list T) (d : T) : T :=
  match l with
  | [] => d
  | x :: r => if (key x <? key d)%N then argmin key r x else argmin key r d
  end.

Definition toy_canon (n : nat) (m : Z) (nb : list (list nat)) (cv : bool) (vb : N) : cache :=
  let A := nb_adj nb in
  let ps := all_perms n in
  let auts := filter (is_automorphism n A (fun _ => 0)) ps in
  mkCache (Some (argmin (pcode n A) ps (idp n)))
          (match orbits_ds n auts with Some ds => ds | None => [] end)
          auts.

Definition mask_of (l : list nat) : N := fold_right (fun v acc => N.setbit acc (N.of_nat v)) 0%N l.

Definition toy_ksub (n k : nat) (gens : list (list nat)) : list N :=
  filter (fun x => (length (bits_of x) =? k) &&
                   forallb (fun a => (x <=? mask_of (map (app a) (bits_of x)))%N) gens)
         (map N.of_nat (seq 0 (2 ^ n))).
