(* C03 (orderly generation) — the visible graphs of the search model as adjacency functions.

   [vadj g] reads the packed triangle of a visible graph; for well-formed graphs ([wfv],
   ShardModel.v) the DegreeSequence is [zdeg]; AddVertex ([add_v]) never panics on a valid
   neighbour list and extends the adjacency function in the obvious way; every symmetric
   irreflexive adjacency function on n vertices is [vadj] of a well-formed visible graph
   ([mk_vgraph]); masks ([bits_of]). *)
From Coq Require Import List NArith ZArith Arith Bool Lia Permutation.
From Mamba Require Import Disjoint.Model Search.Model Search.SaveModel Search.SaveProofs.
From Mamba Require Import Search.ShardModel Search.ShardGraph Search.ShardWf.
From Mamba Require Import Canon.AutBase Search.OrderlyBase.
Import ListNotations.
Local Open Scope nat_scope.

(* ---------------------------------------------------------------- reading the triangle *)

Definition eadj (e : list N) (u v : nat) : bool :=
  negb (u =? v) && (nth (edge_index u v) e 0 =? 1)%N.

Definition vadj (g : vgraph) : agraph := let '(_, _, _, e) := g in eadj e.

Lemma edge_index_sym : forall u v, edge_index u v = edge_index v u.
Proof.
  intros u v. unfold edge_index.
  destruct (Nat.ltb_spec u v) as [A|A]; destruct (Nat.ltb_spec v u) as [B|B]; try lia.
  assert (u = v) by lia. subst. reflexivity.
Qed.

Lemma eadj_sym : forall e u v, eadj e u v = eadj e v u.
Proof. intros e u v. unfold eadj. rewrite (edge_index_sym u v), (Nat.eqb_sym u v). reflexivity. Qed.

Lemma eadj_irrefl : forall e u, eadj e u u = false.
Proof. intros e u. unfold eadj. rewrite Nat.eqb_refl. reflexivity. Qed.

Lemma vadj_sym : forall g u v, vadj g u v = vadj g v u.
Proof. intros [[[nv ne] d] e] u v. apply eadj_sym. Qed.

Lemma vadj_irrefl : forall g u, vadj g u u = false.
Proof. intros [[[nv ne] d] e] u. apply eadj_irrefl. Qed.

Lemma vadj_asym : forall n g, asym n (vadj g).
Proof. intros n g i j _ _. apply vadj_sym. Qed.

Lemma vadj_airr : forall n g, airr n (vadj g).
Proof. intros n g i _. apply vadj_irrefl. Qed.

Lemma degree_of_zdeg : forall e n v, Z.of_nat (degree_of e n v) = zdeg n (eadj e) v.
Proof. intros e n v. rewrite zdeg_count. reflexivity. Qed.

Lemma wfv_deg : forall g v, wfv g -> v < nv_of g ->
  let '(_, _, d, _) := g in nth_error d v = Some (zdeg (nv_of g) (vadj g) v).
Proof.
  intros [[[nv ne] d] e] v (HD & HE & H01 & HDeg & HNe) Hv. cbn [nv_of] in *.
  rewrite (nth_error_nth' d 0%Z) by lia. rewrite (HDeg v Hv). f_equal. apply degree_of_zdeg.
Qed.

Lemma wfv_edge : forall nv ne d e u v, wfv (nv, ne, d, e) -> u < nv -> v < nv -> u <> v ->
  exists b, nth_error e (edge_index u v) = Some b /\ (b = 0%N \/ b = 1%N) /\
            eadj e u v = (b =? 1)%N /\ eadj e u v = (0 <? b)%N.
Proof.
  intros nv ne d e u v (HD & HE & H01 & HDeg & HNe) Hu Hv Huv.
  pose proof (edge_index_lt u v nv Hu Hv Huv) as Hlt. rewrite <- HE in Hlt.
  exists (nth (edge_index u v) e 0%N). split; [apply nth_error_nth'; exact Hlt|].
  assert (B : nth (edge_index u v) e 0%N = 0%N \/ nth (edge_index u v) e 0%N = 1%N).
  { rewrite Forall_forall in H01. apply H01. apply nth_In. exact Hlt. }
  split; [exact B|]. unfold eadj.
  replace (u =? v) with false by (symmetry; apply Nat.eqb_neq; exact Huv). cbn [negb andb].
  split; [reflexivity|]. destruct B as [-> | ->]; reflexivity.
Qed.

(* ---------------------------------------------------------------- masks *)

Lemma bits_of_In : forall x j, In j (bits_of x) <-> N.testbit x (N.of_nat j) = true.
Proof.
  intros x j. unfold bits_of. rewrite filter_In, in_seq. split; [tauto|].
  intros H. split; [|exact H]. split; [lia|]. cbn [plus].
  destruct (N.eq_dec x 0) as [->|Hx]; [rewrite N.bits_0 in H; discriminate|].
  rewrite (N.size_log2 x Hx).
  destruct (N.le_gt_cases (N.of_nat j) (N.log2 x)) as [Hle|Hgt]; [lia|].
  rewrite (N.bits_above_log2 x (N.of_nat j) Hgt) in H. discriminate.
Qed.

Lemma testbit_single : forall i j, N.testbit (N.shiftl 1 (N.of_nat i)) (N.of_nat j) = (i =? j).
Proof.
  intros i j. rewrite N.shiftl_1_l, N.pow2_bits_eqb.
  destruct (Nat.eqb_spec i j) as [->|H]; [apply N.eqb_refl|].
  apply N.eqb_neq. lia.
Qed.

Lemma bits_of_single : forall i j, In j (bits_of (N.shiftl 1 (N.of_nat i))) <-> j = i.
Proof.
  intros i j. rewrite bits_of_In, testbit_single, Nat.eqb_eq. split; congruence.
Qed.

Lemma bits_of_0 : bits_of 0 = [].
Proof. reflexivity. Qed.

(* ---------------------------------------------------------------- AddVertex *)

Lemma mark_some : forall nb off e d,
  (forall v, In v nb -> v < length d /\ off + v < length e) ->
  exists r, mark nb off e d = Some r.
Proof.
  intros nb. induction nb as [|v nb IH]; intros off e d H; cbn [mark]; [eauto|].
  destruct (H v (or_introl eq_refl)) as [Hd He].
  destruct (set_nth_some e (off + v) 1%N He) as [e1 E1]. rewrite E1.
  destruct (nth_error d v) as [dv|] eqn:Dv; [|apply nth_error_None in Dv; lia].
  destruct (set_nth_some d v (dv + 1)%Z Hd) as [d1 E2]. rewrite E2.
  apply IH. intros w Hw. rewrite (set_nth_length _ _ _ _ E1), (set_nth_length _ _ _ _ E2).
  apply H. right. exact Hw.
Qed.

Notation smemb := ShardGraph.memb.

Lemma smemb_In : forall i nb, smemb i nb = true <-> In i nb.
Proof. exact ShardWf.memb_In. Qed.

Theorem add_v_ok : forall g nb, wfv g -> NoDup nb -> (forall v, In v nb -> v < nv_of g) ->
  exists g', add_v g nb = Some g' /\ wfv g' /\ nv_of g' = S (nv_of g) /\
    (forall i j, i < nv_of g -> j < nv_of g -> vadj g' i j = vadj g i j) /\
    (forall j, j < nv_of g -> vadj g' j (nv_of g) = smemb j nb).
Proof.
  intros [[[nv ne] d] e] nb W ND LT. cbn [nv_of] in *.
  pose proof W as (HD & HE & H01 & HDeg & HNe).
  destruct (mark_some nb (tri nv) (e ++ repeat 0%N nv) d) as [[e1 d1] M].
  { intros v Hv. specialize (LT v Hv). rewrite app_length, repeat_length. lia. }
  assert (AV : add_v (nv, ne, d, e) nb = Some (S nv, (ne + Z.of_nat (length nb))%Z, d1 ++ [Z.of_nat (length nb)], e1)).
  { unfold add_v. rewrite M. reflexivity. }
  eexists. split; [exact AV|].
  destruct (add_v_wfv _ _ _ W ND AV) as [W' NV'].
  split; [exact W'|]. split; [reflexivity|].
  destruct (add_v_marks _ _ _ _ _ _ HD HE ND AV) as (d1' & EQ & Ld1 & _ & _).
  inversion EQ as [[E1 E2]]. clear EQ. cbn [vadj]. split.
  - intros i j Hi Hj. unfold eadj. destruct (Nat.eqb_spec i j) as [->|Hij]; [reflexivity|].
    cbn [negb andb]. rewrite app_nth1; [reflexivity|]. rewrite HE. apply edge_index_lt; assumption.
  - intros j Hj. unfold eadj.
    replace (j =? nv) with false by (symmetry; apply Nat.eqb_neq; lia). cbn [negb andb].
    unfold edge_index. replace (j <? nv) with true by (symmetry; apply Nat.ltb_lt; exact Hj).
    rewrite app_nth2 by lia. rewrite HE. replace (tri nv + j - tri nv) with j by lia.
    rewrite marks_nth by exact Hj. destruct (smemb j nb); reflexivity.
Qed.

(* ---------------------------------------------------------------- from adjacency to a graph *)

Definition tri_rows (A : agraph) (n : nat) : list N :=
  flat_map (fun v => map (fun u => if A u v then 1%N else 0%N) (seq 0 v)) (seq 0 n).

Lemma tri_rows_S : forall A n,
  tri_rows A (S n) = tri_rows A n ++ map (fun u => if A u n then 1%N else 0%N) (seq 0 n).
Proof.
  intros A n. unfold tri_rows. rewrite seq_S, flat_map_app. cbn [plus flat_map].
  rewrite app_nil_r. reflexivity.
Qed.

Lemma tri_rows_length : forall A n, length (tri_rows A n) = tri n.
Proof.
  intros A n. induction n as [|n IH]; [reflexivity|].
  rewrite tri_rows_S, app_length, map_length, seq_length, IH, tri_S. reflexivity.
Qed.

Lemma tri_rows_nth : forall A n u v, u < v -> v < n ->
  nth (tri v + u) (tri_rows A n) 0%N = if A u v then 1%N else 0%N.
Proof.
  intros A n. induction n as [|n IH]; intros u v Huv Hv; [lia|].
  rewrite tri_rows_S. destruct (Nat.eq_dec v n) as [->|Hne].
  - rewrite app_nth2 by (rewrite tri_rows_length; lia). rewrite tri_rows_length.
    replace (tri n + u - tri n) with u by lia.
    set (f := fun u0 => if A u0 n then 1%N else 0%N).
    rewrite (nth_indep _ 0%N (f 0)) by (rewrite map_length, seq_length; exact Huv).
    rewrite (map_nth f), seq_nth by exact Huv. reflexivity.
  - rewrite app_nth1; [apply IH; lia|]. rewrite tri_rows_length.
    pose proof (tri_S v). pose proof (tri_mono (S v) n ltac:(lia)). lia.
Qed.

Lemma tri_rows_01 : forall A n, Forall (fun b => b = 0%N \/ b = 1%N) (tri_rows A n).
Proof.
  intros A n. apply Forall_forall. intros b Hb. unfold tri_rows in Hb.
  apply in_flat_map in Hb. destruct Hb as [v [_ Hb]]. apply in_map_iff in Hb.
  destruct Hb as [u [<- _]]. destruct (A u v); auto.
Qed.

Definition mk_vgraph (n : nat) (A : agraph) : vgraph :=
  let e := tri_rows A n in
  (n, Z.of_nat (ones e), map (fun v => Z.of_nat (degree_of e n v)) (seq 0 n), e).

Lemma mk_vgraph_wfv : forall n A, wfv (mk_vgraph n A).
Proof.
  intros n A. unfold mk_vgraph, wfv.
  split; [rewrite map_length, seq_length; reflexivity|].
  split; [apply tri_rows_length|]. split; [apply tri_rows_01|]. split; [|reflexivity].
  intros v Hv. set (f := fun v0 => Z.of_nat (degree_of (tri_rows A n) n v0)).
  rewrite (nth_indep _ 0%Z (f 0)) by (rewrite map_length, seq_length; exact Hv).
  rewrite (map_nth f), seq_nth by exact Hv. reflexivity.
Qed.

Lemma mk_vgraph_nv : forall n A, nv_of (mk_vgraph n A) = n.
Proof. reflexivity. Qed.

Lemma mk_vgraph_adj : forall n A u v, asym n A -> airr n A -> u < n -> v < n ->
  vadj (mk_vgraph n A) u v = A u v.
Proof.
  intros n A u v HS HI Hu Hv. cbn [mk_vgraph vadj]. unfold eadj.
  destruct (Nat.eqb_spec u v) as [->|Huv]; [symmetry; apply HI; exact Hv|]. cbn [negb andb].
  unfold edge_index. destruct (u <? v) eqn:Q.
  - apply Nat.ltb_lt in Q. rewrite tri_rows_nth by assumption. destruct (A u v); reflexivity.
  - apply Nat.ltb_ge in Q. rewrite tri_rows_nth by lia. rewrite (HS u v Hu Hv).
    destruct (A v u); reflexivity.
Qed.

(* ---------------------------------------------------------------- updateNeighbours never panics *)

Lemma nbrs_scan_some : forall e v is, (forall i, In i is -> i <> v -> edge_index i v < length e) ->
  exists r, nbrs_scan e v is = Some r.
Proof.
  intros e v is. induction is as [|i is IH]; intros H; cbn [nbrs_scan]; [eauto|].
  destruct (IH (fun j Hj => H j (or_intror Hj))) as [r R].
  destruct (Nat.eqb_spec i v) as [->|Hne]; [eauto|].
  destruct (nth_error e (edge_index i v)) as [b|] eqn:Eb.
  - rewrite R. eauto.
  - apply nth_error_None in Eb. specialize (H i (or_introl eq_refl) Hne). lia.
Qed.

Lemma all_nbrs_some : forall g, wfv g -> exists nb, all_nbrs g = Some nb.
Proof.
  intros [[[nv ne] d] e] (HD & HE & _). cbn [all_nbrs].
  assert (G : forall vs, (forall v, In v vs -> v < nv) -> exists r, all_nbrs_from e nv vs = Some r).
  { induction vs as [|v vs IH]; intros H; cbn [all_nbrs_from]; [eauto|].
    destruct (nbrs_scan_some e v (seq 0 nv)) as [r R].
    { intros i Hi Hne. apply in_seq in Hi. rewrite HE. apply edge_index_lt; [lia| |exact Hne].
      apply H. left. reflexivity. }
    rewrite R. destruct IH as [rs RS]; [intros w Hw; apply H; right; exact Hw|].
    rewrite RS. eauto. }
  apply G. intros v Hv. apply in_seq in Hv. lia.
Qed.

Lemma get_aut_some : forall canon g cv vb, wfv g -> exists c, get_aut canon g cv vb = Some c.
Proof.
  intros canon g cv vb W. destruct (all_nbrs_some g W) as [nb E]. unfold get_aut. rewrite E.
  destruct g as [[[nv ne] d] e]. eauto.
Qed.
