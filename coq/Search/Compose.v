(* C03 / C04 — the specification [canon_spec] (Search/OrderlySpec.v) DISCHARGED for the composed
   model: canon := [canon_real] (the model of the whole of CanonicalIsomorphAllocated,
   Canon/SearchModel.v, with the CheckViability branch of ComposeModel.v), ksub_reps :=
   [ksub_real_fn] (the k-subset loop of addAugmentations over the models of CombinationsColex /
   Rank / Sort).  [real_canon_spec : forall n, n <= 63 -> canon_spec canon_real ksub_real_fn n],
   [canon_real_novb : canon_ignores_stale_bits canon_real].

   Representation bridge: the search passes the neighbour lists read off the packed triangle
   ([all_nbrs]); their adjacency matrix [nb_matrix] is [matrix_of g] of OrderlyTop.v
   ([nb_matrix_eq]), a simple graph of Canon/Iso.v ([matrix_of_simple]) whose adjacency function
   is [vadj g]; the automorphisms of the matrix without classes are [autP (vadj g)]
   ([aut_bridge]).  From there:
     ok_perm, canon_label_ok  <- SearchProofs.search_perm, SearchInvar.search_invariant   (C01)
     ok_orb, generators       <- SearchComplete.search_orbits_exact, search_gens_generate_aut (C02)
     ok_early                 <- ComposeEarly.early_root, early_sound
     ok_ksub                  <- OrderlyInstKsub.ksub_real_ok through canon_spec_of_parts
   and the labelling returns for every graph the search can pass ([real_answer]: never the
   stand-in [no_cache] of ComposeModel.v for Panic / out of fuel; [real_answer_v] for
   CheckViability = true). *)
From Coq Require Import List NArith ZArith Arith Bool Lia Permutation.
From Mamba Require Import Disjoint.Model Disjoint.Proofs.
From Mamba Require Import Search.Model Search.SaveModel Search.ShardModel.
From Mamba Require Import Canon.AutBase Canon.Aut Canon.Group.
From Mamba Require Canon.Perm Canon.Iso Canon.Model Canon.SearchModel Canon.SearchInit Canon.SearchProofs
  Canon.SearchAut Canon.SearchInvar Canon.SearchTotal Canon.SearchComplete.
From Mamba Require Import Search.OrderlyBase Search.OrderlyGraph Search.OrderlySpec Search.OrderlyToyModel
  Search.OrderlyToy Search.OrderlyTop Search.OrderlyInstKsubModel Search.OrderlyInstKsub.
From Mamba Require Import Search.ComposeModel Search.ComposeRefine Search.ComposeEarly.
Import ListNotations.
Local Open Scope nat_scope.

(* ---------------------------------------------------------------- the graph passed to the labelling *)

Lemma nb_matrix_eq : forall g nb, wfv g -> all_nbrs g = Some nb -> nb_matrix (nv_of g) nb = matrix_of g.
Proof.
  intros g nb W E. unfold nb_matrix, matrix_of.
  apply map_ext_in. intros u Hu. apply map_ext_in. intros v Hv.
  apply in_seq in Hu. apply in_seq in Hv. apply (all_nbrs_adj g nb W E); lia.
Qed.

Lemma matrix_of_simple : forall g, Iso.simple (matrix_of g).
Proof.
  intros g. pose proof (matrix_of_wf g) as WF. split; [exact WF|]. split.
  - intros u. destruct (Nat.lt_ge_cases u (nv_of g)) as [Hu|Hu].
    + rewrite matrix_of_adjb by assumption. apply vadj_irrefl.
    + apply Iso.adjb_out_l. rewrite matrix_of_length. exact Hu.
  - intros u v. destruct (Nat.lt_ge_cases u (nv_of g)) as [Hu|Hu]; destruct (Nat.lt_ge_cases v (nv_of g)) as [Hv|Hv].
    + rewrite !matrix_of_adjb by assumption. apply vadj_sym.
    + rewrite (Iso.adjb_out_r _ u v WF), (Iso.adjb_out_l _ v u); rewrite ?matrix_of_length; auto.
    + rewrite (Iso.adjb_out_l _ u v), (Iso.adjb_out_r _ v u WF); rewrite ?matrix_of_length; auto.
    + rewrite (Iso.adjb_out_l _ u v), (Iso.adjb_out_l _ v u); rewrite ?matrix_of_length; auto.
Qed.

Definition ne_of (g : vgraph) : Z := let '(_, ne, _, _) := g in ne.

Lemma get_aut_real : forall g nb cv vb, all_nbrs g = Some nb ->
  get_aut canon_real g cv vb = Some (canon_real (nv_of g) (ne_of g) nb cv vb).
Proof. intros [[[n ne] d] e] nb cv vb E. unfold get_aut. rewrite E. reflexivity. Qed.

(* automorphisms of the matrix without vertex classes = automorphisms of the adjacency function *)
Lemma aut_bridge : forall g a,
  Aut (nv_of g) (Iso.adjb (matrix_of g)) (SearchModel.in_cell (SearchModel.init_cells (nv_of g) None)) a <->
  autP (nv_of g) (vadj g) a.
Proof.
  intros g a. unfold autP, Aut, nocls. split.
  - intros (HP & HA & _). split; [exact HP|]. split; [|reflexivity]. intros i j Hi Hj.
    rewrite <- !matrix_of_adjb by (try apply (app_lt _ a); assumption). apply HA; assumption.
  - intros (HP & HA & _). split; [exact HP|]. split.
    + intros i j Hi Hj. rewrite !matrix_of_adjb by (try apply (app_lt _ a); assumption). apply HA; assumption.
    + intros i Hi. rewrite (class0 (nv_of g) (app a i)) by (apply (app_lt _ a); assumption).
      rewrite (class0 (nv_of g) i) by assumption. reflexivity.
Qed.

(* ---------------------------------------------------------------- the labelling returns *)

Lemma real_search_returns : forall g, wfv g ->
  exists p o gs, SearchModel.canon_search (real_fuel (nv_of g)) (matrix_of g) None = SearchModel.Ok (p, o, gs).
Proof.
  intros g W.
  destruct (SearchTotal.canon_search_returns (matrix_of g) None (matrix_of_simple g) I (real_fuel (nv_of g)))
    as [[[p o] gs] E].
  - rewrite matrix_of_length. rewrite <- real_fuel_eq. apply le_n.
  - exists p, o, gs. exact E.
Qed.

Theorem real_answer : forall g, wfv g ->
  exists nb p o gs, all_nbrs g = Some nb /\
    SearchModel.canon_search (real_fuel (nv_of g)) (matrix_of g) None = SearchModel.Ok (p, o, gs) /\
    answer canon_real g = Some (mkCache (Some p) o gs).
Proof.
  intros g W. destruct (all_nbrs_some g W) as [nb E]. destruct (real_search_returns g W) as (p & o & gs & H).
  exists nb, p, o, gs. split; [exact E|]. split; [exact H|].
  unfold answer. rewrite (get_aut_real g nb false 0%N E). unfold canon_real.
  rewrite (nb_matrix_eq g nb W E), H. reflexivity.
Qed.

Lemma perm_of_Permutation : forall n p, Permutation p (seq 0 n) -> is_perm n p.
Proof. intros n p H. apply Group.is_perm_Permutation. apply Permutation_sym. exact H. Qed.

(* ---------------------------------------------------------------- C01: the label is canonical *)

Theorem real_label_ok : forall N, canon_label_ok canon_real N.
Proof.
  intros N g h cg ch pg ph q Wg Wh NV HN Eg Eh Pg Ph Hq i j Hi Hj.
  destruct (real_answer g Wg) as (nbg & p1 & o1 & gs1 & _ & H1 & A1).
  destruct (real_answer h Wh) as (nbh & p2 & o2 & gs2 & _ & H2 & A2).
  rewrite A1 in Eg. inversion Eg; subst cg. cbn [CPerm] in Pg. inversion Pg; subst p1.
  rewrite A2 in Eh. inversion Eh; subst ch. cbn [CPerm] in Ph. inversion Ph; subst p2.
  set (n := nv_of g) in *. destruct Hq as [Pq Aq].
  assert (Hpg : Permutation pg (seq 0 n)).
  { pose proof (SearchProofs.search_perm _ None (matrix_of_simple g) I _ _ _ _ H1) as Q.
    rewrite matrix_of_length in Q. exact Q. }
  assert (Hph : Permutation ph (seq 0 n)).
  { pose proof (SearchProofs.search_perm _ None (matrix_of_simple h) I _ _ _ _ H2) as Q.
    rewrite matrix_of_length, <- NV in Q. exact Q. }
  apply perm_of_Permutation in Hpg. apply perm_of_Permutation in Hph.
  (* h is g relabelled by q: f = app q maps the vertices of h to those of g *)
  assert (INV : Iso.relabel (matrix_of h) ph = Iso.relabel (matrix_of g) pg).
  { assert (HF : SearchEquiv.autf (matrix_of h) (matrix_of g) (length (matrix_of h)) (app q)).
    { split.
      - intros u v Hu Hv. rewrite matrix_of_length, <- NV in Hu, Hv. fold n in Hu, Hv.
        rewrite !matrix_of_adjb by (rewrite <- ?NV; try apply (app_lt n q); assumption).
        symmetry. apply Aq; assumption.
      - rewrite matrix_of_length, <- NV. fold n. rewrite (map_app_seq n q (proj1 Pq)).
        apply Permutation_sym, Group.is_perm_Permutation. exact Pq. }
    exact (SearchInvar.search_invariant (matrix_of h) (matrix_of g) (app q) None
             (matrix_of_simple h) (matrix_of_simple g)
             ltac:(rewrite !matrix_of_length; exact NV) HF I _ _ _ _ _ _ _ _ H2 H1). }
  assert (E : Iso.adjb (Iso.relabel (matrix_of h) ph) i j = Iso.adjb (Iso.relabel (matrix_of g) pg) i j)
    by (rewrite INV; reflexivity).
  rewrite !Iso.adjb_relabel in E by (rewrite ?(proj1 Hpg), ?(proj1 Hph); assumption).
  change (Perm.papp ph) with (app ph) in E. change (Perm.papp pg) with (app pg) in E.
  rewrite !matrix_of_adjb in E by (rewrite <- ?NV; first [apply (app_lt n pg)|apply (app_lt n ph)]; assumption).
  symmetry. exact E.
Qed.

(* ---------------------------------------------------------------- C02 and the early exit *)

Lemma bits_ok_of : forall n vb, (forall j, N.testbit vb (N.of_nat j) = true -> j < n - 1) -> bits_ok n vb.
Proof. intros n vb H v Hv. apply bits_of_In in Hv. specialize (H v Hv). lia. Qed.

(* CheckViability = true: the answer is the full answer, or nil and then a vertex of ViableBits lies
   in an earlier cell of the first equitable partition than n-1; never the stand-in for a panic *)
Theorem real_answer_v : forall g nb vb, wfv g -> 1 <= nv_of g -> all_nbrs g = Some nb -> bits_ok (nv_of g) vb ->
  forall p o gs, SearchModel.canon_search (real_fuel (nv_of g)) (matrix_of g) None = SearchModel.Ok (p, o, gs) ->
  (SearchModel.Ok (Some (p, o, gs)) = canon_search_v (real_fuel (nv_of g)) (matrix_of g) vb /\
   get_aut canon_real g true vb = Some (mkCache (Some p) o gs)) \/
  (SearchModel.Ok None = canon_search_v (real_fuel (nv_of g)) (matrix_of g) vb /\
   get_aut canon_real g true vb = Some no_cache /\
   0 < SearchModel.num_edges (matrix_of g) /\
   exists root v,
     Canon.Model.refine (matrix_of g) (SearchModel.erase (SearchModel.init_cells (nv_of g) None)) = Some root /\
     In v (bits_of vb) /\ icell root v < icell root (nv_of g - 1)).
Proof.
  intros g nb vb W Hn E Hvb p o gs H.
  rewrite (get_aut_real g nb true vb E). unfold canon_real. rewrite (nb_matrix_eq g nb W E).
  destruct (Nat.eq_dec (SearchModel.num_edges (matrix_of g)) 0) as [Hm|Hm].
  - left. rewrite (canon_search_v_shortcut _ _ vb (or_intror Hm)), H. split; reflexivity.
  - pose proof (early_root (matrix_of g)) as ER.
    rewrite matrix_of_length in ER.
    destruct (ER ltac:(lia) ltac:(lia) vb Hvb _ p o gs H) as [E1|(E1 & root & v & R1 & R2 & R3)].
    + left. rewrite E1. split; reflexivity.
    + right. rewrite E1. split; [reflexivity|]. split; [reflexivity|]. split; [lia|].
      exists root, v. auto.
Qed.

Theorem real_parts : forall N g c, wfv g -> 1 <= nv_of g <= N -> answer canon_real g = Some c ->
  canon_parts_at canon_real g c.
Proof.
  intros N g c W HN EA.
  destruct (real_answer g W) as (nb & p & o & gs & ENB & H & A). rewrite A in EA. inversion EA; subst c. clear EA.
  set (n := nv_of g) in *. set (G := matrix_of g) in *.
  pose proof (matrix_of_simple g) as HG. fold G in HG.
  assert (LG : length G = n) by apply matrix_of_length.
  pose proof (SearchProofs.search_perm G None HG I _ _ _ _ H) as HP. rewrite LG in HP.
  destruct (SearchComplete.search_orbits_exact G None HG I _ _ _ _ H) as (LO & WO & SO). rewrite LG in LO, SO.
  pose proof (SearchComplete.search_gens_generate_aut G None HG I _ _ _ _ H) as GG. rewrite LG in GG.
  assert (ORB : forall x y, x < n -> y < n -> (same o x y <-> orbA n (vadj g) x y)).
  { intros x y Hx Hy. rewrite (SO x y Hx Hy). unfold orbA.
    split; intros (a & Ha & Ea); exists a; (split; [apply (aut_bridge g a); exact Ha|exact Ea]). }
  constructor; cbn [CPerm COrb CGens].
  - exists p. split; [reflexivity|]. apply perm_of_Permutation. exact HP.
  - split; [exact LO|]. split; [exact WO|exact ORB].
  - split.
    + intros s Hs. apply (aut_bridge g s). apply GG. apply gen_in. exact Hs.
    + intros a Ha. apply GG. apply (aut_bridge g a). exact Ha.
  - intros vb c' Hb E'. fold n in Hb.
    destruct (real_answer_v g nb vb W ltac:(lia) ENB (bits_ok_of n vb Hb) p o gs H)
      as [[_ E1]|(_ & E1 & Hm & root & v & R1 & R2 & R3)]; rewrite E1 in E'; inversion E'; subst c'.
    + left. reflexivity.
    + right. split; [reflexivity|]. intros p' u Ep F S. inversion Ep; subst p'. fold n in F, S.
      unfold first_hit in F.
      assert (Hu : u < n).
      { apply find_some in F. destruct F as [F _]. apply (Permutation_in _ HP) in F. apply in_seq in F. lia. }
      apply (SO u (n - 1) Hu ltac:(lia)) in S.
      pose proof (early_sound G HG) as ES. rewrite LG in ES.
      apply (ES ltac:(lia) Hm vb (bits_ok_of n vb Hb) _ p o gs root v u H R1 R2 R3 F). exact S.
Qed.

(* ---------------------------------------------------------------- the specification, discharged *)

Theorem real_canon_spec : forall N, N <= NMAX -> canon_spec canon_real ksub_real_fn N.
Proof.
  intros N HN. apply canon_spec_of_parts.
  - apply real_label_ok.
  - intros g c W Hn EA. apply (real_parts N g c W Hn EA).
  - apply ksub_real_ok. exact HN.
Qed.

(* CanonicalIsomorphAllocated reads options.ViableBits only under `if options.CheckViability` *)
Theorem canon_real_novb : canon_ignores_stale_bits canon_real.
Proof. intros n m nb vb vb'. reflexivity. Qed.

(* the stand-in of ComposeModel.v for a Panic / out of fuel of the labelling is never taken on a
   graph the search can pass: with CheckViability = false the answer is a full answer; with
   CheckViability = true and the viable bits below n-1 it is that answer or nil *)
Theorem canon_real_returns : forall g vb, wfv g -> 1 <= nv_of g ->
  exists p o gs, SearchModel.canon_search (real_fuel (nv_of g)) (matrix_of g) None = SearchModel.Ok (p, o, gs) /\
    get_aut canon_real g false vb = Some (mkCache (Some p) o gs) /\
    (bits_ok (nv_of g) vb ->
     (canon_search_v (real_fuel (nv_of g)) (matrix_of g) vb = SearchModel.Ok (Some (p, o, gs)) /\
      get_aut canon_real g true vb = Some (mkCache (Some p) o gs)) \/
     (canon_search_v (real_fuel (nv_of g)) (matrix_of g) vb = SearchModel.Ok None /\
      get_aut canon_real g true vb = Some no_cache)).
Proof.
  intros g vb W Hn. destruct (real_answer g W) as (nb & p & o & gs & ENB & H & A).
  exists p, o, gs. split; [exact H|]. split.
  - unfold answer in A. rewrite (get_aut_real g nb false 0%N ENB) in A.
    rewrite (get_aut_real g nb false vb ENB). exact A.
  - intros Hvb. destruct (real_answer_v g nb vb W Hn ENB Hvb p o gs H) as [[E1 E2]|(E1 & E2 & _)];
      [left|right]; split; auto.
Qed.
