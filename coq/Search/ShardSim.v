(* C03: the iterative machine of Search/Model.v computes the recursive presentation
   [ShardModel.spec]: whenever the caller's loop over Next ends without panic (and within the
   fuel), the sequence of graphs it has seen is the one [spec] gives.

   Hypothesis on the canonical labelling: [canon_ignores_stale_bits] (options.ViableBits is
   read only under options.CheckViability; graph/canonical.go). *)
From Coq Require Import List NArith ZArith Arith Bool Lia.
From Mamba Require Import Disjoint.Model Search.Model Search.SaveModel Search.SaveProofs.
From Mamba Require Import Search.ShardModel Search.ShardGraph.
Import ListNotations.
Local Open Scope nat_scope.

Lemma add_v_eq : forall g nb, add_v g nb = add_vertex_v g nb.
Proof. reflexivity. Qed.

Lemma nv_of_nvv : forall g, nv_of g = nvv g.
Proof. reflexivity. Qed.

Ltac sst H := unfold with_stacks, with_cache, with_graph, with_first in H;
  cbn [SN SA SM SFirst SG SCache SVB SChoices SPath] in H.

Section Sim.
Variable grow : nat -> nat.
Variable canon : nat -> Z -> list (list nat) -> bool -> N -> cache.
Variable ksub_reps : nat -> nat -> list (list nat) -> list N.
Variables preprune prune : vgraph -> bool.
Hypothesis canon_novb : canon_ignores_stale_bits canon.
Variables n a m : nat.

Notation step' := (step grow canon ksub_reps preprune prune).
Notation collect' := (collect grow canon ksub_reps preprune prune).
Notation child' := (child canon preprune prune).
Notation sibs' := (sibs canon preprune prune n a m).
Notation tree' := (tree canon ksub_reps preprune prune n a m).
Notation St := (mkState n a m false).

(* the graph held by the machine in relation to the accepted graph g whose children are being
   tried: it is g itself (nothing added yet on this level) or a child of g *)
Definition par (sf : bool) (G : dense) (g : vgraph) : Prop :=
  ginv G /\ if sf then vis G = g else remove_last_v (vis G) = Some g.

Lemma fmap_ok : forall {A B} (f : A -> B) r y, fmap_res f r = Ok y -> exists x, r = Ok x /\ y = f x.
Proof. intros A B f [x| |] y H; cbn in H; try discriminate. inversion H. eauto. Qed.

(* ---------------------------------------------------------------- single steps *)

Lemma retract_par : forall sf G c vb ch pa g s',
  par sf G g ->
  (if sf then Some (St G c vb ch pa) else retract (St G c vb ch pa)) = Some s' ->
  exists G' c', s' = St G' c' vb ch pa /\ ginv G' /\ vis G' = g.
Proof.
  intros sf G c vb ch pa g s' [GI P] H. destruct sf.
  - inversion H; subst. eauto.
  - unfold retract in H. cbn [SG] in H.
    destruct (remove_last G) as [G'|] eqn:R; [|discriminate]. inversion H; subst.
    exists G', no_cache. split; [reflexivity|].
    destruct (remove_last_ginv _ _ GI R) as [_ GI']. split; [exact GI'|].
    pose proof (remove_last_v_vis G) as V. rewrite R, P in V. cbn in V. inversion V. reflexivity.
Qed.

Lemma step_for_0 : forall sf G c vb ch k pa g p' s',
  par sf G g ->
  step' (For 0 sf) (St G c vb ch (k :: pa)) = Go p' s' ->
  p' = Step false /\ exists G' c', s' = St G' c' vb ch pa /\ ginv G' /\ vis G' = g.
Proof.
  intros sf G c vb ch k pa g p' s' P H. cbn [step] in H.
  destruct (if sf then Some (St G c vb ch (k :: pa)) else retract (St G c vb ch (k :: pa))) as [s1|] eqn:R;
    [|discriminate].
  destruct (retract_par _ _ _ _ _ _ _ _ P R) as (G' & c' & -> & GI & V).
  cbn in H. inversion H; subst. split; [reflexivity|]. exists G', c'. auto.
Qed.

Lemma step_for_S : forall i sf G c vb x ch k pa g p' s',
  par sf G g -> shape g -> nvv g = S (length pa) ->
  step' (For (S i) sf) (St G c vb (x :: ch) (k :: pa)) = Go p' s' ->
  m <> 0 /\
  ((skip n a m (nvv g) i = true /\ p' = For i sf /\ s' = St G c vb ch (k :: pa)) \/
   (skip n a m (nvv g) i = false /\
    ((child' g x = CReject /\ p' = For i false /\
      exists G' c' vb', s' = St G' c' vb' ch (k :: pa) /\ par false G' g) \/
     (exists g' c', child' g x = CAccept g' c' /\ p' = Outer false false /\
      exists G' vb', s' = St G' c' vb' ch (i :: pa) /\ vis G' = g' /\ par false G' g /\
                     shape g' /\ nvv g' = S (nvv g))))).
Proof.
  intros i sf G c vb x ch k pa g p' s' P SH LV H.
  cbn [step SChoices SM SA SN SPath with_stacks] in H.
  destruct (m =? 0) eqn:M0; [discriminate|]. apply Nat.eqb_neq in M0. split; [exact M0|].
  unfold skip. cbn [length] in H. rewrite LV.
  destruct (negb (i mod m =? a) && (Z.of_nat (S (length pa)) =? split_level n)%Z) eqn:SK.
  - left. inversion H; subst. auto.
  - right. split; [reflexivity|].
    match type of H with context [if sf then Some ?s else retract ?s] =>
      destruct (if sf then Some s else retract s) as [s2|] eqn:R; [|discriminate] end.
    destruct (retract_par _ _ _ _ _ _ _ _ P R) as (G0 & c0 & -> & GI0 & V0).
    cbn [SG SVB with_graph with_cache SCache SPath SChoices] in H.
    destruct (add_vertex grow G0 (bits_of x)) as [G1|] eqn:AV; [|discriminate].
    pose proof (add_vertex_vis grow G0 (bits_of x) (proj1 GI0)) as AVV.
    rewrite AV, V0 in AVV. cbn [option_map] in AVV. symmetry in AVV.
    destruct (add_vertex_ginv _ _ _ _ GI0 AV) as [NV1 GI1].
    assert (P1 : par false G1 g).
    { split; [exact GI1|]. eapply remove_add_v; eauto. apply bits_of_NoDup. }
    destruct (add_vertex_v_shape' _ _ _ SH AVV) as [SH1 NVV1].
    unfold child. rewrite add_v_eq, AVV.
    cbn [SG SVB with_graph with_cache SCache SPath SChoices SN SA SM SFirst] in H.
    destruct (preprune (vis G1)) eqn:PP.
    + left. inversion H; subst. split; [reflexivity|]. split; [reflexivity|].
      exists G1, no_cache, vb. auto.
    + pose proof (is_canonical_nocache canon (vis G1) (bits_of x) vb 0%N) as IC.
      destruct (is_canonical canon (vis G1) (bits_of x) no_cache vb) as [[[b c1] vb1]|] eqn:IC1;
        [|discriminate].
      destruct (is_canonical canon (vis G1) (bits_of x) no_cache 0%N) as [[[b' c1'] vb1']|];
        [|discriminate].
      cbn in IC. inversion IC; subst b' c1'.
      destruct (b && negb (prune (vis G1))) eqn:ACC.
      * right. cbn in H. inversion H; subst. exists (vis G1), c1.
        split; [reflexivity|]. split; [reflexivity|].
        exists G1, vb1. repeat split; auto; try apply P1; lia.
      * left. inversion H; subst. split; [reflexivity|]. split; [reflexivity|].
        exists G1, c1, vb1. auto.
Qed.

Lemma step_for_noret : forall c sf s b s', step' (For c sf) s <> Ret b s'.
Proof.
  intros [|i] sf s b s' H; cbn [step] in H.
  - destruct (if sf then Some s else retract s) as [s1|]; [|discriminate].
    destruct (SPath s1); discriminate.
  - destruct (SChoices s); [discriminate|].
    destruct (SM s =? 0); [discriminate|].
    destruct (_ && _); [discriminate|].
    destruct (if sf then _ else _) as [s2|]; [|discriminate].
    destruct (add_vertex _ _ _); [|discriminate].
    destruct (preprune _); [discriminate|].
    destruct (is_canonical _ _ _ _ _) as [[[? ?] ?]|]; [|discriminate].
    destruct (_ && _); [|discriminate].
    destruct (SPath _); discriminate.
Qed.

(* ---------------------------------------------------------------- the run *)

(* where the run stands once everything below g has been explored *)
Definition cont_ok (fuel : nat) (g : vgraph) (ch : list N) (pa : list nat) (L2 : list vgraph) : Prop :=
  (ch = [] /\ L2 = []) \/
  exists fuel' G' c' vb', fuel' < fuel /\
    collect' fuel' (Step false) (St G' c' vb' ch pa) = Ok L2 /\ ginv G' /\ vis G' = g.

Lemma cont_ok_mono : forall f1 f2 g ch pa L2, f1 <= f2 -> cont_ok f1 g ch pa L2 -> cont_ok f2 g ch pa L2.
Proof.
  intros f1 f2 g ch pa L2 H [C|(f & G' & c' & vb' & Hf & C)]; [left; exact C|right].
  exists f, G', c', vb'. split; [lia|exact C].
Qed.

Definition P_for (fuel : nat) : Prop :=
  forall G c vb xs ch k pa sf g L,
    collect' fuel (For (length xs) sf) (St G c vb (xs ++ ch) (k :: pa)) = Ok L ->
    par sf G g -> shape g -> nvv g = S (length pa) -> nvv g < n ->
    exists L1 L2, sibs' (tree' (n - nvv g - 1)) g xs = Some L1 /\ L = L1 ++ L2 /\
                  cont_ok fuel g ch pa L2.

Definition P_node (fuel : nat) : Prop :=
  forall G c vb ch pa g L,
    collect' fuel (Outer false false) (St G c vb ch pa) = Ok L ->
    ginv G -> vis G = g -> shape g -> nvv g = S (length pa) -> nvv g <= n ->
    exists L1 L2, tree' (n - nvv g) g c = Some L1 /\ L = L1 ++ L2 /\ cont_ok fuel g ch pa L2.

Lemma node_step : forall fuel, (forall f, f < fuel -> P_for f) -> P_node fuel.
Proof.
  intros fuel IH G c vb ch pa g L H GI V SH LV LE.
  destruct fuel as [|f]; [discriminate|]. cbn [collect step SG SN SCache SVB] in H.
  destruct (NV G =? n) eqn:E.
  - apply Nat.eqb_eq in E. apply fmap_ok in H. destruct H as [L' [H ->]].
    destruct f as [|f2]; [discriminate|]. cbn [collect step] in H.
    assert (D : n - nvv g = 0) by (rewrite <- V, nvv_vis; lia). rewrite D. cbn [tree].
    exists [g], L'. cbn [SG]. rewrite V. split; [reflexivity|]. split; [reflexivity|].
    right. exists f2, G, c, vb. auto.
  - apply Nat.eqb_neq in E.
    assert (LT : nvv g < n) by (rewrite <- V, nvv_vis in *; lia).
    destruct (add_augs canon ksub_reps (vis G) c vb) as [[masks c2]|] eqn:AA; [|discriminate].
    pose proof (add_augs_nonempty _ _ _ _ _ _ _ AA) as NE.
    rewrite (add_augs_novb canon ksub_reps canon_novb (vis G) c vb 0%N), V in AA.
    sst H.
    destruct f as [|f2]; [discriminate|]. cbn [collect step SChoices SPath] in H.
    assert (NE' : rev masks ++ ch <> []).
    { intros Q. apply app_eq_nil in Q. destruct Q as [Q _].
      apply (f_equal (@rev N)) in Q. rewrite rev_involutive in Q. auto. }
    destruct (rev masks ++ ch) as [|y ys] eqn:RM; [contradiction|]. rewrite <- RM in H.
    rewrite <- (rev_length masks) in H.
    destruct (IH f2 ltac:(lia) _ _ _ _ _ _ _ _ _ _ H (conj GI V) SH LV LT) as (L1 & L2 & S1 & -> & C).
    replace (n - nvv g) with (S (n - nvv g - 1)) by lia. cbn [tree]. rewrite AA.
    exists L1, L2. split; [exact S1|]. split; [reflexivity|].
    eapply cont_ok_mono; [|exact C]. lia.
Qed.

Lemma for_step : forall fuel, (forall f, f < fuel -> P_for f /\ P_node f) -> P_for fuel.
Proof.
  intros fuel IH G c vb xs ch k pa sf g L H P SH LV LT.
  destruct fuel as [|f]; [discriminate|]. cbn [collect] in H.
  destruct (step' (For (length xs) sf) (St G c vb (xs ++ ch) (k :: pa))) as [p1 s1|b s1|] eqn:ST;
    [|exfalso; eapply step_for_noret; eauto|discriminate].
  destruct xs as [|x xs'].
  - cbn [length app] in ST.
    destruct (step_for_0 _ _ _ _ _ _ _ _ _ _ P ST) as (-> & G' & c' & -> & GI & V).
    exists [], L. split; [reflexivity|]. split; [reflexivity|].
    right. exists f, G', c', vb. auto.
  - cbn [length app] in ST.
    destruct (step_for_S _ _ _ _ _ _ _ _ _ _ _ _ P SH LV ST) as (M0 & [(SK & -> & ->)|(SK & [RJ|AC])]).
    + destruct (proj1 (IH f ltac:(lia)) _ _ _ _ _ _ _ _ _ _ H P SH LV LT) as (L1 & L2 & S1 & -> & C).
      exists L1, L2. cbn [sibs]. rewrite (proj2 (Nat.eqb_neq _ _) M0), nv_of_nvv, SK.
      split; [exact S1|]. split; [reflexivity|]. eapply cont_ok_mono; [|exact C]. lia.
    + destruct RJ as (CH & -> & G' & c' & vb' & -> & P').
      destruct (proj1 (IH f ltac:(lia)) _ _ _ _ _ _ _ _ _ _ H P' SH LV LT) as (L1 & L2 & S1 & -> & C).
      exists L1, L2. cbn [sibs]. rewrite (proj2 (Nat.eqb_neq _ _) M0), nv_of_nvv, SK, CH.
      split; [exact S1|]. split; [reflexivity|]. eapply cont_ok_mono; [|exact C]. lia.
    + destruct AC as (g' & c' & CH & -> & G' & vb' & -> & V' & P' & SH' & NV').
      assert (LV' : nvv g' = S (length (length xs' :: pa))) by (cbn [length]; lia).
      destruct (proj2 (IH f ltac:(lia)) _ _ _ _ _ _ _ H (proj1 P') V' SH' LV' ltac:(lia))
        as (L1a & L2a & T1 & -> & C).
      replace (n - nvv g') with (n - nvv g - 1) in T1 by lia.
      cbn [sibs]. rewrite (proj2 (Nat.eqb_neq _ _) M0), nv_of_nvv, SK, CH, T1.
      assert (END : xs' ++ ch = [] -> L2a = [] ->
              exists L1 L2, match sibs' (tree' (n - nvv g - 1)) g xs' with
                            | Some l2 => Some (L1a ++ l2) | None => None end = Some L1 /\
                            L1a ++ L2a = L1 ++ L2 /\ cont_ok (S f) g ch pa L2).
      { intros Q ->. apply app_eq_nil in Q. destruct Q as [-> ->]. cbn [sibs].
        exists (L1a ++ []), []. split; [reflexivity|]. split; [rewrite !app_nil_r; reflexivity|].
        left. auto. }
      destruct C as [[Q1 Q2]|(f' & G'' & c'' & vb'' & Hf & C & GI'' & V'')]; [apply END; assumption|].
      destruct f' as [|f3]; [discriminate|]. cbn [collect step SChoices SPath] in C.
      destruct (xs' ++ ch) as [|y ys] eqn:RM.
      { inversion C; subst. apply END; reflexivity. }
      rewrite <- RM in C.
      assert (P'' : par false G'' g).
      { split; [exact GI''|]. rewrite V'', <- V'. exact (proj2 P'). }
      destruct (proj1 (IH f3 ltac:(lia)) _ _ _ _ _ _ _ _ _ _ C P'' SH LV LT) as (L1b & L2b & S1 & -> & C2).
      rewrite S1. exists (L1a ++ L1b), L2b. split; [reflexivity|]. split; [apply app_assoc|].
      eapply cont_ok_mono; [|exact C2]. lia.
Qed.

Lemma for_node_all : forall fuel, P_for fuel /\ P_node fuel.
Proof.
  intros fuel. induction fuel as [fuel IH] using lt_wf_ind.
  assert (F : P_for fuel) by (apply for_step; exact IH).
  split; [exact F|]. apply node_step. intros f Hf. apply IH. exact Hf.
Qed.


(* ---------------------------------------------------------------- from the caller's loop to one run *)

Definition frame (s s' : state) : Prop :=
  SN s' = SN s /\ SA s' = SA s /\ SM s' = SM s /\ SFirst s' = SFirst s.

Lemma retract_frame : forall s s', retract s = Some s' -> frame s s'.
Proof.
  intros s s' H. unfold retract in H. destruct (remove_last (SG s)); [|discriminate].
  inversion H; subst. unfold frame. cbn. auto.
Qed.

Lemma step_frame : forall p s, match step' p s with
                               | Go _ s' => frame s s' | Ret _ s' => frame s s' | Crash => True end.
Proof.
  assert (RF : forall s, frame s s) by (intros s; unfold frame; auto).
  intros [cont sf | sf | [|i] sf] s; cbn [step].
  - destruct cont; [apply RF|]. destruct (NV (SG s) =? SN s); [apply RF|].
    destruct (add_augs _ _ _ _ _) as [[masks c]|]; [|exact I]. unfold frame. cbn. auto.
  - destruct (SChoices s); [apply RF|]. destruct (SPath s); [exact I|apply RF].
  - destruct sf.
    + destruct (SPath s); [exact I|]. unfold frame. cbn. auto.
    + destruct (retract s) as [s1|] eqn:R; [|exact I]. apply retract_frame in R.
      destruct (SPath s1); [exact I|]. unfold frame in *. cbn. exact R.
  - destruct (SChoices s) as [|x ch]; [exact I|].
    destruct (SM s =? 0); [exact I|].
    destruct (_ && _); [unfold frame; cbn; auto|].
    assert (F2 : forall s2, (if sf then Some (with_stacks s ch (SPath s)) else retract (with_stacks s ch (SPath s))) = Some s2 -> frame s s2).
    { intros s2 H. destruct sf; [inversion H; unfold frame; cbn; auto|].
      apply retract_frame in H. unfold frame in *. cbn in H. exact H. }
    destruct (if sf then _ else _) as [s2|]; [|exact I]. specialize (F2 s2 eq_refl).
    destruct (add_vertex _ _ _) as [g|]; [|exact I].
    destruct (preprune _); [unfold frame in *; cbn; exact F2|].
    destruct (is_canonical _ _ _ _ _) as [[[b c] vb]|]; [|exact I].
    destruct (_ && _); [|unfold frame in *; cbn; exact F2].
    cbn [SPath with_cache with_graph]. destruct (SPath s2); [exact I|].
    unfold frame in *; cbn; exact F2.
Qed.

Notation run' := (run grow canon ksub_reps preprune prune).
Notation next' := (next grow canon ksub_reps preprune prune).
Notation outputs' := (outputs grow canon ksub_reps preprune prune).

Lemma run_frame : forall fuel p s b s', run' fuel p s = Ok (b, s') -> frame s s'.
Proof.
  intros fuel. induction fuel as [|f IH]; intros p s b s' H; cbn [run] in H; [discriminate|].
  pose proof (step_frame p s) as SF.
  destruct (step' p s) as [p1 s1|b1 s1|]; [|inversion H; subst; exact SF|discriminate].
  apply IH in H. unfold frame in *. intuition congruence.
Qed.

Lemma collect_mono : forall f p s L k, collect' f p s = Ok L -> collect' (f + k) p s = Ok L.
Proof.
  intros f. induction f as [|f IH]; intros p s L k H; [discriminate|].
  cbn [collect plus] in *.
  destruct (step' p s) as [p1 s1|[|] s1|]; try discriminate; auto.
  apply fmap_ok in H. destruct H as [L' [H ->]]. rewrite (IH _ _ _ k H). reflexivity.
Qed.

Lemma run_collect : forall fuel p s b s', run' fuel p s = Ok (b, s') ->
  if b then forall f L, collect' f (Outer true false) s' = Ok L ->
                        collect' (fuel + f) p s = Ok (vis (SG s') :: L)
  else collect' fuel p s = Ok [].
Proof.
  intros fuel. induction fuel as [|fu IH]; intros p s b s' H; cbn [run] in H; [discriminate|].
  cbn [collect plus].
  destruct (step' p s) as [p1 s1|b1 s1|]; [|inversion H; subst|discriminate].
  - specialize (IH _ _ _ _ H). destruct b; exact IH.
  - destruct b; [|reflexivity]. intros f L C.
    rewrite Nat.add_comm, (collect_mono _ _ _ _ fu C). reflexivity.
Qed.

Lemma next_later : forall fuel s, SFirst s = false -> 2 <= SN s ->
  next' fuel s = run' fuel (Outer true false) s.
Proof.
  intros fuel s F N. unfold next. destruct (SN s) as [|[|k]]; [lia|lia|]. rewrite F. reflexivity.
Qed.

Lemma outputs_collect : forall calls fuel s L, SFirst s = false -> 2 <= SN s ->
  outputs' calls fuel s = Ok L -> exists f, collect' f (Outer true false) s = Ok L.
Proof.
  intros calls. induction calls as [|k IH]; intros fuel s L F N H; [discriminate|].
  cbn [outputs] in H. rewrite (next_later fuel s F N) in H.
  destruct (run' fuel (Outer true false) s) as [[b s']| |] eqn:R; try discriminate.
  pose proof (run_frame _ _ _ _ _ R) as (F1 & _ & _ & F4).
  pose proof (run_collect _ _ _ _ _ R) as RC.
  destruct b.
  - apply fmap_ok in H. destruct H as [L' [H ->]].
    destruct (IH fuel s' L') as [f C]; [congruence|lia|exact H|].
    exists (fuel + f). apply RC. exact C.
  - inversion H; subst. exists fuel. exact RC.
Qed.

(* ---------------------------------------------------------------- the whole iterator *)

Lemma tri_1' : tri 1 = 0.
Proof. reflexivity. Qed.

Lemma spec_ge2 : forall n0, 2 <= n0 ->
  spec canon ksub_reps preprune prune n0 a m =
  if preprune g1 || prune g1 then Some []
  else tree canon ksub_reps preprune prune n0 a m (n0 - 1) g1 no_cache.
Proof. intros [|[|k]] H; [lia|lia|reflexivity]. Qed.

Lemma next_first_ge2 : forall n0, 2 <= n0 ->
  exists G1, ginv G1 /\ vis G1 = g1 /\ forall fuel,
    next' fuel (init n0 a m) =
    if preprune g1 || prune g1 then Ok (false, mkState n0 a m false G1 no_cache 0%N [] [])
    else run' fuel (Outer false false) (mkState n0 a m false G1 no_cache 0%N [] []).
Proof.
  intros [|[|k]] H; [lia|lia|].
  eexists. split; [|split; [|intros fuel; unfold next, init, set_one, new_search_graph, reslice; cbn; reflexivity]].
  - unfold ginv. cbn. auto.
  - reflexivity.
Qed.

Theorem outputs_spec : forall calls fuel L,
  outputs' calls fuel (init n a m) = Ok L ->
  spec canon ksub_reps preprune prune n a m = Some L.
Proof.
  intros calls fuel L H.
  destruct (le_lt_dec 2 n) as [N2|N2].
  - (* n >= 2 *)
    rewrite (spec_ge2 n N2).
    destruct calls as [|k]; [discriminate|]. cbn [outputs] in H.
    destruct (next_first_ge2 n N2) as (G1 & GI & V & NX). rewrite NX in H. clear NX.
    destruct (preprune g1 || prune g1); [inversion H; reflexivity|].
    assert (C : exists F, collect' F (Outer false false) (St G1 no_cache 0%N [] []) = Ok L).
    { destruct (run' fuel (Outer false false) (St G1 no_cache 0%N [] [])) as [[b s']| |] eqn:R;
        try discriminate.
      pose proof (run_frame _ _ _ _ _ R) as (F1 & _ & _ & F4).
      pose proof (run_collect _ _ _ _ _ R) as RC. cbn in F1, F4.
      destruct b.
      - apply fmap_ok in H. destruct H as [L' [H ->]].
        destruct (outputs_collect k fuel s' L') as [f C]; [exact F4|lia|exact H|].
        exists (fuel + f). apply RC. exact C.
      - inversion H; subst. exists fuel. exact RC. }
    destruct C as [F C].
    destruct (proj2 (for_node_all F) _ _ _ _ _ _ _ C GI V) as (L1 & L2 & T & -> & CO).
    { unfold shape, g1. cbn. auto. }
    { reflexivity. }
    { cbn. lia. }
    change (nvv g1) with 1 in T. rewrite T. f_equal.
    destruct CO as [[_ ->]|(f' & G' & c' & vb' & _ & C2 & _)]; [symmetry; apply app_nil_r|].
    destruct f' as [|f3]; [discriminate|]. cbn in C2. inversion C2. symmetry; apply app_nil_r.
  - unfold spec. destruct n as [|[|n2]] eqn:En; [| |lia].
    + (* n = 0 *)
      destruct calls as [|k]; [discriminate|]. cbn [outputs next init SN] in H.
      unfold first_test in H. cbn [SFirst SA SG init new_search_graph] in H.
      change (vis (new_search_graph 0)) with g0 in H.
      cbn [andb] in H.
      destruct ((a =? 0) && negb (preprune g0) && negb (prune g0)); [|inversion H; reflexivity].
      apply fmap_ok in H. destruct H as [L' [H ->]].
      destruct k as [|k]; [discriminate|]. cbn in H. inversion H. reflexivity.
    + (* n = 1 *)
      destruct calls as [|k]; [discriminate|]. cbn [outputs next init SN] in H.
      cbn in H. unfold first_test, vis in H. cbn in H. change (1, 0%Z, [0%Z], @nil N) with g1 in H.
      destruct ((a =? 0) && negb (preprune g1) && negb (prune g1)); [|inversion H; reflexivity].
      apply fmap_ok in H. destruct H as [L' [H ->]].
      destruct k as [|k]; [discriminate|]. cbn in H. inversion H. reflexivity.
Qed.

End Sim.
