(* C03: pruning with a hereditary predicate is filtering (on the recursive presentation
   [ShardModel.spec], hence by ShardSim.outputs_spec on the model of Next).

   P g = true means "g is pruned".  [grows_bad P]: a pruned graph stays pruned when a vertex is
   added (every graph that has a pruned induced subgraph on its first k vertices is pruned);
   this is what "hereditary" gives along the search tree.

   [spec_prune]: if the search without pruning ends without panic with output L, then the
   search with P as preprune, the search with P as prune and the search with P in both places
   end without panic with output  filter (not P) L,  in the same order.  For every [canon],
   [ksub_reps], n, a, m. *)
From Coq Require Import List NArith ZArith Arith Bool Lia.
From Mamba Require Import Disjoint.Model Search.Model Search.ShardModel.
Import ListNotations.
Local Open Scope nat_scope.

Definition grows_bad (P : vgraph -> bool) : Prop :=
  forall g nb g', add_v g nb = Some g' -> P g = true -> P g' = true.

Definition no_prune : vgraph -> bool := fun _ => false.

Definition keep (P : vgraph -> bool) (l : list vgraph) : list vgraph := filter (fun g => negb (P g)) l.

Section Prune.
Variable canon : nat -> Z -> list (list nat) -> bool -> N -> cache.
Variable ksub_reps : nat -> nat -> list (list nat) -> list N.
Variable P : vgraph -> bool.
Hypothesis P_grows : grows_bad P.
Variables n a m : nat.

(* pre, post: the two pruning functions of a run in which each is either P or absent, and P is
   present at least once *)
Variables pre post : vgraph -> bool.
Hypothesis pre_post : (pre = P \/ pre = no_prune) /\ (post = P \/ post = no_prune) /\
                      (pre = P \/ post = P).

Notation child0 := (child canon no_prune no_prune).
Notation childP := (child canon pre post).
Notation T0 := (tree canon ksub_reps no_prune no_prune n a m).
Notation TP := (tree canon ksub_reps pre post n a m).
Notation S0 := (sibs canon no_prune no_prune n a m).
Notation SP := (sibs canon pre post n a m).

Lemma pre_or_post : forall g, pre g || post g = P g.
Proof.
  intros g. destruct pre_post as ([->| ->] & [->| ->] & H); unfold no_prune; cbn.
  - apply orb_diag.
  - apply orb_false_r.
  - reflexivity.
  - destruct H as [H|H]; rewrite <- H; reflexivity.
Qed.

Lemma pre_post_cases : forall g, P g = false -> pre g = false /\ post g = false.
Proof. intros g H. rewrite <- pre_or_post in H. apply orb_false_iff in H. exact H. Qed.

Lemma child_prune : forall g x,
  match child0 g x with
  | CCrash => True
  | CReject => childP g x = CReject
  | CAccept g' c => childP g x = (if P g' then CReject else CAccept g' c) /\
                    exists nb, add_v g nb = Some g'
  end.
Proof.
  intros g x. unfold child. destruct (add_v g (bits_of x)) as [g'|] eqn:AV; [|exact I].
  unfold no_prune at 1. cbn [negb andb].
  destruct (is_canonical canon g' (bits_of x) no_cache 0) as [[[b c] vb]|]; [|exact I].
  unfold no_prune at 1. cbn [negb]. rewrite andb_true_r.
  pose proof (pre_or_post g') as PP.
  destruct b.
  - split; [|eauto]. cbn [andb].
    destruct (P g') eqn:Pg.
    + apply orb_true_iff in PP. destruct (pre g'); [reflexivity|].
      destruct PP as [PP|PP]; [discriminate|]. rewrite PP. reflexivity.
    + apply orb_false_iff in PP. destruct PP as [-> ->]. reflexivity.
  - destruct (pre g'); reflexivity.
Qed.

(* everything found below a pruned graph is pruned *)
Lemma sibs_all_bad : forall rec g xs L,
  (forall g' c' L', (exists nb, add_v g nb = Some g') -> rec g' c' = Some L' -> keep P L' = []) ->
  S0 rec g xs = Some L -> keep P L = [].
Proof.
  intros rec g xs. induction xs as [|x xs IH]; intros L R H; cbn [sibs] in H.
  - inversion H. reflexivity.
  - destruct (m =? 0); [discriminate|].
    destruct (skip n a m (nv_of g) (length xs)); [eauto|].
    pose proof (child_prune g x) as CP.
    destruct (child0 g x) as [| |g' c']; [discriminate|eauto|].
    destruct CP as [_ AV].
    destruct (rec g' c') as [l1|] eqn:R1; [|discriminate].
    destruct (S0 rec g xs) as [l2|]; [|discriminate]. inversion H; subst L.
    unfold keep in *. rewrite filter_app, (R g' c' l1 AV R1), (IH l2 R eq_refl). reflexivity.
Qed.

Lemma tree_all_bad : forall d g c L, P g = true -> T0 d g c = Some L -> keep P L = [].
Proof.
  intros d. induction d as [|d IH]; intros g c L Pg H; cbn [tree] in H.
  - inversion H; subst. unfold keep. cbn. rewrite Pg. reflexivity.
  - destruct (add_augs canon ksub_reps g c 0) as [[masks c2]|]; [|discriminate].
    eapply sibs_all_bad; [|exact H].
    intros g' c' L' [nb AV] R. eapply IH; [|exact R]. eapply P_grows; eauto.
Qed.

Lemma sibs_prune : forall rec0 recP g xs L,
  (forall g' c' L', (exists nb, add_v g nb = Some g') -> rec0 g' c' = Some L' ->
     if P g' then keep P L' = [] else recP g' c' = Some (keep P L')) ->
  S0 rec0 g xs = Some L -> SP recP g xs = Some (keep P L).
Proof.
  intros rec0 recP g xs. induction xs as [|x xs IH]; intros L R H; cbn [sibs] in *.
  - inversion H. reflexivity.
  - destruct (m =? 0); [discriminate|].
    destruct (skip n a m (nv_of g) (length xs)); [eauto|].
    pose proof (child_prune g x) as CP.
    destruct (child0 g x) as [| |g' c']; [discriminate|rewrite CP; eauto|].
    destruct CP as [-> AV].
    destruct (rec0 g' c') as [l1|] eqn:R1; [|discriminate].
    destruct (S0 rec0 g xs) as [l2|]; [|discriminate]. inversion H; subst L.
    pose proof (IH l2 R eq_refl) as IH2.
    specialize (R g' c' l1 AV R1).
    unfold keep in *. rewrite filter_app.
    destruct (P g').
    + rewrite R. cbn [app]. exact IH2.
    + rewrite R, IH2. reflexivity.
Qed.

Lemma tree_prune : forall d g c L, P g = false -> T0 d g c = Some L -> TP d g c = Some (keep P L).
Proof.
  intros d. induction d as [|d IH]; intros g c L Pg H; cbn [tree] in *.
  - inversion H; subst. unfold keep. cbn. rewrite Pg. reflexivity.
  - destruct (add_augs canon ksub_reps g c 0) as [[masks c2]|]; [|discriminate].
    eapply sibs_prune; [|exact H].
    intros g' c' L' [nb AV] R. destruct (P g') eqn:Pg'.
    + eapply tree_all_bad; eauto.
    + apply IH; assumption.
Qed.

Theorem spec_prune : forall L,
  spec canon ksub_reps no_prune no_prune n a m = Some L ->
  spec canon ksub_reps pre post n a m = Some (keep P L).
Proof.
  intros L H. unfold spec in *.
  assert (SMALL : forall g, (if (a =? 0) && negb (pre g) && negb (post g) then [g] else []) =
                            keep P (if (a =? 0) && negb (no_prune g) && negb (no_prune g) then [g] else [])).
  { intros g. unfold no_prune. cbn [negb]. rewrite !andb_true_r, <- andb_assoc, <- negb_orb, pre_or_post.
    destruct (a =? 0); [|reflexivity]. unfold keep. cbn. destruct (P g); reflexivity. }
  destruct n as [|[|n2]] eqn:En.
  - inversion H; subst L. rewrite SMALL. reflexivity.
  - inversion H; subst L. rewrite SMALL. reflexivity.
  - rewrite <- En in *. unfold no_prune at 1 2 in H. cbn [orb] in H. rewrite pre_or_post.
    destruct (P g1) eqn:Pg.
    + rewrite (tree_all_bad _ _ _ _ Pg H). reflexivity.
    + apply tree_prune; assumption.
Qed.

End Prune.
