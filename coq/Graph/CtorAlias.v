(* C06, aliasing clause: a graph built by NewDense / NewSparse from caller-supplied slices does
   not change when the caller later writes to any buffer that existed before the call (its own
   slices included): the graph points into buffers allocated by the call. *)
From Coq Require Import List ZArith Arith Bool Lia.
From Mamba Require Import Graph.Model Graph.Tri Graph.Lists Graph.Abstract Graph.CtorModel Graph.CtorSpec
  Graph.CtorDense Graph.CtorViews.
Import ListNotations.

Lemma nth_error_upd_other {A} (l : list A) i j v : i <> j -> nth_error (upd l i v) j = nth_error l j.
Proof.
  revert i j. induction l; intros [|i] [|j] H; cbn; auto; try lia.
Qed.

Lemma h_write_other H a k v b : a <> b -> nth_error (h_write H a k v) b = nth_error H b.
Proof.
  intros Hab. unfold h_write. destruct (nth_error H a); [|reflexivity]. apply nth_error_upd_other. auto.
Qed.

Lemma h_write_length H a k v : length (h_write H a k v) = length H.
Proof. unfold h_write. destruct (nth_error H a); [apply upd_length|reflexivity]. Qed.

(* a sequence of writes by the caller *)
Definition h_writes (H : heap) (ws : list (nat * nat * Z)) : heap :=
  fold_left (fun H (w : nat * nat * Z) => let '(a, k, v) := w in h_write H a k v) ws H.

Lemma h_writes_other ws : forall H b, (forall w, In w ws -> fst (fst w) <> b) ->
  nth_error (h_writes H ws) b = nth_error H b.
Proof.
  induction ws as [|[[a k] v] t IH]; intros H b Hw; [reflexivity|]. cbn [h_writes fold_left].
  change (fold_left _ t (h_write H a k v)) with (h_writes (h_write H a k v) t).
  rewrite IH by (intros; apply Hw; right; auto).
  apply h_write_other. apply (Hw (a, k, v)). left. auto.
Qed.

(* NewDense on a heap: same graph as the functional model, stored at a fresh address; writes
   to every address that existed before the call leave every observer of the graph unchanged *)
Theorem h_new_dense_ok H n src e : nth_error H src = Some e -> length e = tri n ->
  exists H' g d, h_new_dense H n src = Some (H', g) /\ new_dense n (Some e) = Some d /\
    h_view H' g = Some d /\ length H <= haddr g /\
    forall ws, (forall w, In w ws -> fst (fst w) < length H) -> h_view (h_writes H' ws) g = Some d.
Proof.
  intros Hs Hl. unfold h_new_dense, new_dense. rewrite Hs, Hl, Nat.eqb_refl.
  destruct (nd_count_ok n e Hl) as ([[deg m] idx] & E & _). rewrite E.
  eexists. eexists. eexists. split; [reflexivity|]. split; [reflexivity|].
  assert (Hv : nth_error (H ++ [e]) (length H) = Some e).
  { rewrite nth_error_app2, Nat.sub_diag by lia. reflexivity. }
  split; [unfold h_view; cbn [haddr hn hm hdeg]; rewrite Hv, Hl; reflexivity|].
  split; [cbn; lia|].
  intros ws Hw. unfold h_view. cbn [haddr hn hm hdeg].
  rewrite h_writes_other; [rewrite Hv, Hl; reflexivity|].
  intros w Hi. specialize (Hw w Hi). lia.
Qed.

(* ---------------------------------------------------------------- NewSparse *)
Lemma hn_write_other H a k v b : a <> b -> nth_error (hn_write H a k v) b = nth_error H b.
Proof.
  intros Hab. unfold hn_write. destruct (nth_error H a); [|reflexivity]. apply nth_error_upd_other. auto.
Qed.

Definition hn_writes (H : nheap) (ws : list (nat * nat * nat)) : nheap :=
  fold_left (fun H (w : nat * nat * nat) => let '(a, k, v) := w in hn_write H a k v) ws H.

Lemma hn_writes_other ws : forall H b, (forall w, In w ws -> fst (fst w) <> b) ->
  nth_error (hn_writes H ws) b = nth_error H b.
Proof.
  induction ws as [|[[a k] v] t IH]; intros H b Hw; [reflexivity|]. cbn [hn_writes fold_left].
  change (fold_left _ t (hn_write H a k v)) with (hn_writes (hn_write H a k v) t).
  rewrite IH by (intros; apply Hw; right; auto).
  apply hn_write_other. apply (Hw (a, k, v)). left. auto.
Qed.

Lemma mapM_nth_error_seq {A} (H T : list A) :
  mapM (nth_error (H ++ T)) (seq (length H) (length T)) = Some T.
Proof.
  revert H. induction T as [|x T IH]; intros H; [reflexivity|]. cbn [length seq mapM].
  rewrite nth_error_app2, Nat.sub_diag by lia. cbn [nth_error].
  replace (H ++ x :: T) with ((H ++ [x]) ++ T) by (rewrite <- app_assoc; reflexivity).
  replace (S (length H)) with (length (H ++ [x])) by (rewrite app_length; cbn; lia).
  rewrite IH. reflexivity.
Qed.

Lemma mapM_ext_in {A B} (f g : A -> option B) l : (forall x, In x l -> f x = g x) -> mapM f l = mapM g l.
Proof.
  induction l; intros Hx; [reflexivity|]. cbn [mapM]. rewrite (Hx a) by (left; auto).
  rewrite IHl by (intros; apply Hx; right; auto). reflexivity.
Qed.

Theorem h_new_sparse_ok H n srcs ls : mapM (nth_error H) srcs = Some ls -> length srcs = n ->
  exists H' g s, h_new_sparse H n srcs = Some (H', g) /\ new_sparse n (Some ls) = Some s /\
    hs_view H' g = Some s /\
    forall ws, (forall w, In w ws -> fst (fst w) < length H) -> hs_view (hn_writes H' ws) g = Some s.
Proof.
  intros Hm Hl. unfold h_new_sparse, new_sparse. rewrite Hl, Nat.eqb_refl, Hm.
  assert (Ll : length ls = n).
  { clear -Hm Hl. revert ls n Hm Hl. induction srcs; intros ls n Hm Hl; cbn in *.
    - inversion Hm. auto.
    - destruct (nth_error H a); [|discriminate]. destruct (mapM (nth_error H) srcs) eqn:E; [|discriminate].
      inversion Hm; subst. cbn. f_equal. apply (IHsrcs _ _ eq_refl eq_refl). }
  rewrite Ll, Nat.eqb_refl.
  eexists. eexists. eexists. split; [reflexivity|]. split; [reflexivity|].
  set (tmp := map new_sorted_ints ls).
  assert (Lt : length tmp = n) by (unfold tmp; rewrite map_length; auto).
  assert (Hv : mapM (nth_error (H ++ tmp)) (seq (length H) n) = Some tmp).
  { rewrite <- Lt. apply mapM_nth_error_seq. }
  split; [unfold hs_view; cbn [hsaddr hsn hsm hsdeg]; rewrite Hv; reflexivity|].
  intros ws Hw. unfold hs_view. cbn [hsaddr hsn hsm hsdeg].
  rewrite (mapM_ext_in _ (nth_error (H ++ tmp))); [rewrite Hv; reflexivity|].
  intros b Hb. apply in_seq in Hb. apply hn_writes_other.
  intros w Hi. specialize (Hw w Hi). lia.
Qed.
