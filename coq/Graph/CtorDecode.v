(* C06: PruferDecode and RandomTree never panic on codes with entries below n = len+2 and
   return a well-formed graph (whatever the code: the counts come from NewDense). *)
From Coq Require Import List ZArith Arith Bool Lia.
From Mamba Require Import Graph.Model Graph.Tri Graph.Lists Graph.Abstract Graph.CtorModel Graph.CtorSpec Graph.CtorDense.
Import ListNotations.

Definition cnt (l : list nat) (x : nat) : Z := Z.of_nat (count_occ Nat.eq_dec l x).

Lemma cnt_cons_eq l x : cnt (x :: l) x = (1 + cnt l x)%Z.
Proof. unfold cnt. rewrite count_occ_cons_eq by auto. lia. Qed.

Lemma cnt_cons_neq l x y : y <> x -> cnt (y :: l) x = cnt l x.
Proof. intros. unfold cnt. rewrite count_occ_cons_neq by auto. reflexivity. Qed.

Lemma cnt_nonneg l x : (0 <= cnt l x)%Z.
Proof. unfold cnt. lia. Qed.

(* for _, v := range p { degrees[v]++ } *)
Lemma bump_all p : forall d0, (forall v, In v p -> v < length d0) ->
  exists d, foldM (fun d v => modify d v 1) p d0 = Some d /\ length d = length d0 /\
    forall x, nth x d 0%Z = (nth x d0 0 + cnt p x)%Z.
Proof.
  induction p as [|v t IH]; intros d0 Hr.
  - exists d0. split; [reflexivity|]. split; [reflexivity|]. intros. unfold cnt. cbn. lia.
  - cbn [foldM]. rewrite modify_some by (apply Hr; left; auto).
    destruct (IH (upd d0 v (nth v d0 0 + 1)%Z)) as (d & E & L & H).
    { intros u Hu. rewrite upd_length. apply Hr. right. auto. }
    exists d. split; [exact E|]. split; [rewrite L; apply upd_length|].
    intros x. rewrite H. destruct (Nat.eq_dec x v) as [->|Hne].
    + rewrite nth_upd_same by (apply Hr; left; auto). rewrite cnt_cons_eq. lia.
    + rewrite nth_upd_other by auto. rewrite cnt_cons_neq by auto. reflexivity.
Qed.

Lemma first_one_spec deg : forall s j, first_one deg s = Some j ->
  s <= j /\ j - s < length deg /\ nth (j - s) deg 0%Z = 1%Z.
Proof.
  induction deg as [|d t IH]; intros s j H; [discriminate|]. cbn [first_one] in H.
  destruct (Z.eqb_spec d 1).
  - inversion H; subst. rewrite Nat.sub_diag. cbn. split; [lia|]. split; [lia|auto].
  - apply IH in H. destruct H as (H1 & H2 & H3). split; [lia|]. cbn [length]. split; [lia|].
    replace (j - s) with (S (j - S s)) by lia. exact H3.
Qed.

(* the state of the main loop of PruferDecode on the rest of the code *)
Definition pd_inv (n : nat) (rem : list nat) (st : list Z * list Z) : Prop :=
  let (edges, deg) := st in
  length edges = tri n /\ length deg = n /\
  forall x, x < n -> (nth x deg 0%Z = 0%Z /\ cnt rem x = 0%Z) \/ (1 + cnt rem x <= nth x deg 0)%Z.

Lemma prufer_loop_ok n : forall rem st, (forall v, In v rem -> v < n) -> pd_inv n rem st ->
  exists st', foldM prufer_step rem st = Some st' /\ length (fst st') = tri n /\ length (snd st') = n.
Proof.
  induction rem as [|v rest IH]; intros [edges deg] Hr (Le & Ld & Hd).
  - eexists. split; [reflexivity|]. auto.
  - assert (Hv : v < n) by (apply Hr; left; auto).
    cbn [foldM]. unfold prufer_step at 1.
    destruct (first_one deg 0) as [j|] eqn:Ef.
    + apply first_one_spec in Ef. rewrite Nat.sub_0_r in Ef. destruct Ef as (_ & Hj & Hj1).
      assert (Hvd : (2 <= nth v deg 0)%Z).
      { destruct (Hd v Hv) as [[_ Hc]|Hc]; rewrite cnt_cons_eq in Hc; pose proof (cnt_nonneg rest v); lia. }
      assert (Hjv : j <> v) by (intros ->; lia).
      assert (Hb : (if v <? j then tri j + v else tri v + j) < length edges).
      { rewrite Le. destruct (Nat.ltb_spec v j); apply tri_bound; lia. }
      rewrite set_nth_some by auto.
      rewrite modify_some by lia. rewrite modify_some by (rewrite upd_length; lia).
      apply IH; [intros; apply Hr; right; auto|].
      split; [rewrite upd_length; auto|]. split; [rewrite !upd_length; auto|].
      intros x Hx. destruct (Nat.eq_dec x v) as [->|Hxv].
      * right. rewrite nth_upd_same by (rewrite upd_length; lia). rewrite nth_upd_other by auto.
        destruct (Hd v Hv) as [[_ Hc]|Hc]; rewrite cnt_cons_eq in Hc; pose proof (cnt_nonneg rest v); lia.
      * rewrite nth_upd_other by auto. specialize (Hd x Hx). rewrite cnt_cons_neq in Hd by auto.
        destruct (Nat.eq_dec x j) as [->|Hxj].
        -- left. rewrite nth_upd_same by lia. pose proof (cnt_nonneg rest j). lia.
        -- rewrite nth_upd_other by auto. exact Hd.
    + apply IH; [intros; apply Hr; right; auto|].
      split; [auto|]. split; [auto|]. intros x Hx. specialize (Hd x Hx).
      destruct (Nat.eq_dec x v) as [->|Hxv].
      * rewrite cnt_cons_eq in Hd. pose proof (cnt_nonneg rest v). right. lia.
      * rewrite cnt_cons_neq in Hd by auto. exact Hd.
Qed.

(* PruferDecode(p) for every code with entries below len(p)+2: no panic, well formed, n vertices *)
Theorem prufer_decode_ok p : (forall v, In v p -> v < length p + 2) ->
  exists g, prufer_decode p = Some g /\ dwf g /\ dn g = length p + 2.
Proof.
  intros Hr. unfold prufer_decode. set (n := length p + 2).
  destruct (bump_all p (repeat 1%Z n)) as (deg0 & E0 & L0 & H0).
  { intros v Hv. rewrite repeat_length. apply Hr. auto. }
  rewrite E0. rewrite repeat_length in L0.
  destruct (prufer_loop_ok n p (zeros (tri n), deg0) Hr) as ([edges deg] & E1 & Le & Ld).
  { split; [apply repeat_length|]. split; [auto|]. intros x Hx. right. rewrite H0.
    rewrite (nth_indep _ 0%Z 1%Z) by (rewrite repeat_length; auto). rewrite nth_repeat. lia. }
  rewrite E1. cbn [fst snd] in Le, Ld.
  assert (exists edges', match first_one deg 0 with
               | None => Some edges
               | Some i => match first_one (skipn (S i) deg) (S i) with
                           | None => Some edges
                           | Some j => set_nth edges (tri j + i) 1%Z
                           end
               end = Some edges' /\ length edges' = tri n) as (edges' & E2 & Le').
  { destruct (first_one deg 0) as [i|] eqn:Ei; [|eauto].
    destruct (first_one (skipn (S i) deg) (S i)) as [j|] eqn:Ej; [|eauto].
    apply first_one_spec in Ej. destruct Ej as (Hj1 & Hj2 & _). rewrite skipn_length in Hj2.
    rewrite set_nth_some by (rewrite Le; apply tri_bound; lia).
    eexists. split; [reflexivity|]. rewrite upd_length. auto. }
  rewrite E2.
  destruct (new_dense_ok n edges' Le') as (g & Eg & W & N & _).
  exists g. auto.
Qed.

(* RandomTree(n, seed) for n >= 2 (it panics below) and every stream of draws of r.Intn(n) *)
Theorem random_tree_ok n draw : 2 <= n -> (forall k, draw k < n) ->
  exists g, random_tree n draw = Some g /\ dwf g /\ dn g = n.
Proof.
  intros Hn Hd. unfold random_tree. destruct (Nat.ltb_spec n 2); [lia|].
  destruct (prufer_decode_ok (map draw (seq 0 (n - 2)))) as (g & E & W & N).
  - intros v Hv. rewrite map_length, seq_length. apply in_map_iff in Hv. destruct Hv as (k & <- & _).
    specialize (Hd k). lia.
  - exists g. split; [exact E|]. split; [exact W|]. rewrite N, map_length, seq_length. lia.
Qed.

Theorem random_tree_domain n draw : n < 2 -> random_tree n draw = None.
Proof. intros H. unfold random_tree. destruct (Nat.ltb_spec n 2); [reflexivity|lia]. Qed.
