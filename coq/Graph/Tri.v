(* The packed lower-triangle index j(j-1)/2 + i. *)
From Coq Require Import List ZArith Arith Lia.
From Mamba Require Import Graph.Model.

Lemma even_prod j : exists k, j * (j - 1) = 2 * k.
Proof.
  induction j as [|j [k IH]]; [exists 0; reflexivity|].
  destruct j as [|j]; [exists 0; reflexivity|].
  exists (k + S j). replace (S (S j) - 1) with (S j) by lia.
  replace (S j - 1) with j in IH by lia. lia.
Qed.

Lemma tri_double j : 2 * tri j = j * (j - 1).
Proof.
  unfold tri. destruct (even_prod j) as [k Hk]. rewrite Hk.
  rewrite (Nat.mul_comm 2 k), Nat.div_mul by lia. lia.
Qed.

Lemma tri_0 : tri 0 = 0. Proof. reflexivity. Qed.

Lemma tri_S j : tri (S j) = tri j + j.
Proof.
  pose proof (tri_double (S j)) as H1. pose proof (tri_double j) as H2.
  replace (S j - 1) with j in H1 by lia.
  destruct j as [|j]; [reflexivity|].
  replace (S j - 1) with j in H2 by lia. lia.
Qed.

Lemma tri_mono a b : a <= b -> tri a <= tri b.
Proof. induction 1; [lia|]. rewrite tri_S. lia. Qed.

Lemma tri_lt a b : a < b -> tri a + a <= tri b.
Proof. intros H. rewrite <- tri_S. apply tri_mono. lia. Qed.

(* the cell of the pair i<j lies inside the triangle of any n > j *)
Lemma tri_bound i j n : i < j -> j < n -> tri j + i < tri n.
Proof. intros. pose proof (tri_lt j n). lia. Qed.

Lemma tri_inj i j i' j' : i < j -> i' < j' -> tri j + i = tri j' + i' -> i = i' /\ j = j'.
Proof.
  intros Hi Hi' E.
  destruct (Nat.lt_trichotomy j j') as [L|[->|L]].
  - pose proof (tri_lt j j' L). lia.
  - lia.
  - pose proof (tri_lt j' j L). lia.
Qed.

Global Opaque tri.
