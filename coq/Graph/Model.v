(* Model of graph.DenseGraph, graph.SparseGraph (graph_dense.go, graph_sparse.go, the parts of
   sortints and subgraph.go they use) and of the abstract simple graph they are meant to
   implement.  DEFINITIONS ONLY.

   Conventions:
   - vertices, indices, lengths: nat (small); edge bytes, degrees, edge counts: Z;
   - a Go panic (index out of range, bad slice bounds, explicit panic) is None;
   - DenseGraph.Edges is ONE list [darr] standing for the whole backing array (its length is
     the capacity) plus the slice length [dlen]; what lies in darr beyond dlen is the stale
     tail left behind by RemoveVertex and is part of the state (AddVertex re-slices into it);
   - DegreeSequence and Neighbourhoods are plain lists: their spare capacity is only ever
     overwritten by append, never read;
   - sort.Ints / sort.Sort are modelled as insertion sorts, sort.SearchInts as the first index
     whose element is >= x (their documented results). *)
From Coq Require Import List ZArith Arith Bool.
Import ListNotations.

Notation "'do' x <- e ; f" := (match e with Some x => f | None => None end)
  (at level 200, x name, e at level 100, f at level 200, only parsing).

(* ------------------------------------------------------------------ arrays *)
Fixpoint upd {A} (l : list A) (i : nat) (v : A) : list A :=
  match l, i with
  | [], _ => []
  | _ :: t, O => v :: t
  | h :: t, S k => h :: upd t k v
  end.

(* l[i] = v *)
Definition set_nth {A} (l : list A) (i : nat) (v : A) : option (list A) :=
  if i <? length l then Some (upd l i v) else None.

(* l[i] += d *)
Definition modify (l : list Z) (i : nat) (d : Z) : option (list Z) :=
  do x <- nth_error l i; Some (upd l i (x + d)%Z).

(* copy(l[i:], l[i+1:]); l = l[:len(l)-1] *)
Definition remove_at {A} (i : nat) (l : list A) : list A := firstn i l ++ skipn (S i) l.

(* loops: for x in l { s = f s x }, stopping at the first panic *)
Fixpoint foldM {A S} (f : S -> A -> option S) (l : list A) (s : S) : option S :=
  match l with
  | [] => Some s
  | x :: t => match f s x with Some s' => foldM f t s' | None => None end
  end.

Definition b2z (b : bool) : Z := if b then 1%Z else 0%Z.

Fixpoint zsum (f : nat -> Z) (n : nat) : Z :=
  match n with O => 0%Z | S k => (zsum f k + f k)%Z end.

(* ------------------------------------------------------------------ abstract simple graph *)
Record agraph := mkA { an : nat; adj : nat -> nat -> bool }.

Definition mem (x : nat) (l : list nat) : bool := existsb (Nat.eqb x) l.

(* vertex numbering after the removal of v: new index x stands for old index up v x *)
Definition up (v x : nat) : nat := if x <? v then x else S x.

Definition a_add_edge (a : agraph) (i j : nat) : agraph :=
  mkA (an a) (fun x y => adj a x y ||
     (negb (i =? j) && (((x =? i) && (y =? j)) || ((x =? j) && (y =? i))))).

Definition a_remove_edge (a : agraph) (i j : nat) : agraph :=
  mkA (an a) (fun x y => adj a x y && negb (((x =? i) && (y =? j)) || ((x =? j) && (y =? i)))).

Definition a_add_vertex (a : agraph) (nbrs : list nat) : agraph :=
  mkA (S (an a)) (fun x y =>
     if y =? an a then (x <? an a) && mem x nbrs
     else if x =? an a then (y <? an a) && mem y nbrs
     else adj a x y).

Definition a_remove_vertex (a : agraph) (v : nat) : agraph :=
  mkA (an a - 1) (fun x y => (x <? an a - 1) && (y <? an a - 1) && adj a (up v x) (up v y)).

Definition a_induced (a : agraph) (V : list nat) : agraph :=
  mkA (length V) (fun x y =>
     match nth_error V x, nth_error V y with
     | Some p, Some q => adj a p q
     | _, _ => false
     end).

Definition a_empty (n : nat) : agraph := mkA n (fun _ _ => false).

(* observers of the abstract graph *)
Definition a_N (a : agraph) : nat := an a.
Definition a_M (a : agraph) : Z := zsum (fun j => zsum (fun i => b2z (adj a i j)) j) (an a).
Definition a_is_edge (a : agraph) (i j : nat) : bool := adj a i j.
Definition a_neighbours (a : agraph) (v : nat) : list nat := filter (adj a v) (seq 0 (an a)).
Definition a_deg (a : agraph) (v : nat) : Z := zsum (fun u => b2z (adj a v u)) (an a).
Definition a_degrees (a : agraph) : list Z := map (a_deg a) (seq 0 (an a)).

(* ------------------------------------------------------------------ operations and histories *)
Inductive op :=
| OAddV (nbrs : list nat)
| ORemV (v : nat)
| OAddE (i j : nat)
| ORemE (i j : nat)
| OCopy
| OInduced (V : list nat).

Fixpoint nodupb (l : list nat) : bool :=
  match l with [] => true | x :: t => negb (mem x t) && nodupb t end.

(* valid arguments, as a computable test *)
Definition op_validb (n : nat) (o : op) : bool :=
  match o with
  | OAddV nbrs => forallb (fun x => x <? n) nbrs && nodupb nbrs
  | ORemV v => v <? n
  | OAddE i j | ORemE i j => (i <? n) && (j <? n)
  | OCopy => true
  | OInduced V => forallb (fun x => x <? n) V && nodupb V
  end.

(* the receiver after the call, and the graph the call returns (Copy, InducedSubgraph) *)
Definition a_step (a : agraph) (o : op) : agraph * option agraph :=
  match o with
  | OAddV nbrs => (a_add_vertex a nbrs, None)
  | ORemV v => (a_remove_vertex a v, None)
  | OAddE i j => (a_add_edge a i j, None)
  | ORemE i j => (a_remove_edge a i j, None)
  | OCopy => (a, Some a)
  | OInduced V => (a, Some (a_induced a V))
  end.

Definition opt_list {A} (o : option A) : list A := match o with Some x => [x] | None => [] end.

(* a history is a list of (store index, operation); returned graphs are appended to the store *)
Fixpoint run {G} (step : G -> op -> option (G * option G)) (st : list G) (h : list (nat * op))
  : option (list G) :=
  match h with
  | [] => Some st
  | (k, o) :: h' =>
    do g <- nth_error st k;
    match step g o with
    | Some (g', new) => run step (upd st k g' ++ opt_list new) h'
    | None => None
    end
  end.

Definition a_step' (a : agraph) (o : op) : option (agraph * option agraph) := Some (a_step a o).

(* ------------------------------------------------------------------ DenseGraph *)
Definition tri (j : nat) : nat := (j * (j - 1)) / 2.

Record dense := mkDense { dn : nat; dm : Z; ddeg : list Z; darr : list Z; dlen : nat }.

(* g.Edges[k] *)
Definition d_get (arr : list Z) (len k : nat) : option Z :=
  if k <? len then nth_error arr k else None.
(* g.Edges[k] = b *)
Definition d_set (arr : list Z) (len k : nat) (b : Z) : option (list Z) :=
  if k <? len then set_nth arr k b else None.

(* NewDense(n, nil) *)
Definition d_empty (n : nat) : dense :=
  mkDense n 0 (repeat 0%Z n) (repeat 0%Z (tri n)) (tri n).

Definition d_N (g : dense) : nat := dn g.
Definition d_M (g : dense) : Z := dm g.

Definition d_is_edge (g : dense) (i j : nat) : option bool :=
  if (dn g <=? i) || (dn g <=? j) then Some false
  else if i <? j then do b <- d_get (darr g) (dlen g) (tri j + i); Some (0 <? b)%Z
  else if j <? i then do b <- d_get (darr g) (dlen g) (tri i + j); Some (0 <? b)%Z
  else Some false.

(* the vertices x of vs with Edges[idx x] > 0, in the order of vs *)
Fixpoint d_scan (g : dense) (idx : nat -> nat) (vs : list nat) : option (list nat) :=
  match vs with
  | [] => Some []
  | x :: t =>
    do b <- d_get (darr g) (dlen g) (idx x);
    do r <- d_scan g idx t;
    Some (if (0 <? b)%Z then x :: r else r)
  end.

Definition d_neighbours (g : dense) (v : nat) : option (list nat) :=
  do dv <- nth_error (ddeg g) v;
  if (dv <? 0)%Z then None (* make([]int, 0, negative) *) else
  do r1 <- d_scan g (fun i => tri v + i) (seq 0 v);
  do r2 <- d_scan g (fun i => tri i + v) (seq (S v) (dn g - S v));
  Some (r1 ++ r2).

Definition d_degrees (g : dense) : list Z := ddeg g.

Definition d_add_edge (g : dense) (i j : nat) : option dense :=
  if i =? j then Some g else
  do e <- d_is_edge g i j;
  if e then Some g else
  do deg1 <- modify (ddeg g) i 1;
  do deg2 <- modify deg1 j 1;
  do arr <- d_set (darr g) (dlen g) (if i <? j then tri j + i else tri i + j) 1;
  Some (mkDense (dn g) (dm g + 1) deg2 arr (dlen g)).

Definition d_remove_edge (g : dense) (i j : nat) : option dense :=
  do e <- d_is_edge g i j;
  if negb e then Some g else
  do arr <- (if i <? j then d_set (darr g) (dlen g) (tri j + i) 0
             else if j <? i then d_set (darr g) (dlen g) (tri i + j) 0
             else Some (darr g));
  do deg1 <- modify (ddeg g) i (-1);
  do deg2 <- modify deg1 j (-1);
  Some (mkDense (dn g) (dm g - 1) deg2 arr (dlen g)).

Definition d_add_vertex (g : dense) (nbrs : list nat) : option dense :=
  let n := dn g in
  let oldSize := tri n in
  let newSize := oldSize + n in
  let arr0 :=
    if newSize <=? length (darr g)
    then (* g.Edges = g.Edges[:newSize]; zero [oldSize,newSize) *)
      firstn oldSize (darr g) ++ repeat 0%Z (newSize - oldSize) ++ skipn newSize (darr g)
    else (* tmp := make([]byte, newSize); copy(tmp, g.Edges) *)
      let c := Nat.min newSize (dlen g) in
      firstn c (darr g) ++ repeat 0%Z (newSize - c) in
  do st <- foldM (fun (st : list Z * list Z) v =>
                    let (arr, deg) := st in
                    do arr' <- d_set arr newSize (oldSize + v) 1;
                    do deg' <- modify deg v 1;
                    Some (arr', deg'))
                 nbrs (arr0, ddeg g);
  let (arr, deg) := st in
  Some (mkDense (S n) (dm g + Z.of_nat (length nbrs)) (deg ++ [Z.of_nat (length nbrs)]) arr newSize).

(* copy(arr[dlo:dhi], arr[slo:shi]) inside one backing array (memmove semantics: the source is
   read from the array as it was before the call); returns the array and the count *)
Definition copy_within (arr : list Z) (dlo dhi slo shi : nat) : option (list Z * nat) :=
  if (dlo <=? dhi) && (dhi <=? length arr) && (slo <=? shi) && (shi <=? length arr) then
    let c := Nat.min (dhi - dlo) (shi - slo) in
    Some (firstn dlo arr ++ firstn c (skipn slo arr) ++ skipn (dlo + c) arr, c)
  else None.

(* if Edges[idx] > 0 { deg[x]-- } *)
Definition d_dec_if (arr : list Z) (len : nat) (idx : nat -> nat) (deg : list Z) (x : nat)
  : option (list Z) :=
  do b <- d_get arr len (idx x);
  if (0 <? b)%Z then modify deg x (-1) else Some deg.

Definition d_remove_vertex (g : dense) (v : nat) : option dense :=
  let n := dn g in
  if n <=? v then None (* panic("No such vertex") *) else
  do dv <- nth_error (ddeg g) v;
  let m := (dm g - dv)%Z in
  do deg1 <- foldM (d_dec_if (darr g) (dlen g) (fun i => tri v + i)) (seq 0 v) (ddeg g);
  do deg2 <- foldM (d_dec_if (darr g) (dlen g) (fun i => tri i + v)) (seq (S v) (n - S v)) deg1;
  let deg3 := remove_at v deg2 in
  (* old1 stands for oldIndex+1 (oldIndex starts at v(v+1)/2 - 1, which is -1 for v = 0) *)
  do st <- foldM (fun (st : list Z * nat * nat) j =>
                    let '(arr, newIndex, old1) := st in
                    let tmp := tri j + v in
                    match copy_within arr newIndex (dlen g) old1 tmp with
                    | Some (arr', c) => Some (arr', newIndex + c, S tmp)
                    | None => None
                    end)
                 (seq (S v) (n - S v)) (darr g, tri v, tri (S v));
  let '(arr, newIndex, old1) := st in
  match copy_within arr newIndex (dlen g) old1 (dlen g) with
  | Some (arr', _) =>
    let newLen := tri (n - 1) in
    if newLen <=? length arr' then Some (mkDense (n - 1) m deg3 arr' newLen) else None
  | None => None
  end.

Definition d_induced (g : dense) (V : list nat) : option dense :=
  let n := length V in
  do st <- foldM (fun st j =>
             foldM (fun (st : list Z * Z * list Z * nat) i =>
                      let '(edges, m, deg, index) := st in
                      do vi <- nth_error V i;
                      do vj <- nth_error V j;
                      do e <- d_is_edge g vi vj;
                      if e then
                        do edges' <- set_nth edges index 1%Z;
                        do deg1 <- modify deg i 1;
                        do deg2 <- modify deg1 j 1;
                        Some (edges', (m + 1)%Z, deg2, S index)
                      else Some (edges, m, deg, S index))
                   (seq 0 j) st)
          (seq 1 (n - 1)) (repeat 0%Z (tri n), 0%Z, repeat 0%Z n, O);
  let '(edges, m, deg, _) := st in
  Some (mkDense n m deg edges (tri n)).

Definition d_copy (g : dense) : dense :=
  mkDense (dn g) (dm g) (ddeg g) (firstn (dlen g) (darr g)) (dlen g).

Definition d_step (g : dense) (o : op) : option (dense * option dense) :=
  match o with
  | OAddV nbrs => do g' <- d_add_vertex g nbrs; Some (g', None)
  | ORemV v => do g' <- d_remove_vertex g v; Some (g', None)
  | OAddE i j => do g' <- d_add_edge g i j; Some (g', None)
  | ORemE i j => do g' <- d_remove_edge g i j; Some (g', None)
  | OCopy => Some (g, Some (d_copy g))
  | OInduced V => do h <- d_induced g V; Some (g, Some h)
  end.

(* ------------------------------------------------------------------ sortints (the part used) *)
(* sort.SearchInts *)
Fixpoint search (l : list nat) (x : nat) : nat :=
  match l with
  | [] => O
  | h :: t => if x <=? h then O else S (search t x)
  end.

(* sortints.ContainsSingle *)
Definition contains (l : list nat) (x : nat) : bool :=
  match nth_error l (search l x) with Some y => y =? x | None => false end.

(* SortedInts.Remove(x) *)
Definition si_remove (l : list nat) (x : nat) : list nat :=
  if contains l x then remove_at (search l x) l else l.

(* SortedInts.Add(x) with one argument *)
Definition si_add (l : list nat) (x : nat) : list nat :=
  if contains l x then l else firstn (search l x) l ++ x :: skipn (search l x) l.

Fixpoint insert_sorted (x : nat) (l : list nat) : list nat :=
  match l with
  | [] => [x]
  | h :: t => if x <=? h then x :: l else h :: insert_sorted x t
  end.
Definition sort_ints (l : list nat) : list nat := fold_right insert_sorted [] l.

(* the in-place removal of adjacent repeats of NewSortedInts *)
Fixpoint dedupe (l : list nat) : list nat :=
  match l with
  | [] => []
  | x :: t => match t with
              | [] => [x]
              | y :: _ => if x =? y then dedupe t else x :: dedupe t
              end
  end.
Definition new_sorted_ints (l : list nat) : list nat := dedupe (sort_ints l).

(* ------------------------------------------------------------------ SparseGraph *)
Record sparse := mkSparse { sn : nat; sm : Z; snbr : list (list nat); sdeg : list Z }.

(* NewSparse(n, nil) *)
Definition s_empty (n : nat) : sparse := mkSparse n 0 (repeat [] n) (repeat 0%Z n).

Definition s_N (g : sparse) : nat := sn g.
Definition s_M (g : sparse) : Z := sm g.

Definition s_is_edge (g : sparse) (i j : nat) : option bool :=
  do di <- nth_error (sdeg g) i;
  do dj <- nth_error (sdeg g) j;
  if (dj <? di)%Z then do ni <- nth_error (snbr g) i; Some (contains ni j)
  else do nj <- nth_error (snbr g) j; Some (contains nj i).

Definition s_neighbours (g : sparse) (v : nat) : option (list nat) := nth_error (snbr g) v.
Definition s_degrees (g : sparse) : list Z := sdeg g.

Definition s_add_vertex (g : sparse) (nbrs : list nat) : option sparse :=
  let n' := S (sn g) in
  let tmp := new_sorted_ints nbrs in
  do st <- foldM (fun (st : list (list nat) * list Z) v =>
                    let (nbr, deg) := st in
                    do nv <- nth_error nbr v;
                    do deg' <- modify deg v 1;
                    Some (upd nbr v (nv ++ [n' - 1]), deg'))
                 tmp (snbr g, sdeg g);
  let (nbr, deg) := st in
  Some (mkSparse n' (sm g + Z.of_nat (length tmp)) (nbr ++ [tmp]) (deg ++ [Z.of_nat (length nbrs)])).

(* for k := SearchInts(l, i); k < len(l); k++ { l[k]-- } *)
Definition renumber (i : nat) (l : list nat) : list nat :=
  firstn (search l i) l ++ map Nat.pred (skipn (search l i) l).

Definition s_remove_vertex (g : sparse) (i : nat) : option sparse :=
  do di <- nth_error (sdeg g) i;
  do ni <- nth_error (snbr g) i;
  do st <- foldM (fun (st : list (list nat) * list Z) v =>
                    let (nbr, deg) := st in
                    do nv <- nth_error nbr v;
                    do deg' <- modify deg v (-1);
                    Some (upd nbr v (si_remove nv i), deg'))
                 ni (snbr g, sdeg g);
  let (nbr, deg) := st in
  Some (mkSparse (sn g - 1) (sm g - di)
                 (map (renumber i) (remove_at i nbr)) (remove_at i deg)).

Definition s_add_edge (g : sparse) (i j : nat) : option sparse :=
  if i =? j then Some g else
  do e <- s_is_edge g i j;
  if e then Some g else
  do ni <- nth_error (snbr g) i;
  let nbr1 := upd (snbr g) i (si_add ni j) in
  do nj <- nth_error nbr1 j;
  let nbr2 := upd nbr1 j (si_add nj i) in
  do deg1 <- modify (sdeg g) i 1;
  do deg2 <- modify deg1 j 1;
  Some (mkSparse (sn g) (sm g + 1) nbr2 deg2).

Definition s_remove_edge (g : sparse) (i j : nat) : option sparse :=
  if i =? j then Some g else
  do e <- s_is_edge g i j;
  if negb e then Some g else
  do ni <- nth_error (snbr g) i;
  let nbr1 := upd (snbr g) i (si_remove ni j) in
  do nj <- nth_error nbr1 j;
  let nbr2 := upd nbr1 j (si_remove nj i) in
  do deg1 <- modify (sdeg g) i (-1);
  do deg2 <- modify deg1 j (-1);
  Some (mkSparse (sn g) (sm g - 1) nbr2 deg2).

(* intsSort: (value, original index) pairs sorted by value *)
Fixpoint insert_pair (p : nat * nat) (l : list (nat * nat)) : list (nat * nat) :=
  match l with
  | [] => [p]
  | h :: t => if fst p <=? fst h then p :: l else h :: insert_pair p t
  end.
Definition ints_sort (V : list nat) : list (nat * nat) :=
  fold_right insert_pair [] (combine V (seq 0 (length V))).

(* intersectionByIndex(a, values, indices) with (values, indices) zipped into b *)
Fixpoint inter_by_index (a : list nat) : list (nat * nat) -> list nat -> list nat :=
  fix inner (b : list (nat * nat)) (r : list nat) : list nat :=
    match a, b with
    | [], _ => r
    | _, [] => r
    | x :: a', (y, k) :: b' =>
      if x =? y then inter_by_index a' b' (si_add r k)
      else if y <? x then inner b' r
      else inter_by_index a' b r
    end.

Definition s_induced (g : sparse) (V : list nat) : option sparse :=
  let n := length V in
  let sorted := ints_sort V in
  do st <- foldM (fun (st : list (list nat) * list Z * Z) v =>
                    let '(nbr, deg, m) := st in
                    do nv <- s_neighbours g v;
                    let r := inter_by_index nv sorted [] in
                    Some (nbr ++ [r], deg ++ [Z.of_nat (length r)], (m + Z.of_nat (length r))%Z))
                 V ([], [], 0%Z);
  let '(nbr, deg, m) := st in
  Some (mkSparse n (m / 2) nbr deg).

Definition s_copy (g : sparse) : sparse := g.

Definition s_step (g : sparse) (o : op) : option (sparse * option sparse) :=
  match o with
  | OAddV nbrs => do g' <- s_add_vertex g nbrs; Some (g', None)
  | ORemV v => do g' <- s_remove_vertex g v; Some (g', None)
  | OAddE i j => do g' <- s_add_edge g i j; Some (g', None)
  | ORemE i j => do g' <- s_remove_edge g i j; Some (g', None)
  | OCopy => Some (g, Some (s_copy g))
  | OInduced V => do h <- s_induced g V; Some (g, Some h)
  end.
