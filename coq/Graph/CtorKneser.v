(* C06: KneserGraph and BipartiteKneserGraph: no panic (the colex unranking terminates within
   its fuel), well formed, adjacency = "IntersectionSize of the two subsets is 0 (resp. k)". *)
From Coq Require Import List ZArith Arith Bool Lia.
From Mamba Require Import Graph.Model Graph.Tri Graph.Lists Graph.Abstract Graph.CtorModel Graph.CtorSpec
  Graph.CtorDense Graph.CtorFill Graph.CtorFamilies Graph.CtorViews.
Import ListNotations.

(* ------------------------------------------------------------------ binomials *)
Lemma binom_0_r n : binom n 0 = 1.
Proof. destruct n; reflexivity. Qed.

Lemma binom_gt n : forall k, n < k -> binom n k = 0.
Proof.
  induction n; intros k H; destruct k; try lia; cbn [binom]; [reflexivity|].
  rewrite !IHn by lia. reflexivity.
Qed.

Lemma binom_pos n : forall k, k <= n -> 1 <= binom n k.
Proof.
  induction n; intros k H; destruct k; cbn [binom]; try lia.
  pose proof (IHn k). lia.
Qed.

Lemma binom_grow i t : t + 1 <= binom (S i + t) (S i).
Proof.
  induction t.
  - rewrite Nat.add_0_r. apply binom_pos. lia.
  - replace (S i + S t) with (S (S i + t)) by lia. cbn [binom].
    pose proof (binom_pos (S i + t) i). fold (binom (S i + t) (S i)). lia.
Qed.

(* ------------------------------------------------------------------ the unranking never runs out of fuel *)
Lemma unrank_walk_some i m : forall fuel t prev, 1 <= fuel -> m + 2 <= fuel + t ->
  exists lp, unrank_walk fuel (S i + t) i m prev = Some lp.
Proof.
  induction fuel; intros t prev H1 H2; [lia|]. cbn [unrank_walk].
  destruct (Nat.leb_spec (binom (S i + t) (S i)) m).
  - pose proof (binom_grow i t).
    replace (S (S i + t)) with (S i + S t) by lia. apply IHfuel; lia.
  - eauto.
Qed.

Lemma unrank_some k : forall m, exists l, unrank k m = Some l.
Proof.
  induction k as [|i IH]; intros m; cbn [unrank]; [eauto|].
  destruct (unrank_walk_some i m (S (S m)) 0 0) as (lp & E); [lia|lia|].
  rewrite Nat.add_0_r in E. rewrite E. destruct (IH (m - snd lp)) as (r & Er). rewrite Er. eauto.
Qed.

Lemma mapM_unrank k l : mapM (unrank k) l = Some (map (ksubset k) l).
Proof.
  apply mapM_some. intros x _. unfold ksubset. destruct (unrank_some k x) as (r & ->). reflexivity.
Qed.

(* ------------------------------------------------------------------ IntersectionSize is symmetric *)
Lemma isize_sym a : forall b, isize a b = isize b a.
Proof.
  induction a as [|x a' IHa]; intros b.
  - destruct b; reflexivity.
  - induction b as [|y b' IHb]; [reflexivity|].
    cbn [isize]. rewrite (Nat.eqb_sym y x).
    destruct (Nat.eqb_spec x y) as [->|Hne]; [f_equal; apply IHa|].
    destruct (Nat.ltb_spec y x), (Nat.ltb_spec x y); try lia.
    + exact IHb.
    + rewrite IHa. reflexivity.
Qed.

(* ------------------------------------------------------------------ Kneser *)
Lemma kneser_in us e : In e (kneser_pairs us) <->
  exists i j, i <= j /\ j < length us /\ isize (nth i us []) (nth j us []) = 0 /\ e = (i, j).
Proof.
  unfold kneser_pairs. rewrite in_flat_map. split.
  - intros (i & Hi & H). apply in_seq in Hi. apply in_flat_map in H. destruct H as (j & Hj & H).
    apply in_seq in Hj. destruct (Nat.eqb_spec (isize (nth i us []) (nth j us [])) 0); [|destruct H].
    destruct H as [<-|[]]. exists i, j. repeat split; auto; lia.
  - intros (i & j & Hij & Hj & Hz & ->). exists i. split; [apply in_seq; lia|].
    apply in_flat_map. exists j. split; [apply in_seq; lia|]. rewrite Hz. cbn. auto.
Qed.

Theorem kneser_ok n k : builds (kneser n k) (binom n k) (kneser_def k).
Proof.
  unfold kneser. rewrite mapM_unrank. set (N := binom n k). set (us := map (ksubset k) (seq 0 N)).
  assert (Lu : length us = N) by (unfold us; rewrite map_length, seq_length; auto).
  assert (Hu : forall x, x < N -> nth x us [] = ksubset k x).
  { intros x Hx. unfold us. rewrite (nth_indep _ [] (ksubset k 0)) by (rewrite map_length, seq_length; auto).
    rewrite map_nth, seq_nth by auto. reflexivity. }
  apply family_ok.
  - intros e He. apply kneser_in in He. destruct He as (i & j & Hij & Hj & _ & ->). cbn. lia.
  - intros x y Hx Hy. apply eq_iff_eq_true. rewrite in_pairs_true. unfold kneser_def.
    rewrite andb_true_iff, negb_true_iff, Nat.eqb_neq, Nat.eqb_eq. split.
    + intros (Hne & e & He & H). split; auto. apply kneser_in in He.
      destruct He as (i & j & Hij & Hj & Hz & ->). cbn [fst snd] in H.
      rewrite !Hu in Hz by lia. destruct H as [[-> ->]|[-> ->]]; [auto|]. rewrite isize_sym. auto.
    + intros (Hne & Hz). split; auto. destruct (Nat.le_gt_cases x y).
      * exists (x, y). split; [|cbn; auto]. apply kneser_in. exists x, y. rewrite !Hu by lia.
        repeat split; auto; lia.
      * exists (y, x). split; [|cbn; auto]. apply kneser_in. exists y, x. rewrite !Hu by lia.
        rewrite isize_sym. repeat split; auto; lia.
Qed.

(* ------------------------------------------------------------------ BipartiteKneser *)
Lemma bikneser_in k us vs e : In e (bikneser_pairs k us vs) <->
  exists i j, i < length us /\ j < length us /\ isize (nth i us []) (nth j vs []) = k /\ e = (i, length us + j).
Proof.
  unfold bikneser_pairs. rewrite in_flat_map. split.
  - intros (i & Hi & H). apply in_seq in Hi. apply in_flat_map in H. destruct H as (j & Hj & H).
    apply in_seq in Hj. destruct (Nat.eqb_spec (isize (nth i us []) (nth j vs [])) k); [|destruct H].
    destruct H as [<-|[]]. exists i, j. repeat split; auto; lia.
  - intros (i & j & Hi & Hj & Hz & ->). exists i. split; [apply in_seq; lia|].
    apply in_flat_map. exists j. split; [apply in_seq; lia|]. rewrite Hz, Nat.eqb_refl. cbn. auto.
Qed.

(* what the (repaired) code builds for every k <= n, in terms of IntersectionSize *)
Theorem bipartite_kneser_ok n k : k <= n ->
  builds (bipartite_kneser n k) (binom n k + binom n k) (bikneser_def n k (binom n k)).
Proof.
  intros Hk. unfold bipartite_kneser. destruct (Nat.ltb_spec n k); [lia|].
  rewrite !mapM_unrank. set (N := binom n k).
  set (us := map (ksubset k) (seq 0 N)). set (vs := map (ksubset (n - k)) (seq 0 N)).
  assert (Lu : length us = N) by (unfold us; rewrite map_length, seq_length; auto).
  assert (Hu : forall x, x < N -> nth x us [] = ksubset k x).
  { intros x Hx. unfold us. rewrite (nth_indep _ [] (ksubset k 0)) by (rewrite map_length, seq_length; auto).
    rewrite map_nth, seq_nth by auto. reflexivity. }
  assert (Hv : forall x, x < N -> nth x vs [] = ksubset (n - k) x).
  { intros x Hx. unfold vs. rewrite (nth_indep _ [] (ksubset (n - k) 0)) by (rewrite map_length, seq_length; auto).
    rewrite map_nth, seq_nth by auto. reflexivity. }
  apply family_ok.
  - intros e He. apply bikneser_in in He. destruct He as (i & j & Hi & Hj & _ & ->). cbn. lia.
  - intros x y Hx Hy. apply eq_iff_eq_true. rewrite in_pairs_true. unfold bikneser_def. set (sm := Nat.min k (n - k)).
    rewrite orb_true_iff, !andb_true_iff, !Nat.eqb_eq, !Nat.ltb_lt, !Nat.leb_le. split.
    + intros (Hne & e & He & H'). apply bikneser_in in He.
      destruct He as (i & j & Hi & Hj & Hz & ->). cbn [fst snd] in H'. rewrite Lu in *.
      rewrite Hu, Hv in Hz by lia.
      destruct H' as [[-> <-]|[-> <-]]; [left|right]; (split; [lia|]);
        replace (N + j - N) with j by lia; auto.
    + intros [((Hx' & Hy') & Hz)|((Hy' & Hx') & Hz)]; (split; [lia|]).
      * exists (x, length us + (y - N)). split; [|cbn; left; split; auto; lia].
        apply bikneser_in. exists x, (y - N). rewrite Lu, Hu, Hv by lia. repeat split; auto; lia.
      * exists (y, length us + (x - N)). split; [|cbn; right; split; auto; lia].
        apply bikneser_in. exists y, (x - N). rewrite Lu, Hu, Hv by lia. repeat split; auto; lia.
Qed.

Theorem bipartite_kneser_empty n k : n < k -> bipartite_kneser n k = Some (d_empty 0).
Proof. intros H. unfold bipartite_kneser. destruct (Nat.ltb_spec n k); [reflexivity|lia]. Qed.
