(* C06: the adjacency of LineGraphDense: vertex p is the p-th edge of the input in the order
   01 02 12 03 ..., and p ~ q exactly when the two edges are distinct and share an endpoint. *)
From Coq Require Import List ZArith Arith Bool Lia Sorted.
From Mamba Require Import Graph.Model Graph.Tri Graph.Lists Graph.Abstract Graph.CtorModel Graph.CtorSpec
  Graph.CtorDense Graph.CtorFill Graph.CtorPartite Graph.CtorLine.
Import ListNotations.

(* ------------------------------------------------------------------ the edge list so far *)
Lemma edge_row_S a y c :
  edge_row a y (S c) = edge_row a y c ++ (if adj a c y then [(c, y)] else []).
Proof.
  unfold edge_row. rewrite seq_S, filter_app, map_app. cbn [filter Nat.add].
  destruct (adj a c y); reflexivity.
Qed.

Lemma edges_upto_step a j i :
  edges_upto a j (S i) = edges_upto a j i ++ (if adj a i j then [(i, j)] else []).
Proof. unfold edges_upto. rewrite edge_row_S, app_assoc. reflexivity. Qed.

Lemma edges_upto_row_end a j : edges_upto a j j = edges_upto a (S j) 0.
Proof.
  unfold edges_upto. rewrite seq_S, flat_map_app. cbn [flat_map Nat.add].
  assert (E : edge_row a (S j) 0 = []) by reflexivity. rewrite E, !app_nil_r. reflexivity.
Qed.

Lemma edges_upto_length a j i : length (edges_upto a j i) = ebelow a j i.
Proof.
  unfold edges_upto, ebelow. rewrite app_length. f_equal.
  - induction j; [reflexivity|]. rewrite seq_S, flat_map_app, map_app, list_sum_app, app_length, IHj.
    cbn [flat_map map Nat.add]. rewrite list_sum_cons, list_sum_nil, app_nil_r. unfold edge_row, erow.
    rewrite map_length. lia.
  - unfold edge_row, erow. apply map_length.
Qed.

(* ------------------------------------------------------------------ conditional fills *)
Definition cset (c : nat -> bool) (mI : nat) (e : list Z) (kv : nat * nat) : option (list Z) :=
  if c (snd kv) then set_nth e (tri mI + fst kv) 1%Z else Some e.

Definition hit (c : nat -> bool) (mI : nat) (kvs : list (nat * nat)) (p : nat) : bool :=
  existsb (fun kv => c (snd kv) && (tri mI + fst kv =? p)) kvs.

Lemma cond_fill_ok c mI m kvs : mI < m -> forall e,
  (forall kv, In kv kvs -> fst kv < mI) -> length e = tri m ->
  exists e', foldM (cset c mI) kvs e = Some e' /\ length e' = tri m /\
    forall p, nth p e' 0%Z = if hit c mI kvs p then 1%Z else nth p e 0%Z.
Proof.
  intros Hm. induction kvs as [|[k v] t IH]; intros e Hk Le.
  - exists e. cbn. auto.
  - cbn [foldM]. unfold cset at 1. cbn [fst snd].
    assert (Hkm : k < mI) by (apply (Hk (k, v)); left; auto).
    assert (Hb : tri mI + k < length e) by (rewrite Le; apply tri_bound; lia).
    destruct (c v) eqn:Ec.
    + rewrite set_nth_some by auto.
      destruct (IH (upd e (tri mI + k) 1%Z)) as (e' & E & L & Hp);
        [intros; apply Hk; right; auto|rewrite upd_length; auto|].
      exists e'. split; [exact E|]. split; [exact L|]. intros p. rewrite Hp.
      unfold hit. cbn [existsb fst snd]. rewrite Ec. cbn [andb]. fold (hit c mI t p).
      destruct (hit c mI t p); [rewrite orb_true_r; reflexivity|]. rewrite orb_false_r.
      destruct (Nat.eqb_spec (tri mI + k) p) as [<-|Hne].
      * apply nth_upd_same. auto.
      * apply nth_upd_other. auto.
    + destruct (IH e) as (e' & E & L & Hp); [intros; apply Hk; right; auto|auto|].
      exists e'. split; [exact E|]. split; [exact L|]. intros p. rewrite Hp.
      unfold hit. cbn [existsb fst snd]. rewrite Ec. reflexivity.
Qed.

Lemma foldM_cset_none c mI kvs e : (forall kv, In kv kvs -> c (snd kv) = false) ->
  foldM (cset c mI) kvs e = Some e.
Proof.
  induction kvs as [|kv t IH]; intros H; [reflexivity|]. cbn [foldM]. unfold cset at 1.
  rewrite (H kv) by (left; auto). apply IH. intros. apply H. right. auto.
Qed.

Lemma line_lower_eq i mI lower e :
  line_lower i mI lower e = foldM (cset (Nat.eqb i) mI) (combine (seq 0 (length lower)) lower) e.
Proof. reflexivity. Qed.

(* the scan with `break` at the first larger entry, on a non-decreasing list *)
Lemma line_upper_eq i mI kvs : StronglySorted le (map snd kvs) -> forall e,
  line_upper i mI kvs e = foldM (cset (Nat.eqb i) mI) kvs e.
Proof.
  induction kvs as [|[k v] t IH]; intros S e; [reflexivity|].
  cbn [map snd] in S. inversion S as [|? ? S' F]; subst. rewrite Forall_forall in F.
  cbn [line_upper foldM]. unfold cset at 1. cbn [fst snd].
  destruct (Nat.eqb_spec i v).
  - destruct (set_nth e (tri mI + k) 1%Z); [apply IH; auto|reflexivity].
  - destruct (Nat.ltb_spec i v).
    + symmetry. apply foldM_cset_none. intros kv Hkv. apply Nat.eqb_neq.
      assert (v <= snd kv) by (apply F; apply in_map; auto). lia.
    + apply IH. auto.
Qed.

(* the backwards scan with `break` at the first entry different from j, on a list whose entries
   are non-increasing and at most j *)
Lemma line_back_eq j mI kvs : StronglySorted ge (map snd kvs) -> (forall kv, In kv kvs -> snd kv <= j) ->
  forall e, line_back j mI kvs e = foldM (cset (fun v => v =? j) mI) kvs e.
Proof.
  induction kvs as [|[k v] t IH]; intros S Hj e; [reflexivity|].
  cbn [map snd] in S. inversion S as [|? ? S' F]; subst. rewrite Forall_forall in F.
  cbn [line_back foldM]. unfold cset at 1. cbn [fst snd].
  destruct (Nat.eqb_spec v j).
  - destruct (set_nth e (tri mI + k) 1%Z); [apply IH; auto; intros; apply Hj; right; auto|reflexivity].
  - symmetry. apply foldM_cset_none. intros kv Hkv. apply Nat.eqb_neq.
    assert (v >= snd kv) by (apply F; apply in_map; auto).
    assert (v <= j) by (apply (Hj (k, v)); left; auto). lia.
Qed.

Lemma sorted_snoc (R : nat -> nat -> Prop) l x :
  StronglySorted R l -> Forall (fun y => R y x) l -> StronglySorted R (l ++ [x]).
Proof.
  induction 1 as [|h t S IH F]; intros Hx; cbn [app]; [repeat constructor|].
  inversion Hx; subst. constructor; [apply IH; auto|].
  apply Forall_app. split; [auto|]. constructor; auto.
Qed.

Lemma sorted_rev l : StronglySorted le l -> StronglySorted ge (rev l).
Proof.
  induction 1 as [|h t S IH F]; cbn [rev]; [constructor|]. apply sorted_snoc; [exact IH|].
  rewrite Forall_forall in *. intros y Hy. apply in_rev in Hy. apply F in Hy. unfold ge. exact Hy.
Qed.

Lemma map_snd_indexed (l : list nat) : forall s, map snd (combine (seq s (length l)) l) = l.
Proof. induction l; intros s; cbn; [reflexivity|]. f_equal. apply IHl. Qed.

Lemma nth_map_fst (el : list (nat * nat)) q : nth q (map fst el) 0 = fst (nth q el (0, 0)).
Proof. exact (map_nth fst el (0, 0) q). Qed.

Lemma nth_map_snd (el : list (nat * nat)) q : nth q (map snd el) 0 = snd (nth q el (0, 0)).
Proof. exact (map_nth snd el (0, 0) q). Qed.

(* membership in an indexed list *)
Lemma in_indexed (l : list nat) k v : forall s,
  In (k, v) (combine (seq s (length l)) l) <-> s <= k /\ nth_error l (k - s) = Some v.
Proof.
  induction l as [|h t IH]; intros s; cbn [combine length seq In].
  - split; [tauto|]. intros [_ H]. destruct (k - s); discriminate.
  - rewrite IH. split.
    + intros [E|[H1 H2]].
      * inversion E; subst. rewrite Nat.sub_diag. cbn. auto.
      * split; [lia|]. replace (k - s) with (S (k - S s)) by lia. exact H2.
    + intros [H1 H2]. destruct (Nat.eq_dec k s) as [->|Hne].
      * rewrite Nat.sub_diag in H2. cbn in H2. inversion H2. auto.
      * right. split; [lia|]. replace (k - s) with (S (k - S s)) in H2 by lia. exact H2.
Qed.

Lemma hit_indexed c mI l k : length l = mI -> k < mI ->
  hit c mI (combine (seq 0 (length l)) l) (tri mI + k) = c (nth k l 0).
Proof.
  intros Hl Hk. apply eq_iff_eq_true. unfold hit. rewrite existsb_exists. split.
  - intros ([k' v] & Hin & H). apply andb_true_iff in H. destruct H as [Hc He]. cbn [fst snd] in *.
    apply Nat.eqb_eq in He. assert (k' = k) by lia. subst k'.
    apply in_indexed in Hin. rewrite Nat.sub_0_r in Hin. destruct Hin as [_ Hn].
    apply (nth_error_some_nth _ _ _ 0) in Hn. destruct Hn as [_ <-]. exact Hc.
  - intros Hc. exists (k, nth k l 0). split.
    + apply in_indexed. rewrite Nat.sub_0_r. split; [lia|]. apply nth_error_nth_lt. lia.
    + cbn [fst snd]. rewrite Hc, Nat.eqb_refl. reflexivity.
Qed.

Lemma hit_range c mI kvs p : (forall kv, In kv kvs -> fst kv < mI) -> hit c mI kvs p = true ->
  exists k, k < mI /\ p = tri mI + k.
Proof.
  intros Hk H. unfold hit in H. apply existsb_exists in H. destruct H as (kv & Hin & H).
  apply andb_true_iff in H. destruct H as [_ He]. apply Nat.eqb_eq in He.
  exists (fst kv). split; [apply Hk; auto|lia].
Qed.

Lemma hit_rev c mI kvs p : hit c mI (rev kvs) p = hit c mI kvs p.
Proof.
  apply eq_iff_eq_true. unfold hit. rewrite !existsb_exists.
  split; intros (kv & Hin & H); exists kv; split; auto; [apply in_rev; auto|apply in_rev in Hin; auto].
Qed.

(* ------------------------------------------------------------------ the main loop with its contents *)
Definition el_ok (j : nat) (el : list (nat * nat)) : Prop :=
  (forall e, In e el -> fst e < snd e /\ snd e <= j) /\ StronglySorted le (map snd el).

Definition ldinv (a : agraph) (m j i : nat) (st : list Z * list nat * list nat * nat) : Prop :=
  let '(e, lower, upper, mIndex) := st in
  let el := edges_upto a j i in
  length e = tri m /\ lower = map fst el /\ upper = map snd el /\ mIndex = length el /\ el_ok j el /\
  forall q p, q < p -> p < m ->
    nth (tri p + q) e 0%Z =
      if p <? mIndex then b2z (share (nth q el (0, 0)) (nth p el (0, 0))) else 0%Z.

Lemma el_ok_weaken j el : el_ok j el -> el_ok (S j) el.
Proof.
  intros [H1 H2]. split; [|exact H2]. intros e He. destruct (H1 e He). lia.
Qed.

Lemma line_cell_def g a m j i st : grep g a -> m = ebelow a (an a) 0 -> i < j -> j < an a ->
  ldinv a m j i st -> exists st', line_cell g j st i = Some st' /\ ldinv a m j (S i) st'.
Proof.
  intros R Hm Hi Hj. destruct st as [[[e lower] upper] mIndex].
  intros (Le & Hlo & Hup & Hx & [Hok1 Hok2] & Hc).
  unfold line_cell. rewrite (gr_edge g a R) by lia.
  pose proof (edges_upto_step a j i) as Hs.
  pose proof (ebelow_total_ge a (an a) j (S i) Hj ltac:(lia)) as Ht.
  rewrite <- edges_upto_length, Hs, app_length in Ht.
  set (el := edges_upto a j i) in *.
  destruct (adj a i j) eqn:Ea.
  - cbn [length] in Ht. assert (Hlt : mIndex < m) by lia.
    assert (Ll : length lower = mIndex) by (rewrite Hlo, map_length; auto).
    assert (Lu : length upper = mIndex) by (rewrite Hup, map_length; auto).
    set (iu := combine (seq 0 (length upper)) upper).
    assert (Hkl : forall kv, In kv (combine (seq 0 (length lower)) lower) -> fst kv < mIndex).
    { intros [k v] H. apply in_combine_l in H. apply in_seq in H. cbn. lia. }
    assert (Hku : forall kv, In kv iu -> fst kv < mIndex).
    { intros [k v] H. apply in_combine_l in H. apply in_seq in H. cbn. lia. }
    assert (Msnd : map snd iu = upper).
    { unfold iu. apply map_snd_indexed. }
    rewrite line_lower_eq.
    destruct (cond_fill_ok (Nat.eqb i) mIndex m _ Hlt e Hkl Le) as (e1 & E1 & L1 & P1). rewrite E1.
    rewrite line_upper_eq by (rewrite Msnd, Hup; exact Hok2).
    destruct (cond_fill_ok (Nat.eqb i) mIndex m iu Hlt e1 Hku L1) as (e2 & E2 & L2 & P2). rewrite E2.
    rewrite line_back_eq.
    2:{ rewrite map_rev, Msnd, Hup. apply sorted_rev. exact Hok2. }
    2:{ intros kv Hkv. apply in_rev in Hkv. assert (In (snd kv) upper) by (rewrite <- Msnd; apply in_map; auto).
        rewrite Hup in H. apply in_map_iff in H. destruct H as (e0 & <- & He0). apply Hok1. auto. }
    destruct (cond_fill_ok (fun v => v =? j) mIndex m (rev iu) Hlt e2) as (e3 & E3 & L3 & P3); auto.
    { intros kv H. apply in_rev in H. auto. }
    rewrite E3. eexists. split; [reflexivity|].
    unfold ldinv. rewrite Hs. fold el.
    split; [exact L3|]. split; [rewrite map_app, Hlo; reflexivity|].
    split; [rewrite map_app, Hup; reflexivity|]. split; [rewrite app_length; cbn [length]; lia|]. split.
    + split.
      * intros e0 He0. apply in_app_or in He0. destruct He0 as [He0|[<-|[]]]; [apply Hok1; auto|cbn; lia].
      * rewrite map_app. cbn [map snd]. apply sorted_snoc; [exact Hok2|].
        apply Forall_forall. intros y Hy. apply in_map_iff in Hy. destruct Hy as (e0 & <- & He0). apply Hok1. auto.
    + intros q p Hqp Hp. rewrite P3, P2, P1, hit_rev.
      destruct (Nat.eq_dec p mIndex) as [->|Hpm].
      * (* the row of the new edge *)
        destruct (Nat.ltb_spec mIndex (S mIndex)); [|lia].
        unfold iu. rewrite !hit_indexed by lia.
        rewrite (app_nth1 el) by lia.
        rewrite (app_nth2 el) by lia. rewrite <- Hx, Nat.sub_diag. cbn [nth].
        rewrite Hc by lia. destruct (Nat.ltb_spec mIndex mIndex); [lia|].
        assert (Hq : In (nth q el (0, 0)) el) by (apply nth_In; lia).
        destruct (Hok1 _ Hq) as [Hq1 Hq2].
        rewrite Hlo, Hup, nth_map_fst, !nth_map_snd.
        unfold share. cbn [fst snd]. set (ql := fst (nth q el (0, 0))) in *. set (qu := snd (nth q el (0, 0))) in *.
        destruct (Nat.eqb_spec qu j), (Nat.eqb_spec i qu), (Nat.eqb_spec i ql),
          (Nat.eqb_spec ql i), (Nat.eqb_spec ql j), (Nat.eqb_spec qu i); cbn; try reflexivity; lia.
      * (* every other cell is untouched *)
        assert (Hno : forall c kvs, (forall kv, In kv kvs -> fst kv < mIndex) -> hit c mIndex kvs (tri p + q) = false).
        { intros c kvs Hk. destruct (hit c mIndex kvs (tri p + q)) eqn:Eh; [|reflexivity].
          apply hit_range in Eh; auto. destruct Eh as (k & Hk1 & Hk2).
          apply tri_inj in Hk2; lia. }
        rewrite !Hno by auto. rewrite Hc by auto.
        destruct (Nat.ltb_spec p mIndex), (Nat.ltb_spec p (S mIndex)); try lia.
        rewrite !(app_nth1 el) by lia. reflexivity.
  - eexists. split; [reflexivity|]. unfold ldinv. rewrite Hs, app_nil_r. fold el.
    split; [exact Le|]. split; [exact Hlo|]. split; [exact Hup|]. split; [exact Hx|].
    split; [split; auto|exact Hc].
Qed.

Theorem line_graph_def g a : awf a -> grep g a ->
  exists h, line_graph g = Some h /\ dwf h /\ dn h = length (edge_list a) /\
    Z.of_nat (dn h) = a_M a /\
    forall p q, p < dn h -> q < dn h -> dadj h p q = line_def (edge_list a) p q.
Proof.
  intros W R. unfold line_graph. rewrite (gr_M g a R), (gr_N g a R).
  pose proof (ebelow_total a) as Ht. set (m := ebelow a (an a) 0) in *.
  destruct (Z.ltb_spec (a_M a) 0); [lia|].
  replace (Z.to_nat (a_M a)) with m by lia.
  destruct (foldM_seq_inv (fun j st => ldinv a m j 0 st)
              (fun st j => foldM (line_cell g j) (seq 0 j) st) (an a) 0 (zeros (tri m), [], [], 0))
    as ([[[e lower] upper] mIndex] & E & (Le & _ & _ & Hx & _ & Hc)).
  - unfold ldinv. cbn [edges_upto seq flat_map app]. assert (E0 : edge_row a 0 0 = []) by reflexivity. rewrite E0.
    split; [apply repeat_length|]. split; [reflexivity|]. split; [reflexivity|]. split; [reflexivity|].
    split; [split; [intros e []|constructor]|]. intros q p _ _. rewrite nth_zeros.
    destruct (Nat.ltb_spec p 0); [lia|reflexivity].
  - intros j st [_ Hj] HI. cbn in Hj.
    destruct (foldM_seq_inv (fun i st => ldinv a m j i st) (line_cell g j) j 0 st) as (st' & E' & HI').
    + exact HI.
    + intros i s [_ Hi] HK. cbn in Hi. apply (line_cell_def g a m j i s); auto.
    + exists st'. split; [exact E'|]. destruct st' as [[[e' lo'] up'] mI']. unfold ldinv in *.
      cbn [Nat.add] in HI'. rewrite <- edges_upto_row_end.
      destruct HI' as (H1 & H2 & H3 & H4 & H5 & H6).
      split; [exact H1|]. split; [exact H2|]. split; [exact H3|]. split; [exact H4|].
      split; [apply el_ok_weaken; exact H5|exact H6].
  - rewrite E. cbn [Nat.add] in Hx, Hc. fold (edge_list a) in Hx, Hc.
    assert (Hml : m = length (edge_list a)) by (unfold edge_list; rewrite edges_upto_length; reflexivity).
    destruct (new_dense_ok m e Le) as (h & Eh & Wh & Nh & Ah).
    exists h. split; [exact Eh|]. split; [exact Wh|]. split; [lia|]. split; [rewrite Nh; exact Ht|].
    apply (dadj_cells h (line_def (edge_list a))).
    + intros x y Hxy Hy. rewrite Nh in Hy. unfold cell. rewrite Ah, Hc by auto.
      destruct (Nat.ltb_spec y mIndex); [|lia]. unfold line_def.
      destruct (Nat.eqb_spec x y); [lia|]. cbn [negb andb]. destruct (share _ _); reflexivity.
    + intros x y. unfold line_def, share. rewrite (Nat.eqb_sym y x). f_equal.
      set (ex := nth x (edge_list a) (0, 0)). set (ey := nth y (edge_list a) (0, 0)).
      rewrite (Nat.eqb_sym (fst ey)), (Nat.eqb_sym (fst ey)), (Nat.eqb_sym (snd ey)), (Nat.eqb_sym (snd ey)).
      destruct (fst ex =? fst ey), (snd ex =? fst ey), (fst ex =? snd ey), (snd ex =? snd ey); reflexivity.
    + intros x. unfold line_def. rewrite Nat.eqb_refl. reflexivity.
Qed.
