(* DenseGraph.RemoveVertex refines the abstract removal: the two degree fix-up loops, the
   row-by-row compaction of the packed triangle inside the backing array, the final re-slice. *)
From Coq Require Import List ZArith Arith Bool Lia.
From Mamba Require Import Graph.Model Graph.Lists Graph.Tri Graph.Abstract Graph.Dense.
Import ListNotations.

(* ---------------------------------------------------------------- the degree loops *)
Definition inr (lo hi x : nat) : bool := (lo <=? x) && (x <? hi).

Lemma inr_spec lo hi x : inr lo hi x = true <-> lo <= x < hi.
Proof. unfold inr. rewrite andb_true_iff, Nat.leb_le, Nat.ltb_lt. tauto. Qed.

Lemma inr_cases lo hi x : (inr lo hi x = true /\ lo <= x < hi) \/ (inr lo hi x = false /\ ~ (lo <= x < hi)).
Proof. destruct (inr lo hi x) eqn:E; [left|right]; split; auto; rewrite <- inr_spec; congruence. Qed.
Lemma dec_loop arr len idx (p : nat -> bool) lo cnt deg :
  len <= length arr ->
  (forall x, lo <= x < lo + cnt ->
     idx x < len /\ x < length deg /\ (0 <? nth (idx x) arr 0)%Z = p x) ->
  exists deg', foldM (d_dec_if arr len idx) (seq lo cnt) deg = Some deg' /\
    length deg' = length deg /\
    forall x, nth x deg' 0%Z =
      (nth x deg 0 - if inr lo (lo + cnt) x then b2z (p x) else 0)%Z.
Proof.
  intros Hc H.
  destruct (foldM_seq_inv
    (fun k d => length d = length deg /\
       forall x, nth x d 0%Z = (nth x deg 0 - if inr lo k x then b2z (p x) else 0)%Z)
    (d_dec_if arr len idx) cnt lo deg) as (deg' & E & H1 & H2).
  - split; auto. intros x. destruct (inr_cases lo lo x) as [[-> ?]|[-> ?]]; lia.
  - intros k d Hk [L Hd]. destruct (H k Hk) as (K1 & K2 & K3).
    unfold d_dec_if. rewrite d_get_some by auto. rewrite K3.
    destruct (p k) eqn:Pk.
    + rewrite modify_some by lia. eexists. split; [reflexivity|].
      rewrite upd_length. split; auto. intros x. rewrite nth_upd by lia. rewrite !Hd.
      destruct (Nat.eqb_spec x k).
      * subst. rewrite Pk. destruct (inr_cases lo k k) as [[-> ?]|[-> ?]],
          (inr_cases lo (S k) k) as [[-> ?]|[-> ?]]; simpl; lia.
      * destruct (inr_cases lo k x) as [[-> ?]|[-> ?]],
          (inr_cases lo (S k) x) as [[-> ?]|[-> ?]]; simpl; lia.
    + eexists. split; [reflexivity|]. split; auto. intros x. rewrite Hd.
      destruct (Nat.eqb_spec x k).
      * subst. rewrite Pk. destruct (inr_cases lo k k) as [[-> ?]|[-> ?]],
          (inr_cases lo (S k) k) as [[-> ?]|[-> ?]]; simpl; lia.
      * destruct (inr_cases lo k x) as [[-> ?]|[-> ?]],
          (inr_cases lo (S k) x) as [[-> ?]|[-> ?]]; simpl; lia.
  - exists deg'. auto.
Qed.

(* ---------------------------------------------------------------- copy inside one array *)
Lemma copy_within_spec arr dlo dhi slo shi :
  dlo <= dhi -> dhi <= length arr -> slo <= shi -> shi <= length arr -> shi - slo <= dhi - dlo ->
  exists arr', copy_within arr dlo dhi slo shi = Some (arr', shi - slo) /\
    length arr' = length arr /\
    forall k, nth k arr' 0%Z =
      if inr dlo (dlo + (shi - slo)) k then nth (slo + (k - dlo)) arr 0%Z
      else nth k arr 0%Z.
Proof.
  intros H1 H2 H3 H4 H5. unfold copy_within.
  destruct (Nat.leb_spec dlo dhi); [|lia]. destruct (Nat.leb_spec dhi (length arr)); [|lia].
  destruct (Nat.leb_spec slo shi); [|lia]. destruct (Nat.leb_spec shi (length arr)); [|lia].
  simpl. replace (Nat.min (dhi - dlo) (shi - slo)) with (shi - slo) by lia.
  set (c := shi - slo) in *.
  eexists. split; [reflexivity|]. split.
  - rewrite !app_length, !firstn_length, !skipn_length. lia.
  - intros k. unfold inr. destruct (Nat.leb_spec dlo k); simpl.
    + rewrite app_nth2 by (rewrite firstn_length; lia). rewrite firstn_length.
      replace (Nat.min dlo (length arr)) with dlo by lia.
      destruct (Nat.ltb_spec k (dlo + c)).
      * rewrite app_nth1 by (rewrite firstn_length, skipn_length; lia).
        rewrite nth_firstn_lt by lia. rewrite nth_skipn'. reflexivity.
      * rewrite app_nth2 by (rewrite firstn_length, skipn_length; lia).
        rewrite firstn_length, skipn_length. replace (Nat.min c (length arr - slo)) with c by lia.
        rewrite nth_skipn'. f_equal. lia.
    + rewrite app_nth1 by (rewrite firstn_length; lia). apply nth_firstn_lt. lia.
Qed.

(* ---------------------------------------------------------------- where a copied cell comes from *)
(* The window copied at step j (and by the final copy, j = n) is [old1, hi) with hi <= tri j + v;
   it lands j-1 places lower.  A cell of the new triangle that lands inside the window comes
   from the cell of the renumbered pair. *)
Lemma compact_pos v j x y q : v < j -> x < y ->
  q = tri y + x + (j - 1) ->
  (if j =? S v then tri (S v) else S (tri (j - 1) + v)) <= q ->
  q < tri j + v ->
  q = tri (up v y) + up v x.
Proof.
  intros Hv Hxy -> Hlo Hhi. destruct j as [|j']; [lia|]. replace (S j' - 1) with j' in * by lia.
  pose proof (tri_S j') as T1.
  destruct (Nat.eqb_spec (S j') (S v)) as [E|E].
  - assert (j' = v) by lia. subst j'.
    destruct (Nat.lt_trichotomy y v) as [L|[->|L]].
    + pose proof (tri_lt y v L). lia.
    + unfold up. destruct (Nat.ltb_spec v v); [lia|]. destruct (Nat.ltb_spec x v); lia.
    + pose proof (tri_mono (S v) y). lia.
  - destruct j' as [|j'']; [lia|]. pose proof (tri_S j'') as T2.
    assert (Hvj : v <= j'') by lia.
    destruct (Nat.lt_trichotomy y j'') as [L|[->|L]].
    + pose proof (tri_lt y j'' L). lia.
    + unfold up. destruct (Nat.ltb_spec j'' v); [lia|]. destruct (Nat.ltb_spec x v); [lia|].
      rewrite T2. lia.
    + destruct (Nat.eq_dec y (S j'')) as [->|Hne].
      * unfold up. destruct (Nat.ltb_spec (S j'') v); [lia|]. destruct (Nat.ltb_spec x v); lia.
      * pose proof (tri_mono (S (S j'')) y). lia.
Qed.

(* ---------------------------------------------------------------- RemoveVertex *)
Lemma d_remove_vertex_ok g a v : Rd g a -> v < an a ->
  exists g', d_remove_vertex g v = Some g' /\ Rd g' (a_remove_vertex a v).
Proof.
  intros R Hv. pose proof (rd_wf g a R) as W.
  pose proof (rd_cap g a R) as Hcap. pose proof (rd_len g a R) as Hlen.
  pose proof (rd_deglen g a R) as Hdl.
  unfold d_remove_vertex. rewrite (rd_n g a R). set (n := an a) in *.
  destruct (Nat.leb_spec n v); [lia|].
  rewrite (nth_error_nth_lt _ _ 0%Z) by lia.
  (* first degree loop *)
  destruct (dec_loop (darr g) (dlen g) (fun i => tri v + i) (fun x => adj a x v) 0 v (ddeg g))
    as (deg1 & E1 & L1 & D1); auto.
  { intros x Hx. split; [eapply Rd_in_slice; eauto; lia|]. split; [lia|].
    apply (rd_cell g a R); lia. }
  rewrite E1.
  (* second degree loop *)
  destruct (dec_loop (darr g) (dlen g) (fun i => tri i + v) (fun x => adj a x v) (S v) (n - S v) deg1)
    as (deg2 & E2 & L2 & D2); auto.
  { intros x Hx. split; [eapply Rd_in_slice; eauto; lia|]. split; [lia|].
    rewrite (rd_cell g a R) by lia. apply (awf_sym a W). }
  rewrite E2.
  assert (Hdeg2 : forall z, z < n -> z <> v -> nth z deg2 0%Z = (a_deg a z - b2z (adj a z v))%Z).
  { intros z Hz Hzv. rewrite D2, D1, (rd_deg g a R) by auto.
    destruct (inr_cases 0 (0 + v) z) as [[-> ?]|[-> ?]],
      (inr_cases (S v) (S v + (n - S v)) z) as [[-> ?]|[-> ?]]; simpl; lia. }
  (* compaction loop *)
  set (arr0 := darr g) in *. set (L := dlen g) in *.
  assert (HL : L = tri n) by auto.
  pose (I := fun (j : nat) (st : list Z * nat * nat) =>
    let '(arr, newIndex, old1) := st in
    length arr = length arr0 /\
    newIndex + (j - 1) = old1 /\
    old1 = (if j =? S v then tri (S v) else S (tri (j - 1) + v)) /\
    (forall k, old1 <= k -> nth k arr 0%Z = nth k arr0 0%Z) /\
    (forall x y, x < y -> tri y + x < newIndex ->
        nth (tri y + x) arr 0%Z = nth (tri (up v y) + up v x) arr0 0%Z)).
  destruct (foldM_seq_inv I
    (fun (st : list Z * nat * nat) j =>
       let '(arr, newIndex, old1) := st in
       match copy_within arr newIndex L old1 (tri j + v) with
       | Some (arr', c) => Some (arr', newIndex + c, S (tri j + v))
       | None => None
       end) (n - S v) (S v) (arr0, tri v, tri (S v))) as (st & E3 & HI).
  { unfold I. rewrite Nat.eqb_refl. repeat split; auto.
    - rewrite tri_S. lia.
    - intros x y Hxy Hp. destruct (Nat.ltb_spec y v) as [Hy|Hy].
      + unfold up. destruct (Nat.ltb_spec y v); [|lia]. destruct (Nat.ltb_spec x v); [|lia].
        reflexivity.
      + pose proof (tri_mono v y Hy). lia. }
  { intros j [[arr ni] o1] Hj (I1 & I2 & I3 & I4 & I5).
    assert (Hjn : j < n) by lia. assert (Hvj : v < j) by lia.
    pose proof (tri_bound v j n Hvj Hjn) as Hb.
    assert (Ho : o1 <= tri j + v).
    { rewrite I3. destruct (Nat.eqb_spec j (S v)) as [->|Hne]; [lia|].
      destruct j as [|j']; [lia|]. rewrite tri_S. replace (S j' - 1) with j' by lia. lia. }
    destruct (copy_within_spec arr ni L o1 (tri j + v)) as (arr' & E & La & Na); try lia.
    cbv zeta. rewrite E. eexists. split; [reflexivity|]. unfold I.
    split; [lia|]. split; [lia|]. split.
    { destruct (Nat.eqb_spec (S j) (S v)); [lia|]. replace (S j - 1) with j by lia. reflexivity. }
    split.
    - intros k Hk. rewrite Na.
      destruct (inr_cases ni (ni + (tri j + v - o1)) k) as [[-> ?]|[-> ?]]; try lia; apply I4; lia.
    - intros x y Hxy Hp. rewrite Na.
      destruct (inr_cases ni (ni + (tri j + v - o1)) (tri y + x)) as [[-> ?]|[-> ?]].
      + rewrite I4 by lia. f_equal.
        apply (compact_pos v j x y); auto; try lia; rewrite <- I3; lia.
      + apply I5; auto; lia. }
  rewrite E3. destruct st as [[arr ni] o1].
  replace (S v + (n - S v)) with n in HI by lia.
  destruct HI as (I1 & I2 & I3 & I4 & I5).
  assert (Hn1 : tri n = tri (n - 1) + (n - 1)).
  { destruct n as [|n']; [lia|]. rewrite tri_S. replace (S n' - 1) with n' by lia. reflexivity. }
  assert (Ho : o1 <= L).
  { rewrite I3, HL. destruct (Nat.eqb_spec n (S v)) as [->|Hne]; [lia|]. lia. }
  destruct (copy_within_spec arr ni L o1 L) as (arr' & E & La & Na); try lia.
  rewrite E.
  destruct (Nat.leb_spec (tri (n - 1)) (length arr')); [|lia].
  eexists. split; [reflexivity|].
  constructor; simpl.
  - apply awf_remove_vertex; auto.
  - reflexivity.
  - rewrite M_remove_vertex by auto. rewrite (rd_m g a R), (rd_deg g a R) by auto. reflexivity.
  - rewrite remove_at_length by lia. fold n. lia.
  - intros x Hx. fold n in Hx. rewrite nth_remove_at by lia.
    rewrite deg_remove_vertex by auto. apply Hdeg2.
    + unfold up. destruct (Nat.ltb_spec x v); lia.
    + unfold up. destruct (Nat.ltb_spec x v); lia.
  - reflexivity.
  - lia.
  - intros x y Hxy Hy. fold n in Hy. fold n.
    destruct (Nat.ltb_spec x (n - 1)); [|lia]. destruct (Nat.ltb_spec y (n - 1)); [|lia]. simpl.
    assert (Hp : tri y + x < tri (n - 1)) by (apply tri_bound; auto).
    assert (Hux : up v x < up v y) by (unfold up; destruct (Nat.ltb_spec x v), (Nat.ltb_spec y v); lia).
    assert (Huy : up v y < n) by (unfold up; destruct (Nat.ltb_spec y v); lia).
    rewrite <- (rd_cell g a R) by auto. fold arr0. f_equal.
    rewrite Na. destruct (inr_cases ni (ni + (L - o1)) (tri y + x)) as [[-> ?]|[-> ?]].
    + rewrite I4 by lia. f_equal.
      apply (compact_pos v n x y); auto; try lia; rewrite <- I3; lia.
    + apply I5; auto; lia.
Qed.
