(* C06: SplitEdge and Contract at the REPRESENTATION level, for DenseGraph and SparseGraph.

   CtorEdit.v proves the documented adjacency for the composition of abstract edits.  Here the
   models [split_edge] / [contract] of CtorModel.v (the calls RemoveEdge, AddVertex, Neighbours,
   AddEdge..., RemoveVertex as transformation.go makes them on an EditableGraph) are composed
   with C05's refinement lemmas for every edit ([d_*_ok] over Rd, [s_*_ok] over Rs), and the
   result is carried back to C06's struct invariants [dwf] / [swf]:

     ewf g  ->  valid arguments  ->  the call does not panic, the result is again ewf (so all
     observers are those of one symmetric loop-free adjacency, M included), and its adjacency is
     the documented one.

   The two invariants coincide:  dwf g <-> Rd g (dabs g),  swf g <-> Rs g (sabs g). *)
From Coq Require Import List ZArith Arith Bool Lia Sorted.
From Mamba Require Import Graph.Model Graph.Tri Graph.Lists Graph.Abstract Graph.Dense
  Graph.DenseRemove Graph.SparseLists Graph.Sparse Graph.CtorModel Graph.CtorSpec Graph.CtorDense
  Graph.CtorSparse Graph.CtorEdit.
Import ListNotations.

(* ------------------------------------------------------------------ dwf <-> Rd *)
Lemma dwf_Rd g : dwf g -> Rd g (dabs g).
Proof.
  intros W. constructor; cbn [an dabs].
  - apply awf_dabs.
  - reflexivity.
  - apply (dwf_m g W).
  - rewrite (dwf_deg g W). apply a_degrees_length.
  - intros v Hv. rewrite (dwf_deg g W). apply nth_a_degrees. exact Hv.
  - apply (dwf_len g W).
  - apply (dwf_arr g W).
  - intros i j Hi Hj. cbn [adj dabs]. rewrite dadj_lt by auto. reflexivity.
Qed.

Lemma Rd_aeq g a : Rd g a -> aeq (dabs g) a.
Proof.
  intros R. pose proof (rd_wf g a R) as W. pose proof (rd_n g a R) as Hn.
  split; [exact Hn|]. intros x y. cbn [adj dabs]. unfold dadj, cell. rewrite Hn.
  destruct (Nat.ltb_spec x y) as [Hxy|Hxy].
  - destruct (Nat.ltb_spec y (an a)) as [Hy|Hy]; cbn [andb].
    + apply (rd_cell g a R); auto.
    + symmetry. apply awf_out2; auto.
  - destruct (Nat.ltb_spec y x) as [Hyx|Hyx].
    + destruct (Nat.ltb_spec x (an a)) as [Hx|Hx]; cbn [andb].
      * rewrite (awf_sym a W). apply (rd_cell g a R); auto.
      * symmetry. apply awf_out; auto.
    + assert (x = y) by lia. subst. symmetry. apply (awf_irr a W).
Qed.

Lemma Rd_dwf g a : Rd g a -> dwf g /\ aeq (dabs g) a.
Proof.
  intros R. pose proof (Rd_aeq g a R) as E. split; [|exact E].
  constructor.
  - rewrite (rd_len g a R), (rd_n g a R). reflexivity.
  - apply (rd_cap g a R).
  - rewrite (a_degrees_ext _ _ E). apply (d_degrees_ok g a R).
  - rewrite (a_M_ext _ _ E). apply (rd_m g a R).
Qed.

(* ------------------------------------------------------------------ swf <-> Rs *)
Lemma swf_Rs g : swf g -> Rs g (sabs g).
Proof.
  intros W. constructor; cbn [an sabs].
  - apply (swf_graph g W).
  - reflexivity.
  - apply (swf_m g W).
  - rewrite (swf_degrees g W). apply a_degrees_length.
  - intros v Hv. rewrite (swf_degrees g W). apply nth_a_degrees. exact Hv.
  - apply (swf_len g W).
  - intros v Hv. symmetry. apply sabs_neighbours; auto.
Qed.

Lemma Rs_aeq g a : Rs g a -> aeq (sabs g) a.
Proof.
  intros R. pose proof (rs_wf g a R) as W. pose proof (rs_n g a R) as Hn.
  split; [exact Hn|]. intros x y. cbn [adj sabs]. unfold sadj. rewrite Hn.
  destruct (Nat.ltb_spec x (an a)) as [Hx|Hx]; cbn [andb].
  - rewrite (rs_nbr g a R) by auto. apply eq_iff_eq_true. rewrite mem_true.
    apply a_neighbours_in. exact W.
  - symmetry. apply awf_out; auto.
Qed.

Lemma Rs_swf g a : Rs g a -> swf g /\ aeq (sabs g) a.
Proof.
  intros R. pose proof (Rs_aeq g a R) as E. split; [|exact E].
  pose proof (rs_wf g a R) as W. pose proof (rs_n g a R) as Hn.
  constructor.
  - rewrite (rs_nbrlen g a R). auto.
  - intros x Hx. rewrite (rs_nbr g a R) by lia. apply a_neighbours_sorted.
  - apply (awf_ext a); [|exact W]. apply aeq_sym. exact E.
  - apply list_Z_ext.
    + rewrite map_length, (rs_deglen g a R), (rs_nbrlen g a R). reflexivity.
    + intros k Hk. rewrite (rs_deglen g a R) in Hk.
      rewrite nth_map_length by (rewrite (rs_nbrlen g a R); exact Hk).
      rewrite (rs_deg g a R), (rs_nbr g a R) by exact Hk. apply a_deg_neighbours.
  - rewrite (a_M_ext _ _ E). apply (rs_m g a R).
Qed.

(* ------------------------------------------------------------------ an EditableGraph value *)
Definition Re (g : egraph) (a : agraph) : Prop :=
  match g with ED d => Rd d a | ES s => Rs s a end.

(* the struct invariant, the abstract graph, N, M and adjacency of either representation *)
Definition ewf (g : egraph) : Prop := match g with ED d => dwf d | ES s => swf s end.
Definition eabs (g : egraph) : agraph := match g with ED d => dabs d | ES s => sabs s end.
Definition e_n (g : egraph) : nat := an (eabs g).
Definition e_m (g : egraph) : Z := match g with ED d => dm d | ES s => sm s end.
Definition eadj (g : egraph) (x y : nat) : bool := adj (eabs g) x y.

Lemma ewf_Re g : ewf g -> Re g (eabs g).
Proof. destruct g; cbn; [apply dwf_Rd|apply swf_Rs]. Qed.

Lemma Re_ewf g a : Re g a -> ewf g /\ aeq (eabs g) a.
Proof. destruct g; cbn; [apply Rd_dwf|apply Rs_swf]. Qed.

Lemma Re_awf g a : Re g a -> awf a.
Proof. destruct g; cbn; [apply rd_wf|apply rs_wf]. Qed.

Lemma Re_m g a : Re g a -> e_m g = a_M a.
Proof. destruct g; cbn; [apply rd_m|apply rs_m]. Qed.

Lemma ewf_awf g : ewf g -> awf (eabs g).
Proof. intros W. eapply Re_awf, ewf_Re, W. Qed.

Lemma ewf_grep g : ewf g -> grep (e_val g) (eabs g).
Proof. destruct g; cbn; [apply dwf_grep|apply swf_grep]. Qed.

Lemma ewf_gwf g : ewf g -> gwf (e_val g).
Proof. intros W. exists (eabs g). split; [apply ewf_awf|apply ewf_grep]; exact W. Qed.

Lemma ewf_m g : ewf g -> e_m g = a_M (eabs g).
Proof. intros W. apply Re_m, ewf_Re, W. Qed.

(* ------------------------------------------------------------------ the four edits and Neighbours, either representation *)
Lemma e_neighbours_ok g a v : Re g a -> v < an a ->
  g_neighbours (e_val g) v = Some (a_neighbours a v).
Proof. destruct g; cbn; [apply d_neighbours_ok|apply s_neighbours_ok]. Qed.

Lemma e_add_edge_ok g a i j : Re g a -> i < an a -> j < an a ->
  exists g', e_add_edge g i j = Some g' /\ Re g' (a_add_edge a i j).
Proof.
  destruct g as [d|s]; cbn [Re e_add_edge]; intros R Hi Hj.
  - destruct (d_add_edge_ok d a i j R Hi Hj) as (d' & E & R'). exists (ED d'). rewrite E. auto.
  - destruct (s_add_edge_ok s a i j R Hi Hj) as (s' & E & R'). exists (ES s'). rewrite E. auto.
Qed.

Lemma e_remove_edge_ok g a i j : Re g a -> i < an a -> j < an a ->
  exists g', e_remove_edge g i j = Some g' /\ Re g' (a_remove_edge a i j).
Proof.
  destruct g as [d|s]; cbn [Re e_remove_edge]; intros R Hi Hj.
  - destruct (d_remove_edge_ok d a i j R Hi Hj) as (d' & E & R'). exists (ED d'). rewrite E. auto.
  - destruct (s_remove_edge_ok s a i j R Hi Hj) as (s' & E & R'). exists (ES s'). rewrite E. auto.
Qed.

Lemma e_add_vertex_ok g a nb : Re g a -> NoDup nb -> (forall x, In x nb -> x < an a) ->
  exists g', e_add_vertex g nb = Some g' /\ Re g' (a_add_vertex a nb).
Proof.
  destruct g as [d|s]; cbn [Re e_add_vertex]; intros R Hnd Hlt.
  - destruct (d_add_vertex_ok d a nb R Hnd Hlt) as (d' & E & R'). exists (ED d'). rewrite E. auto.
  - destruct (s_add_vertex_ok s a nb R Hnd Hlt) as (s' & E & R'). exists (ES s'). rewrite E. auto.
Qed.

Lemma e_remove_vertex_ok g a v : Re g a -> v < an a ->
  exists g', e_remove_vertex g v = Some g' /\ Re g' (a_remove_vertex a v).
Proof.
  destruct g as [d|s]; cbn [Re e_remove_vertex]; intros R Hv.
  - destruct (d_remove_vertex_ok d a v R Hv) as (d' & E & R'). exists (ED d'). rewrite E. auto.
  - destruct (s_remove_vertex_ok s a v R Hv) as (s' & E & R'). exists (ES s'). rewrite E. auto.
Qed.

(* ------------------------------------------------------------------ SplitEdge refines a_split *)
Theorem split_edge_Re g a i j : Re g a -> i < an a -> j < an a -> i <> j ->
  exists g', split_edge g i j = Some g' /\ Re g' (a_split a i j).
Proof.
  intros R Hi Hj Hne. unfold split_edge, a_split.
  destruct (Nat.eqb_spec i j); [contradiction|].
  destruct (e_remove_edge_ok g a i j R Hi Hj) as (g1 & E1 & R1). rewrite E1.
  apply e_add_vertex_ok; [exact R1| |].
  - constructor; [intros [H|[]]; auto|]. constructor; [intros []|constructor].
  - intros x [<-|[<-|[]]]; cbn [an a_remove_edge]; assumption.
Qed.

(* SplitEdge(g, i, i) panics ("Multiedges are not supported") *)
Lemma split_edge_same g i : split_edge g i i = None.
Proof. unfold split_edge. rewrite Nat.eqb_refl. reflexivity. Qed.

(* ------------------------------------------------------------------ Contract refines a_contract *)
Lemma e_add_star vs : forall g a i, Re g a -> i < an a -> (forall v, In v vs -> v < an a) ->
  exists g', foldM (fun g v => e_add_edge g i v) vs g = Some g' /\
             Re g' (fold_left (fun b v => a_add_edge b i v) vs a).
Proof.
  induction vs as [|v t IH]; intros g a i R Hi Hv; cbn [foldM fold_left].
  - exists g. auto.
  - destruct (e_add_edge_ok g a i v R Hi) as (g1 & E1 & R1); [apply Hv; left; reflexivity|].
    rewrite E1. apply IH; [exact R1|exact Hi|]. intros u Hu. cbn [an a_add_edge]. apply Hv. right. exact Hu.
Qed.

Theorem contract_Re g a i j : Re g a -> i < an a -> j < an a ->
  exists g', contract g i j = Some g' /\ Re g' (a_contract a i j).
Proof.
  intros R Hi Hj. pose proof (Re_awf g a R) as W. unfold contract, a_contract.
  rewrite (e_neighbours_ok g a j R Hj).
  assert (Hnb : forall v, In v (a_neighbours a j) -> v < an a).
  { intros v Hv. apply (a_neighbours_in a j v W) in Hv. eapply awf_dom2; eauto. }
  destruct (e_add_star (a_neighbours a j) g a i R Hi Hnb) as (g1 & E1 & R1). rewrite E1.
  apply e_remove_vertex_ok; [exact R1|].
  destruct (add_star a i (a_neighbours a j) W Hi Hnb) as (_ & N & _). unfold astar in N.
  rewrite N. exact Hj.
Qed.

(* ------------------------------------------------------------------ the full statements on the struct invariants *)
(* SplitEdge(g, i, j), i <> j in range, g a well-formed DenseGraph or SparseGraph: no panic; the
   result is well formed (N, M, Degrees, Neighbours, IsEdge are those of one symmetric loop-free
   adjacency), has one more vertex n; among the old vertices exactly the pair ij is lost; the new
   vertex is adjacent to i and j only; M grows by 2, or by 1 when ij was an edge. *)
Theorem split_edge_full g i j : ewf g -> i < e_n g -> j < e_n g -> i <> j ->
  exists g', split_edge g i j = Some g' /\ ewf g' /\ gwf (e_val g') /\
    e_n g' = S (e_n g) /\
    (forall x y, x < e_n g -> y < e_n g -> eadj g' x y = eadj g x y && negb (pairb x y i j)) /\
    (forall x, x < e_n g -> eadj g' x (e_n g) = (x =? i) || (x =? j)) /\
    (forall x, x < e_n g -> eadj g' (e_n g) x = (x =? i) || (x =? j)) /\
    (forall x, eadj g' x x = false) /\
    e_m g' = (e_m g + (if eadj g i j then 1 else 2))%Z.
Proof.
  intros W Hi Hj Hne. pose proof (ewf_Re g W) as R. pose proof (ewf_awf g W) as Wa.
  unfold e_n in Hi, Hj.
  destruct (split_edge_Re g (eabs g) i j R Hi Hj Hne) as (g' & E & R').
  destruct (Re_ewf g' _ R') as (W' & [En Ea]).
  destruct (split_awf (eabs g) i j Wa Hi Hj Hne) as (Ws & Ns & A1 & A2).
  exists g'. split; [exact E|]. split; [exact W'|]. split; [apply ewf_gwf; exact W'|].
  unfold e_n, eadj. split; [rewrite En; exact Ns|]. split; [|split; [|split; [|split]]].
  - intros x y Hx Hy. rewrite Ea. apply A1; auto.
  - intros x Hx. rewrite Ea. apply A2; auto.
  - intros x Hx. rewrite Ea, (awf_sym _ Ws). apply A2; auto.
  - intros x. rewrite Ea. apply (awf_irr _ Ws).
  - rewrite (Re_m g' _ R'), (ewf_m g W). unfold a_split.
    rewrite M_add_vertex.
    + cbn [length]. destruct (adj (eabs g) i j) eqn:Eij.
      * rewrite M_remove_edge by auto. lia.
      * rewrite (aeq_M _ _ (aeq_remove_edge_absent _ i j Wa Eij)). lia.
    + apply awf_remove_edge. exact Wa.
    + constructor; [intros [H|[]]; auto|]. constructor; [intros []|constructor].
    + intros x [<-|[<-|[]]]; cbn [an a_remove_edge]; assumption.
Qed.

(* Contract(g, i, j), i and j in range (equal or not, adjacent or not): no panic; the result is
   well formed, has one vertex less; new index x stands for old vertex [up j x] (indices above j
   move down by one); two vertices are adjacent iff they were, or one of them is i and the other
   was a neighbour of j; no loop at i (also when ij was an edge). *)
Theorem contract_full g i j : ewf g -> i < e_n g -> j < e_n g ->
  exists g', contract g i j = Some g' /\ ewf g' /\ gwf (e_val g') /\
    e_n g' = e_n g - 1 /\
    (forall x y, x < e_n g - 1 -> y < e_n g - 1 ->
       eadj g' x y =
         let x' := up j x in let y' := up j y in
         eadj g x' y' || (negb (x' =? y') && (((x' =? i) && eadj g j y') || ((y' =? i) && eadj g j x')))) /\
    (forall x, eadj g' x x = false).
Proof.
  intros W Hi Hj. pose proof (ewf_Re g W) as R. pose proof (ewf_awf g W) as Wa.
  unfold e_n in Hi, Hj.
  destruct (contract_Re g (eabs g) i j R Hi Hj) as (g' & E & R').
  destruct (Re_ewf g' _ R') as (W' & [En Ea]).
  destruct (contract_awf (eabs g) i j Wa Hi Hj) as (Wc & Nc & Ac).
  exists g'. split; [exact E|]. split; [exact W'|]. split; [apply ewf_gwf; exact W'|].
  unfold e_n, eadj. split; [rewrite En; exact Nc|]. split.
  - intros x y Hx Hy. rewrite Ea. apply Ac; auto.
  - intros x. rewrite Ea. apply (awf_irr _ Wc).
Qed.

(* the same adjacency read from the side of the surviving vertex: for i <> j the merged vertex
   sits at index i (if i < j) or i - 1 (if i > j); it is adjacent to exactly the other vertices
   that were adjacent to i or to j; all other pairs keep their adjacency *)
Definition down (j x : nat) : nat := if x <? j then x else x - 1.

Lemma up_down j x : x <> j -> up j (down j x) = x.
Proof.
  intros H. unfold up, down. destruct (Nat.ltb_spec x j).
  - destruct (Nat.ltb_spec x j); lia.
  - destruct (Nat.ltb_spec (x - 1) j); lia.
Qed.

Lemma up_ne j x : up j x <> j.
Proof. unfold up. destruct (Nat.ltb_spec x j); lia. Qed.

Lemma up_inj j x y : up j x = up j y -> x = y.
Proof. unfold up. destruct (Nat.ltb_spec x j), (Nat.ltb_spec y j); lia. Qed.

Theorem contract_survivor g i j : ewf g -> i < e_n g -> j < e_n g -> i <> j ->
  exists g', contract g i j = Some g' /\ ewf g' /\ e_n g' = e_n g - 1 /\
    let i' := down j i in
    i' < e_n g - 1 /\
    (forall y, y < e_n g - 1 -> y <> i' ->
       eadj g' i' y = eadj g i (up j y) || eadj g j (up j y)) /\
    (forall x y, x < e_n g - 1 -> y < e_n g - 1 -> x <> i' -> y <> i' ->
       eadj g' x y = eadj g (up j x) (up j y)).
Proof.
  intros W Hi Hj Hne.
  destruct (contract_full g i j W Hi Hj) as (g' & E & W' & _ & N & A & _).
  exists g'. split; [exact E|]. split; [exact W'|]. split; [exact N|]. cbv zeta.
  assert (Hi' : down j i < e_n g - 1) by (unfold down; destruct (Nat.ltb_spec i j); lia).
  split; [exact Hi'|]. split.
  - intros y Hy Hyi. rewrite A by auto. cbv zeta. rewrite (up_down j i Hne).
    rewrite Nat.eqb_refl. cbn [andb].
    assert (Hu : up j y <> i).
    { intros H. apply Hyi. apply (up_inj j). rewrite up_down; auto. }
    destruct (Nat.eqb_spec i (up j y)); [congruence|].
    destruct (Nat.eqb_spec (up j y) i); [congruence|]. cbn [negb andb]. rewrite orb_false_r. reflexivity.
  - intros x y Hx Hy Hxi Hyi. rewrite A by auto. cbv zeta.
    assert (Hux : up j x <> i).
    { intros H. apply Hxi. apply (up_inj j). rewrite up_down; auto. }
    assert (Huy : up j y <> i).
    { intros H. apply Hyi. apply (up_inj j). rewrite up_down; auto. }
    destruct (Nat.eqb_spec (up j x) i); [congruence|].
    destruct (Nat.eqb_spec (up j y) i); [congruence|].
    cbn [andb orb]. rewrite andb_false_r, orb_false_r. reflexivity.
Qed.

(* the struct invariants are exactly C05's refinement relations to the encoded graph *)
Theorem Re_iff g a : Re g a <-> ewf g /\ aeq (eabs g) a.
Proof.
  split; [apply Re_ewf|]. intros [W E].
  destruct g; cbn [Re]; [eapply Rd_ext|eapply Rs_ext]; try exact E;
    [apply dwf_Rd|apply swf_Rs]; exact W.
Qed.
