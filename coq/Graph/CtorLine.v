(* C06: LineGraphDense over any well-formed value of the Graph interface never panics (every
   cell it writes lies inside the triangle of M vertices, because the running edge index stays
   below M) and returns a well-formed graph on M vertices; RookGraph likewise.
   The adjacency of the result (edges sharing an endpoint, in the order 01 02 12 03 ...) is
   tied to the code by the correspondence runs only. *)
From Coq Require Import List ZArith Arith Bool Lia.
From Mamba Require Import Graph.Model Graph.Tri Graph.Lists Graph.Abstract Graph.CtorModel Graph.CtorSpec
  Graph.CtorDense Graph.CtorFill Graph.CtorPartite.
Import ListNotations.

(* ------------------------------------------------------------------ counting the edges met so far *)
Definition erow (a : agraph) (y c : nat) : nat := length (filter (fun x => adj a x y) (seq 0 c)).

Definition ebelow (a : agraph) (j i : nat) : nat :=
  list_sum (map (fun y => erow a y y) (seq 0 j)) + erow a j i.

Lemma erow_S a y c : erow a y (S c) = erow a y c + (if adj a c y then 1 else 0).
Proof.
  unfold erow. rewrite seq_S, filter_app, app_length. cbn [filter Nat.add].
  destruct (adj a c y); reflexivity.
Qed.

Lemma erow_mono a y c c' : c <= c' -> erow a y c <= erow a y c'.
Proof.
  intros H. induction H as [|c' H IH]; [apply Nat.le_refl|]. rewrite erow_S. destruct (adj a c' y); lia.
Qed.

Lemma ebelow_row_end a j : ebelow a j j = ebelow a (S j) 0.
Proof.
  unfold ebelow. rewrite seq_S, map_app, list_sum_app.
  assert (E0 : erow a (S j) 0 = 0) by reflexivity. rewrite E0.
  assert (E1 : list_sum (map (fun y => erow a y y) [0 + j]) = erow a j j) by (cbn [map Nat.add]; rewrite list_sum_cons, list_sum_nil; lia). rewrite E1. lia.
Qed.

Lemma ebelow_step a j i : ebelow a j (S i) = ebelow a j i + (if adj a i j then 1 else 0).
Proof. unfold ebelow. rewrite erow_S. destruct (adj a i j); lia. Qed.

Lemma ebelow_total_ge a n j i : j < n -> i <= j -> ebelow a j i <= ebelow a n 0.
Proof.
  intros Hj Hi. unfold ebelow. replace n with (j + S (n - S j)) by lia.
  rewrite seq_app, map_app, list_sum_app. cbn [seq map]. rewrite list_sum_cons.
  assert (E0 : erow a (j + S (n - S j)) 0 = 0) by reflexivity. rewrite E0.
  pose proof (erow_mono a j i j Hi). cbn [Nat.add]. lia.
Qed.

Lemma list_sum_zsum (f : nat -> nat) n :
  Z.of_nat (list_sum (map f (seq 0 n))) = zsum (fun y => Z.of_nat (f y)) n.
Proof.
  induction n; [reflexivity|]. rewrite seq_S, map_app, list_sum_app. cbn [map list_sum fold_right zsum Nat.add].
  rewrite Nat2Z.inj_add, IHn. lia.
Qed.

Lemma ebelow_total a : Z.of_nat (ebelow a (an a) 0) = a_M a.
Proof.
  unfold ebelow, a_M. assert (E0 : erow a (an a) 0 = 0) by reflexivity. rewrite E0, Nat.add_0_r, list_sum_zsum.
  apply zsum_ext. intros j _. unfold erow. apply length_filter_zsum.
Qed.

(* ------------------------------------------------------------------ the three inner loops stay inside the triangle *)
Section Loops.
  Variables (m mIndex : nat).
  Hypothesis Hm : mIndex < m.

  Lemma line_lower_ok i lower e : length lower <= mIndex -> length e = tri m ->
    exists e', line_lower i mIndex lower e = Some e' /\ length e' = tri m.
  Proof.
    intros Hl. unfold line_lower.
    assert (Hk : forall kv, In kv (combine (seq 0 (length lower)) lower) -> fst kv < mIndex).
    { intros [k v] H. apply in_combine_l in H. apply in_seq in H. cbn. lia. }
    revert e Hk. generalize (combine (seq 0 (length lower)) lower) as kvs.
    induction kvs as [|kv t IH]; intros e Hk Le; cbn [foldM]; [eauto|].
    assert (fst kv < mIndex) by (apply Hk; left; auto).
    destruct (i =? snd kv).
    - rewrite set_nth_some by (rewrite Le; apply tri_bound; lia).
      apply IH; [intros; apply Hk; right; auto|rewrite upd_length; auto].
    - apply IH; [intros; apply Hk; right; auto|auto].
  Qed.

  Lemma line_upper_ok i kvs : forall e, (forall kv, In kv kvs -> fst kv < mIndex) -> length e = tri m ->
    exists e', line_upper i mIndex kvs e = Some e' /\ length e' = tri m.
  Proof.
    induction kvs as [|[k v] t IH]; intros e Hk Le; cbn [line_upper]; [eauto|].
    assert (k < mIndex) by (apply (Hk (k, v)); left; auto).
    destruct (i =? v).
    - rewrite set_nth_some by (rewrite Le; apply tri_bound; lia).
      apply IH; [intros; apply Hk; right; auto|rewrite upd_length; auto].
    - destruct (i <? v); [eauto|]. apply IH; [intros; apply Hk; right; auto|auto].
  Qed.

  Lemma line_back_ok j kvs : forall e, (forall kv, In kv kvs -> fst kv < mIndex) -> length e = tri m ->
    exists e', line_back j mIndex kvs e = Some e' /\ length e' = tri m.
  Proof.
    induction kvs as [|[k v] t IH]; intros e Hk Le; cbn [line_back]; [eauto|].
    assert (k < mIndex) by (apply (Hk (k, v)); left; auto).
    destruct (v =? j); [|eauto].
    rewrite set_nth_some by (rewrite Le; apply tri_bound; lia).
    apply IH; [intros; apply Hk; right; auto|rewrite upd_length; auto].
  Qed.
End Loops.

(* ------------------------------------------------------------------ the main loop *)
Definition linv (a : agraph) (m j i : nat) (st : list Z * list nat * list nat * nat) : Prop :=
  let '(e, lower, upper, mIndex) := st in
  length e = tri m /\ length lower = mIndex /\ length upper = mIndex /\ mIndex = ebelow a j i.

Lemma line_cell_ok g a m j i st : grep g a -> m = ebelow a (an a) 0 -> i < j -> j < an a ->
  linv a m j i st -> exists st', line_cell g j st i = Some st' /\ linv a m j (S i) st'.
Proof.
  intros R Hm Hi Hj. destruct st as [[[e lower] upper] mIndex]. intros (Le & Ll & Lu & Hx).
  unfold line_cell. rewrite (gr_edge g a R) by lia.
  pose proof (ebelow_step a j i) as Hs. pose proof (ebelow_total_ge a (an a) j (S i) Hj ltac:(lia)) as Ht.
  destruct (adj a i j) eqn:Ea.
  - assert (Hlt : mIndex < m) by lia.
    destruct (line_lower_ok m mIndex Hlt i lower e ltac:(lia) Le) as (e1 & E1 & L1). rewrite E1.
    assert (Hkv : forall kv, In kv (combine (seq 0 (length upper)) upper) -> fst kv < mIndex).
    { intros [k v] H. apply in_combine_l in H. apply in_seq in H. cbn. lia. }
    destruct (line_upper_ok m mIndex Hlt i _ e1 Hkv L1) as (e2 & E2 & L2). rewrite E2.
    destruct (line_back_ok m mIndex Hlt j (rev (combine (seq 0 (length upper)) upper)) e2) as (e3 & E3 & L3); auto.
    { intros kv H. apply in_rev in H. auto. }
    rewrite E3. eexists. split; [reflexivity|]. unfold linv. rewrite !app_length. cbn [length]. lia.
  - eexists. split; [reflexivity|]. unfold linv. lia.
Qed.

Theorem line_graph_ok g a : awf a -> grep g a ->
  exists h, line_graph g = Some h /\ dwf h /\ Z.of_nat (dn h) = a_M a.
Proof.
  intros W R. unfold line_graph. rewrite (gr_M g a R), (gr_N g a R).
  pose proof (ebelow_total a) as Ht. set (m := ebelow a (an a) 0) in *.
  destruct (Z.ltb_spec (a_M a) 0); [lia|].
  replace (Z.to_nat (a_M a)) with m by lia.
  destruct (foldM_seq_inv (fun j st => linv a m j 0 st)
              (fun st j => foldM (line_cell g j) (seq 0 j) st) (an a) 0 (zeros (tri m), [], [], 0))
    as ([[[e lower] upper] mIndex] & E & (Le & _)).
  - unfold linv. split; [apply repeat_length|]. repeat split.
  - intros j st [_ Hj] HI. cbn in Hj.
    destruct (foldM_seq_inv (fun i st => linv a m j i st) (line_cell g j) j 0 st) as (st' & E' & HI').
    + exact HI.
    + intros i s [_ Hi] HK. cbn in Hi. apply (line_cell_ok g a m j i s); auto.
    + exists st'. split; [exact E'|]. destruct st' as [[[e' lo'] up'] mI']. unfold linv in *.
      cbn [Nat.add] in HI'. rewrite <- ebelow_row_end. exact HI'.
  - rewrite E. destruct (new_dense_ok m e Le) as (h & Eh & Wh & Nh & _).
    exists h. split; [exact Eh|]. split; [exact Wh|]. rewrite Nh. exact Ht.
Qed.

(* RookGraph(n, m) = LineGraphDense(CompletePartiteGraph(n, m)): no panic, well formed *)
Theorem rook_wf n m : exists h, rook n m = Some h /\ dwf h.
Proof.
  unfold rook. destruct (complete_partite_ok [n; m]) as (g & E & W & _). rewrite E.
  destruct (line_graph_ok (GD g) (dabs g) (awf_dabs g) (dwf_grep g W)) as (h & Eh & Wh & _).
  exists h. auto.
Qed.
