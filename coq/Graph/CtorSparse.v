(* C06: NewSparse(n, neighbourhoods) for every symmetric, loop-free, in-range family of
   neighbour lists (in any order, with repeats): the result is well formed and x ~ y exactly
   when y is in the list of x.  A SparseGraph under its struct invariant shows its abstract
   graph through every observer. *)
From Coq Require Import List ZArith Arith Bool Lia Sorted.
From Mamba Require Import Graph.Model Graph.Tri Graph.Lists Graph.Abstract Graph.CtorModel Graph.CtorSpec
  Graph.CtorDense Graph.CtorViews.
Import ListNotations.

(* ------------------------------------------------------------------ sorted lists *)
Lemma sorted_lt_ext l1 : forall l2, StronglySorted lt l1 -> StronglySorted lt l2 ->
  (forall x, In x l1 <-> In x l2) -> l1 = l2.
Proof.
  induction l1 as [|h1 t1 IH]; intros l2 S1 S2 H.
  - destruct l2 as [|h2 t2]; [reflexivity|]. exfalso. apply (H h2). left. auto.
  - destruct l2 as [|h2 t2]; [exfalso; apply (H h1); left; auto|].
    inversion S1 as [|? ? S1' F1]; inversion S2 as [|? ? S2' F2]; subst.
    rewrite Forall_forall in F1, F2.
    assert (h1 = h2).
    { destruct (proj1 (H h1) (or_introl eq_refl)) as [E|E]; [auto|].
      destruct (proj2 (H h2) (or_introl eq_refl)) as [E'|E']; [auto|].
      apply F2 in E. apply F1 in E'. lia. }
    subst. f_equal. apply IH; auto. intros x. split; intros Hx.
    + destruct (proj1 (H x) (or_intror Hx)) as [E|E]; [|auto]. subst. apply F1 in Hx. lia.
    + destruct (proj2 (H x) (or_intror Hx)) as [E|E]; [|auto]. subst. apply F2 in Hx. lia.
Qed.

Lemma contains_sorted l x : StronglySorted lt l -> contains l x = mem x l.
Proof.
  induction 1 as [|h t Hs IH Hf]; [reflexivity|]. rewrite Forall_forall in Hf.
  unfold contains, mem in *. cbn [search existsb].
  destruct (Nat.leb_spec x h).
  - cbn [nth_error]. rewrite (Nat.eqb_sym h x).
    destruct (Nat.eqb_spec x h); [reflexivity|]. cbn [orb]. symmetry.
    destruct (existsb (Nat.eqb x) t) eqn:E; [|reflexivity].
    apply existsb_exists in E. destruct E as (y & Hy & Ey). apply Nat.eqb_eq in Ey. subst.
    apply Hf in Hy. lia.
  - cbn [nth_error]. destruct (Nat.eqb_spec x h); [lia|]. cbn [orb]. exact IH.
Qed.

Lemma insert_sorted_in x l y : In y (insert_sorted x l) <-> y = x \/ In y l.
Proof.
  induction l as [|h t IH]; cbn [insert_sorted].
  - cbn. intuition auto.
  - destruct (x <=? h); cbn [In]; [intuition auto|]. rewrite IH. intuition auto.
Qed.

Lemma insert_sorted_sorted x l : StronglySorted le l -> StronglySorted le (insert_sorted x l).
Proof.
  induction 1 as [|h t Hs IH Hf]; cbn [insert_sorted]; [repeat constructor|].
  rewrite Forall_forall in Hf.
  destruct (Nat.leb_spec x h).
  - constructor; [constructor; auto; apply Forall_forall; auto|].
    apply Forall_forall. intros y [<-|Hy]; [auto|]. apply Hf in Hy. lia.
  - constructor; auto. apply Forall_forall. intros y Hy. apply insert_sorted_in in Hy.
    destruct Hy as [->|Hy]; [lia|auto].
Qed.

Lemma sort_ints_in l y : In y (sort_ints l) <-> In y l.
Proof.
  induction l; cbn [sort_ints fold_right]; [reflexivity|].
  change (fold_right insert_sorted [] l) with (sort_ints l). rewrite insert_sorted_in, IHl.
  cbn. intuition auto.
Qed.

Lemma sort_ints_sorted l : StronglySorted le (sort_ints l).
Proof.
  induction l; cbn [sort_ints fold_right]; [constructor|]. apply insert_sorted_sorted. exact IHl.
Qed.

Lemma dedupe_sorted l : StronglySorted le l ->
  StronglySorted lt (dedupe l) /\ forall z, In z (dedupe l) <-> In z l.
Proof.
  induction 1 as [|x t Hs IH Hf]; [split; [constructor|reflexivity]|].
  destruct IH as [IH1 IH2]. rewrite Forall_forall in Hf.
  destruct t as [|y t']; [cbn; split; [repeat constructor|reflexivity]|].
  cbn [dedupe]. fold (dedupe (y :: t')).
  destruct (Nat.eqb_spec x y) as [->|Hne].
  - split; [exact IH1|]. intros z. rewrite IH2. cbn. intuition auto.
  - split.
    + constructor; [exact IH1|]. apply Forall_forall. intros z Hz. apply IH2 in Hz.
      inversion Hs as [|? ? _ Fy]; subst. rewrite Forall_forall in Fy.
      assert (x <= y) by (apply Hf; left; auto).
      destruct Hz as [<-|Hz]; [lia|]. apply Fy in Hz. lia.
    + intros z. cbn [In]. rewrite IH2. reflexivity.
Qed.

Lemma new_sorted_ints_sorted l : StronglySorted lt (new_sorted_ints l).
Proof. apply dedupe_sorted. apply sort_ints_sorted. Qed.

Lemma new_sorted_ints_in l y : In y (new_sorted_ints l) <-> In y l.
Proof.
  unfold new_sorted_ints. rewrite (proj2 (dedupe_sorted _ (sort_ints_sorted l))). apply sort_ints_in.
Qed.

(* ------------------------------------------------------------------ the abstract graph of a SparseGraph *)
Definition sadj (g : sparse) (x y : nat) : bool := (x <? sn g) && mem y (nth x (snbr g) []).
Definition sabs (g : sparse) : agraph := mkA (sn g) (sadj g).

Record swf (g : sparse) : Prop := mkSwf {
  swf_len : length (snbr g) = sn g;
  swf_sorted : forall x, x < sn g -> StronglySorted lt (nth x (snbr g) []);
  swf_graph : awf (sabs g);
  swf_deg : sdeg g = map (fun l => Z.of_nat (length l)) (snbr g);
  swf_m : sm g = a_M (sabs g) }.

Lemma sabs_neighbours g v : swf g -> v < sn g -> a_neighbours (sabs g) v = nth v (snbr g) [].
Proof.
  intros W Hv. symmetry. apply sorted_lt_ext.
  - apply (swf_sorted g W). auto.
  - apply sorted_filter, sorted_seq.
  - intros x. rewrite (a_neighbours_in _ _ _ (swf_graph g W)). cbn [adj sabs]. unfold sadj.
    destruct (Nat.ltb_spec v (sn g)); [|lia]. cbn [andb]. rewrite mem_true. reflexivity.
Qed.

Lemma nth_map_length (l : list (list nat)) v :
  v < length l -> nth v (map (fun l => Z.of_nat (length l)) l) 0%Z = Z.of_nat (length (nth v l [])).
Proof.
  intros H. rewrite (nth_indep _ 0%Z (Z.of_nat (length (@nil nat)))) by (rewrite map_length; auto).
  apply (map_nth (fun l : list nat => Z.of_nat (length l))).
Qed.

Lemma swf_degrees g : swf g -> sdeg g = a_degrees (sabs g).
Proof.
  intros W. rewrite (swf_deg g W). apply list_eq_map_seq.
  - rewrite map_length. apply (swf_len g W).
  - intros v Hv. cbn [an sabs] in Hv. rewrite nth_map_length by (rewrite (swf_len g W); auto).
    rewrite a_deg_neighbours, sabs_neighbours by auto. reflexivity.
Qed.

Theorem swf_grep g : swf g -> grep (GS g) (sabs g).
Proof.
  intros W. pose proof (swf_degrees g W) as Hd.
  constructor; cbn [g_N g_M g_degrees g_neighbours g_is_edge an sabs].
  - reflexivity.
  - unfold s_M. rewrite (swf_m g W). reflexivity.
  - unfold s_degrees. rewrite Hd. reflexivity.
  - intros v Hv. unfold s_neighbours. rewrite sabs_neighbours by auto.
    apply nth_error_nth_lt. rewrite (swf_len g W). auto.
  - intros i j Hi Hj. unfold s_is_edge.
    assert (Li : i < length (sdeg g)) by (rewrite Hd, a_degrees_length; auto).
    assert (Lj : j < length (sdeg g)) by (rewrite Hd, a_degrees_length; auto).
    rewrite (nth_error_nth_lt _ _ 0%Z Li), (nth_error_nth_lt _ _ 0%Z Lj).
    rewrite (nth_error_nth_lt (snbr g) i []) by (rewrite (swf_len g W); auto).
    rewrite (nth_error_nth_lt (snbr g) j []) by (rewrite (swf_len g W); auto).
    rewrite !contains_sorted by (apply (swf_sorted g W); auto).
    assert (Ei : mem j (nth i (snbr g) []) = sadj g i j).
    { unfold sadj. destruct (Nat.ltb_spec i (sn g)); [reflexivity|lia]. }
    assert (Ej : mem i (nth j (snbr g) []) = sadj g j i).
    { unfold sadj. destruct (Nat.ltb_spec j (sn g)); [reflexivity|lia]. }
    rewrite Ei, Ej. pose proof (awf_sym _ (swf_graph g W) i j) as Hs. cbn [adj sabs] in Hs.
    cbn [adj sabs]. destruct (_ <? _)%Z; [reflexivity|]. rewrite Hs. reflexivity.
Qed.

Corollary swf_gwf g : swf g -> gwf (GS g).
Proof. intros W. exists (sabs g). split; [apply (swf_graph g W) | apply swf_grep; auto]. Qed.

(* ------------------------------------------------------------------ NewSparse *)
Lemma zlist_sum_map_seq (f : nat -> Z) n : zlist_sum (map f (seq 0 n)) = zsum f n.
Proof.
  induction n; [reflexivity|]. rewrite seq_S, map_app. cbn [zsum].
  unfold zlist_sum in *. rewrite fold_right_app. cbn [map fold_right Nat.add].
  rewrite <- IHn. generalize (map f (seq 0 n)). intros l.
  induction l; cbn [fold_right]; lia.
Qed.

(* the neighbour lists describe a simple graph on n vertices *)
Definition nbrs_valid (n : nat) (nb : list (list nat)) : Prop :=
  length nb = n /\
  forall x y, x < n -> In y (nth x nb []) -> y < n /\ y <> x /\ In x (nth y nb []).

Theorem new_sparse_ok n nb : nbrs_valid n nb ->
  exists g, new_sparse n (Some nb) = Some g /\ swf g /\ sn g = n /\
    forall x y, x < n -> adj (sabs g) x y = mem y (nth x nb []).
Proof.
  intros [Hl Hv]. unfold new_sparse. rewrite Hl, Nat.eqb_refl.
  eexists. split; [reflexivity|].
  set (tmp := map new_sorted_ints nb).
  set (g := mkSparse n _ tmp _).
  assert (Ht : forall x, nth x tmp [] = new_sorted_ints (nth x nb [])).
  { intros x. unfold tmp. change (@nil nat) with (new_sorted_ints []) at 1. apply map_nth. }
  assert (Ha : forall x y, x < n -> sadj g x y = mem y (nth x nb [])).
  { intros x y Hx. unfold sadj. cbn [sn snbr g]. destruct (Nat.ltb_spec x n); [|lia]. cbn [andb].
    rewrite Ht. apply eq_iff_eq_true. rewrite !mem_true. apply new_sorted_ints_in. }
  assert (Wa : awf (sabs g)).
  { constructor; cbn [adj an sabs].
    - intros x y. unfold sadj. cbn [sn snbr g]. rewrite !Ht.
      apply eq_iff_eq_true. rewrite !andb_true_iff, !mem_true, !new_sorted_ints_in, !Nat.ltb_lt.
      split; intros [H1 H2]; destruct (Hv _ _ H1 H2) as (H3 & _ & H4); auto.
    - intros x. unfold sadj. cbn [sn snbr g]. rewrite Ht.
      destruct (Nat.ltb_spec x n); [|reflexivity]. cbn [andb].
      destruct (mem x (new_sorted_ints (nth x nb []))) eqn:E; [|reflexivity].
      apply mem_true in E. apply -> new_sorted_ints_in in E. destruct (Hv _ _ H E) as (_ & H2 & _). congruence.
    - intros x y H. unfold sadj in H. cbn [sn] in H. apply andb_true_iff in H. destruct H as [H _].
      apply Nat.ltb_lt. exact H. }
  assert (W0 : forall m, swf (mkSparse n m tmp (map (fun l => Z.of_nat (length l)) tmp)) ->
               True) by auto.
  split; [|split; [reflexivity|exact Ha]].
  assert (Wpre : forall x, x < n -> StronglySorted lt (nth x tmp [])).
  { intros x _. rewrite Ht. apply new_sorted_ints_sorted. }
  assert (Ltmp : length tmp = n) by (unfold tmp; rewrite map_length; auto).
  (* the degrees are the abstract degrees, so their sum is 2M *)
  assert (Hdeg : map (fun l => Z.of_nat (length l)) tmp = a_degrees (sabs g)).
  { apply list_eq_map_seq; [rewrite map_length; exact Ltmp|].
    intros v Hv'. cbn [an sabs sn g] in Hv'. rewrite nth_map_length by lia.
    rewrite a_deg_neighbours. f_equal. f_equal. apply sorted_lt_ext.
    - apply Wpre. auto.
    - apply sorted_filter, sorted_seq.
    - intros x. rewrite (a_neighbours_in _ _ _ Wa). cbn [adj sabs]. unfold sadj. cbn [sn snbr g].
      destruct (Nat.ltb_spec v n); [|lia]. cbn [andb]. rewrite mem_true. reflexivity. }
  constructor; cbn [sn sm snbr sdeg g].
  - exact Ltmp.
  - exact Wpre.
  - exact Wa.
  - reflexivity.
  - rewrite Hdeg. unfold a_degrees. rewrite zlist_sum_map_seq. cbn [an sabs sn g].
    pose proof (handshake _ Wa) as Hh. cbn [an sabs sn g] in Hh. rewrite Hh.
    rewrite Z.mul_comm, Z.div_mul by lia. reflexivity.
Qed.

Theorem new_sparse_nil n :
  exists g, new_sparse n None = Some g /\ swf g /\ sn g = n /\ forall x y, adj (sabs g) x y = false.
Proof.
  assert (Hn : forall x, nth x (repeat (@nil nat) n) [] = []).
  { intros x. apply nth_repeat. }
  destruct (new_sparse_ok n (repeat [] n)) as (g & E & W & N & A).
  - split; [apply repeat_length|]. intros x y Hx Hy. rewrite Hn in Hy. destruct Hy.
  - exists g. split; [exact E|]. split; [exact W|]. split; [exact N|].
    intros x y. destruct (Nat.lt_ge_cases x n).
    + rewrite A by auto. rewrite Hn. reflexivity.
    + apply awf_out; [apply (swf_graph g W)|]. cbn. lia.
Qed.
