(* DenseGraph refines the abstract graph: the relation Rd, the observers, AddEdge, RemoveEdge,
   Copy and AddVertex (both capacity branches).  RemoveVertex is in DenseRemove.v and
   InducedSubgraph in DenseInduced.v. *)
From Coq Require Import List ZArith Arith Bool Lia.
From Mamba Require Import Graph.Model Graph.Lists Graph.Tri Graph.Abstract.
Import ListNotations.

(* g represents a: cached counts in step, the slice is exactly the triangle of n inside the
   backing array, and the cell of every pair i<j<n is positive exactly when ij is an edge.
   Nothing is said about the backing array beyond the slice (the stale tail). *)
Record Rd (g : dense) (a : agraph) : Prop := mkRd {
  rd_wf : awf a;
  rd_n : dn g = an a;
  rd_m : dm g = a_M a;
  rd_deglen : length (ddeg g) = an a;
  rd_deg : forall v, v < an a -> nth v (ddeg g) 0%Z = a_deg a v;
  rd_len : dlen g = tri (an a);
  rd_cap : dlen g <= length (darr g);
  rd_cell : forall i j, i < j -> j < an a -> (0 <? nth (tri j + i) (darr g) 0)%Z = adj a i j }.

Lemma Rd_ext g a b : Rd g a -> aeq a b -> Rd g b.
Proof.
  intros R E. pose proof E as [E1 E2]. destruct R. constructor.
  - eapply aeq_awf; eauto.
  - congruence.
  - rewrite <- (aeq_M a b E). auto.
  - congruence.
  - intros v Hv. rewrite <- (aeq_deg a b v E). apply rd_deg0. lia.
  - congruence.
  - auto.
  - intros i j Hi Hj. rewrite <- E2. apply rd_cell0; auto. lia.
Qed.

(* ---------------------------------------------------------------- cells *)
Lemma d_get_some arr len k : k < len -> len <= length arr -> d_get arr len k = Some (nth k arr 0%Z).
Proof.
  intros H1 H2. unfold d_get. destruct (Nat.ltb_spec k len); [|lia].
  apply nth_error_nth_lt. lia.
Qed.

Lemma d_set_some arr len k b : k < len -> len <= length arr -> d_set arr len k b = Some (upd arr k b).
Proof.
  intros H1 H2. unfold d_set. destruct (Nat.ltb_spec k len); [|lia].
  apply set_nth_some. lia.
Qed.

Lemma Rd_in_slice g a i j : Rd g a -> i < j -> j < an a -> tri j + i < dlen g.
Proof. intros R Hi Hj. rewrite (rd_len g a R). apply tri_bound; auto. Qed.

Lemma z_pos_b2z b : (0 <? b2z b)%Z = b.
Proof. destruct b; reflexivity. Qed.

(* ---------------------------------------------------------------- observers *)
Lemma d_is_edge_ok g a i j : Rd g a -> d_is_edge g i j = Some (adj a i j).
Proof.
  intros R. pose proof (rd_wf g a R) as W. unfold d_is_edge. rewrite (rd_n g a R).
  destruct (Nat.leb_spec (an a) i); simpl.
  { rewrite awf_out; auto. }
  destruct (Nat.leb_spec (an a) j); simpl.
  { rewrite awf_out2; auto. }
  destruct (Nat.ltb_spec i j).
  - rewrite d_get_some; [| eapply Rd_in_slice; eauto | apply (rd_cap g a R)].
    rewrite (rd_cell g a R); auto.
  - destruct (Nat.ltb_spec j i).
    + rewrite d_get_some; [| eapply Rd_in_slice; eauto | apply (rd_cap g a R)].
      rewrite (rd_cell g a R); auto. rewrite (awf_sym a W). reflexivity.
    + assert (i = j) by lia. subst. rewrite (awf_irr a W). reflexivity.
Qed.

Lemma d_scan_filter g idx p vs :
  dlen g <= length (darr g) ->
  (forall x, In x vs -> idx x < dlen g /\ (0 <? nth (idx x) (darr g) 0)%Z = p x) ->
  d_scan g idx vs = Some (filter p vs).
Proof.
  intros Hc. induction vs as [|x t IH]; intros H; simpl; auto.
  destruct (H x) as [H1 H2]; [left; auto|].
  rewrite d_get_some by auto. rewrite IH by (intros; apply H; right; auto).
  rewrite H2. reflexivity.
Qed.

Lemma seq_split_at v n : v < n -> seq 0 n = seq 0 v ++ v :: seq (S v) (n - S v).
Proof.
  intros H. replace n with (v + S (n - S v)) at 1 by lia. rewrite seq_app. reflexivity.
Qed.

Lemma d_neighbours_ok g a v : Rd g a -> v < an a -> d_neighbours g v = Some (a_neighbours a v).
Proof.
  intros R Hv. pose proof (rd_wf g a R) as W. unfold d_neighbours.
  rewrite (nth_error_nth_lt _ _ 0%Z) by (rewrite (rd_deglen g a R); auto).
  rewrite (rd_deg g a R) by auto.
  pose proof (a_deg_range a v). destruct (Z.ltb_spec (a_deg a v) 0); [lia|].
  rewrite (d_scan_filter g _ (adj a v) (seq 0 v)); [| apply (rd_cap g a R) |].
  2:{ intros x Hx. apply in_seq in Hx. split; [eapply Rd_in_slice; eauto; lia|].
      rewrite (rd_cell g a R) by lia. apply (awf_sym a W). }
  rewrite (d_scan_filter g _ (adj a v) (seq (S v) (dn g - S v))); [| apply (rd_cap g a R) |].
  2:{ intros x Hx. apply in_seq in Hx. rewrite (rd_n g a R) in Hx.
      split; [eapply Rd_in_slice; eauto; lia|]. rewrite (rd_cell g a R) by lia. reflexivity. }
  unfold a_neighbours. rewrite (seq_split_at v (an a)) by auto.
  rewrite filter_app. simpl. rewrite (awf_irr a W), (rd_n g a R). reflexivity.
Qed.

Lemma d_degrees_ok g a : Rd g a -> d_degrees g = a_degrees a.
Proof.
  intros R. unfold d_degrees. apply list_Z_ext.
  - rewrite a_degrees_length. apply (rd_deglen g a R).
  - intros k Hk. rewrite (rd_deglen g a R) in Hk. rewrite a_degrees_nth by auto.
    apply (rd_deg g a R); auto.
Qed.

(* ---------------------------------------------------------------- the empty graph, Copy *)
Lemma a_deg_empty n v : a_deg (a_empty n) v = 0%Z.
Proof. unfold a_deg. simpl. apply zsum_zero. Qed.

Lemma a_M_empty n : a_M (a_empty n) = 0%Z.
Proof. unfold a_M. simpl. apply zsum_zero'. intros. apply zsum_zero. Qed.

Lemma Rd_empty n : Rd (d_empty n) (a_empty n).
Proof.
  constructor; simpl.
  - apply awf_empty.
  - reflexivity.
  - rewrite a_M_empty. reflexivity.
  - apply repeat_length.
  - intros. rewrite nth_repeat0, a_deg_empty. reflexivity.
  - reflexivity.
  - rewrite repeat_length. lia.
  - intros. rewrite nth_repeat0. reflexivity.
Qed.

Lemma Rd_copy g a : Rd g a -> Rd (d_copy g) a.
Proof.
  intros R. destruct R. constructor; simpl; auto.
  - rewrite firstn_length. lia.
  - intros i j Hi Hj. rewrite nth_firstn_lt; auto. rewrite rd_len0. apply tri_bound; auto.
Qed.

(* ---------------------------------------------------------------- two degree updates *)
Lemma modify2 l i j d : i < length l -> j < length l -> i <> j ->
  exists l1 l2, modify l i d = Some l1 /\ modify l1 j d = Some l2 /\ length l2 = length l /\
    forall v, nth v l2 0%Z = (nth v l 0 + d * ind v i + d * ind v j)%Z.
Proof.
  intros Hi Hj Hne. eexists. eexists. split; [apply modify_some; auto|].
  split; [apply modify_some; rewrite upd_length; auto|].
  split; [rewrite !upd_length; auto|].
  intros v. rewrite !nth_upd by (rewrite ?upd_length; auto). unfold ind.
  destruct (Nat.eqb_spec v j), (Nat.eqb_spec j i), (Nat.eqb_spec v i); subst; simpl; try lia.
Qed.

(* ---------------------------------------------------------------- AddEdge *)
Lemma Rd_add_edge_gen g a i j deg' : Rd g a -> i < j -> j < an a -> adj a i j = false ->
  length deg' = an a ->
  (forall v, v < an a -> nth v deg' 0%Z = (nth v (ddeg g) 0 + ind v i + ind v j)%Z) ->
  Rd (mkDense (dn g) (dm g + 1) deg' (upd (darr g) (tri j + i) 1%Z) (dlen g)) (a_add_edge a i j).
Proof.
  intros R Hi Hj He Hl Hd. pose proof (rd_wf g a R) as W.
  assert (Hin : tri j + i < length (darr g)).
  { pose proof (Rd_in_slice g a i j R Hi Hj). pose proof (rd_cap g a R). lia. }
  constructor; simpl.
  - apply awf_add_edge; auto; lia.
  - apply (rd_n g a R).
  - rewrite M_add_edge by (auto; lia). rewrite (rd_m g a R). reflexivity.
  - auto.
  - intros v Hv. rewrite Hd, (rd_deg g a R), deg_add_edge by (auto; lia). reflexivity.
  - apply (rd_len g a R).
  - rewrite upd_length. apply (rd_cap g a R).
  - intros x y Hx Hy. rewrite nth_upd by auto.
    destruct (Nat.eqb_spec (tri y + x) (tri j + i)) as [E|E].
    + apply tri_inj in E; auto. destruct E; subst. rewrite !Nat.eqb_refl.
      destruct (Nat.eqb_spec i j); [lia|]. simpl. rewrite orb_true_r. reflexivity.
    + rewrite (rd_cell g a R) by auto.
      destruct (Nat.eqb_spec x i), (Nat.eqb_spec y j), (Nat.eqb_spec x j), (Nat.eqb_spec y i);
        subst; simpl; rewrite ?andb_false_r, ?orb_false_r; auto; try lia; congruence.
Qed.

Lemma d_add_edge_ok g a i j : Rd g a -> i < an a -> j < an a ->
  exists g', d_add_edge g i j = Some g' /\ Rd g' (a_add_edge a i j).
Proof.
  intros R Hi Hj. pose proof (rd_wf g a R) as W. unfold d_add_edge.
  destruct (Nat.eqb_spec i j) as [->|Hne].
  { exists g. split; auto. eapply Rd_ext; eauto. apply aeq_sym, aeq_add_edge_same. }
  rewrite (d_is_edge_ok g a) by auto.
  destruct (adj a i j) eqn:He.
  { exists g. split; auto. eapply Rd_ext; eauto. apply aeq_sym, aeq_add_edge_present; auto. }
  destruct (modify2 (ddeg g) i j 1) as (l1 & l2 & E1 & E2 & Hl & Hn);
    rewrite ?(rd_deglen g a R); auto.
  rewrite E1, E2.
  assert (Hn' : forall v, nth v l2 0%Z = (nth v (ddeg g) 0 + ind v i + ind v j)%Z)
    by (intros; rewrite Hn; lia).
  destruct (Nat.ltb_spec i j).
  - rewrite d_set_some; [| eapply Rd_in_slice; eauto | apply (rd_cap g a R)].
    eexists. split; [reflexivity|]. apply Rd_add_edge_gen; auto.
    rewrite Hl. apply (rd_deglen g a R).
  - assert (j < i) by lia.
    rewrite d_set_some; [| eapply Rd_in_slice; eauto | apply (rd_cap g a R)].
    eexists. split; [reflexivity|].
    apply Rd_ext with (a := a_add_edge a j i); [|apply aeq_add_edge_comm].
    apply Rd_add_edge_gen; auto.
    + rewrite (awf_sym a W). auto.
    + rewrite Hl. apply (rd_deglen g a R).
    + intros. rewrite Hn'. lia.
Qed.

(* ---------------------------------------------------------------- RemoveEdge *)
Lemma Rd_remove_edge_gen g a i j deg' : Rd g a -> i < j -> j < an a -> adj a i j = true ->
  length deg' = an a ->
  (forall v, v < an a -> nth v deg' 0%Z = (nth v (ddeg g) 0 - ind v i - ind v j)%Z) ->
  Rd (mkDense (dn g) (dm g - 1) deg' (upd (darr g) (tri j + i) 0%Z) (dlen g)) (a_remove_edge a i j).
Proof.
  intros R Hi Hj He Hl Hd. pose proof (rd_wf g a R) as W.
  assert (Hin : tri j + i < length (darr g)).
  { pose proof (Rd_in_slice g a i j R Hi Hj). pose proof (rd_cap g a R). lia. }
  constructor; simpl.
  - apply awf_remove_edge; auto.
  - apply (rd_n g a R).
  - rewrite M_remove_edge by auto. rewrite (rd_m g a R). reflexivity.
  - auto.
  - intros v Hv. rewrite Hd, (rd_deg g a R), deg_remove_edge by auto. reflexivity.
  - apply (rd_len g a R).
  - rewrite upd_length. apply (rd_cap g a R).
  - intros x y Hx Hy. rewrite nth_upd by auto.
    destruct (Nat.eqb_spec (tri y + x) (tri j + i)) as [E|E].
    + apply tri_inj in E; auto. destruct E; subst. rewrite !Nat.eqb_refl. simpl.
      rewrite andb_false_r. reflexivity.
    + rewrite (rd_cell g a R) by auto.
      destruct (Nat.eqb_spec x i), (Nat.eqb_spec y j), (Nat.eqb_spec x j), (Nat.eqb_spec y i);
        subst; simpl; rewrite ?andb_true_r; auto; try lia; congruence.
Qed.

Lemma d_remove_edge_ok g a i j : Rd g a -> i < an a -> j < an a ->
  exists g', d_remove_edge g i j = Some g' /\ Rd g' (a_remove_edge a i j).
Proof.
  intros R Hi Hj. pose proof (rd_wf g a R) as W. unfold d_remove_edge.
  rewrite (d_is_edge_ok g a) by auto.
  destruct (adj a i j) eqn:He; simpl.
  2:{ exists g. split; auto. eapply Rd_ext; eauto. apply aeq_sym, aeq_remove_edge_absent; auto. }
  assert (Hne : i <> j) by (intros ->; rewrite (awf_irr a W) in He; discriminate).
  destruct (modify2 (ddeg g) i j (-1)) as (l1 & l2 & E1 & E2 & Hl & Hn);
    rewrite ?(rd_deglen g a R); auto.
  assert (Hn' : forall v, nth v l2 0%Z = (nth v (ddeg g) 0 - ind v i - ind v j)%Z)
    by (intros; rewrite Hn; lia).
  destruct (Nat.ltb_spec i j).
  - rewrite d_set_some; [| eapply Rd_in_slice; eauto | apply (rd_cap g a R)].
    rewrite E1, E2. eexists. split; [reflexivity|]. apply Rd_remove_edge_gen; auto.
    rewrite Hl. apply (rd_deglen g a R).
  - assert (Hji : j < i) by lia. destruct (Nat.ltb_spec j i); [|lia].
    rewrite d_set_some; [| eapply Rd_in_slice; eauto | apply (rd_cap g a R)].
    rewrite E1, E2. eexists. split; [reflexivity|].
    apply Rd_ext with (a := a_remove_edge a j i); [|apply aeq_remove_edge_comm].
    apply Rd_remove_edge_gen; auto.
    + rewrite (awf_sym a W). auto.
    + rewrite Hl. apply (rd_deglen g a R).
    + intros. rewrite Hn'. lia.
Qed.

(* ---------------------------------------------------------------- AddVertex *)
Lemma mem_app x p q : mem x (p ++ q) = mem x p || mem x q.
Proof. unfold mem. apply existsb_app. Qed.

Lemma mem_single x y : mem x [y] = (x =? y).
Proof. unfold mem. simpl. apply orb_false_r. Qed.

(* the array after re-slicing/zeroing or reallocation: the old triangle is kept, the new row is
   zero, and the new slice fits *)
Definition add_vertex_arr0 (g : dense) : list Z :=
  let n := dn g in
  let oldSize := tri n in
  let newSize := oldSize + n in
  if newSize <=? length (darr g)
  then firstn oldSize (darr g) ++ repeat 0%Z (newSize - oldSize) ++ skipn newSize (darr g)
  else let c := Nat.min newSize (dlen g) in firstn c (darr g) ++ repeat 0%Z (newSize - c).

Lemma add_vertex_arr0_spec g a : Rd g a ->
  let arr0 := add_vertex_arr0 g in
  tri (an a) + an a <= length arr0 /\
  (forall k, k < tri (an a) -> nth k arr0 0%Z = nth k (darr g) 0%Z) /\
  (forall k, tri (an a) <= k < tri (an a) + an a -> nth k arr0 0%Z = 0%Z).
Proof.
  intros R. pose proof (rd_cap g a R) as Hc. pose proof (rd_len g a R) as Hl.
  unfold add_vertex_arr0. rewrite (rd_n g a R). cbv zeta.
  set (old := tri (an a)) in *. set (n := an a).
  destruct (Nat.leb_spec (old + n) (length (darr g))).
  - repeat split.
    + rewrite !app_length, firstn_length, repeat_length, skipn_length. lia.
    + intros k Hk. rewrite app_nth1 by (rewrite firstn_length; lia). apply nth_firstn_lt; auto.
    + intros k Hk. rewrite app_nth2 by (rewrite firstn_length; lia).
      rewrite firstn_length. rewrite app_nth1 by (rewrite repeat_length; lia).
      apply nth_repeat0.
  - replace (Nat.min (old + n) (dlen g)) with old by lia. repeat split.
    + rewrite !app_length, firstn_length, repeat_length. lia.
    + intros k Hk. rewrite app_nth1 by (rewrite firstn_length; lia). apply nth_firstn_lt; auto.
    + intros k Hk. rewrite app_nth2 by (rewrite firstn_length; lia). apply nth_repeat0.
Qed.

Lemma d_add_vertex_ok g a nbrs : Rd g a -> NoDup nbrs -> (forall x, In x nbrs -> x < an a) ->
  exists g', d_add_vertex g nbrs = Some g' /\ Rd g' (a_add_vertex a nbrs).
Proof.
  intros R Hnd Hlt. pose proof (rd_wf g a R) as W.
  destruct (add_vertex_arr0_spec g a R) as (A1 & A2 & A3).
  unfold d_add_vertex. fold (add_vertex_arr0 g). rewrite (rd_n g a R).
  set (arr0 := add_vertex_arr0 g) in *. set (n := an a) in *. set (old := tri n) in *.
  pose (I := fun (p : list nat) (st : list Z * list Z) =>
    length (fst st) = length arr0 /\ length (snd st) = n /\
    (forall k, k < old -> nth k (fst st) 0%Z = nth k arr0 0%Z) /\
    (forall x, x < n -> nth (old + x) (fst st) 0%Z = b2z (mem x p)) /\
    (forall x, x < n -> nth x (snd st) 0%Z = (nth x (ddeg g) 0 + b2z (mem x p))%Z)).
  destruct (foldM_list_inv I
     (fun (st : list Z * list Z) v =>
        let (arr, deg) := st in
        do arr' <- d_set arr (old + n) (old + v) 1;
        do deg' <- modify deg v 1; Some (arr', deg'))
     nbrs [] (arr0, ddeg g)) as (st & E & HI).
  { unfold I. simpl. repeat split; auto.
    - apply (rd_deglen g a R).
    - intros x Hx. apply A3. lia.
    - intros. lia. }
  { intros p x q [arr deg] Hp _ (I1 & I2 & I3 & I4 & I5). simpl in *.
    assert (Hx : x < n) by (apply Hlt; rewrite Hp; apply in_elt).
    assert (Hxp : ~ In x p).
    { rewrite Hp in Hnd. apply NoDup_remove_2 in Hnd. intros H. apply Hnd. apply in_or_app. auto. }
    rewrite d_set_some by lia. rewrite modify_some by lia.
    eexists. split; [reflexivity|]. unfold I. simpl.
    rewrite !upd_length. repeat split; auto.
    - intros k Hk. rewrite nth_upd_other by lia. auto.
    - intros y Hy. rewrite nth_upd by lia. rewrite mem_app, mem_single.
      destruct (Nat.eqb_spec (old + y) (old + x)), (Nat.eqb_spec y x); try lia.
      + rewrite orb_true_r. reflexivity.
      + rewrite orb_false_r. auto.
    - intros y Hy. rewrite nth_upd by lia. rewrite mem_app, mem_single.
      destruct (Nat.eqb_spec y x).
      + subst. rewrite I5 by auto. apply mem_false in Hxp. rewrite Hxp. simpl. lia.
      + rewrite orb_false_r. auto. }
  rewrite E. destruct st as [arr deg]. destruct HI as (I1 & I2 & I3 & I4 & I5). simpl in *.
  eexists. split; [reflexivity|].
  constructor; simpl.
  - apply awf_add_vertex; auto.
  - reflexivity.
  - rewrite M_add_vertex by auto. rewrite (rd_m g a R). reflexivity.
  - rewrite app_length. simpl. lia.
  - intros v Hv. rewrite deg_add_vertex by (auto; lia). fold n.
    destruct (Nat.eqb_spec v n).
    + subst v. rewrite app_nth2 by lia. rewrite I2, Nat.sub_diag. reflexivity.
    + rewrite app_nth1 by lia. rewrite I5 by lia. rewrite (rd_deg g a R) by (fold n; lia).
      reflexivity.
  - rewrite tri_S. reflexivity.
  - lia.
  - intros i j Hi Hj. fold n. destruct (Nat.eqb_spec j n).
    + subst j. fold old. rewrite I4 by auto. rewrite z_pos_b2z.
      destruct (Nat.ltb_spec i n); [|lia]. reflexivity.
    + destruct (Nat.eqb_spec i n); [lia|].
      assert (tri j + i < old) by (apply tri_bound; lia).
      rewrite I3, A2 by auto. apply (rd_cell g a R); auto. fold n. lia.
Qed.
