(* Specification side of C06: what "well formed" means for a value of the Graph interface and
   the defining adjacency of each named family.  Definitions and the few facts that only unfold
   them. *)
From Coq Require Import List ZArith Arith Bool Lia.
From Mamba Require Import Graph.Model Graph.Lists Graph.Abstract Graph.CtorModel.
Import ListNotations.

(* ------------------------------------------------------------------ the abstract graph of a DenseGraph *)
Definition cell (g : dense) (k : nat) : bool := (0 <? nth k (darr g) 0)%Z.

Definition dadj (g : dense) (x y : nat) : bool :=
  if x <? y then (y <? dn g) && cell g (tri y + x)
  else if y <? x then (x <? dn g) && cell g (tri x + y)
  else false.

Definition dabs (g : dense) : agraph := mkA (dn g) (dadj g).

(* the struct invariant of a freshly constructed DenseGraph: the slice is exactly the packed
   triangle and the cached counts are those of the adjacency it encodes *)
Record dwf (g : dense) : Prop := mkDwf {
  dwf_len : dlen g = tri (dn g);
  dwf_arr : dlen g <= length (darr g);
  dwf_deg : ddeg g = a_degrees (dabs g);
  dwf_m : dm g = a_M (dabs g) }.

(* ------------------------------------------------------------------ well-formedness of any Graph value *)
(* g shows the abstract simple graph a through every observer of the interface; neighbour lists
   are ascending (the views rely on it) *)
Record grep (g : gval) (a : agraph) : Prop := mkGrep {
  gr_N : g_N g = an a;
  gr_M : g_M g = Some (a_M a);
  gr_deg : g_degrees g = Some (a_degrees a);
  gr_nb : forall v, v < an a -> g_neighbours g v = Some (a_neighbours a v);
  gr_edge : forall i j, i < an a -> j < an a -> g_is_edge g i j = Some (adj a i j) }.

(* the first sentence of the property: some symmetric loop-free adjacency on {0..N-1} is what
   IsEdge reports, M is its number of edges, Degrees and Neighbours are its degrees and
   neighbourhoods *)
Definition gwf (g : gval) : Prop := exists a, awf a /\ grep g a.

(* two abstract graphs with the same adjacency *)
Definition aeq (a b : agraph) : Prop := an a = an b /\ forall x y, adj a x y = adj b x y.

(* ------------------------------------------------------------------ definitions of the named families *)
(* adjacency predicates on vertices x, y below the number of vertices *)
Definition complete_def (x y : nat) : bool := negb (x =? y).

Definition path_def (x y : nat) : bool := (S x =? y) || (S y =? x).

Definition cycle_def (n x y : nat) : bool := (S x mod n =? y) || (S y mod n =? x).

Definition star_def (x y : nat) : bool := ((x =? 0) && negb (y =? 0)) || ((y =? 0) && negb (x =? 0)).

(* the part of vertex x when the parts have sizes nums and are numbered consecutively *)
Fixpoint part_of (nums : list nat) (x : nat) : nat :=
  match nums with
  | [] => 0
  | v :: t => if x <? v then 0 else S (part_of t (x - v))
  end.

Definition partite_def (nums : list nat) (x y : nat) : bool :=
  negb (part_of nums x =? part_of nums y).

(* x xor y is the single bit b for some b < dim: x and y differ in exactly one coordinate *)
Definition hypercube_def (dim x y : nat) : bool :=
  existsb (fun b => Nat.lxor x y =? 2 ^ b) (seq 0 dim).

(* ... or they are antipodal (all dim-1 coordinates differ) *)
Definition folded_def (dim x y : nat) : bool :=
  hypercube_def (dim - 1) x y || (negb (x =? y) && (Nat.lxor x y =? 2 ^ (dim - 1) - 1)).

(* n triangles 0,2i+1,2i+2 sharing the vertex 0 *)
Definition friendship_def (x y : nat) : bool :=
  negb (x =? y) && ((x =? 0) || (y =? 0) || ((x - 1) / 2 =? (y - 1) / 2)).

(* u_0..u_{n-1} = 0..n-1 (outer cycle), v_0..v_{n-1} = n..2n-1 (inner, step k), spokes u_i v_i *)
Definition petersen_def (n k x y : nat) : bool :=
  negb (x =? y) &&
  (if (x <? n) && (y <? n) then (S x mod n =? y) || (S y mod n =? x)
   else if (n <=? x) && (n <=? y) then ((x - n + k) mod n =? y - n) || ((y - n + k) mod n =? x - n)
   else (x + n =? y) || (y + n =? x)).

(* y - x or x - y is congruent to one of the differences modulo n *)
Definition circulant_def (n : nat) (diffs : list Z) (x y : nat) : bool :=
  negb (x =? y) &&
  existsb (fun v => (((Z.of_nat x + v - Z.of_nat y) mod Z.of_nat n =? 0) ||
                     ((Z.of_nat y + v - Z.of_nat x) mod Z.of_nat n =? 0))%Z) diffs.

(* a_0..a_{n-1} = 0..n-1, b_0..b_{m-1} = n..n+m-1; a_i ~ b_j when j - i is congruent to a difference mod m *)
Definition circbip_def (n m : nat) (diffs : list Z) (x y : nat) : bool :=
  let side (a b : nat) := (a <? n) && (n <=? b) &&
    existsb (fun v => ((Z.of_nat a + v - Z.of_nat (b - n)) mod Z.of_nat m =? 0)%Z) diffs in
  side x y || side y x.

(* ------------------------------------------------------------------ the shape of every constructor theorem *)
(* the call c does not panic, returns a DenseGraph under the struct invariant with n vertices,
   and x ~ y exactly when def x y *)
Definition builds (c : option dense) (n : nat) (def : nat -> nat -> bool) : Prop :=
  exists g, c = Some g /\ dwf g /\ dn g = n /\
    forall x y, x < n -> y < n -> dadj g x y = def x y.

(* ------------------------------------------------------------------ definitions of the transformations *)
Definition a_compl (a : agraph) : agraph :=
  mkA (an a) (fun x y => (x <? an a) && (y <? an a) && negb (x =? y) && negb (adj a x y)).

(* flower snark J_n: blocks a_i b_i c_i d_i = 4i..4i+3; a_i is joined to b_i, c_i, d_i; b, c, d are
   joined to the same letter of the next block, and the last block is joined back to the first
   as b-b, c-d, d-c (so the c's and d's form one cycle of length 2n) *)
Definition flower_lt (n lo hi : nat) : bool :=
  ((lo mod 4 =? 0) && (hi <=? lo + 3)) || (negb (lo mod 4 =? 0) && (hi =? lo + 4)) ||
  ((lo =? 1) && (hi =? 4 * n - 3)) || ((lo =? 3) && (hi =? 4 * n - 2)) || ((lo =? 2) && (hi =? 4 * n - 1)).

Definition flower_def (n x y : nat) : bool :=
  if x <? y then flower_lt n x y else if y <? x then flower_lt n y x else false.

(* the x-th k-subset in colexicographic order, as comb.Unrank computes it *)
Definition ksubset (k x : nat) : list nat := match unrank k x with Some l => l | None => [] end.

(* Kneser graph: the k-subsets x and y have no common element (IntersectionSize = 0) *)
Definition kneser_def (k x y : nat) : bool :=
  negb (x =? y) && (isize (ksubset k x) (ksubset k y) =? 0).

(* bipartite Kneser graph as the code tests it: the intersection of the k-subset x < N and the
   (n-k)-subset y - N has min(k, n-k) elements *)
Definition bikneser_def (n k N x y : nat) : bool :=
  let side (a b : nat) := (a <? N) && (N <=? b) &&
    (isize (ksubset k a) (ksubset (n - k) (b - N)) =? Nat.min k (n - k)) in
  side x y || side y x.

(* SplitEdge and Contract on the abstract graph (the composition of C05's abstract edits) *)
Definition a_split (a : agraph) (i j : nat) : agraph := a_add_vertex (a_remove_edge a i j) [i; j].

Definition a_contract (a : agraph) (i j : nat) : agraph :=
  a_remove_vertex (fold_left (fun b v => a_add_edge b i v) (a_neighbours a j) a) j.

(* ------------------------------------------------------------------ line graph *)
(* the edges of a in the order LineGraphDense meets them: 01 02 12 03 13 23 ... *)
Definition edge_row (a : agraph) (y c : nat) : list (nat * nat) :=
  map (fun x => (x, y)) (filter (fun x => adj a x y) (seq 0 c)).

Definition edges_upto (a : agraph) (j i : nat) : list (nat * nat) :=
  flat_map (fun y => edge_row a y y) (seq 0 j) ++ edge_row a j i.

Definition edge_list (a : agraph) : list (nat * nat) := edges_upto a (an a) 0.

Definition share (e f : nat * nat) : bool :=
  (fst e =? fst f) || (fst e =? snd f) || (snd e =? fst f) || (snd e =? snd f).

(* vertices p, q of the line graph are the p-th and q-th edge; adjacent iff distinct and sharing an endpoint *)
Definition line_def (el : list (nat * nat)) (p q : nat) : bool :=
  negb (p =? q) && share (nth p el (0, 0)) (nth q el (0, 0)).

(* rook graph on the n x m board: cell (r, c) is vertex c * n + r (the edge r -- n+c of K_{n,m});
   two cells are adjacent iff they share the row or the column *)
Definition rook_def (n : nat) (p q : nat) : bool :=
  negb (p =? q) && ((p mod n =? q mod n) || (p / n =? q / n)).

(* the colexicographic rank of an ascending list c_0 < c_1 < ...: sum of C(c_t, t+1) *)
Fixpoint crank_from (t : nat) (c : list nat) : nat :=
  match c with
  | [] => 0
  | x :: r => binom x (S t) + crank_from (S t) r
  end.
Definition crank (c : list nat) : nat := crank_from 0 c.

Definition disjointb (a b : list nat) : bool := forallb (fun e => negb (mem e b)) a.
Definition subsetb (a b : list nat) : bool := forallb (fun e => mem e b) a.

(* Kneser graph K(n,k): vertices = k-subsets of {0..n-1} numbered by colex rank, adjacent iff disjoint *)
Definition kneser_set_def (k x y : nat) : bool :=
  negb (x =? y) && disjointb (ksubset k x) (ksubset k y).

(* bipartite Kneser graph: k-subset x < N on one side, (n-k)-subset y - N on the other, adjacent
   iff one of the two sets contains the other *)
Definition bikneser_set_def (n k N x y : nat) : bool :=
  let side (a b : nat) := (a <? N) && (N <=? b) &&
    (subsetb (ksubset k a) (ksubset (n - k) (b - N)) || subsetb (ksubset (n - k) (b - N)) (ksubset k a)) in
  side x y || side y x.
