(* C06: the families built with NewDense(n, nil) and AddEdge: every call is in range (no
   panic), the result is well formed, and the adjacency is the definition of the family. *)
From Coq Require Import List ZArith Arith Bool Lia ZifyNat ZifyBool.
From Mamba Require Import Graph.Model Graph.Tri Graph.Lists Graph.Abstract Graph.CtorModel Graph.CtorSpec Graph.CtorDense Graph.CtorFill.
Import ListNotations.

Lemma in_pairs_true es x y :
  in_pairs es x y = true <->
  x <> y /\ exists e, In e es /\ ((fst e = x /\ snd e = y) \/ (fst e = y /\ snd e = x)).
Proof.
  unfold in_pairs. rewrite andb_true_iff, negb_true_iff, Nat.eqb_neq, existsb_exists.
  split; intros [H1 (e & He & H2)]; split; auto; exists e; split; auto.
  - rewrite orb_true_iff, !andb_true_iff, !Nat.eqb_eq in H2. exact H2.
  - rewrite orb_true_iff, !andb_true_iff, !Nat.eqb_eq. exact H2.
Qed.

(* a family given by its list of AddEdge calls on n vertices *)
Lemma family_ok n es (def : nat -> nat -> bool) :
  (forall e, In e es -> fst e < n /\ snd e < n) ->
  (forall x y, x < n -> y < n -> in_pairs es x y = def x y) ->
  exists g, add_edges (d_empty n) es = Some g /\ dwf g /\ dn g = n /\
    forall x y, x < n -> y < n -> dadj g x y = def x y.
Proof.
  intros Hr Hd. destruct (add_edges_empty n es Hr) as (g & E & W & N & A).
  exists g. split; [exact E|]. split; [exact W|]. split; [exact N|].
  intros. rewrite A. apply Hd; auto.
Qed.

(* ------------------------------------------------------------------ RandomGraph: any stream of draws *)
Lemma lower_pairs_range n e : In e (lower_pairs n) -> fst e < n /\ snd e < n.
Proof.
  unfold lower_pairs. intros H. apply in_flat_map in H. destruct H as (i & Hi & H).
  apply in_map_iff in H. destruct H as (j & <- & Hj). apply in_seq in Hi. apply in_seq in Hj.
  cbn [fst snd]. lia.
Qed.

Theorem random_graph_ok n draw :
  exists g, random_graph n draw = Some g /\ dwf g /\ dn g = n.
Proof.
  unfold random_graph.
  destruct (add_edges_empty n (random_pairs n draw)) as (g & E & W & N & _).
  - intros e He. unfold random_pairs in He. apply in_map_iff in He. destruct He as ([k e'] & <- & He).
    apply filter_In in He. destruct He as [He _]. apply in_combine_r in He. cbn.
    apply lower_pairs_range. auto.
  - exists g. auto.
Qed.

(* ------------------------------------------------------------------ Friendship *)
Ltac Zify.zify_post_hook ::= Z.div_mod_to_equations.

Lemma friendship_in n e : In e (friendship_pairs n) <->
  exists i, i < n /\ (e = (2 * i + 1, 2 * i + 2) \/ e = (0, 2 * i + 1) \/ e = (0, 2 * i + 2)).
Proof.
  unfold friendship_pairs. rewrite in_flat_map. split.
  - intros (i & Hi & H). apply in_seq in Hi. exists i. split; [lia|]. cbn in H. intuition auto.
  - intros (i & Hi & H). exists i. split; [apply in_seq; lia|]. cbn. intuition auto.
Qed.

Theorem friendship_ok n :
  exists g, friendship n = Some g /\ dwf g /\ dn g = 2 * n + 1 /\
    forall x y, x < 2 * n + 1 -> y < 2 * n + 1 -> dadj g x y = friendship_def x y.
Proof.
  apply family_ok.
  - intros e He. apply friendship_in in He. destruct He as (i & Hi & [-> | [-> | ->]]); cbn [fst snd]; lia.
  - intros x y Hx Hy. apply eq_iff_eq_true. rewrite in_pairs_true. unfold friendship_def.
    rewrite andb_true_iff, negb_true_iff, Nat.eqb_neq, !orb_true_iff, !Nat.eqb_eq. split.
    + intros (Hne & e & He & H). split; auto. apply friendship_in in He.
      destruct He as (i & Hi & [-> | [-> | ->]]); cbn [fst snd] in H; lia.
    + intros (Hne & H). split; auto.
      destruct (Nat.eq_dec x 0) as [->|Hx0]; [|destruct (Nat.eq_dec y 0) as [->|Hy0]].
      * exists (0, y). split; [|cbn [fst snd]; lia]. apply friendship_in. exists ((y - 1) / 2).
        split; [lia|]. assert (y = 2 * ((y - 1) / 2) + 1 \/ y = 2 * ((y - 1) / 2) + 2) by lia.
        destruct H0 as [H0|H0]; rewrite <- H0; auto.
      * exists (0, x). split; [|cbn [fst snd]; lia]. apply friendship_in. exists ((x - 1) / 2).
        split; [lia|]. assert (x = 2 * ((x - 1) / 2) + 1 \/ x = 2 * ((x - 1) / 2) + 2) by lia.
        destruct H0 as [H0|H0]; rewrite <- H0; auto.
      * assert (He : (x - 1) / 2 = (y - 1) / 2) by lia.
        exists (2 * ((x - 1) / 2) + 1, 2 * ((x - 1) / 2) + 2). split.
        -- apply friendship_in. exists ((x - 1) / 2). split; [lia|auto].
        -- cbn [fst snd]. lia.
Qed.

(* ------------------------------------------------------------------ GeneralisedPetersen *)
Lemma add_mod_wrap n i k : i < n -> k < n ->
  (i + k) mod n = if i + k <? n then i + k else i + k - n.
Proof.
  intros Hi Hk. destruct (Nat.ltb_spec (i + k) n).
  - apply Nat.mod_small. auto.
  - symmetry. apply (Nat.mod_unique _ _ 1); lia.
Qed.

Lemma petersen_in n k e : In e (petersen_pairs n k) <->
  exists i, i < n /\ (e = (i, (i + 1) mod n) \/ e = (i, n + i) \/ e = (n + i, n + (i + k) mod n)).
Proof.
  unfold petersen_pairs. rewrite in_flat_map. split.
  - intros (i & Hi & H). apply in_seq in Hi. exists i. split; [lia|]. cbn in H. intuition auto.
  - intros (i & Hi & H). exists i. split; [apply in_seq; lia|]. cbn. intuition auto.
Qed.

Theorem generalised_petersen_ok n k : 3 <= n -> k <= (n - 1) / 2 ->
  exists g, generalised_petersen n k = Some g /\ dwf g /\ dn g = 2 * n /\
    forall x y, x < 2 * n -> y < 2 * n -> dadj g x y = petersen_def n k x y.
Proof.
  intros Hn Hk. unfold generalised_petersen.
  destruct (Nat.ltb_spec n 3); [lia|]. destruct (Nat.ltb_spec ((n - 1) / 2) k); [lia|].
  assert (Hkn : k < n) by lia.
  assert (M1 : forall i, i < n -> (i + 1) mod n = succm n i).
  { intros i Hi. rewrite Nat.add_1_r. apply succ_mod. auto. }
  apply family_ok.
  - intros e He. apply petersen_in in He. destruct He as (i & Hi & [-> | [-> | ->]]); cbn [fst snd].
    + pose proof (Nat.mod_upper_bound (i + 1) n). lia.
    + lia.
    + pose proof (Nat.mod_upper_bound (i + k) n). lia.
  - intros x y Hx Hy. apply eq_iff_eq_true. rewrite in_pairs_true. unfold petersen_def.
    rewrite andb_true_iff, negb_true_iff, Nat.eqb_neq. split.
    + intros (Hne & e & He & H'). split; auto. apply petersen_in in He.
      destruct He as (i & Hi & [-> | [-> | ->]]); cbn [fst snd] in H'.
      * rewrite M1 in H' by auto. unfold succm in H'.
        destruct (Nat.eqb_spec (S i) n);
          (destruct (Nat.ltb_spec x n), (Nat.ltb_spec y n); cbn [andb]; try lia);
          rewrite !succ_mod by lia; unfold succm; rewrite orb_true_iff, !Nat.eqb_eq;
          repeat match goal with |- context [Nat.eqb ?a ?b] => destruct (Nat.eqb_spec a b) end; lia.
      * destruct (Nat.ltb_spec x n), (Nat.ltb_spec y n), (Nat.leb_spec n x), (Nat.leb_spec n y);
          cbn [andb]; try lia; rewrite orb_true_iff, !Nat.eqb_eq; lia.
      * rewrite add_mod_wrap in H' by lia.
        destruct (Nat.ltb_spec x n), (Nat.ltb_spec y n), (Nat.leb_spec n x), (Nat.leb_spec n y);
          cbn [andb]; try (destruct (Nat.ltb_spec (i + k) n); lia).
        rewrite !add_mod_wrap by lia. rewrite orb_true_iff, !Nat.eqb_eq.
        destruct (Nat.ltb_spec (i + k) n), (Nat.ltb_spec (x - n + k) n), (Nat.ltb_spec (y - n + k) n); lia.
    + intros (Hne & H'). split; auto.
      destruct (Nat.ltb_spec x n), (Nat.ltb_spec y n), (Nat.leb_spec n x), (Nat.leb_spec n y);
        cbn [andb] in H'; try lia; rewrite orb_true_iff, !Nat.eqb_eq in H'.
      * rewrite !succ_mod in H' by auto. destruct H' as [H'|H'].
        -- exists (x, (x + 1) mod n). split; [apply petersen_in; exists x; auto|].
           rewrite M1 by auto. cbn [fst snd]. lia.
        -- exists (y, (y + 1) mod n). split; [apply petersen_in; exists y; auto|].
           rewrite M1 by auto. cbn [fst snd]. lia.
      * exists (x, n + x). split; [apply petersen_in; exists x; auto|]. cbn [fst snd]. lia.
      * exists (y, n + y). split; [apply petersen_in; exists y; auto|]. cbn [fst snd]. lia.
      * destruct H' as [H'|H'].
        -- exists (n + (x - n), n + (x - n + k) mod n). split; [apply petersen_in; exists (x - n); split; [lia|auto]|].
           cbn [fst snd]. lia.
        -- exists (n + (y - n), n + (y - n + k) mod n). split; [apply petersen_in; exists (y - n); split; [lia|auto]|].
           cbn [fst snd]. lia.
Qed.

Theorem generalised_petersen_domain n k : n < 3 \/ (n - 1) / 2 < k -> generalised_petersen n k = None.
Proof.
  intros H. unfold generalised_petersen.
  destruct (Nat.ltb_spec n 3); [reflexivity|]. destruct (Nat.ltb_spec ((n - 1) / 2) k); [reflexivity|lia].
Qed.

(* ------------------------------------------------------------------ Circulant *)
Lemma rem_fix_mod a n : (0 < n)%Z ->
  (let t := Z.rem a n in if t <? 0 then t + n else t)%Z = (a mod n)%Z.
Proof.
  intros Hn. cbv zeta. pose proof (Z.quot_rem' a n) as Hq.
  destruct (Z.ltb_spec (Z.rem a n) 0).
  - assert (a <= 0)%Z.
    { destruct (Z.le_gt_cases a 0); auto. pose proof (Z.rem_bound_pos a n). lia. }
    pose proof (Z.rem_bound_neg_pos a n).
    apply (Z.mod_unique_pos a n (Z.quot a n - 1)); lia.
  - assert (0 <= Z.rem a n < n)%Z.
    { destruct (Z.le_gt_cases 0 a).
      - pose proof (Z.rem_bound_pos a n). lia.
      - pose proof (Z.rem_bound_neg_pos a n). lia. }
    apply (Z.mod_unique_pos a n (Z.quot a n)); lia.
Qed.

Lemma circ_target_mod i v n : 0 < n ->
  Z.of_nat (circ_target i v n) = ((Z.of_nat i + v) mod Z.of_nat n)%Z /\ circ_target i v n < n.
Proof.
  intros Hn. unfold circ_target. rewrite rem_fix_mod by lia.
  pose proof (Z.mod_pos_bound (Z.of_nat i + v) (Z.of_nat n)). split; lia.
Qed.

Lemma mod_eq_iff a y n : (0 <= y < n)%Z -> ((a mod n = y) <-> ((a - y) mod n = 0))%Z.
Proof.
  intros Hy. split.
  - intros H. rewrite (Z.div_mod a n) by lia. rewrite H.
    replace (n * (a / n) + y - y)%Z with ((a / n) * n)%Z by lia. apply Z.mod_mul. lia.
  - intros H. apply Z.mod_divide in H; [|lia]. destruct H as [q Hq].
    symmetry. apply (Z.mod_unique_pos a n q); lia.
Qed.

Lemma circ_target_eq i v n y : 0 < n -> y < n ->
  (circ_target i v n = y <-> ((Z.of_nat i + v - Z.of_nat y) mod Z.of_nat n = 0)%Z).
Proof.
  intros Hn Hy. destruct (circ_target_mod i v n Hn) as [E _].
  rewrite <- mod_eq_iff by lia. rewrite <- E. lia.
Qed.

Lemma circulant_in n diffs e : In e (circulant_pairs n diffs) <->
  exists i v, i < n /\ In v diffs /\ e = (i, circ_target i v n).
Proof.
  unfold circulant_pairs. rewrite in_flat_map. split.
  - intros (i & Hi & H). apply in_seq in Hi. apply in_map_iff in H. destruct H as (v & <- & Hv).
    exists i, v. split; [lia|auto].
  - intros (i & v & Hi & Hv & ->). exists i. split; [apply in_seq; lia|]. apply in_map_iff. exists v. auto.
Qed.

Theorem circulant_ok n diffs :
  exists g, circulant n diffs = Some g /\ dwf g /\ dn g = n /\
    forall x y, x < n -> y < n -> dadj g x y = circulant_def n diffs x y.
Proof.
  apply family_ok.
  - intros e He. apply circulant_in in He. destruct He as (i & v & Hi & Hv & ->). cbn.
    split; [lia|]. apply circ_target_mod. lia.
  - intros x y Hx Hy. apply eq_iff_eq_true. rewrite in_pairs_true. unfold circulant_def.
    rewrite andb_true_iff, negb_true_iff, Nat.eqb_neq, existsb_exists. split.
    + intros (Hne & e & He & H). split; auto. apply circulant_in in He.
      destruct He as (i & v & Hi & Hv & ->). cbn [fst snd] in H. exists v. split; auto.
      rewrite orb_true_iff, !Z.eqb_eq. destruct H as [[-> H]|[-> H]].
      * left. apply circ_target_eq; auto; lia.
      * right. apply circ_target_eq; auto; lia.
    + intros (Hne & v & Hv & H). split; auto. rewrite orb_true_iff, !Z.eqb_eq in H.
      destruct H as [H|H]; apply circ_target_eq in H; try lia.
      * exists (x, circ_target x v n). split; [apply circulant_in; exists x, v; auto|]. cbn [fst snd]. lia.
      * exists (y, circ_target y v n). split; [apply circulant_in; exists y, v; auto|]. cbn [fst snd]. lia.
Qed.

(* ------------------------------------------------------------------ CirculantBipartite *)
Lemma circbip_in n m diffs e : In e (circbip_pairs n m diffs) <->
  exists i v, i < n /\ In v diffs /\ e = (i, n + circ_target i v m).
Proof.
  unfold circbip_pairs. rewrite in_flat_map. split.
  - intros (i & Hi & H). apply in_seq in Hi. apply in_map_iff in H. destruct H as (v & <- & Hv).
    exists i, v. split; [lia|auto].
  - intros (i & v & Hi & Hv & ->). exists i. split; [apply in_seq; lia|]. apply in_map_iff. exists v. auto.
Qed.

Theorem circulant_bipartite_ok n m diffs : 0 < m \/ n = 0 \/ diffs = [] ->
  exists g, circulant_bipartite n m diffs = Some g /\ dwf g /\ dn g = n + m /\
    forall x y, x < n + m -> y < n + m -> dadj g x y = circbip_def n m diffs x y.
Proof.
  intros Hdom. unfold circulant_bipartite.
  assert (Hc : (m =? 0) && negb (n =? 0) && negb (length diffs =? 0) = false).
  { destruct Hdom as [H|[-> | ->]].
    - destruct (Nat.eqb_spec m 0); [lia|reflexivity].
    - cbn. rewrite andb_false_r. reflexivity.
    - cbn. apply andb_false_r. }
  rewrite Hc.
  assert (Hm : forall e, In e (circbip_pairs n m diffs) -> 0 < m).
  { intros e He. apply circbip_in in He. destruct He as (i & v & Hi & Hv & _).
    destruct Hdom as [H|[-> | ->]]; [auto|lia|destruct Hv]. }
  apply family_ok.
  - intros e He. pose proof (Hm e He). apply circbip_in in He. destruct He as (i & v & Hi & Hv & ->). cbn.
    split; [lia|]. pose proof (proj2 (circ_target_mod i v m H)). lia.
  - intros x y Hx Hy. apply eq_iff_eq_true. rewrite in_pairs_true. unfold circbip_def.
    rewrite orb_true_iff, !andb_true_iff, !existsb_exists, !Nat.ltb_lt, !Nat.leb_le. split.
    + intros (Hne & e & He & H). pose proof (Hm e He) as Hm0. apply circbip_in in He.
      destruct He as (i & v & Hi & Hv & ->). cbn [fst snd] in H.
      pose proof (proj2 (circ_target_mod i v m Hm0)) as Hb.
      destruct H as [[-> H]|[-> H]]; [left|right]; (split; [lia|]); exists v; (split; [auto|]);
        apply Z.eqb_eq; apply circ_target_eq; auto; lia.
    + intros [((Hx' & Hy') & v & Hv & H)|((Hy' & Hx') & v & Hv & H)]; (split; [lia|]);
        apply Z.eqb_eq in H; apply circ_target_eq in H; try lia.
      * exists (x, n + circ_target x v m). split; [apply circbip_in; exists x, v; auto|]. cbn [fst snd]. lia.
      * exists (y, n + circ_target y v m). split; [apply circbip_in; exists y, v; auto|]. cbn [fst snd]. lia.
Qed.

Theorem circulant_bipartite_domain n m diffs : m = 0 -> n <> 0 -> diffs <> [] ->
  circulant_bipartite n m diffs = None.
Proof.
  intros -> Hn Hd. unfold circulant_bipartite. destruct (Nat.eqb_spec n 0); [lia|].
  destruct diffs; [congruence|]. reflexivity.
Qed.

(* ------------------------------------------------------------------ Hypercube *)
Lemma lxor_lt_pow2 a b d : a < 2 ^ d -> b < 2 ^ d -> Nat.lxor a b < 2 ^ d.
Proof.
  intros Ha Hb. destruct (Nat.eq_dec (Nat.lxor a b) 0) as [->|Hz]; [lia|].
  apply Nat.log2_lt_pow2; [lia|].
  pose proof (Nat.log2_lxor a b) as Hl.
  assert (Hd : 0 < d).
  { destruct d; [|lia]. cbn in Ha, Hb. assert (a = 0) by lia. assert (b = 0) by lia. subst. cbn in Hz. lia. }
  assert (La : Nat.log2 a < d).
  { destruct (Nat.eq_dec a 0) as [->|]; [cbn; lia|]. apply Nat.log2_lt_pow2; lia. }
  assert (Lb : Nat.log2 b < d).
  { destruct (Nat.eq_dec b 0) as [->|]; [cbn; lia|]. apply Nat.log2_lt_pow2; lia. }
  lia.
Qed.

Lemma lxor_swap x y z : Nat.lxor x y = z <-> y = Nat.lxor x z.
Proof.
  split.
  - intros <-. rewrite <- Nat.lxor_assoc, Nat.lxor_nilpotent, Nat.lxor_0_l. reflexivity.
  - intros ->. rewrite <- Nat.lxor_assoc, Nat.lxor_nilpotent, Nat.lxor_0_l. reflexivity.
Qed.

Lemma hypercube_in dim e : In e (hypercube_pairs dim) <->
  exists i j, i < 2 ^ dim /\ j < dim /\ e = (i, Nat.lxor i (2 ^ j)).
Proof.
  unfold hypercube_pairs. rewrite in_flat_map. split.
  - intros (i & Hi & H). apply in_seq in Hi. apply in_map_iff in H. destruct H as (j & <- & Hj).
    apply in_seq in Hj. exists i, j. split; [lia|]. split; [lia|auto].
  - intros (i & j & Hi & Hj & ->). exists i. split; [apply in_seq; lia|]. apply in_map_iff. exists j.
    split; auto. apply in_seq. lia.
Qed.

Theorem hypercube_ok dim :
  exists g, hypercube dim = Some g /\ dwf g /\ dn g = 2 ^ dim /\
    forall x y, x < 2 ^ dim -> y < 2 ^ dim -> dadj g x y = hypercube_def dim x y.
Proof.
  apply family_ok.
  - intros e He. apply hypercube_in in He. destruct He as (i & j & Hi & Hj & ->). cbn.
    split; [lia|]. apply lxor_lt_pow2; auto. apply Nat.pow_lt_mono_r; lia.
  - intros x y Hx Hy. apply eq_iff_eq_true. rewrite in_pairs_true. unfold hypercube_def.
    rewrite existsb_exists. split.
    + intros (Hne & e & He & H). apply hypercube_in in He. destruct He as (i & j & Hi & Hj & ->).
      cbn [fst snd] in H. exists j. split; [apply in_seq; lia|]. apply Nat.eqb_eq.
      destruct H as [[-> H]|[-> H]].
      * apply lxor_swap. auto.
      * rewrite Nat.lxor_comm. apply lxor_swap. auto.
    + intros (j & Hj & H). apply in_seq in Hj. apply Nat.eqb_eq in H. split.
      * intros ->. rewrite Nat.lxor_nilpotent in H. pose proof (Nat.pow_nonzero 2 j). lia.
      * exists (x, Nat.lxor x (2 ^ j)). split; [apply hypercube_in; exists x, j; repeat split; auto; lia|].
        cbn. left. split; auto. symmetry. apply lxor_swap. auto.
Qed.
