(* C06, decoders: the DenseGraph that Graph6Decode returns is well formed.

   C08 (Codec/Model.v, Codec/TotalG6.v) models Graph6Decode up to the point where the Go code
   calls  NewDense(int(n), edges)  and proves that the model returns Err or Ok (n, e) with
   0 <= n and |e| = n(n-1)/2 bits (never Panic / OutOfFuel).  Here the value is built as
   encoding.go builds it: edges[j] is the byte 0 or 1 of bit j, and the graph is
   NewDense(int(n), edges) -- C06's statement-by-statement model [new_dense] (count loop) --
   and shown to satisfy the struct invariant [dwf] with N = the declared n and adjacency = the
   decoded bits.  On an error the code returns &DenseGraph{} (the zero struct), also well formed.

   Codec.Model is required but not imported: its [tri], [len], [do] notation differ from
   Graph.Model's. *)
From Coq Require Import List ZArith Arith Bool Lia.
From Mamba Require Import Graph.Model Graph.Tri Graph.Lists Graph.Abstract Graph.Dense
  Graph.CtorModel Graph.CtorSpec Graph.CtorDense.
From Mamba Require Import Graph.CtorDecodeModel.
From Mamba Require Codec.Model Codec.TotalG6.
Import ListNotations.

Module CM := Mamba.Codec.Model.
Module CG := Mamba.Codec.TotalG6.

Lemma tri_Z_nat n : (0 <= n)%Z -> CM.tri n = Z.of_nat (tri (Z.to_nat n)).
Proof.
  intros H. unfold CM.tri. set (k := Z.to_nat n). assert (Hn : n = Z.of_nat k) by (unfold k; lia).
  rewrite Hn. pose proof (tri_double k) as Hd.
  assert (E : (Z.of_nat k * (Z.of_nat k - 1) = Z.of_nat (tri k) * 2)%Z).
  { destruct k as [|k]; [rewrite tri_0; reflexivity|].
    replace (S k - 1) with k in Hd by lia. nia. }
  rewrite E. apply Z.div_mul. lia.
Qed.

Lemma nth_g6_bytes e k : (0 <? nth k (g6_bytes e) 0)%Z = nth k e false.
Proof.
  unfold g6_bytes. change 0%Z with (b2z false) at 2. rewrite map_nth. apply z_pos_b2z.
Qed.

(* every (n, e) C08 calls well formed builds a well-formed DenseGraph on n vertices whose
   adjacency is the bit of the pair (pair x<y at position y(y-1)/2 + x) *)
Theorem g6_build_ok n e : CG.wf_dense n e ->
  exists g, g6_build n e = Some g /\ dwf g /\ dn g = Z.to_nat n /\
    (forall x y, x < y -> y < Z.to_nat n -> dadj g x y = nth (tri y + x) e false) /\
    (forall x y, dadj g x y = dadj g y x) /\ (forall x, dadj g x x = false).
Proof.
  intros [Hn Hl]. unfold g6_build.
  assert (Hlen : length (g6_bytes e) = tri (Z.to_nat n)).
  { unfold g6_bytes. rewrite map_length. unfold CM.len in Hl. rewrite (tri_Z_nat n Hn) in Hl. lia. }
  destruct (new_dense_ok (Z.to_nat n) (g6_bytes e) Hlen) as (g & E & W & N & A).
  exists g. split; [exact E|]. split; [exact W|]. split; [exact N|]. split; [|split].
  - intros x y Hxy Hy. rewrite dadj_lt by lia. unfold cell. rewrite A. apply nth_g6_bytes.
  - intros x y. apply dadj_sym.
  - intros x. apply dadj_irr.
Qed.

Lemma dense_zero_dwf : dwf dense_zero.
Proof. exact (d_empty_dwf 0). Qed.

(* Graph6Decode on every string a Go program can hold (fewer than 2^59 bytes): no panic, and the
   returned DenseGraph is well formed -- either the zero struct together with an error, or a
   graph on the declared number of vertices whose adjacency is the decoded bit string *)
Theorem graph6_decode_graph_wf s0 : (CM.len s0 < 576460752303423488)%Z ->
  exists g err, graph6_decode_graph s0 = CM.Ok (g, err) /\ dwf g /\ gwf (GD g) /\
    (err = true -> g = dense_zero /\ CM.graph6_decode s0 = CM.Err) /\
    (err = false -> exists n e, CM.graph6_decode s0 = CM.Ok (n, e) /\ CG.wf_dense n e /\
       dn g = Z.to_nat n /\
       (CM.strip CM.hdr_graph6 s0 = [] /\ n = 0%Z \/ CG.declared (CM.strip CM.hdr_graph6 s0) = Some n) /\
       forall x y, x < y -> y < dn g -> dadj g x y = nth (tri y + x) e false).
Proof.
  intros Hl. unfold graph6_decode_graph.
  destruct (CG.graph6_decode_total_len s0 Hl) as [E|(n & e & E & Wn & D)]; rewrite E.
  - exists dense_zero, true. split; [reflexivity|]. split; [apply dense_zero_dwf|].
    split; [apply dwf_gwf, dense_zero_dwf|]. split; [auto|discriminate].
  - destruct (g6_build_ok n e Wn) as (g & B & W & N & A & _). rewrite B.
    exists g, false. split; [reflexivity|]. split; [exact W|]. split; [apply dwf_gwf, W|].
    split; [discriminate|]. intros _. exists n, e. split; [reflexivity|]. split; [exact Wn|].
    split; [exact N|]. split; [exact D|]. intros x y Hxy Hy. apply A; [exact Hxy|]. rewrite <- N. exact Hy.
Qed.
