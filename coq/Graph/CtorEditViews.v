(* C06: live views over an edited base graph.

   Complement(g) and InducedSubgraph(g, V) are views: structs holding g, whose observers are
   computed from g at the time of the call (model: [GC g], [induced_view g V] over the CURRENT
   value of g).  Here: along every history of valid edits (AddVertex, RemoveVertex, AddEdge,
   RemoveEdge -- hence SplitEdge and Contract) of a well-formed DenseGraph / SparseGraph, the base
   stays well formed and every view of it -- complement, induced, complement of induced, induced
   of complement -- is well formed and shows the complement / induced subgraph of the base AS IT
   IS NOW, for every duplicate-free V within the current range.  A composition of C05's
   per-edit refinement (through CtorEditRep.v) with the view theorems of CtorViews.v and
   CtorInduced.v. *)
From Coq Require Import List ZArith Arith Bool Lia.
From Mamba Require Import Graph.Model Graph.Lists Graph.Abstract Graph.Dense Graph.Sparse
  Graph.CtorModel Graph.CtorSpec Graph.CtorDense Graph.CtorSparse Graph.CtorViews Graph.CtorInduced
  Graph.CtorEdit Graph.CtorEditRep.
Import ListNotations.

(* one edit of C05's alphabet on an EditableGraph value (Copy / InducedSubgraph-copy leave the
   receiver as it is) *)
Definition e_step (g : egraph) (o : op) : option egraph :=
  match o with
  | OAddV nb => e_add_vertex g nb
  | ORemV v => e_remove_vertex g v
  | OAddE i j => e_add_edge g i j
  | ORemE i j => e_remove_edge g i j
  | OCopy | OInduced _ => Some g
  end.

Definition a_run (a : agraph) (ops : list op) : agraph := fold_left (fun a o => fst (a_step a o)) ops a.

(* every edit has valid arguments for the graph it is applied to *)
Fixpoint valid_edits (a : agraph) (ops : list op) : Prop :=
  match ops with
  | [] => True
  | o :: t => op_valid (an a) o /\ valid_edits (fst (a_step a o)) t
  end.

Lemma e_step_ok g a o : Re g a -> op_valid (an a) o ->
  exists g', e_step g o = Some g' /\ Re g' (fst (a_step a o)).
Proof.
  intros R V. destruct o as [nb|v|i j|i j| |V0]; cbn [e_step a_step fst op_valid] in *.
  - destruct V. apply e_add_vertex_ok; auto.
  - apply e_remove_vertex_ok; auto.
  - destruct V. apply e_add_edge_ok; auto.
  - destruct V. apply e_remove_edge_ok; auto.
  - exists g. auto.
  - exists g. auto.
Qed.

Lemma e_run_ok ops : forall g a, Re g a -> valid_edits a ops ->
  exists g', foldM e_step ops g = Some g' /\ Re g' (a_run a ops).
Proof.
  induction ops as [|o t IH]; intros g a R V; cbn [foldM a_run fold_left valid_edits] in *.
  - exists g. auto.
  - destruct V as [V1 V2]. destruct (e_step_ok g a o R V1) as (g1 & E1 & R1). rewrite E1.
    apply IH; auto.
Qed.

Lemma Re_grep g a : Re g a -> grep (e_val g) a.
Proof.
  intros R. destruct (Re_ewf g a R) as [W E]. eapply grep_ext; [exact E|]. apply ewf_grep. exact W.
Qed.

Theorem views_after_edits g ops : ewf g -> valid_edits (eabs g) ops ->
  exists g', foldM e_step ops g = Some g' /\ ewf g' /\
    let a' := a_run (eabs g) ops in
    aeq (eabs g') a' /\ awf a' /\ grep (e_val g') a' /\
    grep (GC (e_val g')) (a_compl a') /\ awf (a_compl a') /\
    forall V, NoDup V -> (forall x, In x V -> x < an a') ->
      awf (a_induced a' V) /\
      grep (induced_view (e_val g') V) (a_induced a' V) /\
      grep (GC (induced_view (e_val g') V)) (a_compl (a_induced a' V)) /\
      grep (induced_view (GC (e_val g')) V) (a_induced (a_compl a') V).
Proof.
  intros W V. destruct (e_run_ok ops g (eabs g) (ewf_Re g W) V) as (g' & E & R).
  exists g'. split; [exact E|]. destruct (Re_ewf g' _ R) as [W' Eq]. split; [exact W'|]. cbv zeta.
  pose proof (Re_awf g' _ R) as Wa. pose proof (Re_grep g' _ R) as G.
  split; [exact Eq|]. split; [exact Wa|]. split; [exact G|].
  pose proof (awf_compl _ Wa) as Wc. pose proof (compl_view_ok _ _ Wa G) as Gc.
  split; [exact Gc|]. split; [exact Wc|]. intros V0 Nd Hr.
  pose proof (awf_induced _ V0 Wa) as Wi. pose proof (induced_view_ok _ _ V0 Wa G Nd Hr) as Gi.
  split; [exact Wi|]. split; [exact Gi|]. split.
  - apply compl_view_ok; assumption.
  - apply induced_view_ok; try assumption.
Qed.

(* SplitEdge and Contract are such histories *)
Lemma split_edge_is_edits g i j : i <> j ->
  split_edge g i j = foldM e_step [ORemE i j; OAddV [i; j]] g.
Proof.
  intros H. unfold split_edge. destruct (Nat.eqb_spec i j); [contradiction|]. cbn [foldM e_step].
  destruct (e_remove_edge g i j); [|reflexivity]. destruct (e_add_vertex e [i; j]); reflexivity.
Qed.

Lemma contract_is_edits g i j nb : g_neighbours (e_val g) j = Some nb ->
  contract g i j = foldM e_step (map (OAddE i) nb ++ [ORemV j]) g.
Proof.
  intros H. unfold contract. rewrite H. clear H. revert g.
  induction nb as [|v t IH]; intros g; cbn [foldM map app e_step].
  - destruct (e_remove_vertex g j); reflexivity.
  - destruct (e_add_edge g i v); [apply IH|reflexivity].
Qed.
