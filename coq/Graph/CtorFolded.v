(* C06: FoldedHypercubeGraph(dim) for dim >= 1: the hypercube of dimension dim-1 plus the
   antipodal pairs. *)
From Coq Require Import List ZArith Arith Bool Lia.
From Mamba Require Import Graph.Model Graph.Tri Graph.Lists Graph.Abstract Graph.CtorModel Graph.CtorSpec
  Graph.CtorDense Graph.CtorFill Graph.CtorFamilies.
Import ListNotations.

Lemma bits_high x d m : x < 2 ^ d -> d <= m -> Nat.testbit x m = false.
Proof.
  intros Hx Hm. destruct (Nat.eq_dec x 0) as [->|Hz]; [apply Nat.bits_0|].
  apply Nat.bits_above_log2. apply Nat.log2_lt_pow2 in Hx; lia.
Qed.

Lemma lt_pow2_bits x d : (forall m, d <= m -> Nat.testbit x m = false) -> x < 2 ^ d.
Proof.
  intros H. assert (E : x mod 2 ^ d = x).
  { apply Nat.bits_inj. intros m. destruct (Nat.lt_ge_cases m d).
    - apply Nat.mod_pow2_bits_low. auto.
    - rewrite Nat.mod_pow2_bits_high by auto. symmetry. apply H. auto. }
  rewrite <- E. apply Nat.mod_upper_bound. apply Nat.pow_nonzero. lia.
Qed.

Lemma mask_ones d : 2 ^ d - 1 = Nat.ones d.
Proof. rewrite Nat.ones_equiv. lia. Qed.

(* mask &^ i is the antipode i xor mask for i below 2^d *)
Lemma ldiff_mask i d : i < 2 ^ d -> Nat.ldiff (2 ^ d - 1) i = Nat.lxor i (2 ^ d - 1).
Proof.
  intros Hi. rewrite mask_ones. apply Nat.bits_inj. intros m.
  rewrite Nat.ldiff_spec, Nat.lxor_spec. destruct (Nat.lt_ge_cases m d).
  - rewrite Nat.ones_spec_low by auto. destruct (Nat.testbit i m); reflexivity.
  - rewrite Nat.ones_spec_high by auto. rewrite (bits_high i d m) by auto. reflexivity.
Qed.

Lemma mask_lt d : 2 ^ d - 1 < 2 ^ d.
Proof. pose proof (Nat.pow_nonzero 2 d). lia. Qed.

Lemma folded_in dim e : 2 <= dim ->
  (In e (folded_pairs dim) <->
   exists i, i < 2 ^ (dim - 2) /\ e = (i, Nat.lxor i (2 ^ (dim - 1) - 1))).
Proof.
  intros Hd. unfold folded_pairs. destruct (Nat.ltb_spec dim 2); [lia|]. rewrite in_map_iff.
  assert (Hp : 2 ^ (dim - 2) < 2 ^ (dim - 1)) by (apply Nat.pow_lt_mono_r; lia).
  split.
  - intros (i & <- & Hi). apply in_seq in Hi. exists i. split; [lia|]. rewrite ldiff_mask by lia. reflexivity.
  - intros (i & Hi & ->). exists i. split; [|apply in_seq; lia]. rewrite ldiff_mask by lia. reflexivity.
Qed.

Theorem folded_hypercube_ok dim : 1 <= dim ->
  builds (folded_hypercube dim) (2 ^ (dim - 1)) (folded_def dim).
Proof.
  intros Hd. unfold folded_hypercube, builds. destruct (Nat.ltb_spec dim 1); [lia|].
  set (d := dim - 1).
  destruct (hypercube_ok d) as (g1 & E1 & W1 & N1 & A1). rewrite E1.
  destruct (Nat.lt_ge_cases dim 2) as [Hd2|Hd2].
  - (* dim = 1: no loop body runs *)
    assert (Ep : folded_pairs dim = []).
    { unfold folded_pairs. destruct (Nat.ltb_spec dim 2); [reflexivity|lia]. }
    rewrite Ep. exists g1. split; [reflexivity|]. split; [exact W1|]. split; [exact N1|].
    intros x y Hx Hy. rewrite A1 by auto. unfold folded_def. fold d.
    assert (d = 0) by (unfold d; lia). rewrite H0 in *. cbn in Hx, Hy.
    assert (x = 0) by lia. assert (y = 0) by lia. subst x y. reflexivity.
  - assert (Hp : 2 ^ (dim - 2) < 2 ^ d) by (apply Nat.pow_lt_mono_r; unfold d; lia).
    destruct (add_edges_ok (folded_pairs dim) g1 W1) as (g2 & E2 & W2 & N2 & A2).
    { intros e He. apply folded_in in He; auto. destruct He as (i & Hi & ->). cbn [fst snd]. rewrite N1.
      split; [lia|]. apply lxor_lt_pow2; [lia|apply mask_lt]. }
    exists g2. split; [exact E2|]. split; [exact W2|]. split; [lia|].
    intros x y Hx Hy. rewrite A2, A1 by auto. unfold folded_def. fold d. f_equal.
    apply eq_iff_eq_true. rewrite in_pairs_true, andb_true_iff, negb_true_iff, Nat.eqb_neq, Nat.eqb_eq.
    split.
    + intros (Hne & e & He & H'). split; auto. apply folded_in in He; auto.
      destruct He as (i & Hi & ->). cbn [fst snd] in H'. fold d in H'.
      destruct H' as [[-> <-]|[-> <-]].
      * apply lxor_swap. reflexivity.
      * rewrite Nat.lxor_comm. apply lxor_swap. reflexivity.
    + intros (Hne & Hm). split; auto.
      (* the one of x, y whose top coordinate d-1 is 0 is below 2^(d-1) *)
      assert (Hd1 : d = S (dim - 2)) by (unfold d; lia).
      assert (Hb : xorb (Nat.testbit x (dim - 2)) (Nat.testbit y (dim - 2)) = true).
      { rewrite <- Nat.lxor_spec, Hm, mask_ones. apply Nat.ones_spec_low. lia. }
      assert (Hlow : forall z, z < 2 ^ d -> Nat.testbit z (dim - 2) = false -> z < 2 ^ (dim - 2)).
      { intros z Hz Hbit. apply lt_pow2_bits. intros m Hm'.
        destruct (Nat.eq_dec m (dim - 2)) as [->|]; [auto|]. apply (bits_high z d); auto. lia. }
      destruct (Nat.testbit x (dim - 2)) eqn:Bx.
      * destruct (Nat.testbit y (dim - 2)) eqn:By; [discriminate|].
        exists (y, Nat.lxor y (2 ^ (dim - 1) - 1)). split.
        -- apply folded_in; auto. exists y. split; [apply Hlow; auto|reflexivity].
        -- cbn [fst snd]. right. split; auto. fold d. symmetry. apply lxor_swap. rewrite Nat.lxor_comm. auto.
      * exists (x, Nat.lxor x (2 ^ (dim - 1) - 1)). split.
        -- apply folded_in; auto. exists x. split; [apply Hlow; auto|reflexivity].
        -- cbn [fst snd]. left. split; auto. fold d. symmetry. apply lxor_swap. auto.
Qed.

Theorem folded_hypercube_domain : folded_hypercube 0 = None.
Proof. reflexivity. Qed.
