(* C06: MulticodeDecode on every valid Multicode (first byte n, then for each vertex v < n-1 its
   larger neighbours +1 in increasing order followed by 0): no panic and the struct, whose
   counts the code accumulates by hand, satisfies the invariant. *)
From Coq Require Import List ZArith Arith Bool Lia.
From Mamba Require Import Graph.Model Graph.Tri Graph.Lists Graph.Abstract Graph.CtorModel Graph.CtorSpec Graph.CtorDense.
Import ListNotations.

(* the rest of the code, being in the row of vertex cv with every entry so far at most lo *)
Fixpoint mc_valid (n cv lo : nat) (s : list Z) : Prop :=
  match s with
  | [] => 0 < n -> cv = n - 1
  | b :: t =>
    if (b =? 0)%Z then mc_valid n (S cv) (S cv) t
    else (0 < b)%Z /\ lo < Z.to_nat b - 1 /\ Z.to_nat b - 1 < n /\ mc_valid n cv (Z.to_nat b - 1) t
  end.

(* every edge present so far starts in an earlier row, or in this row and ends at most at lo *)
Definition mc_inv (n cv lo : nat) (g : dense) : Prop :=
  dwf g /\ dn g = n /\ cv <= lo /\
  forall x y, x < y -> dadj g x y = true -> x < cv \/ (x = cv /\ y <= lo).

Lemma multicode_byte_add g cv u b : dwf g -> cv < u -> u < dn g -> dadj g u cv = false ->
  Z.to_nat b - 1 = u -> (b =? 0)%Z = false ->
  exists g', d_add_edge g u cv = Some g' /\
    multicode_byte (darr g, ddeg g, dm g, cv) b = Some (darr g', ddeg g', dm g', cv) /\ dlen g' = dlen g.
Proof.
  intros W Hcu Hu Hf Hb Hz. unfold multicode_byte. rewrite Hz, Hb.
  destruct (dwf_add_edge g u cv W Hu ltac:(lia)) as (g' & E & _).
  exists g'. split; [exact E|]. unfold d_add_edge in E.
  destruct (Nat.eqb_spec u cv); [lia|]. rewrite dwf_is_edge, Hf in E by auto.
  destruct (Nat.ltb_spec u cv); [lia|].
  unfold d_set in E. pose proof (tri_bound cv u (dn g) Hcu Hu) as Hb'. rewrite <- (dwf_len g W) in Hb'.
  destruct (modify (ddeg g) u 1) as [d1|]; [|discriminate].
  destruct (modify d1 cv 1) as [d2|]; [|discriminate].
  destruct (Nat.ltb_spec (tri u + cv) (dlen g)); [|lia].
  destruct (set_nth (darr g) (tri u + cv) 1%Z) as [arr|]; [|discriminate].
  inversion E; subst. cbn [darr ddeg dm dlen]. auto.
Qed.

Lemma multicode_loop_ok n : forall s cv lo g, mc_valid n cv lo s -> mc_inv n cv lo g -> dlen g = tri n ->
  exists g' cv', foldM multicode_byte s (darr g, ddeg g, dm g, cv) = Some (darr g', ddeg g', dm g', cv') /\
    dwf g' /\ dn g' = n /\ dlen g' = tri n /\ (0 < n -> cv' = n - 1).
Proof.
  induction s as [|b t IH]; intros cv lo g Hv (W & N & Hl & Hi) Hd.
  - exists g, cv. cbn. auto.
  - cbn [mc_valid] in Hv. cbn [foldM].
    destruct (Z.eqb_spec b 0) as [->|Hb0].
    + cbn [multicode_byte Z.eqb]. apply (IH (S cv) (S cv) g Hv); auto.
      split; [auto|]. split; [auto|]. split; [lia|]. intros x y Hxy Hd'.
      destruct (Hi x y Hxy Hd') as [H|[H _]]; lia.
    + destruct Hv as (Hpos & Hlo & Hun & Hv). set (u := Z.to_nat b - 1) in *.
      assert (Hf : dadj g u cv = false).
      { destruct (dadj g u cv) eqn:E; [|reflexivity]. rewrite dadj_sym in E.
        destruct (Hi cv u ltac:(lia) E) as [H|[_ H]]; lia. }
      destruct (multicode_byte_add g cv u b W ltac:(lia) ltac:(lia) Hf eq_refl) as (g' & E & Eb & Dl).
      { destruct (Z.eqb_spec b 0); [lia|reflexivity]. }
      rewrite Eb.
      destruct (dwf_add_edge g u cv W ltac:(lia) ltac:(lia)) as (g2 & E2 & W2 & N2 & [_ A2]).
      rewrite E in E2. inversion E2; subst g2.
      apply (IH cv u g' Hv); [|lia].
      split; [exact W2|]. split; [lia|]. split; [lia|].
      intros x y Hxy Hd'. cbn [adj dabs a_add_edge] in A2. rewrite A2 in Hd'.
      apply orb_true_iff in Hd'. destruct Hd' as [Hd'|Hd'].
      * destruct (Hi x y Hxy Hd') as [H|[H1 H2]]; [auto|right; lia].
      * apply andb_true_iff in Hd'. destruct Hd' as [_ Hd']. apply pairb_true in Hd'. right. lia.
Qed.

Theorem multicode_decode_ok b0 rest : (0 <= b0)%Z -> mc_valid (Z.to_nat b0) 0 0 rest ->
  exists g, multicode_decode (b0 :: rest) = Some g /\ dwf g /\ dn g = Z.to_nat b0.
Proof.
  intros Hb Hv. unfold multicode_decode. set (n := Z.to_nat b0) in *.
  destruct (multicode_loop_ok n rest 0 0 (d_empty n) Hv) as (g' & cv' & E & W & N & Dl & Hc).
  - split; [apply d_empty_dwf|]. split; [reflexivity|]. split; [lia|].
    intros x y _ H. rewrite dadj_empty in H. discriminate.
  - reflexivity.
  - cbn [d_empty darr ddeg dm] in E. fold (zeros (tri n)) in E. fold (zeros n) in E. rewrite E.
    assert (Hfin : (0 <? n) && negb (cv' =? n - 1) = false).
    { destruct (Nat.ltb_spec 0 n); [|reflexivity]. cbn [andb]. rewrite (Hc H), Nat.eqb_refl. reflexivity. }
    rewrite Hfin. eexists. split; [reflexivity|].
    assert (Eg : mkDense n (dm g') (ddeg g') (darr g') (tri n) = g').
    { destruct g'. cbn in *. subst. reflexivity. }
    rewrite Eg. auto.
Qed.
