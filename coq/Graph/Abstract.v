(* The abstract simple graph: well-formedness, its preservation by the edit operations, and the
   effect of every operation on degrees and on the number of edges. *)
From Coq Require Import List ZArith Arith Bool Lia.
From Mamba Require Import Graph.Model Graph.Lists.
Import ListNotations.

Record awf (a : agraph) : Prop := mkAwf {
  awf_sym : forall x y, adj a x y = adj a y x;
  awf_irr : forall x, adj a x x = false;
  awf_dom : forall x y, adj a x y = true -> x < an a }.

Lemma awf_dom2 a x y : awf a -> adj a x y = true -> y < an a.
Proof. intros W H. rewrite (awf_sym a W) in H. eapply awf_dom; eauto. Qed.

Lemma awf_out a x y : awf a -> an a <= x -> adj a x y = false.
Proof.
  intros W H. destruct (adj a x y) eqn:E; auto. apply (awf_dom a W) in E. lia.
Qed.

Lemma awf_out2 a x y : awf a -> an a <= y -> adj a x y = false.
Proof. intros W H. rewrite (awf_sym a W). apply awf_out; auto. Qed.

Definition op_valid (n : nat) (o : op) : Prop :=
  match o with
  | OAddV nbrs => NoDup nbrs /\ (forall x, In x nbrs -> x < n)
  | ORemV v => v < n
  | OAddE i j | ORemE i j => i < n /\ j < n
  | OCopy => True
  | OInduced V => NoDup V /\ (forall x, In x V -> x < n)
  end.

Lemma forallb_lt l n : forallb (fun x => x <? n) l = true <-> (forall x, In x l -> x < n).
Proof.
  rewrite forallb_forall. split; intros H x Hx; specialize (H x Hx).
  - apply Nat.ltb_lt; auto.
  - apply Nat.ltb_lt; auto.
Qed.

Lemma op_validb_spec n o : op_validb n o = true <-> op_valid n o.
Proof.
  destruct o; simpl; rewrite ?andb_true_iff, ?forallb_lt, ?nodupb_true, ?Nat.ltb_lt; tauto.
Qed.

Ltac bd :=
  repeat match goal with
  | |- context [Nat.eqb ?a ?b] => destruct (Nat.eqb_spec a b)
  | |- context [Nat.ltb ?a ?b] => destruct (Nat.ltb_spec a b)
  | |- context [Nat.leb ?a ?b] => destruct (Nat.leb_spec a b)
  end.

(* ---------------------------------------------------------------- well-formedness is preserved *)
Lemma awf_empty n : awf (a_empty n).
Proof. constructor; simpl; auto; discriminate. Qed.

Lemma awf_add_edge a i j : awf a -> i < an a -> j < an a -> awf (a_add_edge a i j).
Proof.
  intros W Hi Hj. constructor; simpl.
  - intros x y. rewrite (awf_sym a W x y). bd; subst; simpl; rewrite ?orb_false_r; auto; lia.
  - intros x. rewrite (awf_irr a W). bd; subst; simpl; auto; lia.
  - intros x y. destruct (adj a x y) eqn:E; [intros _; eapply awf_dom; eauto|].
    bd; subst; simpl; auto; discriminate.
Qed.

Lemma awf_remove_edge a i j : awf a -> awf (a_remove_edge a i j).
Proof.
  intros W. constructor; simpl.
  - intros x y. rewrite (awf_sym a W x y). bd; subst; simpl; auto; try lia.
  - intros x. rewrite (awf_irr a W). auto.
  - intros x y H. apply andb_true_iff in H. apply (awf_dom a W x y). apply H.
Qed.

Lemma awf_add_vertex a nbrs : awf a -> awf (a_add_vertex a nbrs).
Proof.
  intros W. constructor; simpl.
  - intros x y. bd; subst; auto; try lia. apply (awf_sym a W).
  - intros x. bd; subst; auto; try lia. apply (awf_irr a W).
  - intros x y. bd; subst; auto; try lia; try discriminate.
    intros H. apply (awf_dom a W) in H. lia.
Qed.

Lemma awf_remove_vertex a v : awf a -> awf (a_remove_vertex a v).
Proof.
  intros W. constructor; simpl.
  - intros x y. rewrite (awf_sym a W (up v x)). bd; simpl; auto; lia.
  - intros x. rewrite (awf_irr a W). bd; auto.
  - intros x y. bd; simpl; auto; discriminate.
Qed.

Lemma awf_induced a V : awf a -> awf (a_induced a V).
Proof.
  intros W. constructor; simpl.
  - intros x y. destruct (nth_error V x), (nth_error V y); auto. apply (awf_sym a W).
  - intros x. destruct (nth_error V x); auto. apply (awf_irr a W).
  - intros x y. destruct (nth_error V x) eqn:E; [|discriminate].
    intros _. apply nth_error_Some. congruence.
Qed.

Lemma awf_step a o : awf a -> op_valid (an a) o ->
  awf (fst (a_step a o)) /\ (forall b, snd (a_step a o) = Some b -> awf b).
Proof.
  intros W Hv. destruct o; simpl in *; split; try discriminate.
  - apply awf_add_vertex; auto.
  - apply awf_remove_vertex; auto.
  - apply awf_add_edge; tauto.
  - apply awf_remove_edge; auto.
  - auto.
  - intros b E. inversion E; subst; auto.
  - auto.
  - intros b E. inversion E; subst. apply awf_induced; auto.
Qed.

(* ---------------------------------------------------------------- handshake *)
Lemma handshake_gen (f : nat -> nat -> bool) :
  (forall x y, f x y = f y x) -> (forall x, f x x = false) ->
  forall n, zsum (fun v => zsum (fun u => b2z (f v u)) n) n
            = (2 * zsum (fun j => zsum (fun i => b2z (f i j)) j) n)%Z.
Proof.
  intros Hs Hi. induction n; [reflexivity|].
  cbn [zsum]. rewrite zsum_add, IHn, Hi.
  rewrite (zsum_ext (fun u => b2z (f n u)) (fun v => b2z (f v n))) by (intros; rewrite Hs; auto).
  simpl b2z. lia.
Qed.

Lemma handshake a : awf a -> zsum (a_deg a) (an a) = (2 * a_M a)%Z.
Proof. intros W. apply handshake_gen; [apply (awf_sym a W) | apply (awf_irr a W)]. Qed.

Lemma a_deg_range a v : (0 <= a_deg a v <= Z.of_nat (an a))%Z.
Proof.
  unfold a_deg. generalize (an a). induction n; cbn [zsum]; [lia|].
  pose proof (b2z_range (adj a v n)). lia.
Qed.

(* ---------------------------------------------------------------- effect of the operations *)
Lemma b2z_orb_disj x y : (x && y = false) -> b2z (x || y) = (b2z x + b2z y)%Z.
Proof. destruct x, y; simpl; intros; auto; discriminate. Qed.

Lemma deg_add_edge a i j v : awf a -> i < an a -> j < an a -> i <> j -> adj a i j = false ->
  a_deg (a_add_edge a i j) v = (a_deg a v + ind v i + ind v j)%Z.
Proof.
  intros W Hi Hj Hne He. unfold a_deg. cbn [an adj a_add_edge].
  rewrite (zsum_ext _ (fun u => (b2z (adj a v u) + ind v i * ind u j + ind v j * ind u i)%Z)).
  - rewrite !zsum_add, !zsum_scale, !zsum_ind_lt by auto. lia.
  - intros u _. unfold ind. assert (He' : adj a j i = false) by (rewrite (awf_sym a W); auto).
    destruct (Nat.eqb_spec i j); [lia|].
    destruct (Nat.eqb_spec v i), (Nat.eqb_spec u j), (Nat.eqb_spec v j), (Nat.eqb_spec u i);
      subst; try lia; rewrite ?He, ?He'; simpl;
      try (match goal with |- context [adj a ?x ?y] => destruct (adj a x y) end); simpl; lia.
Qed.

Lemma deg_remove_edge a i j v : awf a -> adj a i j = true ->
  a_deg (a_remove_edge a i j) v = (a_deg a v - ind v i - ind v j)%Z.
Proof.
  intros W He.
  assert (Hi : i < an a) by (eapply awf_dom; eauto).
  assert (Hj : j < an a) by (eapply awf_dom2; eauto).
  assert (Hne : i <> j) by (intros ->; rewrite (awf_irr a W) in He; discriminate).
  unfold a_deg. cbn [an adj a_remove_edge].
  rewrite (zsum_ext _ (fun u => (b2z (adj a v u) - ind v i * ind u j - ind v j * ind u i)%Z)).
  - rewrite !zsum_sub, !zsum_scale, !zsum_ind_lt by auto. lia.
  - intros u _. unfold ind. assert (He' : adj a j i = true) by (rewrite (awf_sym a W); auto).
    destruct (Nat.eqb_spec v i), (Nat.eqb_spec u j), (Nat.eqb_spec v j), (Nat.eqb_spec u i);
      subst; try lia; rewrite ?He, ?He'; simpl;
      try (match goal with |- context [adj a ?x ?y] => destruct (adj a x y) end); simpl; lia.
Qed.

Lemma zsum_deg_shift f (g : nat -> Z) n :
  zsum (fun v => (f v + g v)%Z) n = (zsum f n + zsum g n)%Z.
Proof. apply zsum_add. Qed.

Lemma M_add_edge a i j : awf a -> i < an a -> j < an a -> i <> j -> adj a i j = false ->
  a_M (a_add_edge a i j) = (a_M a + 1)%Z.
Proof.
  intros W Hi Hj Hne He.
  pose proof (handshake _ (awf_add_edge a i j W Hi Hj)) as H1.
  pose proof (handshake a W) as H0.
  cbn [an a_add_edge] in H1.
  rewrite (zsum_ext _ (fun v => (a_deg a v + ind v i + ind v j)%Z)) in H1
    by (intros; apply deg_add_edge; auto).
  rewrite !zsum_add, !zsum_ind_lt in H1 by auto. lia.
Qed.

Lemma M_remove_edge a i j : awf a -> adj a i j = true ->
  a_M (a_remove_edge a i j) = (a_M a - 1)%Z.
Proof.
  intros W He.
  assert (Hi : i < an a) by (eapply awf_dom; eauto).
  assert (Hj : j < an a) by (eapply awf_dom2; eauto).
  pose proof (handshake _ (awf_remove_edge a i j W)) as H1.
  pose proof (handshake a W) as H0.
  cbn [an a_remove_edge] in H1.
  rewrite (zsum_ext _ (fun v => (a_deg a v - ind v i - ind v j)%Z)) in H1
    by (intros; apply deg_remove_edge; auto).
  rewrite !zsum_sub, !zsum_ind_lt in H1 by auto. lia.
Qed.

Lemma deg_add_vertex a nbrs v : awf a -> NoDup nbrs -> (forall x, In x nbrs -> x < an a) ->
  v <= an a ->
  a_deg (a_add_vertex a nbrs) v =
    if v =? an a then Z.of_nat (length nbrs) else (a_deg a v + b2z (mem v nbrs))%Z.
Proof.
  intros W Hnd Hlt Hv. unfold a_deg. cbn [an adj a_add_vertex zsum].
  destruct (Nat.eqb_spec v (an a)) as [->|Hne].
  - rewrite Nat.eqb_refl, Nat.ltb_irrefl. simpl b2z.
    rewrite (zsum_ext _ (fun u => b2z (mem u nbrs))).
    + rewrite zsum_mem; auto. lia.
    + intros u Hu. bd; try lia; try reflexivity.
  - rewrite Nat.eqb_refl. destruct (Nat.ltb_spec v (an a)); [|lia]. simpl andb.
    f_equal. apply zsum_ext. intros u Hu. bd; try lia; try reflexivity.
Qed.

Lemma M_add_vertex a nbrs : awf a -> NoDup nbrs -> (forall x, In x nbrs -> x < an a) ->
  a_M (a_add_vertex a nbrs) = (a_M a + Z.of_nat (length nbrs))%Z.
Proof.
  intros W Hnd Hlt. unfold a_M. cbn [an adj a_add_vertex zsum]. f_equal.
  - apply zsum_ext. intros j Hj. apply zsum_ext. intros i Hi. bd; try lia; try reflexivity.
  - rewrite <- (zsum_mem nbrs (an a)); auto. apply zsum_ext. intros i Hi.
    rewrite Nat.eqb_refl. bd; try lia; try reflexivity.
Qed.

Lemma deg_remove_vertex a v x : awf a -> v < an a -> x < an a - 1 ->
  a_deg (a_remove_vertex a v) x = (a_deg a (up v x) - b2z (adj a (up v x) v))%Z.
Proof.
  intros W Hv Hx. unfold a_deg. cbn [an adj a_remove_vertex].
  rewrite (zsum_ext _ (fun u => (fun y => b2z (adj a (up v x) y)) (up v u))).
  - rewrite (zsum_skip (fun y => b2z (adj a (up v x) y)) v (an a - 1)) by lia.
    replace (S (an a - 1)) with (an a) by lia. reflexivity.
  - intros u Hu. bd; try lia; try reflexivity.
Qed.

Lemma M_remove_vertex a v : awf a -> v < an a ->
  a_M (a_remove_vertex a v) = (a_M a - a_deg a v)%Z.
Proof.
  intros W Hv.
  pose proof (handshake _ (awf_remove_vertex a v W)) as H1.
  pose proof (handshake a W) as H0.
  cbn [an a_remove_vertex] in H1.
  rewrite (zsum_ext _ (fun x => (fun y => (a_deg a y - b2z (adj a y v))%Z) (up v x))) in H1
    by (intros; apply deg_remove_vertex; auto).
  rewrite (zsum_skip (fun y => (a_deg a y - b2z (adj a y v))%Z) v (an a - 1)) in H1 by lia.
  replace (S (an a - 1)) with (an a) in H1 by lia.
  rewrite zsum_sub in H1. rewrite (awf_irr a W) in H1. simpl b2z in H1.
  assert (E : zsum (fun y => b2z (adj a y v)) (an a) = a_deg a v).
  { unfold a_deg. apply zsum_ext. intros. rewrite (awf_sym a W). reflexivity. }
  lia.
Qed.

(* ---------------------------------------------------------------- neighbour lists *)
Lemma length_filter_zsum (p : nat -> bool) n :
  Z.of_nat (length (filter p (seq 0 n))) = zsum (fun u => b2z (p u)) n.
Proof.
  induction n; [reflexivity|].
  rewrite seq_S, filter_app, app_length, Nat2Z.inj_add, IHn. cbn [zsum]. simpl.
  destruct (p n); simpl; lia.
Qed.

Lemma a_deg_neighbours a v : a_deg a v = Z.of_nat (length (a_neighbours a v)).
Proof. unfold a_neighbours, a_deg. rewrite length_filter_zsum. reflexivity. Qed.

Lemma a_neighbours_in a v u : awf a -> In u (a_neighbours a v) <-> adj a v u = true.
Proof.
  intros W. unfold a_neighbours. rewrite filter_In, in_seq. split; [tauto|].
  intros H. split; auto. pose proof (awf_dom2 a v u W H). lia.
Qed.

(* ---------------------------------------------------------------- extensional equality *)
(* agraph carries a function: the edit operations are compared up to pointwise equality *)
Definition aeq (a b : agraph) : Prop := an a = an b /\ forall x y, adj a x y = adj b x y.

Lemma aeq_refl a : aeq a a.
Proof. split; auto. Qed.

Lemma aeq_sym a b : aeq a b -> aeq b a.
Proof. intros [H1 H2]. split; auto. Qed.

Lemma aeq_trans a b c : aeq a b -> aeq b c -> aeq a c.
Proof. intros [H1 H2] [H3 H4]. split; [congruence|]. intros. rewrite H2. auto. Qed.

Lemma aeq_awf a b : aeq a b -> awf a -> awf b.
Proof.
  intros [H1 H2] W. constructor.
  - intros. rewrite <- !H2. apply (awf_sym a W).
  - intros. rewrite <- H2. apply (awf_irr a W).
  - intros x y. rewrite <- H2, <- H1. apply (awf_dom a W).
Qed.

Lemma aeq_deg a b v : aeq a b -> a_deg a v = a_deg b v.
Proof. intros [H1 H2]. unfold a_deg. rewrite H1. apply zsum_ext. intros. rewrite H2. auto. Qed.

Lemma aeq_M a b : aeq a b -> a_M a = a_M b.
Proof.
  intros [H1 H2]. unfold a_M. rewrite H1. apply zsum_ext. intros. apply zsum_ext. intros.
  rewrite H2. auto.
Qed.

Lemma aeq_neighbours a b v : aeq a b -> a_neighbours a v = a_neighbours b v.
Proof. intros [H1 H2]. unfold a_neighbours. rewrite H1. apply filter_ext. intros. apply H2. Qed.

Lemma aeq_degrees a b : aeq a b -> a_degrees a = a_degrees b.
Proof.
  intros H. unfold a_degrees. destruct H as [H1 H2]. rewrite H1. apply map_ext. intros.
  apply aeq_deg. split; auto.
Qed.

Lemma aeq_add_edge_comm a i j : aeq (a_add_edge a i j) (a_add_edge a j i).
Proof.
  split; auto. intros x y. simpl. rewrite (Nat.eqb_sym j i). f_equal. f_equal. apply orb_comm.
Qed.

Lemma aeq_add_edge_same a i : aeq (a_add_edge a i i) a.
Proof. split; auto. intros x y. simpl. rewrite Nat.eqb_refl. simpl. apply orb_false_r. Qed.

Lemma aeq_add_edge_present a i j : awf a -> adj a i j = true -> aeq (a_add_edge a i j) a.
Proof.
  intros W H. split; auto. intros x y. simpl.
  assert (H' : adj a j i = true) by (rewrite (awf_sym a W); auto).
  bd; subst; simpl; rewrite ?H, ?H'; auto; apply orb_false_r.
Qed.

Lemma aeq_remove_edge_absent a i j : awf a -> adj a i j = false -> aeq (a_remove_edge a i j) a.
Proof.
  intros W H. split; auto. intros x y. simpl.
  assert (H' : adj a j i = false) by (rewrite (awf_sym a W); auto).
  bd; subst; simpl; rewrite ?H, ?H'; auto; apply andb_true_r.
Qed.

Lemma aeq_remove_edge_comm a i j : aeq (a_remove_edge a i j) (a_remove_edge a j i).
Proof. split; auto. intros x y. simpl. f_equal. f_equal. apply orb_comm. Qed.

(* ---------------------------------------------------------------- the neighbour list is ascending *)
From Coq Require Sorted.
Lemma filter_seq_sorted (p : nat -> bool) a n : Sorted.StronglySorted lt (filter p (seq a n)).
Proof.
  revert a. induction n; intros a; simpl; [constructor|].
  destruct (p a); auto. constructor; auto.
  apply Forall_forall. intros x Hx. apply filter_In in Hx. destruct Hx as [Hx _].
  apply in_seq in Hx. lia.
Qed.

Lemma a_neighbours_sorted a v : Sorted.StronglySorted lt (a_neighbours a v).
Proof. apply filter_seq_sorted. Qed.

Lemma a_degrees_length a : length (a_degrees a) = an a.
Proof. unfold a_degrees. rewrite map_length, seq_length. auto. Qed.

Lemma a_degrees_nth a v : v < an a -> nth v (a_degrees a) 0%Z = a_deg a v.
Proof.
  intros H. unfold a_degrees. rewrite (nth_indep _ 0%Z (a_deg a 0)) by (rewrite map_length, seq_length; auto).
  rewrite map_nth, seq_nth; auto.
Qed.

(* a list of integers is determined by its length and its entries *)
Lemma list_Z_ext (l1 l2 : list Z) : length l1 = length l2 ->
  (forall k, k < length l1 -> nth k l1 0%Z = nth k l2 0%Z) -> l1 = l2.
Proof.
  revert l2. induction l1; destruct l2; simpl; intros; try lia; auto. f_equal.
  - apply (H0 0). lia.
  - apply IHl1; [lia|]. intros k Hk. apply (H0 (S k)). lia.
Qed.
